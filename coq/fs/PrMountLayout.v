(* PROOFS for C04 (and the volume hypotheses of C01/C03/C05): what the MOUNT CODE establishes.
   PrBounds proves "every write lands in its region" UNDER part_layout; PrAlloc/PrAllocEffect/
   PrOpenClose work under vol_ok / fat_layout / clusters_fit / info_ok / hint_ok.  Here: which
   of these follow from a successful FsMgr.parse_volume (Bpb::create_from_bytes + parse_volume
   of the crate) and FsMgr.open_raw_volume, and, for each conjunct that does NOT follow, a
   concrete boot sector that mounts and violates it.
   1 inversion of bpb_create / parse_volume: mount_facts, the relational reading of the code;
   2 mount_layout / mount_checks: what every mounted volume has; C04_mount_layout: part_layout
     (w.r.t. the BPB's total block count and FAT size) holds of EVERY mounted volume - the four
     conditions (reserved >= 1, FATs >= 1, cluster count below the bad-cluster mark, the FAT covers
     the clusters) that were unchecked before the repairs D35-D37 are now refusals of the code;
     mount_layout_nblocks: the same w.r.t. the partition entry's size v_nblocks needs, in
     addition, that the BPB's total does not exceed it - that is NOT checked (known finding D38);
   3 the other volume predicates, all unconditional now (mount_vol_ok, mount_fat_layout,
     mount_clusters_fit, mount_link_ok, mount_spc, mount_info_ok, mount_hint_ok);
   4 open_raw_volume: C04_open_volume_layout;
   5 witnesses: *_refused - the boot sectors that used to mount although a conjunct failed are
     refused now (FormatError); open_refutes_partition_size - the recorded known finding;
   6 non-vacuity: a formatted FAT16 and a FAT32 boot sector mount and satisfy everything.
   Everything is for ALL inputs; no bounds.
   Build order: after PrBounds and PrOpenClose. *)
From Coq Require Import NArith ZArith List Bool Lia Arith ZifyClasses ZifyInst Zify FMapPositive.
From SdFs Require Import FsTypes FsBase FsFat FsMgr FsLemmas PrBase PrFat PrAlloc PrDir PrOrder
                         PrAllocEffect PrBounds.
From SdFs Require PrEntry PrCount PrWrite PrOpenClose.   (* qualified use only *)
Import ListNotations.
Open Scope N_scope.
Local Arguments N.mul : simpl never.
Local Arguments N.add : simpl never.
Local Arguments N.sub : simpl never.
Local Arguments N.div : simpl never.
Local Arguments N.modulo : simpl never.
Local Arguments N.land : simpl never.
Local Arguments N.lor : simpl never.
Local Ltac Zify.zify_post_hook ::= Z.to_euclidean_division_equations.

(* ================================================================== 1. inversion of the mount code *)
Lemma ret_inv {A} (a x : A) s s' : ret a s = (Ok x, s') -> x = a /\ s' = s.
Proof. unfold ret. intros H. inversion H. auto. Qed.
Lemma fail_inv {A} e (x : A) s s' : @fail A e s = (Ok x, s') -> False.
Proof. unfold fail. intros H. discriminate H. Qed.

(* the block a successful cache_read hands out: the cached one when the tag matches, else the
   device's *)
Definition cached (s : st) (i : N) : block :=
  if opt_eqb (s_tag s) i then s_cache s else disk_get (s_disk s) i.

Lemma cache_read_ok_inv i s b s' : cache_read i s = (Ok b, s') ->
  b = cached s i /\ s_vols s' = s_vols s /\ s_next_id s' = s_next_id s /\ s_lock s' = s_lock s /\
  s_disk s' = s_disk s /\ s_maxv s' = s_maxv s.
Proof.
  unfold cache_read, cached. unfold bind at 1. unfold get at 1.
  destruct (opt_eqb (s_tag s) i) eqn:Ht.
  - intros H. apply ret_inv in H. destruct H as [-> ->]. repeat split; reflexivity.
  - unfold bind, modify, try, dev_read, fail, ret.
    destruct (faulty (set_s_tag s None)); intros H; inversion H; subst. repeat split; reflexivity.
Qed.

(* the non-data block count of Bpb::create_from_bytes: FAT copies + reserved + root region *)
Definition bpb_non_data (b : block) : N :=
  get8 b 16 * bpb_fat_size b + le16 b 14 + from_bytes (le16 b 17 * 32).

Lemma bpb_create_inv b s cc f32 s' : bpb_create b s = (Ok (cc, f32), s') ->
  s' = s /\ le16 b 510 = 43605 /\ bpb_non_data b < U32 /\ bpb_non_data b <= bpb_total_blocks b /\
  get8 b 13 <> 0 /\ cc = (bpb_total_blocks b - bpb_non_data b) / get8 b 13 /\ 4085 <= cc /\
  (f32 = false -> cc < 65525) /\ (f32 = true -> 65525 <= cc /\ le16 b 42 = 0).
Proof.
  unfold bpb_create, bpb_non_data. intros H.
  destruct (le16 b 510 =? 43605) eqn:Hsig; [|exfalso; exact (fail_inv _ _ _ _ H)].
  cbn [negb] in H. apply N.eqb_eq in Hsig.
  destruct (N.leb_spec U32 (get8 b 16 * bpb_fat_size b)) as [H1|H1]; [exfalso; exact (fail_inv _ _ _ _ H)|].
  destruct (N.leb_spec U32 (get8 b 16 * bpb_fat_size b + le16 b 14)) as [H2|H2]; [exfalso; exact (fail_inv _ _ _ _ H)|].
  destruct (N.leb_spec U32 (get8 b 16 * bpb_fat_size b + le16 b 14 + from_bytes (le16 b 17 * 32))) as [H3|H3];
    [exfalso; exact (fail_inv _ _ _ _ H)|].
  destruct (N.ltb_spec (bpb_total_blocks b) (get8 b 16 * bpb_fat_size b + le16 b 14 + from_bytes (le16 b 17 * 32)))
    as [H4|H4]; [exfalso; exact (fail_inv _ _ _ _ H)|].
  destruct (N.eqb_spec (get8 b 13) 0) as [H5|H5]; [exfalso; exact (fail_inv _ _ _ _ H)|].
  match type of H with context[?x / get8 b 13] => remember (x / get8 b 13) as q eqn:Eq end.
  destruct (N.ltb_spec q 4085) as [H6|H6]; [exfalso; exact (fail_inv _ _ _ _ H)|].
  destruct (N.ltb_spec q 65525) as [H7|H7].
  - apply ret_inv in H. destruct H as [E ->]. inversion E; subst cc f32.
    repeat (split; [assumption || reflexivity|]). split; [intros _; exact H7|discriminate].
  - destruct (N.eqb_spec (le16 b 42) 0) as [H8|H8]; [|exfalso; exact (fail_inv _ _ _ _ H)].
    apply ret_inv in H. destruct H as [E ->]. inversion E; subst cc f32.
    repeat (split; [assumption || reflexivity|]). split; [discriminate|intros _; split; assumption].
Qed.

(* the relational reading of parse_volume: b is the boot sector that was read, v the result *)
Record mount_facts (b : block) (id idx lba nb : N) (v : vol) : Prop := mk_mount_facts {
  mf_sig : le16 b 510 = 43605;
  mf_nd : bpb_non_data b < U32;
  mf_total : bpb_non_data b <= bpb_total_blocks b;
  mf_spc : get8 b 13 <> 0;
  mf_cc : v_clusters v = (bpb_total_blocks b - bpb_non_data b) / get8 b 13;
  mf_min : 4085 <= v_clusters v;
  mf_t16 : v_fat32 v = false -> v_clusters v < 65525;
  mf_t32 : v_fat32 v = true -> 65525 <= v_clusters v /\ le16 b 42 = 0;
  mf_dev : lba + bpb_total_blocks b < U32;
  mf_id : v_id v = id;
  mf_idx : v_idx v = idx;
  mf_lba : v_lba v = lba;
  mf_nb : v_nblocks v = nb;
  mf_vspc : v_spc v = get8 b 13;
  mf_fat : v_fat_start v = le16 b 14;
  mf_second : v_second_fat v = if get8 b 16 =? 2 then Some (le16 b 14 + bpb_fat_size b) else None;
  mf_first : v_first_data v = le16 b 14 + get8 b 16 * bpb_fat_size b +
                              (if v_fat32 v then 0 else (le16 b 17 * 32 + 511) / 512);
  mf_first32 : v_first_data v < U32;
  mf_16 : v_fat32 v = false ->
          le16 b 11 = 512 /\ v_root_entries v = le16 b 17 /\
          v_root_block v = le16 b 14 + get8 b 16 * bpb_fat_size b /\
          v_free v = None /\ v_next_free v = None /\ v_name v = slice b 43 11;
  mf_32 : v_fat32 v = true ->
          le16 b 48 <> 0 /\ le16 b 48 < le16 b 14 /\ v_info v = lba + le16 b 48 /\
          lba + le16 b 48 < U32 /\ v_root_cluster v = le32 b 44 /\ v_name v = slice b 71 11 /\
          exists fc nx,
            v_free v = (if fc =? 4294967295 then None else Some fc) /\
            v_next_free v = (if (nx =? 4294967295) || (nx =? 0) || (nx =? 1) || (v_clusters v + 2 <=? nx) then None else Some nx);
  (* the refusals added by the repairs D35-D37 *)
  mf_reserved : 1 <= le16 b 14;
  mf_nfats : 1 <= get8 b 16;
  mf_cover : (v_clusters v + 2) * fat_width v <= bpb_fat_size b * 512;
  mf_count32 : v_fat32 v = true -> v_clusters v <= 268435445
}.

Theorem parse_volume_inv id idx lba nb s v s' : parse_volume id idx lba nb s = (Ok v, s') ->
  exists b s1, cache_read lba s = (Ok b, s1) /\ mount_facts b id idx lba nb v /\
               s_vols s' = s_vols s /\ s_next_id s' = s_next_id s /\ s_lock s' = s_lock s /\
               s_maxv s' = s_maxv s.
Proof.
  intros H. unfold parse_volume in H.
  inv_bind H as b s1 Hb. exists b, s1. split; [exact Hb|].
  apply cache_read_ok_inv in Hb. destruct Hb as (_ & Bv & Bn & Bl & _ & Bm).
  inv_bind H as p s2 Hc. destruct p as [cc f32]. cbv beta iota in H.
  apply bpb_create_inv in Hc. destruct Hc as (-> & Hsig & Hnd & Htot & Hspc & Hcc & Hmin & H16 & H32).
  destruct (N.leb_spec U32 (lba + bpb_total_blocks b)) as [Hdev|Hdev]; [exfalso; exact (fail_inv _ _ _ _ H)|].
  destruct (N.eqb_spec (le16 b 14) 0) as [Hr0|Hr0]; [exfalso; exact (fail_inv _ _ _ _ H)|].
  destruct (N.eqb_spec (get8 b 16) 0) as [Hn0|Hn0]; [exfalso; exact (fail_inv _ _ _ _ H)|].
  cbn [orb] in H.
  destruct (N.ltb_spec (bpb_fat_size b * 512) ((cc + 2) * (if f32 then 4 else 2))) as [Hcv|Hcv];
    [exfalso; exact (fail_inv _ _ _ _ H)|].
  assert (Hr1 : 1 <= le16 b 14) by lia. assert (Hn1 : 1 <= get8 b 16) by lia. clear Hr0 Hn0.
  inv_bind H as second s3 Hs.
  assert (Hsec : s3 = s1 /\ second = (if get8 b 16 =? 2 then Some (le16 b 14 + bpb_fat_size b) else None)).
  { destruct (get8 b 16 =? 2).
    - inv_bind Hs as x s4 Hx. apply add32_inv in Hx. destruct Hx as (-> & -> & _).
      apply ret_inv in Hs. destruct Hs as [-> ->]. split; reflexivity.
    - apply ret_inv in Hs. destruct Hs as [-> ->]. split; reflexivity. }
  destruct Hsec as [-> Hsec]. clear Hs.
  destruct f32.
  - inv_bind H as nf s4 Hm. apply mul32_inv in Hm. destruct Hm as (-> & -> & Hm).
    inv_bind H as fd s4 Ha. apply add32_inv in Ha. destruct Ha as (-> & -> & Ha).
    destruct (N.ltb_spec 268435445 cc) as [Hc32|Hc32]; [exfalso; exact (fail_inv _ _ _ _ H)|].
    destruct (N.eqb_spec (le16 b 48) 0) as [Hi0|Hi0]; [exfalso; exact (fail_inv _ _ _ _ H)|].
    destruct (N.leb_spec (le16 b 14) (le16 b 48)) as [Hi1|Hi1]; [exfalso; exact (fail_inv _ _ _ _ H)|].
    cbn [orb] in H.
    inv_bind H as ia s4 Hia. apply add32_inv in Hia. destruct Hia as (-> & -> & Hia).
    inv_bind H as ib s4 Hib. apply cache_read_ok_inv in Hib. destruct Hib as (_ & Cv & Cn & Cl & _ & Cm).
    destruct (le32 ib 0 =? 1096897106); [|exfalso; exact (fail_inv _ _ _ _ H)].
    destruct (le32 ib 484 =? 1631679090); [|exfalso; exact (fail_inv _ _ _ _ H)].
    destruct (le32 ib 508 =? 2857697280); [|exfalso; exact (fail_inv _ _ _ _ H)].
    cbn [negb] in H. apply ret_inv in H. destruct H as [-> ->].
    split; [|repeat split; congruence].
    constructor; unfold fat_width;
      cbn [set_v_next_free set_v_free v_id v_idx v_lba v_nblocks v_name v_spc v_first_data v_fat_start
                      v_second_fat v_free v_next_free v_clusters v_fat32 v_root_entries v_root_block v_info
                      v_root_cluster]; try assumption; try reflexivity; try discriminate.
    + rewrite N.add_0_r. reflexivity.
    + intros _. repeat (split; [assumption || reflexivity|]). exists (le32 ib 488), (le32 ib 492). split; reflexivity.
    + intros _. exact Hc32.
  - destruct (N.eqb_spec (le16 b 11) 512) as [Hbs|Hbs]; [|exfalso; exact (fail_inv _ _ _ _ H)].
    cbn [negb] in H.
    inv_bind H as nf s4 Hm. apply mul32_inv in Hm. destruct Hm as (-> & -> & Hm).
    inv_bind H as fr s4 Ha. apply add32_inv in Ha. destruct Ha as (-> & -> & Ha).
    inv_bind H as fd s4 Ha2. apply add32_inv in Ha2. destruct Ha2 as (-> & -> & Ha2).
    apply ret_inv in H. destruct H as [-> ->].
    split; [|repeat split; congruence].
    constructor; unfold fat_width;
      cbn [v_id v_idx v_lba v_nblocks v_name v_spc v_first_data v_fat_start
                      v_second_fat v_free v_next_free v_clusters v_fat32 v_root_entries v_root_block v_info
                      v_root_cluster]; try assumption; try reflexivity; try discriminate.
    intros _. repeat split; assumption || reflexivity.
Qed.

(* the record does not depend on the handle *)
Lemma mount_facts_set_id b id0 id idx lba nb v :
  mount_facts b id0 idx lba nb v -> mount_facts b id idx lba nb (set_v_id v id).
Proof.
  intros [A1 A2 A3 A4 A5 A6 A7 A8 A9 A10 A11 A12 A13 A14 A15 A16 A17 A18 A19 A20 A21 A22 A23 A24].
  constructor; unfold set_v_id, fat_width in *;
    cbn [v_id v_idx v_lba v_nblocks v_name v_spc v_first_data v_fat_start v_second_fat v_free
         v_next_free v_clusters v_fat32 v_root_entries v_root_block v_info v_root_cluster]; try assumption.
  reflexivity.
Qed.

(* the arithmetic content, with the two products and the root-region size as opaque numbers *)
Lemma mount_arith b id idx lba nb v : mount_facts b id idx lba nb v ->
  exists X P rb,
    X = v_clusters v * v_spc v /\ P = get8 b 16 * bpb_fat_size b /\
    rb = (le16 b 17 * 32 + 511) / 512 /\ rb = from_bytes (le16 b 17 * 32) /\
    v_clusters v <= X /\ P + le16 b 14 + rb + X <= bpb_total_blocks b /\
    P + le16 b 14 + rb < U32 /\
    (get8 b 16 = 0 -> P = 0) /\ (1 <= get8 b 16 -> bpb_fat_size b <= P) /\
    (get8 b 16 = 2 -> P = bpb_fat_size b + bpb_fat_size b).
Proof.
  intros MF.
  exists (v_clusters v * v_spc v), (get8 b 16 * bpb_fat_size b), ((le16 b 17 * 32 + 511) / 512).
  split; [reflexivity|]. split; [reflexivity|]. split; [reflexivity|].
  split; [symmetry; apply from_bytes_spec|].
  pose proof (mf_spc _ _ _ _ _ _ MF) as Hspc. pose proof (mf_total _ _ _ _ _ _ MF) as Htot.
  pose proof (mf_nd _ _ _ _ _ _ MF) as Hnd.
  unfold bpb_non_data in *. rewrite from_bytes_spec in *.
  split.
  { rewrite <- (N.mul_1_r (v_clusters v)) at 1. apply N.mul_le_mono_l.
    rewrite (mf_vspc _ _ _ _ _ _ MF). lia. }
  split.
  { assert (Hm : v_clusters v * v_spc v <=
                 bpb_total_blocks b - (get8 b 16 * bpb_fat_size b + le16 b 14 + (le16 b 17 * 32 + 511) / 512)).
    { rewrite (mf_cc _ _ _ _ _ _ MF), (mf_vspc _ _ _ _ _ _ MF). unfold bpb_non_data. rewrite from_bytes_spec.
      rewrite N.mul_comm. apply N.mul_div_le. exact Hspc. }
    remember (v_clusters v * v_spc v) as X. remember (get8 b 16 * bpb_fat_size b) as P.
    remember ((le16 b 17 * 32 + 511) / 512) as rb. lia. }
  split; [exact Hnd|].
  split; [intros E; rewrite E; apply N.mul_0_l|].
  split.
  { intros E. rewrite <- (N.mul_1_l (bpb_fat_size b)) at 1. apply N.mul_le_mono_r. exact E. }
  intros E. rewrite E. lia.
Qed.

(* ================================================================== 2. the layout of a mounted volume *)
(* what EVERY mounted volume has (total = the BPB's total block count, fsz = the BPB's FAT size).
   Compared with part_layout: pl_dev, pl_spc, pl_fat1 (with equality), pl_data, pl_info and the
   second half of pl_root are there; pl_reserved only for FAT32, pl_count only for FAT16;
   pl_cover and the first half of pl_root are missing. *)
Record mount_layout (v : vol) (total fsz : N) : Prop := mk_mount_layout {
  ml_dev : v_lba v + total <= 4294967296;
  ml_spc : 1 <= v_spc v;
  ml_min : 4085 <= v_clusters v;
  ml_count16 : v_fat32 v = false -> v_clusters v + 2 <= 65526;
  ml_type32 : v_fat32 v = true -> 65525 <= v_clusters v;
  ml_reserved32 : v_fat32 v = true -> 2 <= v_fat_start v;
  ml_fat1 : forall sf, v_second_fat v = Some sf -> sf = v_fat_start v + fsz;
  ml_fat1_end : forall sf, v_second_fat v = Some sf ->
                sf + fsz = (if v_fat32 v then v_first_data v else v_root_block v);
  ml_fat_data : v_fat_start v <= v_first_data v;
  ml_root16 : v_fat32 v = false ->
              v_fat_start v <= v_root_block v /\ v_root_block v + root_size v = v_first_data v;
  ml_data : data_end v <= total;
  ml_data_pos : v_first_data v < total;
  ml_info : v_fat32 v = true -> v_lba v < v_info v /\ v_info v < v_lba v + v_fat_start v
}.

Theorem mount_layout_holds b id idx lba nb v : mount_facts b id idx lba nb v ->
  mount_layout v (bpb_total_blocks b) (bpb_fat_size b).
Proof.
  intros MF. destruct (mount_arith _ _ _ _ _ _ MF) as (X & P & rb & EX & EP & Erb & Erb' & HX & Hsum & Hnd & P0 & P1 & P2).
  destruct MF as [Hsig _ Htot Hspc Ecc Hmin H16 H32 Hdev Eid Eidx Elba Enb Espc Efat Esec Efirst Hf32 HF16 HF32 Hres Hnf Hcov Hc32].
  rewrite <- EP in *. unfold U32 in *.
  constructor; unfold data_end, root_size; rewrite <- ?EX.
  - lia.
  - lia.
  - exact Hmin.
  - intros E. specialize (H16 E). lia.
  - intros E. exact (proj1 (H32 E)).
  - intros E. destruct (HF32 E) as (I0 & I1 & _). lia.
  - intros sf E. rewrite Esec in E. destruct (get8 b 16 =? 2); [|discriminate]. inversion E. lia.
  - intros sf E. rewrite Esec in E. destruct (N.eqb_spec (get8 b 16) 2) as [E2|E2]; [|discriminate]. inversion E.
    specialize (P2 E2). destruct (v_fat32 v) eqn:E32.
    + lia.
    + destruct (HF16 eq_refl) as (_ & _ & Er & _). lia.
  - destruct (v_fat32 v); lia.
  - intros E. destruct (HF16 E) as (_ & Ere & Er & _). rewrite E in Efirst. rewrite Ere, <- Erb'. lia.
  - destruct (v_fat32 v); lia.
  - destruct (v_fat32 v); lia.
  - intros E. destruct (HF32 E) as (I0 & I1 & Ei & _). lia.
Qed.

(* the four conditions on the boot sector that the mount code did NOT check before the repairs
   D35-D37; each is a refusal (FormatError) of parse_volume now: mount_checks_hold *)
Record mount_checks (b : block) (v : vol) : Prop := mk_mount_checks {
  mc_reserved : 1 <= le16 b 14;                   (* BPB_RsvdSecCnt >= 1 : the FAT is not on the boot sector *)
  mc_nfats : 1 <= get8 b 16;                      (* BPB_NumFATs >= 1 : the data area starts behind the FAT *)
  mc_count : v_clusters v + 2 <= fat_bad v;       (* cluster numbers below the bad-cluster mark *)
  mc_cover : (v_clusters v + 2) * fat_width v <= bpb_fat_size b * 512   (* the FAT holds entries 0 .. N + 1 *)
}.

Definition mount_checksb (b : block) (v : vol) : bool * bool * bool * bool :=
  (1 <=? le16 b 14, 1 <=? get8 b 16, v_clusters v + 2 <=? fat_bad v,
   (v_clusters v + 2) * fat_width v <=? bpb_fat_size b * 512).

Lemma mount_checksb_ok b v : mount_checksb b v = (true, true, true, true) <-> mount_checks b v.
Proof.
  unfold mount_checksb. split.
  - intros E. injection E as E1 E2 E3 E4.
    apply N.leb_le in E1, E2, E3, E4. constructor; assumption.
  - intros [C1 C2 C3 C4]. apply N.leb_le in C1, C2, C3, C4. rewrite C1, C2, C3, C4. reflexivity.
Qed.

(* under the facts of a successful mount, the layout of PrBounds holds exactly when the four
   conditions do (this equivalence is why each of the four refusals is needed) *)
Theorem mount_part_layout_iff b id idx lba nb v : mount_facts b id idx lba nb v ->
  (part_layout v (bpb_total_blocks b) (bpb_fat_size b) <-> mount_checks b v).
Proof.
  intros MF. pose proof (mount_layout_holds _ _ _ _ _ _ MF) as ML.
  destruct (mount_arith _ _ _ _ _ _ MF) as (X & P & rb & EX & EP & Erb & Erb' & HX & Hsum & Hnd & P0 & P1 & P2).
  destruct ML as [L1 L2 L3 L4 L5 L6 L7 L8 L9 L10 L11 L12 L13].
  destruct MF as [Hsig _ Htot Hspc Ecc Hmin H16 H32 Hdev Eid Eidx Elba Enb Espc Efat Esec Efirst Hf32 HF16 HF32 Hres Hnf Hcov Hc32].
  rewrite <- EP in *.
  split.
  - intros [A1 A2 A3 A4 A5 A6 A7 A8 A9]. constructor.
    + lia.
    + (* a FAT copy is not empty (it covers N + 2 entries), so it cannot end where it starts *)
      assert (HF : 1 <= bpb_fat_size b).
      { destruct (fat_width_cases v) as [E|E]; rewrite E in A5; lia. }
      destruct (N.eq_dec (get8 b 16) 0) as [E0|E0]; [|lia]. exfalso. specialize (P0 E0).
      assert (E2 : (get8 b 16 =? 2) = false) by (apply N.eqb_neq; lia).
      rewrite E2 in Esec. unfold fats_end, fat1_start in A7. rewrite Esec in A7.
      destruct (v_fat32 v) eqn:E32.
      * lia.
      * destruct (HF16 eq_refl) as (_ & _ & Er & _). lia.
    + unfold fat_bad. exact A4.
    + exact A5.
  - intros [C1 C2 C3 C4]. specialize (P1 C2). constructor.
    + exact L1.
    + lia.
    + exact L2.
    + exact C3.
    + exact C4.
    + intros sf E. rewrite (L7 sf E). lia.
    + unfold fats_end, fat1_start. destruct (v_second_fat v) as [sf|] eqn:E.
      * pose proof (L8 sf eq_refl) as E8. destruct (v_fat32 v) eqn:E32.
        -- lia.
        -- destruct (L10 eq_refl) as [R1 R2]. lia.
      * destruct (v_fat32 v) eqn:E32.
        -- lia.
        -- destruct (L10 eq_refl) as [R1 R2]. destruct (HF16 eq_refl) as (_ & _ & Er & _). lia.
    + exact L11.
    + exact L13.
Qed.

Theorem mount_checks_hold b id idx lba nb v : mount_facts b id idx lba nb v -> mount_checks b v.
Proof.
  intros MF. constructor.
  - exact (mf_reserved _ _ _ _ _ _ MF).
  - exact (mf_nfats _ _ _ _ _ _ MF).
  - unfold fat_bad. pose proof (mf_t16 _ _ _ _ _ _ MF) as H16. pose proof (mf_count32 _ _ _ _ _ _ MF) as H32.
    destruct (v_fat32 v); [specialize (H32 eq_refl)|specialize (H16 eq_refl)]; lia.
  - exact (mf_cover _ _ _ _ _ _ MF).
Qed.

Theorem mount_part_layout b id idx lba nb v : mount_facts b id idx lba nb v ->
  part_layout v (bpb_total_blocks b) (bpb_fat_size b).
Proof. intros MF. apply (mount_part_layout_iff _ _ _ _ _ _ MF). exact (mount_checks_hold _ _ _ _ _ _ MF). Qed.

Lemma mount_dev b id idx lba nb v : mount_facts b id idx lba nb v -> v_lba v + bpb_total_blocks b < U32.
Proof. intros MF. rewrite (mf_lba _ _ _ _ _ _ MF). exact (mf_dev _ _ _ _ _ _ MF). Qed.

(* part_layout mentions the total block count in two conjuncts only: the data area ends inside
   it, and it ends inside the device *)
Lemma part_layout_total v t t' f : part_layout v t f ->
  (part_layout v t' f <-> data_end v <= t' /\ v_lba v + t' <= 4294967296).
Proof.
  intros [A1 A2 A3 A4 A5 A6 A7 A8 A9]. split.
  - intros L. split; [exact (pl_data _ _ _ L)|exact (pl_dev _ _ _ L)].
  - intros [B1 B2]. constructor; assumption.
Qed.

Lemma parse_volume_facts id idx lba nb s v s' : parse_volume id idx lba nb s = (Ok v, s') ->
  mount_facts (cached s lba) id idx lba nb v.
Proof.
  intros H. destruct (parse_volume_inv _ _ _ _ _ _ _ H) as (b & s1 & Hb & MF & _).
  apply cache_read_ok_inv in Hb. destruct Hb as (-> & _). exact MF.
Qed.

(* C04, mount side.  Every successful parse_volume yields a volume that has PrBounds' part_layout
   w.r.t. the BPB's total block count and FAT size, and that ends before block 2^32 - 1 of the
   device.  b is the boot sector the code read (cached s lba: the cached block when the cache holds
   lba, else the device's).  No hypothesis on the boot sector: the four conditions mount_checks
   are refusals of the code. *)
Theorem C04_mount_layout id idx lba_start num_blocks s v s' :
  parse_volume id idx lba_start num_blocks s = (Ok v, s') ->
  let b := cached s lba_start in
  let total := bpb_total_blocks b in
  let fsz := bpb_fat_size b in
  v_lba v = lba_start /\ v_nblocks v = num_blocks /\ v_id v = id /\ v_idx v = idx /\
  v_lba v + total < U32 /\
  mount_layout v total fsz /\ mount_checks b v /\ part_layout v total fsz.
Proof.
  intros H. pose proof (parse_volume_facts _ _ _ _ _ _ _ H) as MF. cbv zeta.
  split; [exact (mf_lba _ _ _ _ _ _ MF)|]. split; [exact (mf_nb _ _ _ _ _ _ MF)|].
  split; [exact (mf_id _ _ _ _ _ _ MF)|]. split; [exact (mf_idx _ _ _ _ _ _ MF)|].
  split; [exact (mount_dev _ _ _ _ _ _ MF)|].
  split; [exact (mount_layout_holds _ _ _ _ _ _ MF)|].
  split; [exact (mount_checks_hold _ _ _ _ _ _ MF)|exact (mount_part_layout _ _ _ _ _ _ MF)].
Qed.

(* ... w.r.t. the partition entry's size v_nblocks (what PrGlobalDef.fs_inv asks for): exactly
   when the data area ends inside the partition entry and the entry inside the device.  NEITHER
   is checked by the code: the BPB's total is not compared with num_blocks (known finding D38, see
   open_refutes_partition_size), and lba_start + num_blocks is never formed. *)
Theorem mount_layout_nblocks_iff id idx lba nb s v s' : parse_volume id idx lba nb s = (Ok v, s') ->
  (part_layout v (v_nblocks v) (bpb_fat_size (cached s lba)) <->
   data_end v <= v_nblocks v /\ v_lba v + v_nblocks v <= 4294967296).
Proof.
  intros H. pose proof (parse_volume_facts _ _ _ _ _ _ _ H) as MF.
  exact (part_layout_total _ _ _ _ (mount_part_layout _ _ _ _ _ _ MF)).
Qed.

(* in particular when the BPB's total block count does not exceed the partition entry's size *)
Theorem mount_layout_nblocks id idx lba nb s v s' : parse_volume id idx lba nb s = (Ok v, s') ->
  bpb_total_blocks (cached s lba) <= v_nblocks v -> v_lba v + v_nblocks v <= 4294967296 ->
  part_layout v (v_nblocks v) (bpb_fat_size (cached s lba)).
Proof.
  intros H Ht Hd. apply (mount_layout_nblocks_iff _ _ _ _ _ _ _ H). split; [|exact Hd].
  pose proof (parse_volume_facts _ _ _ _ _ _ _ H) as MF.
  pose proof (ml_data _ _ _ (mount_layout_holds _ _ _ _ _ _ MF)). lia.
Qed.

(* ================================================================== 3. the other volume predicates *)
(* ---- vol_ok: two of its four conjuncts follow from mount_layout alone; the other two are exactly
   these (and follow from the refusals: mount_vol_ok) ---- *)
Theorem mount_vol_ok_iff b id idx lba nb v : mount_facts b id idx lba nb v ->
  (vol_ok v <-> (v_clusters v + 2) * 4 < U32 /\ v_lba v + data_end v < U32).
Proof.
  intros MF. pose proof (mount_layout_holds _ _ _ _ _ _ MF) as ML.
  destruct ML as [L1 L2 L3 L4 L5 L6 L7 L8 L9 L10 L11 L12 L13].
  assert (HX : v_clusters v <= v_clusters v * v_spc v).
  { rewrite <- (N.mul_1_r (v_clusters v)) at 1. apply N.mul_le_mono_l. exact L2. }
  unfold data_end in *. remember (v_clusters v * v_spc v) as X.
  split.
  - intros [V1 V2 V3 V4]. unfold data_geom_ok in V3. rewrite <- HeqX in V3. split; [exact V1|]. lia.
  - intros [V1 V3]. constructor.
    + exact V1.
    + unfold U32 in *. lia.
    + unfold data_geom_ok. rewrite <- HeqX. lia.
    + intros E16. destruct (L10 E16) as [R1 R2]. unfold root_size in R2. unfold U32 in *. lia.
Qed.

Theorem mount_vol_ok id idx lba nb s v s' : parse_volume id idx lba nb s = (Ok v, s') -> vol_ok v.
Proof.
  intros H. pose proof (parse_volume_facts _ _ _ _ _ _ _ H) as MF.
  exact (part_layout_vol_ok _ _ _ (mount_part_layout _ _ _ _ _ _ MF) (mount_dev _ _ _ _ _ _ MF)).
Qed.

(* ---- fat_layout: three of its six conjuncts always hold ---- *)
Theorem mount_fat_layout_iff b id idx lba nb v : mount_facts b id idx lba nb v ->
  (fat_layout v (bpb_fat_size b) <->
   vol_ok v /\ ((v_clusters v + 1) * fat_width v) / 512 < bpb_fat_size b /\
   v_fat_start v + bpb_fat_size b <= v_first_data v).
Proof.
  intros MF. pose proof (mount_layout_holds _ _ _ _ _ _ MF) as ML.
  destruct ML as [L1 L2 L3 L4 L5 L6 L7 L8 L9 L10 L11 L12 L13].
  split.
  - intros [F1 F2 F3 F4 F5 F6]. auto.
  - intros (F1 & F3 & F5). constructor; try assumption.
    + intros sf E. rewrite (L7 sf E). lia.
    + intros sf E. pose proof (L8 sf E) as E8. unfold U32.
      destruct (v_fat32 v) eqn:E32; [|destruct (L10 eq_refl) as [R1 R2]]; lia.
    + intros sf E. pose proof (L8 sf E) as E8.
      destruct (v_fat32 v) eqn:E32; [|destruct (L10 eq_refl) as [R1 R2]]; lia.
Qed.

Theorem mount_fat_layout id idx lba nb s v s' : parse_volume id idx lba nb s = (Ok v, s') ->
  fat_layout v (bpb_fat_size (cached s lba)).
Proof.
  intros H. pose proof (parse_volume_facts _ _ _ _ _ _ _ H) as MF.
  exact (part_layout_fat_layout _ _ _ (mount_part_layout _ _ _ _ _ _ MF) (mount_dev _ _ _ _ _ _ MF)).
Qed.

(* ---- the cluster count stays below the bad-cluster mark: FAT16 by the type decision, FAT32 by
   the refusal of more than 0x0FFFFFF5 clusters ---- *)
Theorem mount_clusters_fit_iff b id idx lba nb v : mount_facts b id idx lba nb v ->
  (PrWrite.clusters_fit v <-> (v_fat32 v = true -> v_clusters v + 2 <= 268435447)).
Proof.
  intros MF. unfold PrWrite.clusters_fit, fat_bad.
  pose proof (mf_t16 _ _ _ _ _ _ MF) as H16.
  destruct (v_fat32 v).
  - split; [intros A _; exact A|intros A; exact (A eq_refl)].
  - split; [intros _ E; discriminate E|intros _; specialize (H16 eq_refl); lia].
Qed.

Theorem mount_clusters_fit id idx lba nb s v s' : parse_volume id idx lba nb s = (Ok v, s') ->
  PrWrite.clusters_fit v.
Proof.
  intros H. pose proof (parse_volume_facts _ _ _ _ _ _ _ H) as MF.
  exact (mc_count _ _ (mount_checks_hold _ _ _ _ _ _ MF)).
Qed.

Theorem mount_link_ok id idx lba nb s v s' : parse_volume id idx lba nb s = (Ok v, s') -> PrCount.link_ok v.
Proof. exact (mount_clusters_fit id idx lba nb s v s'). Qed.

(* ---- always ---- *)
Theorem mount_spc id idx lba nb s v s' : parse_volume id idx lba nb s = (Ok v, s') -> 0 < v_spc v.
Proof.
  intros H. pose proof (parse_volume_facts _ _ _ _ _ _ _ H) as MF.
  pose proof (ml_spc _ _ _ (mount_layout_holds _ _ _ _ _ _ MF)). lia.
Qed.

(* FAT32: the information sector is neither a FAT sector nor a data block (it lies in the
   reserved region, which is before both) *)
Theorem mount_info_ok id idx lba nb s v s' : parse_volume id idx lba nb s = (Ok v, s') ->
  PrOpenClose.info_ok v.
Proof.
  intros H. pose proof (parse_volume_facts _ _ _ _ _ _ _ H) as MF.
  pose proof (mount_layout_holds _ _ _ _ _ _ MF) as ML.
  apply PrOpenClose.info_ok_intro. intros E32.
  destruct (ml_info _ _ _ ML E32) as [I1 I2]. pose proof (ml_fat_data _ _ _ ML) as Hfd.
  split; [|lia].
  intros (c & _ & Ej). remember ((c * fat_w v) / 512) as q. lia.
Qed.

(* the allocation hint: absent or >= 2 (0, 1 and 0xFFFF_FFFF are dropped); nothing ties it - or
   the free count - to the cluster count: see mount_stale_hint below *)
Theorem mount_hint_ok id idx lba nb s v s' : parse_volume id idx lba nb s = (Ok v, s') -> hint_ok v.
Proof.
  intros H. pose proof (parse_volume_facts _ _ _ _ _ _ _ H) as MF.
  intros c Ec. destruct (v_fat32 v) eqn:E32.
  - destruct (mf_32 _ _ _ _ _ _ MF E32) as (_ & _ & _ & _ & _ & _ & fc & nx & _ & En).
    rewrite En in Ec.
    destruct (N.eqb_spec nx 4294967295) as [A|A]; [discriminate Ec|].
    destruct (N.eqb_spec nx 0) as [B|B]; [discriminate Ec|].
    destruct (N.eqb_spec nx 1) as [C|C]; [discriminate Ec|].
    destruct (N.leb_spec (v_clusters v + 2) nx) as [D|D]; [discriminate Ec|].
    cbn [orb] in Ec. inversion Ec. lia.
  - destruct (mf_16 _ _ _ _ _ _ MF E32) as (_ & _ & _ & _ & En & _). congruence.
Qed.

Theorem mount_hint_range id idx lba nb s v s' : parse_volume id idx lba nb s = (Ok v, s') ->
  (v_fat32 v = false -> v_free v = None /\ v_next_free v = None) /\
  (forall c, v_next_free v = Some c -> 2 <= c < v_clusters v + 2) /\
  (forall n, v_free v = Some n -> n <> 4294967295).
Proof.
  intros H. pose proof (parse_volume_facts _ _ _ _ _ _ _ H) as MF.
  split; [|split].
  - intros E. destruct (mf_16 _ _ _ _ _ _ MF E) as (_ & _ & _ & A & B & _). auto.
  - intros c Ec. destruct (v_fat32 v) eqn:E32.
    + destruct (mf_32 _ _ _ _ _ _ MF E32) as (_ & _ & _ & _ & _ & _ & fc & nx & _ & En).
      rewrite En in Ec.
      destruct (N.eqb_spec nx 4294967295) as [A|A]; [discriminate Ec|].
      destruct (N.eqb_spec nx 0) as [B|B]; [discriminate Ec|].
      destruct (N.eqb_spec nx 1) as [C|C]; [discriminate Ec|].
      destruct (N.leb_spec (v_clusters v + 2) nx) as [D|D]; [discriminate Ec|].
      cbn [orb] in Ec. inversion Ec. lia.
    + destruct (mf_16 _ _ _ _ _ _ MF E32) as (_ & _ & _ & _ & En & _). congruence.
  - intros n En. destruct (v_fat32 v) eqn:E32.
    + destruct (mf_32 _ _ _ _ _ _ MF E32) as (_ & _ & _ & _ & _ & _ & fc & nx & Ef & _).
      rewrite Ef in En. destruct (N.eqb_spec fc 4294967295) as [A|A]; [discriminate En|]. inversion En. lia.
    + destruct (mf_16 _ _ _ _ _ _ MF E32) as (_ & _ & _ & Ef & _). congruence.
Qed.

(* ================================================================== 4. open_raw_volume *)
(* the partition-table entry idx of the master boot record *)
Definition mbr_start (mbr : block) (idx : N) : N := le32 mbr (446 + 16 * idx + 8).
Definition mbr_size (mbr : block) (idx : N) : N := le32 mbr (446 + 16 * idx + 12).

Lemma generate_inv s id s' : generate s = (Ok id, s') ->
  id = s_next_id s /\ s' = set_s_next_id s ((s_next_id s + 1) mod U32).
Proof. unfold generate, bind, get, modify, ret. intros H. inversion H. auto. Qed.

(* a successful OpenVol idx: block 0 is a master boot record, entry idx names a FAT partition
   type, the boot sector at the entry's start was mounted by parse_volume with the entry's
   start and size, and the volume was appended to the table under the fresh handle *)
Theorem open_raw_volume_inv idx s id s' : open_raw_volume idx s = (Ok id, s') ->
  exists mbr s0 b v,
    cache_read 0 s = (Ok mbr, s0) /\ mbr = cached s 0 /\
    s_lock s = false /\ idx < 4 /\ le16 mbr 510 = 43605 /\
    N.land (get8 mbr (446 + 16 * idx)) 127 = 0 /\
    partition_type_ok (get8 mbr (446 + 16 * idx + 4)) = true /\
    b = cached s0 (mbr_start mbr idx) /\
    mount_facts b id idx (mbr_start mbr idx) (mbr_size mbr idx) v /\
    s_vols s' = s_vols s ++ [v] /\ id = s_next_id s.
Proof.
  intros H. unfold open_raw_volume, locked in H.
  unfold bind at 1 in H. unfold get at 1 in H.
  destruct (s_lock s) eqn:Hl; [exfalso; exact (fail_inv _ _ _ _ H)|].
  unfold bind at 1 in H. unfold get at 1 in H.
  destruct (is_full (s_vols s) (s_maxv s)); [exfalso; exact (fail_inv _ _ _ _ H)|].
  destruct (existsb (fun v => v_idx v =? idx) (s_vols s)); [exfalso; exact (fail_inv _ _ _ _ H)|].
  inv_bind H as mbr s0 Hm. exists mbr, s0.
  destruct (N.eqb_spec (le16 mbr 510) 43605) as [Hsig|Hsig]; [|exfalso; exact (fail_inv _ _ _ _ H)].
  cbn [negb] in H.
  destruct (N.leb_spec 4 idx) as [Hi|Hi]; [exfalso; exact (fail_inv _ _ _ _ H)|].
  destruct (N.eqb_spec (N.land (get8 mbr (446 + 16 * idx)) 127) 0) as [Hst|Hst]; [|exfalso; exact (fail_inv _ _ _ _ H)].
  cbn [negb] in H.
  destruct (partition_type_ok (get8 mbr (446 + 16 * idx + 4))) eqn:Hty; [|exfalso; exact (fail_inv _ _ _ _ H)].
  cbn [negb] in H.
  inv_bind H as v0 s1 Hp. inv_bind H as id' s2 Hg. inv_bind H as u s3 Hmod.
  apply ret_inv in H. destruct H as [-> ->].
  apply generate_inv in Hg. destruct Hg as [-> ->].
  unfold modify in Hmod. inversion Hmod; subst s3. clear Hmod.
  pose proof (parse_volume_facts _ _ _ _ _ _ _ Hp) as MF.
  destruct (parse_volume_inv _ _ _ _ _ _ _ Hp) as (_ & _ & _ & _ & Pv & Pn & _).
  pose proof (cache_read_ok_inv _ _ _ _ Hm) as (Em & Mv & Mn & _).
  exists (cached s0 (mbr_start mbr idx)), (set_v_id v0 (s_next_id s1)).
  split; [exact Hm|]. split; [exact Em|]. split; [reflexivity|]. split; [exact Hi|]. split; [exact Hsig|].
  split; [exact Hst|]. split; [reflexivity|]. split; [reflexivity|].
  split; [apply mount_facts_set_id with (id0 := 0); exact MF|].
  cbn [s_vols set_s_vols set_s_next_id]. split; [|congruence].
  rewrite Pv, Mv. reflexivity.
Qed.

(* every volume predicate of PrBounds / PrAlloc / PrAllocEffect / PrCount / PrWrite / PrOpenClose,
   from the facts of a successful mount *)
Theorem mount_facts_all b id idx lba nb v : mount_facts b id idx lba nb v ->
  part_layout v (bpb_total_blocks b) (bpb_fat_size b) /\ v_lba v + bpb_total_blocks b < U32 /\
  vol_ok v /\ fat_layout v (bpb_fat_size b) /\
  PrWrite.clusters_fit v /\ PrCount.link_ok v /\ 0 < v_spc v /\ PrOpenClose.info_ok v /\ hint_ok v.
Proof.
  intros MF. pose proof (mount_part_layout _ _ _ _ _ _ MF) as L. pose proof (mount_dev _ _ _ _ _ _ MF) as Hd.
  pose proof (mount_layout_holds _ _ _ _ _ _ MF) as ML. pose proof (mount_checks_hold _ _ _ _ _ _ MF) as C.
  split; [exact L|]. split; [exact Hd|].
  split; [exact (part_layout_vol_ok _ _ _ L Hd)|].
  split; [exact (part_layout_fat_layout _ _ _ L Hd)|].
  split; [exact (mc_count _ _ C)|]. split; [exact (mc_count _ _ C)|].
  split; [pose proof (ml_spc _ _ _ ML); lia|].
  split.
  - apply PrOpenClose.info_ok_intro. intros E32.
    destruct (ml_info _ _ _ ML E32) as [I1 I2]. pose proof (ml_fat_data _ _ _ ML) as Hfd.
    split; [|lia]. intros (c & _ & Ej). remember ((c * fat_w v) / 512) as q. lia.
  - intros c Ec. destruct (v_fat32 v) eqn:E32.
    + destruct (mf_32 _ _ _ _ _ _ MF E32) as (_ & _ & _ & _ & _ & _ & fc & nx & _ & En).
      rewrite En in Ec.
      destruct (N.eqb_spec nx 4294967295) as [A|A]; [discriminate Ec|].
      destruct (N.eqb_spec nx 0) as [B|B]; [discriminate Ec|].
      destruct (N.eqb_spec nx 1) as [C1|C1]; [discriminate Ec|].
      destruct (N.leb_spec (v_clusters v + 2) nx) as [D|D]; [discriminate Ec|].
      cbn [orb] in Ec. inversion Ec. lia.
    + destruct (mf_16 _ _ _ _ _ _ MF E32) as (_ & _ & _ & _ & En & _). congruence.
Qed.

(* C04, OpenVol side: the volume stored by a successful OpenVol idx starts at the partition
   entry's start block, records the entry's size, has part_layout w.r.t. the BPB's total block
   count and FAT size, ends before block 2^32 - 1 of the device, and satisfies every other volume
   predicate.  NOTHING relates the BPB's total block count (which bounds the data area) to the
   entry's size v_nblocks: see open_refutes_partition_size (known finding D38); when it does not
   exceed it (and the entry ends inside the device), part_layout also holds w.r.t. v_nblocks. *)
Theorem C04_open_volume_layout idx s id s' : open_raw_volume idx s = (Ok id, s') ->
  exists v, s_vols s' = s_vols s ++ [v] /\ v_id v = id /\ v_idx v = idx /\
    let mbr := cached s 0 in
    v_lba v = mbr_start mbr idx /\ v_nblocks v = mbr_size mbr idx /\
    exists b, b = cached (snd (cache_read 0 s)) (v_lba v) /\
      let total := bpb_total_blocks b in
      let fsz := bpb_fat_size b in
      mount_layout v total fsz /\ mount_checks b v /\
      part_layout v total fsz /\ v_lba v + total < U32 /\
      vol_ok v /\ fat_layout v fsz /\ PrWrite.clusters_fit v /\ PrCount.link_ok v /\
      0 < v_spc v /\ PrOpenClose.info_ok v /\ hint_ok v /\
      (part_layout v (v_nblocks v) fsz <-> data_end v <= v_nblocks v /\ v_lba v + v_nblocks v <= 4294967296) /\
      (total <= v_nblocks v -> v_lba v + v_nblocks v <= 4294967296 -> part_layout v (v_nblocks v) fsz).
Proof.
  intros H. destruct (open_raw_volume_inv _ _ _ _ H) as
    (mbr & s0 & b & v & Hm & Em & Hl & Hi & Hsig & Hst & Hty & Eb & MF & Ev & Eid).
  exists v. split; [exact Ev|]. split; [exact (mf_id _ _ _ _ _ _ MF)|]. split; [exact (mf_idx _ _ _ _ _ _ MF)|].
  cbv zeta. rewrite <- Em. split; [exact (mf_lba _ _ _ _ _ _ MF)|]. split; [exact (mf_nb _ _ _ _ _ _ MF)|].
  exists b. rewrite Hm. cbn [snd]. split; [rewrite (mf_lba _ _ _ _ _ _ MF); exact Eb|].
  pose proof (mount_layout_holds _ _ _ _ _ _ MF) as ML.
  split; [exact ML|]. split; [exact (mount_checks_hold _ _ _ _ _ _ MF)|].
  destruct (mount_facts_all _ _ _ _ _ _ MF) as (A1 & A2 & A3 & A4 & A5 & A6 & A7 & A8 & A9).
  repeat (split; [assumption|]).
  pose proof (part_layout_total v _ (v_nblocks v) _ A1) as Hiff.
  split; [exact Hiff|]. intros Ht Hd. apply Hiff. split; [|exact Hd].
  pose proof (ml_data _ _ _ ML). lia.
Qed.

(* ================================================================== 5. witnesses *)
(* ---- building devices: a boot sector from its BPB fields, an information sector, a master
   boot record with two entries (type, start, size), a device from (block number, block) pairs
   (every other block is zero; nothing cached, no volume open, no faults) ---- *)
Definition put8 (b : block) (off x : N) : block := set_bytes b off [x].
Definition put16 (b : block) (off x : N) : block := set_bytes b off (bytes16 x).
Definition put32 (b : block) (off x : N) : block := set_bytes b off (bytes32 x).
(* offsets: 11 bytes per sector (512), 13 sectors per cluster, 14 reserved sectors, 16 number of
   FATs, 17 root entries, 19 total16 (0), 22 FAT size 16, 32 total32, 36 FAT size 32, 42 version
   (0), 44 root cluster, 48 FSInfo sector, 510 signature 0xAA55 *)
Definition mk_boot (spc reserved nfats root_entries total fatsz16 fatsz32 rootcl info : N) : block :=
  put16 (put16 (put32 (put32 (put32 (put16 (put16 (put16 (put8 (put16 (put8 (put16 zero_block
    11 512) 13 spc) 14 reserved) 16 nfats) 17 root_entries) 19 0) 22 fatsz16) 32 total) 36 fatsz32)
    44 rootcl) 48 info) 510 43605.
(* lead signature "RRaA", structure signature "rrAa", free count, next free, trail signature *)
Definition mk_info (free next : N) : block :=
  put32 (put32 (put32 (put32 (put32 zero_block 0 1096897106) 484 1631679090) 488 free) 492 next)
        508 2857697280.
Definition put_part (b : block) (i : N) (e : N * N * N) : block :=
  let '(ty, st, sz) := e in
  put32 (put32 (put8 b (446 + 16 * i + 4) ty) (446 + 16 * i + 8) st) (446 + 16 * i + 12) sz.
Definition mk_mbr (e0 e1 : N * N * N) : block :=
  put16 (put_part (put_part zero_block 0 e0) 1 e1) 510 43605.
Definition dev (l : list (N * block)) : st :=
  init_state (fold_right (fun p d => disk_set d (fst p) (snd p)) (PositiveMap.empty block) l) 0 4 4 4 [].
Definition no_info : block := mk_info 4294967295 4294967295.

(* OpenVol 0; OpenRoot; Mkdir "A" in the root directory: the blocks written, oldest first *)
Definition mkdir_writes (s : st) : option (list N) :=
  match step (OpenVol 0) s with
  | (Ok (RHandle h), s1) =>
      match step (OpenRoot h) s1 with
      | (Ok (RHandle d), s2) =>
          match step (Mkdir d [65]) s2 with
          | (Ok RUnit, s3) => Some (writes_of (s_trace s3))
          | _ => None
          end
      | _ => None
      end
  | _ => None
  end.

(* ---- the boot sectors below are the witnesses of the defects D35-D37: before the repairs each of
   them was mounted although one conjunct of part_layout (or of vol_ok) failed, and the crate then
   wrote outside the region (boot sector, FAT, next partition) or panicked.  Each is REFUSED now
   (FormatError), by parse_volume and so by OpenVol. ---- *)

(* ---- pl_reserved (FAT16): reserved sector count 0.  FAT16, 512-byte sectors, 1 sector per
   cluster, 0 reserved, 2 FATs of 32 sectors, 512 root entries, 5096 sectors: 5000 clusters.
   The first FAT copy would start ON the boot sector (making a directory allocated cluster 2,
   whose FAT entry is bytes 4..5 of block 2048: the boot sector was written). ---- *)
Definition wit_reserved : block := mk_boot 1 0 2 512 5096 32 0 0 0.
Example mount_reserved_refused :
  le16 wit_reserved 14 = 0 /\
  fst (parse_volume 7 0 2048 5096 (dev [(2048, wit_reserved)])) = Err FormatError.
Proof. vm_compute. split; reflexivity. Qed.
Example open_reserved_refused :
  let s := dev [(0, mk_mbr (6, 2048, 5096) (0, 0, 0)); (2048, wit_reserved)] in
  fst (step (OpenVol 0) s) = Err FormatError /\ mkdir_writes s = None.
Proof. vm_compute. split; reflexivity. Qed.

(* ---- pl_count (FAT32): 268435446 clusters - the last cluster number would be 0x0FFFFFF7, the
   bad-cluster mark.  FAT32, 1 sector per cluster, 32 reserved, 2 FATs of 2097152 sectors
   (enough for all entries), FSInfo at 1, 272629782 sectors. ---- *)
Definition wit_count : block := mk_boot 1 32 2 0 272629782 0 2097152 2 1.
Example mount_count_refused :
  (bpb_total_blocks wit_count - bpb_non_data wit_count) / get8 wit_count 13 = 268435446 /\
  (268435446 + 2) * 4 <= bpb_fat_size wit_count * 512 /\
  fst (parse_volume 7 0 2048 272629782 (dev [(2048, wit_count); (2049, no_info)])) = Err FormatError.
Proof. vm_compute. repeat split; try reflexivity; discriminate. Qed.

(* ---- pl_cover (FAT16): a FAT of 1 sector (256 entries) for 5000 clusters.  1 sector per
   cluster, 1 reserved, 2 FATs of 1 sector, 512 root entries, 5035 sectors.  The entry of
   cluster 256 would be in FAT copy 1, of the clusters 512 .. 5001 in the root directory region. ---- *)
Definition wit_cover16 : block := mk_boot 1 1 2 512 5035 1 0 0 0.
Example mount_cover16_refused :
  (bpb_total_blocks wit_cover16 - bpb_non_data wit_cover16) / get8 wit_cover16 13 = 5000 /\
  bpb_fat_size wit_cover16 * 512 < (5000 + 2) * 2 /\
  fst (parse_volume 7 0 2048 5035 (dev [(2048, wit_cover16)])) = Err FormatError.
Proof. vm_compute. repeat split; reflexivity. Qed.

(* ---- pl_cover (FAT32): a FAT of 1 sector (128 entries) for 70000 clusters (entry 256 would be
   the first data block) ---- *)
Definition wit_cover32 : block := mk_boot 1 32 2 0 70034 0 1 2 1.
Example mount_cover32_refused :
  (bpb_total_blocks wit_cover32 - bpb_non_data wit_cover32) / get8 wit_cover32 13 = 70000 /\
  bpb_fat_size wit_cover32 * 512 < (70000 + 2) * 4 /\
  fst (parse_volume 7 0 2048 70034 (dev [(2048, wit_cover32); (2049, no_info)])) = Err FormatError.
Proof. vm_compute. repeat split; reflexivity. Qed.

(* ---- pl_root, number of FATs = 0.  FAT32: the data area would start at the first FAT sector
   (cluster 2 IS FAT sector 0).  FAT16: the root directory region would start at the first FAT
   sector, and Mkdir wrote the directory entry over the FAT (FAT sector 2049, the new directory's
   cluster 2081, and then the root directory slot - again block 2049). ---- *)
Definition wit_nfats32 : block := mk_boot 1 32 0 0 70032 0 600 2 1.
Example mount_root32_refused :
  get8 wit_nfats32 16 = 0 /\
  fst (parse_volume 7 0 2048 70032 (dev [(2048, wit_nfats32); (2049, no_info)])) = Err FormatError.
Proof. vm_compute. split; reflexivity. Qed.

Definition wit_nfats16 : block := mk_boot 1 1 0 512 5033 32 0 0 0.
Example mount_root16_refused :
  get8 wit_nfats16 16 = 0 /\
  fst (parse_volume 7 0 2048 5033 (dev [(2048, wit_nfats16)])) = Err FormatError.
Proof. vm_compute. split; reflexivity. Qed.
Example open_nfats0_refused :
  let s := dev [(0, mk_mbr (6, 2048, 5033) (0, 0, 0)); (2048, wit_nfats16)] in
  fst (step (OpenVol 0) s) = Err FormatError /\ mkdir_writes s = None.
Proof. vm_compute. split; reflexivity. Qed.

(* ---- vol_ok, first conjunct that used to be missing: the volume ends exactly at block 2^32 of
   the device.  A correct FAT16 volume (all four conditions hold) at lba = 2^32 - 5097: the last
   cluster would be block 2^32 - 1, and `first + count` of its block range overflowed (a directory
   in the last cluster could not be listed: the dev profile of the crate panicked in
   BlockIdx::range).  The device-end check compares lba + total (not lba + total - 1) now. ---- *)
Definition wit_edge : block := mk_boot 1 1 2 512 5097 32 0 0 0.
Definition edge_lba : N := 4294962199.
Example mount_vol_ok_edge_refused :
  edge_lba + bpb_total_blocks wit_edge = U32 /\
  fst (parse_volume 7 0 edge_lba 5097 (dev [(edge_lba, wit_edge)])) = Err FormatError.
Proof. vm_compute. split; reflexivity. Qed.
(* root slot 0: directory "A" at cluster 5001; FAT entry 5001 (sector 19 of the FAT, offset 274):
   end of chain *)
Definition edge_dir : block := put16 (put8 (set_bytes zero_block 0 (65 :: repeat 32 10)) 11 16) 26 5001.
Definition edge_fat : block := put16 zero_block 274 65535.
Example open_edge_refused :
  let s := dev [(0, mk_mbr (6, edge_lba, 5097) (0, 0, 0)); (edge_lba, wit_edge);
                (edge_lba + 65, edge_dir); (edge_lba + 20, edge_fat)] in
  fst (step (OpenVol 0) s) = Err FormatError.
Proof. vm_compute. reflexivity. Qed.
(* one block lower the same volume mounts (and vol_ok holds: mount_vol_ok) *)
Example mount_edge_minus_one_mounts :
  match parse_volume 7 0 (edge_lba - 1) 5097 (dev [(edge_lba - 1, wit_edge)]) with
  | (Ok v, _) => v_lba v + data_end v = U32 - 1
  | _ => False
  end.
Proof. vm_compute. reflexivity. Qed.

(* ---- vol_ok, second conjunct that used to be missing: 2^30 clusters, 4 * (N + 2) is no u32
   (FAT32, 1 sector per cluster, 1073741858 sectors) ---- *)
Definition wit_entries : block := mk_boot 1 32 2 0 1073741858 0 1 2 1.
Example mount_vol_ok_entries_refused :
  (bpb_total_blocks wit_entries - bpb_non_data wit_entries) / get8 wit_entries 13 = 1073741824 /\
  fst (parse_volume 7 0 2048 0 (dev [(2048, wit_entries); (2049, no_info)])) = Err FormatError.
Proof. vm_compute. split; reflexivity. Qed.

(* ---- a free count far beyond the 137221 clusters of the volume is accepted as it is (the
   allocator copes: PrCount stale-count lemmas); a next-free hint beyond the last cluster is
   dropped at mount (D40, repaired: before, it stayed in memory and every flush wrote it back) ---- *)
Definition ex_boot32 : block := mk_boot 8 32 2 0 1100000 0 1100 2 1.
Example mount_stale_hint :
  match parse_volume 7 0 2048 1100000 (dev [(2048, ex_boot32); (2049, mk_info 4000000000 4000000000)]) with
  | (Ok v, _) =>
      v_clusters v = 137221 /\ v_free v = Some 4000000000 /\ v_next_free v = None /\
      mount_checksb ex_boot32 v = (true, true, true, true)
  | _ => False
  end.
Proof. vm_compute. repeat split; reflexivity. Qed.

(* ---- OpenVol: the BPB's total is not compared with the partition entry's size.
   Entry 0: type 6, start 1, size 97; entry 1: type 6, start 98, size 10000.  The boot sector
   at block 1 is a correct FAT16 volume of 5097 sectors (data area from block 98 on): it is
   mounted with v_nblocks = 97, part_layout holds w.r.t. 5097, the whole data area lies in
   partition 1, and Mkdir zeroes block 98 - the boot sector of partition 1. ---- *)
Definition dev_parts : st := dev [(0, mk_mbr (6, 1, 97) (6, 98, 10000)); (1, wit_edge)].
Example open_refutes_partition_size :
  match open_raw_volume 0 dev_parts with
  | (Ok id, s') =>
      match s_vols s' with
      | [v] =>
          v_lba v = 1 /\ v_nblocks v = 97 /\ bpb_total_blocks wit_edge = 5097 /\
          mount_checksb wit_edge v = (true, true, true, true) /\
          v_nblocks v < bpb_total_blocks wit_edge /\          (* total <= num_blocks is NOT checked *)
          v_lba v + v_nblocks v = mbr_start (cached dev_parts 0) 1 /\
          v_lba v + v_first_data v = mbr_start (cached dev_parts 0) 1 /\   (* cluster 2 = boot sector of partition 1 *)
          in_datab v 98 = true
      | _ => False
      end
  | _ => False
  end.
Proof. vm_compute. repeat split; reflexivity. Qed.
Example open_partition_size_writes_next_partition :
  mkdir_writes dev_parts = Some [2; 34; 98; 66].
Proof. vm_compute. reflexivity. Qed.

(* so the layout w.r.t. the partition entry's size is NOT established by the mount code *)
Theorem mount_layout_nblocks_refuted :
  exists id idx lba nb s v s', parse_volume id idx lba nb s = (Ok v, s') /\
    ~ part_layout v (v_nblocks v) (bpb_fat_size (cached s lba)).
Proof.
  exists 7, 0, 1, 97, (dev [(1, wit_edge)]).
  assert (R : match parse_volume 7 0 1 97 (dev [(1, wit_edge)]) with
              | (Ok v, _) => v_nblocks v = 97 /\ data_end v = 5097
              | _ => False
              end) by (vm_compute; split; reflexivity).
  destruct (parse_volume 7 0 1 97 (dev [(1, wit_edge)])) as [[v|e| |] s'] eqn:E; try contradiction.
  exists v, s'. split; [reflexivity|]. destruct R as [R1 R2].
  intros L. apply (mount_layout_nblocks_iff _ _ _ _ _ _ _ E) in L. destruct L as [L _]. lia.
Qed.

(* ---- lba_start >= 1 is not checked either: block 0 can be master boot record and boot sector
   at once (entry 0: start 0).  Harmless for C04: part_layout has no such conjunct, and the
   regions start behind v_lba, so block 0 is still never written. ---- *)
Definition wit_lba0 : block := put_part wit_edge 0 (6, 0, 5097).
Example open_lba0_mounts :
  match open_raw_volume 0 (dev [(0, wit_lba0)]) with
  | (Ok id, s') =>
      match s_vols s' with
      | [v] => v_lba v = 0 /\ mount_checksb wit_lba0 v = (true, true, true, true) /\
               part_layoutb v 5097 32 = true
      | _ => False
      end
  | _ => False
  end.
Proof. vm_compute. repeat split; reflexivity. Qed.
Example open_lba0_writes : mkdir_writes (dev [(0, wit_lba0)]) = Some [1; 33; 97; 65].
Proof. vm_compute. reflexivity. Qed.

(* ================================================================== 6. everything together; non-vacuity *)
(* every volume hypothesis of PrBounds / PrAlloc / PrAllocEffect / PrCount / PrWrite / PrOpenClose
   holds of every mounted volume - no condition on the boot sector or the device is left *)
Theorem mount_establishes_all id idx lba nb s v s' :
  parse_volume id idx lba nb s = (Ok v, s') ->
  let b := cached s lba in
  part_layout v (bpb_total_blocks b) (bpb_fat_size b) /\ v_lba v + bpb_total_blocks b < U32 /\
  vol_ok v /\ fat_layout v (bpb_fat_size b) /\
  PrWrite.clusters_fit v /\ PrCount.link_ok v /\ 0 < v_spc v /\ PrOpenClose.info_ok v /\ hint_ok v.
Proof. intros H b. exact (mount_facts_all _ _ _ _ _ _ (parse_volume_facts _ _ _ _ _ _ _ H)). Qed.

(* a formatted FAT16 volume: 4 sectors per cluster, 4 reserved, 2 FATs of 256 sectors, 512 root
   entries, 250000 sectors (62363 clusters; FAT copies at 4 and 260, root region at 516, data
   at 548), in a partition starting at block 2048 *)
Definition ex_boot16 : block := mk_boot 4 4 2 512 250000 256 0 0 0.
Definition ex_dev16 : st := dev [(0, mk_mbr (6, 2048, 250000) (0, 0, 0)); (2048, ex_boot16)].
Example ex_mount16_runs :
  match parse_volume 7 0 2048 250000 ex_dev16 with
  | (Ok v, _) =>
      cached ex_dev16 2048 = ex_boot16 /\ bpb_total_blocks ex_boot16 = 250000 /\ bpb_fat_size ex_boot16 = 256 /\
      mount_checksb ex_boot16 v = (true, true, true, true) /\
      v_fat32 v = false /\ v_clusters v = 62363 /\ v_spc v = 4 /\ v_fat_start v = 4 /\
      v_second_fat v = Some 260 /\ v_root_block v = 516 /\ v_first_data v = 548
  | _ => False
  end.
Proof. vm_compute. repeat split; reflexivity. Qed.

Example ex_mount16 :
  exists v s', parse_volume 7 0 2048 250000 ex_dev16 = (Ok v, s') /\
    part_layout v 250000 256 /\ v_lba v + 250000 < U32 /\ vol_ok v /\ fat_layout v 256 /\
    PrWrite.clusters_fit v /\ PrCount.link_ok v /\ 0 < v_spc v /\ PrOpenClose.info_ok v /\ hint_ok v.
Proof.
  pose proof ex_mount16_runs as R.
  destruct (parse_volume 7 0 2048 250000 ex_dev16) as [[v|e| |] s'] eqn:E; try contradiction.
  exists v, s'. split; [reflexivity|].
  destruct R as (Eb & Et & Ef & Hc & _).
  pose proof (mount_establishes_all _ _ _ _ _ _ _ E) as A. cbv zeta in A. rewrite Eb, Et, Ef in A.
  exact A.
Qed.

(* a formatted FAT32 volume: 8 sectors per cluster, 32 reserved, 2 FATs of 1100 sectors, FSInfo
   at sector 1 (free count 137000, next free 3), root cluster 2, 1100000 sectors (137221
   clusters; FAT copies at 32 and 1132, data at 2232) *)
Definition ex_dev32 : st :=
  dev [(0, mk_mbr (12, 2048, 1100000) (0, 0, 0)); (2048, ex_boot32); (2049, mk_info 137000 3)].
Example ex_mount32_runs :
  match parse_volume 7 0 2048 1100000 ex_dev32 with
  | (Ok v, _) =>
      cached ex_dev32 2048 = ex_boot32 /\ bpb_total_blocks ex_boot32 = 1100000 /\ bpb_fat_size ex_boot32 = 1100 /\
      mount_checksb ex_boot32 v = (true, true, true, true) /\
      v_fat32 v = true /\ v_clusters v = 137221 /\ v_spc v = 8 /\ v_fat_start v = 32 /\
      v_second_fat v = Some 1132 /\ v_first_data v = 2232 /\ v_info v = 2049 /\ v_root_cluster v = 2 /\
      v_free v = Some 137000 /\ v_next_free v = Some 3
  | _ => False
  end.
Proof. vm_compute. repeat split; reflexivity. Qed.

Example ex_mount32 :
  exists v s', parse_volume 7 0 2048 1100000 ex_dev32 = (Ok v, s') /\
    part_layout v 1100000 1100 /\ v_lba v + 1100000 < U32 /\ vol_ok v /\ fat_layout v 1100 /\
    PrWrite.clusters_fit v /\ PrCount.link_ok v /\ 0 < v_spc v /\ PrOpenClose.info_ok v /\ hint_ok v.
Proof.
  pose proof ex_mount32_runs as R.
  destruct (parse_volume 7 0 2048 1100000 ex_dev32) as [[v|e| |] s'] eqn:E; try contradiction.
  exists v, s'. split; [reflexivity|].
  destruct R as (Eb & Et & Ef & Hc & _).
  pose proof (mount_establishes_all _ _ _ _ _ _ _ E) as A. cbv zeta in A. rewrite Eb, Et, Ef in A.
  exact A.
Qed.

(* OpenVol 0 succeeds on both devices, so C04_open_volume_layout applies; the stored volume
   passes PrBounds' decision procedure for the layout *)
Example ex_open_volumes :
  match open_raw_volume 0 ex_dev16, open_raw_volume 0 ex_dev32 with
  | (Ok id16, s16), (Ok id32, s32) =>
      match s_vols s16, s_vols s32 with
      | [v16], [v32] =>
          v_lba v16 = 2048 /\ v_nblocks v16 = 250000 /\ part_layoutb v16 250000 256 = true /\
          v_lba v32 = 2048 /\ v_nblocks v32 = 1100000 /\ part_layoutb v32 1100000 1100 = true
      | _, _ => False
      end
  | _, _ => False
  end.
Proof. vm_compute. repeat split; reflexivity. Qed.

(* ================================================================== assumptions *)
Print Assumptions parse_volume_inv.
Print Assumptions mount_layout_holds.
Print Assumptions mount_part_layout_iff.
Print Assumptions mount_checks_hold.
Print Assumptions mount_part_layout.
Print Assumptions C04_mount_layout.
Print Assumptions mount_layout_nblocks_iff.
Print Assumptions mount_layout_nblocks.
Print Assumptions mount_vol_ok_iff.
Print Assumptions mount_vol_ok.
Print Assumptions mount_fat_layout_iff.
Print Assumptions mount_fat_layout.
Print Assumptions mount_clusters_fit_iff.
Print Assumptions mount_clusters_fit.
Print Assumptions mount_link_ok.
Print Assumptions mount_spc.
Print Assumptions mount_info_ok.
Print Assumptions mount_hint_ok.
Print Assumptions mount_hint_range.
Print Assumptions open_raw_volume_inv.
Print Assumptions mount_facts_all.
Print Assumptions C04_open_volume_layout.
Print Assumptions mount_establishes_all.
Print Assumptions mount_reserved_refused.
Print Assumptions open_reserved_refused.
Print Assumptions mount_count_refused.
Print Assumptions mount_cover16_refused.
Print Assumptions mount_cover32_refused.
Print Assumptions mount_root32_refused.
Print Assumptions mount_root16_refused.
Print Assumptions open_nfats0_refused.
Print Assumptions mount_vol_ok_edge_refused.
Print Assumptions open_edge_refused.
Print Assumptions mount_edge_minus_one_mounts.
Print Assumptions mount_vol_ok_entries_refused.
Print Assumptions mount_stale_hint.
Print Assumptions open_refutes_partition_size.
Print Assumptions open_partition_size_writes_next_partition.
Print Assumptions mount_layout_nblocks_refuted.
Print Assumptions open_lba0_mounts.
Print Assumptions ex_mount16.
Print Assumptions ex_mount32.
Print Assumptions ex_open_volumes.
