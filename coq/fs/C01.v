(* Property C01 - reads return exactly the bytes written
   This file contains only property theorems (each closed by `exact`), `Check` pins and
   `Print Assumptions`.  FULL STATEMENT (DESIGN.md 4 C01) is not yet proved for the whole
   layer-B model; what is proved here are the named mechanisms, for all inputs.  The gap is
   covered - visibly - by the correspondence check and the spec oracle (see evidence). *)
From Coq Require Import NArith ZArith List Bool.
From SdFs Require Import FsTypes FsBase FsFat FsMgr FsLemmas.
Import ListNotations.
Open Scope N_scope.


Theorem C01_clusters_disjoint_partial : forall (v : vol) (c1 c2 k1 k2 : N), c1 <> c2 -> 2 <= c1 -> 2 <= c2 -> k1 < v_spc v -> k2 < v_spc v -> (c1 - 2) * v_spc v + k1 <> (c2 - 2) * v_spc v + k2.
Proof. exact cluster_blocks_disjoint. Qed.

Theorem C01_cluster_block_partial : forall (v : vol) (c : N) (s : st), data_geom_ok v -> 2 <= c -> c < v_clusters v + 2 -> c <> CL_ROOT -> exists blk, cluster_to_block v c s = (Ok blk, s) /\ blk = v_lba v + v_first_data v + (c - 2) * v_spc v /\ v_lba v + v_first_data v <= blk /\ blk + v_spc v <= v_lba v + v_first_data v + v_clusters v * v_spc v.
Proof. exact cluster_to_block_in_data. Qed.

Print Assumptions C01_clusters_disjoint_partial.
Print Assumptions C01_cluster_block_partial.
