(* PROOFS: the crash obligation PrCrashDef.step_crash for the API operations that write nothing
   (Read, IoRead, Length, Offset, Eof, SeekStart, SeekCur, SeekEnd, IoSeek, HasOpen, Find, Iter,
   Label, OpenRoot, OpenDir, CloseDir: the only crashed medium is the medium before the call)
   and for Flush and CloseFile (at most two single-block writes: the FAT32 information sector,
   which the invariant does not read, then the directory slot of the file; a crashed medium is
   the old medium, the old medium with a new information sector, or the new medium).
   Every outcome of every call (stale handles, refusals, device untouched) is covered: the
   statements have no hypothesis beyond those of step_crash. *)
From Coq Require Import NArith ZArith List Bool Lia Arith ZifyClasses ZifyInst Zify FMapPositive Permutation.
From SdFs Require Import FsTypes FsBase FsFat FsMgr FsLemmas PrBase PrFat PrAlloc PrDir PrSeek PrAllocEffect
  PrRw PrWrite PrFileSeq PrMulti PrEntry PrChain PrCount PrWf PrOpenClose PrGlobalDef PrGlobalWrite.
From SdFs Require PrModes PrHandles PrCrash PrBounds PrOrder PrGlobalOpen.
From SdFs Require Import PrCrashDef PrCrashDef2.
Import ListNotations.
Open Scope N_scope.
Local Arguments N.mul : simpl never.
Local Arguments N.add : simpl never.
Local Arguments N.sub : simpl never.
Local Arguments N.div : simpl never.
Local Arguments N.modulo : simpl never.
Local Ltac Zify.zify_post_hook ::= Z.to_euclidean_division_equations.

(* ================================================================== 1. calls that write nothing *)
Lemma quiet_step_writes {A} (m : M A) s r s' : quiet m -> m s = (r, s') -> step_writes s s' = [].
Proof.
  intros Q E. destruct (Q s r s' E) as (_ & new & Et & W).
  rewrite (step_writes_ext s s' new Et), (writes_of_nil_dwr new W). reflexivity.
Qed.

(* an operation none of whose runs from a state of the invariant writes *)
Lemma step_crash_nowrite fsz vid o :
  (forall s r s', fs_inv fsz vid s -> op_known_ok o -> step o s = (r, s') -> step_writes s s' = []) ->
  step_crash fsz vid o.
Proof.
  intros H s r s' Hinv _ Hk Hs v d' Ev Hd.
  rewrite (crash_disks_quiet s s' d' (H s r s' Hinv Hk Hs) Hd). exact (fs_inv_crash fsz vid s v Hinv Ev).
Qed.

Lemma step_crash_quiet fsz vid o : quiet (step o) -> step_crash fsz vid o.
Proof. intros Q. apply step_crash_nowrite. intros s r s' _ _ Hs. exact (quiet_step_writes _ s r s' Q Hs). Qed.

(* ---- the syntactic "writes nothing" predicate of PrGlobalWrite, for the remaining functions ---- *)
Create HintDb qt.
#[export] Hint Resolve quiet_ret quiet_fail quiet_panic quiet_oof quiet_get quiet_cache_read quiet_add32 quiet_sub32
  quiet_mul32 quiet_fat_block quiet_cluster_to_block quiet_next_cluster quiet_get_vol quiet_get_file quiet_put_file
  quiet_get_file_by_id quiet_get_volume_by_id quiet_mgr_read : qt.

Ltac qt_step :=
  match goal with
  | |- quiet (bind _ _) => apply quiet_bind; [|intros ?]
  | |- quiet (try _) => apply quiet_try
  | |- quiet (modify _) => apply quiet_modify; intros ?; split; reflexivity
  | |- quiet (if ?b then _ else _) => destruct b
  | |- quiet (match ?x with _ => _ end) => destruct x
  | |- quiet (let _ := _ in _) => cbv zeta
  | |- quiet _ => solve [auto 3 with qt]
  end.
Ltac qt_go := repeat qt_step.

Lemma quiet_for_blocks_from {R} (body : N -> M (option R)) :
  (forall i, quiet (body i)) -> forall n i, quiet (for_blocks_from n i body).
Proof.
  intros Hb. induction n as [|n IH]; intros i; cbn [for_blocks_from]; [apply quiet_ret|].
  apply quiet_bind; [apply Hb|]. intros [x|]; [apply quiet_ret|apply IH].
Qed.
Lemma quiet_for_blocks {R} (body : N -> M (option R)) first size :
  (forall i, quiet (body i)) -> quiet (for_blocks first size body).
Proof.
  intros Hb. unfold for_blocks. apply quiet_bind; [apply quiet_add32|]. intros _. apply quiet_for_blocks_from. exact Hb.
Qed.
(* a walk that does not grow the directory *)
Lemma quiet_walk_dir {R} (body : N -> M (option R)) : (forall blk, quiet (body blk)) ->
  forall fuel vi cluster, quiet (walk_dir fuel vi cluster false body).
Proof.
  intros Hb. induction fuel as [|f IH]; intros vi cluster; cbn [walk_dir]; [apply quiet_oof|].
  qt_go; try (apply quiet_for_blocks; exact Hb).
Qed.
Lemma quiet_find_directory_entry vi c name : quiet (find_directory_entry vi c name).
Proof. unfold find_directory_entry. qt_go. apply quiet_walk_dir. intros blk. qt_go. Qed.
Lemma quiet_iter_blocks fat32 : forall n i acc, quiet (iter_blocks n fat32 i acc).
Proof. induction n as [|n IH]; intros i acc; cbn [iter_blocks]; qt_go. Qed.
#[export] Hint Resolve quiet_find_directory_entry quiet_iter_blocks : qt.
Lemma quiet_iter_walk vi : forall fuel c acc, quiet (iter_walk fuel vi c acc).
Proof. induction fuel as [|f IH]; intros c acc; cbn [iter_walk]; qt_go. Qed.
Lemma quiet_iterate_dir_all vi c : quiet (iterate_dir_all vi c).
Proof. unfold iterate_dir_all. qt_go. apply quiet_iter_walk. Qed.
Lemma quiet_generate : quiet generate. Proof. unfold generate. qt_go. Qed.
Lemma quiet_get_dir_by_id h : quiet (get_dir_by_id h). Proof. unfold get_dir_by_id. qt_go. Qed.
Lemma quiet_get_dir i : quiet (get_dir i). Proof. unfold get_dir. qt_go. Qed.
Lemma quiet_push_dir d : quiet (push_dir d). Proof. unfold push_dir. qt_go. Qed.
#[export] Hint Resolve quiet_iterate_dir_all quiet_generate quiet_get_dir_by_id quiet_get_dir quiet_push_dir : qt.

Lemma quiet_open_root_dir h : quiet (open_root_dir h).
Proof. unfold open_root_dir. apply quiet_locked. qt_go. Qed.
Lemma quiet_open_dir h name : quiet (open_dir h name).
Proof. unfold open_dir. apply quiet_locked. qt_go. Qed.
Lemma quiet_close_dir h : quiet (close_dir h).
Proof. unfold close_dir. apply quiet_locked. qt_go. Qed.
Lemma quiet_mgr_find h name : quiet (mgr_find h name).
Proof. unfold mgr_find. apply quiet_locked. qt_go. Qed.
Lemma quiet_mgr_iterate {R} h (inner : M R) : quiet inner -> quiet (mgr_iterate h inner).
Proof. intros Hi. unfold mgr_iterate. apply quiet_locked. qt_go. Qed.
#[export] Hint Resolve quiet_open_root_dir quiet_close_dir : qt.
Lemma quiet_get_root_volume_label h : quiet (get_root_volume_label h).
Proof. unfold get_root_volume_label. apply quiet_locked. qt_go; apply quiet_mgr_iterate; apply quiet_ret. Qed.
Lemma quiet_has_open_handles : quiet has_open_handles.
Proof. unfold has_open_handles. qt_go. Qed.
Lemma quiet_with_file {A} h (k : nat -> fileinfo -> M A) : (forall fi f, quiet (k fi f)) -> quiet (with_file h k).
Proof. intros Hk. unfold with_file. apply quiet_locked. qt_go. Qed.
Lemma quiet_file_eof h : quiet (file_eof h). Proof. apply quiet_with_file. intros; qt_go. Qed.
Lemma quiet_file_length h : quiet (file_length h). Proof. apply quiet_with_file. intros; qt_go. Qed.
Lemma quiet_file_offset h : quiet (file_offset h). Proof. apply quiet_with_file. intros; qt_go. Qed.
Lemma quiet_file_seek_from_start h x : quiet (file_seek_from_start h x). Proof. apply quiet_with_file. intros; qt_go. Qed.
Lemma quiet_file_seek_from_end h x : quiet (file_seek_from_end h x). Proof. apply quiet_with_file. intros; qt_go. Qed.
Lemma quiet_file_seek_from_current h x : quiet (file_seek_from_current h x).
Proof. apply quiet_with_file. intros; cbv zeta; qt_go. Qed.
#[export] Hint Resolve quiet_file_offset quiet_file_seek_from_start quiet_file_seek_from_end quiet_file_seek_from_current : qt.
Lemma quiet_io_seek h w x : quiet (io_seek h w x). Proof. unfold io_seek. qt_go. Qed.
Lemma quiet_io_read h n : quiet (io_read h n). Proof. unfold io_read. qt_go. Qed.
Lemma quiet_lift {A} (f : A -> res) (m : M A) : quiet m -> quiet (lift f m).
Proof. intros H. unfold lift. qt_go. Qed.

Theorem step_crash_Read fsz vid h n : step_crash fsz vid (Read h n).
Proof. apply step_crash_quiet. cbn [step]. apply quiet_lift, quiet_mgr_read. Qed.
Theorem step_crash_IoRead fsz vid h n : step_crash fsz vid (IoRead h n).
Proof. apply step_crash_quiet. cbn [step]. apply quiet_lift, quiet_io_read. Qed.
Theorem step_crash_Length fsz vid h : step_crash fsz vid (Length h).
Proof. apply step_crash_quiet. cbn [step]. apply quiet_lift, quiet_file_length. Qed.
Theorem step_crash_Offset fsz vid h : step_crash fsz vid (Offset h).
Proof. apply step_crash_quiet. cbn [step]. apply quiet_lift, quiet_file_offset. Qed.
Theorem step_crash_Eof fsz vid h : step_crash fsz vid (Eof h).
Proof. apply step_crash_quiet. cbn [step]. apply quiet_lift, quiet_file_eof. Qed.
Theorem step_crash_SeekStart fsz vid h x : step_crash fsz vid (SeekStart h x).
Proof. apply step_crash_quiet. cbn [step]. apply quiet_lift, quiet_file_seek_from_start. Qed.
Theorem step_crash_SeekCur fsz vid h x : step_crash fsz vid (SeekCur h x).
Proof. apply step_crash_quiet. cbn [step]. apply quiet_lift, quiet_file_seek_from_current. Qed.
Theorem step_crash_SeekEnd fsz vid h x : step_crash fsz vid (SeekEnd h x).
Proof. apply step_crash_quiet. cbn [step]. apply quiet_lift, quiet_file_seek_from_end. Qed.
Theorem step_crash_IoSeek fsz vid h w x : step_crash fsz vid (IoSeek h w x).
Proof. apply step_crash_quiet. cbn [step]. apply quiet_lift, quiet_io_seek. Qed.
Theorem step_crash_HasOpen fsz vid : step_crash fsz vid HasOpen.
Proof. apply step_crash_quiet. cbn [step]. apply quiet_lift, quiet_has_open_handles. Qed.
Theorem step_crash_Find fsz vid h name : step_crash fsz vid (Find h name).
Proof. apply step_crash_quiet. cbn [step]. apply quiet_lift, quiet_mgr_find. Qed.
Theorem step_crash_Label fsz vid h : step_crash fsz vid (Label h).
Proof. apply step_crash_quiet. cbn [step]. apply quiet_lift, quiet_get_root_volume_label. Qed.
Theorem step_crash_OpenRoot fsz vid h : step_crash fsz vid (OpenRoot h).
Proof. apply step_crash_quiet. cbn [step]. apply quiet_lift, quiet_open_root_dir. Qed.
Theorem step_crash_OpenDir fsz vid h name : step_crash fsz vid (OpenDir h name).
Proof. apply step_crash_quiet. cbn [step]. apply quiet_lift, quiet_open_dir. Qed.
Theorem step_crash_CloseDir fsz vid h : step_crash fsz vid (CloseDir h).
Proof. apply step_crash_quiet. cbn [step]. apply quiet_lift, quiet_close_dir. Qed.

(* Iter: the listing only reads; the callback (any in-scope operation, Write and Delete included)
   runs under the lock, which refuses it before it touches the device
   (PrGlobalOpen.mgr_iterate_run) *)
Theorem step_crash_Iter fsz vid d inner : step_crash fsz vid (Iter d inner).
Proof.
  apply step_crash_nowrite. intros s r s' Hinv ((Hnr & _) & _) Hs. cbn [step] in Hs. unfold bind at 1 in Hs.
  destruct (mgr_iterate d match inner with Some o' => step o' | None => ret RUnit end s) as [o s1] eqn:E.
  apply (PrGlobalOpen.mgr_iterate_run fsz vid s d _ o s1 Hinv) in E.
  - destruct E as (_ & _ & (_ & _ & Ht)).
    assert (Es : s' = s1) by (destruct o; injection Hs as _ <-; reflexivity). subst s'.
    exact (tsteps_nil_writes s s1 Ht).
  - intros sL HL. destruct inner as [o'|].
    + exact (PrGlobalOpen.locked_step o' sL HL Hnr).
    + exists (Ok RUnit). split; [reflexivity|split; discriminate].
Qed.

(* ================================================================== 2. Flush, CloseFile *)
(* the information-sector step: nothing, or one write of the block v_info *)
Lemma info_run s vi v : no_faults s -> cache_ok s -> nth_error (s_vols s) vi = Some v -> blocks_wf (s_disk s) ->
  exists s1, info_step s vi v s1 /\ blocks_wf (s_disk s1) /\
    (s1 = s \/ (v_fat32 v = true /\ exists nb, tr_ext s s1 [(v_info v, nb)])).
Proof.
  intros Hnf Hc Hv Hwf.
  assert (Hnone : v_fat32 v = false \/ (v_free v = None /\ v_next_free v = None) ->
                  exists s1, info_step s vi v s1 /\ blocks_wf (s_disk s1) /\
                    (s1 = s \/ (v_fat32 v = true /\ exists nb, tr_ext s s1 [(v_info v, nb)]))).
  { intros H. exists s. split; [apply info_step_none; auto|]. split; [exact Hwf|left; reflexivity]. }
  destruct (v_fat32 v) eqn:E32; [|apply Hnone; left; reflexivity].
  assert (Hsome : v_free v <> None \/ v_next_free v <> None ->
                  exists s1, info_step s vi v s1 /\ blocks_wf (s_disk s1) /\
                    (s1 = s \/ (true = true /\ exists nb, tr_ext s s1 [(v_info v, nb)]))).
  { intros Hs.
    destruct (update_info_sector_spec vi s v Hnf Hc Hv E32 Hs (Hwf _))
      as (s1 & nb & Hrun & Hd & _ & Hfr & Hlen & _ & _ & _ & _ & Hc1 & Hnf1 & Hm & Htr).
    exists s1. split; [|split].
    - split; [exact Hrun|]. repeat (split; [assumption|]).
      intros [H|[H1 H2]]; [congruence|]. exfalso. destruct Hs as [H|H]; apply H; assumption.
    - intros i. destruct (N.eq_dec i (v_info v)) as [->|Hne].
      + rewrite Hd, disk_get_set_same. exact Hlen.
      + rewrite (Hfr i Hne). apply Hwf.
    - right. split; [reflexivity|]. exists nb. exact (tr_ext_one_write s s1 _ nb _ Hd Htr). }
  destruct (v_free v) as [fc|] eqn:Ef; [apply Hsome; left; discriminate|].
  destruct (v_next_free v) as [nx|] eqn:En; [apply Hsome; right; discriminate|].
  apply Hnone. right. split; reflexivity.
Qed.

Section FlushCrash.
  Variables (fsz vid : N) (s : st) (vi : nat) (v : vol) (bl rch : list N) (T : list node).
  Hypothesis Hinv : fs_inv_at fsz vid s vi v bl rch T.
  Variables (h : N) (fi : nat) (f : fileinfo).
  Hypothesis Hr : PrSeek.resolves s h fi f.

  (* flush_file on a handle that names a record: Ok; every crashed medium is crash-sound: the old
     medium; the old medium with a new information sector (same tree, same lost chains); the new
     medium (PrGlobalWrite.gw_flush_dirty: the tree with the file's node replaced; a chain that
     was pending - lost - is now the chain of that node) *)
  Theorem flush_crash : exists s', flush_file h s = (Ok tt, s') /\ same_mgr s s' /\
    crash_all (crash_inv fsz v) s s'.
  Proof.
    pose proof (fs_inv_crash_inv _ _ _ _ _ _ _ _ Hinv) as P0.
    destruct (f_dirty f) eqn:Hdirty.
    2:{ exists s. split; [exact (flush_file_clean s h fi f Hr Hdirty)|]. split; [apply same_mgr_refl|].
        apply crash_all_quiet; [apply step_writes_same; reflexivity|exact P0]. }
    destruct (gw_vol_facts _ _ _ _ _ _ _ _ Hinv) as (Hl & Hpre & Hfit & Hspc & Hwf & Hvid & Hnf & Hc & Hvi & L & Hvok).
    destruct (gw_file_facts _ _ _ _ _ _ _ _ h fi f Hinv Hr) as (O & Hfvol).
    pose proof Hr as (_ & Hfind & Hfi). pose proof (nth_error_In _ _ Hfi) as Hfin.
    destruct (gw_file_slot _ _ _ _ _ _ _ _ Hinv f Hfin)
      as (e0 & ch0 & i & Hn0 & Hpos0 & En & Ec & Hi & Eo & Hblk & Hns & Ee0 & Hch0).
    pose proof (of_slot _ _ _ _ O) as [Sct Smt Sname Soff Snfat].
    pose proof (of_size _ _ _ _ O) as Osize.
    pose proof (fi_disk _ _ _ _ _ _ _ _ Hinv) as HD.
    destruct (info_run s vi v Hnf Hc Hvi Hwf) as (s1 & Hinfo & Hwf1 & Hkind).
    assert (Hnp : e_size (f_entry f) = 0 \/ e_cluster (f_entry f) <> 0).
    { destruct (of_chain _ _ _ _ O) as [(A1 & _)|(A1 & A2 & _)].
      - right. clear - A1. lia.
      - left. rewrite A2 in Osize. cbn [length] in Osize. clear - Osize. lia. }
    destruct (flush_file_spec s h fi f vi v s1 Hr Hdirty (conj Hfvol Hvi) Hinfo Hnp Sct Smt Soff)
      as (s' & Hrun & Hd' & _ & _ & _ & _ & Hm' & Htr').
    (* the same run as PrGlobalWrite's: the invariant of the final state *)
    destruct (gw_flush_dirty fsz vid s vi v bl rch T Hinv h fi f Hr Hdirty) as (s'' & i' & Hrun'' & Hat'' & _).
    rewrite Hrun in Hrun''. injection Hrun'' as <-.
    pose proof (fs_inv_crash_inv _ _ _ _ _ _ _ _ Hat'') as P2.
    exists s'. split; [exact Hrun|]. split; [exact Hm'|].
    assert (T12 : tr_ext s1 s' [(e_block (f_entry f), put_entry (v_fat32 v) (f_entry f) (disk_get (s_disk s1) (e_block (f_entry f))))])
      by exact (tr_ext_one_write s1 s' _ _ _ Hd' Htr').
    (* the medium after the information-sector write *)
    assert (P1 : crash_inv fsz v (s_disk s1)).
    { destruct Hkind as [->|(E32 & nb & T01)]; [exact P0|].
      split; [exact (proj1 P0)|]. exists bl, rch, T, (pend_of s v).
      destruct Hinfo as (_ & _ & _ & _ & Hfr1 & _).
      destruct (fi_info _ _ _ _ _ _ _ _ Hinv E32) as (I1 & I2).
      apply (crash_inv_at_frame (s_disk s) (s_disk s1) v bl rch T (pend_of s v)).
      - intros j Hj. apply Hfr1. intros ->. exact (I1 Hj).
      - intros j Hj. apply Hfr1. intros ->.
        destruct (gw_dir_block_kind _ _ _ _ _ _ _ _ Hinv _ Hj) as [(E & _)|(c & C1 & _ & Hin)]; [congruence|exact (I2 c C1 Hin)].
      - exact (disk_inv_crash_inv_at _ _ _ _ _ _ HD). }
    apply (crash_all_trans _ s s1 s').
    - destruct Hkind as [->|(_ & nb & T01)]; [apply traced_refl|exact (tr_ext_traced _ _ _ T01)].
    - exact (tr_ext_traced _ _ _ T12).
    - destruct Hkind as [->|(_ & nb & T01)].
      + apply crash_all_quiet; [apply step_writes_same; reflexivity|exact P0].
      + exact (crash_all_one _ s s1 _ nb T01 P0 P1).
    - exact (crash_all_one _ s1 s' _ _ T12 P1 P2).
  Qed.
End FlushCrash.

Theorem step_crash_Flush fsz vid h : step_crash fsz vid (Flush h).
Proof.
  intros s r s' Hinv _ _ Hs v d' Ev Hd. pose proof (fs_inv_lock fsz vid s Hinv) as Hl.
  destruct (file_handle_cases s h Hl) as [(fi & f & Hr)|Hno].
  - cbn [step] in Hs. destruct Hinv as (vi & v0 & bl & rch & T & Hat).
    pose proof (fi_single _ _ _ _ _ _ _ _ Hat) as Ev0. rewrite Ev in Ev0. injection Ev0 as <-.
    destruct (flush_crash fsz vid s vi v bl rch T Hat h fi f Hr) as (s1 & Hrun & _ & Hall).
    rewrite (lift_ok' _ _ _ _ _ Hrun) in Hs. injection Hs as <- <-. exact (Hall d' Hd).
  - destruct (PrHandles.C08_stale_file_handle h s Hl Hno) as (_ & _ & E & _).
    rewrite E in Hs. injection Hs as <- <-.
    rewrite (crash_disks_quiet s s d' (step_writes_same s s eq_refl) Hd). exact (fs_inv_crash fsz vid s v Hinv Ev).
Qed.

(* close_file: the flush, then the record leaves the table - no further device access *)
Theorem step_crash_CloseFile fsz vid h : step_crash fsz vid (CloseFile h).
Proof.
  intros s r s' Hinv _ _ Hs v d' Ev Hd. pose proof (fs_inv_lock fsz vid s Hinv) as Hl.
  destruct (file_handle_cases s h Hl) as [(fi & f & Hr)|Hno].
  - cbn [step] in Hs. destruct Hinv as (vi & v0 & bl & rch & T & Hat).
    pose proof (fi_single _ _ _ _ _ _ _ _ Hat) as Ev0. rewrite Ev in Ev0. injection Ev0 as <-.
    destruct (flush_crash fsz vid s vi v bl rch T Hat h fi f Hr) as (s1 & Hrun & Hm & Hall).
    rewrite (lift_ok' _ _ _ _ _ (close_file_after_flush s h fi f s1 Hr Hrun Hm)) in Hs. injection Hs as <- <-.
    apply (Hall d'). apply (crash_disks_same_r s s1 _ d' eq_refl). exact Hd.
  - destruct (PrHandles.C08_stale_file_handle h s Hl Hno) as (_ & _ & _ & E & _).
    rewrite E in Hs. injection Hs as <- <-.
    rewrite (crash_disks_quiet s s d' (step_writes_same s s eq_refl) Hd). exact (fs_inv_crash fsz vid s v Hinv Ev).
Qed.

Print Assumptions step_crash_Read.
Print Assumptions step_crash_IoRead.
Print Assumptions step_crash_Length.
Print Assumptions step_crash_Offset.
Print Assumptions step_crash_Eof.
Print Assumptions step_crash_SeekStart.
Print Assumptions step_crash_SeekCur.
Print Assumptions step_crash_SeekEnd.
Print Assumptions step_crash_IoSeek.
Print Assumptions step_crash_HasOpen.
Print Assumptions step_crash_Find.
Print Assumptions step_crash_Iter.
Print Assumptions step_crash_Label.
Print Assumptions step_crash_OpenRoot.
Print Assumptions step_crash_OpenDir.
Print Assumptions step_crash_CloseDir.
Print Assumptions step_crash_Flush.
Print Assumptions step_crash_CloseFile.
