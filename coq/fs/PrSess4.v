(* PROOFS for the SESSION invariant, part 4: what a mount READS from the FAT32 information sector.
   PrMountLayout.mount_facts only says that the free count and the next-free hint of the mounted
   record are decoded from SOME two numbers; here: they are the fields 488 and 492 of the
   information sector of the medium (needed to carry the free count ACROSS sessions, PrSess5). *)
From Coq Require Import NArith ZArith List Bool Lia Arith FMapPositive.
From SdFs Require Import FsTypes FsBase FsFat FsMgr FsLemmas PrBase PrFat PrAlloc PrDir PrOrder
                         PrAllocEffect PrBounds.
From SdFs Require PrHandles PrMountLayout PrGlobalMount.
Import ListNotations.
Open Scope N_scope.
Local Arguments N.mul : simpl never.
Local Arguments N.add : simpl never.
Local Arguments N.sub : simpl never.
Local Arguments N.div : simpl never.

(* the decoding of the two fields (fat/info.rs, and the D40 clip in parse_volume) *)
Definition dec_free (fc : N) : option N := if fc =? 4294967295 then None else Some fc.
Definition dec_hint (clusters nx : N) : option N :=
  if (nx =? 4294967295) || (nx =? 0) || (nx =? 1) || (clusters + 2 <=? nx) then None else Some nx.

Lemma parse_volume_reads_info id idx lba nb s v s' :
  parse_volume id idx lba nb s = (Ok v, s') -> no_faults s -> cache_ok s -> v_fat32 v = true ->
  v_free v = dec_free (le32 (disk_get (s_disk s) (v_info v)) 488) /\
  v_next_free v = dec_hint (v_clusters v) (le32 (disk_get (s_disk s) (v_info v)) 492).
Proof.
  intros H Hnf Hc E32. unfold parse_volume in H.
  inv_bind H as b s1 Hb.
  destruct (PrGlobalMount.rd_cache_read lba s _ s1 Hb Hnf Hc) as (D1 & _ & _ & _ & Hnf1 & Hc1).
  inv_bind H as p s2 Hcr. destruct p as [cc f32]. cbv beta iota in H.
  apply PrMountLayout.bpb_create_inv in Hcr. destruct Hcr as (-> & _).
  destruct (U32 <=? lba + bpb_total_blocks b); [exfalso; exact (PrMountLayout.fail_inv _ _ _ _ H)|].
  destruct ((le16 b 14 =? 0) || (get8 b 16 =? 0)); [exfalso; exact (PrMountLayout.fail_inv _ _ _ _ H)|].
  destruct (bpb_fat_size b * 512 <? (cc + 2) * (if f32 then 4 else 2));
    [exfalso; exact (PrMountLayout.fail_inv _ _ _ _ H)|].
  inv_bind H as second s3 Hs.
  assert (Hsec : s3 = s1).
  { destruct (get8 b 16 =? 2).
    - inv_bind Hs as x s4 Hx. apply add32_inv in Hx. destruct Hx as (-> & -> & _).
      apply PrMountLayout.ret_inv in Hs. destruct Hs as [_ ->]. reflexivity.
    - apply PrMountLayout.ret_inv in Hs. destruct Hs as [_ ->]. reflexivity. }
  subst s3. clear Hs.
  destruct f32.
  - inv_bind H as nf s4 Hm. apply mul32_inv in Hm. destruct Hm as (-> & -> & _).
    inv_bind H as fd s4 Ha. apply add32_inv in Ha. destruct Ha as (-> & -> & _).
    destruct (268435445 <? cc); [exfalso; exact (PrMountLayout.fail_inv _ _ _ _ H)|].
    destruct ((le16 b 48 =? 0) || (le16 b 14 <=? le16 b 48)); [exfalso; exact (PrMountLayout.fail_inv _ _ _ _ H)|].
    inv_bind H as ia s4 Hia. apply add32_inv in Hia. destruct Hia as (-> & -> & _).
    inv_bind H as ib s4 Hib. apply PrMountLayout.cache_read_ok_inv in Hib. destruct Hib as (-> & _).
    rewrite (PrGlobalMount.cached_ok s1 _ Hc1), D1 in H.
    destruct (le32 (disk_get (s_disk s) (lba + le16 b 48)) 0 =? 1096897106);
      [|exfalso; exact (PrMountLayout.fail_inv _ _ _ _ H)].
    destruct (le32 (disk_get (s_disk s) (lba + le16 b 48)) 484 =? 1631679090);
      [|exfalso; exact (PrMountLayout.fail_inv _ _ _ _ H)].
    destruct (le32 (disk_get (s_disk s) (lba + le16 b 48)) 508 =? 2857697280);
      [|exfalso; exact (PrMountLayout.fail_inv _ _ _ _ H)].
    cbn [negb] in H. apply PrMountLayout.ret_inv in H. destruct H as [-> _].
    cbn [set_v_next_free set_v_free v_free v_next_free v_info v_clusters]. split; reflexivity.
  - destruct (le16 b 11 =? 512); [|exfalso; exact (PrMountLayout.fail_inv _ _ _ _ H)].
    cbn [negb] in H.
    inv_bind H as nf s4 Hm. inv_bind H as fr s5 Ha. inv_bind H as fd s6 Ha2.
    apply PrMountLayout.ret_inv in H. destruct H as [-> _]. cbn [v_fat32] in E32. discriminate E32.
Qed.

(* a successful OpenVol from a manager with nothing open, on FAT32: the free count of the mounted
   record is field 488 of the information sector (0xFFFFFFFF = unknown), its hint field 492
   (0xFFFFFFFF, 0, 1 and everything from cluster count + 2 on = unknown) *)
Theorem mount_reads_info idx s vid s' w :
  PrGlobalMount.fresh_mgr s -> step (OpenVol idx) s = (Ok (RHandle vid), s') -> s_vols s' = [w] ->
  v_fat32 w = true ->
  v_free w = dec_free (le32 (disk_get (s_disk s) (v_info w)) 488) /\
  v_next_free w = dec_hint (v_clusters w) (le32 (disk_get (s_disk s) (v_info w)) 492).
Proof.
  intros (Fv & _ & _ & Fl & Fnf & Fc) E Ew E32. cbn [step] in E.
  apply PrHandles.lift_ok_inv in E. destruct E as (id & H & _).
  unfold open_raw_volume, locked in H.
  unfold bind at 1 in H. unfold get at 1 in H. rewrite Fl in H.
  unfold bind at 1 in H. unfold get at 1 in H.
  destruct (is_full (s_vols s) (s_maxv s)); [exfalso; exact (PrMountLayout.fail_inv _ _ _ _ H)|].
  destruct (existsb (fun v => v_idx v =? idx) (s_vols s)); [exfalso; exact (PrMountLayout.fail_inv _ _ _ _ H)|].
  inv_bind H as mbr s0 Hm.
  destruct (PrGlobalMount.rd_cache_read 0 s _ s0 Hm Fnf Fc) as (D0 & _ & _ & _ & Hnf0 & Hc0).
  destruct (negb (le16 mbr 510 =? 43605)); [exfalso; exact (PrMountLayout.fail_inv _ _ _ _ H)|].
  destruct (4 <=? idx); [exfalso; exact (PrMountLayout.fail_inv _ _ _ _ H)|].
  destruct (negb (N.land (get8 mbr (446 + 16 * idx)) 127 =? 0)); [exfalso; exact (PrMountLayout.fail_inv _ _ _ _ H)|].
  destruct (negb (partition_type_ok (get8 mbr (446 + 16 * idx + 4)))); [exfalso; exact (PrMountLayout.fail_inv _ _ _ _ H)|].
  inv_bind H as v1 s1 Hp. inv_bind H as id' s2 Hg. inv_bind H as u s3 Hmod.
  apply PrMountLayout.ret_inv in H. destruct H as [_ ->].
  apply PrMountLayout.generate_inv in Hg. destruct Hg as [-> ->].
  unfold modify in Hmod. inversion Hmod; subst s3. clear Hmod.
  destruct (PrMountLayout.parse_volume_inv _ _ _ _ _ _ _ Hp) as (_ & _ & _ & _ & Pv & _).
  apply PrMountLayout.cache_read_ok_inv in Hm. destruct Hm as (_ & Mv & _).
  cbn [s_vols set_s_vols set_s_next_id] in Ew. rewrite Pv, Mv, Fv in Ew. cbn [app] in Ew.
  injection Ew as <-.
  cbn [set_v_id v_fat32 v_free v_next_free v_info v_clusters] in *.
  rewrite <- D0. exact (parse_volume_reads_info _ _ _ _ _ _ _ Hp Hnf0 Hc0 E32).
Qed.

Print Assumptions mount_reads_info.
