(* PROOFS: C10 / C09 for Write and IoWrite over whole histories, part 1: the medium-level tools.
   1  rechain: the tree of a medium whose directory blocks and directory chains are those of a
      crash-sound medium and whose FAT is well-formed for the same heads (plus lost chains): every
      file node gets the chain its first cluster has NOW (ci_rechain).  This is how a crashed
      medium of a write is read: the directories are untouched, the chain of the written file is
      the old one or the old one extended, a cluster marked end-of-chain but not yet linked is a
      lost chain of one cluster.
   2  wr_rel: what every crashed medium d' of a write has in common with the medium d before it:
      the FAT is well-formed for the old heads plus lost one-cluster chains; the chain of every
      OTHER head is the same chain with the same blocks; blocks outside the FAT and outside the
      data clusters are untouched.  Reflexive, transitive, geometry-only.
   3  the three kinds of device writes of a write call produce wr_rel:
      a data-block write into a cluster of the file's own chain (wr_rel_data_write); EVERY PREFIX
      of the writes of alloc_cluster behind the last cluster of the file's chain
      (wr_rel_alloc_append: stage 0 nothing, stage 1 the new cluster is a lost chain, stage 2 it
      is linked) and of alloc_cluster for the first cluster of a file (wr_rel_alloc_first).
      File data clusters are allocated WITHOUT zeroing (zero = false at both call sites of
      write_loop / mgr_write): stale contents in the new cluster are not interpreted by anything
      the invariant reads. *)
From Coq Require Import NArith ZArith List Bool Lia Arith ZifyClasses ZifyInst Zify FMapPositive Permutation.
From SdFs Require Import FsTypes FsBase FsFat FsMgr FsLemmas PrBase PrFat PrAlloc PrDir PrSeek PrAllocEffect
  PrRw PrWrite PrFileSeq PrMulti PrEntry PrChain PrCount PrWf PrOpenClose PrGlobalDef PrGlobalWrite.
From SdFs Require PrModes PrHandles PrBounds PrOrder PrGlobalOpen.
From SdFs Require Import PrCrash PrCrashDef PrCrashDef2 PrCrashDef3 PrCrashDef4.
Import ListNotations.
Open Scope N_scope.
Local Arguments N.mul : simpl never.
Local Arguments N.add : simpl never.
Local Arguments N.sub : simpl never.
Local Arguments N.div : simpl never.
Local Arguments N.modulo : simpl never.
Local Ltac Zify.zify_post_hook ::= Z.to_euclidean_division_equations.

(* ================================================================== 1. rechain *)
(* every file node gets the chain g computes from its entry *)
Fixpoint rechain (g : dirent -> list N) (n : node) {struct n} : node :=
  match n with
  | NFile e _ => NFile e (g e)
  | NDir e ch kids => NDir e ch (map (rechain g) kids)
  end.

(* the chain of an entry as the medium d has it *)
Definition chain_now (d : disk) (v : vol) (e : dirent) : list N :=
  if e_cluster e <? 2 then [] else chain_l d v (e_cluster e).

Section Rechain.
  Variable g : dirent -> list N.
  Local Notation RC := (rechain g).

  Lemma rc_entry n : node_entry (RC n) = node_entry n.
  Proof. destruct n; reflexivity. Qed.

  Lemma rc_pos n : node_pos (RC n) = node_pos n.
  Proof. unfold node_pos. rewrite rc_entry. reflexivity. Qed.

  Lemma rc_own_head n : own_head (RC n) = own_head n.
  Proof. destruct n; reflexivity. Qed.

  Lemma rc_flatten : forall n, flatten (RC n) = map RC (flatten n).
  Proof.
    induction n as [e ch|e ch kids IH] using node_ind'; [reflexivity|].
    cbn [rechain flatten map]. f_equal.
    induction IH as [|k ks Hk _ IHks]; [reflexivity|].
    cbn [map flat_map]. rewrite map_app, Hk, IHks. reflexivity.
  Qed.

  Lemma rc_all_nodes T : all_nodes (map RC T) = map RC (all_nodes T).
  Proof.
    unfold all_nodes. induction T as [|n T IH]; [reflexivity|].
    cbn [map flat_map]. rewrite map_app, rc_flatten, IH. reflexivity.
  Qed.

  Lemma rc_positions T : map node_pos (all_nodes (map RC T)) = map node_pos (all_nodes T).
  Proof. rewrite rc_all_nodes, map_map. apply map_ext. exact rc_pos. Qed.

  Lemma rc_heads v T : heads v (map RC T) = heads v T.
  Proof.
    unfold heads. f_equal. rewrite !heads_all_nodes, rc_all_nodes.
    rewrite flat_map_concat_map, map_map, <- flat_map_concat_map. apply flat_map_ext_in'.
    intros n _. apply rc_own_head.
  Qed.

  Lemma rc_dir_blocks v : forall n, node_dir_blocks v (RC n) = node_dir_blocks v n.
  Proof.
    induction n as [e ch|e ch kids IH] using node_ind'; [reflexivity|].
    cbn [rechain node_dir_blocks]. f_equal.
    induction IH as [|k ks Hk _ IHks]; [reflexivity|]. cbn [map flat_map]. rewrite Hk, IHks. reflexivity.
  Qed.

  Variables (d d' : disk) (v : vol).

  (* what the new medium must say about a node of the old tree *)
  Definition rc_keep (m : node) : Prop :=
    match m with
    | NFile e _ => entry_chain d' v e (g e)
    | NDir e ch _ => chain_at d' v (e_cluster e) ch
    end.

  Lemma rc_node_rep : forall n t, node_rep d v n t ->
    (forall j, In j (node_dir_blocks v n) -> disk_get d' j = disk_get d j) ->
    (forall m, In m (flatten n) -> rc_keep m) ->
    node_rep d' v (RC n) t.
  Proof.
    induction n as [e ch|e ch kids IH] using node_ind'; intros t H Hb Hk.
    - apply node_rep_file in H. destruct H as (A & B & _).
      pose proof (Hk _ (or_introl eq_refl)) as K. cbn [rc_keep] in K. cbn [rechain].
      apply node_rep_file. split; [exact A|]. split; [exact B|exact K].
    - apply node_rep_dir in H. destruct H as (A & B & _ & D).
      pose proof (Hk _ (flatten_self _)) as K. cbn [rc_keep] in K.
      cbn [rechain]. apply node_rep_dir. split; [exact A|]. split; [exact B|]. split; [exact K|].
      cbn [node_dir_blocks] in Hb.
      rewrite (dir_nodes_ext d d' (data_blocks v ch)) by (intros j Hj; apply Hb; apply in_or_app; left; exact Hj).
      assert (Hk' : forall k, In k kids -> forall m, In m (flatten k) -> rc_keep m)
        by (intros k Hkk m Hm; apply Hk; exact (flatten_kid e ch kids k m Hkk Hm)).
      assert (Hb' : forall j, In j (flat_map (node_dir_blocks v) kids) -> disk_get d' j = disk_get d j)
        by (intros j Hj; apply Hb; apply in_or_app; right; exact Hj).
      clear Hk Hb K. revert D. generalize (dir_nodes d (data_blocks v ch)) as ts.
      induction IH as [|k ks Hk0 _ IHks]; intros ts D; inversion D; subst; cbn [map]; constructor.
      + apply Hk0; [assumption| |].
        * intros j Hj. apply Hb'. cbn [flat_map]. apply in_or_app. left. exact Hj.
        * apply Hk'. left. reflexivity.
      + apply IHks; [| |assumption].
        * intros k0 Hk0' m Hm. apply (Hk' k0); [right; exact Hk0'|exact Hm].
        * intros j Hj. apply Hb'. cbn [flat_map]. apply in_or_app. right. exact Hj.
  Qed.

  Lemma rc_tree_rep bl T : tree_rep d v bl T ->
    (forall j, In j (tree_dir_blocks v bl T) -> disk_get d' j = disk_get d j) ->
    (forall m, In m (all_nodes T) -> rc_keep m) ->
    tree_rep d' v bl (map RC T).
  Proof.
    unfold tree_rep, tree_dir_blocks. intros H Hb Hk.
    rewrite (dir_nodes_ext d d' bl) by (intros j Hj; apply Hb; apply in_or_app; left; exact Hj).
    assert (Hb' : forall j, In j (flat_map (node_dir_blocks v) T) -> disk_get d' j = disk_get d j)
      by (intros j Hj; apply Hb; apply in_or_app; right; exact Hj).
    clear Hb. revert H Hb' Hk. generalize (dir_nodes d bl) as ts. intros ts H.
    induction H as [|n t T0 ts0 Hn _ IH]; intros Hb' Hk; cbn [map]; constructor.
    - apply rc_node_rep; [exact Hn| |].
      + intros j Hj. apply Hb'. cbn [flat_map]. apply in_or_app. left. exact Hj.
      + intros m Hm. apply Hk. unfold all_nodes. cbn [flat_map]. apply in_or_app. left. exact Hm.
    - apply IH.
      + intros j Hj. apply Hb'. cbn [flat_map]. apply in_or_app. right. exact Hj.
      + intros m Hm. apply Hk. unfold all_nodes. cbn [flat_map]. apply in_or_app. right. exact Hm.
  Qed.

  Lemma rc_node_ok_crash : forall n p, node_ok_crash d v p n ->
    (forall j, In j (node_dir_blocks v n) -> disk_get d' j = disk_get d j) ->
    node_ok_crash d' v p (RC n).
  Proof.
    induction n as [e ch|e ch kids IH] using node_ind'; intros p H Hb; [exact I|].
    apply node_ok_crash_dir in H. destruct H as (A & B). cbn [rechain]. apply node_ok_crash_dir.
    cbn [node_dir_blocks] in Hb. split.
    - apply (dir_ok_frame d d' v); [|exact A]. intros j Hj. apply Hb. apply in_or_app. left. exact Hj.
    - rewrite Forall_forall in *. intros k Hk0. apply in_map_iff in Hk0. destruct Hk0 as (k0 & <- & Hk0).
      apply (IH k0 Hk0); [exact (B k0 Hk0)|].
      intros j Hj. apply Hb. apply in_or_app. right. apply in_flat_map. exists k0. split; assumption.
  Qed.
End Rechain.

(* a path to a file node whose chain g reproduces leads to the same node *)
Lemma node_at_rechain g T path e ch : g e = ch -> node_at T path (NFile e ch) ->
  node_at (map (rechain g) T) path (NFile e ch).
Proof.
  intros Eg Hat.
  assert (E : rechain g (NFile e ch) = NFile e ch) by (cbn [rechain]; rewrite Eg; reflexivity).
  rewrite <- E.
  apply (node_at_map (rechain g) (fun _ => True) T); auto.
  - intros m _. rewrite rc_entry. destruct m as [e1 ch1|e1 ch1 ks]; cbn [rechain node_is_dir node_kids].
    + split; [reflexivity|]. split; [reflexivity|intros k []].
    + split; [reflexivity|]. split; [reflexivity|]. intros k Hk _. apply in_map. exact Hk.
  - intros k Hk _. apply in_map. exact Hk.
Qed.

(* the crash invariant of a medium d' that has the directory blocks, the root directory and the
   directory chains of the crash-sound medium d and a FAT that is well-formed for the heads of
   the tree of d plus the lost heads lost' *)
Theorem ci_rechain d d' v bl rch T lost lost' :
  crash_inv_at d v bl rch T lost ->
  (forall j, In j (tree_dir_blocks v bl T) -> disk_get d' j = disk_get d j) ->
  (forall e ch kids, In (NDir e ch kids) (all_nodes T) -> chain_at d' v (e_cluster e) ch) ->
  root_dir d' v bl rch ->
  fat_wf d' v (heads v T ++ lost') ->
  crash_inv_at d' v bl rch (map (rechain (chain_now d' v)) T) lost'.
Proof.
  intros [A B C D E F] Hb Hdirs Hroot W.
  assert (Hk : forall m, In m (all_nodes T) -> rc_keep (chain_now d' v) d' v m).
  { intros [e ch|e ch kids] Hm; cbn [rc_keep]; [|exact (Hdirs e ch kids Hm)].
    unfold chain_now. destruct (N.ltb_spec (e_cluster e) 2) as [Hlt|Hge]; [right; split; [exact Hlt|reflexivity]|].
    left. split; [exact Hge|]. exists (walk_fuel v).
    apply (wf_l_def d' v _ _ W). apply in_or_app. left. unfold heads. apply in_or_app. right.
    apply (own_head_in T (NFile e ch) _ Hm). cbn [own_head].
    replace (2 <=? e_cluster e) with true by (symmetry; apply N.leb_le; exact Hge). left. reflexivity. }
  constructor.
  - exact Hroot.
  - exact (rc_tree_rep (chain_now d' v) d d' v bl T B Hb Hk).
  - apply (dir_ok_frame d d' v); [|exact C].
    intros j Hj. apply Hb. unfold tree_dir_blocks. apply in_or_app. left. exact Hj.
  - rewrite Forall_forall in *. intros n Hn'. apply in_map_iff in Hn'. destruct Hn' as (n0 & <- & Hn0).
    apply (rc_node_ok_crash (chain_now d' v) d d' v n0 _ (D n0 Hn0)).
    intros j Hj. apply Hb. unfold tree_dir_blocks. apply in_or_app. right.
    apply in_flat_map. exists n0. split; assumption.
  - rewrite rc_heads. exact W.
  - rewrite rc_positions. exact F.
Qed.

(* ================================================================== 2. wr_rel *)
Definition wr_rel (v : vol) (fsz : N) (hs : list N) (first : N) (d d' : disk) : Prop :=
  (exists extra, fat_wf d' v (extra ++ hs)) /\
  (forall h2 ch2, In h2 hs -> h2 <> first -> chain_at d v h2 ch2 ->
     chain_at d' v h2 ch2 /\ forall j, In j (data_blocks v ch2) -> disk_get d' j = disk_get d j) /\
  (forall j, non_fat v fsz j -> (forall c, 2 <= c -> ~ In j (cluster_blocks v c)) -> disk_get d' j = disk_get d j).

Lemma wr_rel_refl v fsz hs first d : fat_wf d v hs -> wr_rel v fsz hs first d d.
Proof.
  intros W. split; [exists []; exact W|]. split.
  - intros h2 ch2 _ _ H. split; [exact H|reflexivity].
  - reflexivity.
Qed.

Lemma wr_rel_trans v fsz hs first a b c : wr_rel v fsz hs first a b -> wr_rel v fsz hs first b c ->
  wr_rel v fsz hs first a c.
Proof.
  intros (_ & A2 & A3) (B1 & B2 & B3). split; [exact B1|]. split.
  - intros h2 ch2 H2 Hne Hch. destruct (A2 h2 ch2 H2 Hne Hch) as (X1 & X2).
    destruct (B2 h2 ch2 H2 Hne X1) as (Y1 & Y2). split; [exact Y1|].
    intros j Hj. rewrite (Y2 j Hj). exact (X2 j Hj).
  - intros j J1 J2. rewrite (B3 j J1 J2). exact (A3 j J1 J2).
Qed.

Lemma non_fat_geo v w fsz j : geo_eq v w -> non_fat v fsz j -> non_fat w fsz j.
Proof. intros (a & b & ->) H. exact H. Qed.

Lemma cluster_blocks_geo v w c : geo_eq v w -> cluster_blocks w c = cluster_blocks v c.
Proof. intros (a & b & ->). reflexivity. Qed.

Lemma wr_rel_geo v w fsz hs first d d' : geo_eq v w -> wr_rel v fsz hs first d d' -> wr_rel w fsz hs first d d'.
Proof.
  intros G ((extra & A1) & A2 & A3). pose proof (geo_eq_sym _ _ G) as G'.
  split; [exists extra; exact (fat_wf_geo d' v w _ G A1)|]. split.
  - intros h2 ch2 H2 Hne Hch. apply (chain_at_geo d v w h2 ch2 G) in Hch.
    destruct (A2 h2 ch2 H2 Hne Hch) as (X1 & X2). split; [apply (chain_at_geo d' v w h2 ch2 G); exact X1|].
    rewrite (data_blocks_geo v w ch2 G). exact X2.
  - intros j J1 J2. apply A3; [exact (non_fat_geo w v fsz j G' J1)|].
    intros c Hc. rewrite <- (cluster_blocks_geo v w c G). exact (J2 c Hc).
Qed.

(* a head that is not in the list of the statement: more lost chains *)
Lemma wr_rel_drop_first v fsz hs first d d' : wr_rel v fsz (first :: hs) first d d' -> wr_rel v fsz hs first d d'.
Proof.
  intros ((extra & A1) & A2 & A3). split; [|split; [|exact A3]].
  - exists (extra ++ [first]). rewrite <- app_assoc. exact A1.
  - intros h2 ch2 H2 Hne Hch. exact (A2 h2 ch2 (or_intror H2) Hne Hch).
Qed.

(* crash_all with wr_rel composes along a run *)
Lemma wr_rel_chain v fsz hs first a b c :
  traced a b -> traced b c ->
  crash_all (wr_rel v fsz hs first (s_disk a)) a b ->
  crash_all (wr_rel v fsz hs first (s_disk b)) b c ->
  crash_all (wr_rel v fsz hs first (s_disk a)) a c.
Proof.
  intros T1 T2 H1 H2. apply (crash_all_trans _ a b c T1 T2 H1).
  intros d' Hd. apply (wr_rel_trans v fsz hs first _ (s_disk b)); [|exact (H2 d' Hd)].
  exact (H1 _ (crash_disks_new a b T1)).
Qed.

(* ================================================================== 3. the device writes of a write call *)
(* ---- entries unchanged ---- *)
Lemma wf_same d d' v hs : fat_wf d v hs ->
  (forall x, 2 <= x -> x < v_clusters v + 2 -> fat_get d' v 0 x = fat_get d v 0 x) ->
  fat_wf d' v hs /\ forall h2 ch2, chain_at d v h2 ch2 -> chain_at d' v h2 ch2.
Proof.
  intros W Ho.
  assert (Hc : forall h2 ch2, chain_at d v h2 ch2 -> chain_at d' v h2 ch2).
  { intros h2 ch2 H. apply (PrChain.chain_of_frame d d' v _ _ _ H).
    intros x Hx. destruct (chain_at_mem d v h2 ch2 x H Hx) as (A & B & _). exact (Ho x A B). }
  split; [|exact Hc].
  apply (wf_intro d' v hs (chain_l d v)).
  - exact (wf_heads _ _ _ W).
  - intros h Hh. exact (Hc h _ (wf_l_def d v hs h W Hh)).
  - intros h1 h2 x. apply wf_l_disj. exact W.
  - intros x X1 X2. rewrite (Ho x X1 X2). exact (wf_l_used d v hs x W X1 X2).
Qed.

(* ---- a data-block write into a cluster of the chain of `first` ---- *)
Lemma wr_rel_data_write v fsz hs first d ch cj blk nb :
  fat_layout v fsz -> fat_wf d v hs -> In first hs -> chain_at d v first ch ->
  In cj ch -> In blk (cluster_blocks v cj) ->
  wr_rel v fsz hs first d (disk_set d blk nb).
Proof.
  intros L W Hin Hch Hcj Hblk.
  destruct (chain_at_mem d v first ch cj Hch Hcj) as (C1 & _).
  assert (Hfat : forall j, fat_area v j -> disk_get (disk_set d blk nb) j = disk_get d j).
  { destruct (In_cluster_blocks _ _ _ Hblk) as (q & _ & ->).
    apply gw_fat_area_data_write; [exact (layout_below_data v fsz L)|exact C1]. }
  split; [exists []; exact (fat_wf_ext d _ v hs Hfat W)|]. split.
  - intros h2 ch2 H2 Hne Hc2. split.
    + unfold chain_at in *. rewrite (chain_of_ext d _ v Hfat). exact Hc2.
    + intros j Hj. apply disk_get_set_other. intros <-.
      apply Hne. apply (chain_blocks_apart d v hs h2 first ch2 ch blk W H2 Hin Hc2 Hch Hj).
      unfold data_blocks. apply in_flat_map. exists cj. split; assumption.
  - intros j _ J2. apply disk_get_set_other. intros <-. exact (J2 cj C1 Hblk).
Qed.

(* ---- every prefix of alloc_cluster ---- *)
(* the FAT at stage n of an allocation: well-formed for the old heads, plus the new cluster as a
   lost head at stage 1; the chains of the heads other than the extended one are untouched *)
Lemma wf_of_stage v fsz D E hs c prev n first pre :
  fat_layout v fsz -> link_ok v -> fat_wf D v hs ->
  2 <= c -> c < v_clusters v + 2 -> fat_get D v 0 c = 0 ->
  (forall p, prev = Some p -> In first hs /\ chain_at D v first (pre ++ [p])) ->
  (n <= 2)%nat -> (prev = None -> (n <= 1)%nat) ->
  (forall x, in_fat v fsz x -> fat_get E v 0 x = alloc_stage v D c prev n x) ->
  (exists extra, fat_wf E v (extra ++ hs)) /\
  (forall h2 ch2, In h2 hs -> h2 <> first -> chain_at D v h2 ch2 -> chain_at E v h2 ch2).
Proof.
  intros L Hl W C1 C2 Cf Hprev Hn Hn1 HE.
  assert (HinF : forall x, x < v_clusters v + 2 -> in_fat v fsz x) by (intros x Hx; exact (layout_sector v fsz x L Hx)).
  destruct n as [|[|n]].
  - (* nothing on the medium yet *)
    destruct (wf_same D E v hs W) as (W' & Hc).
    { intros x _ X2. rewrite (HE x (HinF x X2)). reflexivity. }
    split; [exists []; exact W'|]. intros h2 ch2 _ _ H. exact (Hc h2 ch2 H).
  - (* the new cluster is marked, nothing links to it *)
    destruct (wf_new_head D E v hs c W C1 C2 Cf) as (W' & _ & _ & Hoth).
    + rewrite (HE c (HinF c C2)). cbn [alloc_stage]. rewrite N.eqb_refl. reflexivity.
    + intros x _ X2 Hne. rewrite (HE x (HinF x X2)). cbn [alloc_stage].
      apply N.eqb_neq in Hne. rewrite Hne. reflexivity.
    + split; [exists [c]; exact W'|]. intros h2 ch2 H2 _ H. exact (Hoth h2 ch2 H2 H).
  - (* linked *)
    destruct prev as [p|]; [|specialize (Hn1 eq_refl); lia].
    destruct (Hprev p eq_refl) as (Hin & Hch).
    assert (Hpin : In p (pre ++ [p])) by (apply in_or_app; right; left; reflexivity).
    destruct (chain_at_mem D v first _ p Hch Hpin) as (P1 & P2 & P3 & _).
    assert (Hpc : p <> c) by (intros ->; contradiction).
    assert (Epc : (c =? p) = false) by (apply N.eqb_neq; congruence).
    destruct (wf_extend D E v hs first pre p c Hl W Hin Hch C1 C2 Cf) as (W' & _ & Hoth).
    + rewrite (HE c (HinF c C2)). cbn [alloc_stage]. rewrite Epc, N.eqb_refl. reflexivity.
    + rewrite (HE p (HinF p P2)). cbn [alloc_stage]. rewrite N.eqb_refl. exact (enc_link v c Hl C2).
    + intros x _ X2 N1 N2. rewrite (HE x (HinF x X2)). cbn [alloc_stage].
      apply N.eqb_neq in N1. apply N.eqb_neq in N2. rewrite N2, N1. reflexivity.
    + split; [exists []; exact W'|]. intros h2 ch2 H2 Hne H. exact (Hoth h2 ch2 H2 Hne H).
Qed.

Lemma wr_rel_alloc vi v fsz hs first pre prev s c s' :
  alloc_pre s vi v fsz -> link_ok v -> fat_wf (s_disk s) v hs ->
  (forall p, prev = Some p -> In first hs /\ chain_at (s_disk s) v first (pre ++ [p])) ->
  alloc_cluster vi prev false s = (Ok c, s') ->
  crash_all (wr_rel v fsz hs first (s_disk s)) s s'.
Proof.
  intros Hpre Hl W Hprev Hrun d' Hd.
  destruct (alloc_pre_disk s vi v fsz Hpre) as (L & Hlen).
  assert (Hprev' : forall q, prev = Some q -> q < v_clusters v + 2).
  { intros q E. destruct (Hprev q E) as (_ & Hch).
    exact (proj1 (proj2 (chain_at_mem _ v first _ q Hch ltac:(apply in_or_app; right; left; reflexivity)))). }
  pose proof (alloc_cluster_effect vi v fsz prev false s c s' Hpre Hprev' Hrun) as Heff.
  destruct (ae_range _ _ _ _ _ _ _ _ Heff) as (C1 & C2 & Cf).
  apply (crash_disks_tr_ext s s' _ d' (ae_trace _ _ _ _ _ _ _ _ Heff)) in Hd. destruct Hd as (k & _ & ->).
  assert (Hq : in_fat v fsz c) by exact (layout_sector v fsz c L C2).
  assert (Hqp : forall q, prev = Some q -> in_fat v fsz q)
    by (intros q E; exact (layout_sector v fsz q L (Hprev' q E))).
  destruct (alloc_prefix_fat v fsz (s_disk s) prev false c k L Hlen C1 Hq Hqp)
    as (n0 & n1 & _ & O3 & O4 & G0 & _ & _ & _ & Gf & _).
  specialize (Gf eq_refl).
  destruct (wf_of_stage v fsz (s_disk s) _ hs c prev n0 first pre L Hl W C1 C2 Cf Hprev O3 O4 G0) as (X1 & X2).
  split; [exact X1|]. split.
  - intros h2 ch2 H2 Hne Hch. split; [exact (X2 h2 ch2 H2 Hne Hch)|].
    intros j Hj. apply Gf. unfold data_blocks in Hj. apply in_flat_map in Hj. destruct Hj as (x & Hx & Hj).
    exact (cluster_block_non_fat v fsz x j L (proj1 (chain_at_mem _ v h2 ch2 x Hch Hx)) Hj).
  - intros j J1 _. exact (Gf j J1).
Qed.

Lemma wr_rel_alloc_append vi v fsz hs first pre p s c s' :
  alloc_pre s vi v fsz -> link_ok v -> fat_wf (s_disk s) v hs ->
  In first hs -> chain_at (s_disk s) v first (pre ++ [p]) ->
  alloc_cluster vi (Some p) false s = (Ok c, s') ->
  crash_all (wr_rel v fsz hs first (s_disk s)) s s'.
Proof.
  intros Hpre Hl W Hin Hch Hrun.
  apply (wr_rel_alloc vi v fsz hs first pre (Some p) s c s' Hpre Hl W); [|exact Hrun].
  intros q E. injection E as <-. split; assumption.
Qed.

Lemma wr_rel_alloc_first vi v fsz hs first s c s' :
  alloc_pre s vi v fsz -> link_ok v -> fat_wf (s_disk s) v hs ->
  alloc_cluster vi None false s = (Ok c, s') ->
  crash_all (wr_rel v fsz hs first (s_disk s)) s s'.
Proof.
  intros Hpre Hl W Hrun.
  apply (wr_rel_alloc vi v fsz hs first [] None s c s' Hpre Hl W); [|exact Hrun].
  intros q E. discriminate E.
Qed.

Print Assumptions ci_rechain.
Print Assumptions wr_rel_alloc.
Print Assumptions wr_rel_data_write.
