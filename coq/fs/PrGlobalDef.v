(* PROOFS / SPEC: the GLOBAL structural invariant of a mounted volume (C03, C04, C05 for whole API
   histories).  This file is the foundation: definitions, consequence lemmas, frame lemmas, an
   executable decider, the per-operation proof obligation (step_ok) and the history lemma.

   0  lists, the node type                       5  frame lemmas (data blocks, one slot, FAT, growth)
   1  a directory as a reader of the FAT          6  the decider fs_inv_b and its soundness
      specification sees it; the TREE             7  step_ok / history_ok, the easy operations
   2  per-directory and per-node soundness        8  examples (non-vacuity, three corrupted images)
   3  open files, open directories, fs_inv
   4  consequences: C03 text, C05, lc_inv, ...

   DESIGN CHOICES (deviations from the sketch are marked !):
   - A directory is read from the slots BEFORE THE FIRST END MARKER of the whole directory
     (dir_live = before_end_all (slots_of ..)), as an independent checker does.  The crate's lookup
     looks at PrDir.live_in_blocks (per-block end markers); the invariant demands clean_tail
     (nothing but end markers after the first one), under which the two agree: live_is_dir_live.
   - Skipped slots: deleted (0xE5), long-name slots (attr land 15 = 15, the crate's is_lfn), and the
     two dot entries.  ! Volume-label entries (attr bit 8) are NOT skipped: the crate's lookup and
     open_file_in_dir ignore that bit, so a label entry can be opened, written and flushed like a
     file; it is therefore a (normally empty) file node, its cluster / size fields are checked.
   - Long-name slots (valid slots with attr land 15 = 15) are unconstrained: any UTF-16 contents
     (CJK long names included).  find_directory_entry / delete_directory_entry skip them
     (FsFat.matches asks negb is_lfn since the repair of the long-name lookup defect), so a long-name
     slot whose first 11 bytes look like an 8.3 name is never found, opened or deleted.
   - The tree is a Fixpoint predicate on the tree T (nested lists), so it unfolds by computation.
   - The size of a file node must fit its chain for EVERY file node (open or not): while a file
     is open its chain only grows and the slot still holds the last flushed size.
   - pend (pending chain heads) is a FUNCTION of the state (pend_of): the in-memory first
     clusters of open files whose directory slot still says "no cluster".
   - ! fs_inv demands s_vols s = [v] (single mounted volume), every open file on that volume,
     and NoDup of the open files' ids and of their slots.
   - ! disk_inv carries di_pos (no directory slot is reached twice); it follows from the other
     fields with some work and is kept as a field because every frame keeps it and the decider
     checks it.  ofile_ok carries of_dirty (a record with a pending chain is dirty): without it
     close_file of a pending, clean record would leak the chain (unreachable, found by g-write).
   - tree_inv = disk_inv without the FAT part; the frame lemmas are stated for tree_inv, the FAT
     part is carried by PrWf's theorems, fat_wf_perm and the head permutations given here.
   - ! step_ok has two more hypotheses than sketched: id_fresh s (the next handle id is not in use;
     false after 2^32 generations - PrHandles.C08_wrap_refuted_state; history_ok derives it from
     PrHandles.handles_ok inside the window) and op_known_ok = op_scope_ok (no OpenVol / CloseVol /
     Remount: the invariant speaks about ONE MOUNTED volume) /\ op_name_ok (D29). *)
From Coq Require Import NArith ZArith List Bool Lia Arith ZifyClasses ZifyInst Zify FMapPositive Permutation.
From SdFs Require Import FsTypes FsBase FsFat FsMgr FsLemmas PrBase PrFat PrAlloc PrDir PrSeek PrAllocEffect
  PrRw PrWrite PrFileSeq PrMulti PrEntry PrChain PrCount PrWf PrOpenClose.
From SdFs Require PrModes PrHandles PrCrash PrBounds PrOrder.
Import ListNotations.
Open Scope N_scope.
Local Arguments N.mul : simpl never.
Local Arguments N.add : simpl never.
Local Arguments N.sub : simpl never.
Local Arguments N.div : simpl never.
Local Arguments N.modulo : simpl never.
Local Arguments N.land : simpl never.
Local Arguments N.lor : simpl never.
Local Arguments N.min : simpl never.
Local Arguments N.max : simpl never.
Local Ltac Zify.zify_post_hook ::= Z.to_euclidean_division_equations.

(* ================================================================== 0. the node type *)
(* a file: its directory entry (with the position of its slot: e_block, e_offset) and its cluster
   chain ([] when the entry has no first cluster); a directory: entry, chain (never empty), and
   the nodes of its own slots, in on-disk order *)
Inductive node : Type :=
  | NFile (e : dirent) (ch : list N)
  | NDir (e : dirent) (ch : list N) (kids : list node).

Section NodeInd.
  Variable P : node -> Prop.
  Hypothesis Hfile : forall e ch, P (NFile e ch).
  Hypothesis Hdir : forall e ch kids, Forall P kids -> P (NDir e ch kids).
  Fixpoint node_ind' (n : node) : P n :=
    match n with
    | NFile e ch => Hfile e ch
    | NDir e ch kids =>
        Hdir e ch kids
          ((fix go (l : list node) : Forall P l :=
              match l with
              | [] => Forall_nil P
              | k :: l' => Forall_cons k (node_ind' k) (go l')
              end) kids)
    end.
End NodeInd.

Definition node_entry (n : node) : dirent := match n with NFile e _ => e | NDir e _ _ => e end.
Definition node_chain (n : node) : list N := match n with NFile _ ch => ch | NDir _ ch _ => ch end.
Definition node_kids (n : node) : list node := match n with NFile _ _ => [] | NDir _ _ ks => ks end.
Definition node_is_dir (n : node) : bool := match n with NFile _ _ => false | NDir _ _ _ => true end.

(* the node and everything below it *)
Fixpoint flatten (n : node) : list node :=
  n :: match n with
       | NFile _ _ => []
       | NDir _ _ kids => flat_map flatten kids
       end.
Definition all_nodes (T : list node) : list node := flat_map flatten T.
(* the position of the slot of a node: block, byte offset *)
Definition node_pos (n : node) : N * N := (e_block (node_entry n), e_offset (node_entry n)).

(* the chain heads of a (sub)tree, in a canonical order: a directory, then its kids *)
Fixpoint node_heads (n : node) : list N :=
  match n with
  | NFile e _ => if 2 <=? e_cluster e then [e_cluster e] else []
  | NDir e _ kids => e_cluster e :: flat_map node_heads kids
  end.
Definition root_heads (v : vol) : list N := if v_fat32 v then [v_root_cluster v] else [].
Definition heads (v : vol) (T : list node) : list N := root_heads v ++ flat_map node_heads T.

(* the blocks that hold directory slots of a (sub)tree *)
Fixpoint node_dir_blocks (v : vol) (n : node) : list N :=
  match n with
  | NFile _ _ => []
  | NDir _ ch kids => data_blocks v ch ++ flat_map (node_dir_blocks v) kids
  end.
Definition tree_dir_blocks (v : vol) (bl : list N) (T : list node) : list N :=
  bl ++ flat_map (node_dir_blocks v) T.

(* ================================================================== 1. directories and the tree *)
Definition t_name (t : tslot) : list N := firstn 11 (snd t).
Definition t_attr (t : tslot) : N := get8 (snd t) 11.

(* the slots a reader of the specification looks at: those before the first end marker *)
Definition dir_live (d : disk) (bl : list N) : list tslot := before_end_all (slots_of d bl).

(* a live short entry: not deleted, no long-name slot *)
Definition short_slot (t : tslot) : bool := t_is_valid t && negb (is_lfn (t_attr t)).
Definition dot_slot (t : tslot) : bool :=
  list_eqb (t_name t) THIS_DIR_NAME || list_eqb (t_name t) PARENT_DIR_NAME.
(* a slot that stands for a file or a sub-directory *)
Definition node_slot (t : tslot) : bool := short_slot t && negb (dot_slot t).

Definition dir_shorts (d : disk) (bl : list N) : list tslot := filter short_slot (dir_live d bl).
Definition dir_nodes (d : disk) (bl : list N) : list tslot := filter node_slot (dir_live d bl).

(* n is the tree found at slot t: the entry is the decoded slot; a file has the chain of its first
   cluster (none when that is < 2); a directory has a chain, and its kids are, in order, the trees
   at the node slots of the blocks of that chain *)
Fixpoint node_rep (d : disk) (v : vol) (n : node) (t : tslot) {struct n} : Prop :=
  match n with
  | NFile e ch =>
      e = t_entry (v_fat32 v) t /\ is_directory (e_attr e) = false /\ entry_chain d v e ch
  | NDir e ch kids =>
      e = t_entry (v_fat32 v) t /\ is_directory (e_attr e) = true /\ chain_at d v (e_cluster e) ch /\
      (fix kr (ks : list node) (ts : list tslot) {struct ks} : Prop :=
         match ks, ts with
         | [], [] => True
         | k :: ks', t' :: ts' => node_rep d v k t' /\ kr ks' ts'
         | _, _ => False
         end) kids (dir_nodes d (data_blocks v ch))
  end.

(* the tree below the directory whose blocks are bl *)
Definition tree_rep (d : disk) (v : vol) (bl : list N) (T : list node) : Prop :=
  Forall2 (node_rep d v) T (dir_nodes d bl).

(* the root directory: its blocks and (FAT32) its chain *)
Definition root_dir (d : disk) (v : vol) (bl rch : list N) : Prop :=
  if v_fat32 v then chain_at d v (v_root_cluster v) rch /\ bl = data_blocks v rch
  else rch = [] /\ bl = root16_blocks v.

(* ---- executable ---- *)
Fixpoint mapM {A B} (g : A -> option B) (l : list A) : option (list B) :=
  match l with
  | [] => Some []
  | a :: l' => match g a with
               | Some b => match mapM g l' with Some r => Some (b :: r) | None => None end
               | None => None
               end
  end.

(* fuel = the depth of the tree below t *)
Fixpoint node_of (fuel : nat) (d : disk) (v : vol) (t : tslot) : option node :=
  match fuel with
  | O => None
  | S f =>
      let e := t_entry (v_fat32 v) t in
      if is_directory (e_attr e) then
        match chain_of d v (e_cluster e) (walk_fuel v) with
        | Some ch =>
            match mapM (node_of f d v) (dir_nodes d (data_blocks v ch)) with
            | Some ks => Some (NDir e ch ks)
            | None => None
            end
        | None => None
        end
      else if e_cluster e <? 2 then Some (NFile e [])
      else match chain_of d v (e_cluster e) (walk_fuel v) with
           | Some ch => Some (NFile e ch)
           | None => None
           end
  end.
Definition tree_of (fuel : nat) (d : disk) (v : vol) (bl : list N) : option (list node) :=
  mapM (node_of fuel d v) (dir_nodes d bl).

Definition root_of (d : disk) (v : vol) : option (list N * list N) :=
  if v_fat32 v then
    match chain_of d v (v_root_cluster v) (walk_fuel v) with
    | Some rch => Some (data_blocks v rch, rch)
    | None => None
    end
  else Some (root16_blocks v, []).

(* ================================================================== 2. soundness of one directory, of a node *)
(* the dot entry named nm with first cluster c (after decoding: 0 of a directory reads as CL_ROOT) *)
Definition dot_entry (fat32 : bool) (t : tslot) (nm : list N) (c : N) : Prop :=
  short_slot t = true /\ t_name t = nm /\ is_directory (t_attr t) = true /\
  e_cluster (t_entry fat32 t) = c.
Definition no_dots (l : list tslot) : Prop := Forall (fun t => short_slot t = true -> dot_slot t = false) l.
(* the root (own = CL_ROOT) has no dot entries; a sub-directory starts with "." (own cluster) and
   ".." (cluster of the parent, CL_ROOT for the root) and has no other *)
Definition dots_ok (fat32 : bool) (own parent : N) (l : list tslot) : Prop :=
  if own =? CL_ROOT then no_dots l
  else exists t0 t1 rest, l = t0 :: t1 :: rest /\
         dot_entry fat32 t0 THIS_DIR_NAME own /\ dot_entry fat32 t1 PARENT_DIR_NAME parent /\ no_dots rest.

Record dir_ok (d : disk) (v : vol) (own parent : N) (bl : list N) : Prop := mk_dir_ok {
  (* nothing but end markers after the first end marker *)
  do_tail : clean_tail (slots_of d bl);
  (* the 11-byte names of the live short entries (dot entries included) are pairwise distinct *)
  do_names : NoDup (map t_name (dir_shorts d bl));
  do_dots : dots_ok (v_fat32 v) own parent (dir_live d bl)
}.

(* a file's chain holds its recorded size; every directory below is sound *)
Fixpoint node_ok (d : disk) (v : vol) (parent : N) (n : node) {struct n} : Prop :=
  match n with
  | NFile e ch => e_size e <= N.of_nat (length ch) * bytes_per_cluster v /\ e_size e < U32
  | NDir e ch kids =>
      dir_ok d v (e_cluster e) parent (data_blocks v ch) /\
      (fix all (ks : list node) : Prop :=
         match ks with [] => True | k :: ks' => node_ok d v (e_cluster e) k /\ all ks' end) kids
  end.

(* ================================================================== 3. the state: open files, open directories *)
(* the slot an entry record points at, as it is on the disk now *)
Definition slot_tslot (d : disk) (e : dirent) : tslot :=
  (e_block e, e_offset e, slot (disk_get d (e_block e)) (e_offset e / 32)).
Definition disk_entry (d : disk) (v : vol) (e : dirent) : dirent := t_entry (v_fat32 v) (slot_tslot d e).

(* the chain of an open file, from its in-memory first cluster *)
Definition fchain (d : disk) (v : vol) (f : fileinfo) : list N :=
  if e_cluster (f_entry f) <? 2 then [] else chain_l d v (e_cluster (f_entry f)).

(* the open file owns a chain its directory slot does not know yet *)
Definition is_pending (d : disk) (v : vol) (f : fileinfo) : bool :=
  (e_cluster (disk_entry d v (f_entry f)) <? 2) && (2 <=? e_cluster (f_entry f)).
Definition pend_of (s : st) (v : vol) : list N :=
  map (fun f => e_cluster (f_entry f)) (filter (is_pending (s_disk s) v) (s_files s)).

Record ofile_ok (s : st) (v : vol) (T : list node) (f : fileinfo) : Prop := mk_ofile_ok {
  of_vol : f_vol f = v_id v;
  of_slot : slot_ok v (f_entry f);
  (* the slot is the slot of a file node of the tree, with the same name; the in-memory first
     cluster is the one in the slot, or the slot has none and the in-memory one is pending *)
  of_node : exists e0 ch0, In (NFile e0 ch0) (all_nodes T) /\
              e_block e0 = e_block (f_entry f) /\ e_offset e0 = e_offset (f_entry f) /\
              e_name e0 = e_name (f_entry f) /\
              (e_cluster (f_entry f) = e_cluster e0 \/ (e_cluster e0 < 2 /\ 2 <= e_cluster (f_entry f)));
  of_attr : is_directory (e_attr (f_entry f)) = false /\ is_lfn (e_attr (f_entry f)) = false;
  of_chain : chain_ok s v f (fchain (s_disk s) v f);
  of_size : e_size (f_entry f) <= N.of_nat (length (fchain (s_disk s) v f)) * bytes_per_cluster v;
  of_off : f_offset f <= e_size (f_entry f);
  of_u32 : e_size (f_entry f) < U32;
  (* a pending chain is recorded by the next flush / close: the record is dirty *)
  of_dirty : is_pending (s_disk s) v f = true -> f_dirty f = true
}.

(* an open directory of the volume is the root or a directory of the tree (handles with another
   volume id - open_root_dir does not look the volume up - resolve to nothing: BadHandle) *)
Definition odir_ok (v : vol) (T : list node) (dd : dirinfo) : Prop :=
  d_vol dd = v_id v ->
  d_cluster dd = CL_ROOT \/
  exists e ch kids, In (NDir e ch kids) (all_nodes T) /\ e_cluster e = d_cluster dd.

Definition slot_key (f : fileinfo) : N * N := (e_block (f_entry f), e_offset (f_entry f)).

(* ---- the disk-level part ---- *)
Record disk_inv (d : disk) (v : vol) (bl rch : list N) (T : list node) (pend : list N) : Prop := mk_disk_inv {
  di_root : root_dir d v bl rch;
  di_tree : tree_rep d v bl T;
  di_rootok : dir_ok d v CL_ROOT CL_ROOT bl;
  di_nodes : Forall (node_ok d v CL_ROOT) T;
  di_wf : fat_wf d v (heads v T ++ pend);
  (* no directory slot is reached twice (derivable from the other fields with some work; kept as
     a field because every frame lemma preserves it trivially and the decider checks it) *)
  di_pos : NoDup (map node_pos (all_nodes T))
}.

(* ---- the global invariant ---- *)
Record fs_inv_at (fsz vid : N) (s : st) (vi : nat) (v : vol) (bl rch : list N) (T : list node) : Prop :=
  mk_fs_inv_at {
  fi_vid : v_id v = vid;
  fi_single : s_vols s = [v];
  (* lock free, no faults, cache coherent, v at index vi, FAT sectors are blocks, fat_layout,
     hint_ok, clusters_fit, 0 < spc, 512-byte blocks, the handle finds the volume *)
  fi_vol : lc_vol fsz s vi v;
  fi_layout : PrBounds.part_layout v (v_nblocks v) fsz;
  fi_dev : v_lba v + v_nblocks v < U32;
  fi_info : info_ok v;
  fi_disk : disk_inv (s_disk s) v bl rch T (pend_of s v);
  fi_files : Forall (ofile_ok s v T) (s_files s);
  fi_fids : NoDup (map f_id (s_files s));
  fi_fslots : NoDup (map slot_key (s_files s));
  fi_dirs : Forall (odir_ok v T) (s_dirs s)
}.

Definition fs_inv (fsz vid : N) (s : st) : Prop :=
  exists vi v bl rch T, fs_inv_at fsz vid s vi v bl rch T.

(* the members of PrMulti / PrOpenClose that the file table stands for *)
Definition member_of (s : st) (v : vol) (f : fileinfo) : member :=
  (f_id f, negb (mode_eqb (f_mode f) ReadOnly),
   (firstn (N.to_nat (e_size (f_entry f))) (file_bytes (s_disk s) v (fchain (s_disk s) v f)), f_offset f)).
Definition members_of (s : st) (v : vol) : list member := map (member_of s v) (s_files s).
Fixpoint reps_from (d : disk) (v : vol) (i : nat) (l : list fileinfo) : list frep :=
  match l with [] => [] | f :: l' => (i, f, fchain d v f) :: reps_from d v (S i) l' end.
Definition reps_of (s : st) (v : vol) : list frep := reps_from (s_disk s) v 0 (s_files s).

(* ================================================================== 7a. the per-operation obligation (definitions) *)
(* D29: ShortFileName::create_from_str maps U+00E5 to the byte 0xE5, the deleted-slot mark: such
   an entry is created as a deleted slot, and a lookup of such a name finds deleted slots *)
Definition e5_name (name : list N) : bool :=
  match sfn_of_str name with Some sfn => get8 sfn 0 =? 229 | None => false end.
Definition op_name_ok (o : op) : Prop :=
  match o with
  | OpenDir _ name | OpenFile _ name _ | Delete _ name | Mkdir _ name => e5_name name = false
  | _ => True     (* Find only reads; under Iter the lock refuses every call that takes a name *)
  end.
(* the invariant is about one mounted volume: mounting, unmounting and the harness-only Remount
   (the only call the lock does not refuse inside an Iter callback) are outside its scope *)
Fixpoint no_remount (o : op) : Prop :=
  match o with
  | Remount _ => False
  | Iter _ (Some o') => no_remount o'
  | _ => True
  end.
Definition op_scope_ok (o : op) : Prop :=
  no_remount o /\ match o with OpenVol _ | CloseVol _ => False | _ => True end.
Definition op_known_ok (o : op) : Prop := op_scope_ok o /\ op_name_ok o.

(* the id the next open would hand out is in no table *)
Definition id_fresh (s : st) : Prop := forall x, In x (PrHandles.all_ids s) -> x <> s_next_id s.

(* the volume table holds one record before and after, of the same geometry *)
Definition same_geo (s s' : st) : Prop :=
  exists v v', s_vols s = [v] /\ s_vols s' = [v'] /\ geo_eq v v'.

Definition step_ok (fsz vid : N) (o : op) : Prop :=
  forall s r s', fs_inv fsz vid s -> id_fresh s -> op_known_ok o -> step o s = (r, s') ->
    r <> Panic /\ r <> OutOfFuel /\ fs_inv fsz vid s' /\ same_geo s s' /\
    exists ws, PrOrder.tsteps s s' ws /\
               forall v, In v (s_vols s) -> Forall (PrBounds.in_region v fsz) ws.

(* ================================================================== 1b. unfolding the nested fixpoints *)
Lemma node_rep_file d v e ch t :
  node_rep d v (NFile e ch) t <->
  e = t_entry (v_fat32 v) t /\ is_directory (e_attr e) = false /\ entry_chain d v e ch.
Proof. reflexivity. Qed.

Lemma node_rep_dir d v e ch kids t :
  node_rep d v (NDir e ch kids) t <->
  e = t_entry (v_fat32 v) t /\ is_directory (e_attr e) = true /\ chain_at d v (e_cluster e) ch /\
  Forall2 (node_rep d v) kids (dir_nodes d (data_blocks v ch)).
Proof.
  cbn [node_rep]. generalize (dir_nodes d (data_blocks v ch)) as ts.
  intros ts.
  assert (K : forall ks ts0,
    (fix kr (ks : list node) (ts : list tslot) {struct ks} : Prop :=
       match ks, ts with
       | [], [] => True
       | k :: ks', t' :: ts' => node_rep d v k t' /\ kr ks' ts'
       | _, _ => False
       end) ks ts0 <-> Forall2 (node_rep d v) ks ts0).
  { induction ks as [|k ks IH]; intros [|t0 ts0].
    - split; [constructor|trivial].
    - split; [intros []|intros H; inversion H].
    - split; [intros []|intros H; inversion H].
    - rewrite IH. split.
      + intros [A B]. constructor; assumption.
      + intros H. inversion H; subst. split; assumption. }
  rewrite K. tauto.
Qed.

Lemma node_ok_file d v p e ch :
  node_ok d v p (NFile e ch) <-> e_size e <= N.of_nat (length ch) * bytes_per_cluster v /\ e_size e < U32.
Proof. reflexivity. Qed.

Lemma node_ok_dir d v p e ch kids :
  node_ok d v p (NDir e ch kids) <->
  dir_ok d v (e_cluster e) p (data_blocks v ch) /\ Forall (node_ok d v (e_cluster e)) kids.
Proof.
  cbn [node_ok].
  assert (K : forall ks,
    (fix all (ks : list node) : Prop :=
       match ks with [] => True | k :: ks' => node_ok d v (e_cluster e) k /\ all ks' end) ks
    <-> Forall (node_ok d v (e_cluster e)) ks).
  { induction ks as [|k ks IH].
    - split; [constructor|trivial].
    - rewrite IH. split.
      + intros [A B]. constructor; assumption.
      + intros H. inversion H; subst. split; assumption. }
  rewrite K. tauto.
Qed.

Global Opaque node_rep node_ok.

Lemma node_rep_entry d v n t : node_rep d v n t -> node_entry n = t_entry (v_fat32 v) t.
Proof.
  destruct n as [e ch|e ch kids]; [rewrite node_rep_file|rewrite node_rep_dir]; intros (-> & _); reflexivity.
Qed.

(* ================================================================== 1c. the executable tree is sound *)
Lemma mapM_Forall2 {A B} (g : A -> option B) (R : B -> A -> Prop) : forall l r,
  (forall a b, In a l -> g a = Some b -> R b a) -> mapM g l = Some r -> Forall2 R r l.
Proof.
  induction l as [|a l IH]; intros r H E; cbn [mapM] in E.
  - injection E as <-. constructor.
  - destruct (g a) as [b|] eqn:Ea; [|discriminate].
    destruct (mapM g l) as [r'|] eqn:El; [|discriminate]. injection E as <-.
    constructor; [apply H; [left; reflexivity|exact Ea]|].
    apply IH; [|reflexivity]. intros a0 b0 Hin. apply H. right. exact Hin.
Qed.

Theorem node_of_sound : forall fuel d v t n, node_of fuel d v t = Some n -> node_rep d v n t.
Proof.
  induction fuel as [|f IH]; intros d v t n E; [discriminate|].
  cbn [node_of] in E. cbv zeta in E.
  destruct (is_directory (e_attr (t_entry (v_fat32 v) t))) eqn:Ed.
  - destruct (chain_of d v (e_cluster (t_entry (v_fat32 v) t)) (walk_fuel v)) as [ch|] eqn:Ec; [|discriminate].
    destruct (mapM (node_of f d v) (dir_nodes d (data_blocks v ch))) as [ks|] eqn:Ek; [|discriminate].
    injection E as <-. apply node_rep_dir. split; [reflexivity|]. split; [exact Ed|]. split; [exact Ec|].
    apply (mapM_Forall2 _ _ _ _ (fun a b _ H => IH d v a b H) Ek).
  - destruct (N.ltb_spec (e_cluster (t_entry (v_fat32 v) t)) 2) as [Hlt|Hge].
    + injection E as <-. apply node_rep_file. split; [reflexivity|]. split; [exact Ed|].
      right. split; [exact Hlt|reflexivity].
    + destruct (chain_of d v (e_cluster (t_entry (v_fat32 v) t)) (walk_fuel v)) as [ch|] eqn:Ec; [|discriminate].
      injection E as <-. apply node_rep_file. split; [reflexivity|]. split; [exact Ed|].
      left. split; [exact Hge|]. exists (walk_fuel v). exact Ec.
Qed.

Theorem tree_of_sound fuel d v bl T : tree_of fuel d v bl = Some T -> tree_rep d v bl T.
Proof.
  intros E. unfold tree_rep.
  apply (mapM_Forall2 _ _ _ _ (fun a b _ H => node_of_sound fuel d v a b H) E).
Qed.

Lemma root_of_sound d v bl rch : root_of d v = Some (bl, rch) -> root_dir d v bl rch.
Proof.
  unfold root_of, root_dir. destruct (v_fat32 v).
  - destruct (chain_of d v (v_root_cluster v) (walk_fuel v)) as [l|] eqn:E; [|discriminate].
    intros H. injection H as <- <-. split; [exact E|reflexivity].
  - intros H. injection H as <- <-. split; reflexivity.
Qed.

(* the tree is unique: node_rep is functional in the node *)
Lemma entry_chain_det d v e a b : entry_chain d v e a -> entry_chain d v e b -> a = b.
Proof.
  intros [(A1 & fa & A2)|(A1 & ->)] [(B1 & fb & B2)|(B1 & ->)]; try lia; [|reflexivity].
  exact (chain_of_det _ _ _ _ _ _ _ A2 B2).
Qed.

Lemma node_rep_det d v : forall n t n', node_rep d v n t -> node_rep d v n' t -> n = n'.
Proof.
  induction n as [e ch|e ch kids IH] using node_ind'; intros t n' H H'.
  - apply node_rep_file in H. destruct H as (-> & Hd & Hc).
    destruct n' as [e' ch'|e' ch' kids'].
    + apply node_rep_file in H'. destruct H' as (-> & _ & Hc'). f_equal. exact (entry_chain_det _ _ _ _ _ Hc Hc').
    + apply node_rep_dir in H'. destruct H' as (-> & Hd' & _). congruence.
  - apply node_rep_dir in H. destruct H as (-> & Hd & Hc & Hk).
    destruct n' as [e' ch'|e' ch' kids'].
    + apply node_rep_file in H'. destruct H' as (-> & Hd' & _). congruence.
    + apply node_rep_dir in H'. destruct H' as (-> & _ & Hc' & Hk').
      pose proof (chain_at_det _ _ _ _ _ Hc Hc') as <-. f_equal.
      revert kids' Hk'. generalize dependent (dir_nodes d (data_blocks v ch)).
      induction IH as [|k ks Hk0 _ IHks]; intros ts Hk kids' Hk'.
      * inversion Hk; subst. inversion Hk'; subst. reflexivity.
      * inversion Hk; subst. inversion Hk'; subst. f_equal; [eapply Hk0; eassumption|eapply IHks; eassumption].
Qed.

Lemma tree_rep_det d v bl T T' : tree_rep d v bl T -> tree_rep d v bl T' -> T = T'.
Proof.
  unfold tree_rep. generalize (dir_nodes d bl) as ts. intros ts H. revert T'.
  induction H as [|n t T0 ts0 Hn _ IH]; intros T' H'; inversion H'; subst; [reflexivity|].
  f_equal; [exact (node_rep_det d v _ _ _ Hn H2)|apply IH; assumption].
Qed.

(* ================================================================== 1d. the tree depends on the geometry only *)
Lemma data_blocks_geo v w ch : geo_eq v w -> data_blocks w ch = data_blocks v ch.
Proof. intros (a & b & ->). reflexivity. Qed.

Lemma entry_chain_geo d v w e ch : geo_eq v w -> entry_chain d v e ch -> entry_chain d w e ch.
Proof.
  intros G [(A & fu & B)|A]; [left|right; exact A]. split; [exact A|]. exists fu.
  rewrite (chain_of_geo d v w G). exact B.
Qed.

Lemma node_rep_geo d v w : geo_eq v w -> forall n t, node_rep d v n t -> node_rep d w n t.
Proof.
  intros G. assert (E32 : v_fat32 w = v_fat32 v) by (destruct G as (a & b & ->); reflexivity).
  induction n as [e ch|e ch kids IH] using node_ind'; intros t H.
  - apply node_rep_file in H. apply node_rep_file. rewrite E32. destruct H as (A & B & C).
    split; [exact A|]. split; [exact B|]. exact (entry_chain_geo d v w e ch G C).
  - apply node_rep_dir in H. apply node_rep_dir. rewrite E32, (data_blocks_geo v w ch G).
    destruct H as (A & B & C & D). split; [exact A|]. split; [exact B|].
    split; [apply (chain_at_geo d v w _ _ G); exact C|].
    revert D. generalize (dir_nodes d (data_blocks v ch)) as ts.
    induction IH as [|k ks Hk _ IHks]; intros ts D; inversion D; subst; constructor; auto.
Qed.

Lemma tree_rep_geo d v w bl T : geo_eq v w -> tree_rep d v bl T -> tree_rep d w bl T.
Proof.
  intros G H. unfold tree_rep in *. apply (Forall2_impl_in _ _ _ _ H).
  intros n t _ _. apply node_rep_geo. exact G.
Qed.

Lemma root_dir_geo d v w bl rch : geo_eq v w -> root_dir d v bl rch -> root_dir d w bl rch.
Proof.
  intros G. pose proof (chain_at_geo d v w) as C. pose proof (data_blocks_geo v w) as D.
  unfold root_dir. destruct G as (a & b & ->). cbn [v_fat32 set_v_free set_v_next_free v_root_cluster].
  destruct (v_fat32 v); [|tauto].
  intros (A & B). split.
  - apply (C _ _ ltac:(exists a, b; reflexivity)). exact A.
  - rewrite B. symmetry. apply D. exists a, b. reflexivity.
Qed.

Lemma dir_ok_geo d v w own parent bl : geo_eq v w -> dir_ok d v own parent bl -> dir_ok d w own parent bl.
Proof.
  intros G [A B D]. constructor; try assumption.
  replace (v_fat32 w) with (v_fat32 v) by (destruct G as (a & b & ->); reflexivity). exact D.
Qed.

Lemma node_ok_geo d v w : geo_eq v w -> forall n p, node_ok d v p n -> node_ok d w p n.
Proof.
  intros G. assert (Eb : bytes_per_cluster w = bytes_per_cluster v) by (destruct G as (a & b & ->); reflexivity).
  induction n as [e ch|e ch kids IH] using node_ind'; intros p H.
  - apply node_ok_file in H. apply node_ok_file. rewrite Eb. exact H.
  - apply node_ok_dir in H. apply node_ok_dir. rewrite (data_blocks_geo v w ch G).
    destruct H as (A & B). split; [exact (dir_ok_geo d v w _ _ _ G A)|].
    rewrite Forall_forall in *. intros k Hk. apply (IH k Hk). apply B. exact Hk.
Qed.

Lemma heads_geo v w T : geo_eq v w -> heads w T = heads v T.
Proof. intros (a & b & ->). reflexivity. Qed.

Theorem disk_inv_geo d v w bl rch T pend : geo_eq v w ->
  disk_inv d v bl rch T pend -> disk_inv d w bl rch T pend.
Proof.
  intros G [A B C D E F]. constructor.
  - exact (root_dir_geo d v w bl rch G A).
  - exact (tree_rep_geo d v w bl T G B).
  - exact (dir_ok_geo d v w _ _ _ G C).
  - rewrite Forall_forall in *. intros n Hn. exact (node_ok_geo d v w G n _ (D n Hn)).
  - rewrite (heads_geo v w T G). exact (fat_wf_geo d v w _ G E).
  - exact F.
Qed.

(* ================================================================== 5a. FRAME: blocks that are neither FAT sectors nor directory blocks *)
Lemma dir_live_ext d d' bl : (forall j, In j bl -> disk_get d' j = disk_get d j) ->
  dir_live d' bl = dir_live d bl.
Proof. intros H. unfold dir_live. rewrite (slots_of_ext d d' bl H). reflexivity. Qed.

Lemma dir_nodes_ext d d' bl : (forall j, In j bl -> disk_get d' j = disk_get d j) ->
  dir_nodes d' bl = dir_nodes d bl.
Proof. intros H. unfold dir_nodes. rewrite (dir_live_ext d d' bl H). reflexivity. Qed.

Lemma chain_at_ext d d' v h ch : (forall j, fat_area v j -> disk_get d' j = disk_get d j) ->
  chain_at d v h ch -> chain_at d' v h ch.
Proof. intros H. unfold chain_at. rewrite (chain_of_ext d d' v H). trivial. Qed.

Lemma entry_chain_ext d d' v e ch : (forall j, fat_area v j -> disk_get d' j = disk_get d j) ->
  entry_chain d v e ch -> entry_chain d' v e ch.
Proof.
  intros H [(A & fu & B)|A]; [left|right; exact A]. split; [exact A|]. exists fu.
  rewrite (chain_of_ext d d' v H). exact B.
Qed.

(* the tree at a slot depends on the FAT and on the directory blocks below it only *)
Theorem node_rep_frame d d' v : (forall j, fat_area v j -> disk_get d' j = disk_get d j) ->
  forall n t, (forall j, In j (node_dir_blocks v n) -> disk_get d' j = disk_get d j) ->
  node_rep d v n t -> node_rep d' v n t.
Proof.
  intros Hfat. induction n as [e ch|e ch kids IH] using node_ind'; intros t Hb H.
  - apply node_rep_file in H. apply node_rep_file. destruct H as (A & B & C).
    split; [exact A|]. split; [exact B|]. exact (entry_chain_ext d d' v e ch Hfat C).
  - apply node_rep_dir in H. apply node_rep_dir. destruct H as (A & B & C & D).
    split; [exact A|]. split; [exact B|]. split; [exact (chain_at_ext d d' v _ _ Hfat C)|].
    cbn [node_dir_blocks] in Hb.
    rewrite (dir_nodes_ext d d' (data_blocks v ch)) by (intros j Hj; apply Hb; apply in_or_app; left; exact Hj).
    assert (Hk : forall j, In j (flat_map (node_dir_blocks v) kids) -> disk_get d' j = disk_get d j)
      by (intros j Hj; apply Hb; apply in_or_app; right; exact Hj).
    clear Hb. revert Hk D. generalize (dir_nodes d (data_blocks v ch)) as ts.
    induction IH as [|k ks Hk0 _ IHks]; intros ts Hk D; inversion D; subst; constructor.
    + apply Hk0; [|assumption]. intros j Hj. apply Hk. cbn [flat_map]. apply in_or_app. left. exact Hj.
    + apply IHks; [|assumption]. intros j Hj. apply Hk. cbn [flat_map]. apply in_or_app. right. exact Hj.
Qed.

Lemma forest_rep_frame d d' v : (forall j, fat_area v j -> disk_get d' j = disk_get d j) ->
  forall T ts, (forall j, In j (flat_map (node_dir_blocks v) T) -> disk_get d' j = disk_get d j) ->
  Forall2 (node_rep d v) T ts -> Forall2 (node_rep d' v) T ts.
Proof.
  intros Hfat T ts Hb H. induction H as [|n t T0 ts0 Hn _ IH]; constructor.
  - apply (node_rep_frame d d' v Hfat); [|exact Hn]. intros j Hj. apply Hb. cbn [flat_map]. apply in_or_app. left. exact Hj.
  - apply IH. intros j Hj. apply Hb. cbn [flat_map]. apply in_or_app. right. exact Hj.
Qed.

Theorem tree_rep_frame d d' v bl T : (forall j, fat_area v j -> disk_get d' j = disk_get d j) ->
  (forall j, In j (tree_dir_blocks v bl T) -> disk_get d' j = disk_get d j) ->
  tree_rep d v bl T -> tree_rep d' v bl T.
Proof.
  intros Hfat Hb H. unfold tree_rep in *. unfold tree_dir_blocks in Hb.
  rewrite (dir_nodes_ext d d' bl) by (intros j Hj; apply Hb; apply in_or_app; left; exact Hj).
  apply (forest_rep_frame d d' v Hfat); [|exact H]. intros j Hj. apply Hb. apply in_or_app. right. exact Hj.
Qed.

Lemma root_dir_frame d d' v bl rch : (forall j, fat_area v j -> disk_get d' j = disk_get d j) ->
  root_dir d v bl rch -> root_dir d' v bl rch.
Proof.
  intros Hfat. unfold root_dir. destruct (v_fat32 v); [|trivial].
  intros (A & B). split; [exact (chain_at_ext d d' v _ _ Hfat A)|exact B].
Qed.

Lemma dir_ok_frame d d' v own parent bl : (forall j, In j bl -> disk_get d' j = disk_get d j) ->
  dir_ok d v own parent bl -> dir_ok d' v own parent bl.
Proof.
  intros H [A B D]. constructor.
  - rewrite (slots_of_ext d d' bl H). exact A.
  - unfold dir_shorts. rewrite (dir_live_ext d d' bl H). exact B.
  - rewrite (dir_live_ext d d' bl H). exact D.
Qed.

Lemma node_ok_frame d d' v : forall n p, (forall j, In j (node_dir_blocks v n) -> disk_get d' j = disk_get d j) ->
  node_ok d v p n -> node_ok d' v p n.
Proof.
  induction n as [e ch|e ch kids IH] using node_ind'; intros p Hb H.
  - exact H.
  - apply node_ok_dir in H. apply node_ok_dir. destruct H as (A & B). cbn [node_dir_blocks] in Hb. split.
    + apply (dir_ok_frame d d' v); [|exact A]. intros j Hj. apply Hb. apply in_or_app. left. exact Hj.
    + rewrite Forall_forall in *. intros k Hk. apply (IH k Hk); [|exact (B k Hk)].
      intros j Hj. apply Hb. apply in_or_app. right. apply in_flat_map. exists k. split; assumption.
Qed.

(* the FAT-level invariant depends on the sectors of the first FAT copy only *)
Lemma fat_get_ext d d' v c : (forall j, fat_area v j -> disk_get d' j = disk_get d j) ->
  c < v_clusters v + 2 -> fat_get d' v 0 c = fat_get d v 0 c.
Proof.
  intros H Hc. rewrite <- !fat_entry_get. unfold PrAlloc.fat_entry.
  rewrite (H _ (ex_intro _ c (conj Hc eq_refl))). reflexivity.
Qed.

Theorem fat_wf_ext d d' v hs : (forall j, fat_area v j -> disk_get d' j = disk_get d j) ->
  fat_wf d v hs -> fat_wf d' v hs.
Proof.
  intros H [A B C D].
  assert (Hc : forall h ch, chain_at d' v h ch <-> chain_at d v h ch).
  { intros h ch. unfold chain_at. rewrite (chain_of_ext d d' v H). tauto. }
  constructor.
  - intros h Hh. destruct (A h Hh) as (ch & Hch). exists ch. apply Hc. exact Hch.
  - exact B.
  - intros h1 h2 ch1 ch2 c H1 H2 X1 X2. apply (C h1 h2 ch1 ch2 c H1 H2); apply Hc; assumption.
  - intros c C1 C2. rewrite (fat_get_ext d d' v c H C2).
    assert (R : reachable d' v hs c <-> reachable d v hs c).
    { unfold reachable. split; intros (h & ch & X & Y & Z); exists h, ch;
        (split; [exact X|split; [|exact Z]]); apply Hc; exact Y. }
    rewrite R. exact (D c C1 C2).
Qed.

(* FRAME (a): a write to a block that is neither a sector of the first FAT copy nor a directory
   block of the tree (a data block of a file, a free cluster, the second FAT copy, the
   information sector) keeps the whole disk-level invariant, with the same tree *)
Theorem disk_inv_frame d d' v bl rch T pend :
  (forall j, fat_area v j -> disk_get d' j = disk_get d j) ->
  (forall j, In j (tree_dir_blocks v bl T) -> disk_get d' j = disk_get d j) ->
  disk_inv d v bl rch T pend -> disk_inv d' v bl rch T pend.
Proof.
  intros Hfat Hb [A B C D E F]. unfold tree_dir_blocks in Hb. constructor; [| | | | |exact F].
  - exact (root_dir_frame d d' v bl rch Hfat A).
  - exact (tree_rep_frame d d' v bl T Hfat Hb B).
  - apply (dir_ok_frame d d' v); [|exact C]. intros j Hj. apply Hb. apply in_or_app. left. exact Hj.
  - rewrite Forall_forall in *. intros n Hn. apply (node_ok_frame d d' v); [|exact (D n Hn)].
    intros j Hj. apply Hb. apply in_or_app. right. apply in_flat_map. exists n. split; assumption.
  - exact (fat_wf_ext d d' v _ Hfat E).
Qed.

(* ================================================================== 3b. the invariant and the in-memory tables *)
Lemma ofile_ok_same_disk s s' v T f : s_disk s' = s_disk s -> ofile_ok s v T f -> ofile_ok s' v T f.
Proof.
  intros Hd [A B C D E F G H I]. constructor; try assumption; try (rewrite Hd; assumption).
  unfold chain_ok in *. rewrite Hd. exact E.
Qed.

Lemma pend_of_same s s' v : s_disk s' = s_disk s -> s_files s' = s_files s -> pend_of s' v = pend_of s v.
Proof. intros Hd Hf. unfold pend_of. rewrite Hd, Hf. reflexivity. Qed.

Lemma map_filter_list_set {A B} (g : A -> B) (q : A -> bool) : forall l i x y,
  nth_error l i = Some y -> g x = g y -> q x = q y ->
  map g (filter q (list_set l i x)) = map g (filter q l).
Proof.
  induction l as [|a l IH]; intros [|i] x y Hi Eg Eq; cbn [nth_error] in Hi; try discriminate.
  - injection Hi as ->. cbn [list_set filter]. rewrite Eq. destruct (q y); cbn [map]; rewrite ?Eg; reflexivity.
  - cbn [list_set filter]. destruct (q a); cbn [map]; rewrite (IH i x y Hi Eg Eq); reflexivity.
Qed.

Lemma map_list_set_same {A B} (g : A -> B) : forall l i x y,
  nth_error l i = Some y -> g x = g y -> map g (list_set l i x) = map g l.
Proof.
  induction l as [|a l IH]; intros [|i] x y Hi Eg; cbn [nth_error] in Hi; try discriminate.
  - injection Hi as ->. cbn [list_set map]. rewrite Eg. reflexivity.
  - cbn [list_set map]. rewrite (IH i x y Hi Eg). reflexivity.
Qed.

(* the state components fs_inv_at looks at *)
Lemma fs_inv_at_transport fsz vid s s' vi v bl rch T :
  fs_inv_at fsz vid s vi v bl rch T ->
  s_disk s' = s_disk s -> s_vols s' = s_vols s -> s_dirs s' = s_dirs s ->
  s_lock s' = false -> no_faults s' -> cache_ok s' ->
  Forall (ofile_ok s' v T) (s_files s') ->
  NoDup (map f_id (s_files s')) -> NoDup (map slot_key (s_files s')) ->
  pend_of s' v = pend_of s v ->
  fs_inv_at fsz vid s' vi v bl rch T.
Proof.
  intros [A B C D E F G H I J K] Hd Hv Hdi Hl Hnf Hc Hfiles Hids Hslots Hp.
  constructor; try assumption.
  - rewrite Hv. exact B.
  - destruct C as (_ & ((_ & _ & C3 & C4) & C5 & C6) & C7 & C8 & C9 & C10).
    split; [exact Hl|]. split.
    + split; [|split; assumption]. split; [exact Hnf|]. split; [exact Hc|].
      split; [rewrite Hv; exact C3|rewrite Hd; exact C4].
    + split; [exact C7|]. split; [exact C8|]. split; [rewrite Hd; exact C9|rewrite Hv; exact C10].
  - rewrite Hd, Hp. exact G.
  - rewrite Hdi. exact K.
Qed.

(* one record of the file table is replaced by one with the same entry (a seek, a read) *)
Theorem fs_inv_at_upd_file fsz vid s vi v bl rch T fi f f' :
  fs_inv_at fsz vid s vi v bl rch T -> nth_error (s_files s) fi = Some f ->
  f_id f' = f_id f -> f_vol f' = f_vol f -> f_entry f' = f_entry f ->
  (forall ch, PrRw.cursor_ok v ch (f_cur_off f, f_cur_cluster f) ->
              PrRw.cursor_ok v ch (f_cur_off f', f_cur_cluster f')) ->
  (f_cur_cluster f < 2 -> f_cur_cluster f' < 2) ->
  f_offset f' <= e_size (f_entry f) -> (f_dirty f = true -> f_dirty f' = true) ->
  fs_inv_at fsz vid (PrSeek.upd_file s fi f') vi v bl rch T.
Proof.
  intros Hinv Hfi Eid Evol Eent Hcur Hcur0 Hoff Hdirty.
  pose proof Hinv as [A B C D E F G H I J K].
  pose proof C as (Hl & ((Hnf & Hc & _) & _) & _).
  apply (fs_inv_at_transport fsz vid s _ vi v bl rch T Hinv); try reflexivity; try assumption.
  - cbn [PrSeek.upd_file s_files set_s_files]. rewrite Forall_forall in *. intros g Hg.
    apply In_list_set in Hg. destruct Hg as [->|Hg].
    + pose proof (H f (nth_error_In _ _ Hfi)) as [O1 O2 O3 O4 O5 O6 O7 O8 O9].
      assert (Ech : fchain (s_disk s) v f' = fchain (s_disk s) v f) by (unfold fchain; rewrite Eent; reflexivity).
      assert (Ep : is_pending (s_disk s) v f' = is_pending (s_disk s) v f) by (unfold is_pending; rewrite Eent; reflexivity).
      constructor; cbn [s_disk PrSeek.upd_file set_s_files]; rewrite ?Eent, ?Ech, ?Ep; try assumption.
      * congruence.
      * unfold chain_ok in *. cbn [s_disk set_s_files]. rewrite Eent.
        destruct O5 as [(X1 & X2 & X3)|(X1 & X2 & X3)]; [left|right]; auto.
      * intros Hp. exact (Hdirty (O9 Hp)).
    + apply (ofile_ok_same_disk s); [reflexivity|exact (H g Hg)].
  - cbn [PrSeek.upd_file s_files set_s_files]. rewrite (map_list_set_same f_id _ _ _ _ Hfi Eid). exact I.
  - cbn [PrSeek.upd_file s_files set_s_files].
    rewrite (map_list_set_same slot_key _ _ f' f Hfi); [exact J|]. unfold slot_key. rewrite Eent. reflexivity.
  - unfold pend_of. cbn [PrSeek.upd_file s_files s_disk set_s_files].
    apply (map_filter_list_set _ _ _ _ f' f Hfi); [rewrite Eent; reflexivity|].
    unfold is_pending. rewrite Eent. reflexivity.
Qed.

Corollary fs_inv_set_offset fsz vid s h fi f n :
  fs_inv fsz vid s -> PrSeek.resolves s h fi f -> n <= e_size (f_entry f) ->
  fs_inv fsz vid (PrSeek.upd_file s fi (set_f_offset f n)).
Proof.
  intros (vi & v & bl & rch & T & Hinv) (_ & _ & Hfi) Hn. exists vi, v, bl, rch, T.
  apply (fs_inv_at_upd_file fsz vid s vi v bl rch T fi f _ Hinv Hfi); try reflexivity; auto.
Qed.

(* ================================================================== 7b. histories *)
Fixpoint run_ops (ops : list op) (s : st) : list (outcome res) * st :=
  match ops with
  | [] => ([], s)
  | o :: rest => let '(r, s1) := step o s in
                 let '(rs, s') := run_ops rest s1 in (r :: rs, s')
  end.

Lemma no_remount_ok : forall o, no_remount o -> PrHandles.remount_ok o.
Proof.
  fix IH 1. intros o H. destruct o; try exact I.
  - destruct inner as [o'|]; [|exact I]. cbn [PrHandles.remount_ok no_remount] in *. apply IH. exact H.
  - destruct H.
Qed.

Lemma in_region_geo v w fsz i : geo_eq v w -> PrBounds.in_region w fsz i <-> PrBounds.in_region v fsz i.
Proof. intros (a & b & ->). reflexivity. Qed.

Lemma handles_ok_fresh age s : age < U32 -> PrHandles.handles_ok age s -> id_fresh s.
Proof. intros Ha (Hf & _). exact (PrHandles.fresh_inv_distinct age s Ha Hf). Qed.

(* the final assembly: when every operation satisfies step_ok, the invariant holds after every
   history of in-scope operations that stays inside the handle-id window (age + number of
   calls < 2^32 - 1, cf. PrHandles.C08_handles_ok_step); no call panics or runs out of fuel;
   every device write of the history lies in a region of the volume *)
Theorem history_ok fsz vid : (forall o, step_ok fsz vid o) ->
  forall ops s age, fs_inv fsz vid s -> PrHandles.handles_ok age s ->
    age + N.of_nat (length ops) < U32 - 1 -> Forall op_known_ok ops ->
    let '(rs, s') := run_ops ops s in
    fs_inv fsz vid s' /\ same_geo s s' /\
    Forall (fun r => r <> Panic /\ r <> OutOfFuel) rs /\
    exists ws, PrOrder.tsteps s s' ws /\ forall v, In v (s_vols s) -> Forall (PrBounds.in_region v fsz) ws.
Proof.
  intros Hall. induction ops as [|o rest IH]; intros s age Hinv Hh Hage Hops.
  - cbn [run_ops]. split; [exact Hinv|]. split.
    + destruct Hinv as (vi & v & bl & rch & T & Hat). exists v, v.
      split; [exact (fi_single _ _ _ _ _ _ _ _ Hat)|]. split; [exact (fi_single _ _ _ _ _ _ _ _ Hat)|apply geo_eq_refl].
    + split; [constructor|]. exists []. split; [apply PrOrder.tsteps_refl|]. intros v _. constructor.
  - cbn [run_ops]. destruct (step o s) as [r s1] eqn:Es.
    inversion Hops as [|? ? Ho Hrest]; subst. cbn [length] in Hage.
    assert (Ha1 : age < U32) by (unfold U32 in *; lia).
    assert (Ha2 : age < U32 - 1) by (unfold U32 in *; lia).
    assert (Ha3 : age + 1 + N.of_nat (length rest) < U32 - 1).
    { rewrite Nat2N.inj_succ in Hage. unfold U32 in *. lia. }
    destruct (Hall o s r s1 Hinv (handles_ok_fresh age s Ha1 Hh) Ho Es)
      as (R1 & R2 & Hinv1 & Hgeo1 & ws1 & Ht1 & Hw1).
    pose proof (PrHandles.C08_handles_ok_step age o s Ha2 (no_remount_ok o (proj1 (proj1 Ho))) Hh) as Hh1.
    rewrite Es in Hh1. cbn [snd] in Hh1.
    specialize (IH s1 (age + 1) Hinv1 Hh1 Ha3 Hrest).
    destruct (run_ops rest s1) as [rs s'].
    destruct IH as (Hinv' & Hgeo' & Hrs & ws2 & Ht2 & Hw2).
    destruct Hgeo1 as (v & v1 & Ev & Ev1 & G1). destruct Hgeo' as (v1' & v' & Ev1' & Ev' & G2).
    rewrite Ev1 in Ev1'. injection Ev1' as <-.
    split; [exact Hinv'|]. split; [exists v, v'; split; [exact Ev|split; [exact Ev'|exact (geo_eq_trans _ _ _ G1 G2)]]|].
    split; [constructor; [split; assumption|exact Hrs]|].
    exists (ws1 ++ ws2). split; [exact (PrOrder.tsteps_trans _ _ _ _ _ Ht1 Ht2)|].
    intros v0 Hv0. apply Forall_app. split; [exact (Hw1 v0 Hv0)|].
    rewrite Ev in Hv0. destruct Hv0 as [<-|[]].
    specialize (Hw2 v1 ltac:(rewrite Ev1; left; reflexivity)).
    rewrite Forall_forall in *. intros i Hi. apply (in_region_geo v v1 fsz i G1). exact (Hw2 i Hi).
Qed.

(* ... hence after every prefix *)
Corollary history_ok_prefix fsz vid : (forall o, step_ok fsz vid o) ->
  forall ops s age k, fs_inv fsz vid s -> PrHandles.handles_ok age s ->
    age + N.of_nat (length ops) < U32 - 1 -> Forall op_known_ok ops ->
    fs_inv fsz vid (snd (run_ops (firstn k ops) s)).
Proof.
  intros Hall ops s age k Hinv Hh Hage Hops.
  pose proof (history_ok fsz vid Hall (firstn k ops) s age Hinv Hh) as H.
  destruct (run_ops (firstn k ops) s) as [rs s']. apply H.
  - rewrite firstn_length. clear - Hage. unfold U32 in *. lia.
  - rewrite Forall_forall in *. intros o Ho. apply Hops.
    rewrite <- (firstn_skipn k ops). apply in_or_app. left. exact Ho.
Qed.

(* ================================================================== 7c. step_ok for the operations that write nothing *)
Lemma fs_inv_lock fsz vid s : fs_inv fsz vid s -> s_lock s = false.
Proof. intros (vi & v & bl & rch & T & H). exact (proj1 (fi_vol _ _ _ _ _ _ _ _ H)). Qed.

Lemma fs_inv_vols fsz vid s : fs_inv fsz vid s -> exists v, s_vols s = [v] /\ v_id v = vid.
Proof. intros (vi & v & bl & rch & T & H). exists v. split; [exact (fi_single _ _ _ _ _ _ _ _ H)|exact (fi_vid _ _ _ _ _ _ _ _ H)]. Qed.

(* the conclusion of step_ok for a call that neither writes nor touches the volume table *)
Lemma step_ok_quiet fsz vid s (r : outcome res) s' :
  fs_inv fsz vid s -> r <> Panic -> r <> OutOfFuel -> fs_inv fsz vid s' ->
  s_vols s' = s_vols s -> s_trace s' = s_trace s ->
  r <> Panic /\ r <> OutOfFuel /\ fs_inv fsz vid s' /\ same_geo s s' /\
  exists ws, PrOrder.tsteps s s' ws /\ forall v, In v (s_vols s) -> Forall (PrBounds.in_region v fsz) ws.
Proof.
  intros Hinv R1 R2 Hinv' Hv Ht. split; [exact R1|]. split; [exact R2|]. split; [exact Hinv'|].
  destruct (fs_inv_vols fsz vid s Hinv) as (v & Ev & _). split.
  - exists v, v. split; [exact Ev|]. split; [rewrite Hv; exact Ev|apply geo_eq_refl].
  - exists []. split; [exact (PrOrder.tsteps_same_trace s s' Ht)|]. intros v0 _. constructor.
Qed.

Lemma step_ok_same fsz vid s (r : outcome res) :
  fs_inv fsz vid s -> r <> Panic -> r <> OutOfFuel ->
  r <> Panic /\ r <> OutOfFuel /\ fs_inv fsz vid s /\ same_geo s s /\
  exists ws, PrOrder.tsteps s s ws /\ forall v, In v (s_vols s) -> Forall (PrBounds.in_region v fsz) ws.
Proof. intros Hinv R1 R2. apply step_ok_quiet; auto. Qed.

Lemma find_idx_none_inv {A} (p : A -> bool) : forall l i, find_idx p l i = None -> forall x, In x l -> p x = false.
Proof.
  induction l as [|a l IH]; intros i H x Hx; [destruct Hx|]. cbn [find_idx] in H.
  destruct (p a) eqn:Ea; [discriminate|]. destruct Hx as [<-|Hx]; [exact Ea|exact (IH _ H x Hx)].
Qed.

(* a file handle names a record or it is stale *)
Lemma file_handle_cases s h : s_lock s = false ->
  (exists fi f, PrSeek.resolves s h fi f) \/ PrHandles.no_file h s.
Proof.
  intros Hl. destruct (find_idx (fun g => f_id g =? h) (s_files s) 0) as [fi|] eqn:E.
  - left. destruct (PrSeek.find_resolves s h fi Hl E) as (f & Hr & _). exists fi, f. exact Hr.
  - right. intros f Hf. apply N.eqb_neq. exact (find_idx_none_inv _ _ _ E f Hf).
Qed.

Theorem step_ok_Length fsz vid h : step_ok fsz vid (Length h).
Proof.
  intros s r s' Hinv _ _ Hs. pose proof (fs_inv_lock fsz vid s Hinv) as Hl.
  destruct (file_handle_cases s h Hl) as [(fi & f & Hr)|Hno].
  - cbn [step] in Hs. rewrite (lift_ok' _ _ _ _ _ (PrSeek.C01_file_length s h fi f Hr)) in Hs.
    injection Hs as <- <-. apply step_ok_same; [exact Hinv|discriminate|discriminate].
  - destruct (PrHandles.C08_stale_file_handle h s Hl Hno) as (_ & _ & _ & _ & _ & _ & _ & E & _ & _).
    rewrite E in Hs. injection Hs as <- <-. apply step_ok_same; [exact Hinv|discriminate|discriminate].
Qed.

Theorem step_ok_Offset fsz vid h : step_ok fsz vid (Offset h).
Proof.
  intros s r s' Hinv _ _ Hs. pose proof (fs_inv_lock fsz vid s Hinv) as Hl.
  destruct (file_handle_cases s h Hl) as [(fi & f & Hr)|Hno].
  - cbn [step] in Hs. rewrite (lift_ok' _ _ _ _ _ (PrSeek.C01_file_offset s h fi f Hr)) in Hs.
    injection Hs as <- <-. apply step_ok_same; [exact Hinv|discriminate|discriminate].
  - destruct (PrHandles.C08_stale_file_handle h s Hl Hno) as (_ & _ & _ & _ & _ & _ & _ & _ & E & _).
    rewrite E in Hs. injection Hs as <- <-. apply step_ok_same; [exact Hinv|discriminate|discriminate].
Qed.

Theorem step_ok_Eof fsz vid h : step_ok fsz vid (Eof h).
Proof.
  intros s r s' Hinv _ _ Hs. pose proof (fs_inv_lock fsz vid s Hinv) as Hl.
  destruct (file_handle_cases s h Hl) as [(fi & f & Hr)|Hno].
  - cbn [step] in Hs. rewrite (lift_ok' _ _ _ _ _ (PrSeek.C01_file_eof s h fi f Hr)) in Hs.
    injection Hs as <- <-. apply step_ok_same; [exact Hinv|discriminate|discriminate].
  - destruct (PrHandles.C08_stale_file_handle h s Hl Hno) as (_ & _ & _ & _ & _ & _ & _ & _ & _ & E).
    rewrite E in Hs. injection Hs as <- <-. apply step_ok_same; [exact Hinv|discriminate|discriminate].
Qed.

Theorem step_ok_HasOpen fsz vid : step_ok fsz vid HasOpen.
Proof.
  intros s r s' Hinv _ _ Hs. cbn [step] in Hs.
  rewrite (lift_ok' _ _ _ _ _ (PrHandles.C08_query_truthful s)) in Hs.
  injection Hs as <- <-. apply step_ok_same; [exact Hinv|discriminate|discriminate].
Qed.

(* a seek: the record of the file gets a new offset within its size, or nothing happens *)
Lemma step_ok_seek_result fsz vid s h fi f o (m : M unit) r s' :
  fs_inv fsz vid s -> PrSeek.resolves s h fi f ->
  (forall n, o = Some n -> n <= e_size (f_entry f)) ->
  m s = PrSeek.seek_result s fi f o -> lift (fun _ => RUnit) m s = (r, s') ->
  r <> Panic /\ r <> OutOfFuel /\ fs_inv fsz vid s' /\ same_geo s s' /\
  exists ws, PrOrder.tsteps s s' ws /\ forall v, In v (s_vols s) -> Forall (PrBounds.in_region v fsz) ws.
Proof.
  intros Hinv Hr Ho Hm Hs. destruct o as [n|]; cbn [PrSeek.seek_result] in Hm.
  - rewrite (lift_ok' _ _ _ _ _ Hm) in Hs. injection Hs as <- <-.
    apply step_ok_quiet; try discriminate; try reflexivity; [exact Hinv|].
    exact (fs_inv_set_offset fsz vid s h fi f n Hinv Hr (Ho n eq_refl)).
  - rewrite (lift_err' _ _ _ _ _ Hm) in Hs. injection Hs as <- <-.
    apply step_ok_same; [exact Hinv|discriminate|discriminate].
Qed.

Theorem step_ok_SeekStart fsz vid h x : step_ok fsz vid (SeekStart h x).
Proof.
  intros s r s' Hinv _ _ Hs. pose proof (fs_inv_lock fsz vid s Hinv) as Hl.
  destruct (file_handle_cases s h Hl) as [(fi & f & Hr)|Hno].
  - cbn [step] in Hs.
    apply (step_ok_seek_result fsz vid s h fi f _ _ r s' Hinv Hr
             (fun n E => PrSeek.spec_seek_start_ok _ _ _ _ E) (PrSeek.file_seek_from_start_spec s h fi f x Hr) Hs).
  - destruct (PrHandles.C08_stale_file_handle h s Hl Hno) as (_ & _ & _ & _ & E & _).
    rewrite (E x) in Hs. injection Hs as <- <-. apply step_ok_same; [exact Hinv|discriminate|discriminate].
Qed.

Theorem step_ok_SeekEnd fsz vid h x : step_ok fsz vid (SeekEnd h x).
Proof.
  intros s r s' Hinv _ _ Hs. pose proof (fs_inv_lock fsz vid s Hinv) as Hl.
  destruct (file_handle_cases s h Hl) as [(fi & f & Hr)|Hno].
  - cbn [step] in Hs.
    apply (step_ok_seek_result fsz vid s h fi f _ _ r s' Hinv Hr
             (fun n E => PrSeek.spec_seek_end_ok _ _ _ _ E) (PrSeek.file_seek_from_end_spec s h fi f x Hr) Hs).
  - destruct (PrHandles.C08_stale_file_handle h s Hl Hno) as (_ & _ & _ & _ & _ & _ & E & _).
    rewrite (E x) in Hs. injection Hs as <- <-. apply step_ok_same; [exact Hinv|discriminate|discriminate].
Qed.

Theorem step_ok_SeekCur fsz vid h x : step_ok fsz vid (SeekCur h x).
Proof.
  intros s r s' Hinv _ _ Hs. pose proof (fs_inv_lock fsz vid s Hinv) as Hl.
  destruct (file_handle_cases s h Hl) as [(fi & f & Hr)|Hno].
  - cbn [step] in Hs.
    apply (step_ok_seek_result fsz vid s h fi f _ _ r s' Hinv Hr
             (fun n E => PrSeek.spec_seek_cur_ok _ _ _ _ E) (PrSeek.file_seek_from_current_spec s h fi f x Hr) Hs).
  - destruct (PrHandles.C08_stale_file_handle h s Hl Hno) as (_ & _ & _ & _ & _ & E & _).
    rewrite (E x) in Hs. injection Hs as <- <-. apply step_ok_same; [exact Hinv|discriminate|discriminate].
Qed.

(* the embedded-io seek adapter: a window check, one of the three seeks, then file_offset *)
Lemma io_seek_stale h w x s : s_lock s = false -> PrHandles.no_file h s ->
  exists e, io_seek h w x s = (Err e, s).
Proof.
  intros Hl Hno.
  assert (Hs : forall A (k : nat -> fileinfo -> M A), with_file h k s = (Err BadHandle, s))
    by (intros A k; exact (PrHandles.with_file_stale h k s Hl Hno)).
  unfold io_seek. destruct w.
  - destruct ((x <? 0)%Z || (4294967295 <? x)%Z).
    + exists InvalidOffset. reflexivity.
    + exists BadHandle. apply bind_err. apply Hs.
  - destruct (x =? -9223372036854775808)%Z; [exists InvalidOffset; reflexivity|]. cbv zeta.
    destruct ((- x <? 0)%Z || (4294967295 <? - x)%Z).
    + exists InvalidOffset. reflexivity.
    + exists BadHandle. apply bind_err. apply Hs.
  - destruct ((x <? -2147483648)%Z || (2147483647 <? x)%Z).
    + exists InvalidOffset. reflexivity.
    + exists BadHandle. apply bind_err. apply Hs.
Qed.

Theorem step_ok_IoSeek fsz vid h w x : step_ok fsz vid (IoSeek h w x).
Proof.
  intros s r s' Hinv _ _ Hs. pose proof (fs_inv_lock fsz vid s Hinv) as Hl.
  destruct (file_handle_cases s h Hl) as [(fi & f & Hr)|Hno].
  - cbn [step] in Hs. pose proof (PrSeek.C01_io_seek_spec s h fi f w x Hr) as E.
    destruct (PrSeek.seek_accepts w x (PrSeek.flen f) (PrSeek.foff f)) eqn:Ea.
    + rewrite (lift_ok' _ _ _ _ _ E) in Hs. injection Hs as <- <-.
      apply step_ok_quiet; try discriminate; try reflexivity; [exact Hinv|].
      apply (fs_inv_set_offset fsz vid s h fi f _ Hinv Hr).
      unfold PrSeek.seek_accepts in Ea. apply andb_true_iff in Ea. destruct Ea as [Ea E2].
      apply andb_true_iff in Ea. destruct Ea as [_ E1]. apply Z.leb_le in E1. apply Z.leb_le in E2.
      unfold PrSeek.flen in *. clear - E1 E2. lia.
    + rewrite (lift_err' _ _ _ _ _ E) in Hs. injection Hs as <- <-.
      apply step_ok_same; [exact Hinv|discriminate|discriminate].
  - cbn [step] in Hs. destruct (io_seek_stale h w x s Hl Hno) as (e & E).
    rewrite (lift_err' _ _ _ _ _ E) in Hs. injection Hs as <- <-.
    apply step_ok_same; [exact Hinv|discriminate|discriminate].
Qed.

Print Assumptions history_ok.
Print Assumptions step_ok_IoSeek.

(* ================================================================== 4a. where the nodes of a tree live *)
Lemma Forall2_In_l {A B} (R : A -> B -> Prop) l1 l2 a : Forall2 R l1 l2 -> In a l1 -> exists b, In b l2 /\ R a b.
Proof.
  induction 1 as [|x y l1 l2 Hxy _ IH]; intros Hin; [destruct Hin|].
  destruct Hin as [<-|Hin]; [exists y; split; [left; reflexivity|exact Hxy]|].
  destruct (IH Hin) as (b & Hb & Hr). exists b. split; [right; exact Hb|exact Hr].
Qed.

Lemma Forall2_In_r {A B} (R : A -> B -> Prop) l1 l2 b : Forall2 R l1 l2 -> In b l2 -> exists a, In a l1 /\ R a b.
Proof.
  induction 1 as [|x y l1 l2 Hxy _ IH]; intros Hin; [destruct Hin|].
  destruct Hin as [<-|Hin]; [exists x; split; [left; reflexivity|exact Hxy]|].
  destruct (IH Hin) as (a & Ha & Hr). exists a. split; [right; exact Ha|exact Hr].
Qed.

Lemma flatten_self n : In n (flatten n).
Proof. destruct n; left; reflexivity. Qed.

Lemma flatten_kid e ch kids k n : In k kids -> In n (flatten k) -> In n (flatten (NDir e ch kids)).
Proof. intros Hk Hn. cbn [flatten]. right. apply in_flat_map. exists k. split; assumption. Qed.

Lemma flatten_trans : forall n m k, In m (flatten n) -> In k (flatten m) -> In k (flatten n).
Proof.
  induction n as [e ch|e ch kids IH] using node_ind'; intros m k Hm Hk.
  - destruct Hm as [<-|[]]. exact Hk.
  - destruct Hm as [<-|Hm]; [exact Hk|]. apply in_flat_map in Hm. destruct Hm as (k0 & Hk0 & Hm).
    rewrite Forall_forall in IH. apply (flatten_kid e ch kids k0 k Hk0). exact (IH k0 Hk0 m k Hm Hk).
Qed.

Lemma all_nodes_top T n : In n T -> In n (all_nodes T).
Proof. intros H. apply in_flat_map. exists n. split; [exact H|apply flatten_self]. Qed.

Lemma all_nodes_trans T m k : In m (all_nodes T) -> In k (flatten m) -> In k (all_nodes T).
Proof.
  intros Hm Hk. apply in_flat_map in Hm. destruct Hm as (n & Hn & Hm). apply in_flat_map.
  exists n. split; [exact Hn|exact (flatten_trans n m k Hm Hk)].
Qed.

Lemma dir_nodes_in d bl t : In t (dir_nodes d bl) ->
  In t (dir_live d bl) /\ node_slot t = true /\
  exists b i, In b bl /\ i < 16 /\ t = (b, i * 32, slot (disk_get d b) i).
Proof.
  intros H. unfold dir_nodes in H. apply filter_In in H. destruct H as [H1 H2].
  split; [exact H1|]. split; [exact H2|]. unfold dir_live in H1.
  apply In_before_end_all in H1. exact (In_slots_of d bl t (proj1 H1)).
Qed.

(* every node below m sits at a node slot of a directory below m *)
Lemma flatten_rep d v : forall m t, node_rep d v m t -> forall n, In n (flatten m) ->
  n = m \/ exists t' e ch kids, node_rep d v n t' /\ In (NDir e ch kids) (flatten m) /\
                                In t' (dir_nodes d (data_blocks v ch)) /\ chain_at d v (e_cluster e) ch.
Proof.
  induction m as [e ch|e ch kids IH] using node_ind'; intros t Hm n Hn.
  - destruct Hn as [<-|[]]. left. reflexivity.
  - destruct Hn as [<-|Hn]; [left; reflexivity|]. right.
    apply in_flat_map in Hn. destruct Hn as (k & Hk & Hn).
    pose proof Hm as Hm0. apply node_rep_dir in Hm. destruct Hm as (_ & _ & Hch & Hkids).
    destruct (Forall2_In_l _ _ _ k Hkids Hk) as (tk & Htk & Hrk).
    rewrite Forall_forall in IH. destruct (IH k Hk tk Hrk n Hn) as [->|(t' & e' & ch' & kids' & A & B & C & D)].
    + exists tk, e, ch, kids. split; [exact Hrk|]. split; [apply flatten_self|]. split; [exact Htk|exact Hch].
    + exists t', e', ch', kids'. split; [exact A|]. split; [exact (flatten_kid e ch kids k _ Hk B)|]. split; assumption.
Qed.

(* the master lemma: a node of the tree is the tree at a node slot of the root directory or of a
   directory node of the tree *)
Theorem all_nodes_rep d v bl T : tree_rep d v bl T -> forall n, In n (all_nodes T) ->
  exists t bl', node_rep d v n t /\ In t (dir_nodes d bl') /\
    (bl' = bl \/ exists e ch kids, In (NDir e ch kids) (all_nodes T) /\ bl' = data_blocks v ch /\
                                   chain_at d v (e_cluster e) ch).
Proof.
  intros HT n Hn. apply in_flat_map in Hn. destruct Hn as (m & Hm & Hn).
  destruct (Forall2_In_l _ _ _ m HT Hm) as (tm & Htm & Hrm).
  destruct (flatten_rep d v m tm Hrm n Hn) as [->|(t' & e & ch & kids & A & B & C & D)].
  - exists tm, bl. split; [exact Hrm|]. split; [exact Htm|]. left. reflexivity.
  - exists t', (data_blocks v ch). split; [exact A|]. split; [exact C|]. right.
    exists e, ch, kids. split; [|split; [reflexivity|exact D]].
    apply in_flat_map. exists m. split; assumption.
Qed.

(* ... hence its entry is what the disk holds at its position *)
Lemma slot_tslot_at d b i : i < 16 ->
  forall e, e_block e = b -> e_offset e = i * 32 -> slot_tslot d e = (b, i * 32, slot (disk_get d b) i).
Proof.
  intros Hi e Eb E. unfold slot_tslot. rewrite E, Eb. replace (i * 32 / 32) with i by lia. reflexivity.
Qed.

Lemma node_rep_slot d v bl' n t : node_rep d v n t -> In t (dir_nodes d bl') ->
  In (e_block (node_entry n)) bl' /\ e_offset (node_entry n) + 32 <= 512 /\
  slot_tslot d (node_entry n) = t /\ disk_entry d v (node_entry n) = node_entry n /\ node_slot t = true.
Proof.
  intros Hr Ht. destruct (dir_nodes_in d bl' t Ht) as (_ & Hns & b & i & Hb & Hi & ->).
  rewrite (node_rep_entry d v n _ Hr). unfold t_entry, get_entry. cbn [fst snd e_block e_offset].
  split; [exact Hb|]. split; [lia|].
  assert (E : slot_tslot d (t_entry (v_fat32 v) (b, i * 32, slot (disk_get d b) i)) = (b, i * 32, slot (disk_get d b) i))
    by (apply (slot_tslot_at d b i Hi); reflexivity).
  unfold t_entry, get_entry in E. cbn [fst snd] in E.
  split; [exact E|]. split; [|exact Hns]. unfold disk_entry. rewrite E. reflexivity.
Qed.

(* ---- heads and their owners ---- *)
Definition own_head (n : node) : list N :=
  match n with
  | NFile e _ => if 2 <=? e_cluster e then [e_cluster e] else []
  | NDir e _ _ => [e_cluster e]
  end.

Lemma node_heads_flatten : forall n, node_heads n = flat_map own_head (flatten n).
Proof.
  induction n as [e ch|e ch kids IH] using node_ind'.
  - cbn [node_heads flatten flat_map own_head]. rewrite app_nil_r. reflexivity.
  - cbn [node_heads flatten flat_map own_head app]. f_equal.
    induction IH as [|k ks Hk _ IHks]; [reflexivity|].
    cbn [flat_map]. rewrite flat_map_app, Hk, IHks. reflexivity.
Qed.

Lemma heads_all_nodes T : flat_map node_heads T = flat_map own_head (all_nodes T).
Proof.
  unfold all_nodes. induction T as [|n T IH]; [reflexivity|].
  cbn [flat_map]. rewrite flat_map_app, node_heads_flatten, IH. reflexivity.
Qed.

Lemma flat_map_owner {A B} (f : A -> list B) : forall l, NoDup (flat_map f l) ->
  forall a b x, In a l -> In b l -> In x (f a) -> In x (f b) -> a = b.
Proof.
  induction l as [|y l IH]; intros Hnd a b x Ha Hb Xa Xb; [destruct Ha|].
  cbn [flat_map] in Hnd. destruct (nodup_app_inv _ _ Hnd) as (_ & N2 & N3).
  destruct Ha as [<-|Ha]; destruct Hb as [<-|Hb].
  - reflexivity.
  - exfalso. apply (N3 x Xa). apply in_flat_map. exists b. split; assumption.
  - exfalso. apply (N3 x Xb). apply in_flat_map. exists a. split; assumption.
  - exact (IH N2 a b x Ha Hb Xa Xb).
Qed.

Lemma own_head_in T n c : In n (all_nodes T) -> In c (own_head n) -> In c (flat_map node_heads T).
Proof. intros Hn Hc. rewrite heads_all_nodes. apply in_flat_map. exists n. split; assumption. Qed.

(* the heads list of the invariant, taken apart *)
Lemma heads_nodup v T pend : NoDup (heads v T ++ pend) ->
  NoDup (flat_map own_head (all_nodes T)) /\ NoDup pend /\
  (forall c, In c (root_heads v) -> ~ In c (flat_map node_heads T) /\ ~ In c pend) /\
  (forall c, In c (flat_map node_heads T) -> ~ In c pend).
Proof.
  unfold heads. rewrite <- app_assoc. intros H.
  destruct (nodup_app_inv _ _ H) as (_ & H2 & H3). destruct (nodup_app_inv _ _ H2) as (H4 & H5 & H6).
  rewrite <- heads_all_nodes. split; [exact H4|]. split; [exact H5|]. split; [|exact H6].
  intros c Hc. split; intros Hin; apply (H3 c Hc); apply in_or_app; [left|right]; exact Hin.
Qed.

(* ================================================================== 4b. fs_inv implies the life-cycle invariant of PrOpenClose *)
Lemma disk_entry_key d v e e' : e_block e = e_block e' -> e_offset e = e_offset e' ->
  disk_entry d v e = disk_entry d v e'.
Proof. intros A B. unfold disk_entry, slot_tslot. rewrite A, B. reflexivity. Qed.

Lemma nodup_map_filter_nth {A} (g : A -> N) (q : A -> bool) : forall l i j a b,
  NoDup (map g (filter q l)) -> nth_error l i = Some a -> nth_error l j = Some b ->
  q a = true -> q b = true -> g a = g b -> i = j.
Proof.
  induction l as [|y l IH]; intros i j a b Hnd Hi Hj Qa Qb E; [destruct i; discriminate Hi|].
  assert (Hin : forall z, In z l -> q z = true -> In (g z) (map g (filter q l)))
    by (intros z Hz Qz; apply in_map; apply filter_In; split; assumption).
  destruct i as [|i]; destruct j as [|j]; cbn [nth_error] in Hi, Hj.
  - reflexivity.
  - exfalso. injection Hi as ->. cbn [filter] in Hnd. rewrite Qa in Hnd. cbn [map] in Hnd.
    inversion Hnd as [|? ? Hx _]; subst. apply Hx. rewrite E. exact (Hin b (nth_error_In _ _ Hj) Qb).
  - exfalso. injection Hj as ->. cbn [filter] in Hnd. rewrite Qb in Hnd. cbn [map] in Hnd.
    inversion Hnd as [|? ? Hx _]; subst. apply Hx. rewrite <- E. exact (Hin a (nth_error_In _ _ Hi) Qa).
  - f_equal. apply (IH i j a b); try assumption. cbn [filter] in Hnd.
    destruct (q y); [cbn [map] in Hnd; inversion Hnd; assumption|exact Hnd].
Qed.

Lemma nth_reps_from d v : forall l i j,
  nth_error (reps_from d v i l) j =
  match nth_error l j with Some f => Some ((i + j)%nat, f, fchain d v f) | None => None end.
Proof.
  induction l as [|f l IH]; intros i [|j]; cbn [reps_from nth_error]; try reflexivity.
  - rewrite Nat.add_0_r. reflexivity.
  - rewrite IH. replace (S i + j)%nat with (i + S j)%nat by lia. reflexivity.
Qed.

Lemma In_reps_of s v r : In r (reps_of s v) ->
  exists j f, nth_error (s_files s) j = Some f /\ r = (j, f, fchain (s_disk s) v f).
Proof.
  intros H. destruct (In_nth_error _ _ H) as (j & Hj). unfold reps_of in Hj. rewrite nth_reps_from in Hj.
  destruct (nth_error (s_files s) j) as [f|] eqn:E; [|discriminate]. injection Hj as <-.
  exists j, f. split; [exact E|reflexivity].
Qed.

Section LcInv.
  Variables (fsz vid : N) (s : st) (vi : nat) (v : vol) (bl rch : list N) (T : list node).
  Hypothesis Hinv : fs_inv_at fsz vid s vi v bl rch T.

  Let d := s_disk s.
  Let W := di_wf _ _ _ _ _ _ (fi_disk _ _ _ _ _ _ _ _ Hinv).
  Let HT := di_tree _ _ _ _ _ _ (fi_disk _ _ _ _ _ _ _ _ Hinv).

  Lemma ofile_of f : In f (s_files s) -> ofile_ok s v T f.
  Proof. intros Hf. pose proof (fi_files _ _ _ _ _ _ _ _ Hinv) as H. rewrite Forall_forall in H. exact (H f Hf). Qed.

  (* a file node of the tree is what the disk holds at its position *)
  Lemma tree_node_entry n : In n (all_nodes T) -> disk_entry d v (node_entry n) = node_entry n.
  Proof.
    intros Hn. destruct (all_nodes_rep d v bl T HT n Hn) as (t & bl' & Hr & Ht & _).
    exact (proj1 (proj2 (proj2 (proj2 (node_rep_slot d v bl' n t Hr Ht))))).
  Qed.

  (* the in-memory first cluster of an open file belongs to its node, or is pending *)
  Lemma ofile_head f : In f (s_files s) -> 2 <= e_cluster (f_entry f) ->
    (exists e0 ch0, In (NFile e0 ch0) (all_nodes T) /\ e_cluster e0 = e_cluster (f_entry f) /\
                    e_block e0 = e_block (f_entry f) /\ e_offset e0 = e_offset (f_entry f))
    \/ is_pending d v f = true.
  Proof.
    intros Hf H2. destruct (of_node _ _ _ _ (ofile_of f Hf)) as (e0 & ch0 & Hn & Eb & Eo & _ & [Ec|(Ec & _)]).
    - left. exists e0, ch0. repeat split; try assumption. symmetry. exact Ec.
    - right. unfold is_pending. rewrite <- (disk_entry_key d v e0 (f_entry f) Eb Eo).
      pose proof (tree_node_entry _ Hn) as E. cbn [node_entry] in E. fold d. rewrite E.
      apply andb_true_iff. split; [apply N.ltb_lt; exact Ec|apply N.leb_le; exact H2].
  Qed.

  Lemma pending_in f : In f (s_files s) -> is_pending d v f = true -> In (e_cluster (f_entry f)) (pend_of s v).
  Proof.
    intros Hf Hp. unfold pend_of. apply (in_map (fun f0 => e_cluster (f_entry f0))).
    apply filter_In. split; assumption.
  Qed.

  Lemma ofile_in_hs f : In f (s_files s) -> 2 <= e_cluster (f_entry f) ->
    In (e_cluster (f_entry f)) (heads v T ++ pend_of s v).
  Proof.
    intros Hf H2. destruct (ofile_head f Hf H2) as [(e0 & ch0 & Hn & Ec & _)|Hp].
    - apply in_or_app. left. unfold heads. apply in_or_app. right.
      apply (own_head_in T (NFile e0 ch0) _ Hn). cbn [own_head].
      rewrite Ec. apply N.leb_le in H2. rewrite H2. left. reflexivity.
    - apply in_or_app. right. exact (pending_in f Hf Hp).
  Qed.

  Lemma fchain_in f x : In x (fchain d v f) ->
    2 <= e_cluster (f_entry f) /\ In x (chain_l d v (e_cluster (f_entry f))).
  Proof.
    unfold fchain. destruct (N.ltb_spec (e_cluster (f_entry f)) 2) as [H|H]; [intros []|].
    intros Hx. split; assumption.
  Qed.

  (* a directory chain (the FAT32 root chain, the chain of a directory node) shares no cluster
     with the chain of an open file *)
  Lemma dir_chain_apart h f :
    In h (root_heads v) \/ (exists e ch kids, In (NDir e ch kids) (all_nodes T) /\ e_cluster e = h) ->
    In f (s_files s) -> disjoint (chain_l d v h) (fchain d v f).
  Proof.
    intros Hh Hf x X1 X2. destruct (fchain_in f x X2) as (H2 & X3).
    destruct (heads_nodup v T (pend_of s v) (wf_heads _ _ _ W)) as (N1 & N2 & N3 & N4).
    assert (Hhs : In h (heads v T ++ pend_of s v)).
    { apply in_or_app. left. unfold heads. apply in_or_app.
      destruct Hh as [Hh|(e & ch & kids & Hn & <-)]; [left; exact Hh|right].
      apply (own_head_in T _ _ Hn). left. reflexivity. }
    pose proof (wf_l_disj d v _ h _ x W Hhs (ofile_in_hs f Hf H2) X1 X3) as E.
    destruct (ofile_head f Hf H2) as [(e0 & ch0 & Hn0 & Ec & _)|Hp].
    - assert (Hc0 : In (e_cluster (f_entry f)) (own_head (NFile e0 ch0))).
      { cbn [own_head]. rewrite Ec. apply N.leb_le in H2. rewrite H2. left. reflexivity. }
      destruct Hh as [Hh|(e & ch & kids & Hn & E2)].
      + apply (proj1 (N3 h Hh)). rewrite E. exact (own_head_in T _ _ Hn0 Hc0).
      + assert (Hc1 : In (e_cluster (f_entry f)) (own_head (NDir e ch kids)))
          by (cbn [own_head]; left; congruence).
        pose proof (flat_map_owner own_head _ N1 _ _ _ Hn Hn0 Hc1 Hc0) as Eq. discriminate Eq.
    - pose proof (pending_in f Hf Hp) as Hpend. rewrite <- E in Hpend.
      destruct Hh as [Hh|(e & ch & kids & Hn & E2)].
      + exact (proj2 (N3 h Hh) Hpend).
      + apply (N4 h); [|exact Hpend]. apply (own_head_in T _ _ Hn). left. exact E2.
  Qed.

  (* two open files share no cluster *)
  Lemma file_chains_apart i j fa fb : i <> j ->
    nth_error (s_files s) i = Some fa -> nth_error (s_files s) j = Some fb ->
    disjoint (fchain d v fa) (fchain d v fb).
  Proof.
    intros Hij Hi Hj x X1 X2.
    pose proof (nth_error_In _ _ Hi) as Hfa. pose proof (nth_error_In _ _ Hj) as Hfb.
    destruct (fchain_in fa x X1) as (A2 & A3). destruct (fchain_in fb x X2) as (B2 & B3).
    destruct (heads_nodup v T (pend_of s v) (wf_heads _ _ _ W)) as (N1 & N2 & N3 & N4).
    pose proof (wf_l_disj d v _ _ _ x W (ofile_in_hs fa Hfa A2) (ofile_in_hs fb Hfb B2) A3 B3) as E.
    destruct (ofile_head fa Hfa A2) as [(ea & cha & Hna & Eca & Eba & Eoa)|Hpa];
      destruct (ofile_head fb Hfb B2) as [(eb & chb & Hnb & Ecb & Ebb & Eob)|Hpb].
    - assert (Ha : In (e_cluster (f_entry fa)) (own_head (NFile ea cha))).
      { cbn [own_head]. rewrite Eca. apply N.leb_le in A2. rewrite A2. left. reflexivity. }
      assert (Hb : In (e_cluster (f_entry fa)) (own_head (NFile eb chb))).
      { cbn [own_head]. rewrite Ecb. apply N.leb_le in B2. rewrite B2. left. symmetry. exact E. }
      pose proof (flat_map_owner own_head _ N1 _ _ _ Hna Hnb Ha Hb) as Eq. injection Eq as -> _.
      apply Hij. pose proof (fi_fslots _ _ _ _ _ _ _ _ Hinv) as Hnd. rewrite NoDup_nth_error in Hnd.
      apply Hnd; [rewrite map_length; apply nth_error_Some; congruence|].
      rewrite !nth_error_map, Hi, Hj. cbn [option_map]. unfold slot_key. congruence.
    - apply (N4 (e_cluster (f_entry fa))).
      + apply (own_head_in T _ _ Hna). cbn [own_head]. rewrite Eca. apply N.leb_le in A2. rewrite A2. left. reflexivity.
      + rewrite E. exact (pending_in fb Hfb Hpb).
    - apply (N4 (e_cluster (f_entry fb))).
      + apply (own_head_in T _ _ Hnb). cbn [own_head]. rewrite Ecb. apply N.leb_le in B2. rewrite B2. left. reflexivity.
      + rewrite <- E. exact (pending_in fa Hfa Hpa).
    - apply Hij. exact (nodup_map_filter_nth (fun f0 => e_cluster (f_entry f0)) (is_pending d v) _ i j fa fb N2 Hi Hj Hpa Hpb E).
  Qed.

  (* the FAT16 root region holds no cluster *)
  Lemma root16_no_cluster blk c : v_fat32 v = false -> In blk (root16_blocks v) -> 2 <= c ->
    ~ In blk (cluster_blocks v c).
  Proof.
    intros E32 Hb Hc Hin. unfold root16_blocks in Hb. destruct (In_blocks_from _ _ _ Hb) as (k & Hk & ->).
    destruct (In_cluster_blocks _ _ _ Hin) as (k' & _ & Ek). unfold cluster_first_block in Ek.
    pose proof (PrBounds.pl_root _ _ _ (fi_layout _ _ _ _ _ _ _ _ Hinv)) as Hr. rewrite E32 in Hr.
    unfold PrBounds.root_size in Hr. destruct Hr as [_ Hr].
    remember ((c - 2) * v_spc v) as X. remember (from_bytes (v_root_entries v * 32)) as R.
    clear - Ek Hk Hr. lia.
  Qed.

  (* the blocks of a directory of the tree lie apart from the chains of the open files *)
  Lemma dir_blocks_home h ch blk (rs : list frep) :
    chain_at d v h ch ->
    In h (root_heads v) \/ (exists e ch0 kids, In (NDir e ch0 kids) (all_nodes T) /\ e_cluster e = h) ->
    In blk (data_blocks v ch) ->
    (forall r, In r rs -> exists f, In f (s_files s) /\ r_chain r = fchain d v f) ->
    blk_home s v rs blk.
  Proof.
    intros Hch Hh Hb Hrs. right. unfold data_blocks in Hb. apply in_flat_map in Hb. destruct Hb as (c0 & Hc0 & Hb).
    destruct (PrOpenClose.chain_of_suffix _ _ _ _ _ _ Hch Hc0) as (fu' & l' & Hl' & Hincl).
    exists c0, fu', l'. split; [exact Hb|]. split; [exact Hl'|].
    intros r Hr y Hy. destruct (Hrs r Hr) as (f & Hf & ->).
    apply (dir_chain_apart h f Hh Hf y). rewrite (chain_l_at _ _ _ _ Hch). exact (Hincl y Hy).
  Qed.

  Lemma root_blocks_home blk (rs : list frep) : In blk bl ->
    (forall r, In r rs -> exists f, In f (s_files s) /\ r_chain r = fchain d v f) ->
    blk_home s v rs blk.
  Proof.
    intros Hb Hrs. pose proof (di_root _ _ _ _ _ _ (fi_disk _ _ _ _ _ _ _ _ Hinv)) as Hroot.
    unfold root_dir in Hroot. destruct (v_fat32 v) eqn:E32.
    - destruct Hroot as (Hch & Ebl). rewrite Ebl in Hb.
      apply (dir_blocks_home (v_root_cluster v) rch blk rs Hch); try assumption.
      left. unfold root_heads. rewrite E32. left. reflexivity.
    - destruct Hroot as (_ & Ebl). rewrite Ebl in Hb. left. intros c Hc. exact (root16_no_cluster blk c E32 Hb Hc).
  Qed.

  (* the slot of a node of the tree lives in a directory block: its home *)
  Lemma node_block_home n (rs : list frep) : In n (all_nodes T) ->
    (forall r, In r rs -> exists f, In f (s_files s) /\ r_chain r = fchain d v f) ->
    blk_home s v rs (e_block (node_entry n)).
  Proof.
    intros Hn Hrs. destruct (all_nodes_rep d v bl T HT n Hn) as (t & bl' & Hr & Ht & Hbl').
    destruct (node_rep_slot d v bl' n t Hr Ht) as (Hb & _).
    destruct Hbl' as [Ebl|(e & ch & kids & Hnd & -> & Hch)].
    - rewrite Ebl in Hb. exact (root_blocks_home _ rs Hb Hrs).
    - apply (dir_blocks_home (e_cluster e) ch _ rs Hch); try assumption.
      right. exists e, ch, kids. split; [exact Hnd|reflexivity].
  Qed.

  Lemma reps_chains r : In r (reps_of s v) -> exists f, In f (s_files s) /\ r_chain r = fchain d v f.
  Proof.
    intros Hr. destruct (In_reps_of s v r Hr) as (j & f & Hj & ->). exists f.
    split; [exact (nth_error_In _ _ Hj)|reflexivity].
  Qed.

  Lemma file_rep_of fi f : nth_error (s_files s) fi = Some f ->
    file_rep fsz (negb (mode_eqb (f_mode f) ReadOnly)) (f_id f) s (m_af (member_of s v f)) fi f vi v (fchain d v f).
  Proof.
    intros Hfi. pose proof (ofile_of f (nth_error_In _ _ Hfi)) as [O1 O2 O3 O4 O5 O6 O7 O8 _].
    pose proof (fi_vol _ _ _ _ _ _ _ _ Hinv) as (Hl & Hpre & Hfit & Hspc & Hwf & Hfind).
    constructor; try assumption.
    - split; [exact Hl|]. split; [|exact Hfi].
      pose proof (find_idx_unique f_id (s_files s) fi 0 f (fi_fids _ _ _ _ _ _ _ _ Hinv) Hfi) as E.
      exact E.
    - rewrite O1. exact Hfind.
    - rewrite negb_involutive. reflexivity.
    - reflexivity.
    - reflexivity.
  Qed.

  Theorem fs_inv_at_lc_rep : lc_rep fsz s vi v (members_of s v) (reps_of s v).
  Proof.
    split; [|split; [|split; [exact (fi_vol _ _ _ _ _ _ _ _ Hinv)|split;
      [exact (fi_info _ _ _ _ _ _ _ _ Hinv)|exact (fi_fids _ _ _ _ _ _ _ _ Hinv)]]]].
    - split; [|split].
      + unfold members_of, reps_of.
        assert (G : forall l i, (forall j f, nth_error l j = Some f -> nth_error (s_files s) (i + j) = Some f) ->
                    Forall2 (member_rep fsz s vi v) (map (member_of s v) l) (reps_from (s_disk s) v i l)).
        { induction l as [|f l IH]; intros i Hl; [constructor|]. cbn [map reps_from]. constructor.
          - unfold member_rep. cbn [m_wr m_handle fst snd r_chain member_of].
            apply (file_rep_of i f). rewrite <- (Nat.add_0_r i). exact (Hl 0%nat f eq_refl).
          - apply IH. intros j f0 Hj. replace (S i + j)%nat with (i + S j)%nat by lia. exact (Hl (S j) f0 Hj). }
        apply G. intros j f Hj. exact Hj.
      + intros i j a b Hij Ha Hb. unfold reps_of in Ha, Hb. rewrite nth_reps_from in Ha, Hb.
        destruct (nth_error (s_files s) i) as [fa|] eqn:Ei; [|discriminate].
        destruct (nth_error (s_files s) j) as [fb|] eqn:Ej; [|discriminate].
        injection Ha as <-. injection Hb as <-. cbn [r_chain snd].
        exact (file_chains_apart i j fa fb Hij Ei Ej).
      + unfold members_of. rewrite map_map. cbn [m_handle member_of fst]. exact (fi_fids _ _ _ _ _ _ _ _ Hinv).
    - apply Forall_forall. intros r Hr. destruct (In_reps_of s v r Hr) as (j & f & Hj & ->).
      pose proof (ofile_of f (nth_error_In _ _ Hj)) as Hof. split; cbn [fst snd].
      + exact (of_slot _ _ _ _ Hof).
      + destruct (of_node _ _ _ _ Hof) as (e0 & ch0 & Hn & Eb & _). rewrite <- Eb.
        exact (node_block_home (NFile e0 ch0) _ Hn reps_chains).
  Qed.
End LcInv.

Theorem fs_inv_lc_inv fsz vid s : fs_inv fsz vid s ->
  exists v, s_vols s = [v] /\ lc_inv fsz vid s (members_of s v).
Proof.
  intros (vi & v & bl & rch & T & Hinv). exists v. split; [exact (fi_single _ _ _ _ _ _ _ _ Hinv)|].
  exists vi, v, (reps_of s v). split; [exact (fs_inv_at_lc_rep fsz vid s vi v bl rch T Hinv)|].
  exact (fi_vid _ _ _ _ _ _ _ _ Hinv).
Qed.

Print Assumptions fs_inv_lc_inv.

(* ================================================================== 4c. consequences: allocation hypotheses, FAT invariant, C05 *)
Theorem fs_inv_alloc_pre fsz vid s : fs_inv fsz vid s ->
  exists vi v, s_vols s = [v] /\ v_id v = vid /\ alloc_pre s vi v fsz /\ link_ok v /\
               find_idx (fun w => v_id w =? vid) (s_vols s) 0 = Some vi.
Proof.
  intros (vi & v & bl & rch & T & H). exists vi, v.
  destruct (fi_vol _ _ _ _ _ _ _ _ H) as (_ & Hpre & Hfit & _ & _ & Hfind).
  split; [exact (fi_single _ _ _ _ _ _ _ _ H)|]. split; [exact (fi_vid _ _ _ _ _ _ _ _ H)|].
  split; [exact Hpre|]. split; [exact Hfit|]. rewrite <- (fi_vid _ _ _ _ _ _ _ _ H). exact Hfind.
Qed.

(* PrWf's history invariant holds for the heads of the tree plus the pending heads *)
Theorem fs_inv_fat_inv fsz vid s vi v bl rch T : fs_inv_at fsz vid s vi v bl rch T ->
  fat_inv vi fsz v s (heads v T ++ pend_of s v) /\ link_ok v.
Proof.
  intros H. destruct (fi_vol _ _ _ _ _ _ _ _ H) as (_ & Hpre & Hfit & _).
  split; [|exact Hfit]. exists v. split; [apply geo_eq_refl|]. split; [exact Hpre|].
  exact (di_wf _ _ _ _ _ _ (fi_disk _ _ _ _ _ _ _ _ H)).
Qed.

(* the chain of a node is the chain of its head *)
Lemma node_chain_head d v bl T : tree_rep d v bl T -> forall n, In n (all_nodes T) ->
  (node_chain n = [] /\ own_head n = []) \/
  (exists h, own_head n = [h] /\ h = e_cluster (node_entry n) /\ chain_at d v h (node_chain n)).
Proof.
  intros HT n Hn. destruct (all_nodes_rep d v bl T HT n Hn) as (t & bl' & Hr & _).
  destruct n as [e ch|e ch kids]; cbn [node_chain own_head node_entry].
  - apply node_rep_file in Hr. destruct Hr as (_ & _ & [(A & fu & B)|(A & ->)]).
    + right. exists (e_cluster e). apply N.leb_le in A. rewrite A. split; [reflexivity|]. split; [reflexivity|].
      exact (chain_of_walk_fuel _ _ _ _ _ B).
    + left. split; [reflexivity|]. apply N.leb_gt in A. rewrite A. reflexivity.
  - apply node_rep_dir in Hr. destruct Hr as (_ & _ & A & _). right. exists (e_cluster e). auto.
Qed.

Lemma all_chains_nodes d v bl T : tree_rep d v bl T ->
  all_chains d v (flat_map node_heads T) = flat_map node_chain (all_nodes T).
Proof.
  intros HT. rewrite heads_all_nodes. unfold all_chains.
  assert (G : forall L, (forall n, In n L -> In n (all_nodes T)) ->
            flat_map (chain_l d v) (flat_map own_head L) = flat_map node_chain L).
  { induction L as [|n L IH]; intros HL; [reflexivity|]. cbn [flat_map]. rewrite flat_map_app.
    rewrite IH by (intros m Hm; apply HL; right; exact Hm). f_equal.
    destruct (node_chain_head d v bl T HT n (HL n (or_introl eq_refl))) as [(A & B)|(h & A & _ & B)].
    - rewrite A, B. reflexivity.
    - rewrite A. cbn [flat_map]. rewrite app_nil_r. exact (chain_l_at _ _ _ _ B). }
  apply G. auto.
Qed.

(* C05: the clusters marked in use in the FAT are exactly - as lists without repetition, up to
   order - the clusters of the root chain (FAT32), of the chains of all nodes of the tree, and of
   the pending chains of the open files *)
Theorem fs_inv_C05_pending fsz vid s vi v bl rch T : fs_inv_at fsz vid s vi v bl rch T ->
  Permutation (used_list (s_disk s) v)
              (rch ++ flat_map node_chain (all_nodes T) ++ all_chains (s_disk s) v (pend_of s v)).
Proof.
  intros H. pose proof (fi_disk _ _ _ _ _ _ _ _ H) as [Hroot HT _ _ W _].
  rewrite (wf_used_perm _ _ _ W). unfold all_chains, heads. rewrite !flat_map_app.
  fold (all_chains (s_disk s) v (flat_map node_heads T)). rewrite (all_chains_nodes _ _ _ _ HT).
  replace (flat_map (chain_l (s_disk s) v) (root_heads v)) with rch; [rewrite <- app_assoc; apply Permutation_refl|].
  unfold root_dir in Hroot. unfold root_heads. destruct (v_fat32 v).
  - destruct Hroot as (A & _). cbn [flat_map]. rewrite app_nil_r. symmetry. exact (chain_l_at _ _ _ _ A).
  - destruct Hroot as (-> & _). reflexivity.
Qed.

(* ... with no file open: the chains of the live files and directories *)
Theorem fs_inv_C05 fsz vid s vi v bl rch T : fs_inv_at fsz vid s vi v bl rch T -> s_files s = [] ->
  Permutation (used_list (s_disk s) v) (all_chains (s_disk s) v (heads v T)) /\
  Permutation (used_list (s_disk s) v) (rch ++ flat_map node_chain (all_nodes T)).
Proof.
  intros H Hf. split.
  - pose proof (di_wf _ _ _ _ _ _ (fi_disk _ _ _ _ _ _ _ _ H)) as W.
    unfold pend_of in W. rewrite Hf in W. cbn [filter map] in W. rewrite app_nil_r in W.
    exact (wf_used_perm _ _ _ W).
  - pose proof (fs_inv_C05_pending fsz vid s vi v bl rch T H) as P.
    unfold pend_of in P. rewrite Hf in P. cbn [filter map all_chains flat_map] in P. rewrite app_nil_r in P. exact P.
Qed.

Print Assumptions fs_inv_C05.

(* ================================================================== 6. the decider for the disk-level part *)
Definition clean_tail_b (l : list tslot) : bool := forallb t_is_end (after_end l).

Fixpoint nodup_lb (l : list (list N)) : bool :=
  match l with
  | [] => true
  | x :: r => negb (existsb (list_eqb x) r) && nodup_lb r
  end.

Definition no_dots_b (l : list tslot) : bool := forallb (fun t => negb (short_slot t) || negb (dot_slot t)) l.
Definition dot_entry_b (fat32 : bool) (t : tslot) (nm : list N) (c : N) : bool :=
  short_slot t && list_eqb (t_name t) nm && is_directory (t_attr t) && (e_cluster (t_entry fat32 t) =? c).
Definition dots_ok_b (fat32 : bool) (own parent : N) (l : list tslot) : bool :=
  if own =? CL_ROOT then no_dots_b l
  else match l with
       | t0 :: t1 :: rest =>
           dot_entry_b fat32 t0 THIS_DIR_NAME own && dot_entry_b fat32 t1 PARENT_DIR_NAME parent && no_dots_b rest
       | _ => false
       end.

Definition dir_ok_b (d : disk) (v : vol) (own parent : N) (bl : list N) : bool :=
  clean_tail_b (slots_of d bl) &&
  nodup_lb (map t_name (dir_shorts d bl)) &&
  dots_ok_b (v_fat32 v) own parent (dir_live d bl).

Fixpoint node_ok_b (d : disk) (v : vol) (parent : N) (n : node) {struct n} : bool :=
  match n with
  | NFile e ch => (e_size e <=? N.of_nat (length ch) * bytes_per_cluster v) && (e_size e <? U32)
  | NDir e ch kids =>
      dir_ok_b d v (e_cluster e) parent (data_blocks v ch) &&
      (fix allb (ks : list node) : bool :=
         match ks with [] => true | k :: ks' => node_ok_b d v (e_cluster e) k && allb ks' end) kids
  end.

Fixpoint nodup_pb (l : list (N * N)) : bool :=
  match l with
  | [] => true
  | p :: r => negb (existsb (fun q => (fst p =? fst q) && (snd p =? snd q)) r) && nodup_pb r
  end.

(* depth = fuel for the depth of the tree; pend = the pending heads of the open files *)
Definition disk_inv_b (depth : nat) (d : disk) (v : vol) (pend : list N) : bool :=
  match root_of d v with
  | None => false
  | Some (bl, rch) =>
      match tree_of depth d v bl with
      | None => false
      | Some T =>
          dir_ok_b d v CL_ROOT CL_ROOT bl && forallb (node_ok_b d v CL_ROOT) T &&
          fat_wf_b d v (heads v T ++ pend) && nodup_pb (map node_pos (all_nodes T))
      end
  end.

(* the volume record: layout of the partition, 32-bit device *)
Definition vol_inv_b (v : vol) (fsz : N) : bool :=
  PrBounds.part_layoutb v (v_nblocks v) fsz && (v_lba v + v_nblocks v <? U32).

Definition fs_inv_b (depth : nat) (fsz : N) (d : disk) (v : vol) (pend : list N) : bool :=
  vol_inv_b v fsz && disk_inv_b depth d v pend.

(* ---- soundness ---- *)
Lemma clean_tail_b_ok l : clean_tail_b l = true -> clean_tail l.
Proof. unfold clean_tail_b, clean_tail. rewrite forallb_forall, Forall_forall. trivial. Qed.

Lemma nodup_lb_ok l : nodup_lb l = true -> NoDup l.
Proof.
  induction l as [|x r IH]; intros H; [constructor|]. cbn [nodup_lb] in H.
  apply andb_true_iff in H. destruct H as [H1 H2]. constructor; [|exact (IH H2)].
  intros Hin. apply negb_true_iff in H1.
  assert (E : existsb (list_eqb x) r = true) by (apply existsb_exists; exists x; split; [exact Hin|apply list_eqb_refl]).
  congruence.
Qed.

Lemma no_dots_b_ok l : no_dots_b l = true -> no_dots l.
Proof.
  unfold no_dots_b, no_dots. rewrite forallb_forall, Forall_forall. intros H t Ht Hs.
  specialize (H t Ht). rewrite Hs in H. cbn [negb orb] in H. apply negb_true_iff in H. exact H.
Qed.

Lemma dot_entry_b_ok fat32 t nm c : dot_entry_b fat32 t nm c = true -> dot_entry fat32 t nm c.
Proof.
  unfold dot_entry_b, dot_entry. rewrite !andb_true_iff. intros (((A & B) & C) & D).
  split; [exact A|]. split; [exact (list_eqb_true _ _ B)|]. split; [exact C|apply N.eqb_eq; exact D].
Qed.

Lemma dots_ok_b_ok fat32 own parent l : dots_ok_b fat32 own parent l = true -> dots_ok fat32 own parent l.
Proof.
  unfold dots_ok_b, dots_ok. destruct (own =? CL_ROOT); [apply no_dots_b_ok|].
  destruct l as [|t0 [|t1 rest]]; try discriminate. rewrite !andb_true_iff. intros ((A & B) & C).
  exists t0, t1, rest. split; [reflexivity|]. split; [exact (dot_entry_b_ok _ _ _ _ A)|].
  split; [exact (dot_entry_b_ok _ _ _ _ B)|exact (no_dots_b_ok _ C)].
Qed.

Lemma dir_ok_b_ok d v own parent bl : dir_ok_b d v own parent bl = true -> dir_ok d v own parent bl.
Proof.
  unfold dir_ok_b. rewrite !andb_true_iff. intros ((A & B) & D). constructor.
  - exact (clean_tail_b_ok _ A).
  - exact (nodup_lb_ok _ B).
  - exact (dots_ok_b_ok _ _ _ _ D).
Qed.

Lemma node_ok_b_ok d v : forall n p, node_ok_b d v p n = true -> node_ok d v p n.
Proof.
  induction n as [e ch|e ch kids IH] using node_ind'; intros p H.
  - apply node_ok_file. cbn [node_ok_b] in H. apply andb_true_iff in H. destruct H as [A B].
    split; [apply N.leb_le; exact A|apply N.ltb_lt; exact B].
  - apply node_ok_dir. cbn [node_ok_b] in H. apply andb_true_iff in H. destruct H as [A B].
    split; [exact (dir_ok_b_ok _ _ _ _ _ A)|].
    induction IH as [|k ks Hk _ IHks]; [constructor|].
    apply andb_true_iff in B. destruct B as [B1 B2]. constructor; [exact (Hk _ B1)|exact (IHks B2)].
Qed.

Lemma nodup_pb_ok l : nodup_pb l = true -> NoDup l.
Proof.
  induction l as [|p r IH]; intros H; [constructor|]. cbn [nodup_pb] in H.
  apply andb_true_iff in H. destruct H as [H1 H2]. constructor; [|exact (IH H2)].
  intros Hin. apply negb_true_iff in H1.
  assert (E : existsb (fun q => (fst p =? fst q) && (snd p =? snd q)) r = true)
    by (apply existsb_exists; exists p; split; [exact Hin|rewrite !N.eqb_refl; reflexivity]).
  congruence.
Qed.

Theorem disk_inv_b_sound depth d v pend : disk_inv_b depth d v pend = true ->
  exists bl rch T, root_of d v = Some (bl, rch) /\ tree_of depth d v bl = Some T /\ disk_inv d v bl rch T pend.
Proof.
  unfold disk_inv_b. destruct (root_of d v) as [[bl rch]|] eqn:Er; [|discriminate].
  destruct (tree_of depth d v bl) as [T|] eqn:Et; [|discriminate].
  rewrite !andb_true_iff. intros (((A & B) & C) & D). exists bl, rch, T. split; [reflexivity|]. split; [exact Et|].
  constructor; [| | | | |exact (nodup_pb_ok _ D)].
  - exact (root_of_sound d v bl rch Er).
  - exact (tree_of_sound depth d v bl T Et).
  - exact (dir_ok_b_ok _ _ _ _ _ A).
  - rewrite forallb_forall in B. apply Forall_forall. intros n Hn. exact (node_ok_b_ok d v n _ (B n Hn)).
  - apply fat_wf_b_spec. exact C.
Qed.

(* the information sector of a laid-out FAT32 volume is neither a FAT sector nor a data block *)
Lemma part_layout_info_ok v total fsz : PrBounds.part_layout v total fsz -> info_ok v.
Proof.
  intros L. apply info_ok_intro. intros E32. destruct (PrBounds.pl_info _ _ _ L E32) as [I1 I2].
  pose proof (PrBounds.layout_order v total fsz L) as (O1 & O2 & _ & O4 & _).
  split; [|lia]. intros (c & _ & Ej). remember (c * fat_w v / 512) as q. lia.
Qed.

Theorem vol_inv_b_sound v fsz : vol_inv_b v fsz = true ->
  PrBounds.part_layout v (v_nblocks v) fsz /\ v_lba v + v_nblocks v < U32 /\
  fat_layout v fsz /\ clusters_fit v /\ 0 < v_spc v /\ info_ok v.
Proof.
  unfold vol_inv_b. rewrite andb_true_iff. intros [A B]. apply PrBounds.part_layoutb_ok in A. apply N.ltb_lt in B.
  split; [exact A|]. split; [exact B|]. split; [exact (PrBounds.part_layout_fat_layout _ _ _ A B)|].
  split; [exact (PrBounds.part_layout_fit _ _ _ A)|].
  split; [pose proof (PrBounds.pl_spc _ _ _ A); lia|exact (part_layout_info_ok _ _ _ A)].
Qed.

(* the soundness lemma of the decider: a volume record and an image that pass it satisfy the
   disk-level part of fs_inv (for the pending heads given) *)
Theorem fs_inv_b_sound depth fsz d v pend : fs_inv_b depth fsz d v pend = true ->
  (PrBounds.part_layout v (v_nblocks v) fsz /\ v_lba v + v_nblocks v < U32 /\
   fat_layout v fsz /\ clusters_fit v /\ 0 < v_spc v /\ info_ok v) /\
  exists bl rch T, disk_inv d v bl rch T pend.
Proof.
  unfold fs_inv_b. rewrite andb_true_iff. intros [A B]. split; [exact (vol_inv_b_sound v fsz A)|].
  destruct (disk_inv_b_sound depth d v pend B) as (bl & rch & T & _ & _ & H). exists bl, rch, T. exact H.
Qed.

Print Assumptions fs_inv_b_sound.

(* ================================================================== 5c-0. the FAT invariant does not depend on the order of the heads *)
Theorem fat_wf_perm d v hs hs' : Permutation hs hs' -> fat_wf d v hs -> fat_wf d v hs'.
Proof.
  intros P [A B C D].
  assert (I : forall x, In x hs' <-> In x hs)
    by (intros x; split; [apply Permutation_in; apply Permutation_sym; exact P|apply Permutation_in; exact P]).
  constructor.
  - intros h Hh. apply A. apply I. exact Hh.
  - exact (Permutation_NoDup P B).
  - intros h1 h2 ch1 ch2 c H1 H2. apply C; apply I; assumption.
  - intros c C1 C2. rewrite (D c C1 C2). unfold reachable.
    split; intros (h & ch & X & Y); exists h, ch; (split; [apply I; exact X|exact Y]) || (split; [apply I in X; exact X|exact Y]).
Qed.

(* ================================================================== 5b. FRAME: one 32-byte slot of one block changes *)
(* PrEntry.slot_write d d' blk i new: d' is d with slot i of block blk replaced by `new`.
   U = PrEntry.upd_slot blk (i * 32) new maps the slots of d to the slots of d'. *)
Lemma filter_map_pres {A} (q : A -> bool) (g : A -> A) l :
  (forall t, In t l -> q (g t) = q t) -> filter q (map g l) = map g (filter q l).
Proof.
  induction l as [|x l IH]; intros H; [reflexivity|]. cbn [map filter].
  rewrite (H x (or_introl eq_refl)). destruct (q x); cbn [map]; rewrite IH; auto;
    intros t Ht; apply H; right; exact Ht.
Qed.

Lemma after_end_map (g : tslot -> tslot) l :
  (forall t, In t l -> t_is_end (g t) = t_is_end t) -> after_end (map g l) = map g (after_end l).
Proof.
  induction l as [|x l IH]; intros H; [reflexivity|]. cbn [map after_end].
  rewrite (H x (or_introl eq_refl)). destruct (t_is_end x); [reflexivity|].
  apply IH. intros t Ht. apply H. right. exact Ht.
Qed.

Section SlotWrite.
  Variables (d d' : disk) (blk i : N) (new : list N).
  Hypothesis Hsw : slot_write d d' blk i new.
  Local Notation old := (slot (disk_get d blk) i).
  Local Notation U := (upd_slot blk (i * 32) new).

  (* a slot of d is untouched, or it is the old slot at the position written *)
  Lemma U_cases bl t : In t (slots_of d bl) -> U t = t \/ (t = (blk, i * 32, old) /\ U t = (blk, i * 32, new)).
  Proof.
    intros Ht. destruct (In_slots_of d bl t Ht) as (b & j & _ & Hj & ->).
    unfold upd_slot. cbn [fst snd].
    destruct (N.eqb_spec b blk) as [->|Hne]; [|left; reflexivity]. cbn [andb].
    destruct (N.eqb_spec (j * 32) (i * 32)) as [E|E]; [|left; reflexivity].
    right. assert (j = i) by lia. subst j. split; reflexivity.
  Qed.

  Lemma U_pres (q : tslot -> bool) bl : q (blk, i * 32, new) = q (blk, i * 32, old) ->
    forall t, In t (slots_of d bl) -> q (U t) = q t.
  Proof. intros Hq t Ht. destruct (U_cases bl t Ht) as [->|(-> & ->)]; [reflexivity|exact Hq]. Qed.

  Lemma live_in_slots bl t : In t (dir_live d bl) -> In t (slots_of d bl).
  Proof. intros H. exact (proj1 (In_before_end_all _ _ H)). Qed.

  Section SameEnd.
    Hypothesis Hend : is_end new = is_end old.

    Lemma dir_live_upd bl : dir_live d' bl = map U (dir_live d bl).
    Proof.
      unfold dir_live. rewrite (slots_of_upd d d' blk i new bl Hsw). apply before_end_all_map.
      apply (U_pres t_is_end bl). exact Hend.
    Qed.

    Lemma clean_tail_upd bl : clean_tail (slots_of d bl) -> clean_tail (slots_of d' bl).
    Proof.
      unfold clean_tail. rewrite (slots_of_upd d d' blk i new bl Hsw).
      rewrite after_end_map by (apply (U_pres t_is_end bl); exact Hend).
      rewrite !Forall_forall. intros H t Ht. apply in_map_iff in Ht. destruct Ht as (t0 & <- & Ht0).
      assert (Hin : In t0 (slots_of d bl)).
      { clear - Ht0. induction (slots_of d bl) as [|x l IH]; [destruct Ht0|]. cbn [after_end] in Ht0.
        destruct (t_is_end x); [exact Ht0|right; exact (IH Ht0)]. }
      cbv beta. rewrite (U_pres t_is_end bl Hend t0 Hin). exact (H t0 Ht0).
    Qed.

    Lemma dir_filter_upd (q : tslot -> bool) bl : q (blk, i * 32, new) = q (blk, i * 32, old) ->
      filter q (dir_live d' bl) = map U (filter q (dir_live d bl)).
    Proof.
      intros Hq. rewrite dir_live_upd. apply filter_map_pres. intros t Ht.
      exact (U_pres q bl Hq t (live_in_slots bl t Ht)).
    Qed.

    (* ---- (i) a node slot is rewritten as a node slot with the same name ---- *)
    Hypothesis Hold : node_slot (blk, i * 32, old) = true.
    Hypothesis Hnew : node_slot (blk, i * 32, new) = true.

    Lemma dir_nodes_upd bl : dir_nodes d' bl = map U (dir_nodes d bl).
    Proof. unfold dir_nodes. apply dir_filter_upd. rewrite Hold, Hnew. reflexivity. Qed.

    Lemma short_of_node t : node_slot t = true -> short_slot t = true /\ dot_slot t = false.
    Proof. unfold node_slot. rewrite andb_true_iff, negb_true_iff. trivial. Qed.

    Lemma dir_shorts_upd bl : dir_shorts d' bl = map U (dir_shorts d bl).
    Proof.
      unfold dir_shorts. apply dir_filter_upd.
      rewrite (proj1 (short_of_node _ Hold)), (proj1 (short_of_node _ Hnew)). reflexivity.
    Qed.

    Lemma no_dots_upd bl l : (forall t, In t l -> In t (slots_of d bl)) -> no_dots l -> no_dots (map U l).
    Proof.
      unfold no_dots. rewrite !Forall_forall. intros Hl H t Ht. apply in_map_iff in Ht.
      destruct Ht as (t0 & <- & Ht0). destruct (U_cases bl t0 (Hl t0 Ht0)) as [->|(_ & ->)]; [exact (H t0 Ht0)|].
      intros _. exact (proj2 (short_of_node _ Hnew)).
    Qed.

    (* every directory stays sound when the new slot carries the old name *)
    Theorem dir_ok_replace v own parent bl : t_name (blk, i * 32, new) = t_name (blk, i * 32, old) ->
      dir_ok d v own parent bl -> dir_ok d' v own parent bl.
    Proof.
      intros Hname [A B D]. constructor.
      - exact (clean_tail_upd bl A).
      - rewrite dir_shorts_upd, map_map.
        replace (map (fun x => t_name (U x)) (dir_shorts d bl)) with (map t_name (dir_shorts d bl)); [exact B|].
        apply map_ext_in. intros t Ht. unfold dir_shorts in Ht. apply filter_In in Ht.
        destruct (U_cases bl t (live_in_slots bl t (proj1 Ht))) as [->|(-> & ->)]; [reflexivity|symmetry; exact Hname].
      - rewrite dir_live_upd. unfold dots_ok in *. destruct (own =? CL_ROOT).
        + exact (no_dots_upd bl _ (live_in_slots bl) D).
        + destruct D as (t0 & t1 & rest & El & D0 & D1 & Dr).
          assert (Hin : forall t, In t (dir_live d bl) -> In t (slots_of d bl)) by (apply live_in_slots).
          rewrite El in *. cbn [map].
          assert (Hdot : forall t nm c, In t (t0 :: t1 :: rest) -> dot_entry (v_fat32 v) t nm c ->
                     (nm = THIS_DIR_NAME \/ nm = PARENT_DIR_NAME) -> U t = t).
          { intros t nm c Ht (Hs & Hn & _) Hnm. destruct (U_cases bl t (Hin t Ht)) as [E|(-> & _)]; [exact E|].
            exfalso. destruct (short_of_node _ Hold) as [_ Hd]. unfold dot_slot in Hd. rewrite Hn in Hd.
            destruct Hnm as [-> | ->]; vm_compute in Hd; discriminate Hd. }
          exists t0, t1, (map U rest). split.
          { rewrite (Hdot t0 _ _ (or_introl eq_refl) D0 (or_introl eq_refl)).
            rewrite (Hdot t1 _ _ (or_intror (or_introl eq_refl)) D1 (or_intror eq_refl)). reflexivity. }
          split; [exact D0|]. split; [exact D1|].
          apply (no_dots_upd bl); [|exact Dr]. intros t Ht. apply Hin. right. right. exact Ht.
    Qed.
  End SameEnd.
End SlotWrite.

(* ---- the tree after a node slot was rewritten: the node at that position is replaced ---- *)
Definition pos_eqb (a b : N * N) : bool := (fst a =? fst b) && (snd a =? snd b).
Lemma pos_eqb_eq a b : pos_eqb a b = true <-> a = b.
Proof.
  destruct a as [a1 a2], b as [b1 b2]. unfold pos_eqb. cbn [fst snd].
  rewrite andb_true_iff, !N.eqb_eq. split; [intros [-> ->]; reflexivity|intros E; inversion E; auto].
Qed.

(* replace every node whose slot is at position p by n' (n' is not searched) *)
Fixpoint node_replace (p : N * N) (n' n : node) {struct n} : node :=
  if pos_eqb (node_pos n) p then n'
  else match n with
       | NFile _ _ => n
       | NDir e ch kids => NDir e ch (map (node_replace p n') kids)
       end.
Definition forest_replace (p : N * N) (n' : node) (T : list node) : list node := map (node_replace p n') T.

Lemma node_replace_hit p n' n : node_pos n = p -> node_replace p n' n = n'.
Proof. intros E. destruct n; cbn [node_replace]; rewrite (proj2 (pos_eqb_eq _ _) E); reflexivity. Qed.

Lemma node_replace_miss_file p n' e ch : node_pos (NFile e ch) <> p -> node_replace p n' (NFile e ch) = NFile e ch.
Proof.
  intros E. cbn [node_replace]. destruct (pos_eqb (node_pos (NFile e ch)) p) eqn:Ep; [|reflexivity].
  apply pos_eqb_eq in Ep. contradiction.
Qed.

Lemma node_replace_miss_dir p n' e ch kids : node_pos (NDir e ch kids) <> p ->
  node_replace p n' (NDir e ch kids) = NDir e ch (map (node_replace p n') kids).
Proof.
  intros E. cbn [node_replace]. destruct (pos_eqb (node_pos (NDir e ch kids)) p) eqn:Ep; [|reflexivity].
  apply pos_eqb_eq in Ep. contradiction.
Qed.

Lemma node_rep_pos d v n t : node_rep d v n t -> node_pos n = fst t.
Proof.
  intros H. unfold node_pos. rewrite (node_rep_entry d v n t H). destruct t as [[b o] sl]. reflexivity.
Qed.

Lemma Forall2_map2 {A B A' B'} (R : A -> B -> Prop) (R' : A' -> B' -> Prop) (f : A -> A') (g : B -> B') l1 l2 :
  Forall2 R l1 l2 -> (forall a b, In a l1 -> In b l2 -> R a b -> R' (f a) (g b)) ->
  Forall2 R' (map f l1) (map g l2).
Proof.
  induction 1 as [|x y l1 l2 Hxy _ IH]; intros H; cbn [map]; constructor.
  - apply H; [left; reflexivity|left; reflexivity|exact Hxy].
  - apply IH. intros a b Ha Hb. apply H; right; assumption.
Qed.

Section Replace.
  Variables (d d' : disk) (v : vol) (blk i : N) (new : list N) (n' : node).
  Hypothesis Hsw : slot_write d d' blk i new.
  Hypothesis Hnfat : ~ fat_area v blk.
  Local Notation old := (slot (disk_get d blk) i).
  Local Notation U := (upd_slot blk (i * 32) new).
  Local Notation p := (blk, i * 32).
  Hypothesis Hend : is_end new = is_end old.
  Hypothesis Hold : node_slot (blk, i * 32, old) = true.
  Hypothesis Hnew : node_slot (blk, i * 32, new) = true.
  Hypothesis Hn' : node_rep d' v n' (blk, i * 32, new).

  Lemma slot_write_fat : forall j, fat_area v j -> disk_get d' j = disk_get d j.
  Proof. intros j Hj. apply (proj1 Hsw). intros ->. exact (Hnfat Hj). Qed.

  Lemma U_by_pos n t : node_rep d v n t ->
    (node_pos n = p /\ U t = (blk, i * 32, new)) \/ (node_pos n <> p /\ U t = t).
  Proof.
    intros H. rewrite (node_rep_pos d v n t H). destruct t as [[b o] sl]. unfold upd_slot. cbn [fst snd].
    destruct (N.eqb_spec b blk) as [->|Hne]; cbn [andb].
    - destruct (N.eqb_spec o (i * 32)) as [->|Hne]; [left; split; reflexivity|right; split; [congruence|reflexivity]].
    - right. split; [congruence|reflexivity].
  Qed.

  Theorem node_rep_replace : forall n t, node_rep d v n t -> node_rep d' v (node_replace p n' n) (U t).
  Proof.
    induction n as [e ch|e ch kids IH] using node_ind'; intros t H.
    - destruct (U_by_pos _ _ H) as [(Ep & ->)|(Ep & ->)].
      + rewrite (node_replace_hit p n' _ Ep). exact Hn'.
      + rewrite (node_replace_miss_file p n' e ch Ep). apply node_rep_file in H. apply node_rep_file.
        destruct H as (A & B & C). split; [exact A|]. split; [exact B|].
        exact (entry_chain_ext d d' v e ch slot_write_fat C).
    - destruct (U_by_pos _ _ H) as [(Ep & ->)|(Ep & ->)].
      + rewrite (node_replace_hit p n' _ Ep). exact Hn'.
      + rewrite (node_replace_miss_dir p n' e ch kids Ep). apply node_rep_dir in H. apply node_rep_dir.
        destruct H as (A & B & C & D). split; [exact A|]. split; [exact B|].
        split; [exact (chain_at_ext d d' v _ _ slot_write_fat C)|].
        rewrite (dir_nodes_upd d d' blk i new Hsw Hend Hold Hnew).
        apply (Forall2_map2 _ _ _ _ _ _ D). intros k t' Hk _ Hr. rewrite Forall_forall in IH. exact (IH k Hk t' Hr).
  Qed.

  (* FRAME (b-i), the tree *)
  Theorem tree_rep_replace bl T : tree_rep d v bl T -> tree_rep d' v bl (forest_replace p n' T).
  Proof.
    unfold tree_rep, forest_replace. intros H. rewrite (dir_nodes_upd d d' blk i new Hsw Hend Hold Hnew).
    apply (Forall2_map2 _ _ _ _ _ _ H). intros k t' _ _ Hr. exact (node_rep_replace k t' Hr).
  Qed.

  Hypothesis Hname : t_name (blk, i * 32, new) = t_name (blk, i * 32, old).
  Hypothesis Hok' : forall par, node_ok d' v par n'.

  Theorem node_ok_replace : forall n par, node_ok d v par n -> node_ok d' v par (node_replace p n' n).
  Proof.
    induction n as [e ch|e ch kids IH] using node_ind'; intros par H.
    - cbn [node_replace]. destruct (pos_eqb (node_pos (NFile e ch)) p); [apply Hok'|exact H].
    - cbn [node_replace]. destruct (pos_eqb (node_pos (NDir e ch kids)) p); [apply Hok'|].
      apply node_ok_dir in H. apply node_ok_dir. destruct H as (A & B). split.
      + exact (dir_ok_replace d d' blk i new Hsw Hend Hold Hnew v _ _ _ Hname A).
      + rewrite Forall_forall in *. intros k Hk. apply in_map_iff in Hk. destruct Hk as (k0 & <- & Hk0).
        exact (IH k0 Hk0 _ (B k0 Hk0)).
  Qed.

  Theorem forest_ok_replace par T : Forall (node_ok d v par) T -> Forall (node_ok d' v par) (forest_replace p n' T).
  Proof.
    rewrite !Forall_forall. intros H k Hk. apply in_map_iff in Hk. destruct Hk as (k0 & <- & Hk0).
    exact (node_ok_replace k0 par (H k0 Hk0)).
  Qed.
End Replace.

(* ---- the node list of the new tree, when a LEAF is replaced by a leaf at the same position ---- *)
Section ReplaceNodes.
  Variables (pp : N * N) (n' : node).
  Hypothesis Hleaf' : node_kids n' = [].
  Local Notation R := (node_replace pp n').

  Lemma flatten_replace : forall n, (forall m, In m (flatten n) -> node_pos m = pp -> node_kids m = []) ->
    flatten (R n) = map R (flatten n).
  Proof.
    induction n as [e ch|e ch kids IH] using node_ind'; intros Hl.
    - cbn [flatten map]. cbn [node_replace]. destruct (pos_eqb (node_pos (NFile e ch)) pp).
      + destruct n'; cbn [node_kids] in Hleaf'; [reflexivity|subst; reflexivity].
      + reflexivity.
    - destruct (pos_eqb (node_pos (NDir e ch kids)) pp) eqn:Ep.
      + apply pos_eqb_eq in Ep. pose proof (Hl _ (flatten_self _) Ep) as Hk. cbn [node_kids] in Hk. subst kids.
        rewrite (node_replace_hit pp n' _ Ep). cbn [flatten flat_map map]. rewrite (node_replace_hit pp n' _ Ep).
        destruct n'; cbn [node_kids] in Hleaf'; [reflexivity|subst; reflexivity].
      + assert (Ep' : node_pos (NDir e ch kids) <> pp) by (intros E; apply pos_eqb_eq in E; congruence).
        rewrite (node_replace_miss_dir pp n' e ch kids Ep'). cbn [flatten map].
        rewrite (node_replace_miss_dir pp n' e ch kids Ep'). f_equal.
        assert (Hk : forall k, In k kids -> forall m, In m (flatten k) -> node_pos m = pp -> node_kids m = [])
          by (intros k Hk m Hm; apply Hl; exact (flatten_kid e ch kids k m Hk Hm)).
        clear Hl Ep Ep'. induction IH as [|k ks Hk0 _ IHks]; [reflexivity|].
        cbn [map flat_map]. rewrite map_app, Hk0 by (apply Hk; left; reflexivity).
        rewrite IHks by (intros k1 Hk1; apply Hk; right; exact Hk1). reflexivity.
  Qed.

  Lemma all_nodes_replace T : (forall m, In m (all_nodes T) -> node_pos m = pp -> node_kids m = []) ->
    all_nodes (forest_replace pp n' T) = map R (all_nodes T).
  Proof.
    unfold all_nodes, forest_replace. induction T as [|n T IH]; intros Hl; [reflexivity|].
    cbn [map flat_map]. rewrite map_app, flatten_replace, IH; [reflexivity| |].
    - intros m Hm. apply Hl. cbn [flat_map]. apply in_or_app. right. exact Hm.
    - intros m Hm. apply Hl. cbn [flat_map]. apply in_or_app. left. exact Hm.
  Qed.

  Hypothesis Hpos' : node_pos n' = pp.

  Lemma node_pos_replace n : node_pos (R n) = node_pos n.
  Proof.
    destruct (pos_eqb (node_pos n) pp) eqn:Ep.
    - apply pos_eqb_eq in Ep. rewrite (node_replace_hit pp n' n Ep). congruence.
    - destruct n; cbn [node_replace]; rewrite Ep; reflexivity.
  Qed.

  (* the positions are the same: di_pos is kept *)
  Lemma positions_replace T : (forall m, In m (all_nodes T) -> node_pos m = pp -> node_kids m = []) ->
    map node_pos (all_nodes (forest_replace pp n' T)) = map node_pos (all_nodes T).
  Proof. intros Hl. rewrite (all_nodes_replace T Hl), map_map. apply map_ext. exact node_pos_replace. Qed.

  Lemma own_head_replace_miss n : node_pos n <> pp -> own_head (R n) = own_head n.
  Proof.
    intros E. destruct n as [e ch|e ch kids].
    - rewrite (node_replace_miss_file pp n' e ch E). reflexivity.
    - rewrite (node_replace_miss_dir pp n' e ch kids E). reflexivity.
  Qed.

  (* the nodes of the new tree: n' (if the position occurs), and the old ones elsewhere *)
  Lemma In_all_nodes_replace T m : (forall m, In m (all_nodes T) -> node_pos m = pp -> node_kids m = []) ->
    In m (all_nodes T) -> In (R m) (all_nodes (forest_replace pp n' T)).
  Proof. intros Hl Hm. rewrite (all_nodes_replace T Hl). apply in_map. exact Hm. Qed.

  (* the heads: the old node at pp (unique, by di_pos) gives its heads away, the new one adds its own *)
  Lemma heads_replace_gen n0 : forall L, NoDup (map node_pos L) ->
    (forall m, In m L -> node_pos m = pp -> m = n0) ->
    In n0 L -> node_pos n0 = pp ->
    Permutation (own_head n0 ++ flat_map own_head (map R L)) (own_head n' ++ flat_map own_head L).
  Proof.
    induction L as [|a L IH]; intros Hnd Hu Hin Hp0; [destruct Hin|].
    cbn [map] in Hnd. apply NoDup_cons_iff in Hnd. destruct Hnd as [Hna Hnd']. cbn [map flat_map].
    destruct (pos_eqb (node_pos a) pp) eqn:Ea.
    - apply pos_eqb_eq in Ea. pose proof (Hu a (or_introl eq_refl) Ea) as ->.
      rewrite (node_replace_hit pp n' n0 Ea).
      assert (Hrest : flat_map own_head (map R L) = flat_map own_head L).
      { rewrite flat_map_concat_map, map_map, <- flat_map_concat_map. apply flat_map_ext_in'.
        intros m Hm. apply own_head_replace_miss. intros Em. apply Hna. rewrite Ea, <- Em. apply in_map. exact Hm. }
      rewrite Hrest. rewrite !app_assoc. apply Permutation_app_tail. apply Permutation_app_comm.
    - assert (Ea' : node_pos a <> pp) by (intros E; apply pos_eqb_eq in E; congruence).
      rewrite (own_head_replace_miss a Ea').
      destruct Hin as [->|Hin]; [contradiction|].
      specialize (IH Hnd' (fun m Hm => Hu m (or_intror Hm)) Hin Hp0).
      rewrite !app_assoc.
      apply (Permutation_trans (Permutation_app_tail _ (Permutation_app_comm (own_head n0) (own_head a)))).
      apply Permutation_sym.
      apply (Permutation_trans (Permutation_app_tail _ (Permutation_app_comm (own_head n') (own_head a)))).
      rewrite <- !app_assoc. apply Permutation_app_head. apply Permutation_sym. exact IH.
  Qed.

  Theorem heads_replace_perm v T n0 :
    NoDup (map node_pos (all_nodes T)) -> In n0 (all_nodes T) -> node_pos n0 = pp -> node_kids n0 = [] ->
    (forall m, In m (all_nodes T) -> node_pos m = pp -> m = n0) ->
    Permutation (own_head n0 ++ heads v (forest_replace pp n' T)) (own_head n' ++ heads v T).
  Proof.
    intros Hnd Hin Hp0 Hk0 Hu.
    assert (Hl : forall m, In m (all_nodes T) -> node_pos m = pp -> node_kids m = [])
      by (intros m Hm Em; rewrite (Hu m Hm Em); exact Hk0).
    unfold heads. rewrite !heads_all_nodes, (all_nodes_replace T Hl).
    pose proof (heads_replace_gen n0 (all_nodes T) Hnd Hu Hin Hp0) as P.
    rewrite !app_assoc.
    apply (Permutation_trans (Permutation_app_tail _ (Permutation_app_comm (own_head n0) (root_heads v)))).
    apply Permutation_sym.
    apply (Permutation_trans (Permutation_app_tail _ (Permutation_app_comm (own_head n') (root_heads v)))).
    rewrite <- !app_assoc. apply Permutation_app_head. apply Permutation_sym. exact P.
  Qed.
End ReplaceNodes.

(* with distinct positions, a position names at most one node *)
Lemma pos_unique L n m : NoDup (map node_pos L) -> In n L -> In m L -> node_pos n = node_pos m -> n = m.
Proof.
  induction L as [|a L IH]; intros Hnd Hn Hm E; [destruct Hn|].
  cbn [map] in Hnd. inversion Hnd as [|? ? Hna Hnd']; subst.
  destruct Hn as [->|Hn]; destruct Hm as [->|Hm]; try reflexivity.
  - exfalso. apply Hna. rewrite E. apply in_map. exact Hm.
  - exfalso. apply Hna. rewrite <- E. apply in_map. exact Hn.
  - exact (IH Hnd' Hn Hm E).
Qed.

Print Assumptions tree_rep_replace.
Print Assumptions heads_replace_perm.

(* FRAME (b-i), bundled: a node slot at (blk, i*32) that holds a LEAF (a file) is rewritten with
   the same name; n' is the node the new slot stands for.  The heads change as
   heads_replace_perm says; the caller shows fat_wf for the new head list (fat_wf_perm). *)
Theorem disk_inv_replace d d' v bl rch T pend pend' blk i new n' :
  disk_inv d v bl rch T pend -> slot_write d d' blk i new -> ~ fat_area v blk ->
  is_end new = is_end (slot (disk_get d blk) i) ->
  node_slot (blk, i * 32, slot (disk_get d blk) i) = true -> node_slot (blk, i * 32, new) = true ->
  t_name (blk, i * 32, new) = t_name (blk, i * 32, slot (disk_get d blk) i) ->
  node_rep d' v n' (blk, i * 32, new) -> (forall par, node_ok d' v par n') -> node_kids n' = [] ->
  (forall m, In m (all_nodes T) -> node_pos m = (blk, i * 32) -> node_kids m = []) ->
  fat_wf d v (heads v (forest_replace (blk, i * 32) n' T) ++ pend') ->
  disk_inv d' v bl rch (forest_replace (blk, i * 32) n' T) pend'.
Proof.
  intros [A B C D E F] Hsw Hnfat Hend Hold Hnew Hname Hn' Hok' Hleaf' Hleaf W'.
  pose proof (slot_write_fat d d' v blk i new Hsw Hnfat) as Hfat.
  constructor.
  - exact (root_dir_frame d d' v bl rch Hfat A).
  - exact (tree_rep_replace d d' v blk i new n' Hsw Hnfat Hend Hold Hnew Hn' bl T B).
  - exact (dir_ok_replace d d' blk i new Hsw Hend Hold Hnew v _ _ _ Hname C).
  - exact (forest_ok_replace d d' v blk i new n' Hsw Hend Hold Hnew Hname Hok' _ T D).
  - exact (fat_wf_ext d d' v _ Hfat W').
  - rewrite (positions_replace (blk, i * 32) n' Hleaf' (node_rep_pos d' v n' _ Hn') T Hleaf). exact F.
Qed.

(* ================================================================== 5b'. the directories of the tree and their blocks *)
(* the directory with handle cluster dc (CL_ROOT: the root), its blocks and its chain *)
Definition is_dir_of (v : vol) (bl rch : list N) (T : list node) (dc : N) (bld chd : list N) : Prop :=
  (dc = CL_ROOT /\ bld = bl /\ chd = rch) \/
  (exists e kids, In (NDir e chd kids) (all_nodes T) /\ e_cluster e = dc /\ bld = data_blocks v chd).

Lemma root16_no_cluster' v total fsz blk c : PrBounds.part_layout v total fsz -> v_fat32 v = false ->
  In blk (root16_blocks v) -> 2 <= c -> ~ In blk (cluster_blocks v c).
Proof.
  intros L E32 Hb Hc Hin. unfold root16_blocks in Hb. destruct (In_blocks_from _ _ _ Hb) as (k & Hk & ->).
  destruct (In_cluster_blocks _ _ _ Hin) as (k' & _ & Ek). unfold cluster_first_block in Ek.
  pose proof (PrBounds.pl_root _ _ _ L) as Hr. rewrite E32 in Hr.
  unfold PrBounds.root_size in Hr. destruct Hr as [_ Hr].
  remember ((c - 2) * v_spc v) as X. remember (from_bytes (v_root_entries v * 32)) as R.
  clear - Ek Hk Hr. lia.
Qed.

(* a block of the chain of head h1 and of the chain of head h2 (both heads of the invariant):
   the same head *)
Lemma chain_blocks_apart d v hs h1 h2 ch1 ch2 j : fat_wf d v hs -> In h1 hs -> In h2 hs ->
  chain_at d v h1 ch1 -> chain_at d v h2 ch2 ->
  In j (data_blocks v ch1) -> In j (data_blocks v ch2) -> h1 = h2.
Proof.
  intros W H1 H2 C1 C2 J1 J2. unfold data_blocks in J1, J2.
  apply in_flat_map in J1. destruct J1 as (c1 & X1 & J1). apply in_flat_map in J2. destruct J2 as (c2 & X2 & J2).
  destruct (chain_at_mem _ _ _ _ c1 C1 X1) as (A1 & _). destruct (chain_at_mem _ _ _ _ c2 C2 X2) as (A2 & _).
  assert (E : c1 = c2).
  { destruct (N.eq_dec c1 c2) as [E|Hne]; [exact E|]. exfalso.
    exact (cluster_blocks_apart v c1 c2 j j Hne A1 A2 J1 J2 eq_refl). }
  subst c2. apply (wf_l_disj d v hs h1 h2 c1 W H1 H2).
  - rewrite (chain_l_at _ _ _ _ C1). exact X1.
  - rewrite (chain_l_at _ _ _ _ C2). exact X2.
Qed.

Section Dirs.
  Variables (d : disk) (v : vol) (bl rch : list N) (T : list node) (pend : list N) (total fsz : N).
  Hypothesis Hdi : disk_inv d v bl rch T pend.
  Hypothesis Hlay : PrBounds.part_layout v total fsz.

  Lemma dir_node_chain e ch kids : In (NDir e ch kids) (all_nodes T) ->
    chain_at d v (e_cluster e) ch /\ In (e_cluster e) (heads v T ++ pend) /\
    Forall2 (node_rep d v) kids (dir_nodes d (data_blocks v ch)).
  Proof.
    intros Hn. destruct (all_nodes_rep d v bl T (di_tree _ _ _ _ _ _ Hdi) _ Hn) as (t & bl' & Hr & _).
    apply node_rep_dir in Hr. destruct Hr as (_ & _ & A & B). split; [exact A|]. split; [|exact B].
    apply in_or_app. left. unfold heads. apply in_or_app. right.
    apply (own_head_in T _ _ Hn). left. reflexivity.
  Qed.

  (* two directories that share a block are the same directory *)
  Theorem dirs_apart dc1 dc2 bld1 bld2 ch1 ch2 j :
    is_dir_of v bl rch T dc1 bld1 ch1 -> is_dir_of v bl rch T dc2 bld2 ch2 ->
    In j bld1 -> In j bld2 -> dc1 = dc2.
  Proof.
    pose proof (di_root _ _ _ _ _ _ Hdi) as Hroot. pose proof (di_wf _ _ _ _ _ _ Hdi) as W.
    destruct (heads_nodup v T pend (wf_heads _ _ _ W)) as (_ & _ & N3 & _).
    assert (Hrd : forall e ch kids jj, In (NDir e ch kids) (all_nodes T) -> In jj bl -> In jj (data_blocks v ch) -> False).
    { intros e ch kids jj Hn Hb Hc. destruct (dir_node_chain e ch kids Hn) as (Hch & Hin & _).
      unfold root_dir in Hroot. destruct (v_fat32 v) eqn:E32.
      - destruct Hroot as (Hrc & Ebl). rewrite Ebl in Hb.
        assert (Hr : In (v_root_cluster v) (heads v T ++ pend)).
        { apply in_or_app. left. unfold heads, root_heads. rewrite E32. left. reflexivity. }
        pose proof (chain_blocks_apart d v _ _ _ _ _ jj W Hr Hin Hrc Hch Hb Hc) as E.
        apply (proj1 (N3 (v_root_cluster v) ltac:(unfold root_heads; rewrite E32; left; reflexivity))).
        rewrite E. apply (own_head_in T _ _ Hn). left. reflexivity.
      - destruct Hroot as (_ & Ebl). rewrite Ebl in Hb. unfold data_blocks in Hc. apply in_flat_map in Hc.
        destruct Hc as (c & Hc & Hj). destruct (chain_at_mem _ _ _ _ c Hch Hc) as (A & _).
        exact (root16_no_cluster' v total fsz jj c Hlay E32 Hb A Hj). }
    intros [(-> & -> & ->)|(e1 & k1 & Hn1 & <- & ->)] [(-> & -> & ->)|(e2 & k2 & Hn2 & <- & ->)] J1 J2.
    - reflexivity.
    - exfalso. exact (Hrd _ _ _ j Hn2 J1 J2).
    - exfalso. exact (Hrd _ _ _ j Hn1 J2 J1).
    - destruct (dir_node_chain _ _ _ Hn1) as (C1 & I1 & _). destruct (dir_node_chain _ _ _ Hn2) as (C2 & I2 & _).
      exact (chain_blocks_apart d v _ _ _ _ _ j W I1 I2 C1 C2 J1 J2).
  Qed.

  (* a handle cluster names at most one directory *)
  Lemma is_dir_of_det dc b1 c1 b2 c2 : is_dir_of v bl rch T dc b1 c1 -> is_dir_of v bl rch T dc b2 c2 ->
    b1 = b2 /\ c1 = c2.
  Proof.
    assert (Hnr : forall e ch kids, In (NDir e ch kids) (all_nodes T) -> e_cluster e <> CL_ROOT).
    { intros e ch kids Hn E. destruct (dir_node_chain e ch kids Hn) as (Hch & _).
      destruct (chain_at_head _ _ _ _ Hch) as (r & ->).
      destruct (chain_at_mem _ _ _ _ (e_cluster e) Hch (or_introl eq_refl)) as (_ & A & _).
      pose proof (PrBounds.pl_count _ _ _ Hlay) as Hc. rewrite E in A. unfold CL_ROOT in A.
      destruct (v_fat32 v); lia. }
    intros [(E1 & -> & ->)|(e1 & k1 & Hn1 & E1 & ->)] [(E2 & -> & ->)|(e2 & k2 & Hn2 & E2 & ->)].
    - split; reflexivity.
    - exfalso. apply (Hnr _ _ _ Hn2). congruence.
    - exfalso. apply (Hnr _ _ _ Hn1). congruence.
    - destruct (dir_node_chain _ _ _ Hn1) as (C1 & _). destruct (dir_node_chain _ _ _ Hn2) as (C2 & _).
      rewrite E1, <- E2 in C1. pose proof (chain_at_det _ _ _ _ _ C1 C2) as ->. split; reflexivity.
  Qed.
End Dirs.

(* ================================================================== 5b''. the kids of ONE directory change *)
(* forest_upd_kids dc f T: the kid list of the directory with handle cluster dc (CL_ROOT: the top
   level) becomes f (old kid list).  Insert: f ks = firstn k ks ++ n' :: skipn k ks; delete:
   f ks = firstn k ks ++ skipn (S k) ks. *)
Section UpdKidsDef.
  Variables (dc : N) (f : list node -> list node).
  Fixpoint node_upd_kids (n : node) {struct n} : node :=
    match n with
    | NFile _ _ => n
    | NDir e ch kids =>
        NDir e ch (if e_cluster e =? dc then f (map node_upd_kids kids) else map node_upd_kids kids)
    end.
  Definition forest_upd_kids (T : list node) : list node :=
    if dc =? CL_ROOT then f (map node_upd_kids T) else map node_upd_kids T.
End UpdKidsDef.

Lemma Forall2_map_l {A B A'} (R : A -> B -> Prop) (R' : A' -> B -> Prop) (g : A -> A') l1 l2 :
  Forall2 R l1 l2 -> (forall a b, In a l1 -> R a b -> R' (g a) b) -> Forall2 R' (map g l1) l2.
Proof.
  induction 1 as [|x y l1 l2 Hxy _ IH]; intros H; cbn [map]; constructor.
  - apply H; [left; reflexivity|exact Hxy].
  - apply IH. intros a b Ha. apply H. right. exact Ha.
Qed.

Section UpdKids.
  Variables (dc : N) (f : list node -> list node) (d d' : disk) (v : vol) (Tall : list node).
  Hypothesis Hfat : forall j, fat_area v j -> disk_get d' j = disk_get d j.
  (* the blocks of the other directories are untouched *)
  Hypothesis Hother : forall e ch kids, In (NDir e ch kids) (all_nodes Tall) -> e_cluster e <> dc ->
    forall j, In j (data_blocks v ch) -> disk_get d' j = disk_get d j.
  (* the new listing of the directory dc, relative to any forest that stands for the old one *)
  Hypothesis Hdc : forall e ch kids, In (NDir e ch kids) (all_nodes Tall) -> e_cluster e = dc ->
    forall ks1, Forall2 (node_rep d' v) ks1 (dir_nodes d (data_blocks v ch)) ->
                Forall2 (node_rep d' v) (f ks1) (dir_nodes d' (data_blocks v ch)).

  Lemma node_rep_upd_kids : forall n, (forall m, In m (flatten n) -> In m (all_nodes Tall)) ->
    forall t, node_rep d v n t -> node_rep d' v (node_upd_kids dc f n) t.
  Proof.
    induction n as [e ch|e ch kids IH] using node_ind'; intros Hsub t H.
    - cbn [node_upd_kids]. apply node_rep_file in H. apply node_rep_file. destruct H as (A & B & C).
      split; [exact A|]. split; [exact B|]. exact (entry_chain_ext d d' v e ch Hfat C).
    - cbn [node_upd_kids]. apply node_rep_dir in H. destruct H as (A & B & C & D). apply node_rep_dir.
      split; [exact A|]. split; [exact B|]. split; [exact (chain_at_ext d d' v _ _ Hfat C)|].
      assert (K : Forall2 (node_rep d' v) (map (node_upd_kids dc f) kids) (dir_nodes d (data_blocks v ch))).
      { apply (Forall2_map_l _ _ _ _ _ D). intros k t' Hk Hr. rewrite Forall_forall in IH.
        apply (IH k Hk); [|exact Hr]. intros m Hm. apply Hsub. exact (flatten_kid e ch kids k m Hk Hm). }
      destruct (N.eqb_spec (e_cluster e) dc) as [E|E].
      + exact (Hdc e ch kids (Hsub _ (flatten_self _)) E _ K).
      + rewrite (dir_nodes_ext d d' (data_blocks v ch) (Hother e ch kids (Hsub _ (flatten_self _)) E)). exact K.
  Qed.

  Theorem tree_rep_upd_kids bl : tree_rep d v bl Tall ->
    (dc <> CL_ROOT -> forall j, In j bl -> disk_get d' j = disk_get d j) ->
    (dc = CL_ROOT -> forall ks1, Forall2 (node_rep d' v) ks1 (dir_nodes d bl) ->
                                 Forall2 (node_rep d' v) (f ks1) (dir_nodes d' bl)) ->
    tree_rep d' v bl (forest_upd_kids dc f Tall).
  Proof.
    intros HT Hr1 Hr2. unfold tree_rep, forest_upd_kids in *.
    assert (K : Forall2 (node_rep d' v) (map (node_upd_kids dc f) Tall) (dir_nodes d bl)).
    { apply (Forall2_map_l _ _ _ _ _ HT). intros k t' Hk Hr. apply (node_rep_upd_kids k); [|exact Hr].
      intros m Hm. apply in_flat_map. exists k. split; assumption. }
    destruct (N.eqb_spec dc CL_ROOT) as [E|E].
    - exact (Hr2 E _ K).
    - rewrite (dir_nodes_ext d d' bl (Hr1 E)). exact K.
  Qed.

  (* soundness of the directories: the other directories by the frame, the directory dc by the caller *)
  Hypothesis HokD : forall e ch kids par, In (NDir e ch kids) (all_nodes Tall) -> e_cluster e = dc ->
    dir_ok d v dc par (data_blocks v ch) -> dir_ok d' v dc par (data_blocks v ch).
  Hypothesis HokF : forall ks1, Forall (node_ok d' v dc) ks1 -> Forall (node_ok d' v dc) (f ks1).

  Lemma node_ok_upd_kids : forall n, (forall m, In m (flatten n) -> In m (all_nodes Tall)) ->
    forall par, node_ok d v par n -> node_ok d' v par (node_upd_kids dc f n).
  Proof.
    induction n as [e ch|e ch kids IH] using node_ind'; intros Hsub par H.
    - exact H.
    - cbn [node_upd_kids]. apply node_ok_dir in H. destruct H as (A & B). apply node_ok_dir.
      assert (K : Forall (node_ok d' v (e_cluster e)) (map (node_upd_kids dc f) kids)).
      { rewrite Forall_forall in *. intros k Hk. apply in_map_iff in Hk. destruct Hk as (k0 & <- & Hk0).
        apply (IH k0 Hk0); [|exact (B k0 Hk0)]. intros m Hm. apply Hsub. exact (flatten_kid e ch kids k0 m Hk0 Hm). }
      destruct (N.eqb_spec (e_cluster e) dc) as [E|E].
      + split; [rewrite E in *; exact (HokD e ch kids par (Hsub _ (flatten_self _)) E A)|].
        rewrite E in *. exact (HokF _ K).
      + split; [|exact K]. apply (dir_ok_frame d d' v); [|exact A].
        exact (Hother e ch kids (Hsub _ (flatten_self _)) E).
  Qed.

  Theorem forest_ok_upd_kids : Forall (node_ok d v CL_ROOT) Tall ->
    Forall (node_ok d' v CL_ROOT) (forest_upd_kids dc f Tall).
  Proof.
    intros H. unfold forest_upd_kids.
    assert (K : Forall (node_ok d' v CL_ROOT) (map (node_upd_kids dc f) Tall)).
    { rewrite Forall_forall in *. intros k Hk. apply in_map_iff in Hk. destruct Hk as (k0 & <- & Hk0).
      apply (node_ok_upd_kids k0); [|exact (H k0 Hk0)]. intros m Hm. apply in_flat_map. exists k0. split; assumption. }
    destruct (N.eqb_spec dc CL_ROOT) as [E|E]; [|exact K].
    assert (G : forall x, x = dc -> Forall (node_ok d' v x) (map (node_upd_kids dc f) Tall) ->
                Forall (node_ok d' v x) (f (map (node_upd_kids dc f) Tall))) by (intros x ->; apply HokF).
    exact (G CL_ROOT (eq_sym E) K).
  Qed.
End UpdKids.

(* ================================================================== 5b'''. the listing of ONE directory after a slot write *)
Lemma upd_slot_miss blk off new t : fst t <> (blk, off) -> upd_slot blk off new t = t.
Proof.
  destruct t as [[b o] sl]. unfold upd_slot. cbn [fst snd]. intros H.
  destruct (N.eqb_spec b blk) as [->|Hne]; [|reflexivity]. cbn [andb].
  destruct (N.eqb_spec o off) as [->|Hne]; [contradiction H; reflexivity|reflexivity].
Qed.

Lemma upd_slot_hit blk off new t : fst t = (blk, off) -> upd_slot blk off new t = (blk, off, new).
Proof.
  destruct t as [[b o] sl]. unfold upd_slot. cbn [fst snd]. intros E. injection E as -> ->.
  rewrite !N.eqb_refl. reflexivity.
Qed.

Lemma map_upd_split blk off new (a b : list tslot) t : fst t = (blk, off) ->
  (forall x, In x (a ++ b) -> fst x <> (blk, off)) ->
  map (upd_slot blk off new) (a ++ t :: b) = a ++ (blk, off, new) :: b.
Proof.
  intros Et Hn. rewrite map_app. cbn [map]. rewrite (upd_slot_hit blk off new t Et).
  assert (Hid : forall l, (forall x, In x l -> fst x <> (blk, off)) -> map (upd_slot blk off new) l = l).
  { induction l as [|x l IH]; intros H; [reflexivity|]. cbn [map].
    rewrite (upd_slot_miss blk off new x (H x (or_introl eq_refl))), IH; [reflexivity|].
    intros y Hy. apply H. right. exact Hy. }
  rewrite (Hid a), (Hid b); [reflexivity| |]; intros x Hx; apply Hn; apply in_or_app; [right|left]; exact Hx.
Qed.

(* the positions of the slots of a directory with distinct blocks are distinct *)
Lemma tslots_pos_nodup n b blk : forall i, NoDup (map fst (tslots_from n b blk i)).
Proof.
  induction n as [|n IH]; intros i; cbn [tslots_from map]; constructor; [|apply IH].
  intros Hin. apply in_map_iff in Hin. destruct Hin as (t & Et & Ht).
  apply In_tslots_from in Ht. destruct Ht as (j & Hj & _ & ->). cbn [fst] in Et. injection Et as E. lia.
Qed.

Lemma slots_pos_nodup d bl : NoDup bl -> NoDup (map fst (slots_of d bl)).
Proof.
  induction bl as [|b bl IH]; intros Hnd; [constructor|]. inversion Hnd as [|? ? Hb Hnd']; subst.
  rewrite slots_of_cons, map_app. apply nodup_app; [apply tslots_pos_nodup|exact (IH Hnd')|].
  intros x Hx Hx'. apply in_map_iff in Hx. destruct Hx as (t & <- & Ht).
  apply in_map_iff in Hx'. destruct Hx' as (t' & E & Ht').
  unfold block_slots in Ht. apply In_tslots_from in Ht. destruct Ht as (j & _ & _ & ->).
  destruct (In_slots_of d bl t' Ht') as (b' & j' & Hb' & _ & ->). cbn [fst] in E. injection E as -> _.
  exact (Hb Hb').
Qed.

Lemma before_end_prefix l : exists r, l = before_end_all l ++ r.
Proof.
  induction l as [|t l (r & IH)]; [exists []; reflexivity|]. cbn [before_end_all].
  destruct (t_is_end t); [exists (t :: l); reflexivity|]. exists r. cbn [app]. f_equal. exact IH.
Qed.

Lemma dir_live_pos_nodup d bl : NoDup bl -> NoDup (map fst (dir_live d bl)).
Proof.
  intros H. pose proof (slots_pos_nodup d bl H) as Hs. unfold dir_live.
  destruct (before_end_prefix (slots_of d bl)) as (r & E). rewrite E, map_app in Hs.
  exact (proj1 (nodup_app_inv _ _ Hs)).
Qed.

Lemma nodup_pos_split (l : list tslot) t : NoDup (map fst l) -> In t l ->
  exists a b, l = a ++ t :: b /\ forall x, In x (a ++ b) -> fst x <> fst t.
Proof.
  intros Hnd Hin. destruct (in_split _ _ Hin) as (a & b & ->). exists a, b. split; [reflexivity|].
  rewrite map_app in Hnd. cbn [map] in Hnd. apply NoDup_remove_2 in Hnd.
  intros x Hx E. apply Hnd. rewrite <- E, <- map_app. apply in_map. exact Hx.
Qed.

(* ---- a slot that is live (before the end marker) is rewritten by a non-end slot ---- *)
Theorem dir_live_split d d' blk i new bl :
  slot_write d d' blk i new -> NoDup bl ->
  In (blk, i * 32, slot (disk_get d blk) i) (dir_live d bl) -> is_end new = false ->
  exists a b, dir_live d bl = a ++ (blk, i * 32, slot (disk_get d blk) i) :: b /\
              dir_live d' bl = a ++ (blk, i * 32, new) :: b /\
              (forall x, In x (a ++ b) -> fst x <> (blk, i * 32)).
Proof.
  intros Hsw Hnd Hin Hne.
  assert (Hold : is_end (slot (disk_get d blk) i) = false).
  { unfold dir_live in Hin. apply In_before_end_all in Hin. exact (proj2 Hin). }
  destruct (nodup_pos_split _ _ (dir_live_pos_nodup d bl Hnd) Hin) as (a & b & E & Hn). cbn [fst] in Hn.
  exists a, b. split; [exact E|]. split; [|exact Hn].
  rewrite (dir_live_upd d d' blk i new Hsw ltac:(rewrite Hne, Hold; reflexivity) bl), E.
  apply map_upd_split; [reflexivity|exact Hn].
Qed.

(* the same for the node slots: the other node slots stay, in place *)
Corollary dir_nodes_split d d' blk i new bl :
  slot_write d d' blk i new -> NoDup bl ->
  In (blk, i * 32, slot (disk_get d blk) i) (dir_live d bl) -> is_end new = false ->
  exists l1 l2,
    dir_nodes d bl = l1 ++ (if node_slot (blk, i * 32, slot (disk_get d blk) i)
                            then [(blk, i * 32, slot (disk_get d blk) i)] else []) ++ l2 /\
    dir_nodes d' bl = l1 ++ (if node_slot (blk, i * 32, new) then [(blk, i * 32, new)] else []) ++ l2 /\
    (forall x, In x (l1 ++ l2) -> fst x <> (blk, i * 32)).
Proof.
  intros Hsw Hnd Hin Hne. destruct (dir_live_split d d' blk i new bl Hsw Hnd Hin Hne) as (a & b & E & E' & Hn).
  exists (filter node_slot a), (filter node_slot b). unfold dir_nodes. rewrite E, E', !filter_app. cbn [filter].
  split; [destruct (node_slot (blk, i * 32, slot (disk_get d blk) i)); reflexivity|].
  split; [destruct (node_slot (blk, i * 32, new)); reflexivity|].
  intros x Hx. apply Hn. apply in_app_or in Hx. apply in_or_app.
  destruct Hx as [Hx|Hx]; apply filter_In in Hx; [left|right]; exact (proj1 Hx).
Qed.

(* ---- the first end marker of a well-formed directory is rewritten by a non-end slot: the
   listing grows by that slot, and the tail stays clean ---- *)
Lemma find_nv_split l t : find nv l = Some t ->
  exists a b, l = a ++ t :: b /\ Forall (fun x => t_is_valid x = true) a /\ t_is_valid t = false.
Proof.
  induction l as [|x l IH]; intros H; [discriminate|]. cbn [find] in H. unfold nv in H at 1.
  destruct (t_is_valid x) eqn:Ex; cbn [negb] in H.
  - destruct (IH H) as (a & b & -> & Ha & Ht). exists (x :: a), b. split; [reflexivity|].
    split; [constructor; assumption|exact Ht].
  - injection H as <-. exists [], l. split; [reflexivity|]. split; [constructor|exact Ex].
Qed.

Lemma valid_not_end t : t_is_valid t = true -> t_is_end t = false.
Proof. unfold t_is_valid, t_is_end, is_valid. intros H. apply andb_true_iff in H. apply negb_true_iff. exact (proj1 H). Qed.

Theorem dir_live_append d d' blk i new bl :
  slot_write d d' blk i new -> NoDup bl -> clean_tail (slots_of d bl) ->
  find nv (slots_of d bl) = Some (blk, i * 32, slot (disk_get d blk) i) ->
  is_end (slot (disk_get d blk) i) = true -> is_end new = false ->
  dir_live d' bl = dir_live d bl ++ [(blk, i * 32, new)] /\ clean_tail (slots_of d' bl) /\
  (forall x, In x (dir_live d bl) -> fst x <> (blk, i * 32)).
Proof.
  intros Hsw Hnd Hct Hfind Hold Hne.
  destruct (find_nv_split _ _ Hfind) as (a & b & E & Ha & _).
  assert (Hae : existsb t_is_end a = false).
  { clear - Ha. induction Ha as [|x a Hx _ IH]; [reflexivity|]. cbn [existsb]. rewrite (valid_not_end x Hx), IH. reflexivity. }
  pose proof (slots_pos_nodup d bl Hnd) as Hpn.
  assert (Hn : forall x, In x (a ++ b) -> fst x <> (blk, i * 32)).
  { rewrite E, map_app in Hpn. cbn [map] in Hpn. apply NoDup_remove_2 in Hpn.
    intros x Hx Ex. apply Hpn. cbn [fst]. rewrite <- Ex, <- map_app. apply in_map. exact Hx. }
  assert (Hb : Forall (fun t => t_is_end t = true) b).
  { unfold clean_tail in Hct. rewrite E, after_end_app, Hae in Hct. cbn [after_end] in Hct.
    change (t_is_end (blk, i * 32, slot (disk_get d blk) i)) with (is_end (slot (disk_get d blk) i)) in Hct.
    rewrite Hold in Hct. inversion Hct; assumption. }
  assert (Elive : dir_live d bl = a).
  { unfold dir_live. rewrite E, before_end_all_app, Hae. cbn [before_end_all].
    change (t_is_end (blk, i * 32, slot (disk_get d blk) i)) with (is_end (slot (disk_get d blk) i)).
    rewrite Hold. apply app_nil_r. }
  assert (E' : slots_of d' bl = a ++ (blk, i * 32, new) :: b).
  { rewrite (slots_of_upd d d' blk i new bl Hsw), E. apply map_upd_split; [reflexivity|exact Hn]. }
  split; [|split].
  - unfold dir_live at 1. rewrite E', before_end_all_app, Hae. cbn [before_end_all].
    change (t_is_end (blk, i * 32, new)) with (is_end new).
    rewrite Hne, (all_end_before b Hb), Elive. reflexivity.
  - unfold clean_tail. rewrite E', after_end_app, Hae. cbn [after_end].
    change (t_is_end (blk, i * 32, new)) with (is_end new). rewrite Hne.
    destruct b as [|t0 b0]; [constructor|]. cbn [after_end]. inversion Hb as [|? ? H0 Hb0]; subst. rewrite H0. exact Hb.
  - rewrite Elive. intros x Hx. apply Hn. apply in_or_app. left. exact Hx.
Qed.

(* ---- lists: insertion into / deletion from a Forall2 ---- *)
Definition ins_at {A} (k : nat) (x : A) (l : list A) : list A := firstn k l ++ x :: skipn k l.
Definition del_at {A} (k : nat) (l : list A) : list A := firstn k l ++ skipn (S k) l.

Lemma Forall2_app_inv_r' {A B} (R : A -> B -> Prop) l l1 l2 : Forall2 R l (l1 ++ l2) ->
  Forall2 R (firstn (length l1) l) l1 /\ Forall2 R (skipn (length l1) l) l2.
Proof.
  revert l. induction l1 as [|y l1 IH]; intros l H; cbn [app length firstn skipn] in *.
  - split; [constructor|exact H].
  - inversion H as [|x ? l0 ? Hxy H0]; subst. cbn [firstn skipn]. destruct (IH l0 H0) as [A1 A2].
    split; [constructor; assumption|exact A2].
Qed.

Lemma Forall2_insert {A B} (R : A -> B -> Prop) ks l1 l2 n t :
  Forall2 R ks (l1 ++ l2) -> R n t -> Forall2 R (ins_at (length l1) n ks) (l1 ++ t :: l2).
Proof.
  intros H Hn. destruct (Forall2_app_inv_r' R ks l1 l2 H) as [A1 A2]. unfold ins_at.
  apply Forall2_app; [exact A1|]. constructor; assumption.
Qed.

Lemma skipn_S_cons {A} : forall k (l : list A) x r, skipn k l = x :: r -> skipn (S k) l = r.
Proof.
  induction k as [|k IH]; intros l x r H.
  - cbn [skipn] in H. subst l. reflexivity.
  - destruct l as [|y l]; [discriminate H|]. cbn [skipn] in H. exact (IH l x r H).
Qed.

Lemma Forall2_delete {A B} (R : A -> B -> Prop) ks l1 l2 t :
  Forall2 R ks (l1 ++ t :: l2) -> Forall2 R (del_at (length l1) ks) (l1 ++ l2).
Proof.
  intros H. destruct (Forall2_app_inv_r' R ks l1 (t :: l2) H) as [A1 A2]. unfold del_at.
  apply Forall2_app; [exact A1|]. inversion A2 as [|x ? l0 ? _ H0 Ex]; subst.
  rewrite (skipn_S_cons _ _ _ _ (eq_sym Ex)). exact H0.
Qed.

(* ---- soundness of the directory whose listing changes in one place ---- *)
Lemma no_dots_app a b : no_dots (a ++ b) <-> no_dots a /\ no_dots b.
Proof. unfold no_dots. apply Forall_app. Qed.

Lemma dots_ok_subst fat32 own parent a x y b :
  dots_ok fat32 own parent (a ++ x :: b) ->
  (short_slot x = true -> dot_slot x = false) -> (short_slot y = true -> dot_slot y = false) ->
  dots_ok fat32 own parent (a ++ y :: b).
Proof.
  unfold dots_ok. intros H Hx Hy. destruct (own =? CL_ROOT).
  - apply no_dots_app in H. destruct H as [Ha Hb]. apply no_dots_app. split; [exact Ha|].
    inversion Hb; subst. constructor; assumption.
  - destruct H as (t0 & t1 & rest & E & D0 & D1 & Dr).
    assert (Hdot : forall t nm c, dot_entry fat32 t nm c -> (nm = THIS_DIR_NAME \/ nm = PARENT_DIR_NAME) -> t <> x).
    { intros t nm c (Hs & Hn & _) Hnm ->. specialize (Hx Hs). unfold dot_slot in Hx. rewrite Hn in Hx.
      destruct Hnm as [-> | ->]; vm_compute in Hx; discriminate Hx. }
    destruct a as [|a0 [|a1 a']]; cbn [app] in E.
    + injection E as E0 _. exfalso. exact (Hdot t0 _ _ D0 (or_introl eq_refl) (eq_sym E0)).
    + injection E as _ E1 _. exfalso. exact (Hdot t1 _ _ D1 (or_intror eq_refl) (eq_sym E1)).
    + injection E as -> -> Er. exists t0, t1, (a' ++ y :: b). split; [reflexivity|]. split; [exact D0|]. split; [exact D1|].
      rewrite <- Er in Dr. apply no_dots_app in Dr. destruct Dr as [Ha Hb]. apply no_dots_app. split; [exact Ha|].
      inversion Hb; subst. constructor; assumption.
Qed.

Lemma dots_ok_snoc fat32 own parent l y :
  dots_ok fat32 own parent l -> (short_slot y = true -> dot_slot y = false) ->
  dots_ok fat32 own parent (l ++ [y]).
Proof.
  unfold dots_ok. intros H Hy. destruct (own =? CL_ROOT).
  - apply no_dots_app. split; [exact H|]. constructor; [exact Hy|constructor].
  - destruct H as (t0 & t1 & rest & -> & D0 & D1 & Dr). exists t0, t1, (rest ++ [y]).
    split; [reflexivity|]. split; [exact D0|]. split; [exact D1|].
    apply no_dots_app. split; [exact Dr|]. constructor; [exact Hy|constructor].
Qed.

Lemma nodup_map_mid {A B} (g : A -> B) (l1 xs l2 : list A) :
  NoDup (map g (l1 ++ xs ++ l2)) -> NoDup (map g (l1 ++ l2)).
Proof.
  induction xs as [|x xs IH]; [trivial|]. intros H. apply IH.
  rewrite map_app in H. cbn [app map] in H. apply NoDup_remove_1 in H. rewrite <- map_app in H. exact H.
Qed.

(* the slot x of the listing is replaced by y (a node slot with a new name, or a deleted slot) *)
Theorem dir_ok_subst d d' v own parent bl a x y b :
  dir_ok d v own parent bl -> clean_tail (slots_of d' bl) ->
  dir_live d bl = a ++ x :: b -> dir_live d' bl = a ++ y :: b ->
  (short_slot x = true -> dot_slot x = false) ->
  (short_slot y = true -> dot_slot y = false /\
                          ~ In (t_name y) (map t_name (filter short_slot (a ++ b)))) ->
  dir_ok d' v own parent bl.
Proof.
  intros [A B D] Hct El El' Hx Hy. constructor.
  - exact Hct.
  - unfold dir_shorts in *. rewrite El in B. rewrite El'. rewrite filter_app in *. cbn [filter] in *.
    assert (B0 : NoDup (map t_name (filter short_slot a ++ filter short_slot b))).
    { apply (nodup_map_mid t_name _ (if short_slot x then [x] else []) _).
      destruct (short_slot x); exact B. }
    destruct (short_slot y) eqn:Ey; [|exact B0].
    destruct (Hy eq_refl) as [_ Hni]. try rewrite filter_app in Hni.
    rewrite map_app. cbn [map]. apply NoDup_Add with (a := t_name y) (l := map t_name (filter short_slot a ++ filter short_slot b)).
    + rewrite map_app. apply Add_app.
    + split; [exact B0|exact Hni].
  - rewrite El'. rewrite El in D. apply (dots_ok_subst _ _ _ a x y b D Hx). intros Hs. exact (proj1 (Hy Hs)).
Qed.

(* the listing grows by the slot y at its end (the end marker was taken) *)
Theorem dir_ok_snoc d d' v own parent bl y :
  dir_ok d v own parent bl -> clean_tail (slots_of d' bl) ->
  dir_live d' bl = dir_live d bl ++ [y] ->
  (short_slot y = true -> dot_slot y = false /\ ~ In (t_name y) (map t_name (dir_shorts d bl))) ->
  dir_ok d' v own parent bl.
Proof.
  intros [A B D] Hct El' Hy. constructor.
  - exact Hct.
  - unfold dir_shorts in *. rewrite El', filter_app. cbn [filter].
    destruct (short_slot y) eqn:Ey; [|rewrite app_nil_r; exact B].
    destruct (Hy eq_refl) as [_ Hni]. rewrite map_app. cbn [map].
    apply NoDup_Add with (a := t_name y) (l := map t_name (filter short_slot (dir_live d bl))).
    + rewrite <- (app_nil_r (map t_name (filter short_slot (dir_live d bl)))) at 1. apply Add_app.
    + split; [exact B|exact Hni].
  - rewrite El'. apply (dots_ok_snoc _ _ _ _ y D). intros Hs. exact (proj1 (Hy Hs)).
Qed.

(* ---- bookkeeping for forest_upd_kids: any per-node summary that ignores the kid list ---- *)
Lemma perm_mid {X} (A B o P Q : list X) : Permutation (A ++ P) (B ++ Q) -> Permutation (A ++ o ++ P) (B ++ o ++ Q).
Proof.
  intros H. apply (Permutation_trans (Permutation_app_swap_app A o P)).
  apply (Permutation_trans (Permutation_app_head o H)). apply Permutation_app_swap_app.
Qed.

Lemma perm_mid2 {X} (A B o P Q r : list X) :
  Permutation (A ++ P) (B ++ Q) -> Permutation (A ++ o ++ P ++ r) (B ++ o ++ Q ++ r).
Proof.
  intros H. apply perm_mid. rewrite !app_assoc. apply Permutation_app_tail. exact H.
Qed.

Section Fold.
  Variables (dc : N) (f : list node -> list node) (X : Type) (own : node -> list X).
  Hypothesis Hown : forall e ch k1 k2, own (NDir e ch k1) = own (NDir e ch k2).
  Definition gfold (n : node) : list X := flat_map own (flatten n).

  Lemma gfold_forest T : flat_map own (all_nodes T) = flat_map gfold T.
  Proof.
    unfold all_nodes. induction T as [|n T IH]; [reflexivity|]. cbn [flat_map]. rewrite flat_map_app, IH. reflexivity.
  Qed.

  Lemma gfold_dir e ch ks : gfold (NDir e ch ks) = own (NDir e ch ks) ++ flat_map gfold ks.
  Proof. unfold gfold at 1. cbn [flatten flat_map]. f_equal. exact (gfold_forest ks). Qed.

  Definition has_dc (n : node) : Prop := exists e ch kids, In (NDir e ch kids) (flatten n) /\ e_cluster e = dc.

  Lemma has_dc_head n : has_dc n -> In dc (node_heads n).
  Proof.
    intros (e & ch & kids & Hin & <-). rewrite node_heads_flatten. apply in_flat_map.
    exists (NDir e ch kids). split; [exact Hin|left; reflexivity].
  Qed.

  Lemma upd_kids_id : forall n, ~ has_dc n -> node_upd_kids dc f n = n.
  Proof.
    induction n as [e ch|e ch kids IH] using node_ind'; intros H; [reflexivity|]. cbn [node_upd_kids].
    assert (Hk : map (node_upd_kids dc f) kids = kids).
    { rewrite <- (map_id kids) at 2. apply map_ext_in. intros k Hk. rewrite Forall_forall in IH. apply (IH k Hk).
      intros (e' & ch' & kids' & Hin & E). apply H. exists e', ch', kids'. split; [|exact E].
      exact (flatten_kid e ch kids k _ Hk Hin). }
    destruct (N.eqb_spec (e_cluster e) dc) as [E|E].
    - exfalso. apply H. exists e, ch, kids. split; [apply flatten_self|exact E].
    - rewrite Hk. reflexivity.
  Qed.

  Lemma map_upd_id l : (forall m, In m l -> ~ In dc (node_heads m)) -> map (node_upd_kids dc f) l = l.
  Proof.
    intros H. rewrite <- (map_id l) at 2. apply map_ext_in. intros m Hm. apply upd_kids_id.
    intros Hd. exact (H m Hm (has_dc_head m Hd)).
  Qed.

  (* one element of a list with distinct summaries holds dc: the others do not *)
  Lemma split_heads l1 k l2 : NoDup (flat_map node_heads (l1 ++ k :: l2)) -> In dc (node_heads k) ->
    NoDup (node_heads k) /\ forall m, In m (l1 ++ l2) -> ~ In dc (node_heads m).
  Proof.
    rewrite flat_map_app. cbn [flat_map]. intros H Hk.
    destruct (nodup_app_inv _ _ H) as (_ & H2 & H3). destruct (nodup_app_inv _ _ H2) as (H4 & _ & H6).
    split; [exact H4|]. intros m Hm Hd. apply in_app_or in Hm. destruct Hm as [Hm|Hm].
    - apply (H3 dc); [apply in_flat_map; exists m; split; assumption|apply in_or_app; left; exact Hk].
    - apply (H6 dc Hk). apply in_flat_map. exists m. split; assumption.
  Qed.

  Variables LA LB : list X.

  Lemma gfold_upd_node : forall n, NoDup (node_heads n) ->
    forall e ch ks, In (NDir e ch ks) (flatten n) -> e_cluster e = dc ->
    Permutation (LA ++ flat_map gfold (f ks)) (LB ++ flat_map gfold ks) ->
    Permutation (LA ++ gfold (node_upd_kids dc f n)) (LB ++ gfold n).
  Proof.
    induction n as [e0 ch0|e0 ch0 kids0 IH] using node_ind'; intros Hnd e ch ks Hin Edc HP.
    - destruct Hin as [Hin|[]]. discriminate Hin.
    - cbn [node_heads] in Hnd. apply NoDup_cons_iff in Hnd. destruct Hnd as [Hh Hnd].
      destruct Hin as [Hin|Hin].
      + injection Hin as -> -> ->. cbn [node_upd_kids]. rewrite (proj2 (N.eqb_eq _ _) Edc).
        rewrite map_upd_id.
        * rewrite !gfold_dir, (Hown e ch (f ks) ks). apply perm_mid. exact HP.
        * intros m Hm Hd. apply Hh. rewrite Edc. apply in_flat_map. exists m. split; assumption.
      + apply in_flat_map in Hin. destruct Hin as (k & Hk & Hin).
        assert (Hdk : In dc (node_heads k)) by (apply has_dc_head; exists e, ch, ks; split; assumption).
        assert (Ene : e_cluster e0 <> dc).
        { intros E. apply Hh. rewrite E. apply in_flat_map. exists k. split; assumption. }
        destruct (in_split _ _ Hk) as (l1 & l2 & ->).
        destruct (split_heads l1 k l2 Hnd Hdk) as (Hndk & Hoth).
        cbn [node_upd_kids]. rewrite (proj2 (N.eqb_neq _ _) Ene).
        rewrite map_app. cbn [map].
        rewrite (map_upd_id l1) by (intros m Hm; apply Hoth; apply in_or_app; left; exact Hm).
        rewrite (map_upd_id l2) by (intros m Hm; apply Hoth; apply in_or_app; right; exact Hm).
        rewrite !gfold_dir, (Hown e0 ch0 (l1 ++ node_upd_kids dc f k :: l2) (l1 ++ k :: l2)).
        rewrite !flat_map_app. cbn [flat_map].
        apply perm_mid. apply (Permutation_trans (Permutation_app_swap_app LA _ _)).
        apply Permutation_sym. apply (Permutation_trans (Permutation_app_swap_app LB _ _)).
        apply Permutation_app_head. rewrite !app_assoc. apply Permutation_app_tail. apply Permutation_sym.
        rewrite Forall_forall in IH. exact (IH k Hk Hndk e ch ks Hin Edc HP).
  Qed.

  (* the directory dc is a node of the forest *)
  Theorem gfold_upd_sub T e ch ks : NoDup (flat_map node_heads T) -> dc <> CL_ROOT ->
    In (NDir e ch ks) (all_nodes T) -> e_cluster e = dc ->
    Permutation (LA ++ flat_map gfold (f ks)) (LB ++ flat_map gfold ks) ->
    Permutation (LA ++ flat_map gfold (forest_upd_kids dc f T)) (LB ++ flat_map gfold T).
  Proof.
    intros Hnd Hnr Hin Edc HP. unfold forest_upd_kids. rewrite (proj2 (N.eqb_neq _ _) Hnr).
    apply in_flat_map in Hin. destruct Hin as (k & Hk & Hin).
    assert (Hdk : In dc (node_heads k)) by (apply has_dc_head; exists e, ch, ks; split; assumption).
    destruct (in_split _ _ Hk) as (l1 & l2 & ->). destruct (split_heads l1 k l2 Hnd Hdk) as (Hndk & Hoth).
    rewrite map_app. cbn [map].
    rewrite (map_upd_id l1) by (intros m Hm; apply Hoth; apply in_or_app; left; exact Hm).
    rewrite (map_upd_id l2) by (intros m Hm; apply Hoth; apply in_or_app; right; exact Hm).
    rewrite !flat_map_app. cbn [flat_map].
    apply (Permutation_trans (Permutation_app_swap_app LA _ _)).
    apply Permutation_sym. apply (Permutation_trans (Permutation_app_swap_app LB _ _)).
    apply Permutation_app_head. rewrite !app_assoc. apply Permutation_app_tail. apply Permutation_sym.
    exact (gfold_upd_node k Hndk e ch ks Hin Edc HP).
  Qed.

  (* the directory dc is the root *)
  Theorem gfold_upd_root T : dc = CL_ROOT -> (forall m, In m T -> ~ In dc (node_heads m)) ->
    Permutation (LA ++ flat_map gfold (f T)) (LB ++ flat_map gfold T) ->
    Permutation (LA ++ flat_map gfold (forest_upd_kids dc f T)) (LB ++ flat_map gfold T).
  Proof.
    intros E Hno HP. unfold forest_upd_kids. rewrite (proj2 (N.eqb_eq _ _) E). rewrite (map_upd_id T Hno). exact HP.
  Qed.
End Fold.

(* ================================================================== 5x. the tree part of disk_inv, separately from the FAT part *)
Record tree_inv (d : disk) (v : vol) (bl rch : list N) (T : list node) : Prop := mk_tree_inv {
  ti_root : root_dir d v bl rch;
  ti_tree : tree_rep d v bl T;
  ti_rootok : dir_ok d v CL_ROOT CL_ROOT bl;
  ti_nodes : Forall (node_ok d v CL_ROOT) T;
  ti_pos : NoDup (map node_pos (all_nodes T))
}.

Lemma disk_inv_tree d v bl rch T pend : disk_inv d v bl rch T pend -> tree_inv d v bl rch T.
Proof. intros [A B C D E F]. constructor; assumption. Qed.

Lemma disk_inv_join d v bl rch T pend : tree_inv d v bl rch T -> fat_wf d v (heads v T ++ pend) ->
  disk_inv d v bl rch T pend.
Proof. intros [A B C D F] E. constructor; assumption. Qed.

(* the tree part depends on the FAT only through the chains it mentions: FRAME (c), generic form.
   d' may differ from d in FAT sectors; the directory blocks of the tree are unchanged and every
   chain of the tree (and the FAT32 root chain) is still the chain of its head. *)
Lemma node_rep_chains d d' v : forall n t,
  (forall j, In j (node_dir_blocks v n) -> disk_get d' j = disk_get d j) ->
  (forall m, In m (flatten n) -> node_chain m <> [] -> chain_at d' v (e_cluster (node_entry m)) (node_chain m)) ->
  node_rep d v n t -> node_rep d' v n t.
Proof.
  induction n as [e ch|e ch kids IH] using node_ind'; intros t Hb Hc H.
  - apply node_rep_file in H. apply node_rep_file. destruct H as (A & B & [(C1 & C2)|C]).
    + split; [exact A|]. split; [exact B|]. left. split; [exact C1|]. exists (walk_fuel v).
      apply (Hc (NFile e ch) (flatten_self _)). cbn [node_chain]. destruct C2 as (fu & C2).
      destruct (chain_of_head _ _ _ _ _ C2) as (_ & _ & l' & ->). discriminate.
    + split; [exact A|]. split; [exact B|]. right. exact C.
  - apply node_rep_dir in H. apply node_rep_dir. destruct H as (A & B & C & D).
    split; [exact A|]. split; [exact B|]. cbn [node_dir_blocks] in Hb. split.
    + apply (Hc (NDir e ch kids) (flatten_self _)). cbn [node_chain]. destruct (chain_at_head _ _ _ _ C) as (r & ->). discriminate.
    + rewrite (dir_nodes_ext d d' (data_blocks v ch)) by (intros j Hj; apply Hb; apply in_or_app; left; exact Hj).
      apply (Forall2_impl_in _ _ _ _ D). intros k t' Hk _ Hr. rewrite Forall_forall in IH. apply (IH k Hk); [| |exact Hr].
      * intros j Hj. apply Hb. apply in_or_app. right. apply in_flat_map. exists k. split; assumption.
      * intros m Hm. apply Hc. exact (flatten_kid e ch kids k m Hk Hm).
Qed.

Theorem tree_inv_fat d d' v bl rch T : tree_inv d v bl rch T ->
  (forall j, In j (tree_dir_blocks v bl T) -> disk_get d' j = disk_get d j) ->
  (v_fat32 v = true -> chain_at d' v (v_root_cluster v) rch) ->
  (forall m, In m (all_nodes T) -> node_chain m <> [] -> chain_at d' v (e_cluster (node_entry m)) (node_chain m)) ->
  tree_inv d' v bl rch T.
Proof.
  intros [A B C D F] Hb Hr Hc. unfold tree_dir_blocks in Hb. constructor.
  - unfold root_dir in *. destruct (v_fat32 v); [|exact A]. split; [exact (Hr eq_refl)|exact (proj2 A)].
  - unfold tree_rep in *. rewrite (dir_nodes_ext d d' bl) by (intros j Hj; apply Hb; apply in_or_app; left; exact Hj).
    apply (Forall2_impl_in _ _ _ _ B). intros n t Hn _ Hrn. apply (node_rep_chains d d' v n t); [| |exact Hrn].
    + intros j Hj. apply Hb. apply in_or_app. right. apply in_flat_map. exists n. split; assumption.
    + intros m Hm. apply Hc. apply in_flat_map. exists n. split; assumption.
  - apply (dir_ok_frame d d' v); [|exact C]. intros j Hj. apply Hb. apply in_or_app. left. exact Hj.
  - rewrite Forall_forall in *. intros n Hn. apply (node_ok_frame d d' v); [|exact (D n Hn)].
    intros j Hj. apply Hb. apply in_or_app. right. apply in_flat_map. exists n. split; assumption.
  - exact F.
Qed.

(* ---- facts about the blocks of the directories ---- *)
Lemma blocks_from_nodup n : forall i, NoDup (blocks_from n i).
Proof.
  induction n as [|n IH]; intros i; cbn [blocks_from]; constructor; [|apply IH].
  intros Hin. destruct (In_blocks_from _ _ _ Hin) as (k & _ & E). lia.
Qed.

Lemma data_blocks_nodup v ch : NoDup ch -> Forall (fun c => 2 <= c) ch -> NoDup (data_blocks v ch).
Proof.
  unfold data_blocks. intros Hnd Hr. apply nodup_flat_map; [exact Hnd| |].
  - intros c _. apply blocks_from_nodup.
  - intros a b x Ha Hb Xa Xb. destruct (N.eq_dec a b) as [E|Hne]; [exact E|]. exfalso.
    rewrite Forall_forall in Hr. exact (cluster_blocks_apart v a b x x Hne (Hr a Ha) (Hr b Hb) Xa Xb eq_refl).
Qed.

Lemma chain_blocks_nodup d v h ch : chain_at d v h ch -> NoDup (data_blocks v ch).
Proof.
  intros H. apply data_blocks_nodup; [exact (chain_at_nodup _ _ _ _ H)|].
  apply Forall_forall. intros c Hc. exact (proj1 (chain_at_mem _ _ _ _ c H Hc)).
Qed.

Lemma data_block_not_fat v fsz c j : fat_layout v fsz -> 2 <= c -> In j (cluster_blocks v c) -> ~ fat_area v j.
Proof.
  intros L Hc Hj (c' & Hc' & E). destruct (In_cluster_blocks _ _ _ Hj) as (k & _ & Ek).
  unfold cluster_first_block in Ek. pose proof (layout_sector v fsz c' L Hc') as Hq.
  pose proof (fl_data1 v fsz L) as D1. change (fat_w v) with (fat_width v) in E.
  remember (c' * fat_width v / 512) as q. remember ((c - 2) * v_spc v) as X. lia.
Qed.

Lemma root16_not_fat v total fsz j : PrBounds.part_layout v total fsz -> v_lba v + total < U32 ->
  v_fat32 v = false -> In j (root16_blocks v) -> ~ fat_area v j.
Proof.
  intros L Hdev E32 Hj (c' & Hc' & E). unfold root16_blocks in Hj. destruct (In_blocks_from _ _ _ Hj) as (k & _ & ->).
  pose proof (layout_sector v fsz c' (PrBounds.part_layout_fat_layout v total fsz L Hdev) Hc') as Hq.
  pose proof (PrBounds.layout_order v total fsz L) as (_ & O2 & _ & _ & O5 & _). destruct (O5 E32) as [O5a _].
  change (fat_w v) with (fat_width v) in E. remember (c' * fat_width v / 512) as q. lia.
Qed.

Section DirFacts.
  Variables (d : disk) (v : vol) (bl rch : list N) (T : list node) (pend : list N) (total fsz : N).
  Hypothesis Hdi : disk_inv d v bl rch T pend.
  Hypothesis Hlay : PrBounds.part_layout v total fsz.
  Hypothesis Hdev : v_lba v + total < U32.

  Lemma is_dir_of_chain dc bld chd : is_dir_of v bl rch T dc bld chd ->
    bld = root16_blocks v /\ v_fat32 v = false /\ dc = CL_ROOT \/
    exists h, chain_at d v h chd /\ bld = data_blocks v chd /\ In h (heads v T ++ pend).
  Proof.
    pose proof (di_root _ _ _ _ _ _ Hdi) as Hroot. unfold root_dir in Hroot.
    intros [(-> & -> & ->)|(e & kids & Hn & <- & ->)].
    - destruct (v_fat32 v) eqn:E32.
      + destruct Hroot as (A & B). right. exists (v_root_cluster v). split; [exact A|]. split; [exact B|].
        apply in_or_app. left. unfold heads, root_heads. rewrite E32. left. reflexivity.
      + left. destruct Hroot as (_ & B). auto.
    - right. destruct (dir_node_chain d v bl rch T pend Hdi e chd kids Hn) as (A & B & _).
      exists (e_cluster e). auto.
  Qed.

  Lemma dir_blocks_nodup dc bld chd : is_dir_of v bl rch T dc bld chd -> NoDup bld.
  Proof.
    intros H. destruct (is_dir_of_chain dc bld chd H) as [(-> & _)|(h & A & -> & _)].
    - apply blocks_from_nodup.
    - exact (chain_blocks_nodup d v h chd A).
  Qed.

  Lemma dir_blocks_not_fat dc bld chd j : is_dir_of v bl rch T dc bld chd -> In j bld -> ~ fat_area v j.
  Proof.
    intros H Hj. destruct (is_dir_of_chain dc bld chd H) as [(-> & E32 & _)|(h & A & -> & _)].
    - exact (root16_not_fat v total fsz j Hlay Hdev E32 Hj).
    - unfold data_blocks in Hj. apply in_flat_map in Hj. destruct Hj as (c & Hc & Hj).
      exact (data_block_not_fat v fsz c j (PrBounds.part_layout_fat_layout v total fsz Hlay Hdev)
               (proj1 (chain_at_mem _ _ _ _ c A Hc)) Hj).
  Qed.

  (* the listing of a directory of the tree, and its soundness *)
  Lemma is_dir_of_listing dc bld chd : is_dir_of v bl rch T dc bld chd ->
    exists kids par, Forall2 (node_rep d v) kids (dir_nodes d bld) /\ dir_ok d v dc par bld /\
      Forall (node_ok d v dc) kids /\ (forall k, In k kids -> In k (all_nodes T)) /\
      (dc = CL_ROOT /\ kids = T \/ exists e, In (NDir e chd kids) (all_nodes T) /\ e_cluster e = dc).
  Proof.
    intros [(-> & -> & ->)|(e & kids & Hn & <- & ->)].
    - exists T, CL_ROOT. split; [exact (di_tree _ _ _ _ _ _ Hdi)|]. split; [exact (di_rootok _ _ _ _ _ _ Hdi)|].
      split; [exact (di_nodes _ _ _ _ _ _ Hdi)|]. split; [apply all_nodes_top|left; split; reflexivity].
    - destruct (dir_node_chain d v bl rch T pend Hdi e chd kids Hn) as (_ & _ & Hk).
      assert (Hok : exists par, node_ok d v par (NDir e chd kids)).
      { pose proof (di_nodes _ _ _ _ _ _ Hdi) as Hall.
        assert (G : forall m par, node_ok d v par m -> forall x, In x (flatten m) -> exists par', node_ok d v par' x).
        { induction m as [e0 ch0|e0 ch0 kids0 IH] using node_ind'; intros par Hm x Hx.
          - destruct Hx as [<-|[]]. exists par. exact Hm.
          - destruct Hx as [<-|Hx]; [exists par; exact Hm|]. apply in_flat_map in Hx. destruct Hx as (k & Hk0 & Hx).
            apply node_ok_dir in Hm. destruct Hm as (_ & Hks). rewrite Forall_forall in IH, Hks.
            exact (IH k Hk0 _ (Hks k Hk0) x Hx). }
        apply in_flat_map in Hn. destruct Hn as (m & Hm & Hx). rewrite Forall_forall in Hall.
        exact (G m _ (Hall m Hm) _ Hx). }
      destruct Hok as (par & Hok). apply node_ok_dir in Hok. destruct Hok as (Hd & Hks).
      exists kids, par. split; [exact Hk|]. split; [exact Hd|]. split; [exact Hks|]. split.
      + intros k Hk0. apply (all_nodes_trans T _ k Hn). exact (flatten_kid e chd kids k k Hk0 (flatten_self k)).
      + right. exists e. split; [exact Hn|reflexivity].
  Qed.
End DirFacts.

(* ================================================================== 5b-ii / 5b-iii. a node is added in a free slot / a node slot is deleted *)
Lemma short_valid t : short_slot t = true -> t_is_valid t = true /\ is_lfn (t_attr t) = false.
Proof. unfold short_slot. rewrite andb_true_iff, negb_true_iff. trivial. Qed.
Lemma node_short t : node_slot t = true -> short_slot t = true /\ dot_slot t = false.
Proof. unfold node_slot. rewrite andb_true_iff, negb_true_iff. trivial. Qed.
Lemma invalid_not_short t : t_is_valid t = false -> short_slot t = false /\ node_slot t = false.
Proof. unfold node_slot, short_slot. intros ->. split; reflexivity. Qed.

Lemma ins_at_perm {A X} (g : A -> list X) k x l : Permutation (flat_map g (ins_at k x l)) (g x ++ flat_map g l).
Proof.
  unfold ins_at. rewrite <- (firstn_skipn k l) at 3. rewrite !flat_map_app. cbn [flat_map].
  apply Permutation_app_swap_app.
Qed.

Lemma del_at_perm {A X} (g : A -> list X) k x l : nth_error l k = Some x ->
  Permutation (g x ++ flat_map g (del_at k l)) (flat_map g l).
Proof.
  intros H. unfold del_at. destruct (nth_error_split l k H) as (l1 & l2 & -> & <-).
  rewrite firstn_app, firstn_all, Nat.sub_diag. cbn [firstn]. rewrite app_nil_r.
  replace (skipn (S (length l1)) (l1 ++ x :: l2)) with l2.
  - rewrite !flat_map_app. cbn [flat_map]. apply Permutation_sym. apply Permutation_app_swap_app.
  - symmetry. apply (skipn_S_cons (length l1) _ x). rewrite skipn_app, skipn_all, Nat.sub_diag. reflexivity.
Qed.

Lemma Forall_firstn' {A} (P : A -> Prop) k l : Forall P l -> Forall P (firstn k l).
Proof.
  rewrite !Forall_forall. intros H x Hx. apply H. rewrite <- (firstn_skipn k l). apply in_or_app. left. exact Hx.
Qed.
Lemma Forall_skipn' {A} (P : A -> Prop) k l : Forall P l -> Forall P (skipn k l).
Proof.
  rewrite !Forall_forall. intros H x Hx. apply H. rewrite <- (firstn_skipn k l). apply in_or_app. right. exact Hx.
Qed.
Lemma Forall_ins_at {A} (P : A -> Prop) k x l : Forall P l -> P x -> Forall P (ins_at k x l).
Proof.
  intros Hl Hx. unfold ins_at. apply Forall_app. split; [apply Forall_firstn'; exact Hl|].
  constructor; [exact Hx|apply Forall_skipn'; exact Hl].
Qed.
Lemma Forall_del_at {A} (P : A -> Prop) k l : Forall P l -> Forall P (del_at k l).
Proof.
  intros Hl. unfold del_at. apply Forall_app. split; [apply Forall_firstn'; exact Hl|apply Forall_skipn'; exact Hl].
Qed.

(* the listing and the soundness of the directory that receives a new node in its first free slot *)
Lemma dir_insert d d' v own par bld blk i new :
  slot_write d d' blk i new -> NoDup bld -> dir_ok d v own par bld ->
  find nv (slots_of d bld) = Some (blk, i * 32, slot (disk_get d blk) i) ->
  is_end new = false -> node_slot (blk, i * 32, new) = true ->
  ~ In (t_name (blk, i * 32, new)) (map t_name (dir_shorts d bld)) ->
  (exists l1 l2, dir_nodes d bld = l1 ++ l2 /\ dir_nodes d' bld = l1 ++ (blk, i * 32, new) :: l2 /\
                 forall x, In x (l1 ++ l2) -> fst x <> (blk, i * 32)) /\
  dir_ok d' v own par bld.
Proof.
  intros Hsw Hnd Hok Hfind Hne Hnode Hfresh.
  destruct (node_short _ Hnode) as [Hs Hd]. destruct (short_valid _ Hs) as [Hv Hl].
  destruct (find_nv_split _ _ Hfind) as (a & b & E & Ha & Hinv).
  destruct (invalid_not_short _ Hinv) as [Hos Hon].
  destruct (is_end (slot (disk_get d blk) i)) eqn:Hold.
  - destruct (dir_live_append d d' blk i new bld Hsw Hnd (do_tail _ _ _ _ _ Hok) Hfind Hold Hne) as (El' & Hct' & Hn).
    split.
    + exists (dir_nodes d bld), []. split; [rewrite app_nil_r; reflexivity|]. split.
      * unfold dir_nodes. rewrite El', filter_app. cbn [filter]. rewrite Hnode. reflexivity.
      * rewrite app_nil_r. intros x Hx. apply Hn. unfold dir_nodes in Hx. apply filter_In in Hx. exact (proj1 Hx).
    + apply (dir_ok_snoc d d' v own par bld _ Hok Hct' El').
      * intros _. split; [exact Hd|exact Hfresh].
  - assert (Hae : existsb t_is_end a = false).
    { clear - Ha. induction Ha as [|x a Hx _ IH]; [reflexivity|]. cbn [existsb]. rewrite (valid_not_end x Hx), IH. reflexivity. }
    assert (Hin : In (blk, i * 32, slot (disk_get d blk) i) (dir_live d bld)).
    { unfold dir_live. rewrite E, before_end_all_app, Hae. apply in_or_app. right. cbn [before_end_all].
      change (t_is_end (blk, i * 32, slot (disk_get d blk) i)) with (is_end (slot (disk_get d blk) i)).
      rewrite Hold. left. reflexivity. }
    destruct (dir_live_split d d' blk i new bld Hsw Hnd Hin Hne) as (a' & b' & El & El' & Hn).
    split.
    + exists (filter node_slot a'), (filter node_slot b'). unfold dir_nodes. rewrite El, El', !filter_app. cbn [filter].
      rewrite Hon, Hnode. split; [reflexivity|]. split; [reflexivity|].
      intros x Hx. apply Hn. apply in_app_or in Hx. apply in_or_app.
      destruct Hx as [Hx|Hx]; apply filter_In in Hx; [left|right]; exact (proj1 Hx).
    + apply (dir_ok_subst d d' v own par bld a' (blk, i * 32, slot (disk_get d blk) i) (blk, i * 32, new) b' Hok); try assumption.
      * apply (clean_tail_upd d d' blk i new Hsw); [rewrite Hne, Hold; reflexivity|exact (do_tail _ _ _ _ _ Hok)].
      * intros Hs'. rewrite Hos in Hs'. discriminate Hs'.
      * intros _. split; [exact Hd|]. unfold dir_shorts in Hfresh. rewrite El, !filter_app in Hfresh. cbn [filter] in Hfresh.
        rewrite Hos in Hfresh. rewrite filter_app. exact Hfresh.
Qed.

(* the directory from which a node slot is removed *)
Lemma dir_delete d d' v own par bld blk i new :
  slot_write d d' blk i new -> NoDup bld -> dir_ok d v own par bld ->
  In (blk, i * 32, slot (disk_get d blk) i) (dir_live d bld) ->
  node_slot (blk, i * 32, slot (disk_get d blk) i) = true ->
  is_end new = false -> t_is_valid (blk, i * 32, new) = false ->
  (exists l1 l2, dir_nodes d bld = l1 ++ (blk, i * 32, slot (disk_get d blk) i) :: l2 /\ dir_nodes d' bld = l1 ++ l2) /\
  dir_ok d' v own par bld.
Proof.
  intros Hsw Hnd Hok Hin Hnode Hne Hinv.
  destruct (invalid_not_short _ Hinv) as [Hns Hnn].
  assert (Hold : is_end (slot (disk_get d blk) i) = false).
  { unfold dir_live in Hin. apply In_before_end_all in Hin. exact (proj2 Hin). }
  destruct (dir_live_split d d' blk i new bld Hsw Hnd Hin Hne) as (a' & b' & El & El' & Hn).
  split.
  - exists (filter node_slot a'), (filter node_slot b'). unfold dir_nodes. rewrite El, El', !filter_app. cbn [filter].
    rewrite Hnode, Hnn. split; reflexivity.
  - apply (dir_ok_subst d d' v own par bld a' (blk, i * 32, slot (disk_get d blk) i) (blk, i * 32, new) b' Hok); try assumption.
    + apply (clean_tail_upd d d' blk i new Hsw); [rewrite Hne, Hold; reflexivity|exact (do_tail _ _ _ _ _ Hok)].
    + intros _. exact (proj2 (node_short _ Hnode)).
    + intros Hs'. rewrite Hns in Hs'. discriminate Hs'.
Qed.

Lemma Forall2_len {A B} (R : A -> B -> Prop) l1 l2 : Forall2 R l1 l2 -> length l1 = length l2.
Proof. induction 1; cbn [length]; congruence. Qed.

Definition own_pos (n : node) : list (N * N) := [node_pos n].
Lemma own_pos_kids e ch k1 k2 : own_pos (NDir e ch k1) = own_pos (NDir e ch k2).
Proof. reflexivity. Qed.
Lemma own_head_kids e ch k1 k2 : own_head (NDir e ch k1) = own_head (NDir e ch k2).
Proof. reflexivity. Qed.
Lemma flat_map_own_pos L : flat_map own_pos L = map node_pos L.
Proof. induction L as [|n L IH]; [reflexivity|]. cbn [flat_map map own_pos app]. rewrite <- IH. reflexivity. Qed.

Lemma heads_in_range d v hs h : fat_wf d v hs -> In h hs -> 2 <= h /\ h < v_clusters v + 2.
Proof.
  intros W Hh. destruct (wf_def _ _ _ W h Hh) as (ch & Hch).
  destruct (chain_at_mem _ _ _ _ h Hch (chain_at_head_in _ _ _ _ Hch)) as (A & B & _). auto.
Qed.

Section InsertDelete.
  Variables (d d' : disk) (v : vol) (bl rch : list N) (T : list node) (pend : list N) (total fsz : N).
  Hypothesis Hdi : disk_inv d v bl rch T pend.
  Hypothesis Hlay : PrBounds.part_layout v total fsz.
  Hypothesis Hdev : v_lba v + total < U32.
  Variables (dc : N) (bld chd : list N) (blk i : N) (new : list N).
  Hypothesis Hdir : is_dir_of v bl rch T dc bld chd.
  Hypothesis Hsw : slot_write d d' blk i new.
  Hypothesis Hblk : In blk bld.
  Local Notation old := (slot (disk_get d blk) i).
  Local Notation p := (blk, i * 32).

  Let Hnfat : ~ fat_area v blk := dir_blocks_not_fat d v bl rch T pend total fsz Hdi Hlay Hdev dc bld chd blk Hdir Hblk.
  Let Hfat := slot_write_fat d d' v blk i new Hsw Hnfat.

  (* the blocks of every other directory are untouched *)
  Lemma other_dir_same dc2 bld2 chd2 j : is_dir_of v bl rch T dc2 bld2 chd2 -> dc2 <> dc -> In j bld2 ->
    disk_get d' j = disk_get d j.
  Proof.
    intros H2 Hne Hj. apply (proj1 Hsw). intros ->. apply Hne.
    exact (dirs_apart d v bl rch T pend total fsz Hdi Hlay dc2 dc bld2 bld chd2 chd blk H2 Hdir Hj Hblk).
  Qed.

  Lemma Hother_ok : forall e ch kids, In (NDir e ch kids) (all_nodes T) -> e_cluster e <> dc ->
    forall j, In j (data_blocks v ch) -> disk_get d' j = disk_get d j.
  Proof.
    intros e ch kids Hn Hne j Hj. apply (other_dir_same (e_cluster e) (data_blocks v ch) ch j); try assumption.
    right. exists e, kids. split; [exact Hn|split; reflexivity].
  Qed.

  Lemma Hroot_ok : dc <> CL_ROOT -> forall j, In j bl -> disk_get d' j = disk_get d j.
  Proof.
    intros Hne j Hj. apply (other_dir_same CL_ROOT bl rch j); [left; auto|congruence|exact Hj].
  Qed.

  Lemma dc_blocks e ch kids : In (NDir e ch kids) (all_nodes T) -> e_cluster e = dc -> data_blocks v ch = bld /\ ch = chd.
  Proof.
    intros Hn E. apply (is_dir_of_det d v bl rch T pend total fsz Hdi Hlay dc); [|exact Hdir].
    right. exists e, kids. split; [exact Hn|split; [exact E|reflexivity]].
  Qed.

  Lemma root_is_dc : dc = CL_ROOT -> bld = bl.
  Proof.
    intros E. symmetry. apply (is_dir_of_det d v bl rch T pend total fsz Hdi Hlay dc bl rch bld chd); [|exact Hdir].
    left. auto.
  Qed.

  Lemma no_root_head m : In m T -> ~ In CL_ROOT (node_heads m).
  Proof.
    intros Hm Hin. pose proof (di_wf _ _ _ _ _ _ Hdi) as W.
    assert (Hh : In CL_ROOT (heads v T ++ pend)).
    { apply in_or_app. left. unfold heads. apply in_or_app. right. apply in_flat_map. exists m. split; assumption. }
    destruct (heads_in_range d v _ _ W Hh) as (_ & A). pose proof (PrBounds.pl_count _ _ _ Hlay) as Hc.
    unfold CL_ROOT in A. destruct (v_fat32 v); lia.
  Qed.

  Lemma tree_heads_nodup : NoDup (flat_map node_heads T).
  Proof.
    pose proof (wf_heads _ _ _ (di_wf _ _ _ _ _ _ Hdi)) as H. unfold heads in H. rewrite <- app_assoc in H.
    destruct (nodup_app_inv _ _ H) as (_ & H2 & _). exact (proj1 (nodup_app_inv _ _ H2)).
  Qed.

  (* the generic bookkeeping, instantiated: what any kid-list-blind summary of the tree becomes *)
  Lemma fold_upd (f : list node -> list node) X (own : node -> list X) (LA LB : list X) kids :
    (forall e ch k1 k2, own (NDir e ch k1) = own (NDir e ch k2)) ->
    (dc = CL_ROOT /\ kids = T \/ exists e, In (NDir e chd kids) (all_nodes T) /\ e_cluster e = dc) ->
    Permutation (LA ++ flat_map (gfold X own) (f kids)) (LB ++ flat_map (gfold X own) kids) ->
    Permutation (LA ++ flat_map own (all_nodes (forest_upd_kids dc f T))) (LB ++ flat_map own (all_nodes T)).
  Proof.
    intros Hown Hk HP. rewrite !gfold_forest. destruct Hk as [(E & ->)|(e & Hn & E)].
    - apply (gfold_upd_root dc f X own LA LB T E); [|exact HP]. intros m Hm. rewrite E. exact (no_root_head m Hm).
    - apply (gfold_upd_sub dc f X own Hown LA LB T e chd kids tree_heads_nodup); try assumption.
      intros Er. destruct (dir_node_chain d v bl rch T pend Hdi e chd kids Hn) as (_ & Hin & _).
      destruct (heads_in_range d v _ _ (di_wf _ _ _ _ _ _ Hdi) Hin) as (_ & A).
      pose proof (PrBounds.pl_count _ _ _ Hlay) as Hc. rewrite E, Er in A. unfold CL_ROOT in A. destruct (v_fat32 v); lia.
  Qed.

  (* no node of the tree sits at a slot that is not a node slot *)
  Lemma non_node_pos_free : node_slot (blk, i * 32, old) = false -> i < 16 ->
    ~ In p (map node_pos (all_nodes T)).
  Proof.
    intros Hnn Hi Hin. apply in_map_iff in Hin. destruct Hin as (m & Em & Hm).
    destruct (all_nodes_rep d v bl T (di_tree _ _ _ _ _ _ Hdi) m Hm) as (t & bl' & Hr & Ht & _).
    destruct (node_rep_slot d v bl' m t Hr Ht) as (_ & _ & Es & _ & Hns).
    unfold node_pos in Em. injection Em as Eb Eo.
    rewrite (slot_tslot_at d blk i Hi (node_entry m) Eb Eo) in Es. rewrite <- Es in Hns. congruence.
  Qed.

  (* FRAME (b-ii): the node n' is created in the first free slot of the directory dc *)
  Theorem tree_inv_insert n' :
    find nv (slots_of d bld) = Some (blk, i * 32, old) ->
    is_end new = false -> node_slot (blk, i * 32, new) = true ->
    ~ In (t_name (blk, i * 32, new)) (map t_name (dir_shorts d bld)) ->
    node_rep d' v n' (blk, i * 32, new) -> node_ok d' v dc n' ->
    NoDup (map node_pos (flatten n')) ->
    (forall q, In q (map node_pos (flat_map flatten (node_kids n'))) -> ~ In q (map node_pos (all_nodes T))) ->
    exists k, let T' := forest_upd_kids dc (ins_at k n') T in
      tree_inv d' v bl rch T' /\
      forall X (own : node -> list X), (forall e ch k1 k2, own (NDir e ch k1) = own (NDir e ch k2)) ->
        Permutation (flat_map own (all_nodes T')) (flat_map own (flatten n') ++ flat_map own (all_nodes T)).
  Proof.
    intros Hfind Hne Hnode Hfresh Hn' Hok' Hpos1 Hpos2.
    pose proof (dir_blocks_nodup d v bl rch T pend Hdi dc bld chd Hdir) as Hnd.
    destruct (is_dir_of_listing d v bl rch T pend Hdi dc bld chd Hdir) as (kids & par & Hkids & Hdok & Hkok & Hksub & Hwhich).
    destruct (dir_insert d d' v dc par bld blk i new Hsw Hnd Hdok Hfind Hne Hnode Hfresh)
      as ((l1 & l2 & El & El' & Hl12) & Hdok').
    assert (Hi : i < 16).
    { pose proof (find_some _ _ Hfind) as [Hin _]. apply In_slots_of in Hin.
      destruct Hin as (b0 & j & _ & Hj & E). injection E as _ E _. lia. }
    exists (length l1). cbv zeta.
    assert (Hperm : forall X (own : node -> list X), (forall e ch k1 k2, own (NDir e ch k1) = own (NDir e ch k2)) ->
      Permutation (flat_map own (all_nodes (forest_upd_kids dc (ins_at (length l1) n') T)))
                  (flat_map own (flatten n') ++ flat_map own (all_nodes T))).
    { intros X own Hown.
      apply (fold_upd (ins_at (length l1) n') X own [] (flat_map own (flatten n')) kids Hown Hwhich).
      cbn [app]. exact (ins_at_perm (gfold X own) (length l1) n' kids). }
    split; [|exact Hperm].
    pose proof (disk_inv_tree _ _ _ _ _ _ Hdi) as [A B C D F].
    assert (HdokAny : forall par0, dir_ok d v dc par0 bld -> dir_ok d' v dc par0 bld).
    { intros par0 H0. exact (proj2 (dir_insert d d' v dc par0 bld blk i new Hsw Hnd H0 Hfind Hne Hnode Hfresh)). }
    constructor.
    - exact (root_dir_frame d d' v bl rch Hfat A).
    - apply (tree_rep_upd_kids dc _ d d' v T Hfat Hother_ok); [| exact B | exact Hroot_ok |].
      + intros e ch kids0 Hn0 E ks1 Hks1. destruct (dc_blocks e ch kids0 Hn0 E) as (Eb & _). rewrite Eb in *.
        rewrite El in Hks1. rewrite El'. exact (Forall2_insert _ ks1 l1 l2 n' _ Hks1 Hn').
      + intros E ks1 Hks1. rewrite <- (root_is_dc E) in *. rewrite El in Hks1. rewrite El'.
        exact (Forall2_insert _ ks1 l1 l2 n' _ Hks1 Hn').
    - destruct (N.eq_dec dc CL_ROOT) as [E|E].
      + rewrite <- (root_is_dc E). rewrite <- E. apply HdokAny. rewrite E, (root_is_dc E). exact C.
      + apply (dir_ok_frame d d' v); [exact (Hroot_ok E)|exact C].
    - apply (forest_ok_upd_kids dc _ d d' v T Hother_ok); [| |exact D].
      + intros e ch kids0 par0 Hn0 E H0. destruct (dc_blocks e ch kids0 Hn0 E) as (Eb & _). rewrite Eb in *.
        exact (HdokAny par0 H0).
      + intros ks1 Hks1. apply Forall_ins_at; assumption.
    - pose proof (Hperm _ own_pos own_pos_kids) as P. rewrite !flat_map_own_pos in P.
      apply (Permutation_NoDup (Permutation_sym P)). apply nodup_app; [exact Hpos1|exact F|].
      intros q Hq HqT. destruct n' as [e' ch'|e' ch' kids']; cbn [flatten map] in Hq.
      + destruct Hq as [<-|[]]. rewrite (node_rep_pos d' v _ _ Hn') in HqT. cbn [fst] in HqT.
        pose proof (find_some _ _ Hfind) as [_ Hnv]. unfold nv in Hnv. apply negb_true_iff in Hnv.
        exact (non_node_pos_free (proj2 (invalid_not_short _ Hnv)) Hi HqT).
      + destruct Hq as [<-|Hq].
        * rewrite (node_rep_pos d' v _ _ Hn') in HqT. cbn [fst] in HqT.
          pose proof (find_some _ _ Hfind) as [_ Hnv]. unfold nv in Hnv. apply negb_true_iff in Hnv.
          exact (non_node_pos_free (proj2 (invalid_not_short _ Hnv)) Hi HqT).
        * exact (Hpos2 q Hq HqT).
  Qed.

  (* FRAME (b-iii): the node slot at (blk, i*32) of the directory dc becomes a deleted slot *)
  Theorem tree_inv_delete :
    In (blk, i * 32, old) (dir_live d bld) -> node_slot (blk, i * 32, old) = true ->
    is_end new = false -> t_is_valid (blk, i * 32, new) = false ->
    exists k n0, node_rep d v n0 (blk, i * 32, old) /\ In n0 (all_nodes T) /\
      let T' := forest_upd_kids dc (del_at k) T in
      tree_inv d' v bl rch T' /\
      forall X (own : node -> list X), (forall e ch k1 k2, own (NDir e ch k1) = own (NDir e ch k2)) ->
        Permutation (flat_map own (flatten n0) ++ flat_map own (all_nodes T')) (flat_map own (all_nodes T)).
  Proof.
    intros Hin Hnode Hne Hinv.
    pose proof (dir_blocks_nodup d v bl rch T pend Hdi dc bld chd Hdir) as Hnd.
    destruct (is_dir_of_listing d v bl rch T pend Hdi dc bld chd Hdir) as (kids & par & Hkids & Hdok & Hkok & Hksub & Hwhich).
    destruct (dir_delete d d' v dc par bld blk i new Hsw Hnd Hdok Hin Hnode Hne Hinv) as ((l1 & l2 & El & El') & Hdok').
    rewrite El in Hkids. destruct (Forall2_app_inv_r' _ kids l1 _ Hkids) as [_ K2].
    inversion K2 as [|n0 ? r0 ? Hr0 _ Ek]; subst.
    assert (Hnth : nth_error kids (length l1) = Some n0).
    { rewrite <- (firstn_skipn (length l1) kids), <- Ek.
      rewrite nth_error_app2 by (rewrite firstn_length; lia).
      pose proof (Forall2_len _ _ _ (proj1 (Forall2_app_inv_r' _ kids l1 _ Hkids))) as Hlen.
      rewrite Hlen, Nat.sub_diag. reflexivity. }
    exists (length l1), n0. split; [exact Hr0|]. split; [exact (Hksub n0 (nth_error_In _ _ Hnth))|]. cbv zeta.
    assert (Hperm : forall X (own : node -> list X), (forall e ch k1 k2, own (NDir e ch k1) = own (NDir e ch k2)) ->
      Permutation (flat_map own (flatten n0) ++ flat_map own (all_nodes (forest_upd_kids dc (del_at (length l1)) T)))
                  (flat_map own (all_nodes T))).
    { intros X own Hown.
      pose proof (fold_upd (del_at (length l1)) X own (flat_map own (flatten n0)) [] kids Hown Hwhich) as P.
      cbn [app] in P. apply P. exact (del_at_perm (gfold X own) (length l1) n0 kids Hnth). }
    split; [|exact Hperm].
    pose proof (disk_inv_tree _ _ _ _ _ _ Hdi) as [A B C D F].
    assert (HdokAny : forall par0, dir_ok d v dc par0 bld -> dir_ok d' v dc par0 bld).
    { intros par0 H0. exact (proj2 (dir_delete d d' v dc par0 bld blk i new Hsw Hnd H0 Hin Hnode Hne Hinv)). }
    constructor.
    - exact (root_dir_frame d d' v bl rch Hfat A).
    - apply (tree_rep_upd_kids dc _ d d' v T Hfat Hother_ok); [| exact B | exact Hroot_ok |].
      + intros e ch kids0 Hn0 E ks1 Hks1. destruct (dc_blocks e ch kids0 Hn0 E) as (Eb & _). rewrite Eb in *.
        rewrite El in Hks1. rewrite El'. exact (Forall2_delete _ ks1 l1 l2 _ Hks1).
      + intros E ks1 Hks1. rewrite <- (root_is_dc E) in *. rewrite El in Hks1. rewrite El'.
        exact (Forall2_delete _ ks1 l1 l2 _ Hks1).
    - destruct (N.eq_dec dc CL_ROOT) as [E|E].
      + rewrite <- (root_is_dc E). rewrite <- E. apply HdokAny. rewrite E, (root_is_dc E). exact C.
      + apply (dir_ok_frame d d' v); [exact (Hroot_ok E)|exact C].
    - apply (forest_ok_upd_kids dc _ d d' v T Hother_ok); [| |exact D].
      + intros e ch kids0 par0 Hn0 E H0. destruct (dc_blocks e ch kids0 Hn0 E) as (Eb & _). rewrite Eb in *.
        exact (HdokAny par0 H0).
      + intros ks1 Hks1. apply Forall_del_at; assumption.
    - pose proof (Hperm _ own_pos own_pos_kids) as P. rewrite !flat_map_own_pos in P.
      pose proof (Permutation_NoDup (Permutation_sym P) F) as H0. exact (proj1 (proj2 (nodup_app_inv _ _ H0))).
  Qed.
End InsertDelete.

Print Assumptions tree_inv_insert.
Print Assumptions tree_inv_delete.

(* ================================================================== 4d. names, lookups, and the hypotheses of PrOpenClose's open theorems *)
(* an 8.3 name produced by the crate: 11 bytes, none below 32 *)
Definition sfn_shape (sfn : list N) : Prop := length sfn = 11%nat /\ Forall (fun c => 32 <= c) sfn.

Lemma set_byte_shape l idx b : sfn_shape l -> idx < 11 -> 32 <= b -> sfn_shape (set_bytes l idx [b]).
Proof.
  intros [Hl Hf] Hi Hb. split.
  - rewrite set_bytes_length; [exact Hl|]. cbn [length]. lia.
  - unfold set_bytes. apply Forall_app. split; [apply Forall_firstn'; exact Hf|].
    apply Forall_app. split; [constructor; [exact Hb|constructor]|apply Forall_skipn'; exact Hf].
Qed.

Lemma sfn_loop_shape : forall chars contents idx seen sfn, sfn_shape contents ->
  sfn_loop chars contents idx seen = Some sfn -> sfn_shape sfn.
Proof.
  induction chars as [|ch rest IH]; intros contents idx seen sfn Hc H; cbn [sfn_loop] in H.
  - destruct (idx =? 0); [discriminate|]. injection H as <-. exact Hc.
  - destruct (sfn_invalid_char ch) eqn:Ei; [discriminate|].
    destruct (255 <? ch); [discriminate|].
    assert (Hb : 32 <= upper ch).
    { unfold sfn_invalid_char in Ei. apply orb_false_iff in Ei. destruct Ei as [E1 _]. apply N.leb_gt in E1.
      unfold upper. destruct ((97 <=? ch) && (ch <=? 122)) eqn:Eu; [|lia].
      apply andb_true_iff in Eu. destruct Eu as [E2 _]. apply N.leb_le in E2. lia. }
    destruct (ch =? 46).
    + destruct (negb seen && (1 <=? idx) && (idx <=? 8)); [|discriminate]. exact (IH _ _ _ _ Hc H).
    + cbv zeta in H. destruct seen.
      * destruct ((8 <=? idx) && (idx <? 11)) eqn:E; [|discriminate]. apply andb_true_iff in E. destruct E as [_ E].
        apply N.ltb_lt in E. exact (IH _ _ _ _ (set_byte_shape _ _ _ Hc E Hb) H).
      * destruct (idx <? 8) eqn:E; [|discriminate]. apply N.ltb_lt in E.
        assert (E' : idx < 11) by lia.
        exact (IH _ _ _ _ (set_byte_shape _ _ _ Hc E' Hb) H).
Qed.

Theorem sfn_of_str_shape name sfn : sfn_of_str name = Some sfn -> sfn_shape sfn.
Proof.
  unfold sfn_of_str. destruct (list_eqb name [46; 46]).
  - intros H. injection H as <-. split; [reflexivity|]. unfold PARENT_DIR_NAME. repeat constructor; lia.
  - destruct (list_eqb name [] || list_eqb name [46]).
    + intros H. injection H as <-. split; [reflexivity|]. unfold THIS_DIR_NAME. repeat constructor; lia.
    + apply sfn_loop_shape. split; [reflexivity|]. cbn [repeat]. repeat constructor; lia.
Qed.

Lemma find_none_all {A} (q : A -> bool) l : find q l = None -> forall x, In x l -> q x = false.
Proof.
  induction l as [|a l IH]; intros H x Hx; [destruct Hx|]. cbn [find] in H.
  destruct (q a) eqn:E; [discriminate|]. destruct Hx as [<-|Hx]; [exact E|exact (IH H x Hx)].
Qed.

(* what the crate's lookup finds in a sound directory is a node slot (or nothing with that name) *)
Theorem lookup_is_node d v own par bld sfn t : dir_ok d v own par bld -> sfn_shape sfn ->
  get8 sfn 0 <> 229 -> PrModes.dot_name sfn = false ->
  find (t_matches sfn) (live_in_blocks d bld) = Some t ->
  In t (dir_nodes d bld) /\ In t (dir_live d bld) /\ t_name t = sfn.
Proof.
  intros Hok [Hlen Hall] H229 Hdot Hfind.
  rewrite (live_clean d bld (do_tail _ _ _ _ _ Hok)) in Hfind. fold (dir_live d bld) in Hfind.
  destruct (find_some _ _ Hfind) as [Hin Hm]. unfold t_matches in Hm.
  pose proof (matches_first _ _ Hm) as En. fold (t_name t) in En.
  assert (H0 : get8 sfn 0 <> 0).
  { destruct sfn as [|c r]; [discriminate Hlen|]. inversion Hall; subst. unfold get8. cbn. lia. }
  pose proof (matches_valid sfn (snd t) H0 H229 Hm) as Hv. fold (t_is_valid t) in Hv.
  split; [|split; [exact Hin|exact En]].
  unfold dir_nodes. apply filter_In. split; [exact Hin|].
  unfold node_slot, short_slot. rewrite Hv. cbn [andb].
  assert (Hnl : is_lfn (t_attr t) = false) by exact (proj1 (matches_parts _ _ Hm)).
  rewrite Hnl. cbn [negb andb]. unfold dot_slot. rewrite En. unfold PrModes.dot_name in Hdot. rewrite Hdot. reflexivity.
Qed.

Theorem lookup_none d v own par bld sfn : dir_ok d v own par bld ->
  find (t_matches sfn) (live_in_blocks d bld) = None -> ~ In sfn (map t_name (dir_shorts d bld)).
Proof.
  intros Hok Hfind Hin. rewrite (live_clean d bld (do_tail _ _ _ _ _ Hok)) in Hfind. fold (dir_live d bld) in Hfind.
  apply in_map_iff in Hin. destruct Hin as (t & En & Ht). unfold dir_shorts in Ht. apply filter_In in Ht.
  pose proof (find_none_all _ _ Hfind t (proj1 Ht)) as Hm. unfold t_matches, matches in Hm.
  destruct (short_valid t (proj2 Ht)) as [_ Hnl]. unfold t_attr in Hnl.
  unfold t_name in En. rewrite En, list_eqb_refl, Hnl in Hm. discriminate Hm.
Qed.

Section OpenHyps.
  Variables (fsz vid : N) (s : st) (vi : nat) (v : vol) (bl rch : list N) (T : list node).
  Hypothesis Hinv : fs_inv_at fsz vid s vi v bl rch T.
  Let d := s_disk s.
  Let Hdi := fi_disk _ _ _ _ _ _ _ _ Hinv.
  Let Hlay := fi_layout _ _ _ _ _ _ _ _ Hinv.
  Let Hdev := fi_dev _ _ _ _ _ _ _ _ Hinv.

  (* an open directory of the volume is a directory of the tree; dir_blocks finds its blocks *)
  Theorem odir_is_dir dd : In dd (s_dirs s) -> d_vol dd = v_id v ->
    exists bld chd, is_dir_of v bl rch T (d_cluster dd) bld chd /\ dir_blocks d v (d_cluster dd) = Some bld.
  Proof.
    intros Hdd Hvol. pose proof (fi_dirs _ _ _ _ _ _ _ _ Hinv) as Hd. rewrite Forall_forall in Hd.
    pose proof (di_root _ _ _ _ _ _ Hdi) as Hroot. unfold root_dir in Hroot.
    destruct (Hd dd Hdd Hvol) as [E|(e & ch & kids & Hn & E)].
    - exists bl, rch. split; [left; auto|]. rewrite E.
      destruct (v_fat32 v) eqn:E32.
      + destruct Hroot as (A & B).
        assert (Ef : dir_first_cluster v CL_ROOT = v_root_cluster v) by (unfold dir_first_cluster; rewrite E32; reflexivity).
        unfold dir_blocks, d. rewrite E32, Ef. cbn [negb andb]. unfold chain_at in A. rewrite A, B. reflexivity.
      + unfold dir_blocks. rewrite E32. cbn [negb andb]. rewrite N.eqb_refl. destruct Hroot as (_ & B). rewrite B. reflexivity.
    - exists (data_blocks v ch), ch. split; [right; exists e, kids; auto|].
      destruct (dir_node_chain d v bl rch T _ Hdi e ch kids Hn) as (A & Hin & _).
      destruct (heads_in_range d v _ _ (di_wf _ _ _ _ _ _ Hdi) Hin) as (_ & Hr).
      assert (Hne : (d_cluster dd =? CL_ROOT) = false).
      { apply N.eqb_neq. rewrite <- E. pose proof (PrBounds.pl_count _ _ _ Hlay) as Hc. unfold CL_ROOT.
        destruct (v_fat32 v); lia. }
      unfold dir_blocks, dir_first_cluster. rewrite Hne, !andb_false_r. rewrite <- E. unfold chain_at, d in *. rewrite A.
      reflexivity.
  Qed.

  Let W := di_wf _ _ _ _ _ _ Hdi.

  (* a file node of the tree that is not open: its chain is apart from everything the open files own *)
  Theorem closed_node_free e ch (m : list member) : In (NFile e ch) (all_nodes T) ->
    PrModes.is_open s (v_id v) e = false -> chain_free s v m ch /\ dirs_free s v m ch.
  Proof.
    intros Hn Hclosed.
    destruct (heads_nodup v T (pend_of s v) (wf_heads _ _ _ W)) as (N1 & N2 & N3 & N4).
    assert (Hhead : forall x, In x ch -> 2 <= e_cluster e /\ chain_l d v (e_cluster e) = ch /\
                                        In (e_cluster e) (flat_map node_heads T) /\ In (e_cluster e) (own_head (NFile e ch))).
    { intros x Hx. destruct (node_chain_head d v bl T (di_tree _ _ _ _ _ _ Hdi) _ Hn) as [(A & _)|(h & A & B & C)].
      - cbn [node_chain] in A. subst ch. destruct Hx.
      - cbn [node_entry node_chain] in B, C. subst h. cbn [own_head] in A.
        destruct (N.leb_spec 2 (e_cluster e)) as [H2|H2]; [|discriminate A].
        split; [exact H2|]. split; [exact (chain_l_at _ _ _ _ C)|].
        split; [apply (own_head_in T _ _ Hn)|]; cbn [own_head]; apply N.leb_le in H2; rewrite H2; left; reflexivity. }
    assert (Hnot_open : forall f2 e0 ch0, In f2 (s_files s) -> In (NFile e0 ch0) (all_nodes T) ->
              e_block e0 = e_block (f_entry f2) -> e_offset e0 = e_offset (f_entry f2) -> NFile e0 ch0 <> NFile e ch).
    { intros f2 e0 ch0 Hf2 Hn0 Eb Eo Eq. injection Eq as -> _.
      unfold PrModes.is_open in Hclosed. rewrite <- not_true_iff_false in Hclosed. apply Hclosed.
      apply existsb_exists. exists f2. split; [exact Hf2|].
      rewrite (of_vol _ _ _ _ (ofile_of fsz vid s vi v bl rch T Hinv f2 Hf2)), <- Eb, <- Eo, !N.eqb_refl. reflexivity. }
    split.
    - intros h2 fi2 f2 fu ch2 _ (_ & _ & Hfi2) Hch2 x Hx Hx2.
      pose proof (nth_error_In _ _ Hfi2) as Hf2.
      destruct (Hhead x Hx) as (H2 & El & Hin & Hown).
      destruct (chain_of_head _ _ _ _ _ Hch2) as (C2 & _).
      assert (El2 : chain_l d v (e_cluster (f_entry f2)) = ch2) by (apply chain_l_at; exact (chain_of_walk_fuel _ _ _ _ _ Hch2)).
      assert (Ehs : In (e_cluster e) (heads v T ++ pend_of s v))
        by (apply in_or_app; left; unfold heads; apply in_or_app; right; exact Hin).
      pose proof (wf_l_disj d v _ _ _ x W Ehs (ofile_in_hs fsz vid s vi v bl rch T Hinv f2 Hf2 C2)
                    ltac:(rewrite El; exact Hx) ltac:(rewrite El2; exact Hx2)) as E.
      destruct (ofile_head fsz vid s vi v bl rch T Hinv f2 Hf2 C2) as [(e0 & ch0 & Hn0 & Ec & Eb & Eo)|Hp].
      + apply (Hnot_open f2 e0 ch0 Hf2 Hn0 Eb Eo).
        apply (flat_map_owner own_head _ N1 _ _ (e_cluster e) Hn0 Hn); [|exact Hown].
        cbn [own_head]. rewrite Ec, <- E. apply N.leb_le in H2. rewrite H2. left. reflexivity.
      + apply (N4 (e_cluster e) Hin). rewrite E. exact (pending_in s v f2 Hf2 Hp).
    - intros h2 fi2 f2 c0 fu dch _ (_ & _ & Hfi2) Hblk Hdch x Hxd Hx.
      pose proof (nth_error_In _ _ Hfi2) as Hf2.
      destruct (Hhead x Hx) as (H2 & El & Hin & Hown).
      destruct (chain_of_head _ _ _ _ _ Hdch) as (C0 & _).
      destruct (of_node _ _ _ _ (ofile_of fsz vid s vi v bl rch T Hinv f2 Hf2)) as (e0 & ch0 & Hn0 & Eb & _).
      destruct (all_nodes_rep d v bl T (di_tree _ _ _ _ _ _ Hdi) _ Hn0) as (t & bl' & Hr & Ht & Hbl').
      destruct (node_rep_slot d v bl' _ t Hr Ht) as (Hb & _). cbn [node_entry] in Hb. rewrite Eb in Hb.
      assert (Hcase : (bl' = root16_blocks v /\ v_fat32 v = false) \/
                      exists hd chd, chain_at d v hd chd /\ bl' = data_blocks v chd /\
                        (In hd (root_heads v) \/ exists e1 kids1, In (NDir e1 chd kids1) (all_nodes T) /\ e_cluster e1 = hd)).
      { pose proof (di_root _ _ _ _ _ _ Hdi) as Hroot. unfold root_dir in Hroot.
        destruct Hbl' as [->|(e1 & ch1 & kids1 & Hn1 & -> & Hc1)].
        - destruct (v_fat32 v) eqn:E32.
          + right. destruct Hroot as (A & B). exists (v_root_cluster v), rch. split; [exact A|]. split; [exact B|].
            left. unfold root_heads. rewrite E32. left. reflexivity.
          + left. destruct Hroot as (_ & B). auto.
        - right. exists (e_cluster e1), ch1. split; [exact Hc1|]. split; [reflexivity|]. right. exists e1, kids1. auto. }
      destruct Hcase as [(-> & E32)|(hd & chd & Hchd & -> & Hhd)].
      + exact (root16_no_cluster' v _ fsz _ c0 Hlay E32 Hb C0 Hblk).
      + unfold data_blocks in Hb. apply in_flat_map in Hb. destruct Hb as (c1 & Hc1 & Hb1).
        assert (E01 : c0 = c1).
        { destruct (N.eq_dec c0 c1) as [E|Hne]; [exact E|]. exfalso.
          exact (cluster_blocks_apart v c0 c1 _ _ Hne C0 (proj1 (chain_at_mem _ _ _ _ c1 Hchd Hc1)) Hblk Hb1 eq_refl). }
        subst c1. destruct (PrOpenClose.chain_of_suffix _ _ _ _ _ _ Hchd Hc1) as (fu' & l' & Hl' & Hincl).
        pose proof (chain_of_det _ _ _ _ _ _ _ Hdch Hl') as ->.
        assert (Hhs : In hd (heads v T ++ pend_of s v)).
        { apply in_or_app. left. unfold heads. apply in_or_app.
          destruct Hhd as [Hhd|(e1 & kids1 & Hn1 & <-)]; [left; exact Hhd|right].
          apply (own_head_in T _ _ Hn1). left. reflexivity. }
        assert (Ehs : In (e_cluster e) (heads v T ++ pend_of s v))
          by (apply in_or_app; left; unfold heads; apply in_or_app; right; exact Hin).
        pose proof (wf_l_disj d v _ _ _ x W Hhs Ehs ltac:(rewrite (chain_l_at _ _ _ _ Hchd); exact (Hincl x Hxd))
                      ltac:(rewrite El; exact Hx)) as E.
        destruct Hhd as [Hhd|(e1 & kids1 & Hn1 & E1)].
        * apply (proj1 (N3 hd Hhd)). rewrite E. exact Hin.
        * assert (Hc1' : In (e_cluster e) (own_head (NDir e1 chd kids1))) by (cbn [own_head]; left; congruence).
          pose proof (flat_map_owner own_head _ N1 _ _ _ Hn1 Hn Hc1' Hown) as Eq. discriminate Eq.
  Qed.

  (* the directory dc of the tree is a home (PrOpenClose.dir_home) for the chain of a file node, or
     for the empty chain *)
  Theorem fs_inv_dir_home dc bld chd ch (m : list member) : is_dir_of v bl rch T dc bld chd ->
    (ch = [] \/ exists e, In (NFile e ch) (all_nodes T)) -> dir_home s v m bld ch.
  Proof.
    intros Hdir Hch. split.
    - intros j Hj. exact (dir_blocks_not_fat d v bl rch T _ (v_nblocks v) fsz Hdi Hlay Hdev dc bld chd j Hdir Hj).
    - destruct (is_dir_of_chain d v bl rch T _ Hdi dc bld chd Hdir) as [(-> & E32 & _)|(h & A & -> & Hh)].
      + left. intros j c Hj Hc. exact (root16_no_cluster' v _ fsz j c Hlay E32 Hj Hc).
      + right. exists chd, h, (walk_fuel v). split; [exact A|]. split; [reflexivity|].
        assert (Hwho : In h (root_heads v) \/ exists e1 ch1 kids1, In (NDir e1 ch1 kids1) (all_nodes T) /\ e_cluster e1 = h).
        { destruct Hdir as [(-> & Ebl & Erch)|(e1 & kids1 & Hn1 & E1 & _)].
          - left. pose proof (di_root _ _ _ _ _ _ Hdi) as Hroot. unfold root_dir in Hroot. unfold root_heads.
            destruct (v_fat32 v).
            + destruct Hroot as (A' & _). subst chd. left.
              destruct (chain_at_head _ _ _ _ A) as (r & Er). destruct (chain_at_head _ _ _ _ A') as (r' & Er').
              rewrite Er in Er'. injection Er' as -> _. reflexivity.
            + destruct Hroot as (-> & _). subst chd. destruct (chain_at_head _ _ _ _ A) as (r & Er). discriminate Er.
          - right. destruct (dir_node_chain d v bl rch T _ Hdi e1 chd kids1 Hn1) as (A1 & _).
            exists e1, chd, kids1. split; [exact Hn1|].
            destruct (chain_at_head _ _ _ _ A) as (r & Er). destruct (chain_at_head _ _ _ _ A1) as (r' & Er').
            rewrite Er in Er'. injection Er' as -> _. reflexivity. }
        split.
        * destruct Hch as [->|(e & Hn)]; [intros y _ []|].
          intros y Hy Hy2.
          destruct (heads_nodup v T (pend_of s v) (wf_heads _ _ _ W)) as (N1 & _ & N3 & _).
          destruct (node_chain_head d v bl T (di_tree _ _ _ _ _ _ Hdi) _ Hn) as [(B & _)|(h2 & B & C & D)].
          { cbn [node_chain] in B. subst ch. destruct Hy2. }
          cbn [node_entry node_chain] in C, D. subst h2.
          assert (Hin2 : In (e_cluster e) (flat_map node_heads T)) by (apply (own_head_in T _ _ Hn); rewrite B; left; reflexivity).
          assert (Ehs : In (e_cluster e) (heads v T ++ pend_of s v))
            by (apply in_or_app; left; unfold heads; apply in_or_app; right; exact Hin2).
          pose proof (wf_l_disj d v _ _ _ y W Hh Ehs ltac:(rewrite (chain_l_at _ _ _ _ A); exact Hy)
                        ltac:(rewrite (chain_l_at _ _ _ _ D); exact Hy2)) as E.
          destruct Hwho as [Hr|(e1 & ch1 & kids1 & Hn1 & E1)].
          -- apply (proj1 (N3 h Hr)). rewrite E. exact Hin2.
          -- assert (Hc1' : In (e_cluster e) (own_head (NDir e1 ch1 kids1))) by (cbn [own_head]; left; congruence).
             assert (Hc2' : In (e_cluster e) (own_head (NFile e ch))) by (rewrite B; left; reflexivity).
             pose proof (flat_map_owner own_head _ N1 _ _ _ Hn1 Hn Hc1' Hc2') as Eq. discriminate Eq.
        * intros h2 fi2 f2 fu ch2 _ (_ & _ & Hfi2) Hch2.
          pose proof (nth_error_In _ _ Hfi2) as Hf2.
          destruct (chain_of_head _ _ _ _ _ Hch2) as (C2 & _).
          pose proof (dir_chain_apart fsz vid s vi v bl rch T Hinv h f2 Hwho Hf2) as Hd.
          unfold d in *. rewrite (chain_l_at _ _ _ _ A) in Hd. unfold fchain in Hd.
          apply N.ltb_ge in C2. rewrite C2 in Hd.
          rewrite (chain_l_at _ _ _ _ (chain_of_walk_fuel _ _ _ _ _ Hch2)) in Hd. exact Hd.
  Qed.
End OpenHyps.

Print Assumptions closed_node_free.
Print Assumptions fs_inv_dir_home.
Print Assumptions lookup_is_node.

(* ================================================================== 8. examples: the invariant is satisfiable, the decider discriminates *)
(* PrDir's FAT16 example geometry (100 clusters of 2 blocks, FAT at block 11, root region 22..23,
   data from block 30).  Root: file A (clusters 2 -> 3, 1500 bytes), directory D (cluster 4),
   file B (no cluster yet in its slot).  D: ".", "..", file C (cluster 5, 10 bytes).  B is OPEN,
   written but not flushed: its record holds first cluster 6 and size 5 - a PENDING chain (the FAT
   entry of 6 is an end-of-chain mark).  The root and D are open as directories. *)
Definition gx_name (c : N) : list N := c :: repeat 32 10.
Definition gx_ent (name : list N) (attr cl size : N) : list N :=
  ser_bytes false (mk_dirent name (clock_ts 3) (clock_ts 3) attr cl size 0 0).
Definition gx_root_blk : block :=
  set_bytes zero_block 0 (gx_ent (gx_name 65) 32 2 1500 ++ gx_ent (gx_name 68) 16 4 0 ++ gx_ent (gx_name 66) 32 0 0).
Definition gx_dir_blk : block :=
  set_bytes zero_block 0 (gx_ent THIS_DIR_NAME 16 4 0 ++ gx_ent PARENT_DIR_NAME 16 0 0 ++ gx_ent (gx_name 67) 32 5 10).
Definition gx_fat : block :=
  set_bytes zero_block 0 [248;255; 255;255; 3;0; 255;255; 255;255; 255;255; 255;255].
Definition gx_disk_of (fat root dir : block) : disk :=
  disk_set (disk_set (disk_set (PositiveMap.empty block) 11 fat) 22 root) 34 dir.
Definition gx_disk : disk := gx_disk_of gx_fat gx_root_blk gx_dir_blk.
Definition gx_entryB : dirent :=
  set_e_size (set_e_cluster (get_entry false (slot gx_root_blk 2) 22 64) 6) 5.
Definition gx_fileB : fileinfo := mk_fileinfo 7 0 0 6 0 ReadWriteCreate gx_entryB true.
Definition gx_state : st :=
  mk_st gx_disk zero_block None [exd_vol] [mk_dirinfo 5 0 CL_ROOT; mk_dirinfo 9 0 4] [gx_fileB]
        10 0 0 [] [] false 1 4 4.

Lemma gx_disk_wf fat root dir : length fat = 512%nat -> length root = 512%nat -> length dir = 512%nat ->
  blocks_wf (gx_disk_of fat root dir).
Proof.
  intros H1 H2 H3 i. unfold gx_disk_of.
  destruct (N.eq_dec 34 i) as [<-|H34]; [rewrite disk_get_set_same; exact H3|].
  rewrite disk_get_set_other by exact H34.
  destruct (N.eq_dec 22 i) as [<-|H22]; [rewrite disk_get_set_same; exact H2|].
  rewrite disk_get_set_other by exact H22.
  destruct (N.eq_dec 11 i) as [<-|H11]; [rewrite disk_get_set_same; exact H1|].
  rewrite disk_get_set_other by exact H11.
  unfold disk_get. rewrite PositiveMap.gempty. reflexivity.
Qed.

Example fs_inv_example : fs_inv 1 0 gx_state /\ pend_of gx_state exd_vol = [6].
Proof.
  split; [|vm_compute; reflexivity].
  assert (Hb : fs_inv_b 5 1 gx_disk exd_vol [6] = true) by (vm_compute; reflexivity).
  unfold fs_inv_b in Hb. apply andb_true_iff in Hb. destruct Hb as [Hv Hd].
  destruct (vol_inv_b_sound _ _ Hv) as (Hlay & Hdev & HL & Hfit & Hspc & Hinfo).
  destruct (disk_inv_b_sound _ _ _ _ Hd) as (bl & rch & T & Er & Et & Hdi).
  vm_compute in Er. injection Er as <- <-. vm_compute in Et. injection Et as <-.
  assert (Hwf : blocks_wf gx_disk) by (apply gx_disk_wf; reflexivity).
  assert (Hpre : alloc_pre gx_state 0 exd_vol 1).
  { split; [|split; [exact HL|intros c E; discriminate E]].
    split; [intros n H; destruct H|]. split; [intros i H; discriminate H|]. split; [reflexivity|].
    intros k _. apply Hwf. }
  eexists 0%nat, exd_vol, _, _, _. constructor.
  - reflexivity.
  - reflexivity.
  - split; [reflexivity|]. split; [exact Hpre|]. split; [exact Hfit|]. split; [exact Hspc|]. split; [exact Hwf|reflexivity].
  - exact Hlay.
  - exact Hdev.
  - exact Hinfo.
  - replace (pend_of gx_state exd_vol) with [6] by (vm_compute; reflexivity). exact Hdi.
  - constructor; [|constructor].
    assert (Efc : fchain (s_disk gx_state) exd_vol gx_fileB = [6]) by (vm_compute; reflexivity).
    constructor; rewrite ?Efc.
    + reflexivity.
    + constructor; [split; vm_compute; reflexivity|split; vm_compute; reflexivity|reflexivity|vm_compute; discriminate|].
      apply exd_not_fat. vm_compute. discriminate.
    + eexists _, _. split; [cbn [all_nodes flat_map flatten app In]; right; right; right; left; reflexivity|].
      split; [reflexivity|]. split; [reflexivity|]. split; [reflexivity|].
      right. split; [vm_compute; reflexivity|vm_compute; discriminate].
    + split; reflexivity.
    + left. split; [vm_compute; discriminate|]. split; [exists 5%nat; vm_compute; reflexivity|].
      exists 0%nat. split; reflexivity.
    + vm_compute. discriminate.
    + vm_compute. discriminate.
    + vm_compute. reflexivity.
    + intros _. reflexivity.
  - cbn. repeat constructor; cbn; intuition discriminate.
  - cbn. repeat constructor; cbn; intuition discriminate.
  - constructor; [intros _; left; reflexivity|]. constructor; [|constructor].
    intros _. right. eexists _, _, _.
    split; [cbn [all_nodes flat_map flatten app In]; right; left; reflexivity|reflexivity].
Qed.

(* the decider REJECTS three corrupted variants of the image:
   1 cross-linked chains: the FAT entry of cluster 5 (file C) links to cluster 3 (the chain of A);
   2 a duplicate name: the third root entry is called "A" as well;
   3 a sub-directory without dot entries: D holds the entry of C only *)
Definition gx_fat_cross : block := set_bytes gx_fat 10 [3; 0].
Definition gx_root_dup : block :=
  set_bytes zero_block 0 (gx_ent (gx_name 65) 32 2 1500 ++ gx_ent (gx_name 68) 16 4 0 ++ gx_ent (gx_name 65) 32 0 0).
Definition gx_dir_nodots : block := set_bytes zero_block 0 (gx_ent (gx_name 67) 32 5 10).

Example fs_inv_b_rejects :
  fs_inv_b 5 1 (gx_disk_of gx_fat_cross gx_root_blk gx_dir_blk) exd_vol [6] = false /\
  fs_inv_b 5 1 (gx_disk_of gx_fat gx_root_dup gx_dir_blk) exd_vol [6] = false /\
  fs_inv_b 5 1 (gx_disk_of gx_fat gx_root_blk gx_dir_nodots) exd_vol [6] = false /\
  (* ... and a leaked chain: the pending head forgotten *)
  fs_inv_b 5 1 gx_disk exd_vol [] = false.
Proof. repeat split; vm_compute; reflexivity. Qed.

(* the model run from the example state: create E, write it, flush it, close B (its pending chain
   is recorded), make directory F, delete C, write E again (a second cluster), open F, close E.
   Every call succeeds and the decider accepts the image after EVERY prefix, with the pending
   heads of that moment (a sanity check of the invariant against the executable model). *)
Definition gx_ops : list op :=
  [OpenFile 5 [69] ReadWriteCreate; Write 10 [1; 2; 3]; Flush 10; CloseFile 7; Mkdir 5 [70];
   Delete 9 [67]; Write 10 (repeat 9 1200); OpenDir 5 [70]; CloseFile 10].
Fixpoint gx_check (ops : list op) (s : st) : list (bool * bool) :=
  match ops with
  | [] => []
  | o :: rest =>
      let '(r, s1) := step o s in
      let v := hd exd_vol (s_vols s1) in
      (match r with Ok _ => true | _ => false end,
       fs_inv_b 5 1 (s_disk s1) v (pend_of s1 v)) :: gx_check rest s1
  end.
Example fs_inv_run_example : Forall (fun p => p = (true, true)) (gx_check gx_ops gx_state).
Proof. vm_compute. repeat constructor. Qed.

(* long names with arbitrary UTF-16: PrDir's witness fragment (sequence byte 0x41, five units
   U+4242, attribute 0x0F - its first 11 bytes spell the 8.3 name "ABBBBBBB.BBB", none of them is
   below 0x20) in front of the entry of C in the directory D.  The decider accepts the image, an
   open / delete of that 8.3 name in D says NotFound, and the run of gx_ops (which deletes C behind
   the fragment) keeps the decider true after every call. *)
Definition gx_dir_cjk : block :=
  set_bytes zero_block 0 (gx_ent THIS_DIR_NAME 16 4 0 ++ gx_ent PARENT_DIR_NAME 16 0 0 ++ lfn_slot_cjk ++
                          gx_ent (gx_name 67) 32 5 10).
Definition gx_state_cjk : st :=
  mk_st (gx_disk_of gx_fat gx_root_blk gx_dir_cjk) zero_block None [exd_vol]
        [mk_dirinfo 5 0 CL_ROOT; mk_dirinfo 9 0 4] [gx_fileB] 10 0 0 [] [] false 1 4 4.
Example fs_inv_cjk_lfn_example :
  forallb (fun x => 32 <=? x) (firstn 11 lfn_slot_cjk) = true /\
  fs_inv_b 5 1 (s_disk gx_state_cjk) exd_vol [6] = true /\
  fst (step (OpenFile 9 [65; 66; 66; 66; 66; 66; 66; 66; 46; 66; 66; 66] ReadOnly) gx_state_cjk) = Err NotFound /\
  fst (step (Delete 9 [65; 66; 66; 66; 66; 66; 66; 66; 46; 66; 66; 66]) gx_state_cjk) = Err NotFound /\
  Forall (fun p => p = (true, true)) (gx_check gx_ops gx_state_cjk).
Proof. vm_compute. repeat split; try reflexivity. repeat constructor. Qed.

Print Assumptions fs_inv_example.
Print Assumptions fs_inv_cjk_lfn_example.

(* ================================================================== 5d. FRAME: a directory grows by one zeroed cluster *)
Lemma nth_repeat0 k : forall n, nth n (repeat 0 k) 0 = 0.
Proof. induction k as [|k IH]; intros [|n]; cbn; auto. Qed.

Lemma zero_slots_end d zb : (forall j, In j zb -> disk_get d j = zero_block) ->
  Forall (fun t => t_is_end t = true) (slots_of d zb).
Proof.
  intros H. apply Forall_forall. intros t Ht. destruct (In_slots_of d zb t Ht) as (b & i & Hb & Hi & ->).
  unfold t_is_end, is_end. cbn [snd]. rewrite (H b Hb), get8_slot by lia.
  unfold get8, zero_block. rewrite nth_repeat0. reflexivity.
Qed.

Lemma In_after_end l t : In t (after_end l) -> In t l.
Proof.
  induction l as [|x l IH]; intros H; [destruct H|]. cbn [after_end] in H.
  destruct (t_is_end x); [exact H|right; exact (IH H)].
Qed.

(* appending zeroed blocks to a directory changes neither its listing nor its soundness *)
Lemma grow_live d d' bld zb : (forall j, In j bld -> disk_get d' j = disk_get d j) ->
  (forall j, In j zb -> disk_get d' j = zero_block) ->
  dir_live d' (bld ++ zb) = dir_live d bld /\
  (clean_tail (slots_of d bld) -> clean_tail (slots_of d' (bld ++ zb))).
Proof.
  intros Hb Hz. pose proof (zero_slots_end d' zb Hz) as HZ.
  assert (E : slots_of d' (bld ++ zb) = slots_of d bld ++ slots_of d' zb).
  { unfold slots_of at 1. rewrite flat_map_app. fold (slots_of d' bld). fold (slots_of d' zb).
    rewrite (slots_of_ext d d' bld Hb). reflexivity. }
  split.
  - unfold dir_live. rewrite E, before_end_all_app.
    destruct (existsb t_is_end (slots_of d bld)) eqn:Ee; [reflexivity|].
    rewrite (all_end_before _ HZ), app_nil_r. symmetry. apply before_end_all_none. exact Ee.
  - unfold clean_tail. rewrite E, after_end_app. intros Hc.
    destruct (existsb t_is_end (slots_of d bld)).
    + apply Forall_app. split; [exact Hc|exact HZ].
    + rewrite Forall_forall in *. intros t Ht. apply HZ. exact (In_after_end _ _ Ht).
Qed.

Lemma grow_dir_ok d d' v own par bld zb : (forall j, In j bld -> disk_get d' j = disk_get d j) ->
  (forall j, In j zb -> disk_get d' j = zero_block) ->
  dir_ok d v own par bld -> dir_ok d' v own par (bld ++ zb).
Proof.
  intros Hb Hz [A B D]. destruct (grow_live d d' bld zb Hb Hz) as [El Hct]. constructor.
  - exact (Hct A).
  - unfold dir_shorts. rewrite El. exact B.
  - rewrite El. exact D.
Qed.

Lemma grow_dir_nodes d d' bld zb : (forall j, In j bld -> disk_get d' j = disk_get d j) ->
  (forall j, In j zb -> disk_get d' j = zero_block) -> dir_nodes d' (bld ++ zb) = dir_nodes d bld.
Proof. intros Hb Hz. unfold dir_nodes. rewrite (proj1 (grow_live d d' bld zb Hb Hz)). reflexivity. Qed.

Lemma data_blocks_snoc v ch c : data_blocks v (ch ++ [c]) = data_blocks v ch ++ cluster_blocks v c.
Proof. unfold data_blocks. rewrite flat_map_app. cbn [flat_map]. rewrite app_nil_r. reflexivity. Qed.

(* the chain of the directory node with first cluster dc is replaced *)
Fixpoint node_set_chain (dc : N) (ch' : list N) (n : node) {struct n} : node :=
  match n with
  | NFile _ _ => n
  | NDir e ch kids => NDir e (if e_cluster e =? dc then ch' else ch) (map (node_set_chain dc ch') kids)
  end.
Definition forest_set_chain (dc : N) (ch' : list N) (T : list node) : list node := map (node_set_chain dc ch') T.

Lemma node_entry_set_chain dc ch' n : node_entry (node_set_chain dc ch' n) = node_entry n.
Proof. destruct n; reflexivity. Qed.

Lemma flatten_set_chain dc ch' : forall n, flatten (node_set_chain dc ch' n) = map (node_set_chain dc ch') (flatten n).
Proof.
  induction n as [e ch|e ch kids IH] using node_ind'; [reflexivity|]. cbn [node_set_chain flatten map]. f_equal.
  induction IH as [|k ks Hk _ IHks]; [reflexivity|]. cbn [map flat_map]. rewrite map_app, Hk, IHks. reflexivity.
Qed.

Lemma all_nodes_set_chain dc ch' T : all_nodes (forest_set_chain dc ch' T) = map (node_set_chain dc ch') (all_nodes T).
Proof.
  unfold all_nodes, forest_set_chain. induction T as [|n T IH]; [reflexivity|].
  cbn [map flat_map]. rewrite map_app, flatten_set_chain, IH. reflexivity.
Qed.

(* every kid-list- and chain-blind summary is unchanged: heads, positions, file nodes *)
Lemma summary_set_chain dc ch' T X (own : node -> list X) :
  (forall n, own (node_set_chain dc ch' n) = own n) ->
  flat_map own (all_nodes (forest_set_chain dc ch' T)) = flat_map own (all_nodes T).
Proof.
  intros H. rewrite all_nodes_set_chain, flat_map_concat_map, map_map, <- flat_map_concat_map.
  apply flat_map_ext_in'. intros n _. apply H.
Qed.

Lemma heads_set_chain v dc ch' T : heads v (forest_set_chain dc ch' T) = heads v T.
Proof.
  unfold heads. rewrite !heads_all_nodes. f_equal. apply summary_set_chain. intros [e ch|e ch kids]; reflexivity.
Qed.

Lemma positions_set_chain dc ch' T : map node_pos (all_nodes (forest_set_chain dc ch' T)) = map node_pos (all_nodes T).
Proof.
  rewrite all_nodes_set_chain, map_map. apply map_ext. intros n. unfold node_pos. rewrite node_entry_set_chain. reflexivity.
Qed.

Section Grow.
  Variables (d d' : disk) (v : vol) (dc c : N) (chd : list N).
  (* the new chain of the directory, its new cluster zeroed *)
  Hypothesis Hnew : chain_at d' v dc (chd ++ [c]).
  Hypothesis Hzero : forall j, In j (cluster_blocks v c) -> disk_get d' j = zero_block.

  (* the chains of all nodes but the directory dc are the same, the directory blocks are untouched *)
  Definition grow_frame (L : list node) : Prop :=
    forall m, In m L ->
      (forall j, In j (match m with NDir _ ch _ => data_blocks v ch | NFile _ _ => [] end) -> disk_get d' j = disk_get d j) /\
      (node_chain m <> [] -> (forall e ch kids, m = NDir e ch kids -> e_cluster e <> dc) ->
       chain_at d' v (e_cluster (node_entry m)) (node_chain m)) /\
      (forall e ch kids, m = NDir e ch kids -> e_cluster e = dc -> ch = chd).

  Lemma node_rep_grow : forall n t, grow_frame (flatten n) ->
    node_rep d v n t -> node_rep d' v (node_set_chain dc (chd ++ [c]) n) t.
  Proof.
    induction n as [e ch|e ch kids IH] using node_ind'; intros t Hf H.
    - cbn [node_set_chain]. apply node_rep_file in H. apply node_rep_file. destruct H as (A & B & [(C1 & C2)|C]).
      + split; [exact A|]. split; [exact B|]. left. split; [exact C1|]. exists (walk_fuel v).
        destruct C2 as (fu & C2). destruct (chain_of_head _ _ _ _ _ C2) as (_ & _ & l' & El).
        destruct (Hf (NFile e ch) (flatten_self _)) as (_ & Hc & _). apply Hc; cbn [node_chain].
        * rewrite El. discriminate.
        * intros e0 ch0 kids0 E0. discriminate E0.
      + split; [exact A|]. split; [exact B|]. right. exact C.
    - cbn [node_set_chain]. apply node_rep_dir in H. apply node_rep_dir. destruct H as (A & B & C & D).
      destruct (Hf (NDir e ch kids) (flatten_self _)) as (Hb & Hc & Hd).
      assert (K : Forall2 (node_rep d' v) (map (node_set_chain dc (chd ++ [c])) kids) (dir_nodes d (data_blocks v ch))).
      { apply (Forall2_map_l _ _ _ _ _ D). intros k t' Hk Hr. rewrite Forall_forall in IH. apply (IH k Hk); [|exact Hr].
        intros m Hm. apply Hf. exact (flatten_kid e ch kids k m Hk Hm). }
      split; [exact A|]. split; [exact B|].
      destruct (N.eqb_spec (e_cluster e) dc) as [E|E].
      + pose proof (Hd e ch kids eq_refl E) as ->. split; [rewrite E; exact Hnew|].
        rewrite data_blocks_snoc, (grow_dir_nodes d d' (data_blocks v chd) (cluster_blocks v c) Hb Hzero). exact K.
      + split.
        * apply Hc; cbn [node_chain]; [destruct (chain_at_head _ _ _ _ C) as (r & ->); discriminate|].
          intros e0 ch0 kids0 E0. injection E0 as <- _ _. exact E.
        * rewrite (dir_nodes_ext d d' (data_blocks v ch) Hb). exact K.
  Qed.

  Lemma node_ok_grow : forall n par, grow_frame (flatten n) ->
    node_ok d v par n -> node_ok d' v par (node_set_chain dc (chd ++ [c]) n).
  Proof.
    induction n as [e ch|e ch kids IH] using node_ind'; intros par Hf H.
    - exact H.
    - cbn [node_set_chain]. apply node_ok_dir in H. destruct H as (A & B). apply node_ok_dir.
      destruct (Hf (NDir e ch kids) (flatten_self _)) as (Hb & _ & Hd). split.
      + destruct (N.eqb_spec (e_cluster e) dc) as [E|E].
        * pose proof (Hd e ch kids eq_refl E) as ->. rewrite data_blocks_snoc.
          exact (grow_dir_ok d d' v _ _ _ _ Hb Hzero A).
        * exact (dir_ok_frame d d' v _ _ _ Hb A).
      + rewrite Forall_forall in *. intros k Hk. apply in_map_iff in Hk. destruct Hk as (k0 & <- & Hk0).
        apply (IH k0 Hk0); [|exact (B k0 Hk0)]. intros m Hm. apply Hf. exact (flatten_kid e ch kids k0 m Hk0 Hm).
  Qed.

  (* FRAME (d), a sub-directory grows: same tree but for the chain of that directory node *)
  Theorem tree_inv_grow bl rch T : tree_inv d v bl rch T -> grow_frame (all_nodes T) ->
    (forall j, In j bl -> disk_get d' j = disk_get d j) ->
    (v_fat32 v = true -> chain_at d' v (v_root_cluster v) rch) ->
    tree_inv d' v bl rch (forest_set_chain dc (chd ++ [c]) T).
  Proof.
    intros [A B C D F] Hf Hb Hr. constructor.
    - unfold root_dir in *. destruct (v_fat32 v); [|exact A]. split; [exact (Hr eq_refl)|exact (proj2 A)].
    - unfold tree_rep, forest_set_chain in *. rewrite (dir_nodes_ext d d' bl Hb).
      apply (Forall2_map_l _ _ _ _ _ B). intros n t Hn Hrn. apply node_rep_grow; [|exact Hrn].
      intros m Hm. apply Hf. apply in_flat_map. exists n. split; assumption.
    - exact (dir_ok_frame d d' v _ _ _ Hb C).
    - unfold forest_set_chain. rewrite Forall_forall in *. intros n Hn. apply in_map_iff in Hn.
      destruct Hn as (n0 & <- & Hn0). apply node_ok_grow; [|exact (D n0 Hn0)].
      intros m Hm. apply Hf. apply in_flat_map. exists n0. split; assumption.
    - rewrite positions_set_chain. exact F.
  Qed.
End Grow.

(* FRAME (d), the FAT32 root directory grows: same tree, longer root chain and block list *)
Theorem tree_inv_grow_root d d' v bl rch T c : tree_inv d v bl rch T -> v_fat32 v = true ->
  chain_at d' v (v_root_cluster v) (rch ++ [c]) ->
  (forall j, In j (cluster_blocks v c) -> disk_get d' j = zero_block) ->
  (forall j, In j (tree_dir_blocks v bl T) -> disk_get d' j = disk_get d j) ->
  (forall m, In m (all_nodes T) -> node_chain m <> [] -> chain_at d' v (e_cluster (node_entry m)) (node_chain m)) ->
  tree_inv d' v (bl ++ cluster_blocks v c) (rch ++ [c]) T.
Proof.
  intros [A B C D F] E32 Hnew Hzero Hb Hc. unfold tree_dir_blocks in Hb.
  assert (Hbl : forall j, In j bl -> disk_get d' j = disk_get d j) by (intros j Hj; apply Hb; apply in_or_app; left; exact Hj).
  constructor.
  - unfold root_dir in *. rewrite E32 in *. split; [exact Hnew|]. rewrite data_blocks_snoc, (proj2 A). reflexivity.
  - unfold tree_rep in *. rewrite (grow_dir_nodes d d' bl (cluster_blocks v c) Hbl Hzero).
    apply (Forall2_impl_in _ _ _ _ B). intros n t Hn _ Hrn. apply (node_rep_chains d d' v n t); [| |exact Hrn].
    + intros j Hj. apply Hb. apply in_or_app. right. apply in_flat_map. exists n. split; assumption.
    + intros m Hm. apply Hc. apply in_flat_map. exists n. split; assumption.
  - exact (grow_dir_ok d d' v _ _ _ _ Hbl Hzero C).
  - rewrite Forall_forall in *. intros n Hn. apply (node_ok_frame d d' v); [|exact (D n Hn)].
    intros j Hj. apply Hb. apply in_or_app. right. apply in_flat_map. exists n. split; assumption.
  - exact F.
Qed.

Print Assumptions tree_inv_grow.
Print Assumptions tree_inv_grow_root.

(* ================================================================== 4e. C03, spelled out *)
(* consecutive clusters are linked by their FAT entries, the last entry is an end-of-chain mark *)
Fixpoint linked (d : disk) (v : vol) (l : list N) : Prop :=
  match l with
  | [] => True
  | x :: r => match r with
              | [] => fat_eoc_min v <= fat_get d v 0 x
              | y :: _ => fat_get d v 0 x = y /\ linked d v r
              end
  end.

(* the chain ch of the cluster h: starts at h, stays inside the data area, never passes through a
   free entry or a bad-cluster mark, follows the FAT links, ends at an end-of-chain mark, and
   visits no cluster twice (so no out-of-range / reserved link either: every member is in range) *)
Record chain_sound (d : disk) (v : vol) (h : N) (ch : list N) : Prop := mk_chain_sound {
  cs_head : exists r, ch = h :: r;
  cs_range : Forall (fun x => 2 <= x /\ x < v_clusters v + 2 /\ fat_get d v 0 x <> 0 /\ fat_get d v 0 x <> fat_bad v) ch;
  cs_links : linked d v ch;
  cs_acyclic : NoDup ch
}.

Lemma chain_of_linked d v : forall f c l, chain_of d v c f = Some l -> linked d v l.
Proof.
  induction f as [|f IH]; intros c l H; [discriminate|].
  cbn [chain_of] in H. destruct ((2 <=? c) && (c <? v_clusters v + 2)); [|discriminate].
  cbv zeta in H. rewrite fat_entry_get in H.
  destruct (fat_get d v 0 c =? fat_bad v); [discriminate|].
  destruct (N.leb_spec (fat_eoc_min v) (fat_get d v 0 c)) as [He|He].
  - injection H as <-. exact He.
  - destruct (chain_of d v (fat_get d v 0 c) f) as [l0|] eqn:E; [|discriminate]. injection H as <-.
    destruct (chain_of_head _ _ _ _ _ E) as (_ & _ & l' & ->). cbn [linked]. split; [reflexivity|exact (IH _ _ E)].
Qed.

Theorem chain_at_sound d v h ch : chain_at d v h ch -> chain_sound d v h ch.
Proof.
  intros H. constructor.
  - exact (chain_at_head _ _ _ _ H).
  - apply Forall_forall. intros x Hx. exact (chain_at_mem _ _ _ _ x H Hx).
  - exact (chain_of_linked d v _ _ _ H).
  - exact (chain_at_nodup _ _ _ _ H).
Qed.

(* the directory that lists a node: the root, or a directory node of the tree *)
Definition listed_in (T : list node) (n : node) (parent : N) : Prop :=
  (parent = CL_ROOT /\ In n T) \/
  (exists e ch kids, In (NDir e ch kids) (all_nodes T) /\ parent = e_cluster e /\ In n kids).

Lemma node_ok_flat d v : forall m par, node_ok d v par m -> forall T0, (forall x, In x (flatten m) -> In x (all_nodes T0)) ->
  listed_in T0 m par ->
  forall e ch kids, In (NDir e ch kids) (flatten m) ->
    exists parent, dir_ok d v (e_cluster e) parent (data_blocks v ch) /\ listed_in T0 (NDir e ch kids) parent.
Proof.
  induction m as [e0 ch0|e0 ch0 kids0 IH] using node_ind'; intros par Hm T0 Hsub Hl e ch kids Hin.
  - destruct Hin as [Hin|[]]. discriminate Hin.
  - apply node_ok_dir in Hm. destruct Hm as (Hd & Hks). destruct Hin as [Hin|Hin].
    + injection Hin as <- <- <-. exists par. split; [exact Hd|exact Hl].
    + apply in_flat_map in Hin. destruct Hin as (k & Hk & Hin). rewrite Forall_forall in IH, Hks.
      apply (IH k Hk (e_cluster e0) (Hks k Hk) T0); [| |exact Hin].
      * intros x Hx. apply Hsub. exact (flatten_kid e0 ch0 kids0 k x Hk Hx).
      * right. exists e0, ch0, kids0. split; [apply Hsub; apply flatten_self|]. split; [reflexivity|exact Hk].
Qed.

(* C03: after every call (fs_inv is the post-condition of step_ok) the on-disk volume together
   with the pending state of the open files is structurally sound *)
Theorem fs_inv_C03 fsz vid s : fs_inv fsz vid s ->
  exists v bl rch T, s_vols s = [v] /\ v_id v = vid /\
    let d := s_disk s in
    root_dir d v bl rch /\ tree_rep d v bl T /\
    (* chains: the FAT32 root chain, the chain of every file and directory of the tree, the chain an
       open file holds in memory (possibly not yet recorded in its slot) *)
    (v_fat32 v = true -> chain_sound d v (v_root_cluster v) rch) /\
    (forall n, In n (all_nodes T) ->
       (node_chain n = [] /\ node_is_dir n = false /\ e_cluster (node_entry n) < 2) \/
       chain_sound d v (e_cluster (node_entry n)) (node_chain n)) /\
    (forall f, In f (s_files s) ->
       (fchain d v f = [] /\ e_cluster (f_entry f) < 2) \/ chain_sound d v (e_cluster (f_entry f)) (fchain d v f)) /\
    (* no cluster belongs to two chains (nor twice to one) *)
    NoDup (rch ++ flat_map node_chain (all_nodes T) ++ all_chains d v (pend_of s v)) /\
    (* every chain is long enough for the recorded size *)
    (forall e ch, In (NFile e ch) (all_nodes T) -> e_size e <= N.of_nat (length ch) * bytes_per_cluster v) /\
    (forall f, In f (s_files s) -> e_size (f_entry f) <= N.of_nat (length (fchain d v f)) * bytes_per_cluster v) /\
    (* directories: unique names, nothing after the end marker, dot entries (dir_ok), for the
       root and - with the directory that lists it as parent - for every directory of the tree *)
    dir_ok d v CL_ROOT CL_ROOT bl /\
    (forall e ch kids, In (NDir e ch kids) (all_nodes T) ->
       exists parent, dir_ok d v (e_cluster e) parent (data_blocks v ch) /\ listed_in T (NDir e ch kids) parent).
Proof.
  intros (vi & v & bl & rch & T & H). exists v, bl, rch, T.
  pose proof (fi_disk _ _ _ _ _ _ _ _ H) as Hdi. pose proof Hdi as [Hroot HT Hrok Hnodes W _].
  split; [exact (fi_single _ _ _ _ _ _ _ _ H)|]. split; [exact (fi_vid _ _ _ _ _ _ _ _ H)|]. cbv zeta.
  split; [exact Hroot|]. split; [exact HT|].
  split.
  { intros E32. unfold root_dir in Hroot. rewrite E32 in Hroot. exact (chain_at_sound _ _ _ _ (proj1 Hroot)). }
  split.
  { intros n Hn. destruct (node_chain_head _ _ _ _ HT n Hn) as [(A & B)|(h & A & -> & C)].
    - left. split; [exact A|]. destruct n as [e ch|e ch kids]; cbn [own_head] in B; [|discriminate B].
      split; [reflexivity|]. cbn [node_entry]. destruct (N.leb_spec 2 (e_cluster e)); [discriminate B|assumption].
    - right. exact (chain_at_sound _ _ _ _ C). }
  split.
  { intros f Hf. pose proof (of_chain _ _ _ _ (ofile_of fsz vid s vi v bl rch T H f Hf)) as [(A & (fu & B) & _)|(A & B & _)].
    - right. unfold fchain. apply N.ltb_ge in A. rewrite A.
      pose proof (chain_of_walk_fuel _ _ _ _ _ B) as B'. fold (chain_at (s_disk s) v (e_cluster (f_entry f)) (fchain (s_disk s) v f)) in B'.
      rewrite (chain_l_at _ _ _ _ B'). exact (chain_at_sound _ _ _ _ B').
    - left. split; [exact B|exact A]. }
  split.
  { destruct (proj1 (fat_wf_flat _ _ _) W) as (_ & Hnd & _).
    unfold all_chains, heads in Hnd. rewrite !flat_map_app in Hnd.
    fold (all_chains (s_disk s) v (flat_map node_heads T)) in Hnd. rewrite (all_chains_nodes _ _ _ _ HT) in Hnd.
    replace (flat_map (chain_l (s_disk s) v) (root_heads v)) with rch in Hnd; [rewrite <- app_assoc in Hnd; exact Hnd|].
    unfold root_dir in Hroot. unfold root_heads. destruct (v_fat32 v).
    - destruct Hroot as (A & _). cbn [flat_map]. rewrite app_nil_r. symmetry. exact (chain_l_at _ _ _ _ A).
    - destruct Hroot as (-> & _). reflexivity. }
  split.
  { intros e ch Hn. apply in_flat_map in Hn. destruct Hn as (m & Hm & Hn). rewrite Forall_forall in Hnodes.
    assert (G : forall m par, node_ok (s_disk s) v par m -> forall x, In x (flatten m) -> exists par', node_ok (s_disk s) v par' x).
    { induction m0 as [e0 ch0|e0 ch0 kids0 IH] using node_ind'; intros par Hm0 x Hx.
      - destruct Hx as [<-|[]]. exists par. exact Hm0.
      - destruct Hx as [<-|Hx]; [exists par; exact Hm0|]. apply in_flat_map in Hx. destruct Hx as (k & Hk0 & Hx).
        apply node_ok_dir in Hm0. destruct Hm0 as (_ & Hks). rewrite Forall_forall in IH, Hks.
        exact (IH k Hk0 _ (Hks k Hk0) x Hx). }
    destruct (G m _ (Hnodes m Hm) _ Hn) as (par' & Hok). apply node_ok_file in Hok. exact (proj1 Hok). }
  split; [intros f Hf; exact (of_size _ _ _ _ (ofile_of fsz vid s vi v bl rch T H f Hf))|].
  split; [exact Hrok|].
  intros e ch kids Hn. apply in_flat_map in Hn. destruct Hn as (m & Hm & Hn). rewrite Forall_forall in Hnodes.
  apply (node_ok_flat (s_disk s) v m CL_ROOT (Hnodes m Hm) T); [| |exact Hn].
  - intros x Hx. apply in_flat_map. exists m. split; assumption.
  - left. split; [reflexivity|exact Hm].
Qed.

Print Assumptions fs_inv_C03.
