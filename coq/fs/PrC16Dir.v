(* PROOFS, C16 over histories: the per-operation obligation PrC16Def.step_c16 for the two directory
   operations that move clusters:
     step_c16_Mkdir  : forall fsz vid d name, step_c16 fsz vid (Mkdir d name)
     step_c16_Delete : forall fsz vid d name, step_c16 fsz vid (Delete d name)
   and, stronger, the exact in-memory free count after each outcome (mkdir_step_seg / delete_step_seg)
   and the STRICT hint range (hint_inv': unknown or 2 <= h < clusters + 2), which both operations keep
   as well (step_c16_strict_Mkdir / _Delete).

   Method.  A run is cut into SEGMENTS (seg fsz f s s'): the volume table holds one record before
   and after, of the same geometry, the count went from o to f o, and each of the invariants
   (copies mirrored / count truthful / count unknown / hint in range) that held before holds after.
   Three kinds of segment (seg_quiet: the volume table and the blocks of both FAT copies are the same;
   seg_alloc: one successful alloc_cluster, f = dec_free; seg_free: one free_cluster_chain of a chain of k
   clusters, f = add_free . k) and composition (seg_trans).  The run of make_dir is re-derived from the
   intermediate lemmas of PrGlobalMkdirR (whose final theorem make_dir_run hides the volume record),
   the run of delete_file_in_dir from those of PrGlobalDelete.

   The count on the path "cluster taken, no room in the parent, cluster released" (mk_full1):
   dec_free then add_free . 1, see release_count: Some n with 1 <= n < 2^32 comes back to Some n;
   Some 0 - which is wrong whenever the allocation succeeded, a free entry existed - becomes None
   (unknown) and STAYS None; Some n with n >= 2^32 (not a u32; excluded in the crate by the type)
   becomes None; None stays None.  Hence truthful -> truthful, unknown -> unknown on that path. *)
From Coq Require Import NArith ZArith List Bool Lia Arith ZifyClasses ZifyInst Zify FMapPositive Permutation.
From SdFs Require Import FsTypes FsBase FsFat FsMgr FsLemmas PrBase PrFat PrAlloc PrDir PrSeek PrAllocEffect
  PrRw PrWrite PrFileSeq PrMulti PrEntry PrChain PrCount PrWf PrOpenClose PrGlobalDef PrGlobalMkdirT PrGlobalMkdirS
  PrGlobalMkdirR PrGlobalMkdir PrGlobalDelete PrC16Def.
From SdFs Require PrModes PrHandles PrCrash PrBounds PrOrder.
Import ListNotations.
Open Scope N_scope.
Local Arguments N.mul : simpl never.
Local Arguments N.add : simpl never.
Local Arguments N.sub : simpl never.
Local Arguments N.div : simpl never.
Local Arguments N.modulo : simpl never.
Local Arguments N.land : simpl never.
Local Arguments N.lor : simpl never.
Local Arguments N.min : simpl never.
Local Arguments N.max : simpl never.
Local Ltac Zify.zify_post_hook ::= Z.to_euclidean_division_equations.

(* ================================================================== 0. the strict hint range *)
(* PrC16Def.hint_in allows clusters + 2 (one past the last cluster).  What alloc_cluster,
   truncate_cluster_chain and free_cluster_chain leave is tighter: unknown or a cluster number of the
   volume, 2 <= h < clusters + 2 (PrCount.hint_in); Mkdir and Delete keep both *)
Definition hint_inv' (s : st) : Prop := forall v, In v (s_vols s) -> PrCount.hint_in v.

Lemma hint_strict_weak v : PrCount.hint_in v -> hint_in v.
Proof. intros H c E. destruct (H c E) as [A B]. lia. Qed.

Lemma hint_inv'_inv s : hint_inv' s -> hint_inv s.
Proof. intros H v Hv. exact (hint_strict_weak v (H v Hv)). Qed.

(* ================================================================== 1. segments *)
Definition c16_keep (fsz : N) (s s' : st) : Prop :=
  (mirror_inv fsz s -> mirror_inv fsz s') /\ (truthful_inv s -> truthful_inv s') /\
  (unknown_inv s -> unknown_inv s') /\ (hint_inv s -> hint_inv s') /\ (hint_inv' s -> hint_inv' s').

Definition seg (fsz : N) (f : option N -> option N) (s s' : st) : Prop :=
  c16_keep fsz s s' /\
  exists v v', s_vols s = [v] /\ s_vols s' = [v'] /\ geo_eq v v' /\ v_free v' = f (v_free v).

Lemma fat_mirrored_geo d v w fsz : geo_eq v w -> fat_mirrored d v fsz -> fat_mirrored d w fsz.
Proof. intros (a & b & ->) H. exact H. Qed.

Lemma hint_geo_clusters v w : geo_eq v w -> v_clusters w = v_clusters v.
Proof. intros (a & b & ->). reflexivity. Qed.

(* one record before, one after: the four (five) implications, record by record *)
Lemma keep_single fsz s s' v v' : s_vols s = [v] -> s_vols s' = [v'] ->
  (fat_mirrored (s_disk s) v fsz -> fat_mirrored (s_disk s') v' fsz) ->
  (truthful (s_disk s) v -> truthful (s_disk s') v') ->
  (v_free v = None -> v_free v' = None) ->
  (hint_in v -> hint_in v') -> (PrCount.hint_in v -> PrCount.hint_in v') ->
  c16_keep fsz s s'.
Proof.
  intros Ev Ev' H1 H2 H3 H4 H5. unfold c16_keep, mirror_inv, truthful_inv, unknown_inv, hint_inv, hint_inv'.
  rewrite Ev, Ev'.
  split; [|split; [|split; [|split]]]; intros H w [<-|[]];
    [apply H1|apply H2|apply H3|apply H4|apply H5]; apply H; left; reflexivity.
Qed.

Lemma seg_trans fsz f g a b c : seg fsz f a b -> seg fsz g b c -> seg fsz (fun o => g (f o)) a c.
Proof.
  intros ((A1 & A2 & A3 & A4 & A5) & v & v1 & Ea & Eb & G1 & F1) ((B1 & B2 & B3 & B4 & B5) & w1 & w & Eb' & Ec & G2 & F2).
  rewrite Eb in Eb'. injection Eb' as <-.
  split.
  { split; [|split; [|split; [|split]]]; intros H; [apply B1, A1|apply B2, A2|apply B3, A3|apply B4, A4|apply B5, A5]; exact H. }
  exists v, w. split; [exact Ea|]. split; [exact Ec|]. split; [exact (geo_eq_trans _ _ _ G1 G2)|].
  rewrite F2, F1. reflexivity.
Qed.

Lemma seg_ext fsz f g s s' : (forall o, f o = g o) -> seg fsz f s s' -> seg fsz g s s'.
Proof.
  intros E (K & v & v' & E1 & E2 & G & F). split; [exact K|]. exists v, v'.
  repeat (split; [assumption|]). rewrite <- E. exact F.
Qed.

Lemma seg_keep fsz f s s' : seg fsz f s s' -> c16_keep fsz s s'.
Proof. intros [K _]. exact K. Qed.

(* ---- nothing happened to the volume table and to the FAT copies ---- *)
Lemma seg_quiet fsz s s' v : s_vols s = [v] -> s_vols s' = s_vols s -> fat_layout v fsz ->
  fat_same v fsz (s_disk s) (s_disk s') -> seg fsz (fun o => o) s s'.
Proof.
  intros Ev Ev' FL Hfs. rewrite Ev in Ev'.
  split; [|exists v, v; repeat (split; [first [assumption|apply geo_eq_refl]|]); reflexivity].
  apply (keep_single fsz s s' v v Ev Ev'); try (intros H; exact H).
  - intros Hm k Hk.
    rewrite (Hfs _ (PrBounds.fat_copy_sector_in_fat v fsz 1 k Hk)), (Hfs _ (PrBounds.fat_copy_sector_in_fat v fsz 0 k Hk)).
    exact (Hm k Hk).
  - unfold truthful. intros Ht. rewrite Ht. f_equal. f_equal. symmetry.
    apply free_entries_iff. intros c C1 C2. rewrite (fat_same_get v fsz _ _ c FL C2 Hfs). tauto.
Qed.

Lemma seg_same fsz s v : s_vols s = [v] -> fat_layout v fsz -> seg fsz (fun o => o) s s.
Proof. intros Ev FL. apply (seg_quiet fsz s s v Ev eq_refl FL). apply fat_same_refl. Qed.

Lemma seg_ro fsz s s' v : s_vols s = [v] -> fat_layout v fsz -> ro_step s s' -> seg fsz (fun o => o) s s'.
Proof.
  intros Ev FL (Hd & _ & _ & Hm). apply (seg_quiet fsz s s' v Ev (proj1 Hm) FL). apply fat_same_eq. exact Hd.
Qed.

(* ---- one successful allocation ---- *)
Lemma seg_alloc fsz s v prev (zero : bool) c s' : s_vols s = [v] ->
  alloc_pre s 0 v fsz -> link_ok v -> prev_inuse (s_disk s) v prev ->
  alloc_cluster 0 prev zero s = (Ok c, s') -> seg fsz dec_free s s'.
Proof.
  intros Ev Hpre Hl Hprev Hal.
  assert (Hprev' : forall p, prev = Some p -> p < v_clusters v + 2).
  { intros p Hp. exact (proj1 (proj2 (Hprev p Hp))). }
  pose proof (alloc_cluster_effect 0 v fsz prev zero s c s' Hpre Hprev' Hal) as Heff.
  destruct (ae_vol _ _ _ _ _ _ _ _ Heff) as (nf & Evols & Hnf).
  rewrite Ev in Evols. cbn [list_set] in Evols.
  set (v' := set_v_free (set_v_next_free v nf) (dec_free (v_free v))) in *.
  assert (G : geo_eq v v') by (exists nf, (dec_free (v_free v)); reflexivity).
  destruct (alloc_count_delta 0 v fsz prev zero s c s' Hpre Hl Hprev Hal)
    as (_ & w & Hw & _ & _ & _ & _ & _ & _ & Ktruth).
  rewrite Evols in Hw. cbn [nth_error] in Hw. injection Hw as <-.
  assert (Hstrict : PrCount.hint_in v').
  { intros h E. cbn in E. subst nf. destruct Hnf as (A & B & _). split; assumption. }
  split; [|exists v, v'; repeat (split; [assumption|]); reflexivity].
  apply (keep_single fsz s s' v v' Ev Evols).
  - intros Hm. apply (fat_mirrored_geo _ v v' fsz G). exact (ae_mirror _ _ _ _ _ _ _ _ Heff Hm).
  - exact Ktruth.
  - intros E. cbn. rewrite E. reflexivity.
  - intros _. exact (hint_strict_weak v' Hstrict).
  - intros _. exact Hstrict.
Qed.

(* ---- one chain released ---- *)
Lemma seg_free fsz s v c rest fuel : s_vols s = [v] -> alloc_pre s 0 v fsz ->
  chain_of (s_disk s) v c fuel = Some (c :: rest) ->
  exists s', free_cluster_chain 0 c s = (Ok tt, s') /\
    seg fsz (fun o => add_free o (N.of_nat (S (length rest)))) s s'.
Proof.
  intros Ev Hpre Hch. pose proof Hpre as (Hst & L & Hh).
  destruct (free_cluster_chain_effect 0 v fsz s c rest fuel L Hst Hch) as (s' & Hrun & Heff).
  destruct (free_chain_count_delta 0 v fsz s c rest fuel Hpre Hch) as (s2 & Hrun2 & _ & _ & G & _ & Hfree & Hnone & Ktruth).
  rewrite Hrun in Hrun2. injection Hrun2 as <-.
  pose proof (fe_vols _ _ _ _ _ _ _ Heff) as Evols. rewrite Ev in Evols. cbn [list_set] in Evols.
  pose proof (C16_hint_range_free v (s_disk s) c rest fuel Hch Hh) as Hstrict.
  exists s'. split; [exact Hrun|].
  split; [|exists v, (free_vol v c rest); repeat (split; [assumption|]); exact Hfree].
  apply (keep_single fsz s s' v (free_vol v c rest) Ev Evols).
  - intros Hm. apply (fat_mirrored_geo _ v _ fsz G). exact (fe_mirror _ _ _ _ _ _ _ Heff Hm).
  - exact Ktruth.
  - exact Hnone.
  - intros _. exact (hint_strict_weak _ Hstrict).
  - intros _. exact Hstrict.
Qed.

(* ================================================================== 2. the count, precisely *)
(* allocation followed by the release of the same cluster *)
Lemma release_count o :
  add_free (dec_free o) 1 =
  match o with
  | Some n => if (1 <=? n) && (n <? U32) then Some n else None
  | None => None
  end.
Proof.
  destruct o as [n|]; [|reflexivity]. cbn [dec_free].
  destruct (N.leb_spec 1 n) as [H1|H1]; cbn [add_free andb]; [|reflexivity].
  replace (n - 1 + 1) with n by lia. reflexivity.
Qed.

(* in words *)
Lemma release_count_cases o :
  (forall n, o = Some n -> 1 <= n -> n < U32 -> add_free (dec_free o) 1 = Some n) /\
  (o = Some 0 -> add_free (dec_free o) 1 = None) /\
  (forall n, o = Some n -> U32 <= n -> add_free (dec_free o) 1 = None) /\
  (o = None -> add_free (dec_free o) 1 = None).
Proof.
  rewrite release_count. split; [|split; [|split]].
  - intros n -> H1 H2. apply N.leb_le in H1. apply N.ltb_lt in H2. rewrite H1, H2. reflexivity.
  - intros ->. reflexivity.
  - intros n -> H. apply N.ltb_ge in H. rewrite H, andb_false_r. reflexivity.
  - intros ->. reflexivity.
Qed.

(* ================================================================== 3. make_dir: the prefix *)
(* PrGlobalMkdirR.mkdir_prefix (same run, same proof) with the segment s -> s6: one allocation, then
   writes into the blocks of the new cluster only *)
Lemma c16_mkdir_prefix fsz total v hs parent sfn s c s1 :
  s_vols s = [v] -> clusters_fit v ->
  alloc_pre s 0 v fsz -> PrBounds.part_layout v total fsz -> blocks_wf (s_disk s) ->
  fat_wf (s_disk s) v hs ->
  alloc_cluster 0 None false s = (Ok c, s1) ->
  exists s6 v1,
    make_dir 0 parent sfn A_DIRECTORY s = mkdir_rest 0 parent sfn c s6 /\
    prefix_ok fsz 0 v hs (if parent =? CL_ROOT then CL_EMPTY else parent) s c s6 v1 /\
    s_vols s6 = [v1] /\ seg fsz dec_free s s6.
Proof.
  intros Ev Hfit Hpre L Hbw W Hal. set (vi := 0%nat) in *.
  pose proof Hpre as ((Hnf & Hc & Hvi & Hlen) & FL & Hh). pose proof (fl_vol v fsz FL) as Hv.
  pose proof (PrBounds.pl_spc v total fsz L) as Hspc.
  assert (Hprev0 : forall p, @None N = Some p -> p < v_clusters v + 2) by (intros p Ep; discriminate Ep).
  pose proof (alloc_cluster_effect vi v fsz None false s c s1 Hpre Hprev0 Hal) as Heff.
  destruct (ae_range _ _ _ _ _ _ _ _ Heff) as (C1 & C2 & C3).
  destruct (ae_vol _ _ _ _ _ _ _ _ Heff) as (nf & Evols & _).
  destruct (ae_tables _ _ _ _ _ _ _ _ Heff) as (A1 & A2 & A3 & A4 & A5 & A6 & A7 & A8 & A9).
  set (v1 := set_v_free (set_v_next_free v nf) (dec_free (v_free v))) in *.
  assert (G1 : geo_eq v v1) by (exists nf, (dec_free (v_free v)); reflexivity).
  assert (Hv1 : nth_error (s_vols s1) vi = Some v1) by (rewrite Evols; exact (ls_nth_same _ _ _ _ Hvi)).
  destruct (alloc_cluster_keeps_pre vi v fsz None false s c s1 Hpre Hprev0 Hal) as (w & Hw & Hpre1 & _).
  rewrite Hv1 in Hw. inversion Hw; subst w. clear Hw.
  pose proof Hpre1 as ((Hnf1 & Hc1 & _ & Hlen1) & FL1 & Hh1). pose proof (fl_vol v1 fsz FL1) as Hvok1.
  set (start := cluster_first_block v c).
  destruct (cluster_block_ok v1 c s1 Hvok1 C1 C2) as (Hcb & Hfit').
  change (cluster_first_block v1 c) with start in Hcb, Hfit'. change (v_spc v1) with (v_spc v) in Hfit'.
  set (now := clock_ts (s_clock s)).
  set (pcl := if parent =? CL_ROOT then CL_EMPTY else parent).
  set (dot := ser_bytes (v_fat32 v) (mk_dirent THIS_DIR_NAME now now A_DIRECTORY c 0 start 0)).
  set (dotdot := ser_bytes (v_fat32 v) (mk_dirent PARENT_DIR_NAME now now A_DIRECTORY pcl 0 start 32)).
  set (s2 := set_s_clock s1 (s_clock s1 + 1)).
  set (s3 := set_s_cache (set_s_tag s2 (Some start)) zero_block).
  set (s4 := set_s_cache s3 (set_bytes (set_bytes zero_block 0 dot) 32 dotdot)).
  assert (T4 : s_tag s4 = Some start) by reflexivity.
  assert (N4 : no_faults s4) by (apply (no_faults_step s1); [reflexivity|cbn; lia|exact Hnf1]).
  pose proof (write_back_ok start s4 T4 N4) as Hwb.
  match type of Hwb with _ = (_, ?st) => set (s5 := st) in * end.
  destruct (PrOrder.write_back_steps start s4 _ _ T4 N4 Hwb) as (_ & [S5 G5] & M5 & _).
  destruct (zero_loop (N.to_nat (v_spc v) - 1) (start + 1) s5 (proj1 G5) (proj2 G5))
    as (s6 & Hrun & Hnf6 & Hc6 & M6 & Hz6 & Hfr6 & Tr6).
  assert (Hts : ts_ok now) by apply ts_cal_ok, clock_ts_cal.
  exists s6, v1. split.
  { unfold make_dir. rewrite (bind_ok _ _ _ _ _ Hal).
    rewrite (bind_ok _ _ _ _ _ (get_vol_some vi v1 s1 Hv1)).
    rewrite (bind_ok _ _ _ _ _ Hcb).
    assert (E2 : get_timestamp s1 = (Ok now, s2)) by (unfold now; rewrite <- A4; reflexivity).
    rewrite (bind_ok _ _ _ _ _ E2).
    assert (E3 : blank_mut start s2 = (Ok tt, s3)) by reflexivity.
    rewrite (bind_ok _ _ _ _ _ E3).
    change (v_fat32 v1) with (v_fat32 v). change (v_spc v1) with (v_spc v).
    rewrite (bind_ok _ _ _ _ _ (serialize_ok (v_fat32 v) (mk_dirent THIS_DIR_NAME now now A_DIRECTORY c 0 start 0) s3 Hts Hts)).
    fold pcl.
    rewrite (bind_ok _ _ _ _ _ (serialize_ok (v_fat32 v) (mk_dirent PARENT_DIR_NAME now now A_DIRECTORY pcl 0 start 32) s3 Hts Hts)).
    fold dot dotdot.
    assert (E4 : cache_modify (fun b => set_bytes (set_bytes b 0 dot) 32 dotdot) s3 = (Ok tt, s4)) by reflexivity.
    rewrite (bind_ok _ _ _ _ _ E4).
    rewrite (bind_ok _ _ _ _ _ Hwb).
    rewrite (bind_ok _ _ _ _ _ (add32_ok _ _ s5 Hfit')).
    rewrite (bind_ok _ _ _ _ _ Hrun). reflexivity. }
  (* the device after the prefix *)
  assert (D5 : s_disk s5 = disk_set (s_disk s1) start (set_bytes (set_bytes zero_block 0 dot) 32 dotdot)) by reflexivity.
  assert (Elen : N.of_nat (N.to_nat (v_spc v) - 1) = v_spc v - 1) by lia.
  rewrite Elen in Hz6, Hfr6.
  assert (Hstart6 : disk_get (s_disk s6) start = set_bytes (set_bytes zero_block 0 dot) 32 dotdot).
  { rewrite Hfr6 by lia. rewrite D5. apply disk_get_set_same. }
  assert (Hout6 : forall j, j < start \/ start + v_spc v <= j -> disk_get (s_disk s6) j = disk_get (s_disk s1) j).
  { intros j Hj. rewrite Hfr6 by lia. rewrite D5. apply disk_get_set_other. lia. }
  assert (Hfs16 : fat_same v fsz (s_disk s1) (s_disk s6)).
  { intros j Hj. apply Hout6. destruct (PrBounds.in_fat_is_copy_sector v fsz j Hj) as (copy & k & Hk & ->).
    exact (PrBounds.fat_sector_outside_cluster v fsz copy k c FL Hk C1). }
  assert (Hnew6 : fat_get (s_disk s6) v 0 c = enc v CL_EOF).
  { rewrite (fat_same_get v fsz _ _ c FL C2 Hfs16). apply (ae_new _ _ _ _ _ _ _ _ Heff). discriminate. }
  assert (Hoth6 : forall x, x < v_clusters v + 2 -> x <> c -> fat_get (s_disk s6) v 0 x = fat_get (s_disk s) v 0 x).
  { intros x Hx Hne. rewrite (fat_same_get v fsz _ _ x FL Hx Hfs16).
    apply (ae_other _ _ _ _ _ _ _ _ Heff); [exact (layout_sector v fsz x FL Hx)|exact Hne|discriminate]. }
  destruct (wf_new_head (s_disk s) (s_disk s6) v hs c W C1 C2 C3 Hnew6 (fun x _ X2 Hne => Hoth6 x X2 Hne))
    as (W6 & Hch6 & Hfresh & Hkeep).
  assert (Hvols6 : s_vols s6 = s_vols s1) by (rewrite (proj1 M6); reflexivity).
  assert (Ev1 : s_vols s1 = [v1]) by (rewrite Evols, Ev; reflexivity).
  split; [|split].
  2:{ rewrite Hvols6. exact Ev1. }
  2:{ apply (seg_ext fsz (fun o => (fun o' => o') (dec_free o))); [reflexivity|].
      apply (seg_trans fsz dec_free (fun o' => o') s s1 s6).
      - apply (seg_alloc fsz s v None false c s1 Ev Hpre Hfit); [intros p Ep; discriminate Ep|exact Hal].
      - apply (seg_quiet fsz s1 s6 v1 Ev1 Hvols6 FL1). intros j Hj. apply Hfs16.
        destruct G1 as (a & b & Eg). rewrite Eg in Hj. exact Hj. }
  constructor.
  - rewrite Hvols6. exact Evols.
  - exact G1.
  - apply (alloc_pre_frame v fsz vi v1 s1 s6 Hpre1 G1 Hnf6 Hc6); [rewrite Hvols6; exact Hv1|exact Hfs16].
  - apply (tabs8_trans _ s5); [|exact (tabs8_mgr _ _ M6)]. unfold tabs8. cbn. repeat split; assumption.
  - destruct M6 as (_ & _ & _ & _ & E & _). rewrite E. cbn. rewrite A4. reflexivity.
  - assert (Hbw1 : blocks_wf (s_disk s1)) by exact (alloc_blocks_wf _ _ _ _ _ _ _ _ Hbw Heff).
    assert (Hdl : length dot = 32%nat) by (apply ser_bytes_length; reflexivity).
    assert (Hddl : length dotdot = 32%nat) by (apply ser_bytes_length; reflexivity).
    assert (Hzl : length zero_block = 512%nat) by apply repeat_length.
    assert (Hbw5 : blocks_wf (s_disk s5)).
    { rewrite D5. apply blocks_wf_set; [exact Hbw1|].
      rewrite set_bytes_length; rewrite set_bytes_length; rewrite ?Hzl, ?Hdl, ?Hddl; cbn; lia. }
    intros i. destruct (N.le_gt_cases (start + 1) i) as [Hi1|Hi1]; [destruct (N.lt_ge_cases i (start + v_spc v)) as [Hi2|Hi2]|].
    + rewrite Hz6 by lia. exact Hzl.
    + rewrite Hfr6 by lia. apply Hbw5.
    + rewrite Hfr6 by lia. apply Hbw5.
  - constructor.
    + repeat split; assumption.
    + exact Hstart6.
    + intros k K1 K2. apply Hz6; lia.
  - exact W6.
  - exact Hch6.
  - exact Hfresh.
  - exact Hkeep.
  - intros j Hj Hnc. rewrite Hout6.
    + apply (alloc_frame_blocks vi v fsz None false s c s1 Hpre Hprev0 Heff j Hj). intros E. discriminate E.
    + rewrite in_cluster_blocks_iff in Hnc. unfold in_cluster in Hnc. fold start in Hnc. lia.
  - exact Hoth6.
  - assert (T1 : PrOrder.tsteps s s1 (fat_writes v c)).
    { pose proof (tr_ext_tsteps _ _ _ (ae_trace _ _ _ _ _ _ _ _ Heff)) as T. rewrite dwrites_alloc in T.
      cbn [app] in T. rewrite app_nil_r in T. exact T. }
    assert (T5 : PrOrder.tsteps s1 s5 [start]).
    { apply (PrOrder.tsteps_trans _ s4 _ [] _); [apply PrOrder.tsteps_same_trace; reflexivity|exact S5]. }
    assert (T6 : PrOrder.tsteps s5 s6 (PrOrder.blocks_from (N.to_nat (v_spc v) - 1) (start + 1))).
    { pose proof (tr_ext_tsteps _ _ _ Tr6) as T. rewrite map_map in T. cbn [fst] in T. rewrite map_id in T. exact T. }
    rewrite (PrBounds.cluster_blocks_cons v c Hspc). fold start.
    exact (PrOrder.tsteps_trans _ _ _ _ _ T1 (PrOrder.tsteps_trans _ _ _ _ _ T5 T6)).
Qed.

(* ================================================================== 4. make_dir: the continuations *)
(* the count from the state after the prefix to the end: entry written into a free slot (no change),
   the parent grew (one more allocation), no room (the cluster of the new directory released) *)
Inductive rest_count : outcome unit -> (option N -> option N) -> Prop :=
| rc_slot : rest_count (Ok tt) (fun o => o)
| rc_grown : rest_count (Ok tt) dec_free
| rc_released : rest_count (Err NotEnoughSpace) (fun o => add_free o 1).

(* from a state t that differs from s6 by reads only: free_cluster_chain releases c *)
Lemma c16_release fsz v hs pcl s c s6 v1 t :
  prefix_ok fsz 0 v hs pcl s c s6 v1 -> s_vols s6 = [v1] ->
  s_disk t = s_disk s6 -> alloc_pre t 0 v1 fsz -> s_vols t = s_vols s6 ->
  exists s', free_cluster_chain 0 c t = (Ok tt, s') /\ seg fsz (fun o => add_free o 1) t s'.
Proof.
  intros PX Ev6 Hd Hpret Hvt.
  destruct PX as [Evols G Hpre6 Htabs Hclk Hbw6 Hcl W6 Hnew6 Hfresh Hkeep Hframe Hfat Hsteps].
  assert (Hcht : chain_of (s_disk t) v1 c (walk_fuel v1) = Some [c])
    by (rewrite Hd; apply (chain_at_geo _ v v1 c [c] G); exact Hnew6).
  rewrite Ev6 in Hvt.
  destruct (seg_free fsz t v1 c [] (walk_fuel v1) Hvt Hpret Hcht) as (s' & Erun & Hseg).
  exists s'. split; [exact Erun|]. exact Hseg.
Qed.

Lemma c16_mkdir_rest fsz total v hs parent sfn pbl s c s6 v1 :
  PrBounds.part_layout v total fsz -> clusters_fit v ->
  dir_blocks (s_disk s) v parent = Some pbl ->
  (negb (v_fat32 v) && (parent =? CL_ROOT) = false -> In (dir_first_cluster v parent) hs) ->
  length sfn = 11%nat ->
  prefix_ok fsz 0 v hs (if parent =? CL_ROOT then CL_EMPTY else parent) s c s6 v1 ->
  s_vols s6 = [v1] ->
  exists r s' f, mkdir_rest 0 parent sfn c s6 = (r, s') /\ seg fsz f s6 s' /\ rest_count r f.
Proof.
  intros L Hfit Hbl Hhead Hname PX Ev6. set (vi := 0%nat) in *.
  destruct (prefix_parent fsz total vi v hs _ parent pbl s c s6 v1 L Hbl Hhead PX) as (Hf & Hsame & Hslots & Hbl6).
  pose proof PX as [Evols G Hpre6 Htabs Hclk Hbw6 Hcl W6 Hnew6 Hfresh Hkeep Hframe Hfat Hsteps].
  pose proof Hpre6 as ((Hnf6 & Hc6 & Hvi6 & _) & FL1 & Hh1). pose proof (fl_vol v1 fsz FL1) as Hvok1.
  assert (FL : fat_layout v fsz) by exact (geo_layout v1 v fsz (geo_eq_sym _ _ G) FL1).
  destruct (mk_range _ _ _ _ _ _ Hcl) as (C1 & C2 & C3).
  destruct (geo_facts v v1 G) as (Gspc & G32 & Gcl & Gwf & Gcfb & Gcb & Gfg & Genc & Gdfc & Groot & Gfw & Gfat & Gdata).
  assert (Hfs1 : forall d d', fat_same v fsz d d' -> fat_same v1 fsz d d').
  { intros d d' H j Hj. apply H. apply Gfat. exact Hj. }
  destruct (find nv (slots_of (s_disk s) pbl)) as [[[blk off] sl0]|] eqn:Hfind.
  { (* the parent has a free slot *)
    pose proof (find_some _ _ Hfind) as [Hin _].
    apply In_slots_of in Hin. destruct Hin as (b & i & Hb & Hi & Et). injection Et as Eb Eo Es. subst b.
    destruct (Hf blk Hb) as (Nfat & Ncl & Hdir).
    assert (Hfind6 : find nv (slots_of (s_disk s6) pbl) = Some (blk, off, sl0)) by (rewrite Hslots; exact Hfind).
    pose proof (write_new_directory_entry_spec vi v1 parent sfn A_DIRECTORY c s6 pbl blk off sl0
                  Hvi6 (fl_vol v1 fsz FL1) Hnf6 Hc6 Hbl6 Hfind6 Hname (Hbw6 blk)) as Spec.
    cbv zeta in Spec. destruct Spec as (s' & Erun & Hd' & _ & _ & _ & Hc' & Hnf' & Hclk' & Htab' & l & Htr & Hl).
    assert (Efat : v_fat32 v1 = v_fat32 v) by (destruct G as (a & b0 & ->); reflexivity).
    rewrite Efat, Hclk, (Hsame blk Hb) in Hd'.
    set (tm := clock_ts (s_clock s + 1)) in *.
    set (bytes := ser_bytes (v_fat32 v) (mk_dirent sfn tm tm A_DIRECTORY c 0 blk off)) in *.
    assert (Hbl512 : length (set_bytes (disk_get (s_disk s) blk) off bytes) = 512%nat).
    { rewrite <- (Hsame blk Hb). rewrite set_bytes_length; [apply Hbw6|].
      rewrite (Hbw6 blk). unfold bytes. rewrite ser_bytes_length by exact Hname. lia. }
    destruct (entry_written fsz vi v v1 s6 s' blk _ Hpre6 G Hbw6 Hd' Hbl512 Nfat Hc' Hnf' Htab'
                (ex_intro _ _ (ex_intro _ l (conj Htr Hl)))) as (Hpre' & Hbw' & Htabs' & Hvols' & Hst' & Hfs').
    exists (Ok tt), s', (fun o => o). split.
    { unfold mkdir_rest. rewrite (bind_ok _ _ _ _ _ (try_ok _ _ _ _ Erun)). reflexivity. }
    split; [|constructor].
    exact (seg_quiet fsz s6 s' v1 Ev6 Hvols' FL1 (Hfs1 _ _ Hfs')). }
  assert (Hstop6 : stop_at N free_in (s_disk s6) pbl = None) by (rewrite stop_at_free, Hslots, Hfind; reflexivity).
  set (body := create_body (v_fat32 v1) sfn A_DIRECTORY c).
  set (post := create_post (v_fat32 v1) sfn A_DIRECTORY c).
  pose proof (create_body_none (v_fat32 v1) sfn A_DIRECTORY c) as Bn. fold body in Bn.
  assert (Bs : forall blk t x, no_faults t -> cache_ok t -> free_in (s_disk t) blk = Some x ->
                 exists r t', body blk t = (Ok (Some r), t') /\ post blk x t r t')
    by (intros blk0 t0 x; exact (create_body_some (v_fat32 v1) sfn A_DIRECTORY c blk0 t0 x)).
  (* the common end of the two failures: t differs from s6 by reads only *)
  assert (Hfail : forall t, write_new_directory_entry vi parent sfn A_DIRECTORY c s6 = (Err NotEnoughSpace, t) ->
            s_disk t = s_disk s6 -> alloc_pre t vi v1 fsz -> s_vols t = s_vols s6 ->
            exists r s' f, mkdir_rest vi parent sfn c s6 = (r, s') /\ seg fsz f s6 s' /\ rest_count r f).
  { intros t Ewn Hd Hpret Hvt.
    destruct (c16_release fsz v hs _ s c s6 v1 t PX Ev6 Hd Hpret Hvt) as (s' & Efree & Hseg).
    exists (Err NotEnoughSpace), s', (fun o => add_free o 1). split.
    { unfold mkdir_rest. rewrite (bind_ok _ _ _ _ _ (try_err _ _ _ _ Ewn)).
      rewrite (bind_ok _ _ _ _ _ Efree). reflexivity. }
    split; [|constructor].
    apply (seg_ext fsz (fun o => (fun o' => add_free o' 1) ((fun o' => o') o))); [reflexivity|].
    apply (seg_trans fsz (fun o' => o') (fun o' => add_free o' 1) s6 t s'); [|exact Hseg].
    apply (seg_quiet fsz s6 t v1 Ev6 Hvt FL1). apply fat_same_eq. exact Hd. }
  unfold dir_blocks in Hbl. destruct (negb (v_fat32 v) && (parent =? CL_ROOT)) eqn:Eroot.
  - (* the fixed root directory of a FAT16 volume is full *)
    apply andb_true_iff in Eroot. destruct Eroot as [H16 Hdc]. apply negb_true_iff in H16.
    apply N.eqb_eq in Hdc. subst parent. inversion Hbl; subst pbl. clear Hbl.
    assert (H16' : v_fat32 v1 = false) by (rewrite G32; exact H16).
    pose proof (walk_dir_root16_stop dirent N free_in body post Bn Bs vi v1 true Hvok1 H16'
                  (N.to_nat (v_clusters v1) + 3) s6 Hvi6 Hnf6 Hc6) as Hw.
    rewrite Groot, Hstop6 in Hw. destruct Hw as (s7 & Ewalk & Hrd7).
    assert (Ewn : write_new_directory_entry vi CL_ROOT sfn A_DIRECTORY c s6 = (Err NotEnoughSpace, s7)).
    { rewrite write_new_is. rewrite (bind_ok _ _ _ _ _ (get_vol_some vi v1 s6 Hvi6)).
      fold body. unfold dir_first_cluster, walk_fuel. rewrite H16'. cbn [andb].
      replace (N.to_nat (v_clusters v1) + 4)%nat with (S (N.to_nat (v_clusters v1) + 3)) by lia.
      rewrite (bind_ok _ _ _ _ _ Ewalk). reflexivity. }
    pose proof Hrd7 as ((Hd7 & Hc7 & Hnf7 & Hm7) & _).
    apply (Hfail s7 Ewn Hd7).
    + exact (alloc_pre_ro vi v1 fsz s6 s7 Hpre6 (proj1 Hrd7)).
    + exact (proj1 Hm7).
  - (* the parent is a cluster chain: it has to grow *)
    destruct (chain_of (s_disk s) v (dir_first_cluster v parent) (walk_fuel v)) as [pch|] eqn:Hch; [|discriminate].
    inversion Hbl; subst pbl. clear Hbl.
    set (pc := dir_first_cluster v parent) in *.
    assert (Hpc : In pc hs) by exact (Hhead eq_refl).
    assert (Hch6 : chain_at (s_disk s6) v pc pch) by exact (Hkeep pc pch Hpc Hch).
    assert (Hch61 : chain_of (s_disk s6) v1 pc (walk_fuel v1) = Some pch)
      by (apply (chain_at_geo _ v v1 pc pch G); exact Hch6).
    assert (Hstop61 : stop_at N free_in (s_disk s6) (flat_map (cluster_blocks v1) pch) = None).
    { replace (flat_map (cluster_blocks v1) pch) with (flat_map (cluster_blocks v) pch); [exact Hstop6|].
      apply flat_map_ext. intros x. symmetry. apply Gcb. }
    destruct (walk_dir_chain_grow dirent N free_in body post Bn Bs vi v1 Hvok1 (walk_fuel v1) pc s6 pch
                Hvi6 Hnf6 Hc6 Hch61 Hstop61) as (s7 & Hrd7 & Ewalk).
    pose proof Hrd7 as ((Hd7 & Hc7 & Hnf7 & Hm7) & _).
    pose proof (alloc_pre_ro vi v1 fsz s6 s7 Hpre6 (proj1 Hrd7)) as Hpre7.
    destruct (chain_of_head _ _ _ _ _ Hch) as (_ & _ & l' & El).
    assert (Hne : pch <> []) by (rewrite El; discriminate).
    destruct (exists_last Hne) as (pre & p & Esplit).
    assert (Elast : last pch pc = p) by (rewrite Esplit; apply last_last).
    rewrite Elast in Ewalk.
    assert (Hpin : In p pch) by (rewrite Esplit; apply in_or_app; right; left; reflexivity).
    pose proof (chain_of_range _ _ _ _ _ Hch) as Rg. rewrite Forall_forall in Rg. destruct (Rg p Hpin) as (P1 & P2).
    assert (Hprev : forall q, Some p = Some q -> q < v_clusters v1 + 2)
      by (intros q E; inversion E; subst q; rewrite Gcl; exact P2).
    destruct (alloc_cluster_total vi v1 fsz (Some p) true s7 Hpre7 Hprev)
      as (o & s8 & Hal & [(-> & Hnone & Hd8 & Hm8 & T8 & Hst8)|(c' & -> & Heff)]).
    + (* no free cluster is left *)
      assert (Ewn : write_new_directory_entry vi parent sfn A_DIRECTORY c s6 = (Err NotEnoughSpace, s8)).
      { rewrite write_new_is. rewrite (bind_ok _ _ _ _ _ (get_vol_some vi v1 s6 Hvi6)).
        rewrite Gdfc. fold pc body.
        assert (E : walk_dir (walk_fuel v1) vi pc true body s6 = (Err NotEnoughSpace, s8))
          by (rewrite Ewalk; exact (bind_err _ _ _ _ _ Hal)).
        exact (bind_err _ _ _ _ _ E). }
      apply (Hfail s8 Ewn).
      * rewrite Hd8. exact Hd7.
      * split; [exact Hst8|split; assumption].
      * rewrite (proj1 Hm8). exact (proj1 Hm7).
    + (* the parent grows by the zeroed cluster c' *)
      destruct (ae_range _ _ _ _ _ _ _ _ Heff) as (R1 & R2 & R3). rewrite Gcl in R2. rewrite Gfg in R3.
      assert (Hpnz : fat_get (s_disk s7) v 0 p <> 0).
      { rewrite Hd7. destruct (chain_at_mem _ _ _ _ p Hch6 Hpin) as (_ & _ & Z & _). exact Z. }
      destruct (alloc_vol_explicit vi v1 fsz (Some p) true s7 c' s8 Hpre7 Heff) as (v2 & Evols8 & G12 & Hpre8).
      pose proof (geo_eq_trans _ _ _ G G12) as G2.
      destruct (geo_facts v v2 G2) as (Gspc2 & G322 & Gcl2 & Gwf2 & Gcfb2 & Gcb2 & Gfg2 & Genc2 & _ & _ & _ & Gfat2 & _).
      pose proof Hpre8 as ((Hnf8 & Hc8 & Hvi8 & _) & FL2 & Hh2). pose proof (fl_vol v2 fsz FL2) as Hvok2.
      pose proof (chain_length _ _ _ _ _ Hch) as Hlen.
      assert (Hk : exists k', (walk_fuel v1 - length pch)%nat = S k').
      { exists (walk_fuel v1 - length pch - 1)%nat. rewrite Gwf. unfold walk_fuel. lia. }
      destruct Hk as (k' & Ek). rewrite Ek in Ewalk.
      pose proof (PrBounds.pl_spc v total fsz L) as Hspc.
      set (nb := cluster_first_block v c').
      assert (Hz8 : forall k, k < v_spc v -> disk_get (s_disk s8) (nb + k) = zero_block).
      { intros k Hk. unfold nb. rewrite <- Gcfb. apply (ae_zero _ _ _ _ _ _ _ _ Heff eq_refl). rewrite Gspc. exact Hk. }
      assert (Hnb8 : disk_get (s_disk s8) nb = zero_block) by (rewrite <- (N.add_0_r nb); apply Hz8; lia).
      assert (Hnew8 : fat_get (s_disk s8) v1 0 c' = enc v1 CL_EOF).
      { apply (ae_new _ _ _ _ _ _ _ _ Heff). intros E. injection E as E. apply Hpnz. rewrite E. exact R3. }
      assert (Hcs2 : chain_of (s_disk s8) v2 c' (S k') = Some [c']).
      { rewrite (chain_of_geo _ v1 v2 G12). apply (PrWrite.chain_single _ _ _ k'); [exact R1|rewrite Gcl; exact R2|].
        rewrite fat_entry_get. exact Hnew8. }
      assert (Est : stop_at N free_in (s_disk s8) (flat_map (cluster_blocks v2) [c']) = Some (nb, 0)).
      { cbn [flat_map]. rewrite app_nil_r, Gcb2, (PrBounds.cluster_blocks_cons v c' Hspc). fold nb.
        unfold stop_at. cbn [first_some]. unfold free_in at 1. rewrite Hnb8.
        replace (free_slot 16 zero_block 0) with (Some 0) by (vm_compute; reflexivity). reflexivity. }
      pose proof (walk_dir_chain_stop dirent N free_in body post Bn Bs vi v2 true Hvok2 (S k') c' s8 [c']
                    Hvi8 Hnf8 Hc8 Hcs2) as Hw.
      rewrite Est in Hw. destruct Hw as (s0 & r & s' & Erun & Hrd0 & HQ).
      pose proof Hrd0 as ((Hd0 & Hc0 & Hnf0 & Hm0) & _).
      unfold post, create_post in HQ. cbv zeta in HQ.
      destruct HQ as (Er & Hd' & Hc' & Hnf' & Hclk' & Htab' & l & Htr & Hl).
      assert (Eclk0 : s_clock s0 = s_clock s + 1).
      { destruct (tabs8_alloc _ _ _ _ _ _ _ _ Heff) as (_ & Eclk78).
        destruct Hm0 as (_ & _ & _ & _ & E0 & _). destruct Hm7 as (_ & _ & _ & _ & E7 & _). congruence. }
      set (tm := clock_ts (s_clock s + 1)).
      set (newb := set_bytes zero_block 0 (ser_bytes (v_fat32 v) (mk_dirent sfn tm tm A_DIRECTORY c 0 nb 0))).
      assert (Hd0' : s_disk s' = disk_set (s_disk s0) nb newb).
      { rewrite Hd'. unfold put_entry. cbn [e_offset]. change (0 * 32) with 0.
        rewrite Hd0 at 2. rewrite Hnb8, Eclk0, G32. reflexivity. }
      assert (Ewn : write_new_directory_entry vi parent sfn A_DIRECTORY c s6 = (Ok r, s')).
      { rewrite write_new_is. rewrite (bind_ok _ _ _ _ _ (get_vol_some vi v1 s6 Hvi6)). rewrite Gdfc. fold pc body.
        assert (E : walk_dir (walk_fuel v1) vi pc true body s6 = (Ok (Some r), s'))
          by (rewrite Ewalk, (bind_ok _ _ _ _ _ Hal); exact Erun).
        rewrite (bind_ok _ _ _ _ _ E). reflexivity. }
      exists (Ok tt), s', dec_free. split.
      { unfold mkdir_rest. rewrite (bind_ok _ _ _ _ _ (try_ok _ _ _ _ Ewn)). reflexivity. }
      split; [|constructor].
      pose proof (PrBounds.C04_cluster_block_in_data v c' R1 R2) as Fd'. rewrite Forall_forall in Fd'.
      assert (Hnbin : In nb (cluster_blocks v c'))
        by (rewrite (PrBounds.cluster_blocks_cons v c' Hspc); left; reflexivity).
      assert (Hnotfat : forall j, PrBounds.in_data v j -> ~ PrBounds.in_fat v fsz j).
      { intros j Hj Hfj. destruct (PrBounds.C04_regions_disjoint v total fsz j L) as (_ & Dfat & _).
        destruct (Dfat Hfj) as (_ & N2 & _). contradiction. }
      pose proof (Hnotfat nb (Fd' nb Hnbin)) as Nfat.
      assert (Hbw8 : blocks_wf (s_disk s8))
        by (apply (alloc_blocks_wf _ _ _ _ _ _ _ _ ltac:(rewrite Hd7; exact Hbw6) Heff)).
      assert (Hbw0 : blocks_wf (s_disk s0)) by (rewrite Hd0; exact Hbw8).
      assert (Hnewb : length newb = 512%nat).
      { unfold newb. rewrite set_bytes_length; [apply repeat_length|].
        rewrite ser_bytes_length by exact Hname. change (length zero_block) with 512%nat. cbn. lia. }
      destruct (entry_written fsz vi v v2 s0 s' nb newb (alloc_pre_ro vi v2 fsz s8 s0 Hpre8 (proj1 Hrd0)) G2 Hbw0
                  Hd0' Hnewb Nfat Hc' Hnf' Htab' (ex_intro _ _ (ex_intro _ l (conj Htr Hl))))
        as (Hpre' & Hbw' & Htabs' & Hvols' & Hst' & Hfs').
      (* the segments: reads, the allocation of c', reads, the entry *)
      assert (Ev7 : s_vols s7 = [v1]) by (rewrite (proj1 Hm7); exact Ev6).
      assert (Ev8 : s_vols s8 = [v2]) by (rewrite Evols8, Ev7; reflexivity).
      assert (Ev0 : s_vols s0 = [v2]) by (rewrite (proj1 Hm0); exact Ev8).
      assert (S67 : seg fsz (fun o => o) s6 s7) by exact (seg_ro fsz s6 s7 v1 Ev6 FL1 (proj1 Hrd7)).
      assert (S78 : seg fsz dec_free s7 s8).
      { apply (seg_alloc fsz s7 v1 (Some p) true c' s8 Ev7 Hpre7 (link_ok_geo v v1 G Hfit)); [|exact Hal].
        intros q E. injection E as <-. split; [exact P1|]. split; [rewrite Gcl; exact P2|]. rewrite Gfg. exact Hpnz. }
      assert (S80 : seg fsz (fun o => o) s8 s0) by exact (seg_ro fsz s8 s0 v2 Ev8 FL2 (proj1 Hrd0)).
      assert (S0' : seg fsz (fun o => o) s0 s').
      { apply (seg_quiet fsz s0 s' v2 Ev0 Hvols' FL2). intros j Hj. apply Hfs'. apply Gfat2. exact Hj. }
      apply (seg_ext fsz (fun o => (fun o' => o') ((fun o' => o') (dec_free ((fun o' => o') o))))); [reflexivity|].
      apply (seg_trans fsz (fun o => (fun o' => o') (dec_free ((fun o' => o') o))) (fun o' => o') s6 s0 s'); [|exact S0'].
      apply (seg_trans fsz (fun o => dec_free ((fun o' => o') o)) (fun o' => o') s6 s8 s0); [|exact S80].
      exact (seg_trans fsz (fun o' => o') dec_free s6 s7 s8 S67 S78).
Qed.

(* ================================================================== 5. make_dir, every outcome *)
(* the four outcomes of PrGlobalMkdirR.make_dir_run with what happened to the free count *)
Inductive mk_count : outcome unit -> (option N -> option N) -> Prop :=
| mkc_full0 : mk_count (Err NotEnoughSpace) (fun o => o)                           (* nothing allocated *)
| mkc_full1 : mk_count (Err NotEnoughSpace) (fun o => add_free (dec_free o) 1)     (* taken and released *)
| mkc_slot : mk_count (Ok tt) dec_free                                             (* one cluster *)
| mkc_grown : mk_count (Ok tt) (fun o => dec_free (dec_free o)).                   (* two clusters *)

Theorem c16_make_dir fsz total v hs parent sfn pbl s :
  s_vols s = [v] ->
  alloc_pre s 0 v fsz -> PrBounds.part_layout v total fsz -> clusters_fit v -> blocks_wf (s_disk s) ->
  fat_wf (s_disk s) v hs ->
  dir_blocks (s_disk s) v parent = Some pbl ->
  (negb (v_fat32 v) && (parent =? CL_ROOT) = false -> In (dir_first_cluster v parent) hs) ->
  length sfn = 11%nat ->
  exists r s' f, make_dir 0 parent sfn A_DIRECTORY s = (r, s') /\ seg fsz f s s' /\ mk_count r f.
Proof.
  intros Ev Hpre L Hfit Hbw W Hbl Hhead Hname.
  assert (Hprev0 : forall p, @None N = Some p -> p < v_clusters v + 2) by (intros p Ep; discriminate Ep).
  pose proof Hpre as (_ & FL & _).
  destruct (alloc_cluster_total 0 v fsz None false s Hpre Hprev0)
    as (o & s1 & Hal & [(-> & Hnone & Hd1 & Hm1 & T1 & Hst1)|(c & -> & Heff)]).
  - (* no free cluster *)
    exists (Err NotEnoughSpace), s1, (fun o => o).
    split; [unfold make_dir; exact (bind_err _ _ _ _ _ Hal)|]. split; [|constructor].
    apply (seg_quiet fsz s s1 v Ev (proj1 Hm1) FL). apply fat_same_eq. exact Hd1.
  - destruct (c16_mkdir_prefix fsz total v hs parent sfn s c s1 Ev Hfit Hpre L Hbw W Hal)
      as (s6 & v1 & Erun & PX & Ev6 & S06).
    destruct (c16_mkdir_rest fsz total v hs parent sfn pbl s c s6 v1 L Hfit Hbl Hhead Hname PX Ev6)
      as (r & s' & g & Erest & S6 & Hcount).
    rewrite Erest in Erun.
    pose proof (seg_trans fsz dec_free g s s6 s' S06 S6) as Sall.
    destruct Hcount.
    + exists (Ok tt), s', dec_free. split; [exact Erun|]. split; [exact Sall|constructor].
    + exists (Ok tt), s', (fun o => dec_free (dec_free o)). split; [exact Erun|]. split; [exact Sall|constructor].
    + exists (Err NotEnoughSpace), s', (fun o => add_free (dec_free o) 1).
      split; [exact Erun|]. split; [exact Sall|constructor].
Qed.

(* ================================================================== 6. step (Mkdir d name) *)
Inductive mkdir_count : outcome res -> (option N -> option N) -> Prop :=
| mdc_refused e : In e [BadHandle; TooManyOpenDirs; FilenameError; DirAlreadyExists; FileAlreadyExists] ->
    mkdir_count (Err e) (fun o => o)                       (* nothing was written *)
| mdc_full0 : mkdir_count (Err NotEnoughSpace) (fun o => o)
| mdc_full1 : mkdir_count (Err NotEnoughSpace) (fun o => add_free (dec_free o) 1)
| mdc_slot : mkdir_count (Ok RUnit) dec_free
| mdc_grown : mkdir_count (Ok RUnit) (fun o => dec_free (dec_free o)).

Theorem mkdir_step_seg fsz vid d name s r s' :
  fs_inv fsz vid s -> op_known_ok (Mkdir d name) -> step (Mkdir d name) s = (r, s') ->
  exists f, seg fsz f s s' /\ mkdir_count r f.
Proof.
  intros Hinv Hknown Hs. pose proof (fs_inv_lock fsz vid s Hinv) as Hl.
  cbn [step] in Hs. destruct Hinv as (vi & v & bl & rch & T & Hat).
  destruct (mkd_facts _ _ _ _ _ _ _ _ Hat) as (_ & Hnf & Hc & Ev & Evi & Hv0 & Hv & FL & _ & _ & _ & _).
  subst vi.
  pose proof (seg_same fsz s v Ev FL) as Ssame.
  assert (Hrefuse : forall e, In e [BadHandle; TooManyOpenDirs; FilenameError; DirAlreadyExists; FileAlreadyExists] ->
            make_dir_in_dir d name s = (Err e, s) -> exists f, seg fsz f s s' /\ mkdir_count r f).
  { intros e He E. rewrite (PrHandles.lift_err _ _ _ _ _ E) in Hs. injection Hs as <- <-.
    exists (fun o => o). split; [exact Ssame|constructor; exact He]. }
  destruct (find_idx (fun x => d_id x =? d) (s_dirs s) 0) as [di|] eqn:Efind.
  2:{ (* a stale directory handle *)
    assert (Hno : PrHandles.no_dir d s) by (intros x Hx; apply N.eqb_neq; exact (find_idx_none_inv _ _ _ Efind x Hx)).
    destruct (PrHandles.C08_stale_dir_handle d s Hl Hno) as (_ & _ & _ & _ & _ & E & _). specialize (E name). cbn [step] in E.
    rewrite E in Hs. injection Hs as <- <-.
    exists (fun o => o). split; [exact Ssame|]. apply mdc_refused.
    destruct (is_full (s_dirs s) (s_maxd s)); cbn [In]; tauto. }
  destruct (find_idx_nth _ _ _ _ Efind) as (dd & Hdd & _). rewrite Nat.sub_0_r in Hdd.
  assert (H1 : get_dir_by_id d s = (Ok di, s)) by (rewrite PrHandles.get_dir_by_id_eq, Efind; reflexivity).
  assert (H2 : get_dir di s = (Ok dd, s)) by (rewrite PrHandles.get_dir_eq, Hdd; reflexivity).
  destruct (is_full (s_dirs s) (s_maxd s)) eqn:Hfull.
  { apply (Hrefuse TooManyOpenDirs); [cbn [In]; tauto|].
    unfold make_dir_in_dir. rewrite (PrHandles.locked_free _ s Hl), PrHandles.bind_get, Hfull. reflexivity. }
  assert (H3 : get_volume_by_id (d_vol dd) s = if v_id v =? d_vol dd then (Ok 0%nat, s) else (Err BadHandle, s)).
  { rewrite PrHandles.get_volume_by_id_eq, Ev. cbn [find_idx]. destruct (v_id v =? d_vol dd); reflexivity. }
  destruct (N.eqb_spec (v_id v) (d_vol dd)) as [Evol|Nvol].
  2:{ (* a handle of another volume id *)
    apply (Hrefuse BadHandle); [cbn [In]; tauto|].
    unfold make_dir_in_dir. rewrite (PrHandles.locked_free _ s Hl), PrHandles.bind_get, Hfull.
    rewrite (bind_ok _ _ _ _ _ H1), (bind_ok _ _ _ _ _ H2). apply bind_err. exact H3. }
  assert (Hres : PrModes.resolves s d di dd 0 v).
  { split; [exact Hl|]. split; [exact H1|]. split; [exact H2|]. split; [exact H3|].
    rewrite PrHandles.get_vol_eq, Hv0. reflexivity. }
  assert (Hdir : mkd_is_dir T (d_cluster dd)).
  { pose proof (fi_dirs _ _ _ _ _ _ _ _ Hat) as Hd. rewrite Forall_forall in Hd.
    exact (Hd dd (nth_error_In _ _ Hdd) (eq_sym Evol)). }
  destruct (sfn_of_str name) as [sfn|] eqn:Hsfn.
  2:{ apply (Hrefuse FilenameError); [cbn [In]; tauto|].
      unfold make_dir_in_dir. rewrite (PrHandles.locked_free _ s Hl), PrHandles.bind_get, Hfull.
      rewrite (bind_ok _ _ _ _ _ H1), (bind_ok _ _ _ _ _ H2), (bind_ok _ _ _ _ _ H3), Hsfn. reflexivity. }
  destruct (PrModes.C07_mkdir_refusals s d di dd 0%nat v name sfn Hres Hfull Hsfn) as (Rdot & Rfound).
  destruct (PrModes.dot_name sfn) eqn:Hdot.
  { apply (Hrefuse DirAlreadyExists); [cbn [In]; tauto|]. exact (Rdot eq_refl). }
  specialize (Rfound eq_refl).
  (* the lookup *)
  destruct (mkd_ctx _ _ _ _ _ _ _ _ (d_cluster dd) Hat Hdir) as (pbl & pp & Hbl & Hok & Hnd & Hcls & Hrange & Hhead & Hwhere).
  destruct (C06_find 0 v (d_cluster dd) sfn s pbl Hv0 Hv Hnf Hc Hbl) as (s1 & Hfind & Hro).
  pose proof (mkd_ro _ _ _ _ _ _ _ _ _ Hat Hro) as Hat1.
  pose proof (seg_ro fsz s s1 v Ev FL Hro) as S01.
  destruct Hro as (Hd1 & Hc1 & Hnf1 & Hm1). pose proof Hm1 as (M1 & _).
  destruct (find (t_matches sfn) (live_in_blocks (s_disk s) pbl)) as [t|] eqn:Ematch.
  { (* the name exists *)
    destruct (Rfound _ _ _ Hfind eq_refl) as (E & _).
    rewrite (PrHandles.lift_err _ _ _ _ _ E) in Hs. injection Hs as <- <-.
    exists (fun o => o). split; [exact S01|]. apply mdc_refused.
    match goal with |- In (if ?b then _ else _) _ => destruct b end; cbn [In]; tauto. }
  (* NotFound: make_dir runs in the state after the lookup *)
  assert (Erun : make_dir_in_dir d name s = make_dir 0 (d_cluster dd) sfn A_DIRECTORY s1).
  { unfold make_dir_in_dir. rewrite (PrHandles.locked_free _ s Hl), PrHandles.bind_get, Hfull.
    rewrite (bind_ok _ _ _ _ _ H1), (bind_ok _ _ _ _ _ H2), (bind_ok _ _ _ _ _ H3), Hsfn.
    unfold PrModes.dot_name in Hdot. rewrite Hdot. unfold bind at 1, try. rewrite Hfind. reflexivity. }
  destruct (mkd_sfn_of_str_wf name sfn Hsfn) as (Hlen & Hge).
  destruct (mkd_facts _ _ _ _ _ _ _ _ Hat1) as (_ & _ & _ & Ev1 & _ & _ & _ & _ & Hwf1 & _ & Hpre1 & Hfit1).
  rewrite <- Hd1 in Hbl.
  assert (Hhead1 : negb (v_fat32 v) && (d_cluster dd =? CL_ROOT) = false -> In (dir_first_cluster v (d_cluster dd)) (iv_hs s1 v T)).
  { intros E. specialize (Hhead E). unfold iv_hs, pend_of in *. rewrite Hd1. destruct Hm1 as (_ & _ & -> & _). exact Hhead. }
  destruct (c16_make_dir fsz (v_nblocks v) v (iv_hs s1 v T) (d_cluster dd) sfn pbl s1 Ev1 Hpre1
              (fi_layout _ _ _ _ _ _ _ _ Hat1) Hfit1 Hwf1 (iv_wf _ _ _ _ _ _ _ _ Hat1) Hbl Hhead1 Hlen)
    as (r0 & s2 & g & Hmk & S12 & Hcount).
  unfold lift, bind in Hs. rewrite Erun, Hmk in Hs.
  pose proof (seg_trans fsz (fun o => o) g s s1 s2 S01 S12) as Sall.
  destruct Hcount; injection Hs as <- <-.
  - exists (fun o => o). split; [exact Sall|apply mdc_full0].
  - exists (fun o => add_free (dec_free o) 1). split; [exact Sall|apply mdc_full1].
  - exists dec_free. split; [exact Sall|apply mdc_slot].
  - exists (fun o => dec_free (dec_free o)). split; [exact Sall|apply mdc_grown].
Qed.

Theorem step_c16_Mkdir fsz vid d name : step_c16 fsz vid (Mkdir d name).
Proof.
  intros s r s' Hinv _ Hknown Hs.
  destruct (mkdir_step_seg fsz vid d name s r s' Hinv Hknown Hs) as (f & ((K1 & K2 & K3 & K4 & _) & _) & _).
  repeat (split; [assumption|]). exact K4.
Qed.

(* the strict hint range is kept as well *)
Theorem step_c16_strict_Mkdir fsz vid d name s r s' :
  fs_inv fsz vid s -> op_known_ok (Mkdir d name) -> step (Mkdir d name) s = (r, s') ->
  hint_inv' s -> hint_inv' s'.
Proof.
  intros Hinv Hknown Hs.
  destruct (mkdir_step_seg fsz vid d name s r s' Hinv Hknown Hs) as (f & ((_ & _ & _ & _ & K5) & _) & _).
  exact K5.
Qed.

(* ================================================================== 7. step (Delete d name) *)
Inductive delete_count : outcome res -> (option N -> option N) -> Prop :=
| dlc_refused e : In e [BadHandle; FilenameError; NotFound; DeleteDirAsFile; FileAlreadyOpen] ->
    delete_count (Err e) (fun o => o)                                         (* nothing was written *)
| dlc_empty : delete_count (Ok RUnit) (fun o => o)                            (* a file without clusters *)
| dlc_chain k : (1 <= k)%nat -> delete_count (Ok RUnit) (fun o => add_free o (N.of_nat k)).  (* k clusters freed *)

(* the deletion itself, from the state s1 after the lookup: one directory block outside the FAT
   copies is written (the slot is marked 0xE5), then the chain of the file is released *)
Lemma c16_delete_core fsz vid s1 v bl rch T dc bl' parent kids sfn t :
  fs_inv_at fsz vid s1 0 v bl rch T -> del_ctx (s_disk s1) v T dc bl' parent kids ->
  sfn_shape sfn -> get8 sfn 0 <> 229 ->
  find (t_matches sfn) (live_in_blocks (s_disk s1) bl') = Some t ->
  is_directory (e_attr (t_entry (v_fat32 v) t)) = false ->
  exists s' f,
    (delete_directory_entry 0 dc sfn ;;; free_cluster_chain 0 (e_cluster (t_entry (v_fat32 v) t))) s1 = (Ok tt, s') /\
    seg fsz f s1 s' /\ delete_count (Ok RUnit) f.
Proof.
  intros Hat Hctx Hs H229 Hfind Hndir.
  destruct (del_found (s_disk s1) v T dc bl' parent kids sfn t Hctx Hs H229 Hfind Hndir)
    as (Hlive & Hname & Hdot & Hnodes & ch & Hkid & Hrep).
  destruct (dir_nodes_in (s_disk s1) bl' t Hnodes) as (_ & _ & blk & i & Hb & Hi & Et).
  destruct (del_facts _ _ _ _ _ _ _ _ Hat) as (Hl & Hnf & Hc & Ev & _ & Hv0 & Hvok & L & Hwf & Hvid & Hpre).
  pose proof (fi_layout _ _ _ _ _ _ _ _ Hat) as PL.
  pose proof (fi_disk _ _ _ _ _ _ _ _ Hat) as HD.
  pose proof (di_tree _ _ _ _ _ _ HD) as HT. pose proof (di_root _ _ _ _ _ _ HD) as Hroot.
  pose proof (dx_sub _ _ _ _ _ _ _ Hctx _ Hkid) as Hn0.
  (* the slot write *)
  pose proof (delete_directory_entry_spec 0 v dc sfn s1 bl' Hv0 Hvok Hnf Hc (dx_blocks _ _ _ _ _ _ _ Hctx)) as Hspec.
  rewrite Hfind, Et in Hspec.
  destruct (Hspec (Hwf blk)) as (s2 & Hrun2 & Hd2 & _ & _ & _ & _ & _ & Hc2 & Hnf2 & Hm2 & _).
  clear Hspec. subst t.
  set (e1 := t_entry (v_fat32 v) (blk, i * 32, slot (disk_get (s_disk s1) blk) i)) in *.
  assert (Hblk : In blk (tree_dir_blocks v bl T)).
  { destruct (del_node_where (s_disk s1) v bl T _ HT Hn0) as (_ & _ & _ & H). exact H. }
  assert (Hnfat : ~ PrBounds.in_fat v fsz blk).
  { apply (del_in_dir_not_fat v fsz blk PL). exact (del_tree_block_in_dir (s_disk s1) v bl rch T blk Hroot HT Hblk). }
  assert (Hfs : fat_same v fsz (s_disk s1) (s_disk s2)) by (rewrite Hd2; apply fat_same_set; exact Hnfat).
  assert (Hvols2 : s_vols s2 = [v]) by (rewrite (proj1 Hm2); exact Ev).
  assert (Hpre2 : alloc_pre s2 0 v fsz).
  { apply (alloc_pre_frame v fsz 0%nat v s1 s2 Hpre (geo_eq_refl v) Hnf2 Hc2); [rewrite Hvols2; reflexivity|exact Hfs]. }
  assert (S12 : seg fsz (fun o => o) s1 s2) by exact (seg_quiet fsz s1 s2 v Ev (proj1 Hm2) L Hfs).
  assert (Hrep' := Hrep). apply node_rep_file in Hrep'. destruct Hrep' as (_ & _ & Hec).
  destruct Hec as [(Hge & fu & Hch)|(Hlt & ->)].
  - (* a file with a chain *)
    destruct (chain_at_head _ _ _ _ (chain_at_any _ _ _ _ _ Hch)) as (rest & ->).
    set (h := e_cluster e1) in *.
    assert (Hch2 : chain_of (s_disk s2) v h fu = Some (h :: rest)).
    { apply (chain_of_frame (s_disk s1) (s_disk s2) v _ _ _ Hch). intros x Hx.
      pose proof (chain_of_range _ _ _ _ _ Hch) as Rg. rewrite Forall_forall in Rg.
      exact (fat_same_get v fsz _ _ x L (proj2 (Rg x Hx)) Hfs). }
    destruct (seg_free fsz s2 v h rest fu Hvols2 Hpre2 Hch2) as (s' & Hrun3 & S23).
    exists s', (fun o => add_free o (N.of_nat (S (length rest)))). split.
    { rewrite (bind_ok _ _ _ _ _ Hrun2). exact Hrun3. }
    split; [|apply dlc_chain; lia].
    exact (seg_trans fsz (fun o => o) (fun o => add_free o (N.of_nat (S (length rest)))) s1 s2 s' S12 S23).
  - (* an empty file: nothing to free *)
    exists s2, (fun o => o). split.
    { rewrite (bind_ok _ _ _ _ _ Hrun2). exact (free_reserved 0 _ s2 Hlt). }
    split; [exact S12|apply dlc_empty].
Qed.

Theorem delete_step_seg fsz vid d name s r s' :
  fs_inv fsz vid s -> op_known_ok (Delete d name) -> step (Delete d name) s = (r, s') ->
  exists f, seg fsz f s s' /\ delete_count r f.
Proof.
  intros (vi & v & bl & rch & T & Hat) (_ & Hname) Hs. cbn [step] in Hs.
  destruct (del_facts _ _ _ _ _ _ _ _ Hat) as (Hl & Hnf & Hc & Ev & E0 & Hv0 & Hvok & FL & _). subst vi.
  pose proof (seg_same fsz s v Ev FL) as Ssame.
  assert (Hrefuse : forall e s1, In e [BadHandle; FilenameError; NotFound; DeleteDirAsFile; FileAlreadyOpen] ->
            seg fsz (fun o => o) s s1 ->
            delete_file_in_dir d name s = (Err e, s1) -> exists f, seg fsz f s s' /\ delete_count r f).
  { intros e s1 He S1 E. rewrite (lift_err' _ _ _ _ _ E) in Hs. injection Hs as <- <-.
    exists (fun o => o). split; [exact S1|apply dlc_refused; exact He]. }
  destruct (del_resolve _ _ _ _ _ _ _ _ d Hat) as [Hno|di dd H1 H2 Hne H3|di dd Hres Hvol Hdir].
  - (* stale handle *)
    destruct (PrHandles.C08_stale_dir_handle d s Hl Hno) as (_ & _ & _ & E1 & _). specialize (E1 name). cbn [step] in E1.
    rewrite E1 in Hs. injection Hs as <- <-.
    exists (fun o => o). split; [exact Ssame|apply dlc_refused; cbn [In]; tauto].
  - (* a handle of another volume id *)
    apply (Hrefuse BadHandle s); [cbn [In]; tauto|exact Ssame|].
    unfold delete_file_in_dir. rewrite (PrHandles.locked_free _ s Hl).
    rewrite (bind_ok _ _ _ _ _ H1), (bind_ok _ _ _ _ _ H2). apply bind_err. exact H3.
  - pose proof Hres as (_ & H1 & H2 & H3 & H4).
    destruct (sfn_of_str name) as [sfn|] eqn:Hsfn.
    2:{ (* bad name *)
      apply (Hrefuse FilenameError s); [cbn [In]; tauto|exact Ssame|].
      unfold delete_file_in_dir. rewrite (PrHandles.locked_free _ s Hl).
      rewrite (bind_ok _ _ _ _ _ H1), (bind_ok _ _ _ _ _ H2), (bind_ok _ _ _ _ _ H3), Hsfn. reflexivity. }
    pose proof (del_sfn_shape name sfn Hsfn) as Hshape.
    assert (H229 : get8 sfn 0 <> 229).
    { cbn [op_name_ok] in Hname. unfold e5_name in Hname. rewrite Hsfn in Hname. apply N.eqb_neq. exact Hname. }
    destruct (del_ctx_of _ _ _ _ _ _ _ _ (d_cluster dd) Hat Hdir) as (bl' & parent & kids & Hctx).
    destruct (C06_find 0 v (d_cluster dd) sfn s bl' Hv0 Hvok Hnf Hc (dx_blocks _ _ _ _ _ _ _ Hctx)) as (s1 & Hrun & Hro).
    assert (Hro' : ro_step s s1) by exact Hro.
    pose proof (del_ro _ _ _ _ _ _ _ _ _ Hat Hro') as Hat1.
    pose proof (seg_ro fsz s s1 v Ev FL Hro') as S01.
    destruct Hro as (Hd1 & _ & _ & Hm1).
    assert (Hvols1 : s_vols s1 = s_vols s) by exact (proj1 Hm1).
    destruct (find (t_matches sfn) (live_in_blocks (s_disk s) bl')) as [t|] eqn:Hfind.
    + set (e := t_entry (v_fat32 v) t) in *.
      destruct (is_directory (e_attr e)) eqn:Hisdir.
      * (* the entry is a directory *)
        destruct (PrModes.C07_delete_refusals s d di dd 0 v name sfn (Ok e) s1 DeleteDirAsFile Hres Hsfn Hrun) as (E & _).
        { cbn [PrModes.delete_refusal]. rewrite Hisdir. reflexivity. }
        apply (Hrefuse DeleteDirAsFile s1); [cbn [In]; tauto|exact S01|exact E].
      * destruct (PrModes.is_open s1 (d_vol dd) e) eqn:Hopen.
        -- (* the file is open *)
           destruct (PrModes.C07_delete_refusals s d di dd 0 v name sfn (Ok e) s1 FileAlreadyOpen Hres Hsfn Hrun) as (E & _).
           { cbn [PrModes.delete_refusal PrModes.found_open]. rewrite Hisdir, Hopen. reflexivity. }
           apply (Hrefuse FileAlreadyOpen s1); [cbn [In]; tauto|exact S01|exact E].
        -- (* the deletion *)
           assert (Hv1 : get_volume_by_id (d_vol dd) s1 = (Ok 0%nat, s1)).
           { rewrite (del_vol_lookup s1 v (d_vol dd) ltac:(rewrite Hvols1; exact Ev)).
             rewrite Hvol, N.eqb_refl. reflexivity. }
           pose proof (del_run_success s d di dd v name sfn e s1 Hres Hsfn Hrun Hisdir Hopen Hv1) as Erun.
           assert (Hctx1 : del_ctx (s_disk s1) v T (d_cluster dd) bl' parent kids) by (rewrite Hd1; exact Hctx).
           assert (Hfind1 : find (t_matches sfn) (live_in_blocks (s_disk s1) bl') = Some t) by (rewrite Hd1; exact Hfind).
           destruct (c16_delete_core fsz vid s1 v bl rch T (d_cluster dd) bl' parent kids sfn t Hat1 Hctx1 Hshape H229 Hfind1 Hisdir)
             as (s2 & g & Drun & S12 & Hcount).
           fold e in Drun. rewrite Drun in Erun. rewrite (lift_ok' _ _ _ _ _ Erun) in Hs. injection Hs as <- <-.
           exists (fun o => g ((fun o' => o') o)). split; [exact (seg_trans fsz (fun o' => o') g s s1 s2 S01 S12)|exact Hcount].
    + (* no such entry *)
      destruct (PrModes.C07_delete_refusals s d di dd 0 v name sfn (Err NotFound) s1 NotFound Hres Hsfn Hrun) as (E & _);
        [reflexivity|].
      apply (Hrefuse NotFound s1); [cbn [In]; tauto|exact S01|exact E].
Qed.

Theorem step_c16_Delete fsz vid d name : step_c16 fsz vid (Delete d name).
Proof.
  intros s r s' Hinv _ Hknown Hs.
  destruct (delete_step_seg fsz vid d name s r s' Hinv Hknown Hs) as (f & ((K1 & K2 & K3 & K4 & _) & _) & _).
  repeat (split; [assumption|]). exact K4.
Qed.

Theorem step_c16_strict_Delete fsz vid d name s r s' :
  fs_inv fsz vid s -> op_known_ok (Delete d name) -> step (Delete d name) s = (r, s') ->
  hint_inv' s -> hint_inv' s'.
Proof.
  intros Hinv Hknown Hs.
  destruct (delete_step_seg fsz vid d name s r s' Hinv Hknown Hs) as (f & ((_ & _ & _ & _ & K5) & _) & _).
  exact K5.
Qed.

(* ================================================================== 8. the hypotheses are satisfiable *)
(* fs_inv does not look at the free count and asks of the hint only that it is no reserved entry:
   the record can be replaced *)
Lemma fs_inv_rebook fsz vid s vi v bl rch T nf fc :
  fs_inv_at fsz vid s vi v bl rch T -> (forall c, nf = Some c -> 2 <= c) ->
  fs_inv fsz vid (set_s_vols s [set_v_free (set_v_next_free v nf) fc]).
Proof.
  intros Hinv Hnf'.
  destruct (mkd_facts _ _ _ _ _ _ _ _ Hinv) as (_ & Hnf & Hc & Ev & -> & _ & _ & _ & Hwf & _ & Hpre & _).
  set (v' := set_v_free (set_v_next_free v nf) fc).
  exists 0%nat, v', bl, rch, T.
  apply (mkd_finish fsz vid s (set_s_vols s [v']) 0%nat v v' bl rch T bl rch T Hinv); try reflexivity.
  - exists nf, fc. reflexivity.
  - destruct Hpre as ((_ & _ & _ & Hlen) & L & _).
    split; [|split; [exact (fat_layout_free v fsz nf fc L)|intros c E; cbn in E; exact (Hnf' c E)]].
    split; [exact Hnf|]. split; [exact Hc|]. split; [reflexivity|exact Hlen].
  - exact Hwf.
  - exact (fi_disk _ _ _ _ _ _ _ _ Hinv).
  - intros f Hf H2.
    exact (wf_l_def _ _ _ _ (iv_wf _ _ _ _ _ _ _ _ Hinv) (ofile_in_hs _ _ _ _ _ _ _ _ Hinv f Hf H2)).
  - auto.
  - intros e ch kids H. exists ch, kids. exact H.
Qed.

(* PrGlobalMkdir's blank FAT16 volume (60000 clusters, two FAT copies of 256 sectors, one handle on
   the root directory) with the TRUE count 60000 and the hint 5: the copies are mirrored, the count
   is truthful, the hint is in range; Mkdir 9 "A" succeeds, all three hold afterwards (by the theorems)
   and the count is 59999 *)
Definition exd_vol : vol := set_v_free (set_v_next_free PrFat.ex_vol16 (Some 5)) (Some 60000).
Definition exd_state : st := set_s_vols mkd_ex_state [exd_vol].

Example exd_inv : fs_inv 256 0 exd_state.
Proof.
  destruct mkd_ex_inv as (vi & v & bl & rch & T & Hat).
  pose proof (fi_single _ _ _ _ _ _ _ _ Hat) as Ev. change (s_vols mkd_ex_state) with [PrFat.ex_vol16] in Ev.
  injection Ev as <-.
  apply (fs_inv_rebook 256 0 mkd_ex_state vi PrFat.ex_vol16 bl rch T (Some 5) (Some 60000) Hat).
  intros c E. injection E as <-. lia.
Qed.

Example exd_invariants : mirror_inv 256 exd_state /\ truthful_inv exd_state /\ hint_inv exd_state /\ hint_inv' exd_state.
Proof.
  assert (Hget : forall i, disk_get (s_disk exd_state) i = zero_block).
  { intros i. unfold disk_get. cbn [s_disk exd_state mkd_ex_state set_s_vols set_s_next_id set_s_dirs PrFat.ex_state].
    rewrite PositiveMap.gempty. reflexivity. }
  assert (Hstrict : hint_inv' exd_state).
  { intros w [<-|[]] h E. injection E as <-. split; [lia|]. vm_compute. reflexivity. }
  split; [|split; [|split; [exact (hint_inv'_inv _ Hstrict)|exact Hstrict]]].
  - intros w [<-|[]] k _. rewrite !Hget. reflexivity.
  - intros w [<-|[]]. unfold truthful.
    assert (E : N.of_nat (free_entries (s_disk exd_state) exd_vol) = 60000) by (vm_compute; reflexivity).
    rewrite E. reflexivity.
Qed.

Example exd_run :
  exists s1 v1, step (Mkdir 9 [65]) exd_state = (Ok RUnit, s1) /\ s_vols s1 = [v1] /\ v_free v1 = Some 59999 /\
    mirror_inv 256 s1 /\ truthful_inv s1 /\ hint_inv s1 /\ hint_inv' s1.
Proof.
  assert (F1 : fst (step (Mkdir 9 [65]) exd_state) = Ok RUnit) by (vm_compute; reflexivity).
  assert (F2 : map v_free (s_vols (snd (step (Mkdir 9 [65]) exd_state))) = [Some 59999]) by (vm_compute; reflexivity).
  assert (Hk : op_known_ok (Mkdir 9 [65])) by (repeat split; vm_compute; reflexivity).
  destruct (step (Mkdir 9 [65]) exd_state) as [r1 s1] eqn:E1. cbn [fst snd] in F1, F2. subst r1.
  destruct (mkdir_step_seg 256 0 9 [65] exd_state _ s1 exd_inv Hk E1)
    as (f & ((K1 & K2 & _ & K4 & K5) & v & v1 & _ & Ev1 & _ & _) & _).
  destruct exd_invariants as (I1 & I2 & I4 & I5).
  exists s1, v1. split; [reflexivity|]. split; [exact Ev1|].
  rewrite Ev1 in F2. cbn [map] in F2. injection F2 as F2.
  split; [exact F2|]. split; [exact (K1 I1)|]. split; [exact (K2 I2)|]. split; [exact (K4 I4)|exact (K5 I5)].
Qed.

(* PrGlobalDelete's FAT16 volume (one FAT copy, count unknown, hint unknown) with the file "A"
   (chain 2 -> 3): the invariants hold before and - by the theorem - after Delete 5 "A";
   the count stays unknown, the hint becomes the first cluster of the freed chain *)
Example exg_delete :
  mirror_inv 16 exg_state /\ unknown_inv exg_state /\ hint_inv' exg_state /\
  mirror_inv 16 exg_s1 /\ unknown_inv exg_s1 /\ hint_inv' exg_s1 /\
  map v_next_free (s_vols exg_s1) = [Some 2].
Proof.
  assert (I1 : mirror_inv 16 exg_state) by (intros w [<-|[]] k _; reflexivity).
  assert (I3 : unknown_inv exg_state) by (intros w [<-|[]]; reflexivity).
  assert (I5 : hint_inv' exg_state) by (intros w [<-|[]] h E; discriminate E).
  assert (Hk : op_known_ok (Delete 5 [65])) by (repeat split; vm_compute; reflexivity).
  destruct (delete_step_seg 16 0 5 [65] exg_state _ exg_s1 exg_inv Hk exg_step1) as (f & ((K1 & _ & K3 & _ & K5) & _) & _).
  repeat (split; [first [assumption|exact (K1 I1)|exact (K3 I3)|exact (K5 I5)]|]).
  vm_compute. reflexivity.
Qed.

(* the count on the "taken and released" path, on values *)
Example release_count_values :
  add_free (dec_free (Some 7)) 1 = Some 7 /\ add_free (dec_free (Some 0)) 1 = None /\
  add_free (dec_free (Some 4294967295)) 1 = Some 4294967295 /\
  add_free (dec_free (Some 4294967296)) 1 = None /\ add_free (dec_free None) 1 = None.
Proof. repeat split; vm_compute; reflexivity. Qed.

Print Assumptions step_c16_Mkdir.
Print Assumptions step_c16_Delete.
Print Assumptions mkdir_step_seg.
Print Assumptions delete_step_seg.
Print Assumptions step_c16_strict_Mkdir.
Print Assumptions step_c16_strict_Delete.
Print Assumptions exd_run.
Print Assumptions exg_delete.
