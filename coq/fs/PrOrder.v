(* PROOFS for C10: the ORDER of the device writes inside an operation, with a working device
   (no_faults, cache_ok).  The trace is newest-first; `writes_of new` lists the block indices
   of the DWrite events of `new` in the order in which they happened. *)
From Coq Require Import NArith ZArith List Bool Lia Arith FMapPositive.
From SdFs Require Import FsTypes FsBase FsFat FsMgr FsLemmas PrBase.
Import ListNotations.
Open Scope N_scope.

(* ------------------------------------------------------------------ writes of a trace segment *)
Definition wr1 (d : devcall) : list N := match d with DWrite i _ => [i] | _ => [] end.
Definition writes_of (new : list devcall) : list N := flat_map wr1 (rev new).

Lemma writes_of_app n2 n1 : writes_of (n2 ++ n1) = writes_of n1 ++ writes_of n2.
Proof. unfold writes_of. rewrite rev_app_distr, flat_map_app. reflexivity. Qed.

Lemma writes_of_nil : writes_of [] = [].
Proof. reflexivity. Qed.

(* the trace of s' is the trace of s plus events whose writes are, in order, ws *)
Definition tsteps (s s' : st) (ws : list N) : Prop :=
  exists new, s_trace s' = new ++ s_trace s /\ writes_of new = ws.

Definition good (s : st) : Prop := no_faults s /\ cache_ok s.

(* ... and the device still works and the cache is coherent afterwards *)
Definition steps (s s' : st) (ws : list N) : Prop := tsteps s s' ws /\ good s'.

Lemma tsteps_refl s : tsteps s s [].
Proof. exists []. split; reflexivity. Qed.

Lemma tsteps_trans s s1 s2 w1 w2 : tsteps s s1 w1 -> tsteps s1 s2 w2 -> tsteps s s2 (w1 ++ w2).
Proof.
  intros (n1 & E1 & W1) (n2 & E2 & W2). exists (n2 ++ n1). split.
  - rewrite E2, E1, app_assoc. reflexivity.
  - rewrite writes_of_app, W1, W2. reflexivity.
Qed.

Lemma steps_trans s s1 s2 w1 w2 : steps s s1 w1 -> steps s1 s2 w2 -> steps s s2 (w1 ++ w2).
Proof. intros [T1 _] [T2 G2]. split; [eapply tsteps_trans; eauto|exact G2]. Qed.

Lemma tsteps_same_trace s s' : s_trace s' = s_trace s -> tsteps s s' [].
Proof. intros H. exists []. split; [exact H|reflexivity]. Qed.

(* the device-side fields are untouched *)
Definition same_dev (s s' : st) : Prop :=
  s_disk s' = s_disk s /\ s_cache s' = s_cache s /\ s_tag s' = s_tag s /\
  s_ncalls s' = s_ncalls s /\ s_trace s' = s_trace s /\ s_faults s' = s_faults s.

Lemma same_dev_refl s : same_dev s s.
Proof. unfold same_dev. repeat split; reflexivity. Qed.

Lemma same_dev_trans a b c : same_dev a b -> same_dev b c -> same_dev a c.
Proof.
  intros (A1 & A2 & A3 & A4 & A5 & A6) (B1 & B2 & B3 & B4 & B5 & B6).
  unfold same_dev. repeat split; congruence.
Qed.

Lemma same_dev_good s s' : same_dev s s' -> good s -> good s'.
Proof.
  intros (D1 & D2 & D3 & D4 & D5 & D6) [Hn Hc]. split.
  - intros n Hin. rewrite D6 in Hin. rewrite D4. apply Hn. exact Hin.
  - intros i Hi. rewrite D3 in Hi. rewrite D2, D1. apply Hc. exact Hi.
Qed.

Lemma same_dev_steps s s' : same_dev s s' -> good s -> steps s s' [].
Proof.
  intros Hd Hg. split; [|eapply same_dev_good; eauto].
  apply tsteps_same_trace. destruct Hd as (_ & _ & _ & _ & H & _). exact H.
Qed.

(* ------------------------------------------------------------------ inversion of the monad *)
Lemma bind_inv_ok {A B} (m : M A) (k : A -> M B) s b s' :
  bind m k s = (Ok b, s') -> exists a s1, m s = (Ok a, s1) /\ k a s1 = (Ok b, s').
Proof.
  unfold bind. destruct (m s) as [[a| e | |] s1]; intros H; try discriminate. eauto.
Qed.

Lemma try_inv_ok {A} (m : M A) s x s' :
  try m s = (Ok x, s') ->
  (exists a, x = inl a /\ m s = (Ok a, s')) \/ (exists e, x = inr e /\ m s = (Err e, s')).
Proof.
  unfold try. destruct (m s) as [[a| e | |] s1]; intros H; inversion H; subst; eauto.
Qed.

Tactic Notation "inv_bind" hyp(H) "as" ident(a) ident(s1) ident(H1) :=
  apply bind_inv_ok in H; destruct H as (a & s1 & H1 & H).

(* computations that leave the state alone *)
Definition keeps {A} (m : M A) : Prop := forall s r s', m s = (r, s') -> s' = s.

Lemma keeps_ret {A} (a : A) : keeps (ret a).
Proof. intros s r s' H. inversion H; reflexivity. Qed.
Lemma keeps_fail {A} e : keeps (@fail A e).
Proof. intros s r s' H. inversion H; reflexivity. Qed.
Lemma keeps_panic {A} : keeps (@panic A).
Proof. intros s r s' H. inversion H; reflexivity. Qed.
Lemma keeps_bind {A B} (m : M A) (k : A -> M B) : keeps m -> (forall a, keeps (k a)) -> keeps (bind m k).
Proof.
  intros Hm Hk s r s' H. unfold bind in H. destruct (m s) as [r1 s1] eqn:E1.
  apply Hm in E1. subst s1. destruct r1; try (inversion H; reflexivity). eapply Hk; eauto.
Qed.

Lemma keeps_add32 a b : keeps (add32 a b).
Proof. unfold add32. destruct (a + b <? U32); [apply keeps_ret|apply keeps_panic]. Qed.
Lemma keeps_sub32 a b : keeps (sub32 a b).
Proof. unfold sub32. destruct (b <=? a); [apply keeps_ret|apply keeps_panic]. Qed.
Lemma keeps_mul32 a b : keeps (mul32 a b).
Proof. unfold mul32. destruct (a * b <? U32); [apply keeps_ret|apply keeps_panic]. Qed.
Lemma keeps_fat_block v a b : keeps (fat_block v a b).
Proof. unfold fat_block. apply keeps_bind; [apply keeps_add32|intros; apply keeps_add32]. Qed.
Lemma keeps_get_vol vi : keeps (get_vol vi).
Proof.
  intros s r s' H. unfold get_vol, bind, get in H.
  destruct (nth_error (s_vols s) vi); inversion H; reflexivity.
Qed.
Lemma keeps_cluster_to_block v c : keeps (cluster_to_block v c).
Proof.
  unfold cluster_to_block.
  destruct (v_fat32 v); [|destruct (c =? CL_ROOT)];
    repeat (first [apply keeps_add32 | apply keeps_sub32 | apply keeps_mul32
                  | apply keeps_bind; [|intros ?]]).
Qed.
Lemma keeps_ts_to_fat t : keeps (ts_to_fat t).
Proof. unfold ts_to_fat. destruct (_ || _); [apply keeps_panic|apply keeps_ret]. Qed.
Lemma keeps_serialize b e : keeps (serialize b e).
Proof.
  unfold serialize. repeat (first [apply keeps_ts_to_fat | apply keeps_ret | apply keeps_bind; [|intros ?]]).
Qed.

Lemma add32_inv a b s x s' : add32 a b s = (Ok x, s') -> s' = s /\ x = a + b /\ a + b < U32.
Proof.
  unfold add32. destruct (N.ltb_spec (a + b) U32) as [Hlt|Hge]; intros E; inversion E; subst. auto.
Qed.
Lemma mul32_inv a b s x s' : mul32 a b s = (Ok x, s') -> s' = s /\ x = a * b /\ a * b < U32.
Proof.
  unfold mul32. destruct (N.ltb_spec (a * b) U32) as [Hlt|Hge]; intros E; inversion E; subst. auto.
Qed.
Lemma get_vol_inv vi s v s' : get_vol vi s = (Ok v, s') -> s' = s /\ nth_error (s_vols s) vi = Some v.
Proof.
  unfold get_vol, bind, get. destruct (nth_error (s_vols s) vi); intros H; inversion H; subst. auto.
Qed.
Lemma fat_block_inv v a fo s x s' :
  fat_block v a fo s = (Ok x, s') -> s' = s /\ x = v_lba v + (a + fo / 512).
Proof.
  unfold fat_block. intros H. inv_bind H as a0 s1 Hm.
  apply add32_inv in Hm. destruct Hm as (-> & -> & _).
  apply add32_inv in H. destruct H as (-> & -> & _). auto.
Qed.

(* cluster_to_block does not look at the state at all *)
Lemma cluster_to_block_indep v c s r s' :
  cluster_to_block v c s = (r, s') -> forall s0, cluster_to_block v c s0 = (r, s0).
Proof.
  unfold cluster_to_block, add32, sub32, mul32, bind, ret, panic.
  repeat match goal with |- context [if ?c then _ else _] => destruct c end;
    intros H s0; inversion H; reflexivity.
Qed.

(* ------------------------------------------------------------------ read-only computations *)
(* for ANY outcome: only reads are added, the device stays good, the tables are the same *)
Definition ro {A} (m : M A) : Prop :=
  forall s r s', good s -> m s = (r, s') -> steps s s' [] /\ same_mgr s s' /\ s_disk s' = s_disk s.

Lemma ro_keeps {A} (m : M A) : keeps m -> ro m.
Proof.
  intros Hk s r s' Hg H. apply Hk in H. subst s'.
  split; [split; [apply tsteps_refl|exact Hg]|]. split; [apply same_mgr_refl|reflexivity].
Qed.

Lemma ro_bind {A B} (m : M A) (k : A -> M B) : ro m -> (forall a, ro (k a)) -> ro (bind m k).
Proof.
  intros Hm Hk s r s' Hg H. unfold bind in H. destruct (m s) as [r1 s1] eqn:E1.
  destruct (Hm _ _ _ Hg E1) as (S1 & M1 & D1).
  destruct r1; try (inversion H; subst; auto).
  destruct (Hk a _ _ _ (proj2 S1) H) as (S2 & M2 & D2).
  split; [apply (steps_trans _ _ _ [] [] S1 S2)|]. split; [eapply same_mgr_trans; eauto|congruence].
Qed.

Lemma ro_cache_read i : ro (cache_read i).
Proof.
  intros s r s' [Hn Hc] H.
  destruct (cache_read_spec i s Hn Hc) as (s1 & E & D & T & C & Hc1 & Hn1 & M1 & Tr).
  rewrite E in H. inversion H; subst s1 r.
  split; [|split; [exact M1|exact D]]. split; [|split; assumption].
  destruct Tr as [Tr|Tr].
  - apply tsteps_same_trace. exact Tr.
  - exists [DRead i]. split; [exact Tr|reflexivity].
Qed.

Ltac ro_step :=
  lazymatch goal with
  | |- ro (bind _ _) => apply ro_bind; [|intros ?]
  | |- ro (ret _) => apply ro_keeps, keeps_ret
  | |- ro (fail _) => apply ro_keeps, keeps_fail
  | |- ro panic => apply ro_keeps, keeps_panic
  | |- ro out_of_fuel => apply ro_keeps; intros ? ? ? H; inversion H; reflexivity
  | |- ro (cache_read _) => apply ro_cache_read
  | |- ro (fat_block _ _ _) => apply ro_keeps, keeps_fat_block
  | |- ro (mul32 _ _) => apply ro_keeps, keeps_mul32
  | |- ro (add32 _ _) => apply ro_keeps, keeps_add32
  | |- ro (if ?c then _ else _) => destruct c
  | |- ro (match ?x with _ => _ end) => destruct x
  | |- ro _ => solve [auto]
  end.

Lemma ro_next_cluster v c : ro (next_cluster v c).
Proof. unfold next_cluster. repeat ro_step. Qed.

Lemma ro_find_next_free_loop v endc : forall fuel cur, ro (find_next_free_loop fuel v cur endc).
Proof. induction fuel as [|f IH]; intros cur; cbn [find_next_free_loop]; repeat ro_step. Qed.

(* find_next_free_cluster adds only DRead events *)
Theorem ro_find_next_free_cluster v a b : ro (find_next_free_cluster v a b).
Proof. unfold find_next_free_cluster. apply ro_find_next_free_loop. Qed.

(* ------------------------------------------------------------------ writing the cached block *)
Lemma no_faults_more s s' :
  s_faults s' = s_faults s -> s_ncalls s <= s_ncalls s' -> no_faults s -> no_faults s'.
Proof. apply no_faults_step. Qed.

Lemma write_back_steps i s r s' : s_tag s = Some i -> no_faults s -> write_back s = (r, s') ->
  r = Ok tt /\ steps s s' [i] /\ same_mgr s s' /\ s_tag s' = Some i.
Proof.
  intros Ht Hn H. rewrite (write_back_ok i s Ht Hn) in H. inversion H; subst r s'. clear H.
  split; [reflexivity|]. split; [|split].
  - split; [exists [DWrite i (s_cache s)]; split; reflexivity|]. split.
    + intros n Hin. cbn in Hin. specialize (Hn n Hin). cbn. lia.
    + intros j Hj. cbn in Hj. rewrite Ht in Hj. inversion Hj; subst. cbn. rewrite disk_get_set_same. reflexivity.
  - unfold same_mgr. cbn. repeat split; reflexivity.
  - cbn. exact Ht.
Qed.

Lemma write_back_dup_steps i d s r s' : s_tag s = Some i -> no_faults s ->
  write_back_with_duplicate d s = (r, s') ->
  r = Ok tt /\ steps s s' [i; d] /\ same_mgr s s' /\ s_tag s' = Some i.
Proof.
  intros Ht Hn H. unfold write_back_with_duplicate in H.
  rewrite (bind_ok get _ s s s eq_refl) in H. cbv beta in H. rewrite Ht in H.
  set (s1 := set_s_trace (set_s_disk (set_s_ncalls s (s_ncalls s + 1)) (disk_set (s_disk s) i (s_cache s)))
               (DWrite i (s_cache s) :: s_trace s)).
  assert (Ht1 : try (dev_write i (s_cache s)) s = (Ok (inl tt), s1))
    by (unfold try; rewrite (dev_write_ok _ _ _ Hn); reflexivity).
  rewrite (bind_ok _ _ _ _ _ Ht1) in H. cbv beta iota in H.
  assert (Hn1 : no_faults s1) by (apply (no_faults_step s); [reflexivity|cbn; lia|exact Hn]).
  rewrite (dev_write_ok d (s_cache s) s1 Hn1) in H. inversion H; subst r s'. clear H.
  split; [reflexivity|]. split; [|split].
  - split; [exists [DWrite d (s_cache s); DWrite i (s_cache s)]; split; reflexivity|]. split.
    + intros n Hin. cbn in Hin. specialize (Hn n Hin). cbn. lia.
    + intros j Hj. cbn in Hj. rewrite Ht in Hj. inversion Hj; subst. cbn.
      destruct (N.eq_dec d j) as [->|Hne].
      * rewrite disk_get_set_same. reflexivity.
      * rewrite disk_get_set_other by exact Hne. rewrite disk_get_set_same. reflexivity.
  - unfold same_mgr. cbn. repeat split; reflexivity.
  - cbn. exact Ht.
Qed.

(* ------------------------------------------------------------------ update_fat *)
(* the FAT sector(s) holding the entry of cluster c: primary, then the copy if there is one *)
Definition fat_sectors (v : vol) (c : N) : list N :=
  let w := if v_fat32 v then 4 else 2 in
  (v_lba v + (v_fat_start v + (c * w) / 512)) ::
  match v_second_fat v with
  | Some sf => [v_lba v + (sf + (c * w) / 512)]
  | None => []
  end.

(* the shared tail of both branches of update_fat *)
Lemma update_fat_tail this (second : option N) f s s' : good s ->
  (_ <- cache_read this ;; cache_modify f ;;;
   match second with Some d => write_back_with_duplicate d | None => write_back end) s = (Ok tt, s') ->
  steps s s' (this :: match second with Some d => [d] | None => [] end) /\ same_mgr s s'.
Proof.
  intros Hg H. inv_bind H as b s1 Hr.
  destruct (ro_cache_read this _ _ _ Hg Hr) as (S1 & M1 & D1).
  destruct Hg as [Hn Hc].
  destruct (cache_read_spec this s Hn Hc) as (s1' & E & _ & T & _).
  rewrite E in Hr. inversion Hr; subst s1' b. clear Hr E.
  inv_bind H as u s2 Hmod. unfold cache_modify, modify in Hmod. inversion Hmod; subst s2 u. clear Hmod.
  set (s2 := set_s_cache s1 (f (s_cache s1))) in H.
  assert (T2 : s_tag s2 = Some this) by exact T.
  assert (N2 : no_faults s2) by (apply (no_faults_step s1); [reflexivity|cbn; lia|exact (proj1 (proj2 S1))]).
  assert (M2 : same_mgr s1 s2) by (unfold same_mgr; cbn; repeat split; reflexivity).
  assert (TS2 : tsteps s1 s2 []) by (apply tsteps_same_trace; reflexivity).
  destruct second as [d|].
  - destruct (write_back_dup_steps this d _ _ _ T2 N2 H) as (_ & [S3 G3] & M3 & _).
    split; [|eapply same_mgr_trans; [exact M1|eapply same_mgr_trans; [exact M2|exact M3]]].
    split; [|exact G3].
    apply (tsteps_trans _ _ _ [] _ (proj1 S1)). apply (tsteps_trans _ _ _ [] _ TS2). exact S3.
  - destruct (write_back_steps this _ _ _ T2 N2 H) as (_ & [S3 G3] & M3 & _).
    split; [|eapply same_mgr_trans; [exact M1|eapply same_mgr_trans; [exact M2|exact M3]]].
    split; [|exact G3].
    apply (tsteps_trans _ _ _ [] _ (proj1 S1)). apply (tsteps_trans _ _ _ [] _ TS2). exact S3.
Qed.

Lemma second_inv v fo s (x : option N) s' :
  (match v_second_fat v with
   | Some sf => y <- fat_block v sf fo ;; ret (Some y)
   | None => ret None end) s = (Ok x, s') ->
  s' = s /\ x = match v_second_fat v with Some sf => Some (v_lba v + (sf + fo / 512)) | None => None end.
Proof.
  destruct (v_second_fat v) as [sf|]; intros H.
  - inv_bind H as y s1 Hf. apply fat_block_inv in Hf. destruct Hf as (-> & ->). inversion H; subst. auto.
  - inversion H; subst. auto.
Qed.

(* update_fat adds [optional DRead; DWrite primary; optional DWrite duplicate] and keeps the
   device good and the tables the same *)
Theorem update_fat_steps vi v c x s s' : good s -> nth_error (s_vols s) vi = Some v ->
  update_fat vi c x s = (Ok tt, s') ->
  steps s s' (fat_sectors v c) /\ same_mgr s s'.
Proof.
  intros Hg Hv H. unfold update_fat in H. inv_bind H as v0 s0 Hgv.
  apply get_vol_inv in Hgv. destruct Hgv as (-> & Hv'). rewrite Hv in Hv'. inversion Hv'; subst v0. clear Hv'.
  unfold fat_sectors.
  destruct (v_fat32 v).
  - inv_bind H as fo s1 Hmul. apply mul32_inv in Hmul. destruct Hmul as (-> & -> & _).
    inv_bind H as this s1 Hfb. apply fat_block_inv in Hfb. destruct Hfb as (-> & ->).
    inv_bind H as second s1 Hsec. apply second_inv in Hsec. destruct Hsec as (-> & ->).
    destruct (update_fat_tail _ _ _ _ _ Hg H) as [S M]. split; [|exact M].
    destruct (v_second_fat v); exact S.
  - inv_bind H as fo s1 Hmul. apply mul32_inv in Hmul. destruct Hmul as (-> & -> & _).
    inv_bind H as this s1 Hfb. apply fat_block_inv in Hfb. destruct Hfb as (-> & ->).
    inv_bind H as second s1 Hsec. apply second_inv in Hsec. destruct Hsec as (-> & ->).
    destruct (update_fat_tail _ _ _ _ _ Hg H) as [S M]. split; [|exact M].
    destruct (v_second_fat v); exact S.
Qed.

(* ------------------------------------------------------------------ zeroing a run of blocks *)
Fixpoint blocks_from (n : nat) (i : N) : list N :=
  match n with O => [] | S n' => i :: blocks_from n' (i + 1) end.

Lemma blocks_from_length n i : length (blocks_from n i) = n.
Proof. revert i; induction n as [|n IH]; intros i; cbn; [reflexivity|]. rewrite IH. reflexivity. Qed.

Lemma blocks_from_In n : forall i x, In x (blocks_from n i) <-> i <= x < i + N.of_nat n.
Proof.
  induction n as [|n IH]; intros i x; cbn [blocks_from In].
  - lia.
  - rewrite IH. lia.
Qed.

Lemma blank_write_steps i s r s' : no_faults s ->
  (blank_mut i ;;; write_back ;;; ret (@None unit)) s = (r, s') ->
  r = Ok None /\ steps s s' [i] /\ same_mgr s s'.
Proof.
  intros Hn H.
  set (s1 := set_s_cache (set_s_tag s (Some i)) zero_block).
  assert (Hb : blank_mut i s = (Ok tt, s1)) by reflexivity.
  rewrite (bind_ok _ _ _ _ _ Hb) in H.
  assert (T1 : s_tag s1 = Some i) by reflexivity.
  assert (N1 : no_faults s1) by (apply (no_faults_step s); [reflexivity|cbn; lia|exact Hn]).
  destruct (write_back s1) as [rw sw] eqn:Ew.
  destruct (write_back_steps i _ _ _ T1 N1 Ew) as (-> & [S2 G2] & M2 & _).
  rewrite (bind_ok _ _ _ _ _ Ew) in H. inversion H; subst r s'.
  split; [reflexivity|]. split.
  - split; [|exact G2]. apply (tsteps_trans s s1 sw [] [i]); [apply tsteps_same_trace; reflexivity|exact S2].
  - eapply same_mgr_trans; [|exact M2]. unfold same_mgr. cbn. repeat split; reflexivity.
Qed.

Lemma zero_loop_steps : forall n i s r s', good s ->
  for_blocks_from n i (fun j => blank_mut j ;;; write_back ;;; ret (@None unit)) s = (r, s') ->
  r = Ok None /\ steps s s' (blocks_from n i) /\ same_mgr s s'.
Proof.
  induction n as [|n IH]; intros i s r s' Hg H; cbn [for_blocks_from blocks_from] in *.
  - inversion H; subst. split; [reflexivity|]. split; [split; [apply tsteps_refl|exact Hg]|apply same_mgr_refl].
  - destruct ((blank_mut i;;; write_back;;; ret (@None unit)) s) as [r1 s1] eqn:E1.
    destruct (blank_write_steps i _ _ _ (proj1 Hg) E1) as (-> & S1 & M1).
    rewrite (bind_ok _ _ _ _ _ E1) in H.
    destruct (IH _ _ _ _ (proj2 S1) H) as (-> & S2 & M2).
    split; [reflexivity|]. split; [apply (steps_trans _ _ _ [i] _ S1 S2)|eapply same_mgr_trans; eauto].
Qed.

(* zero_cluster writes the v_spc blocks of the cluster, in ascending order, and nothing else *)
Theorem zero_cluster_steps v c s s' : good s -> zero_cluster v c s = (Ok tt, s') ->
  exists first, (forall s0, cluster_to_block v c s0 = (Ok first, s0)) /\
    steps s s' (blocks_from (N.to_nat (v_spc v)) first) /\ same_mgr s s'.
Proof.
  intros Hg H. unfold zero_cluster in H. inv_bind H as first s1 Hc.
  pose proof (keeps_cluster_to_block _ _ _ _ _ Hc) as ->.
  exists first. split; [apply (cluster_to_block_indep _ _ _ _ _ Hc)|].
  inv_bind H as o s2 Hf. inversion H; subst s2. clear H.
  unfold for_blocks in Hf. inv_bind Hf as x s3 Ha. apply add32_inv in Ha. destruct Ha as (-> & _).
  destruct (zero_loop_steps _ _ _ _ _ Hg Hf) as (_ & S & M). auto.
Qed.

(* ------------------------------------------------------------------ alloc_cluster *)
Lemma ro_try {A} (m : M A) : ro m -> ro (try m).
Proof.
  intros Hm s r s' Hg H. unfold try in H. destruct (m s) as [r1 s1] eqn:E1.
  destruct (Hm _ _ _ Hg E1) as (S1 & M1 & D1). destruct r1; inversion H; subst; auto.
Qed.

Ltac ro_step2 :=
  lazymatch goal with
  | |- ro (try _) => apply ro_try
  | |- ro (find_next_free_cluster _ _ _) => apply ro_find_next_free_cluster
  | |- _ => ro_step
  end.

(* the volume record differs at most in the free-space hints *)
Definition same_geom (v v' : vol) : Prop := exists nf fc, v' = set_v_free (set_v_next_free v nf) fc.

Lemma same_geom_fat_sectors v v' c : same_geom v v' -> fat_sectors v' c = fat_sectors v c.
Proof. intros (nf & fc & ->). reflexivity. Qed.

Lemma same_geom_cluster_to_block v v' c : same_geom v v' -> cluster_to_block v' c = cluster_to_block v c.
Proof. intros (nf & fc & ->). reflexivity. Qed.

Lemma same_geom_spc v v' : same_geom v v' -> v_spc v' = v_spc v /\ v_fat32 v' = v_fat32 v.
Proof. intros (nf & fc & ->). split; reflexivity. Qed.

Lemma list_set_nth_same {A} (l : list A) : forall i x y,
  nth_error l i = Some x -> nth_error (list_set l i y) i = Some y.
Proof.
  induction l as [|a t IH]; intros [|i] x y H; cbn in *; try discriminate; [reflexivity|].
  eapply IH; eauto.
Qed.

Lemma same_mgr_vols s s' : same_mgr s s' -> s_vols s' = s_vols s.
Proof. intros H. exact (proj1 H). Qed.

Lemma put_vol_steps s l : good s -> steps s (set_s_vols s l) [].
Proof. intros Hg. apply same_dev_steps; [|exact Hg]. unfold same_dev. cbn. repeat split; reflexivity. Qed.

Theorem alloc_cluster_steps vi v prev zero s c s' :
  good s -> nth_error (s_vols s) vi = Some v ->
  alloc_cluster vi prev zero s = (Ok c, s') ->
  exists zb,
    (if zero
     then exists first, (forall s0, cluster_to_block v c s0 = (Ok first, s0)) /\
                        zb = blocks_from (N.to_nat (v_spc v)) first
     else zb = []) /\
    steps s s' (fat_sectors v c ++ zb ++ match prev with Some p => fat_sectors v p | None => [] end) /\
    exists v', nth_error (s_vols s') vi = Some v' /\ same_geom v v'.
Proof.
  intros Hg Hv H. unfold alloc_cluster in H.
  inv_bind H as v0 s0 Hgv. apply get_vol_inv in Hgv. destruct Hgv as (-> & Hv0).
  rewrite Hv in Hv0. inversion Hv0; subst v0. clear Hv0.
  inv_bind H as endc s0 Hadd. apply add32_inv in Hadd. destruct Hadd as (-> & -> & _).
  cbv zeta in H.
  set (start := match v_next_free v with
                | Some c0 => if c0 <? v_clusters v + RESERVED_ENTRIES then c0 else RESERVED_ENTRIES
                | None => RESERVED_ENTRIES end) in H.
  set (endc := v_clusters v + RESERVED_ENTRIES) in H.
  (* first scan(s): reads only *)
  inv_bind H as r1 s1 Ht1.
  assert (R1 : ro (try (find_next_free_cluster v start endc))) by repeat ro_step2.
  destruct (R1 _ _ _ Hg Ht1) as (S1 & M1 & _).
  inv_bind H as nc s2 Hpick.
  assert (R2 : ro (match r1 with
                   | inl c0 => ret c0
                   | inr NotEnoughSpace =>
                       if RESERVED_ENTRIES <? start then find_next_free_cluster v RESERVED_ENTRIES endc
                       else fail NotEnoughSpace
                   | inr e => fail e end)) by (destruct r1 as [?|[]]; repeat ro_step2).
  destruct (R2 _ _ _ (proj2 S1) Hpick) as (S2 & M2 & _).
  assert (V2 : nth_error (s_vols s2) vi = Some v)
    by (rewrite (same_mgr_vols _ _ M2), (same_mgr_vols _ _ M1); exact Hv).
  (* the new cluster's FAT entry := end of chain *)
  inv_bind H as u3 s3 Hu1.
  destruct u3. destruct (update_fat_steps _ _ _ _ _ _ (proj2 S2) V2 Hu1) as (S3 & M3).
  assert (V3 : nth_error (s_vols s3) vi = Some v) by (rewrite (same_mgr_vols _ _ M3); exact V2).
  (* zero the cluster *)
  inv_bind H as u4 s4 Hz.
  assert (Z : exists zb,
             (if zero
              then exists first, (forall s0, cluster_to_block v nc s0 = (Ok first, s0)) /\
                                 zb = blocks_from (N.to_nat (v_spc v)) first
              else zb = []) /\ steps s3 s4 zb /\ same_mgr s3 s4).
  { destruct zero.
    - destruct u4. destruct (zero_cluster_steps _ _ _ _ (proj2 S3) Hz) as (first & Hf & Sz & Mz).
      exists (blocks_from (N.to_nat (v_spc v)) first). split; [exists first; auto|auto].
    - inversion Hz; subst. exists []. split; [reflexivity|].
      split; [split; [apply tsteps_refl|exact (proj2 S3)]|apply same_mgr_refl]. }
  destruct Z as (zb & Hzb & S4 & M4).
  assert (V4 : nth_error (s_vols s4) vi = Some v) by (rewrite (same_mgr_vols _ _ M4); exact V3).
  (* link the previous cluster to the new one *)
  inv_bind H as u5 s5 Hu2.
  assert (L : steps s4 s5 (match prev with Some p => fat_sectors v p | None => [] end) /\ same_mgr s4 s5).
  { destruct prev as [p|].
    - destruct u5. apply (update_fat_steps _ _ _ _ _ _ (proj2 S4) V4 Hu2).
    - inversion Hu2; subst. split; [split; [apply tsteps_refl|exact (proj2 S4)]|apply same_mgr_refl]. }
  destruct L as (S5 & M5).
  assert (V5 : nth_error (s_vols s5) vi = Some v) by (rewrite (same_mgr_vols _ _ M5); exact V4).
  (* look for the next free cluster: reads only *)
  inv_bind H as r2 s6 Ht2.
  assert (R6 : ro (try (find_next_free_cluster v nc endc))) by repeat ro_step2.
  destruct (R6 _ _ _ (proj2 S5) Ht2) as (S6 & M6 & _).
  inv_bind H as nf s7 Hnf.
  assert (R7 : ro (match r2 with
                   | inl c0 => ret (Some c0)
                   | inr NotEnoughSpace =>
                       if RESERVED_ENTRIES <? nc
                       then r3 <- try (find_next_free_cluster v RESERVED_ENTRIES endc);;
                            match r3 with
                            | inl c0 => ret (Some c0)
                            | inr NotEnoughSpace => ret None
                            | inr e => fail e
                            end
                       else ret None
                   | inr e => fail e end)).
  { destruct r2 as [?|[]]; repeat ro_step2. all: destruct a as [?|[]]; repeat ro_step2. }
  destruct (R7 _ _ _ (proj2 S6) Hnf) as (S7 & M7 & _).
  assert (V7 : nth_error (s_vols s7) vi = Some v)
    by (rewrite (same_mgr_vols _ _ M7), (same_mgr_vols _ _ M6); exact V5).
  (* bookkeeping in the volume table: no device access *)
  inv_bind H as v1 s8 Hgv. apply get_vol_inv in Hgv. destruct Hgv as (-> & Hv1).
  rewrite V7 in Hv1. inversion Hv1; subst v1. clear Hv1.
  inv_bind H as u9 s9 Hput. unfold put_vol, modify in Hput. inversion Hput; subst u9 s9. clear Hput.
  inversion H; subst c s'. clear H.
  exists zb. split; [exact Hzb|]. split.
  - match goal with |- steps _ (set_s_vols _ ?L) _ =>
      pose proof (put_vol_steps s7 L (proj2 S7)) as S9 end.
    pose proof (steps_trans _ _ _ _ _ S1 (steps_trans _ _ _ _ _ S2 (steps_trans _ _ _ _ _ S3
                 (steps_trans _ _ _ _ _ S4 (steps_trans _ _ _ _ _ S5 (steps_trans _ _ _ _ _ S6
                 (steps_trans _ _ _ _ _ S7 S9))))))) as S.
    cbn [app] in S. rewrite !app_nil_r in S. exact S.
  - eexists. split.
    + cbn. eapply list_set_nth_same. exact V7.
    + eexists _, _. reflexivity.
Qed.

(* C10, allocation order: when a cluster is appended to a chain with zeroing, the device writes
   are, in this order: the FAT sector(s) of the NEW cluster's entry (end-of-chain mark), the
   v_spc data blocks of the new cluster (zeros, ascending), and only then the FAT sector(s) of
   the PREVIOUS cluster's entry, which is what makes the new cluster reachable. *)
Theorem C10_alloc_order vi v prev s c s' :
  good s -> nth_error (s_vols s) vi = Some v ->
  alloc_cluster vi (Some prev) true s = (Ok c, s') ->
  exists first, (forall s0, cluster_to_block v c s0 = (Ok first, s0)) /\
    steps s s' (fat_sectors v c ++ blocks_from (N.to_nat (v_spc v)) first ++ fat_sectors v prev).
Proof.
  intros Hg Hv H. destruct (alloc_cluster_steps _ _ _ _ _ _ _ Hg Hv H) as (zb & (first & Hf & ->) & S & _).
  exists first. auto.
Qed.

(* without zeroing there is no data write at all: only the two FAT updates, same order *)
Theorem C10_alloc_order_nozero vi v prev s c s' :
  good s -> nth_error (s_vols s) vi = Some v ->
  alloc_cluster vi (Some prev) false s = (Ok c, s') ->
  steps s s' (fat_sectors v c ++ fat_sectors v prev).
Proof.
  intros Hg Hv H. destruct (alloc_cluster_steps _ _ _ _ _ _ _ Hg Hv H) as (zb & -> & S & _). exact S.
Qed.

(* the first cluster of a new chain: one FAT update, then (optionally) the zeroing *)
Theorem C10_alloc_order_first vi v s c s' :
  good s -> nth_error (s_vols s) vi = Some v ->
  alloc_cluster vi None false s = (Ok c, s') ->
  steps s s' (fat_sectors v c).
Proof.
  intros Hg Hv H. destruct (alloc_cluster_steps _ _ _ _ _ _ _ Hg Hv H) as (zb & -> & S & _).
  cbn [app] in S. rewrite app_nil_r in S. exact S.
Qed.

(* ------------------------------------------------------------------ the directory walk that may grow *)
Lemma alloc_cluster_steps_ex vi prev zero s c s' : good s ->
  alloc_cluster vi prev zero s = (Ok c, s') -> exists ws, steps s s' ws.
Proof.
  intros Hg H. assert (H' := H). unfold alloc_cluster in H'. inv_bind H' as v0 s0 Hgv.
  apply get_vol_inv in Hgv. destruct Hgv as (-> & Hv).
  destruct (alloc_cluster_steps _ _ _ _ _ _ _ Hg Hv H) as (zb & _ & S & _). eauto.
Qed.

Definition last_write (r : option dirent) : list N :=
  match r with Some e => [e_block e] | None => [] end.

Section Walk.
Variable Pe : dirent -> Prop.
Variable body : N -> M (option dirent).
(* one directory block: nothing is written unless the walk stops here, and then exactly the
   block of the returned entry is written, last *)
Hypothesis body_steps : forall blk s r s', good s -> body blk s = (Ok r, s') ->
  steps s s' (last_write r) /\ (forall e, r = Some e -> Pe e).

Lemma for_blocks_from_steps : forall n i s r s', good s ->
  for_blocks_from n i body s = (Ok r, s') ->
  steps s s' (last_write r) /\ (forall e, r = Some e -> Pe e).
Proof.
  induction n as [|n IH]; intros i s r s' Hg H; cbn [for_blocks_from] in H.
  - inversion H; subst. split; [split; [apply tsteps_refl|exact Hg]|discriminate].
  - inv_bind H as r1 s1 Hb. destruct (body_steps _ _ _ _ Hg Hb) as (S1 & P1).
    destruct r1 as [x|].
    + inversion H; subst. auto.
    + destruct (IH _ _ _ _ (proj2 S1) H) as (S2 & P2).
      split; [exact (steps_trans _ _ _ [] _ S1 S2)|exact P2].
Qed.

Lemma walk_dir_steps : forall fuel vi cluster grow s r s', good s ->
  walk_dir fuel vi cluster grow body s = (Ok r, s') ->
  exists gw, steps s s' (gw ++ last_write r) /\ (grow = false -> gw = []) /\ (forall e, r = Some e -> Pe e).
Proof.
  induction fuel as [|f IH]; intros vi cluster grow s r s' Hg H; cbn [walk_dir] in H; [discriminate|].
  inv_bind H as v s0 Hgv. apply get_vol_inv in Hgv. destruct Hgv as (-> & Hv).
  inv_bind H as first s0 Hc. pose proof (keeps_cluster_to_block _ _ _ _ _ Hc) as ->.
  cbv zeta in H. inv_bind H as r1 s1 Hfb.
  unfold for_blocks in Hfb. inv_bind Hfb as x s0 Ha. apply add32_inv in Ha. destruct Ha as (-> & _).
  destruct (for_blocks_from_steps _ _ _ _ _ Hg Hfb) as (S1 & P1).
  destruct r1 as [x1|].
  { inversion H; subst. exists []. auto. }
  destruct (negb (v_fat32 v) && (cluster =? CL_ROOT)).
  { inversion H; subst. exists []. auto. }
  inv_bind H as nc s2 Hn.
  assert (R : ro (try (next_cluster v cluster))) by (apply ro_try, ro_next_cluster).
  destruct (R _ _ _ (proj2 S1) Hn) as (S2 & _ & _).
  pose proof (steps_trans _ _ _ [] [] S1 S2) as S12. cbn [app] in S12.
  destruct nc as [n|e].
  - destruct (IH _ _ _ _ _ _ (proj2 S12) H) as (gw & S3 & G3 & P3).
    exists gw. split; [exact (steps_trans _ _ _ [] _ S12 S3)|auto].
  - destruct e; try (unfold fail in H; discriminate H);
      try (unfold ret in H; inversion H; subst; exists []; split; [exact S12|split; [reflexivity|discriminate]]).
    destruct grow.
    + inv_bind H as c s3 Hal. destruct (alloc_cluster_steps_ex _ _ _ _ _ _ (proj2 S12) Hal) as (ws & S3).
      destruct (IH _ _ _ _ _ _ (proj2 S3) H) as (gw & S4 & _ & P4).
      exists (ws ++ gw). split; [|split; [discriminate|exact P4]].
      pose proof (steps_trans _ _ _ _ _ S12 (steps_trans _ _ _ _ _ S3 S4)) as S.
      cbn [app] in S. rewrite app_assoc in S. exact S.
    + inversion H; subst. exists []. split; [exact S12|split; [reflexivity|discriminate]].
Qed.
End Walk.

(* write_new_directory_entry: the new entry's block is the LAST write (anything before it is the
   growth of the directory by alloc_cluster), and the entry is the one asked for *)
Theorem write_new_directory_entry_steps vi dc name attr fc s e s' : good s ->
  write_new_directory_entry vi dc name attr fc s = (Ok e, s') ->
  exists gw, steps s s' (gw ++ [e_block e]) /\
    e_name e = name /\ e_attr e = attr /\ e_cluster e = fc /\ e_size e = 0.
Proof.
  intros Hg H. unfold write_new_directory_entry in H.
  inv_bind H as v s0 Hgv. apply get_vol_inv in Hgv. destruct Hgv as (-> & Hv).
  inv_bind H as r s1 Hw.
  eapply (walk_dir_steps (fun e => e_name e = name /\ e_attr e = attr /\ e_cluster e = fc /\ e_size e = 0))
    in Hw; [|clear Hw H|exact Hg].
  - destruct Hw as (gw & S & _ & Pr). destruct r as [e0|]; [|discriminate].
    inversion H; subst. exists gw. split; [exact S|]. apply Pr. reflexivity.
  - intros blk t r0 t' Hgt Hb. inv_bind Hb as b t1 Hr.
    destruct (ro_cache_read blk _ _ _ Hgt Hr) as (S1 & _ & _).
    destruct Hgt as [Hn Hc].
    destruct (cache_read_spec blk t Hn Hc) as (t1' & E & _ & T & _).
    rewrite E in Hr. inversion Hr; subst t1' b. clear Hr E.
    destruct (free_slot 16 (disk_get (s_disk t) blk) 0) as [i|].
    + inv_bind Hb as ctime t2 Hts.
      unfold get_timestamp, bind, get, modify, ret in Hts. inversion Hts; subst ctime t2. clear Hts.
      cbv zeta in Hb. inv_bind Hb as bytes t3 Hser. pose proof (keeps_serialize _ _ _ _ _ Hser) as ->.
      inv_bind Hb as u t4 Hcm. unfold cache_modify, modify in Hcm. inversion Hcm; subst u t4. clear Hcm.
      inv_bind Hb as u t5 Hwb. inversion Hb; subst r0 t'. clear Hb.
      match type of Hwb with write_back ?st = _ => set (t4 := st) in * end.
      assert (T4 : s_tag t4 = Some blk) by exact T.
      assert (N4 : no_faults t4)
        by (apply (no_faults_step t1); [reflexivity|cbn; lia|exact (proj1 (proj2 S1))]).
      destruct (write_back_steps blk _ _ _ T4 N4 Hwb) as (_ & [S5 G5] & _ & _).
      split; [|intros e0 He0; inversion He0; subst e0; cbn; auto].
      split; [|exact G5]. cbn [last_write e_block].
      apply (tsteps_trans _ _ _ [] _ (proj1 S1)).
      apply (tsteps_trans _ t4 _ [] _); [apply tsteps_same_trace; reflexivity|exact S5].
    + inversion Hb; subst. split; [exact S1|discriminate].
Qed.

(* ------------------------------------------------------------------ make_dir *)
(* C10, make_dir order: the device writes of a successful make_dir are, in this order:
   the FAT sector(s) marking the new cluster end-of-chain; the first block of the new directory
   (the one with the dot entries); the remaining v_spc - 1 blocks of the new directory (zeros,
   ascending); possibly the writes of growing the parent directory by one cluster; and LAST the
   single write of the parent-directory block that receives the new entry (which names the new
   cluster).  So the new directory is completely on the device before it becomes reachable. *)
Theorem C10_make_dir_order vi v parent sfn att s s' :
  good s -> nth_error (s_vols s) vi = Some v ->
  make_dir vi parent sfn att s = (Ok tt, s') ->
  exists c start gw e,
    (forall s0, cluster_to_block v c s0 = (Ok start, s0)) /\
    e_name e = sfn /\ e_attr e = att /\ e_cluster e = c /\
    steps s s' (fat_sectors v c ++ start :: blocks_from (N.to_nat (v_spc v) - 1) (start + 1)
                ++ gw ++ [e_block e]).
Proof.
  intros Hg Hv H. unfold make_dir in H.
  inv_bind H as c s1 Hal.
  destruct (alloc_cluster_steps _ _ _ _ _ _ _ Hg Hv Hal) as (zb & -> & S1 & v' & Hv' & Hgeo).
  cbn [app] in S1. rewrite app_nil_r in S1.
  inv_bind H as v1 s1' Hgv. apply get_vol_inv in Hgv. destruct Hgv as (-> & Hv1).
  rewrite Hv' in Hv1. inversion Hv1; subst v1. clear Hv1.
  inv_bind H as start s1' Hc. pose proof (keeps_cluster_to_block _ _ _ _ _ Hc) as ->.
  rewrite (same_geom_cluster_to_block _ _ c Hgeo) in Hc.
  pose proof (cluster_to_block_indep _ _ _ _ _ Hc) as Hstart.
  destruct (same_geom_spc _ _ Hgeo) as [Hspc Hf32]. rewrite Hspc in H.
  inv_bind H as now s2 Hts.
  unfold get_timestamp, bind, get, modify, ret in Hts. inversion Hts; subst now s2. clear Hts.
  inv_bind H as u s3 Hbl. unfold blank_mut, modify in Hbl. inversion Hbl; subst u s3. clear Hbl.
  inv_bind H as dot s3 Hd. pose proof (keeps_serialize _ _ _ _ _ Hd) as ->.
  inv_bind H as dotdot s3 Hdd. pose proof (keeps_serialize _ _ _ _ _ Hdd) as ->.
  inv_bind H as u s4 Hcm. unfold cache_modify, modify in Hcm. inversion Hcm; subst u s4. clear Hcm.
  inv_bind H as u s5 Hwb.
  match type of Hwb with write_back ?st = _ => set (s4 := st) in * end.
  assert (T4 : s_tag s4 = Some start) by reflexivity.
  assert (N4 : no_faults s4)
    by (apply (no_faults_step s1); [reflexivity|cbn; lia|exact (proj1 (proj2 S1))]).
  destruct (write_back_steps start _ _ _ T4 N4 Hwb) as (_ & [S5 G5] & _ & _).
  assert (S15 : steps s1 s5 [start]).
  { split; [|exact G5]. apply (tsteps_trans _ s4 _ [] _); [apply tsteps_same_trace; reflexivity|exact S5]. }
  inv_bind H as x s5' Hadd. apply add32_inv in Hadd. destruct Hadd as (-> & _).
  inv_bind H as o s6 Hloop.
  destruct (zero_loop_steps _ _ _ _ _ G5 Hloop) as (_ & S6 & _).
  inv_bind H as r s7 Htry. apply try_inv_ok in Htry.
  destruct Htry as [(e & -> & Hw)|(e & -> & Hw)].
  - inversion H; subst s'. clear H.
    destruct (write_new_directory_entry_steps _ _ _ _ _ _ _ _ (proj2 S6) Hw) as (gw & S7 & E1 & E2 & E3 & _).
    exists c, start, gw, e. split; [exact Hstart|]. split; [exact E1|]. split; [exact E2|]. split; [exact E3|].
    pose proof (steps_trans _ _ _ _ _ S1 (steps_trans _ _ _ _ _ S15 (steps_trans _ _ _ _ _ S6 S7))) as S.
    cbn [app] in S. exact S.
  - inv_bind H as u8 s8 Hfree. discriminate.
Qed.

(* consequences spelled out: the parent block is written exactly once more after everything
   else, i.e. every other write of the operation comes strictly before it *)
Corollary C10_make_dir_parent_last vi v parent sfn att s s' :
  good s -> nth_error (s_vols s) vi = Some v ->
  make_dir vi parent sfn att s = (Ok tt, s') ->
  exists before pblk, steps s s' (before ++ [pblk]) /\
    exists c start, (forall s0, cluster_to_block v c s0 = (Ok start, s0)) /\
      (forall x, In x (fat_sectors v c) -> In x before) /\
      (forall k, k < v_spc v -> In (start + k) before).
Proof.
  intros Hg Hv H.
  destruct (C10_make_dir_order _ _ _ _ _ _ _ Hg Hv H) as (c & start & gw & e & Hs & _ & _ & _ & S).
  exists (fat_sectors v c ++ start :: blocks_from (N.to_nat (v_spc v) - 1) (start + 1) ++ gw), (e_block e).
  split.
  - rewrite <- app_assoc. cbn [app]. rewrite <- app_assoc. exact S.
  - exists c, start. split; [exact Hs|]. split.
    + intros x Hx. apply in_or_app. left. exact Hx.
    + intros k Hk. apply in_or_app. right.
      destruct (N.eq_dec k 0) as [->|Hk0].
      * left. lia.
      * right. apply in_or_app. left. apply blocks_from_In. lia.
Qed.

(* ------------------------------------------------------------------ the hypotheses are satisfiable *)
(* a FAT16 volume with two FAT copies on an all-zero device: cluster 2 is free *)
Definition ex_vol : vol :=
  mk_vol 1 0 100 70000 [] 4 200 10 (Some 100) None None 5000 false 512 190 0 0.
Definition ex_state : st :=
  set_s_vols (init_state (PositiveMap.empty block) 0 1 4 4 []) [ex_vol].

Example ex_good : good ex_state.
Proof. split; [intros n []|intros i Hi; discriminate]. Qed.

Example ex_alloc_order :
  exists s', alloc_cluster 0 (Some 7) true ex_state = (Ok 2, s') /\
             writes_of (firstn (length (s_trace s') - length (s_trace ex_state)) (s_trace s'))
             = [110; 200; 300; 301; 302; 303; 110; 200].
Proof. eexists. split; vm_compute; reflexivity. Qed.

Print Assumptions ro_find_next_free_cluster.
Print Assumptions update_fat_steps.
Print Assumptions zero_cluster_steps.
Print Assumptions alloc_cluster_steps.
Print Assumptions C10_alloc_order.
Print Assumptions C10_alloc_order_nozero.
Print Assumptions C10_alloc_order_first.
Print Assumptions write_new_directory_entry_steps.
Print Assumptions C10_make_dir_order.
Print Assumptions C10_make_dir_parent_last.
