(* PROOFS: the bridge between the two transcriptions of the mount code.
   coq/mount/MountModel.v (group C15: pure functions on `N -> N` sectors) and
   coq/fs/FsMgr.v (open_raw_volume / parse_volume / bpb_create in the state monad, sectors as
   byte lists read through the one-block cache) were written independently from the same Rust.
   Here: on every medium whose sectors are 512 bytes, mounting with the fs model from a
   manager that holds no volume gives exactly the translation of MountModel.mount's answer -
   same success, same volume record field by field, the same kind of error, Panic for Panic. *)
From Coq Require Import List NArith PeanoNat Lia Bool FMapPositive.
From SdFs Require Import FsTypes FsBase FsFat FsMgr FsLemmas PrBase PrFat PrHandles PrRw PrGlobalMount.
From SdMount Require MountModel MountSpec MountProofs.
Import ListNotations.
Local Open Scope N_scope.

Module MM := MountModel.
Module MS := MountSpec.
Module MP := MountProofs.

(* ---- the correspondence of the two representations *)
(* a sector function represents a byte list: equal at every offset a mount can read *)
Definition blk_rel (b : MM.block) (l : block) : Prop := forall off, off < 512 -> b off = get8 l off.
(* a device function represents a medium: every read succeeds with a representing sector *)
Definition dev_rel (dev : MM.device) (d : disk) : Prop :=
  forall i, exists b, dev i = Some b /\ blk_rel b (disk_get d i).
(* the canonical representative *)
Definition blk_of (l : block) : MM.block := fun off => get8 l off.
Definition dev_of_disk (d : disk) : MM.device := fun i => Some (blk_of (disk_get d i)).
Lemma dev_of_disk_rel d : dev_rel (dev_of_disk d) d.
Proof. intros i. exists (blk_of (disk_get d i)). split; [reflexivity|]. intros off _. reflexivity. Qed.

(* every entry of every sector of the medium is a byte.  Nothing is asked of the lengths: a
   sector shorter than 512 reads as zero-padded on both sides, and one that passes the footer
   check has its byte 511, hence its label bytes *)
Definition bytes (l : block) : Prop := Forall (fun x => x < 256) l.
Definition disk_ok (d : disk) : Prop := forall i, bytes (disk_get d i).
Lemma blocks_disk_ok d : (forall i, is_block (disk_get d i)) -> disk_ok d.
Proof. intros H i. apply H. Qed.

(* errors: the message of FormatError and the argument of BadBlockSize are not carried by the
   fs model *)
Definition err_of (e : MM.error) : err :=
  match e with
  | MM.DeviceError => DeviceError
  | MM.FormatError _ => FormatError
  | MM.NoSuchVolume => NoSuchVolume
  | MM.BadBlockSize _ => BadBlockSize
  end.
Definition conv {A B} (f : A -> B) (o : MM.outcome A) : outcome B :=
  match o with MM.Ok a => Ok (f a) | MM.Err e => Err (err_of e) | MM.Panic => Panic end.

(* the volume record of the fs model built from MountModel's, the handle and the partition
   index (which MountModel does not carry) *)
Definition vol_of (id idx : N) (r : MM.volume) : vol :=
  match MM.fat_specific_info r with
  | MM.Fat16Info frb rec =>
      mk_vol id idx (MM.lba_start r) (MM.num_blocks r) (MM.name r) (MM.blocks_per_cluster r)
        (MM.first_data_block r) (MM.fat_start r) (MM.second_fat_start r)
        (MM.free_clusters_count r) (MM.next_free_cluster r) (MM.cluster_count r)
        false rec frb 0 0
  | MM.Fat32Info rc info =>
      mk_vol id idx (MM.lba_start r) (MM.num_blocks r) (MM.name r) (MM.blocks_per_cluster r)
        (MM.first_data_block r) (MM.fat_start r) (MM.second_fat_start r)
        (MM.free_clusters_count r) (MM.next_free_cluster r) (MM.cluster_count r)
        true 0 0 info rc
  end.

(* ---- field access *)
Lemma rel8 b l off : blk_rel b l -> off < 512 -> MM.get8 b off = get8 l off.
Proof. intros R H. apply R. exact H. Qed.
Lemma rel16 b l off : blk_rel b l -> off + 1 < 512 -> MM.get16 b off = le16 l off.
Proof. intros R H. unfold MM.get16, le16. rewrite !R by lia. reflexivity. Qed.
Lemma rel32 b l off : blk_rel b l -> off + 3 < 512 -> MM.get32 b off = le32 l off.
Proof. intros R H. unfold MM.get32, le32. rewrite !R by lia. reflexivity. Qed.

Lemma le16_lt l off : bytes l -> le16 l off < 65536.
Proof.
  intros B. unfold le16. pose proof (get8_lt l off B). pose proof (get8_lt l (off + 1) B). lia.
Qed.
Lemma le32_lt l off : bytes l -> le32 l off < U32.
Proof.
  intros B. unfold le32, U32. pose proof (get8_lt l off B). pose proof (get8_lt l (off + 1) B).
  pose proof (get8_lt l (off + 2) B). pose proof (get8_lt l (off + 3) B). lia.
Qed.

Lemma fat_size_rel b l : blk_rel b l -> MM.bpb_fat_size b = bpb_fat_size l.
Proof.
  intros R. unfold MM.bpb_fat_size, bpb_fat_size, MM.bpb_fat_size16, MM.bpb_fat_size32.
  rewrite (rel16 b l 22 R), (rel32 b l 36 R) by lia.
  destruct (le16 l 22 =? 0); reflexivity.
Qed.
Lemma total_rel b l : blk_rel b l -> MM.bpb_total_blocks b = bpb_total_blocks l.
Proof.
  intros R. unfold MM.bpb_total_blocks, bpb_total_blocks, MM.bpb_total_blocks16, MM.bpb_total_blocks32.
  rewrite (rel16 b l 19 R), (rel32 b l 32 R) by lia.
  destruct (le16 l 19 =? 0); reflexivity.
Qed.
Lemma fat_size_lt l : bytes l -> bpb_fat_size l < U32.
Proof.
  intros B. unfold bpb_fat_size. pose proof (le16_lt l 22 B). pose proof (le32_lt l 36 B).
  destruct (le16 l 22 =? 0); unfold U32 in *; lia.
Qed.

(* ---- the u32 arithmetic of MountModel in the comparisons of the fs model *)
Lemma mm_add32 a b : MM.add32 a b = if a + b <? U32 then MM.Ok (a + b) else MM.Panic.
Proof.
  unfold MM.add32, MM.U32_MAX, U32.
  destruct (N.leb_spec (a + b) 4294967295), (N.ltb_spec (a + b) 4294967296); try reflexivity; lia.
Qed.
Lemma mm_mul32 a b : MM.mul32 a b = if a * b <? U32 then MM.Ok (a * b) else MM.Panic.
Proof.
  unfold MM.mul32, MM.U32_MAX, U32.
  destruct (N.leb_spec (a * b) 4294967295), (N.ltb_spec (a * b) 4294967296); try reflexivity; lia.
Qed.
Lemma mm_cadd a b : MM.checked_add32 a b = if U32 <=? a + b then None else Some (a + b).
Proof.
  unfold MM.checked_add32, MM.U32_MAX, U32.
  destruct (N.leb_spec (a + b) 4294967295), (N.leb_spec 4294967296 (a + b)); try reflexivity; lia.
Qed.
Lemma mm_cmul a b : MM.checked_mul32 a b = if U32 <=? a * b then None else Some (a * b).
Proof.
  unfold MM.checked_mul32, MM.U32_MAX, U32.
  destruct (N.leb_spec (a * b) 4294967295), (N.leb_spec 4294967296 (a * b)); try reflexivity; lia.
Qed.
Lemma mm_csub a b : MM.checked_sub32 a b = if a <? b then None else Some (a - b).
Proof.
  unfold MM.checked_sub32.
  destruct (N.leb_spec b a), (N.ltb_spec a b); try reflexivity; lia.
Qed.

Lemma add32_conv a b s : add32 a b s = (conv (fun x => x) (MM.add32 a b), s).
Proof. rewrite mm_add32. unfold add32. destruct (a + b <? U32); reflexivity. Qed.
Lemma mul32_conv a b s : mul32 a b s = (conv (fun x => x) (MM.mul32 a b), s).
Proof. rewrite mm_mul32. unfold mul32. destruct (a * b <? U32); reflexivity. Qed.

(* sequencing on both sides *)
Lemma bind_conv {A B C} (m : M A) (k : A -> M C) s s1 (o : MM.outcome B) (f : B -> A) :
  m s = (conv f o, s1) ->
  bind m k s = match o with
               | MM.Ok a => k (f a) s1
               | MM.Err e => (Err (err_of e), s1)
               | MM.Panic => (Panic, s1)
               end.
Proof. intros H. unfold bind. rewrite H. destruct o; reflexivity. Qed.

(* ---- Bpb::create_from_bytes *)
Definition is32 (t : MM.fat_type) : bool := match t with MM.Fat16 => false | MM.Fat32 => true end.

Lemma bpb_bridge b l s : blk_rel b l -> bytes l ->
  bpb_create l s =
    (conv (fun x => (MM.bpb_cluster_count x, is32 (MM.bpb_fat_type x))) (MM.bpb_create b), s) /\
  (forall x, MM.bpb_create b = MM.Ok x -> MM.bpb_data x = b /\ le16 l 510 = 43605).
Proof.
  intros R B.
  unfold MM.bpb_create, MM.bpb_footer, MM.bpb_root_entries_count, MM.bpb_num_fats,
    MM.bpb_reserved_block_count, MM.bpb_blocks_per_cluster, MM.bpb_fs_ver.
  rewrite (fat_size_rel b l R), (total_rel b l R).
  rewrite (rel16 b l 510 R), (rel16 b l 17 R), (rel16 b l 14 R), (rel16 b l 42 R),
    (rel8 b l 16 R), (rel8 b l 13 R) by lia.
  unfold bpb_create.
  destruct (le16 l 510 =? 43605) eqn:Ef; cbn [negb]; [|split; [reflexivity|discriminate]].
  apply N.eqb_eq in Ef.
  pose proof (le16_lt l 17 B) as Hre.
  rewrite (MP.mul32_ok (le16 l 17) 32) by (unfold MM.U32_MAX; lia). cbn [MM.bind].
  rewrite (MP.from_bytes_ok (le16 l 17 * 32)) by (unfold MM.U32_MAX; lia). cbn [MM.bind].
  rewrite <- (from_bytes_spec (le16 l 17 * 32)).
  rewrite mm_cmul.
  destruct (U32 <=? get8 l 16 * bpb_fat_size l); cbn [MM.obind]; [split; [reflexivity|discriminate]|].
  rewrite mm_cadd.
  destruct (U32 <=? get8 l 16 * bpb_fat_size l + le16 l 14); cbn [MM.obind];
    [split; [reflexivity|discriminate]|].
  rewrite mm_cadd.
  destruct (U32 <=? get8 l 16 * bpb_fat_size l + le16 l 14 + from_bytes (le16 l 17 * 32));
    [split; [reflexivity|discriminate]|].
  rewrite mm_csub.
  destruct (bpb_total_blocks l <? get8 l 16 * bpb_fat_size l + le16 l 14 + from_bytes (le16 l 17 * 32));
    [split; [reflexivity|discriminate]|].
  unfold MM.checked_div32.
  destruct (get8 l 13 =? 0); [split; [reflexivity|discriminate]|].
  set (cc := (bpb_total_blocks l - (get8 l 16 * bpb_fat_size l + le16 l 14 + from_bytes (le16 l 17 * 32))) / get8 l 13).
  destruct (cc <? 4085); [split; [reflexivity|discriminate]|].
  destruct (cc <? 65525).
  { split; [reflexivity|]. intros x E. injection E as <-. split; [reflexivity|exact Ef]. }
  destruct (le16 l 42 =? 0).
  { split; [reflexivity|]. intros x E. injection E as <-. split; [reflexivity|exact Ef]. }
  split; [reflexivity|discriminate].
Qed.

(* ---- the 11 label bytes *)
Lemma skipn_cons_nth (l : list N) n : (n < length l)%nat -> skipn n l = nth n l 0 :: skipn (S n) l.
Proof.
  revert n. induction l as [|a l IH]; intros [|n] H; cbn [length] in H; try lia.
  - reflexivity.
  - cbn [skipn nth]. apply IH. lia.
Qed.
Lemma slice_range b l len : blk_rel b l -> forall off,
  (N.to_nat off + len <= length l)%nat -> (N.to_nat off + len <= 512)%nat ->
  firstn len (skipn (N.to_nat off) l) = map (MM.get8 b) (MM.range off len).
Proof.
  intros R. induction len as [|k IH]; intros off H1 H2; [reflexivity|].
  rewrite skipn_cons_nth by lia. cbn [firstn].
  change (MM.range off (S k)) with (off :: MM.range (N.succ off) k). cbn [map].
  f_equal.
  - symmetry. apply R. lia.
  - rewrite <- N2Nat.inj_succ. apply IH; rewrite N2Nat.inj_succ; lia.
Qed.
Lemma label16 b l cc : blk_rel b l -> (512 <= length l)%nat ->
  MM.bpb_volume_label (MM.mkBpb b MM.Fat16 cc) = slice l 43 11.
Proof.
  intros R L. unfold MM.bpb_volume_label, slice. cbn [MM.bpb_fat_type MM.bpb_data].
  symmetry. change (N.to_nat 11) with 11%nat. apply slice_range; [exact R| |]; cbn; lia.
Qed.
Lemma label32 b l cc : blk_rel b l -> (512 <= length l)%nat ->
  MM.bpb_volume_label (MM.mkBpb b MM.Fat32 cc) = slice l 71 11.
Proof.
  intros R L. unfold MM.bpb_volume_label, slice. cbn [MM.bpb_fat_type MM.bpb_data].
  symmetry. change (N.to_nat 11) with 11%nat. apply slice_range; [exact R| |]; cbn; lia.
Qed.

(* ---- the next-free hint: the clip of MountModel is the fourth disjunct of the fs model *)
Lemma hint_eq nx cc :
  (if (nx =? 4294967295) || (nx =? 0) || (nx =? 1) || (cc + 2 <=? nx) then None else Some nx) =
  match (if (nx =? 4294967295) || (nx =? 0) || (nx =? 1) then None else Some nx) with
  | Some c => if c <? cc + 2 then Some c else None
  | None => None
  end.
Proof.
  destruct ((nx =? 4294967295) || (nx =? 0) || (nx =? 1)); cbn [orb]; [reflexivity|].
  destruct (N.leb_spec (cc + 2) nx), (N.ltb_spec nx (cc + 2)); try reflexivity; lia.
Qed.

Lemma second_conv (c : bool) a f s :
  (if c then x <- add32 a f ;; ret (Some x) else ret None) s =
  (conv (fun x => x) (if c then MM.bind (MM.add32 a f) (fun x => MM.Ok (Some x)) else MM.Ok None), s).
Proof.
  destruct c; [|reflexivity].
  rewrite (bind_conv _ _ _ _ _ _ (add32_conv a f s)). destruct (MM.add32 a f); reflexivity.
Qed.

(* what the mount path keeps of the state *)
Definition keeps (d : disk) (s s' : st) : Prop :=
  s_disk s' = d /\ no_faults s' /\ cache_ok s' /\ same_mgr s s'.

(* ---- parse_volume *)
Lemma parse_bridge dev d id idx lba nb s :
  dev_rel dev d -> disk_ok d -> s_disk s = d -> no_faults s -> cache_ok s ->
  exists s', parse_volume id idx lba nb s =
               (conv (vol_of id idx) (MM.parse_volume dev lba nb), s') /\ keeps d s s'.
Proof.
  intros HD HO Ed Hnf Hc.
  unfold parse_volume, MM.parse_volume, MM.read_block.
  destruct (cache_read_spec lba s Hnf Hc) as (s1 & Hr & Hd1 & _ & _ & Hc1 & Hnf1 & Hm1 & _).
  rewrite Ed in Hr, Hd1. rewrite (bind_ok _ _ _ _ _ Hr).
  destruct (HD lba) as (b & Eb & R). rewrite Eb. cbn [MM.bind].
  set (l := disk_get d lba) in *.
  assert (B : bytes l) by apply HO.
  assert (P1 : keeps d s s1) by (unfold keeps; auto).
  destruct (bpb_bridge b l s1 R B) as [Hb Hdat].
  rewrite (bind_conv _ _ _ _ _ _ Hb).
  destruct (MM.bpb_create b) as [x|e|] eqn:Ex; cbn [MM.bind];
    [| eexists; split; [reflexivity|exact P1] ..].
  destruct (Hdat x eq_refl) as [Edd Hfoot]. destruct x as [dd ft cc].
  cbn [MM.bpb_data] in Edd. subst dd. clear Hdat Hb Ex.
  assert (Len : (512 <= length l)%nat).
  { destruct (Nat.leb_spec 512 (length l)) as [Hl|Hl]; [exact Hl|]. exfalso.
    unfold le16 in Hfoot. pose proof (get8_lt l 510 B) as H0.
    unfold get8 in Hfoot at 2. rewrite (nth_overflow l 0) in Hfoot by lia. lia. }
  cbn [MM.bpb_data MM.bpb_fat_type MM.bpb_cluster_count].
  unfold MM.bpb_reserved_block_count, MM.bpb_num_fats, MM.bpb_bytes_per_block,
    MM.bpb_root_entries_count, MM.bpb_blocks_per_cluster, MM.bpb_first_root_dir_cluster.
  rewrite (fat_size_rel b l R), (total_rel b l R).
  rewrite ?(rel16 b l 14 R), ?(rel16 b l 11 R), ?(rel16 b l 17 R), ?(rel8 b l 16 R),
    ?(rel8 b l 13 R), ?(rel32 b l 44 R) by lia.
  rewrite mm_cadd.
  destruct (U32 <=? lba + bpb_total_blocks l); [eexists; split; [reflexivity|exact P1]|].
  destruct ((le16 l 14 =? 0) || (get8 l 16 =? 0)); [eexists; split; [reflexivity|exact P1]|].
  destruct ft; cbn [is32]; cbv beta iota.
  - (* FAT16 *)
    rewrite (label16 b l cc R Len).
    destruct (bpb_fat_size l * 512 <? (cc + 2) * 2); [eexists; split; [reflexivity|exact P1]|].
    rewrite (bind_conv _ _ _ _ _ _ (second_conv _ _ _ s1)).
    match goal with |- context [MM.bind (if ?c then ?x else ?y) _] =>
      destruct (if c then x else y) as [sec|e|] end; cbn [MM.bind];
      [| eexists; split; [reflexivity|exact P1] ..].
    destruct (le16 l 11 =? 512); cbn [negb]; [|eexists; split; [reflexivity|exact P1]].
    pose proof (le16_lt l 17 B) as Hre.
    rewrite (MP.mul32_ok (le16 l 17) 32) by (unfold MM.U32_MAX; lia). cbn [MM.bind].
    rewrite (MP.add32_ok (le16 l 17 * 32) 511) by (unfold MM.U32_MAX; lia). cbn [MM.bind].
    rewrite (MP.div32_ok (le16 l 17 * 32 + 511) 512) by lia. cbn [MM.bind].
    rewrite (bind_conv _ _ _ _ _ _ (mul32_conv _ _ s1)).
    destruct (MM.mul32 (get8 l 16) (bpb_fat_size l)) as [fats|e|]; cbn [MM.bind];
      [| eexists; split; [reflexivity|exact P1] ..].
    rewrite (bind_conv _ _ _ _ _ _ (add32_conv _ _ s1)).
    destruct (MM.add32 (le16 l 14) fats) as [fr|e|]; cbn [MM.bind];
      [| eexists; split; [reflexivity|exact P1] ..].
    rewrite (bind_conv _ _ _ _ _ _ (add32_conv _ _ s1)).
    destruct (MM.add32 fr ((le16 l 17 * 32 + 511) / 512)) as [fd|e|]; cbn [MM.bind];
      [| eexists; split; [reflexivity|exact P1] ..].
    eexists; split; [reflexivity|exact P1].
  - (* FAT32 *)
    rewrite (label32 b l cc R Len).
    destruct (bpb_fat_size l * 512 <? (cc + 2) * 4); [eexists; split; [reflexivity|exact P1]|].
    rewrite (bind_conv _ _ _ _ _ _ (second_conv _ _ _ s1)).
    match goal with |- context [MM.bind (if ?c then ?x else ?y) _] =>
      destruct (if c then x else y) as [sec|e|] end; cbn [MM.bind];
      [| eexists; split; [reflexivity|exact P1] ..].
    rewrite (bind_conv _ _ _ _ _ _ (mul32_conv _ _ s1)).
    destruct (MM.mul32 (get8 l 16) (bpb_fat_size l)) as [fats|e|]; cbn [MM.bind];
      [| eexists; split; [reflexivity|exact P1] ..].
    rewrite (bind_conv _ _ _ _ _ _ (add32_conv _ _ s1)).
    destruct (MM.add32 (le16 l 14) fats) as [fd|e|]; cbn [MM.bind];
      [| eexists; split; [reflexivity|exact P1] ..].
    destruct (268435445 <? cc); [eexists; split; [reflexivity|exact P1]|].
    cbn [MM.bpb_fs_info_block MM.bpb_fat_type MM.bpb_data]. unfold MM.bpb_fs_info.
    rewrite (rel16 b l 48 R) by lia.
    destruct ((le16 l 48 =? 0) || (le16 l 14 <=? le16 l 48)); [eexists; split; [reflexivity|exact P1]|].
    rewrite (bind_conv _ _ _ _ _ _ (add32_conv _ _ s1)).
    destruct (MM.add32 lba (le16 l 48)) as [ia|e|]; cbn [MM.bind];
      [| eexists; split; [reflexivity|exact P1] ..].
    cbv zeta.
    destruct (cache_read_spec ia s1 Hnf1 Hc1) as (s2 & Hr2 & Hd2 & _ & _ & Hc2 & Hnf2 & Hm2 & _).
    rewrite Hd1 in Hr2, Hd2. rewrite (bind_ok _ _ _ _ _ Hr2).
    assert (P2 : keeps d s s2).
    { unfold keeps. split; [congruence|]. split; [exact Hnf2|]. split; [exact Hc2|].
      exact (same_mgr_trans _ _ _ Hm1 Hm2). }
    destruct (HD ia) as (b2 & Eb2 & R2). rewrite Eb2. cbn [MM.bind].
    set (l2 := disk_get d ia) in *.
    unfold MM.info_create, MM.LEAD_SIG, MM.STRUC_SIG, MM.TRAIL_SIG.
    rewrite (rel32 b2 l2 0 R2), (rel32 b2 l2 484 R2), (rel32 b2 l2 508 R2) by lia.
    destruct (le32 l2 0 =? 1096897106); cbn [negb]; [|eexists; split; [reflexivity|exact P2]].
    destruct (le32 l2 484 =? 1631679090); cbn [negb]; [|eexists; split; [reflexivity|exact P2]].
    destruct (le32 l2 508 =? 2857697280); cbn [negb]; [|eexists; split; [reflexivity|exact P2]].
    cbn [MM.bind]. unfold MM.info_free_clusters_count, MM.info_next_free_cluster, MM.U32_MAX. cbv zeta.
    rewrite (rel32 b2 l2 488 R2), (rel32 b2 l2 492 R2) by lia.
    rewrite hint_eq.
    eexists; split; [reflexivity|exact P2].
Qed.

(* ---- open_raw_volume *)
Lemma supported_eq t : partition_type_ok t = MM.supported_type t.
Proof.
  unfold partition_type_ok, MM.supported_type. cbn [existsb].
  destruct (t =? 11), (t =? 12), (t =? 14), (t =? 6), (t =? 4); reflexivity.
Qed.
Lemma vol_of_set_id id idx r : set_v_id (vol_of 0 idx r) id = vol_of id idx r.
Proof. unfold vol_of. destruct (MM.fat_specific_info r); reflexivity. Qed.

(* what a successful mount adds to the manager *)
Definition mounted (s s' : st) (v : vol) : Prop :=
  s_vols s' = s_vols s ++ [v] /\ s_next_id s' = (s_next_id s + 1) mod U32 /\
  s_dirs s' = s_dirs s /\ s_files s' = s_files s /\ s_lock s' = s_lock s.

(* the general form: any state holding no volume whose device works, any device function
   representing the medium *)
Theorem mount_bridge_rel dev d idx s :
  dev_rel dev d -> disk_ok d -> s_disk s = d ->
  s_vols s = [] -> 1 <= s_maxv s -> s_lock s = false -> no_faults s -> cache_ok s ->
  exists s', open_raw_volume idx s = (conv (fun _ => s_next_id s) (MM.mount dev idx), s') /\
    s_disk s' = d /\ no_faults s' /\ cache_ok s' /\
    match MM.mount dev idx with
    | MM.Ok r => mounted s s' (vol_of (s_next_id s) idx r)
    | _ => same_mgr s s'
    end.
Proof.
  intros HD HO Ed Hv Hmv Hlock Hnf Hc.
  unfold open_raw_volume. rewrite (locked_free _ _ Hlock), bind_get.
  assert (Ef : is_full (s_vols s) (s_maxv s) = false).
  { rewrite Hv. unfold is_full. cbn [length]. apply N.leb_gt. lia. }
  rewrite Ef, Hv. cbn [existsb].
  destruct (cache_read_spec 0 s Hnf Hc) as (s1 & Hr & Hd1 & _ & _ & Hc1 & Hnf1 & Hm1 & _).
  rewrite Ed in Hr, Hd1. rewrite (bind_ok _ _ _ _ _ Hr).
  unfold MM.mount, MM.read_mbr, MM.read_block.
  destruct (HD 0) as (b0 & E0 & R0). rewrite E0. cbn [MM.bind].
  set (l0 := disk_get d 0) in *.
  rewrite (rel16 b0 l0 510 R0) by lia.
  assert (Q1 : s_disk s1 = d /\ no_faults s1 /\ cache_ok s1 /\ same_mgr s s1) by auto.
  destruct (le16 l0 510 =? 43605); cbn [negb]; [|eexists; split; [reflexivity|exact Q1]].
  destruct (N.leb_spec 4 idx) as [H4|H4].
  { rewrite (MP.partition_start_ge4 idx H4). cbn [MM.bind]. eexists; split; [reflexivity|exact Q1]. }
  rewrite (MP.partition_start_lt4 idx H4).
  rewrite N.add_0_r.
  rewrite (rel8 b0 l0 (446 + 16 * idx) R0), (rel8 b0 l0 (446 + 16 * idx + 4) R0),
    (rel32 b0 l0 (446 + 16 * idx + 8) R0), (rel32 b0 l0 (446 + 16 * idx + 12) R0) by lia.
  destruct (N.land (get8 l0 (446 + 16 * idx)) 127 =? 0); cbn [negb MM.bind];
    [|eexists; split; [reflexivity|exact Q1]].
  cbv beta iota. rewrite <- supported_eq.
  destruct (partition_type_ok (get8 l0 (446 + 16 * idx + 4))); cbn [negb];
    [|eexists; split; [reflexivity|exact Q1]].
  destruct (parse_bridge dev d 0 idx (le32 l0 (446 + 16 * idx + 8)) (le32 l0 (446 + 16 * idx + 12)) s1
              HD HO Hd1 Hnf1 Hc1) as (s2 & Hp & Hd2 & Hnf2 & Hc2 & Hm2).
  rewrite (bind_conv _ _ _ _ _ _ Hp).
  pose proof (same_mgr_trans _ _ _ Hm1 Hm2) as Hm.
  destruct (MM.parse_volume dev (le32 l0 (446 + 16 * idx + 8)) (le32 l0 (446 + 16 * idx + 12)))
    as [r|e|]; [| eexists; split; [reflexivity|auto] ..].
  rewrite (bind_ok _ _ _ _ _ (generate_spec s2)).
  destruct Hm as (A1 & A2 & A3 & A4 & A5 & A6 & _).
  rewrite A4.
  eexists. split; [reflexivity|].
  cbn. split; [exact Hd2|]. split.
  { intros n Hn. apply (Hnf2 n Hn). }
  split; [exact Hc2|].
  unfold mounted. cbn. rewrite A1, Hv, A2, A3, A6, vol_of_set_id. auto.
Qed.

(* ---- (1) the bridge on a fresh manager *)
(* field by field: what `vol_of` says *)
Lemma vol_of_fields id idx r :
  let v := vol_of id idx r in
  v_id v = id /\ v_idx v = idx /\
  v_lba v = MM.lba_start r /\ v_nblocks v = MM.num_blocks r /\ v_name v = MM.name r /\
  v_spc v = MM.blocks_per_cluster r /\ v_first_data v = MM.first_data_block r /\
  v_fat_start v = MM.fat_start r /\ v_second_fat v = MM.second_fat_start r /\
  v_free v = MM.free_clusters_count r /\ v_next_free v = MM.next_free_cluster r /\
  v_clusters v = MM.cluster_count r /\
  match MM.fat_specific_info r with
  | MM.Fat16Info first_root_dir_block root_entries_count =>
      v_fat32 v = false /\ v_root_block v = first_root_dir_block /\
      v_root_entries v = root_entries_count /\ v_info v = 0 /\ v_root_cluster v = 0
  | MM.Fat32Info first_root_dir_cluster info_location =>
      v_fat32 v = true /\ v_root_cluster v = first_root_dir_cluster /\
      v_info v = info_location /\ v_root_block v = 0 /\ v_root_entries v = 0
  end.
Proof. unfold vol_of. destruct (MM.fat_specific_info r); cbn; repeat split; reflexivity. Qed.

Theorem mount_bridge d off mv md mf idx :
  disk_ok d -> 1 <= mv ->
  let s0 := init_state d off mv md mf [] in
  let dev := dev_of_disk d in
  fst (open_raw_volume idx s0) = conv (fun _ => off) (MM.mount dev idx) /\
  match MM.mount dev idx with
  | MM.Ok r => mounted s0 (snd (open_raw_volume idx s0)) (vol_of off idx r)
  | _ => same_mgr s0 (snd (open_raw_volume idx s0))
  end /\
  s_disk (snd (open_raw_volume idx s0)) = d.
Proof.
  intros HO Hmv s0 dev.
  destruct (fresh_init d off mv md mf) as (F1 & _ & _ & F4 & F5 & F6).
  destruct (mount_bridge_rel dev d idx s0 (dev_of_disk_rel d) HO eq_refl F1 Hmv F4 F5 F6)
    as (s' & E & Hd & _ & _ & Hm).
  fold s0. rewrite E. cbn [fst snd]. split; [reflexivity|]. split; [exact Hm|exact Hd].
Qed.

(* success on one side iff success on the other, and then the record of the fs model is the
   translation of MountModel's *)
Corollary mount_bridge_ok_iff d off mv md mf idx :
  disk_ok d -> 1 <= mv ->
  let s0 := init_state d off mv md mf [] in
  ((exists vid, fst (open_raw_volume idx s0) = Ok vid) <->
   (exists r, MM.mount (dev_of_disk d) idx = MM.Ok r)) /\
  (forall r, MM.mount (dev_of_disk d) idx = MM.Ok r ->
     fst (open_raw_volume idx s0) = Ok off /\
     s_vols (snd (open_raw_volume idx s0)) = [vol_of off idx r]).
Proof.
  intros HO Hmv s0.
  destruct (mount_bridge d off mv md mf idx HO Hmv) as (E & Hm & _). fold s0 in E, Hm.
  split.
  - split.
    + intros [vid Hv]. rewrite E in Hv. destruct (MM.mount (dev_of_disk d) idx) as [r|e|]; try discriminate.
      exists r. reflexivity.
    + intros [r Hr]. rewrite E, Hr. exists off. reflexivity.
  - intros r Hr. rewrite Hr in E, Hm. split; [exact E|]. destruct Hm as (Hv & _). exact Hv.
Qed.

(* an error on one side iff an error of the corresponding kind on the other; Panic iff Panic;
   the fuel outcome does not occur *)
Corollary mount_bridge_err d off mv md mf idx e' :
  disk_ok d -> 1 <= mv ->
  (fst (open_raw_volume idx (init_state d off mv md mf [])) = Err e' <->
   exists e, MM.mount (dev_of_disk d) idx = MM.Err e /\ err_of e = e').
Proof.
  intros HO Hmv. destruct (mount_bridge d off mv md mf idx HO Hmv) as (E & _). rewrite E.
  destruct (MM.mount (dev_of_disk d) idx) as [r|e|]; cbn [conv]; split.
  - discriminate.
  - intros (e & He & _). discriminate.
  - intros H. injection H as <-. exists e. split; reflexivity.
  - intros (e0 & He & <-). injection He as <-. reflexivity.
  - discriminate.
  - intros (e & He & _). discriminate.
Qed.
Corollary mount_bridge_panic d off mv md mf idx :
  disk_ok d -> 1 <= mv ->
  (fst (open_raw_volume idx (init_state d off mv md mf [])) = Panic <->
   MM.mount (dev_of_disk d) idx = MM.Panic) /\
  fst (open_raw_volume idx (init_state d off mv md mf [])) <> OutOfFuel.
Proof.
  intros HO Hmv. destruct (mount_bridge d off mv md mf idx HO Hmv) as (E & _). rewrite E.
  destruct (MM.mount (dev_of_disk d) idx) as [r|e|]; cbn [conv];
    (split; [split; intros H; try discriminate H; reflexivity | discriminate]).
Qed.

(* ---- C15_total transferred: the fs model's OpenVol never panics on a fresh manager *)
Lemma dev_of_disk_ok d : disk_ok d -> MS.device_ok (dev_of_disk d).
Proof.
  intros HO i b E. unfold dev_of_disk in E. injection E as <-.
  intros k _. unfold blk_of. apply get8_lt. apply HO.
Qed.

Theorem C15_fs_mount_total d off mv md mf idx :
  disk_ok d -> 1 <= mv ->
  let r := fst (step (OpenVol idx) (init_state d off mv md mf [])) in
  r <> Panic /\ r <> OutOfFuel.
Proof.
  intros HO Hmv.
  pose proof (MountProofs.mount_total (dev_of_disk d) idx (dev_of_disk_ok d HO)) as HT.
  destruct (mount_bridge d off mv md mf idx HO Hmv) as (E & _).
  cbn [step]. unfold lift, bind.
  destruct (open_raw_volume idx (init_state d off mv md mf [])) as [o s'].
  cbn [fst] in E. subst o.
  destruct (MM.mount (dev_of_disk d) idx) as [r|e|]; cbn [conv fst];
    [split; discriminate | split; discriminate | exfalso; apply HT; reflexivity].
Qed.

(* ---- (2) the formatted medium of MountSpec as a medium of the fs model *)
(* the 512 bytes of a sector function *)
Definition list_of (b : MM.block) : block := map b (MM.range 0 512).
(* the medium holding the sectors of `dev` at the listed indices, zeros elsewhere *)
Fixpoint disk_of_dev (dev : MM.device) (idxs : list N) : disk :=
  match idxs with
  | [] => PositiveMap.empty block
  | i :: t => match dev i with
              | Some b => disk_set (disk_of_dev dev t) i (list_of b)
              | None => disk_of_dev dev t
              end
  end.
Definition disk_of_format (g : MS.geom) : disk :=
  disk_of_dev (MS.format g) [0; MS.g_lba g; MS.g_lba g + MS.g_fs_info g].

Lemma range_length s n : length (MM.range s n) = n.
Proof.
  revert s. induction n as [|k IH]; intros s; [reflexivity|].
  change (MM.range s (S k)) with (s :: MM.range (N.succ s) k). cbn [length]. rewrite IH. reflexivity.
Qed.
Lemma range_nth n : forall s k d, (k < n)%nat -> nth k (MM.range s n) d = s + N.of_nat k.
Proof.
  induction n as [|m IH]; intros s k d H; [lia|].
  change (MM.range s (S m)) with (s :: MM.range (N.succ s) m).
  destruct k as [|k]; cbn [nth]; [lia|]. rewrite IH by lia. lia.
Qed.
Lemma range_in n : forall s x, In x (MM.range s n) -> s <= x < s + N.of_nat n.
Proof.
  induction n as [|m IH]; intros s x H; [destruct H|].
  change (MM.range s (S m)) with (s :: MM.range (N.succ s) m) in H.
  destruct H as [<-|H]; [lia|]. apply IH in H. lia.
Qed.

Lemma list_of_rel b : blk_rel b (list_of b).
Proof.
  intros off H. unfold get8, list_of.
  rewrite (nth_indep _ 0 (b 0)) by (rewrite map_length, range_length; lia).
  rewrite map_nth, range_nth by lia. f_equal. lia.
Qed.
Lemma list_of_is_block b : MS.block_ok b -> is_block (list_of b).
Proof.
  intros H. split.
  - unfold list_of. rewrite map_length, range_length. reflexivity.
  - apply Forall_forall. intros x Hx. apply in_map_iff in Hx. destruct Hx as (k & <- & Hk).
    apply range_in in Hk. apply H. lia.
Qed.
Lemma zero_rel : blk_rel MS.zero_block zero_block.
Proof.
  intros off _. unfold MS.zero_block, get8, zero_block.
  destruct (nth_in_or_default (N.to_nat off) (repeat 0 512) 0) as [H|H]; [|symmetry; exact H].
  symmetry. exact (repeat_spec _ _ _ H).
Qed.

Lemma disk_of_dev_get dev idxs i b :
  dev i = Some b -> In i idxs -> disk_get (disk_of_dev dev idxs) i = list_of b.
Proof.
  intros E. induction idxs as [|j t IH]; intros H; [destruct H|].
  cbn [disk_of_dev]. destruct (N.eq_dec j i) as [->|Hne].
  - rewrite E. apply disk_get_set_same.
  - destruct H as [H|H]; [contradiction|].
    destruct (dev j); [rewrite disk_get_set_other by exact Hne|]; apply IH; exact H.
Qed.
Lemma disk_of_dev_other dev idxs i :
  ~ In i idxs -> disk_get (disk_of_dev dev idxs) i = zero_block.
Proof.
  induction idxs as [|j t IH]; intros H.
  - unfold disk_get. cbn [disk_of_dev]. rewrite PositiveMap.gempty. reflexivity.
  - cbn [disk_of_dev]. assert (Hne : j <> i) by (intros ->; apply H; left; reflexivity).
    assert (Ht : ~ In i t) by (intros Hi; apply H; right; exact Hi).
    destruct (dev j); [rewrite disk_get_set_other by exact Hne|]; apply IH; exact Ht.
Qed.
Lemma disk_of_dev_ok dev idxs : MS.device_ok dev -> disk_ok (disk_of_dev dev idxs).
Proof.
  intros HD. induction idxs as [|j t IH]; intros i.
  - unfold disk_get. cbn [disk_of_dev]. rewrite PositiveMap.gempty. apply zero_block_is_block.
  - cbn [disk_of_dev]. destruct (dev j) as [b|] eqn:E; [|apply IH].
    destruct (N.eq_dec j i) as [->|Hne].
    + rewrite disk_get_set_same. exact (proj2 (list_of_is_block b (HD _ _ E))).
    + rewrite disk_get_set_other by exact Hne. apply IH.
Qed.

Lemma format_rel g : dev_rel (MS.format g) (disk_of_format g).
Proof.
  intros i. unfold disk_of_format.
  set (idxs := [0; MS.g_lba g; MS.g_lba g + MS.g_fs_info g]).
  destruct (in_dec N.eq_dec i idxs) as [Hin|Hout].
  - assert (E : exists b, MS.format g i = Some b).
    { unfold MS.format, MS.format_with.
      destruct (i =? 0); [eexists; reflexivity|].
      destruct (i =? MS.g_lba g); [eexists; reflexivity|].
      destruct (MS.is_fat32 g && (i =? MS.g_lba g + MS.g_fs_info g)); eexists; reflexivity. }
    destruct E as [b E]. exists b. split; [exact E|].
    rewrite (disk_of_dev_get _ _ _ _ E Hin). apply list_of_rel.
  - exists MS.zero_block. split.
    + unfold MS.format, MS.format_with.
      destruct (N.eqb_spec i 0) as [->|_]; [exfalso; apply Hout; left; reflexivity|].
      destruct (N.eqb_spec i (MS.g_lba g)) as [->|_];
        [exfalso; apply Hout; right; left; reflexivity|].
      destruct (N.eqb_spec i (MS.g_lba g + MS.g_fs_info g)) as [->|_];
        [exfalso; apply Hout; right; right; left; reflexivity|].
      rewrite andb_false_r. reflexivity.
    + rewrite (disk_of_dev_other _ _ _ Hout). exact zero_rel.
Qed.
Lemma format_disk_ok g : disk_ok (disk_of_format g).
Proof. apply disk_of_dev_ok. apply MP.format_ok. Qed.

(* C15_valid through the bridge: the fs model mounts every valid formatted geometry, and the
   record it builds is `layout g` *)
Theorem C15_valid_fs g off mv md mf :
  MS.valid_geom g -> ~ MP.ends_at_limit g -> 1 <= mv ->
  let s0 := init_state (disk_of_format g) off mv md mf [] in
  fst (step (OpenVol (MS.g_slot g)) s0) = Ok (RHandle off) /\
  s_vols (snd (step (OpenVol (MS.g_slot g)) s0)) = [vol_of off (MS.g_slot g) (MS.layout g)] /\
  s_disk (snd (step (OpenVol (MS.g_slot g)) s0)) = disk_of_format g.
Proof.
  intros HV HL Hmv s0.
  destruct (fresh_init (disk_of_format g) off mv md mf) as (F1 & _ & _ & F4 & F5 & F6).
  destruct (mount_bridge_rel (MS.format g) (disk_of_format g) (MS.g_slot g) s0
              (format_rel g) (format_disk_ok g) eq_refl F1 Hmv F4 F5 F6)
    as (s' & E & Hd & _ & _ & Hm).
  rewrite (MountProofs.mount_format g HV HL) in E, Hm. cbn [conv] in E.
  cbn [step]. unfold lift. rewrite (bind_ok _ _ _ _ _ E). cbn [ret fst snd].
  split; [reflexivity|]. destruct Hm as (Hvols & _). split; [exact Hvols|exact Hd].
Qed.

(* the same, field by field *)
Corollary C15_valid_fs_fields g off mv md mf :
  MS.valid_geom g -> ~ MP.ends_at_limit g -> 1 <= mv ->
  exists v, s_vols (snd (step (OpenVol (MS.g_slot g)) (init_state (disk_of_format g) off mv md mf []))) = [v] /\
    v_id v = off /\ v_idx v = MS.g_slot g /\
    v_lba v = MS.g_lba g /\ v_nblocks v = MS.g_part_blocks g /\
    v_name v = map (MS.g_label g) (MM.range 0 11) /\
    v_spc v = MS.g_spc g /\ v_first_data v = MS.spec_first_data g /\
    v_fat_start v = MS.g_reserved g /\
    v_second_fat v = (if MS.g_nfats g =? 2 then Some (MS.g_reserved g + MS.g_fat_size g) else None) /\
    v_clusters v = MS.n_clusters g /\ v_fat32 v = MS.is_fat32 g /\
    (MS.is_fat32 g = true ->
       v_free v = MS.spec_free (MS.g_info_free g) /\
       v_next_free v = MS.spec_hint (MS.n_clusters g) (MS.g_info_next g) /\
       v_root_cluster v = MS.g_root_cluster g /\ v_info v = MS.g_lba g + MS.g_fs_info g /\
       v_root_block v = 0 /\ v_root_entries v = 0) /\
    (MS.is_fat32 g = false ->
       v_free v = None /\ v_next_free v = None /\
       v_root_block v = MS.g_reserved g + MS.g_nfats g * MS.g_fat_size g /\
       v_root_entries v = MS.g_root_entries g /\ v_info v = 0 /\ v_root_cluster v = 0).
Proof.
  intros HV HL Hmv.
  destruct (C15_valid_fs g off mv md mf HV HL Hmv) as (_ & Hvols & _).
  eexists. split; [exact Hvols|].
  unfold vol_of, MS.layout, MS.layout_with. cbn [MM.fat_specific_info].
  destruct (MS.is_fat32 g); cbn; repeat split; try reflexivity; congruence.
Qed.

(* ---- computed instances: the formatted example geometries of MountProofs.v mounted by the
   fs model *)
(* three FAT copies (D41): no second-FAT record, root directory behind all three *)
Example ex_fats3_fs :
  let r := step (OpenVol 0) (init_state (disk_of_format MP.ex_fats3) 7 1 4 4 []) in
  fst r = Ok (RHandle 7) /\
  s_vols (snd r) =
    [mk_vol 7 0 63 5000 [32;32;32;32;32;32;32;32;32;32;32] 1 84 1 None None None 4085
            false 512 52 0 0] /\
  s_vols (snd r) = [vol_of 7 0 (MS.layout MP.ex_fats3)].
Proof. vm_compute. repeat split; reflexivity. Qed.
(* FAT32, second MBR entry, both FS-information sentinels (free count unknown, hint 1) *)
Example ex32_fs :
  let r := step (OpenVol 1) (init_state (disk_of_format MP.ex32) 7 1 4 4 []) in
  fst r = Ok (RHandle 7) /\
  s_vols (snd r) =
    [mk_vol 7 1 2048 70000 [65;66;67;68;69;70;71;72;73;74;75] 1 1072 32 (Some 552) None None 65928
            true 0 0 2049 2].
Proof. vm_compute. split; reflexivity. Qed.
(* the volume ending at block 2^32 - 1: refused by both (D14 class) *)
Example ex_edge_fs :
  fst (step (OpenVol 3) (init_state (disk_of_format MP.ex_edge) 7 1 4 4 [])) = Err FormatError /\
  MM.mount (MS.format MP.ex_edge) 3 = MM.Err (MM.FormatError MM.NoFit).
Proof. split; vm_compute; reflexivity. Qed.

(* the byte premise `disk_ok` cannot be dropped: on a "sector" holding a number that is not a
   byte (root entry count field, MountProofs.unbounded_device) MountModel multiplies with the
   u32 overflow check and panics, the fs model computes the same product unchecked (in Rust
   a u16 times 32 in u32: no overflow is possible) and refuses the volume *)
Definition unbounded_disk : disk := disk_of_dev MP.unbounded_device [0; 63].
Lemma bridge_needs_bytes :
  fst (open_raw_volume 0 (init_state unbounded_disk 7 1 4 4 [])) = Err FormatError /\
  MM.mount (dev_of_disk unbounded_disk) 0 = MM.Panic.
Proof. split; vm_compute; reflexivity. Qed.

Print Assumptions mount_bridge_rel.
Print Assumptions mount_bridge.
Print Assumptions mount_bridge_ok_iff.
Print Assumptions mount_bridge_err.
Print Assumptions mount_bridge_panic.
Print Assumptions C15_fs_mount_total.
Print Assumptions C15_valid_fs.
Print Assumptions C15_valid_fs_fields.
Print Assumptions ex_fats3_fs.
Print Assumptions ex32_fs.
Print Assumptions ex_edge_fs.
Print Assumptions bridge_needs_bytes.
