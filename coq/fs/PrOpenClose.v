(* PROOFS: the handle life-cycle in the multi-file refinement (C01).
   PrMulti.v shows that a SET of simultaneously open files behaves like independent byte arrays
   under read / write / seek / length / offset / eof.  Here the set itself changes:
     1 flush of a member        - C01_flush_keeps: Ok, every member keeps its abstract state;
     2 close of a member        - C01_close_removes: Ok, the member leaves the set, the others keep
                                  their abstract states although swap_remove re-indexes the table;
     3 open of an existing file - C01_open_adds (ReadOnly / ReadWriteAppend / ReadWriteCreateOrAppend),
                                  C01_open_truncates (ReadWriteTruncate / ReadWriteCreateOrTruncate):
                                  the new member holds the bytes of the entry's chain (resp. nothing);
     4 histories                - C01_lifecycle_history: interleavings of the operations of PrMulti
                                  with Flush and CloseFile (and the covered OpenFile forms, see the
                                  end of the file for what exactly is covered).
   The device works (no faults).  Flush writes the directory slot of the file (and, FAT32, the
   information sector): blocks that must not be data blocks of any member's chain - the
   hypothesis slot_apart below, which follows from "directory chains and file chains are
   disjoint" (slot_home_apart). *)
From Coq Require Import NArith ZArith List Bool Lia Arith ZifyClasses ZifyInst Zify FMapPositive.
From SdFs Require Import FsTypes FsBase FsFat FsMgr FsLemmas PrBase PrFat PrAlloc PrDir PrSeek PrAllocEffect PrRw PrWrite PrFileSeq PrMulti PrEntry.
From SdFs Require PrModes PrHandles PrChain.
Import ListNotations.
Open Scope N_scope.
Local Arguments N.mul : simpl never.
Local Arguments N.add : simpl never.
Local Arguments N.sub : simpl never.
Local Arguments N.div : simpl never.
Local Arguments N.modulo : simpl never.
Local Arguments N.min : simpl never.
Local Arguments N.max : simpl never.
Local Ltac Zify.zify_post_hook ::= Z.to_euclidean_division_equations.

(* ================================================================== 0. list facts *)
Lemma find_idx_unique {A} (g : A -> N) (l : list A) : forall i k x,
  NoDup (map g l) -> nth_error l i = Some x ->
  find_idx (fun y => g y =? g x) l k = Some (k + i)%nat.
Proof.
  induction l as [|a t IH]; intros i k x Hnd Hi; [destruct i; discriminate Hi|].
  cbn [map] in Hnd. inversion Hnd as [|? ? Hnot Hnd']; subst.
  destruct i as [|i]; cbn [nth_error] in Hi.
  - injection Hi as ->. cbn [find_idx]. rewrite N.eqb_refl. f_equal. lia.
  - cbn [find_idx]. destruct (N.eqb_spec (g a) (g x)) as [E|_].
    + exfalso. apply Hnot. rewrite E. apply in_map. eapply nth_error_In. exact Hi.
    + rewrite (IH i (S k) x Hnd' Hi). f_equal. lia.
Qed.

Lemma find_idx_app_l {A} (p : A -> bool) (l l' : list A) : forall k j,
  find_idx p l k = Some j -> find_idx p (l ++ l') k = Some j.
Proof.
  induction l as [|a t IH]; intros k j H; [discriminate H|].
  cbn [app find_idx] in *. destruct (p a); [exact H|]. exact (IH _ _ H).
Qed.

Lemma find_idx_app_new {A} (p : A -> bool) (l : list A) y : forall k,
  (forall x, In x l -> p x = false) -> p y = true ->
  find_idx p (l ++ [y]) k = Some (k + length l)%nat.
Proof.
  induction l as [|a t IH]; intros k Hn Hy.
  - cbn [app find_idx length]. rewrite Hy. f_equal. lia.
  - cbn [app find_idx length]. rewrite (Hn a (or_introl eq_refl)).
    rewrite IH; [f_equal; lia| |exact Hy]. intros x Hx. apply Hn. right. exact Hx.
Qed.

Lemma Forall2_impl_in {A B} (R R' : A -> B -> Prop) l1 l2 : Forall2 R l1 l2 ->
  (forall a b, In a l1 -> In b l2 -> R a b -> R' a b) -> Forall2 R' l1 l2.
Proof.
  induction 1 as [|x y l1 l2 Hxy _ IH]; intros H; constructor.
  - apply H; [left; reflexivity|left; reflexivity|exact Hxy].
  - apply IH. intros a b Ha Hb. apply H; right; assumption.
Qed.

(* pairwise, by index  <->  ForallOrdPairs, for a symmetric relation *)
Lemma pairwise_fop {A} (P : A -> A -> Prop) (l : list A) :
  (forall i j a b, i <> j -> nth_error l i = Some a -> nth_error l j = Some b -> P a b) ->
  ForallOrdPairs P l.
Proof.
  induction l as [|x t IH]; intros H; constructor.
  - apply Forall_forall. intros b Hb. destruct (In_nth_error _ _ Hb) as (j & Hj).
    apply (H 0%nat (S j) x b); [discriminate|reflexivity|exact Hj].
  - apply IH. intros i j a b Hij Ha Hb. apply (H (S i) (S j) a b); [congruence|exact Ha|exact Hb].
Qed.

Lemma fop_pairwise {A} (P : A -> A -> Prop) (l : list A) : (forall a b, P a b -> P b a) ->
  ForallOrdPairs P l ->
  forall i j a b, i <> j -> nth_error l i = Some a -> nth_error l j = Some b -> P a b.
Proof.
  intros Hsym. induction 1 as [|x t Hx _ IH]; intros i j a b Hij Ha Hb; [destruct i; discriminate Ha|].
  rewrite Forall_forall in Hx.
  destruct i as [|i]; destruct j as [|j]; cbn [nth_error] in Ha, Hb.
  - contradiction.
  - injection Ha as <-. apply Hx. eapply nth_error_In. exact Hb.
  - injection Hb as <-. apply Hsym. apply Hx. eapply nth_error_In. exact Ha.
  - apply (IH i j a b); [congruence|exact Ha|exact Hb].
Qed.

Lemma fop_filter {A} (P : A -> A -> Prop) (q : A -> bool) l : ForallOrdPairs P l -> ForallOrdPairs P (filter q l).
Proof.
  induction 1 as [|x t Hx _ IH]; [constructor|]. cbn [filter]. destruct (q x); [|exact IH].
  constructor; [|exact IH]. rewrite Forall_forall in *. intros b Hb. apply Hx.
  apply filter_In in Hb. exact (proj1 Hb).
Qed.

Lemma fop_map {A} (P : A -> A -> Prop) (g : A -> A) l : (forall a b, P a b -> P (g a) (g b)) ->
  ForallOrdPairs P l -> ForallOrdPairs P (map g l).
Proof.
  intros Hg. induction 1 as [|x t Hx _ IH]; [constructor|]. cbn [map].
  constructor; [|exact IH]. rewrite Forall_forall in *. intros b Hb.
  apply in_map_iff in Hb. destruct Hb as (b0 & <- & Hb0). apply Hg. apply Hx. exact Hb0.
Qed.

(* filtering both sides of a Forall2 by a key the relation preserves *)
Lemma Forall2_filter {A B} (R : A -> B -> Prop) (k1 : A -> bool) (k2 : B -> bool) l1 l2 :
  Forall2 R l1 l2 -> (forall a b, R a b -> k1 a = k2 b) ->
  Forall2 R (filter k1 l1) (filter k2 l2).
Proof.
  induction 1 as [|x y l1 l2 Hxy _ IH]; intros Hk; [constructor|].
  cbn [filter]. rewrite <- (Hk x y Hxy). destruct (k1 x); [constructor; [exact Hxy|]|]; apply IH; exact Hk.
Qed.

(* ================================================================== 1. frames for file_rep *)
(* the blocks that hold the data of a chain *)
Definition data_blocks (v : vol) (ch : list N) : list N := flat_map (cluster_blocks v) ch.

Lemma file_bytes_frame d d' v ch :
  (forall j, In j (data_blocks v ch) -> disk_get d' j = disk_get d j) ->
  file_bytes d' v ch = file_bytes d v ch.
Proof.
  intros H. rewrite !file_bytes_blocks. fold (data_blocks v ch).
  induction (data_blocks v ch) as [|b l IH]; [reflexivity|]. cbn [flat_map].
  rewrite (H b (or_introl eq_refl)), IH; [reflexivity|]. intros j Hj. apply H. right. exact Hj.
Qed.

Section Frames.
  Variable fsz : N.

  (* the representation of an open file carries over to a state s' in which the handle names the
     same record - possibly at another index fi' of the file table -, the volume table is the
     same, and the chain and the bytes of the file's clusters are as before *)
  Lemma file_rep_move w h s s' af fi f vi v ch fi' :
    file_rep fsz w h s af fi f vi v ch ->
    s_lock s' = false ->
    find_idx (fun g => f_id g =? h) (s_files s') 0 = Some fi' ->
    nth_error (s_files s') fi' = Some f ->
    s_vols s' = s_vols s -> no_faults s' -> cache_ok s' -> blocks_wf (s_disk s') ->
    (forall fu, 2 <= e_cluster (f_entry f) ->
                chain_of (s_disk s) v (e_cluster (f_entry f)) fu = Some ch ->
                chain_of (s_disk s') v (e_cluster (f_entry f)) fu = Some ch) ->
    file_bytes (s_disk s') v ch = file_bytes (s_disk s) v ch ->
    file_rep fsz w h s' af fi' f vi v ch.
  Proof.
    intros [(R1 & R2 & R3) Hvol Hpre Hfit Hspc Hwf Hchain Hoff Hsize H32 Hmode Hbytes Haoff]
           Hl' Hh' Hfi' Hvols' Hnf' Hc' Hwf' Hch' Hb'.
    destruct Hpre as ((_ & _ & Hvi & _) & L & Hh).
    constructor; try assumption.
    - repeat split; assumption.
    - rewrite Hvols'. exact Hvol.
    - split; [|split; assumption]. split; [exact Hnf'|]. split; [exact Hc'|].
      split; [rewrite Hvols'; exact Hvi|]. intros k _. apply Hwf'.
    - destruct Hchain as [(A1 & (fu & A2) & A3)|A]; [left|right; exact A].
      split; [exact A1|]. split; [exists fu; exact (Hch' fu A1 A2)|exact A3].
    - rewrite Hbytes, Hb'. reflexivity.
  Qed.

  (* the clusters of the chain of an open file are data clusters *)
  Lemma file_rep_chain_range w h s af fi f vi v ch : file_rep fsz w h s af fi f vi v ch ->
    Forall (fun x => 2 <= x /\ x < v_clusters v + 2) ch.
  Proof.
    intros R. destruct (fr_chain _ _ _ _ _ _ _ _ _ _ R) as [(_ & (fu & A2) & _)|(_ & -> & _)].
    - exact (chain_of_range _ _ _ _ _ A2).
    - constructor.
  Qed.
End Frames.

(* ================================================================== 2. what a flush touches *)
(* the directory slot of an open file, as flush_file needs it: the time stamps can be encoded
   (true of every decoded entry and of every clock value), the name has 11 bytes, the slot
   lies in its block, and that block is no sector of the FAT *)
Record slot_ok (v : vol) (e : dirent) : Prop := mk_slot_ok {
  so_ctime : ts_ok (e_ctime e);
  so_mtime : ts_ok (e_mtime e);
  so_name : length (e_name e) = 11%nat;
  so_off : e_offset e + 32 <= 512;
  so_nfat : ~ fat_area v (e_block e)
}.

(* FAT32: the information sector is neither a FAT sector nor a data block *)
Definition info_ok (v : vol) : Prop :=
  v_fat32 v = true -> ~ fat_area v (v_info v) /\ forall c, 2 <= c -> ~ In (v_info v) (cluster_blocks v c).

(* it lies before the data area on every volume the mount code accepts *)
Lemma info_ok_intro v : (v_fat32 v = true -> ~ fat_area v (v_info v) /\ v_info v < v_lba v + v_first_data v) ->
  info_ok v.
Proof.
  intros H E. destruct (H E) as [H1 H2]. split; [exact H1|]. intros c Hc Hin.
  destruct (In_cluster_blocks _ _ _ Hin) as (k & _ & Ek). unfold cluster_first_block in Ek.
  remember ((c - 2) * v_spc v) as X. lia.
Qed.

(* the block is not a data block of the chain *)
Definition blk_apart (v : vol) (blk : N) (ch : list N) : Prop := ~ In blk (data_blocks v ch).

(* the effect of flush_file through a record with entry e on the rest of the state: the tables
   are untouched, the device still works, and only the block of the slot and - FAT32 - the
   information sector may differ *)
Definition flush_eff (v : vol) (e : dirent) (s s' : st) : Prop :=
  same_mgr s s' /\ no_faults s' /\ cache_ok s' /\ blocks_wf (s_disk s') /\
  forall j, j <> e_block e -> (v_fat32 v = true -> j <> v_info v) ->
            disk_get (s_disk s') j = disk_get (s_disk s) j.

(* the information-sector step always runs (working device), and keeps 512-byte blocks *)
Lemma info_step_exists s vi v : no_faults s -> cache_ok s -> nth_error (s_vols s) vi = Some v ->
  blocks_wf (s_disk s) -> exists s1, info_step s vi v s1 /\ blocks_wf (s_disk s1).
Proof.
  intros Hnf Hc Hv Hwf.
  destruct (v_fat32 v) eqn:E32.
  2:{ exists s. split; [apply info_step_none; auto|exact Hwf]. }
  destruct (v_free v) as [fc|] eqn:Ef.
  2:{ destruct (v_next_free v) as [nx|] eqn:En.
      2:{ exists s. split; [apply info_step_none; auto|exact Hwf]. }
      destruct (update_info_sector_spec vi s v Hnf Hc Hv E32 ltac:(right; congruence) (Hwf _))
        as (s1 & nb & Hrun & Hd & _ & Hfr & Hlen & _ & _ & _ & _ & Hc1 & Hnf1 & Hm & _).
      exists s1. split.
      - split; [exact Hrun|]. repeat (split; [assumption|]).
        intros [H|[_ H]]; congruence.
      - intros i. destruct (N.eq_dec i (v_info v)) as [->|Hne].
        + rewrite Hd, disk_get_set_same. exact Hlen.
        + rewrite Hfr by exact Hne. apply Hwf. }
  destruct (update_info_sector_spec vi s v Hnf Hc Hv E32 ltac:(left; congruence) (Hwf _))
    as (s1 & nb & Hrun & Hd & _ & Hfr & Hlen & _ & _ & _ & _ & Hc1 & Hnf1 & Hm & _).
  exists s1. split.
  - split; [exact Hrun|]. repeat (split; [assumption|]).
    intros [H|[H _]]; congruence.
  - intros i. destruct (N.eq_dec i (v_info v)) as [->|Hne].
    + rewrite Hd, disk_get_set_same. exact Hlen.
    + rewrite Hfr by exact Hne. apply Hwf.
Qed.

Section Flush.
  Variable fsz : N.

  (* flush of an open file: always Ok; not dirty - nothing happens; dirty - the information
     sector step, then the slot of the file is rewritten *)
  Lemma flush_run w h s af fi f vi v ch :
    file_rep fsz w h s af fi f vi v ch -> slot_ok v (f_entry f) ->
    exists s', flush_file h s = (Ok tt, s') /\ flush_eff v (f_entry f) s s'.
  Proof.
    intros R [Hct Hmt Hname Hoff _].
    pose proof R as [Hres Hvol Hpre Hfit Hspc Hwf Hchain _ Hsize _ _ _ _].
    destruct Hpre as ((Hnf & Hc & Hvi & _) & _ & _).
    destruct (f_dirty f) eqn:Hd.
    2:{ exists s. split; [exact (flush_file_clean s h fi f Hres Hd)|].
        split; [apply same_mgr_refl|]. repeat (split; [assumption|]). intros j _ _. reflexivity. }
    destruct (info_step_exists s vi v Hnf Hc Hvi Hwf) as (s1 & Hinfo & Hwf1).
    assert (Hnp : e_size (f_entry f) = 0 \/ e_cluster (f_entry f) <> 0).
    { destruct Hchain as [(A1 & _)|(_ & -> & _)]; [right; clear - A1; lia|left].
      cbn [length] in Hsize. clear - Hsize. lia. }
    destruct (flush_file_spec s h fi f vi v s1 Hres Hd (conj Hvol Hvi) Hinfo Hnp Hct Hmt Hoff)
      as (s' & Hrun & Hd' & _ & Hfr & Hc' & Hnf' & Hm' & _).
    exists s'. split; [exact Hrun|]. split; [exact Hm'|]. split; [exact Hnf'|]. split; [exact Hc'|].
    split.
    - intros i. destruct (N.eq_dec i (e_block (f_entry f))) as [->|Hne].
      + rewrite Hd', disk_get_set_same. unfold put_entry. rewrite set_bytes_length; [apply Hwf1|].
        rewrite (ser_bytes_length _ _ Hname), (Hwf1 _). clear - Hoff. lia.
      + rewrite Hfr by exact Hne. apply Hwf1.
    - intros j Hj Hinfoj. rewrite Hfr by exact Hj.
      destruct Hinfo as (_ & _ & _ & _ & Hfr1 & Hsame).
      destruct (v_fat32 v) eqn:E32.
      + apply Hfr1. apply Hinfoj. reflexivity.
      + rewrite (Hsame (or_introl eq_refl)). reflexivity.
  Qed.

  (* the representation of an open file whose chain avoids the rewritten blocks survives *)
  Lemma file_rep_flush w2 h2 s s' af2 fi2 f2 vi v ch2 e :
    file_rep fsz w2 h2 s af2 fi2 f2 vi v ch2 -> flush_eff v e s s' ->
    ~ fat_area v (e_block e) -> info_ok v -> blk_apart v (e_block e) ch2 ->
    file_rep fsz w2 h2 s' af2 fi2 f2 vi v ch2.
  Proof.
    intros R (Hm & Hnf' & Hc' & Hwf' & Hfr) Hnfat Hinfo Hapart.
    pose proof (file_rep_chain_range fsz _ _ _ _ _ _ _ _ _ R) as Hrange.
    pose proof R as [(R1 & R2 & R3) _ _ _ _ _ _ _ _ _ _ _ _].
    destruct Hm as (M1 & _ & M3 & _ & _ & M6 & _).
    apply (file_rep_move fsz w2 h2 s s' af2 fi2 f2 vi v ch2 fi2 R); try assumption; try congruence.
    - intros fu _ H. rewrite <- H. apply chain_of_ext. intros j Hj. apply Hfr.
      + intros ->. contradiction.
      + intros E ->. exact (proj1 (Hinfo E) Hj).
    - apply file_bytes_frame. intros j Hj. apply Hfr.
      + intros ->. exact (Hapart Hj).
      + intros E ->. unfold data_blocks in Hj. apply in_flat_map in Hj. destruct Hj as (c & Hc & Hj).
        rewrite Forall_forall in Hrange. exact (proj2 (Hinfo E) c (proj1 (Hrange c Hc)) Hj).
  Qed.

  (* 1. C01, flush: on the representation.  The member at position i0 is flushed: the call
     returns Ok and EVERY member - the flushed one included - keeps its representation, hence
     its abstract state.  slot_apart: the block of the flushed file's directory slot is not a
     data block of any member's chain. *)
  Theorem C01_flush_keeps_rep s vi v m rs i0 h w af fi f ch :
    files_rep fsz s vi v m rs -> nth_error m i0 = Some (h, w, af) -> nth_error rs i0 = Some (fi, f, ch) ->
    slot_ok v (f_entry f) -> info_ok v ->
    (forall r, In r rs -> blk_apart v (e_block (f_entry f)) (r_chain r)) ->
    exists s', run_op (Flush h) s = (Ok RUnit, s') /\ flush_eff v (f_entry f) s s' /\
               files_rep fsz s' vi v m rs.
  Proof.
    intros (F & Hdisj & Hnd) Hi0 Hr0 Hslot Hinfo Hapart.
    destruct (Forall2_nth_l _ _ _ F i0 _ Hi0) as (r0 & Hr0' & R0). rewrite Hr0 in Hr0'. injection Hr0' as <-.
    unfold member_rep in R0. cbn [m_wr m_handle m_af r_chain fst snd] in R0.
    destruct (flush_run w h s af fi f vi v ch R0 Hslot) as (s' & Hrun & Heff).
    exists s'. split; [exact (lift_ok' _ _ _ _ _ Hrun)|]. split; [exact Heff|].
    split; [|split; [exact Hdisj|exact Hnd]].
    apply (Forall2_impl_in _ _ _ _ F). intros [[h2 w2] af2] [[fi2 f2] ch2] _ Hin R2.
    unfold member_rep in *. cbn [m_wr m_handle m_af r_chain fst snd] in *.
    apply (file_rep_flush w2 h2 s s' af2 fi2 f2 vi v ch2 (f_entry f) R2 Heff (so_nfat _ _ Hslot) Hinfo).
    exact (Hapart _ Hin).
  Qed.
End Flush.
