(* PROOFS: the handle life-cycle in the multi-file refinement (C01).
   PrMulti.v shows that a SET of simultaneously open files behaves like independent byte arrays
   under read / write / seek / length / offset / eof.  Here the set itself changes:
     1 flush of a member        - C01_flush_keeps(_rep): Ok, every member keeps its abstract state;
     2 close of a member        - C01_close_removes(_rep): Ok, the member leaves the set, the others
                                  keep their abstract states although swap_remove re-indexes the table;
     3 open                     - C01_open_adds (existing file, ReadOnly / ReadWriteAppend /
                                  ReadWriteCreateOrAppend): the new member holds the bytes of the
                                  entry's chain; C01_open_truncates (existing file, ReadWriteTruncate /
                                  ReadWriteCreateOrTruncate) and C01_open_creates (no such name, a
                                  creating mode, a free slot in the directory): the new member is empty;
     4 histories                - C01_lifecycle_history: every interleaving of the operations of
                                  PrMulti with Flush, CloseFile and the covered OpenFile forms returns
                                  what the byte-array models return, and the invariant lc_inv is kept;
                                  C01_lifecycle_history_closed: without opens the guard is a property
                                  of the calls alone;
     5 close, then open again   - C01_reopen_covered / C01_close_reopen: the open that follows the
                                  close of a written file is covered and finds the bytes the model held
                                  (by PrEntry.C02_flush_then_lookup and the frame of the flush).
   The device works (no faults).  Flush writes the directory slot of the file (and, FAT32, the
   information sector): blocks that must not be data blocks of any member's chain - slot_apart -
   which follows from "directory chains and file chains are disjoint" (blk_home, blk_home_apart);
   the invariant lc_inv = PrMulti.files_rep + that + well-formed slots + the volume + no id
   twice in the file table.
   NOT covered (see the end of the file): the SPEC side of an OpenFile call takes the contents of
   the file on the medium as a ghost component of the call, tied to the concrete state by the
   guard (open_covered); a SPEC-side "medium" map that carries the contents of closed files
   across arbitrary intervening calls is not provided. *)
From Coq Require Import NArith ZArith List Bool Lia Arith ZifyClasses ZifyInst Zify FMapPositive.
From SdFs Require Import FsTypes FsBase FsFat FsMgr FsLemmas PrBase PrFat PrAlloc PrDir PrSeek PrAllocEffect PrRw PrWrite PrFileSeq PrMulti PrEntry.
From SdFs Require PrModes PrHandles PrChain.
Import ListNotations.
Open Scope N_scope.
Local Arguments N.mul : simpl never.
Local Arguments N.add : simpl never.
Local Arguments N.sub : simpl never.
Local Arguments N.div : simpl never.
Local Arguments N.modulo : simpl never.
Local Arguments N.min : simpl never.
Local Arguments N.max : simpl never.
Local Ltac Zify.zify_post_hook ::= Z.to_euclidean_division_equations.

(* ================================================================== 0. list facts *)
Lemma find_idx_unique {A} (g : A -> N) (l : list A) : forall i k x,
  NoDup (map g l) -> nth_error l i = Some x ->
  find_idx (fun y => g y =? g x) l k = Some (k + i)%nat.
Proof.
  induction l as [|a t IH]; intros i k x Hnd Hi; [destruct i; discriminate Hi|].
  cbn [map] in Hnd. inversion Hnd as [|? ? Hnot Hnd']; subst.
  destruct i as [|i]; cbn [nth_error] in Hi.
  - injection Hi as ->. cbn [find_idx]. rewrite N.eqb_refl. f_equal. lia.
  - cbn [find_idx]. destruct (N.eqb_spec (g a) (g x)) as [E|_].
    + exfalso. apply Hnot. rewrite E. apply in_map. eapply nth_error_In. exact Hi.
    + rewrite (IH i (S k) x Hnd' Hi). f_equal. lia.
Qed.

Lemma find_idx_app_l {A} (p : A -> bool) (l l' : list A) : forall k j,
  find_idx p l k = Some j -> find_idx p (l ++ l') k = Some j.
Proof.
  induction l as [|a t IH]; intros k j H; [discriminate H|].
  cbn [app find_idx] in *. destruct (p a); [exact H|]. exact (IH _ _ H).
Qed.

Lemma find_idx_app_new {A} (p : A -> bool) (l : list A) y : forall k,
  (forall x, In x l -> p x = false) -> p y = true ->
  find_idx p (l ++ [y]) k = Some (k + length l)%nat.
Proof.
  induction l as [|a t IH]; intros k Hn Hy.
  - cbn [app find_idx length]. rewrite Hy. f_equal. lia.
  - cbn [app find_idx length]. rewrite (Hn a (or_introl eq_refl)).
    rewrite IH; [f_equal; lia| |exact Hy]. intros x Hx. apply Hn. right. exact Hx.
Qed.

Lemma Forall2_impl_in {A B} (R R' : A -> B -> Prop) l1 l2 : Forall2 R l1 l2 ->
  (forall a b, In a l1 -> In b l2 -> R a b -> R' a b) -> Forall2 R' l1 l2.
Proof.
  induction 1 as [|x y l1 l2 Hxy _ IH]; intros H; constructor.
  - apply H; [left; reflexivity|left; reflexivity|exact Hxy].
  - apply IH. intros a b Ha Hb. apply H; right; assumption.
Qed.

(* pairwise, by index  <->  ForallOrdPairs, for a symmetric relation *)
Lemma pairwise_fop {A} (P : A -> A -> Prop) (l : list A) :
  (forall i j a b, i <> j -> nth_error l i = Some a -> nth_error l j = Some b -> P a b) ->
  ForallOrdPairs P l.
Proof.
  induction l as [|x t IH]; intros H; constructor.
  - apply Forall_forall. intros b Hb. destruct (In_nth_error _ _ Hb) as (j & Hj).
    apply (H 0%nat (S j) x b); [discriminate|reflexivity|exact Hj].
  - apply IH. intros i j a b Hij Ha Hb. apply (H (S i) (S j) a b); [congruence|exact Ha|exact Hb].
Qed.

Lemma fop_pairwise {A} (P : A -> A -> Prop) (l : list A) : (forall a b, P a b -> P b a) ->
  ForallOrdPairs P l ->
  forall i j a b, i <> j -> nth_error l i = Some a -> nth_error l j = Some b -> P a b.
Proof.
  intros Hsym. induction 1 as [|x t Hx _ IH]; intros i j a b Hij Ha Hb; [destruct i; discriminate Ha|].
  rewrite Forall_forall in Hx.
  destruct i as [|i]; destruct j as [|j]; cbn [nth_error] in Ha, Hb.
  - contradiction.
  - injection Ha as <-. apply Hx. eapply nth_error_In. exact Hb.
  - injection Hb as <-. apply Hsym. apply Hx. eapply nth_error_In. exact Ha.
  - apply (IH i j a b); [congruence|exact Ha|exact Hb].
Qed.

Lemma fop_filter {A} (P : A -> A -> Prop) (q : A -> bool) l : ForallOrdPairs P l -> ForallOrdPairs P (filter q l).
Proof.
  induction 1 as [|x t Hx _ IH]; [constructor|]. cbn [filter]. destruct (q x); [|exact IH].
  constructor; [|exact IH]. rewrite Forall_forall in *. intros b Hb. apply Hx.
  apply filter_In in Hb. exact (proj1 Hb).
Qed.

Lemma fop_map {A} (P : A -> A -> Prop) (g : A -> A) l : (forall a b, P a b -> P (g a) (g b)) ->
  ForallOrdPairs P l -> ForallOrdPairs P (map g l).
Proof.
  intros Hg. induction 1 as [|x t Hx _ IH]; [constructor|]. cbn [map].
  constructor; [|exact IH]. rewrite Forall_forall in *. intros b Hb.
  apply in_map_iff in Hb. destruct Hb as (b0 & <- & Hb0). apply Hg. apply Hx. exact Hb0.
Qed.

(* filtering both sides of a Forall2 by a key the relation preserves *)
Lemma Forall2_filter {A B} (R : A -> B -> Prop) (k1 : A -> bool) (k2 : B -> bool) l1 l2 :
  Forall2 R l1 l2 -> (forall a b, R a b -> k1 a = k2 b) ->
  Forall2 R (filter k1 l1) (filter k2 l2).
Proof.
  induction 1 as [|x y l1 l2 Hxy _ IH]; intros Hk; [constructor|].
  cbn [filter]. rewrite <- (Hk x y Hxy). destruct (k1 x); [constructor; [exact Hxy|]|]; apply IH; exact Hk.
Qed.

(* ================================================================== 1. frames for file_rep *)
(* the blocks that hold the data of a chain *)
Definition data_blocks (v : vol) (ch : list N) : list N := flat_map (cluster_blocks v) ch.

Lemma file_bytes_frame d d' v ch :
  (forall j, In j (data_blocks v ch) -> disk_get d' j = disk_get d j) ->
  file_bytes d' v ch = file_bytes d v ch.
Proof.
  intros H. rewrite !file_bytes_blocks. fold (data_blocks v ch).
  induction (data_blocks v ch) as [|b l IH]; [reflexivity|]. cbn [flat_map].
  rewrite (H b (or_introl eq_refl)), IH; [reflexivity|]. intros j Hj. apply H. right. exact Hj.
Qed.

Section Frames.
  Variable fsz : N.

  (* the representation of an open file carries over to a state s' in which the handle names the
     same record - possibly at another index fi' of the file table -, the volume table is the
     same, and the chain and the bytes of the file's clusters are as before *)
  Lemma file_rep_move w h s s' af fi f vi v ch fi' :
    file_rep fsz w h s af fi f vi v ch ->
    s_lock s' = false ->
    find_idx (fun g => f_id g =? h) (s_files s') 0 = Some fi' ->
    nth_error (s_files s') fi' = Some f ->
    s_vols s' = s_vols s -> no_faults s' -> cache_ok s' -> blocks_wf (s_disk s') ->
    (forall fu, 2 <= e_cluster (f_entry f) ->
                chain_of (s_disk s) v (e_cluster (f_entry f)) fu = Some ch ->
                chain_of (s_disk s') v (e_cluster (f_entry f)) fu = Some ch) ->
    file_bytes (s_disk s') v ch = file_bytes (s_disk s) v ch ->
    file_rep fsz w h s' af fi' f vi v ch.
  Proof.
    intros [(R1 & R2 & R3) Hvol Hpre Hfit Hspc Hwf Hchain Hoff Hsize H32 Hmode Hbytes Haoff]
           Hl' Hh' Hfi' Hvols' Hnf' Hc' Hwf' Hch' Hb'.
    destruct Hpre as ((_ & _ & Hvi & _) & L & Hh).
    constructor; try assumption.
    - repeat split; assumption.
    - rewrite Hvols'. exact Hvol.
    - split; [|split; assumption]. split; [exact Hnf'|]. split; [exact Hc'|].
      split; [rewrite Hvols'; exact Hvi|]. intros k _. apply Hwf'.
    - destruct Hchain as [(A1 & (fu & A2) & A3)|A]; [left|right; exact A].
      split; [exact A1|]. split; [exists fu; exact (Hch' fu A1 A2)|exact A3].
    - rewrite Hbytes, Hb'. reflexivity.
  Qed.

  (* the clusters of the chain of an open file are data clusters *)
  Lemma file_rep_chain_range w h s af fi f vi v ch : file_rep fsz w h s af fi f vi v ch ->
    Forall (fun x => 2 <= x /\ x < v_clusters v + 2) ch.
  Proof.
    intros R. destruct (fr_chain _ _ _ _ _ _ _ _ _ _ R) as [(_ & (fu & A2) & _)|(_ & -> & _)].
    - exact (chain_of_range _ _ _ _ _ A2).
    - constructor.
  Qed.
End Frames.

(* ================================================================== 2. what a flush touches *)
(* the directory slot of an open file, as flush_file needs it: the time stamps can be encoded
   (true of every decoded entry and of every clock value), the name has 11 bytes, the slot
   lies in its block, and that block is no sector of the FAT *)
Record slot_ok (v : vol) (e : dirent) : Prop := mk_slot_ok {
  so_ctime : ts_ok (e_ctime e);
  so_mtime : ts_ok (e_mtime e);
  so_name : length (e_name e) = 11%nat;
  so_off : e_offset e + 32 <= 512;
  so_nfat : ~ fat_area v (e_block e)
}.

(* FAT32: the information sector is neither a FAT sector nor a data block *)
Definition info_ok (v : vol) : Prop :=
  v_fat32 v = true -> ~ fat_area v (v_info v) /\ forall c, 2 <= c -> ~ In (v_info v) (cluster_blocks v c).

(* it lies before the data area on every volume the mount code accepts *)
Lemma info_ok_intro v : (v_fat32 v = true -> ~ fat_area v (v_info v) /\ v_info v < v_lba v + v_first_data v) ->
  info_ok v.
Proof.
  intros H E. destruct (H E) as [H1 H2]. split; [exact H1|]. intros c Hc Hin.
  destruct (In_cluster_blocks _ _ _ Hin) as (k & _ & Ek). unfold cluster_first_block in Ek.
  remember ((c - 2) * v_spc v) as X. lia.
Qed.

(* the block is not a data block of the chain *)
Definition blk_apart (v : vol) (blk : N) (ch : list N) : Prop := ~ In blk (data_blocks v ch).

(* slot_apart: the block of the directory slot of e is not a data block of any chain of the set *)
Definition slot_apart (v : vol) (e : dirent) (chains : list (list N)) : Prop :=
  forall ch, In ch chains -> blk_apart v (e_block e) ch.

(* the effect of flush_file through a record with entry e on the rest of the state (and of
   any other rewrite of the directory slot of e): the tables are untouched, the device still
   works, and only the block of the slot and - FAT32 - the information sector may differ *)
Definition flush_eff (v : vol) (e : dirent) (s s' : st) : Prop :=
  same_tables s s' /\ no_faults s' /\ cache_ok s' /\ blocks_wf (s_disk s') /\
  forall j, j <> e_block e -> (v_fat32 v = true -> j <> v_info v) ->
            disk_get (s_disk s') j = disk_get (s_disk s) j.

(* the information-sector step always runs (working device), and keeps 512-byte blocks *)
Lemma info_step_exists s vi v : no_faults s -> cache_ok s -> nth_error (s_vols s) vi = Some v ->
  blocks_wf (s_disk s) -> exists s1, info_step s vi v s1 /\ blocks_wf (s_disk s1).
Proof.
  intros Hnf Hc Hv Hwf.
  destruct (v_fat32 v) eqn:E32.
  2:{ exists s. split; [apply info_step_none; auto|exact Hwf]. }
  destruct (v_free v) as [fc|] eqn:Ef.
  2:{ destruct (v_next_free v) as [nx|] eqn:En.
      2:{ exists s. split; [apply info_step_none; auto|exact Hwf]. }
      destruct (update_info_sector_spec vi s v Hnf Hc Hv E32 ltac:(right; congruence) (Hwf _))
        as (s1 & nb & Hrun & Hd & _ & Hfr & Hlen & _ & _ & _ & _ & Hc1 & Hnf1 & Hm & _).
      exists s1. split.
      - split; [exact Hrun|]. repeat (split; [assumption|]).
        intros [H|[_ H]]; congruence.
      - intros i. destruct (N.eq_dec i (v_info v)) as [->|Hne].
        + rewrite Hd, disk_get_set_same. exact Hlen.
        + rewrite Hfr by exact Hne. apply Hwf. }
  destruct (update_info_sector_spec vi s v Hnf Hc Hv E32 ltac:(left; congruence) (Hwf _))
    as (s1 & nb & Hrun & Hd & _ & Hfr & Hlen & _ & _ & _ & _ & Hc1 & Hnf1 & Hm & _).
  exists s1. split.
  - split; [exact Hrun|]. repeat (split; [assumption|]).
    intros [H|[H _]]; congruence.
  - intros i. destruct (N.eq_dec i (v_info v)) as [->|Hne].
    + rewrite Hd, disk_get_set_same. exact Hlen.
    + rewrite Hfr by exact Hne. apply Hwf.
Qed.

Section Flush.
  Variable fsz : N.

  (* flush of an open file: always Ok; not dirty - nothing happens; dirty - the information
     sector step, then the slot of the file is rewritten *)
  Lemma flush_run w h s af fi f vi v ch :
    file_rep fsz w h s af fi f vi v ch -> slot_ok v (f_entry f) ->
    exists s', flush_file h s = (Ok tt, s') /\ flush_eff v (f_entry f) s s'.
  Proof.
    intros R [Hct Hmt Hname Hoff _].
    pose proof R as [Hres Hvol Hpre Hfit Hspc Hwf Hchain _ Hsize _ _ _ _].
    destruct Hpre as ((Hnf & Hc & Hvi & _) & _ & _).
    destruct (f_dirty f) eqn:Hd.
    2:{ exists s. split; [exact (flush_file_clean s h fi f Hres Hd)|].
        split; [exact (proj1 (same_mgr_tables _ _ (same_mgr_refl s)))|].
        repeat (split; [assumption|]). intros j _ _. reflexivity. }
    destruct (info_step_exists s vi v Hnf Hc Hvi Hwf) as (s1 & Hinfo & Hwf1).
    assert (Hnp : e_size (f_entry f) = 0 \/ e_cluster (f_entry f) <> 0).
    { destruct Hchain as [(A1 & _)|(_ & -> & _)]; [right; clear - A1; lia|left].
      cbn [length] in Hsize. clear - Hsize. lia. }
    destruct (flush_file_spec s h fi f vi v s1 Hres Hd (conj Hvol Hvi) Hinfo Hnp Hct Hmt Hoff)
      as (s' & Hrun & Hd' & _ & Hfr & Hc' & Hnf' & Hm' & _).
    exists s'. split; [exact Hrun|]. split; [exact (proj1 (same_mgr_tables _ _ Hm'))|].
    split; [exact Hnf'|]. split; [exact Hc'|].
    split.
    - intros i. destruct (N.eq_dec i (e_block (f_entry f))) as [->|Hne].
      + rewrite Hd', disk_get_set_same. unfold put_entry. rewrite set_bytes_length; [apply Hwf1|].
        rewrite (ser_bytes_length _ _ Hname), (Hwf1 _). clear - Hoff. lia.
      + rewrite Hfr by exact Hne. apply Hwf1.
    - intros j Hj Hinfoj. rewrite Hfr by exact Hj.
      destruct Hinfo as (_ & _ & _ & _ & Hfr1 & Hsame).
      destruct (v_fat32 v) eqn:E32.
      + apply Hfr1. apply Hinfoj. reflexivity.
      + rewrite (Hsame (or_introl eq_refl)). reflexivity.
  Qed.

  (* the representation of an open file whose chain avoids the rewritten blocks survives *)
  Lemma file_rep_flush w2 h2 s s' af2 fi2 f2 vi v ch2 e :
    file_rep fsz w2 h2 s af2 fi2 f2 vi v ch2 -> flush_eff v e s s' ->
    ~ fat_area v (e_block e) -> info_ok v -> blk_apart v (e_block e) ch2 ->
    file_rep fsz w2 h2 s' af2 fi2 f2 vi v ch2.
  Proof.
    intros R (Hm & Hnf' & Hc' & Hwf' & Hfr) Hnfat Hinfo Hapart.
    pose proof (file_rep_chain_range fsz _ _ _ _ _ _ _ _ _ R) as Hrange.
    pose proof R as [(R1 & R2 & R3) _ _ _ _ _ _ _ _ _ _ _ _].
    destruct Hm as (M1 & _ & M3 & _ & M6 & _).
    apply (file_rep_move fsz w2 h2 s s' af2 fi2 f2 vi v ch2 fi2 R); try assumption; try congruence.
    - intros fu _ H. rewrite <- H. apply chain_of_ext. intros j Hj. apply Hfr.
      + intros ->. contradiction.
      + intros E ->. exact (proj1 (Hinfo E) Hj).
    - apply file_bytes_frame. intros j Hj. apply Hfr.
      + intros ->. exact (Hapart Hj).
      + intros E ->. unfold data_blocks in Hj. apply in_flat_map in Hj. destruct Hj as (c & Hc & Hj).
        rewrite Forall_forall in Hrange. exact (proj2 (Hinfo E) c (proj1 (Hrange c Hc)) Hj).
  Qed.

  (* 1. C01, flush: on the representation.  The member at position i0 is flushed: the call
     returns Ok and EVERY member - the flushed one included - keeps its representation, hence
     its abstract state.  slot_apart: the block of the flushed file's directory slot is not a
     data block of any member's chain. *)
  Theorem C01_flush_keeps_rep s vi v m rs i0 h w af fi f ch :
    files_rep fsz s vi v m rs -> nth_error m i0 = Some (h, w, af) -> nth_error rs i0 = Some (fi, f, ch) ->
    slot_ok v (f_entry f) -> info_ok v -> slot_apart v (f_entry f) (map r_chain rs) ->
    exists s', run_op (Flush h) s = (Ok RUnit, s') /\ flush_eff v (f_entry f) s s' /\
               files_rep fsz s' vi v m rs.
  Proof.
    intros (F & Hdisj & Hnd) Hi0 Hr0 Hslot Hinfo Hapart0.
    assert (Hapart : forall r, In r rs -> blk_apart v (e_block (f_entry f)) (r_chain r))
      by (intros r Hr; apply Hapart0; apply in_map; exact Hr).
    destruct (Forall2_nth_l _ _ _ F i0 _ Hi0) as (r0 & Hr0' & R0). rewrite Hr0 in Hr0'. injection Hr0' as <-.
    unfold member_rep in R0. cbn [m_wr m_handle m_af r_chain fst snd] in R0.
    destruct (flush_run w h s af fi f vi v ch R0 Hslot) as (s' & Hrun & Heff).
    exists s'. split; [exact (lift_ok' _ _ _ _ _ Hrun)|]. split; [exact Heff|].
    split; [|split; [exact Hdisj|exact Hnd]].
    apply (Forall2_impl_in _ _ _ _ F). intros [[h2 w2] af2] [[fi2 f2] ch2] _ Hin R2.
    unfold member_rep in *. cbn [m_wr m_handle m_af r_chain fst snd] in *.
    apply (file_rep_flush w2 h2 s s' af2 fi2 f2 vi v ch2 (f_entry f) R2 Heff (so_nfat _ _ Hslot) Hinfo).
    exact (Hapart _ Hin).
  Qed.
End Flush.

(* ================================================================== 3. close *)
(* SPEC side: the member with handle h leaves the set *)
Definition remove_member (h : N) (m : list member) : list member :=
  filter (fun x => negb (m_handle x =? h)) m.

(* the re-indexing that swap_remove at index fi performs on the file table: the record that was
   last moves to position fi; and the representations that remain *)
Definition reidx (fi last : nat) (r : frep) : frep :=
  (if Nat.eqb (fst (fst r)) last then fi else fst (fst r), snd (fst r), snd r).
Definition remove_rep (h : N) (fi last : nat) (rs : list frep) : list frep :=
  map (reidx fi last) (filter (fun r => negb (f_id (snd (fst r)) =? h)) rs).

Lemma r_chain_reidx fi last r : r_chain (reidx fi last r) = r_chain r.
Proof. reflexivity. Qed.

Lemma Forall2_map_r {A B C} (R : A -> C -> Prop) (g : B -> C) l1 l2 :
  Forall2 (fun a b => R a (g b)) l1 l2 -> Forall2 R l1 (map g l2).
Proof. induction 1; cbn [map]; constructor; assumption. Qed.

Lemma NoDup_map_filter {A} (g : A -> N) (q : A -> bool) l : NoDup (map g l) -> NoDup (map g (filter q l)).
Proof.
  induction l as [|x t IH]; intros H; [constructor|]. cbn [map] in H. inversion H as [|? ? Hn Ht]; subst.
  cbn [filter]. destruct (q x); [|exact (IH Ht)]. cbn [map]. constructor; [|exact (IH Ht)].
  intros Hin. apply Hn. apply in_map_iff in Hin. destruct Hin as (y & Ey & Hy).
  apply filter_In in Hy. rewrite <- Ey. apply in_map. exact (proj1 Hy).
Qed.

Lemma remove_member_handles h m : NoDup (map m_handle m) ->
  NoDup (map m_handle (remove_member h m)) /\ ~ In h (map m_handle (remove_member h m)) /\
  (forall x, In x (remove_member h m) <-> In x m /\ m_handle x <> h).
Proof.
  intros Hnd. split; [apply NoDup_map_filter; exact Hnd|]. split.
  - intros Hin. apply in_map_iff in Hin. destruct Hin as (x & Ex & Hx).
    apply filter_In in Hx. destruct Hx as [_ Hx]. rewrite Ex, N.eqb_refl in Hx. discriminate Hx.
  - intros x. unfold remove_member. rewrite filter_In. split; intros [H1 H2]; (split; [exact H1|]).
    + intros E. rewrite E, N.eqb_refl in H2. discriminate H2.
    + destruct (N.eqb_spec (m_handle x) h); [contradiction|reflexivity].
Qed.

Section Close.
  Variable fsz : N.

  (* removing the record of member h from the file table: the other members keep their
     representations, re-indexed *)
  Lemma files_rep_remove s vi v m rs i0 h w af fi f ch :
    files_rep fsz s vi v m rs -> nth_error m i0 = Some (h, w, af) -> nth_error rs i0 = Some (fi, f, ch) ->
    NoDup (map f_id (s_files s)) ->
    files_rep fsz (set_s_files s (swap_remove (s_files s) fi)) vi v (remove_member h m)
              (remove_rep h fi (length (s_files s) - 1) rs).
  Proof.
    intros (F & Hdisj & Hnd) Hi0 Hr0 Hndf.
    destruct (Forall2_nth_l _ _ _ F i0 _ Hi0) as (r0 & Hr0' & R0). rewrite Hr0 in Hr0'. injection Hr0' as <-.
    unfold member_rep in R0. cbn [m_wr m_handle m_af r_chain fst snd] in R0.
    pose proof (fr_res _ _ _ _ _ _ _ _ _ _ R0) as Q0. pose proof (resolves_id _ _ _ _ Q0) as Eid0.
    destruct Q0 as (Hl & _ & Hfi).
    assert (Hfilt : (fi < length (s_files s))%nat) by (apply nth_error_Some; congruence).
    set (last := (length (s_files s) - 1)%nat).
    set (s'' := set_s_files s (swap_remove (s_files s) fi)).
    assert (Hnd'' : NoDup (map f_id (s_files s''))) by (apply PrHandles.swap_remove_NoDup_map; exact Hndf).
    split; [|split].
    - unfold remove_member, remove_rep. apply Forall2_map_r.
      assert (Hkey : forall x r, member_rep fsz s vi v x r ->
                negb (m_handle x =? h) = negb (f_id (snd (fst r)) =? h)).
      { intros x r Rx. rewrite (resolves_id _ _ _ _ (fr_res _ _ _ _ _ _ _ _ _ _ Rx)). reflexivity. }
      apply (Forall2_impl_in _ _ _ _ (Forall2_filter _ _ _ _ _ F Hkey)).
      intros [[h2 w2] af2] [[fi2 f2] ch2] Hx _ R2. apply filter_In in Hx. destruct Hx as [_ Hx].
      unfold member_rep, reidx in *. cbn [m_wr m_handle m_af r_chain fst snd] in *.
      apply negb_true_iff, N.eqb_neq in Hx.
      pose proof (fr_res _ _ _ _ _ _ _ _ _ _ R2) as Q2. pose proof (resolves_id _ _ _ _ Q2) as Eid2.
      destruct Q2 as (_ & _ & Hfi2).
      assert (Hne : fi2 <> fi) by (intros ->; rewrite Hfi in Hfi2; congruence).
      assert (Hfi2lt : (fi2 < length (s_files s))%nat) by (apply nth_error_Some; congruence).
      set (fi2' := if Nat.eqb fi2 last then fi else fi2).
      assert (Hnth : nth_error (s_files s'') fi2' = Some f2).
      { unfold s''. cbn [s_files set_s_files]. rewrite PrHandles.swap_remove_nth.
        - unfold fi2'. destruct (Nat.eqb_spec fi2 last) as [E|E].
          + rewrite Nat.eqb_refl. fold last. rewrite <- E. exact Hfi2.
          + destruct (Nat.eqb_spec fi2 fi); [contradiction|exact Hfi2].
        - exact Hfilt.
        - unfold fi2'. fold last. destruct (Nat.eqb_spec fi2 last); unfold last in *; lia. }
      pose proof (fr_pre _ _ _ _ _ _ _ _ _ _ R2) as ((Hnf & Hc & _) & _).
      apply (file_rep_move fsz w2 h2 s s'' af2 fi2 f2 vi v ch2 fi2' R2); try assumption; try reflexivity.
      + rewrite <- Eid2. rewrite (find_idx_unique f_id _ fi2' 0 f2 Hnd'' Hnth). reflexivity.
      + exact (fr_wf _ _ _ _ _ _ _ _ _ _ R2).
      + intros fu _ H. exact H.
    - apply (fop_pairwise (fun a b => disjoint (r_chain a) (r_chain b))).
      { intros a b. apply disjoint_sym. }
      unfold remove_rep. apply fop_map; [intros a b H; exact H|]. apply fop_filter.
      apply pairwise_fop. exact Hdisj.
    - apply NoDup_map_filter. exact Hnd.
  Qed.

  (* 2. C01, close: on the representation.  close = flush, then the record leaves the table:
     Ok; the closed member leaves the set; every other member keeps its abstract state, its
     representation re-indexed as swap_remove dictates *)
  Theorem C01_close_removes_rep s vi v m rs i0 h w af fi f ch :
    files_rep fsz s vi v m rs -> nth_error m i0 = Some (h, w, af) -> nth_error rs i0 = Some (fi, f, ch) ->
    slot_ok v (f_entry f) -> info_ok v -> slot_apart v (f_entry f) (map r_chain rs) ->
    NoDup (map f_id (s_files s)) ->
    exists s1 s', run_op (CloseFile h) s = (Ok RUnit, s') /\ flush_file h s = (Ok tt, s1) /\
      flush_eff v (f_entry f) s s1 /\
      s' = set_s_files s1 (swap_remove (s_files s1) fi) /\
      files_rep fsz s' vi v (remove_member h m) (remove_rep h fi (length (s_files s) - 1) rs).
  Proof.
    intros FR Hi0 Hr0 Hslot Hinfo Hapart Hndf.
    pose proof FR as (F & _ & _).
    destruct (Forall2_nth_l _ _ _ F i0 _ Hi0) as (r0 & Hr0' & R0). rewrite Hr0 in Hr0'. injection Hr0' as <-.
    unfold member_rep in R0. cbn [m_wr m_handle m_af r_chain fst snd] in R0.
    destruct (flush_run fsz w h s af fi f vi v ch R0 Hslot) as (s1 & Hrun & Heff).
    destruct (C01_flush_keeps_rep fsz s vi v m rs i0 h w af fi f ch FR Hi0 Hr0 Hslot Hinfo Hapart)
      as (s1' & Hrun' & _ & FR1).
    unfold run_op in Hrun'. cbn [step] in Hrun'. rewrite (lift_ok' _ _ _ _ _ Hrun) in Hrun'.
    injection Hrun' as <-.
    pose proof Heff as (Hm & _).
    exists s1, (set_s_files s1 (swap_remove (s_files s1) fi)).
    split.
    { unfold run_op. cbn [step]. apply (lift_ok' (fun _ : unit => RUnit) (close_file h) s tt).
      destruct (fr_res _ _ _ _ _ _ _ _ _ _ R0) as (Hl & Hf & _).
      destruct Hm as (_ & _ & Hfiles & _ & Hlock & _).
      unfold close_file. rewrite (bind_ok _ _ _ _ _ (try_ok _ _ _ _ Hrun)).
      rewrite <- Hfiles in Hf.
      unfold locked, get_file_by_id, bind, get, modify, ret. rewrite Hlock, Hl, Hf. reflexivity. }
    split; [exact Hrun|]. split; [exact Heff|]. split; [reflexivity|].
    destruct Hm as (_ & _ & M3 & _).
    rewrite <- M3.
    apply (files_rep_remove s1 vi v m rs i0 h w af fi f ch FR1 Hi0 Hr0). rewrite M3. exact Hndf.
  Qed.
End Close.

(* ================================================================== 4. where directory slots live *)
(* "directory chains and file chains are disjoint": block blk is no data block at all (the root
   region of a FAT16 volume), or it is a block of a cluster c0 - of a directory - and the chain
   from c0 on shares no cluster with the chain of any member *)
Definition blk_home (s : st) (v : vol) (rs : list frep) (blk : N) : Prop :=
  (forall c, 2 <= c -> ~ In blk (cluster_blocks v c)) \/
  (exists c0 fu dch, In blk (cluster_blocks v c0) /\ chain_of (s_disk s) v c0 fu = Some dch /\
                     forall r, In r rs -> disjoint dch (r_chain r)).

(* ... hence blk is not a data block of any member's chain: slot_apart *)
Lemma blk_home_apart s v rs blk : blk_home s v rs blk ->
  forall r, In r rs -> Forall (fun x => 2 <= x /\ x < v_clusters v + 2) (r_chain r) ->
  blk_apart v blk (r_chain r).
Proof.
  intros Hhome r Hr Hrange Hin. unfold data_blocks in Hin. apply in_flat_map in Hin.
  destruct Hin as (c & Hc & Hin). rewrite Forall_forall in Hrange. pose proof (proj1 (Hrange c Hc)) as Hc2.
  destruct Hhome as [H|(c0 & fu & dch & Hb & Hch & Hdis)]; [exact (H c Hc2 Hin)|].
  destruct (chain_of_head _ _ _ _ _ Hch) as (H2 & _ & l' & ->).
  destruct (N.eq_dec c0 c) as [->|Hne].
  - exact (Hdis r Hr c (or_introl eq_refl) Hc).
  - exact (cluster_blocks_apart v c0 c blk blk Hne H2 Hc2 Hb Hin eq_refl).
Qed.

(* the cluster that holds a block, and the chain from it, are unique *)
Lemma blk_cluster_unique d v blk c1 c2 f1 f2 l1 l2 :
  In blk (cluster_blocks v c1) -> In blk (cluster_blocks v c2) ->
  chain_of d v c1 f1 = Some l1 -> chain_of d v c2 f2 = Some l2 -> c1 = c2 /\ l1 = l2.
Proof.
  intros B1 B2 H1 H2.
  destruct (chain_of_head _ _ _ _ _ H1) as (A1 & _). destruct (chain_of_head _ _ _ _ _ H2) as (A2 & _).
  destruct (N.eq_dec c1 c2) as [->|Hne].
  - split; [reflexivity|exact (chain_of_det _ _ _ _ _ _ _ H1 H2)].
  - exfalso. exact (cluster_blocks_apart v c1 c2 blk blk Hne A1 A2 B1 B2 eq_refl).
Qed.

(* the chain from a cluster of a chain is a part of that chain *)
Lemma chain_of_suffix d v : forall l c f c0, chain_of d v c f = Some l -> In c0 l ->
  exists f' l', chain_of d v c0 f' = Some l' /\ incl l' l.
Proof.
  induction l as [|a rest IH]; intros c f c0 H Hin; [destruct Hin|].
  destruct (chain_of_head _ _ _ _ _ H) as (_ & _ & l' & E). injection E as -> ->.
  destruct Hin as [<-|Hin].
  - exists f, (c :: l'). split; [exact H|apply incl_refl].
  - destruct (PrChain.chain_step _ _ _ _ _ H) as (_ & _ & Hst).
    destruct l' as [|n tl]; [destruct Hin|]. destruct Hst as (_ & _ & _ & _ & f' & Hn).
    destruct (IH n f' c0 Hn Hin) as (f'' & l'' & H1 & H2).
    exists f'', l''. split; [exact H1|]. intros y Hy. right. exact (H2 y Hy).
Qed.

(* a record of the set: its directory slot is well-formed and lives apart from the chains *)
Definition rec_ok (s : st) (v : vol) (rs : list frep) (r : frep) : Prop :=
  slot_ok v (f_entry (snd (fst r))) /\ blk_home s v rs (e_block (f_entry (snd (fst r)))).

(* the volume of the set, also when the set is empty *)
Definition lc_vol (fsz : N) (s : st) (vi : nat) (v : vol) : Prop :=
  s_lock s = false /\ alloc_pre s vi v fsz /\ clusters_fit v /\ 0 < v_spc v /\ blocks_wf (s_disk s) /\
  find_idx (fun w => v_id w =? v_id v) (s_vols s) 0 = Some vi.

(* the life-cycle invariant: PrMulti's files_rep, plus the slots, the volume, and no id twice
   in the file table (PrHandles.handles_ok provides the latter) *)
Definition lc_rep (fsz : N) (s : st) (vi : nat) (v : vol) (m : list member) (rs : list frep) : Prop :=
  files_rep fsz s vi v m rs /\ Forall (rec_ok s v rs) rs /\ lc_vol fsz s vi v /\ info_ok v /\
  NoDup (map f_id (s_files s)).
(* vid: the handle of the volume all members live on *)
Definition lc_inv (fsz vid : N) (s : st) (m : list member) : Prop :=
  exists vi v rs, lc_rep fsz s vi v m rs /\ v_id v = vid.

Lemma lc_inv_files_inv fsz vid s m : lc_inv fsz vid s m -> files_inv fsz s m.
Proof. intros (vi & v & rs & (FR & _) & _). exists vi, v, rs. exact FR. Qed.

Lemma lc_vol_of_rep fsz w h s af fi f vi v ch : file_rep fsz w h s af fi f vi v ch -> lc_vol fsz s vi v.
Proof.
  intros [(R1 & _ & _) Hvol Hpre Hfit Hspc Hwf _ _ _ _ _ _ _].
  repeat (split; [assumption|]).
  destruct Hpre as ((_ & _ & Hvi & _) & _).
  destruct (find_idx_nth _ _ _ _ Hvol) as (x & Hx & Hp). rewrite Nat.sub_0_r, Hvi in Hx. injection Hx as <-.
  apply N.eqb_eq in Hp. rewrite Hp. exact Hvol.
Qed.

Lemma files_rep_ranges fsz s vi v m rs : files_rep fsz s vi v m rs ->
  forall r, In r rs -> Forall (fun x => 2 <= x /\ x < v_clusters v + 2) (r_chain r).
Proof.
  intros (F & _) r Hr. destruct (In_nth_error _ _ Hr) as (i & Hi).
  destruct (Forall2_nth_r _ _ _ F i _ Hi) as (x & _ & Rx).
  exact (file_rep_chain_range fsz _ _ _ _ _ _ _ _ _ Rx).
Qed.

(* the hypotheses of the flush / close theorems, from the invariant *)
Lemma slot_apart_intro v e (rs : list frep) :
  (forall r, In r rs -> blk_apart v (e_block e) (r_chain r)) -> slot_apart v e (map r_chain rs).
Proof. intros H ch Hch. apply in_map_iff in Hch. destruct Hch as (r & <- & Hr). exact (H r Hr). Qed.

Lemma lc_rep_slot fsz s vi v m rs : lc_rep fsz s vi v m rs ->
  forall r, In r rs -> slot_ok v (f_entry (snd (fst r))) /\
    forall r2, In r2 rs -> blk_apart v (e_block (f_entry (snd (fst r)))) (r_chain r2).
Proof.
  intros (FR & Hok & _) r Hr. rewrite Forall_forall in Hok. destruct (Hok r Hr) as [H1 H2].
  split; [exact H1|]. intros r2 Hr2.
  exact (blk_home_apart s v rs _ H2 r2 Hr2 (files_rep_ranges fsz s vi v m rs FR r2 Hr2)).
Qed.

(* ================================================================== 5. the entry of a record under the operations of PrMulti *)
(* the fields of the in-memory entry that locate and describe the directory slot: name, creation
   time, block and offset never change; the modification time is kept or taken from the clock *)
Definition entry_kept (e e' : dirent) : Prop :=
  e_name e' = e_name e /\ e_ctime e' = e_ctime e /\ e_block e' = e_block e /\ e_offset e' = e_offset e /\
  (e_mtime e' = e_mtime e \/ exists k, e_mtime e' = clock_ts k).

Lemma entry_kept_refl e : entry_kept e e.
Proof. repeat split. left. reflexivity. Qed.

Lemma slot_ok_kept v e e' : entry_kept e e' -> slot_ok v e -> slot_ok v e'.
Proof.
  intros (E1 & E2 & E3 & E4 & E5) [H1 H2 H3 H4 H5]. constructor.
  - rewrite E2. exact H1.
  - destruct E5 as [->|(k & ->)]; [exact H2|]. apply ts_cal_ok, clock_ts_cal.
  - rewrite E1. exact H3.
  - rewrite E4. exact H4.
  - rewrite E3. exact H5.
Qed.

Lemma slot_ok_rebook v nf fc e : slot_ok v e -> slot_ok (vol_rebook v nf fc) e.
Proof. intros [H1 H2 H3 H4 H5]. constructor; assumption. Qed.

Section Entry.
  Variable fsz : N.

  Lemma run_entry_kept w h a s af fi f vi v ch o s' f' :
    file_rep fsz w h s af fi f vi v ch -> run_op (cop h a) s = (o, s') ->
    nth_error (s_files s') fi = Some f' -> entry_kept (f_entry f) (f_entry f').
  Proof.
    intros R Hrun Hf'.
    pose proof (file_rep_mw_pre _ _ _ _ _ _ _ _ _ _ R) as Hmw.
    pose proof R as [Hres Hvol Hpre Hfit Hspc Hwf Hchain Hoff Hsize H32 Hmode Hbytes Haoff].
    pose proof Hres as (R1 & R2 & R3).
    assert (Hsame : s' = s -> entry_kept (f_entry f) (f_entry f')).
    { intros ->. rewrite R3 in Hf'. injection Hf' as <-. apply entry_kept_refl. }
    assert (Hseek : forall (mm : M unit) oo, mm s = seek_result s fi f oo ->
              lift (fun _ => RUnit) mm s = (o, s') -> entry_kept (f_entry f) (f_entry f')).
    { intros mm [n|] Hm Hl; cbn [seek_result] in Hm.
      - rewrite (lift_ok' _ _ _ _ _ Hm) in Hl. injection Hl as _ <-.
        unfold PrSeek.upd_file in Hf'. cbn [s_files set_s_files] in Hf'.
        rewrite (ls_nth_same _ _ _ _ R3) in Hf'. injection Hf' as <-. apply entry_kept_refl.
      - rewrite (lift_err' _ _ _ _ _ Hm) in Hl. injection Hl as _ <-. apply Hsame. reflexivity. }
    unfold run_op in Hrun. destruct a as [n|data|x|x|z| | |]; cbn [cop step] in Hrun.
    - (* read *)
      destruct Hchain as [(A1 & (fuel0 & A2) & A3)|(A1 & -> & A3)].
      + destruct Hpre as ((Hnf & Hc & Hvi & Hlenf) & L & Hh).
        destruct (mgr_read_spec v (s_disk s) (e_cluster (f_entry f)) fuel0 ch (fl_vol v fsz L) Hspc A2
                    h n fi vi f s R1 R2 R3 Hvol Hvi eq_refl Hnf Hc Hwf eq_refl A3 Hoff Hsize H32)
          as (s'' & f'' & Hr & _ & Hfiles' & _ & (_ & _ & _ & I4 & _) & _).
        cbv zeta in Hr. rewrite (lift_ok' _ _ _ _ _ Hr) in Hrun. injection Hrun as _ <-.
        rewrite Hfiles', (ls_nth_same _ _ _ _ R3) in Hf'. injection Hf' as <-.
        rewrite I4. apply entry_kept_refl.
      + cbn [length] in Hsize.
        assert (E0 : f_offset f = e_size (f_entry f)) by (clear - Hsize Hoff; lia).
        rewrite (lift_ok' _ _ _ _ _ (mgr_read_at_eof h s fi f vi n Hres Hvol E0)) in Hrun.
        injection Hrun as _ <-. apply Hsame. reflexivity.
    - (* write *)
      destruct (mode_eqb (f_mode f) ReadOnly) eqn:Em.
      { rewrite (lift_err' _ _ _ _ _ (mgr_write_read_only h data s fi f vi R1 R2 R3 Hvol Em)) in Hrun.
        injection Hrun as _ <-. apply Hsame. reflexivity. }
      destruct (mgr_write_spec fsz h data s fi f vi v ch Hmw Em)
        as (o1 & s1 & Hr & [(-> & f1 & v1 & ch1 & Q)|[(-> & f1 & v1 & ch1 & k & Hk & Q & _)
                                                     |(-> & _ & _ & _ & Hfiles & _)]]).
      + rewrite (lift_ok' _ _ _ _ _ Hr) in Hrun. injection Hrun as _ <-.
        rewrite (mp_files _ _ _ _ _ _ _ _ _ _ _ _ _ _ Q), (ls_nth_same _ _ _ _ R3) in Hf'. injection Hf' as <-.
        rewrite (mp_entry _ _ _ _ _ _ _ _ _ _ _ _ _ _ Q). cbv zeta. unfold stamp.
        repeat split. right. exists (s_clock s). reflexivity.
      + rewrite (lift_err' _ _ _ _ _ Hr) in Hrun. injection Hrun as _ <-.
        rewrite (mp_files _ _ _ _ _ _ _ _ _ _ _ _ _ _ Q), (ls_nth_same _ _ _ _ R3) in Hf'. injection Hf' as <-.
        rewrite (mp_entry _ _ _ _ _ _ _ _ _ _ _ _ _ _ Q). cbv zeta.
        repeat split. left. reflexivity.
      + rewrite (lift_err' _ _ _ _ _ Hr) in Hrun. injection Hrun as _ <-.
        rewrite Hfiles, (ls_nth_same _ _ _ _ R3) in Hf'. injection Hf' as <-. apply entry_kept_refl.
    - exact (Hseek _ _ (file_seek_from_start_spec s h fi f x Hres) Hrun).
    - exact (Hseek _ _ (file_seek_from_end_spec s h fi f x Hres) Hrun).
    - exact (Hseek _ _ (file_seek_from_current_spec s h fi f z Hres) Hrun).
    - rewrite (lift_ok' _ _ _ _ _ (C01_file_length s h fi f Hres)) in Hrun.
      injection Hrun as _ <-. apply Hsame. reflexivity.
    - rewrite (lift_ok' _ _ _ _ _ (C01_file_offset s h fi f Hres)) in Hrun.
      injection Hrun as _ <-. apply Hsame. reflexivity.
    - rewrite (lift_ok' _ _ _ _ _ (C01_file_eof s h fi f Hres)) in Hrun.
      injection Hrun as _ <-. apply Hsame. reflexivity.
  Qed.
End Entry.

(* ================================================================== 6. the invariant under the operations of PrMulti *)
Lemma In_list_set_or {A} (l : list A) i x y : In y (list_set l i x) -> y = x \/ In y l.
Proof. apply In_list_set. Qed.

Lemma map_f_id_list_set (l : list fileinfo) fi f f' : nth_error l fi = Some f -> f_id f' = f_id f ->
  map f_id (list_set l fi f') = map f_id l.
Proof.
  intros Hfi E. rewrite map_list_set, E. apply list_set_same. rewrite nth_error_map, Hfi. reflexivity.
Qed.

Section StepInv.
  Variable fsz : N.

  (* PrMulti.files_rep_step with its witnesses made explicit: the record (fi, f, ch) at position
     i0 becomes (fi, f', ch'), with the effect step_eff on the rest *)
  Lemma files_rep_step_x s vi v m rs i0 h w af a fi f ch :
    files_rep fsz s vi v m rs -> nth_error m i0 = Some (h, w, af) -> nth_error rs i0 = Some (fi, f, ch) ->
    exists o s' af1 f' v' ch',
      run_op (cop h a) s = (o, s') /\ astep_rel w a af o af1 /\
      files_rep fsz s' vi v' (list_set m i0 (h, w, af1)) (list_set rs i0 (fi, f', ch')) /\
      step_eff vi v fi f ch s s' f' v' ch' /\ file_rep fsz w h s' af1 fi f' vi v' ch' /\
      (space_err o = true -> no_free (s_disk s') v').
  Proof.
    intros (F & Hdisj & Hnd) Hi0 Hr0.
    destruct (Forall2_nth_l _ _ _ F i0 _ Hi0) as (r0 & Hr0' & R0). rewrite Hr0 in Hr0'. injection Hr0' as <-.
    unfold member_rep in R0. cbn [m_wr m_handle m_af r_chain fst snd] in R0.
    destruct (rep_step fsz w h a s af fi f vi v ch R0) as (o & s' & af1 & f' & v' & ch' & Hrun & Hrel & R' & Eff & Hfull).
    exists o, s', af1, f', v', ch'.
    split; [exact Hrun|]. split; [exact Hrel|].
    split; [|split; [exact Eff|split; [exact R'|exact Hfull]]].
    pose proof R' as [(L' & _ & _) _ Hpre' _ _ Hwf' _ _ _ _ _ _ _].
    pose proof (proj2 (proj2 (fr_res _ _ _ _ _ _ _ _ _ _ R0))) as Hfi.
    assert (Hkeep : forall i x r, i <> i0 -> nth_error m i = Some x -> nth_error rs i = Some r ->
              member_rep fsz s vi v x r -> member_rep fsz s' vi v' x r /\ disjoint (r_chain r) ch').
    { intros i [[h2 w2] af2] [[fi2 f2] ch2] Hne Hx Hr R2.
      unfold member_rep in *. cbn [m_wr m_handle m_af r_chain fst snd] in *.
      assert (Hh : h2 <> h).
      { intros ->. apply Hne. exact (NoDup_handles_nth m Hnd i i0 _ _ Hx Hi0 eq_refl). }
      assert (Hfi2 : fi2 <> fi).
      { intros ->. apply Hh. pose proof (fr_res _ _ _ _ _ _ _ _ _ _ R2) as Q2.
        pose proof (fr_res _ _ _ _ _ _ _ _ _ _ R0) as Q0.
        rewrite <- (resolves_id _ _ _ _ Q2), <- (resolves_id _ _ _ _ Q0).
        destruct Q2 as (_ & _ & N2). rewrite Hfi in N2. congruence. }
      apply (other_rep_kept fsz w2 h2 s s' af2 fi2 f2 vi v ch2 fi f f' v' ch ch' R2 Hfi2 Hfi); try assumption.
      exact (Hdisj i i0 _ _ Hne Hr Hr0). }
    split; [|split].
    - apply (Forall2_list_set (member_rep fsz s vi v) (member_rep fsz s' vi v') m rs F i0).
      + exact R'.
      + intros i x r Hne Hx Hr Rx. exact (proj1 (Hkeep i x r Hne Hx Hr Rx)).
    - intros i j a0 b0 Hij Ha Hb.
      destruct (nth_error_list_set_cases _ _ _ _ _ Ha) as [(-> & ->)|(Hi & Ha')];
        destruct (nth_error_list_set_cases _ _ _ _ _ Hb) as [(-> & ->)|(Hj & Hb')].
      + contradiction.
      + destruct (Forall2_nth_r _ _ _ F j _ Hb') as (x & Hx & Rx).
        apply disjoint_sym. exact (proj2 (Hkeep j x b0 Hj Hx Hb' Rx)).
      + destruct (Forall2_nth_r _ _ _ F i _ Ha') as (x & Hx & Rx).
        exact (proj2 (Hkeep i x a0 Hi Hx Ha' Rx)).
      + exact (Hdisj i j a0 b0 Hij Ha' Hb').
    - rewrite map_list_set. cbn [m_handle fst].
      rewrite list_set_same; [exact Hnd|]. rewrite nth_error_map, Hi0. reflexivity.
  Qed.

  (* the home of a block survives the step: its directory chain shares no cluster with the
     chain that was written, so it is still a chain, and it avoids the clusters the write took *)
  Lemma blk_home_step s s' vi v v' rs i0 fi f f' ch ch' blk :
    step_eff vi v fi f ch s s' f' v' ch' -> nth_error rs i0 = Some (fi, f, ch) ->
    blk_home s v rs blk -> blk_home s' v' (list_set rs i0 (fi, f', ch')) blk.
  Proof.
    intros [(nf & fc & ->) _ _ _ Hoth] Hr0 [H|(c0 & fu & dch & Hb & Hch & Hdis)]; [left; exact H|right].
    destruct (Hoth c0 fu dch Hch (Hdis _ (nth_error_In _ _ Hr0))) as (O1 & _ & O3).
    exists c0, fu, dch. split; [exact Hb|]. split; [rewrite chain_of_rebook; exact O1|].
    intros r Hr. apply In_list_set_or in Hr. destruct Hr as [->|Hr]; [exact O3|exact (Hdis r Hr)].
  Qed.

  (* one operation of PrMulti on member h: the life-cycle invariant is kept *)
  Theorem lc_step s vi v m rs i0 h w af a :
    lc_rep fsz s vi v m rs -> nth_error m i0 = Some (h, w, af) ->
    exists o s' af1 v' rs',
      run_op (cop h a) s = (o, s') /\ astep_rel w a af o af1 /\
      lc_rep fsz s' vi v' (list_set m i0 (h, w, af1)) rs' /\ v_id v' = v_id v /\
      (space_err o = true -> no_free (s_disk s') v').
  Proof.
    intros (FR & Hok & Hvolctx & Hinfo & Hndf) Hi0.
    pose proof FR as (F & _ & _).
    destruct (Forall2_nth_l _ _ _ F i0 _ Hi0) as (((fi & f) & ch) & Hr0 & R0).
    unfold member_rep in R0. cbn [m_wr m_handle m_af r_chain fst snd] in R0.
    destruct (files_rep_step_x s vi v m rs i0 h w af a fi f ch FR Hi0 Hr0)
      as (o & s' & af1 & f' & v' & ch' & Hrun & Hrel & FR' & Eff & R' & Hfull).
    exists o, s', af1, v', (list_set rs i0 (fi, f', ch')).
    pose proof (se_vol _ _ _ _ _ _ _ _ _ _ Eff) as (nf & fc & Ev).
    split; [exact Hrun|]. split; [exact Hrel|]. split; [|split; [subst v'; reflexivity|exact Hfull]].
    pose proof (proj2 (proj2 (fr_res _ _ _ _ _ _ _ _ _ _ R'))) as Hf'.
    pose proof (run_entry_kept fsz w h a s af fi f vi v ch o s' f' R0 Hrun Hf') as Hkept.
    split; [exact FR'|]. split; [|split; [exact (lc_vol_of_rep fsz _ _ _ _ _ _ _ _ _ R')|split]].
    - rewrite Forall_forall in *. intros r Hr. apply In_list_set_or in Hr.
      destruct Hr as [->|Hr].
      + destruct (Hok _ (nth_error_In _ _ Hr0)) as [S1 S2]. unfold rec_ok in *. cbn [fst snd] in *.
        destruct Hkept as (K1 & K2 & K3 & K4 & K5).
        split.
        * subst v'. apply slot_ok_rebook.
          exact (slot_ok_kept v _ _ (conj K1 (conj K2 (conj K3 (conj K4 K5)))) S1).
        * rewrite K3. exact (blk_home_step s s' vi v v' rs i0 fi f f' ch ch' _ Eff Hr0 S2).
      + destruct (Hok r Hr) as [S1 S2]. split.
        * subst v'. apply slot_ok_rebook. exact S1.
        * exact (blk_home_step s s' vi v v' rs i0 fi f f' ch ch' _ Eff Hr0 S2).
    - subst v'. exact Hinfo.
    - rewrite (se_files _ _ _ _ _ _ _ _ _ _ Eff).
      rewrite (map_f_id_list_set _ fi f f' (proj2 (proj2 (fr_res _ _ _ _ _ _ _ _ _ _ R0)))
                 (se_id _ _ _ _ _ _ _ _ _ _ Eff)).
      exact Hndf.
  Qed.
End StepInv.

(* ================================================================== 7. flush and close, on the invariant *)
Lemma lc_vol_move fsz s s' vi v : lc_vol fsz s vi v ->
  s_lock s' = false -> s_vols s' = s_vols s -> no_faults s' -> cache_ok s' -> blocks_wf (s_disk s') ->
  lc_vol fsz s' vi v.
Proof.
  intros (_ & ((_ & _ & Hvi & _) & L & Hh) & Hfit & Hspc & _ & Hfind) Hl Hv Hnf Hc Hwf.
  split; [exact Hl|]. split.
  { split; [|split; assumption]. split; [exact Hnf|]. split; [exact Hc|].
    split; [rewrite Hv; exact Hvi|]. intros k _. apply Hwf. }
  repeat (split; [assumption|]). rewrite Hv. exact Hfind.
Qed.

(* the home of a block depends on the FAT and on the chains of the set only *)
Lemma blk_home_mono s s' v rs rs' blk : blk_home s v rs blk ->
  (forall x fu l, chain_of (s_disk s) v x fu = Some l -> chain_of (s_disk s') v x fu = Some l) ->
  (forall r', In r' rs' -> exists r, In r rs /\ incl (r_chain r') (r_chain r)) ->
  blk_home s' v rs' blk.
Proof.
  intros [H|(c0 & fu & dch & Hb & Hch & Hdis)] Hc Hsub; [left; exact H|right].
  exists c0, fu, dch. split; [exact Hb|]. split; [exact (Hc _ _ _ Hch)|].
  intros r' Hr' y Hy Hy'. destruct (Hsub r' Hr') as (r & Hr & Hincl). exact (Hdis r Hr y Hy (Hincl y Hy')).
Qed.

Lemma flush_eff_chains v e s s' : flush_eff v e s s' -> ~ fat_area v (e_block e) -> info_ok v ->
  forall x fu l, chain_of (s_disk s) v x fu = Some l -> chain_of (s_disk s') v x fu = Some l.
Proof.
  intros (_ & _ & _ & _ & Hfr) Hnfat Hinfo x fu l H. rewrite <- H. apply chain_of_ext.
  intros j Hj. apply Hfr.
  - intros ->. contradiction.
  - intros E ->. exact (proj1 (Hinfo E) Hj).
Qed.

Section Life.
  Variable fsz : N.

  Lemma lc_member s vi v m rs h : lc_rep fsz s vi v m rs -> In h (map m_handle m) ->
    exists i0 w af fi f ch, nth_error m i0 = Some (h, w, af) /\ nth_error rs i0 = Some (fi, f, ch) /\
      file_rep fsz w h s af fi f vi v ch.
  Proof.
    intros ((F & _) & _) Hin. destruct (m_find_member h m Hin) as (w & af & _ & Hm).
    destruct (In_nth_error _ _ Hm) as (i0 & Hi0).
    destruct (Forall2_nth_l _ _ _ F i0 _ Hi0) as (((fi & f) & ch) & Hr0 & R0).
    exists i0, w, af, fi, f, ch. split; [exact Hi0|]. split; [exact Hr0|exact R0].
  Qed.

  (* 1. C01, flush: Flush h of a member returns Ok, and the invariant holds for the SAME set -
     every member, the flushed one included, keeps its bytes and its offset *)
  Theorem C01_flush_keeps vid s m h : lc_inv fsz vid s m -> In h (map m_handle m) ->
    exists s', run_op (Flush h) s = (Ok RUnit, s') /\ lc_inv fsz vid s' m.
  Proof.
    intros (vi & v & rs & LR & Evid) Hin.
    destruct (lc_member s vi v m rs h LR Hin) as (i0 & w & af & fi & f & ch & Hi0 & Hr0 & R0).
    destruct (lc_rep_slot fsz s vi v m rs LR _ (nth_error_In _ _ Hr0)) as [Hslot Hapart].
    cbn [fst snd] in Hslot, Hapart.
    destruct LR as (FR & Hok & Hvolctx & Hinfo & Hndf).
    destruct (C01_flush_keeps_rep fsz s vi v m rs i0 h w af fi f ch FR Hi0 Hr0 Hslot Hinfo
                (slot_apart_intro _ _ _ Hapart)) as (s' & Hrun & Heff & FR').
    exists s'. split; [exact Hrun|]. exists vi, v, rs. split; [|exact Evid].
    pose proof Heff as ((M1 & _ & M3 & _ & M6 & _) & Hnf' & Hc' & Hwf' & _).
    split; [exact FR'|]. split; [|split; [|split; [exact Hinfo|rewrite M3; exact Hndf]]].
    - rewrite Forall_forall in *. intros r Hr. destruct (Hok r Hr) as [S1 S2]. split; [exact S1|].
      apply (blk_home_mono s s' v rs rs _ S2).
      + exact (flush_eff_chains v _ s s' Heff (so_nfat _ _ Hslot) Hinfo).
      + intros r' Hr'. exists r'. split; [exact Hr'|apply incl_refl].
    - apply (lc_vol_move fsz s s' vi v Hvolctx); try assumption.
      rewrite M6. exact (proj1 Hvolctx).
  Qed.

  (* 2. C01, close: CloseFile h of a member returns Ok, and the invariant holds for the set
     without h - every other member keeps its bytes and its offset (its index in the file table
     may have changed) *)
  Theorem C01_close_removes vid s m h : lc_inv fsz vid s m -> In h (map m_handle m) ->
    exists s', run_op (CloseFile h) s = (Ok RUnit, s') /\ lc_inv fsz vid s' (remove_member h m).
  Proof.
    intros (vi & v & rs & LR & Evid) Hin.
    destruct (lc_member s vi v m rs h LR Hin) as (i0 & w & af & fi & f & ch & Hi0 & Hr0 & R0).
    destruct (lc_rep_slot fsz s vi v m rs LR _ (nth_error_In _ _ Hr0)) as [Hslot Hapart].
    cbn [fst snd] in Hslot, Hapart.
    destruct LR as (FR & Hok & Hvolctx & Hinfo & Hndf).
    destruct (C01_close_removes_rep fsz s vi v m rs i0 h w af fi f ch FR Hi0 Hr0 Hslot Hinfo
                (slot_apart_intro _ _ _ Hapart) Hndf)
      as (s1 & s' & Hrun & _ & Heff & Es' & FR').
    exists s'. split; [exact Hrun|]. exists vi, v, (remove_rep h fi (length (s_files s) - 1) rs).
    split; [|exact Evid].
    pose proof Heff as ((M1 & _ & M3 & _ & M6 & _) & Hnf' & Hc' & Hwf' & _).
    split; [exact FR'|]. split; [|split; [|split; [exact Hinfo|]]].
    - rewrite Forall_forall in *. intros r' Hr'. unfold remove_rep in Hr'.
      apply in_map_iff in Hr'. destruct Hr' as (r & <- & Hr). apply filter_In in Hr. destruct Hr as [Hr _].
      destruct (Hok r Hr) as [S1 S2]. split; [exact S1|]. cbn [reidx fst snd].
      apply (blk_home_mono s s' v rs _ _ S2).
      + subst s'. cbn [s_disk set_s_files].
        exact (flush_eff_chains v _ s s1 Heff (so_nfat _ _ Hslot) Hinfo).
      + intros q' Hq'. unfold remove_rep in Hq'. apply in_map_iff in Hq'. destruct Hq' as (q & <- & Hq).
        apply filter_In in Hq. exists q. split; [exact (proj1 Hq)|apply incl_refl].
    - subst s'. apply (lc_vol_move fsz s _ vi v Hvolctx); cbn [s_lock s_vols s_disk set_s_files]; try assumption.
      rewrite M6. exact (proj1 Hvolctx).
    - subst s'. cbn [s_files set_s_files]. apply PrHandles.swap_remove_NoDup_map. rewrite M3. exact Hndf.
  Qed.
End Life.

(* ================================================================== 8. open: a record joins the set *)
Lemma NoDup_snoc {A} (l : list A) x : NoDup l -> ~ In x l -> NoDup (l ++ [x]).
Proof.
  induction l as [|a t IH]; intros Hnd Hx; cbn [app]; [constructor; [intros []|constructor]|].
  inversion Hnd as [|? ? Hn Ht]; subst. constructor.
  - rewrite in_app_iff. intros [H|[->|[]]]; [exact (Hn H)|apply Hx; left; reflexivity].
  - apply IH; [exact Ht|]. intros H. apply Hx. right. exact H.
Qed.

Section Push.
  Variable fsz : N.

  (* the state-level core of every successful open: the record nf is appended to the file table
     (and the handle counter advances).  nf's id is fresh, its chain ch shares no cluster with
     the chain of a member nor with the directory chain that holds a member's slot, and its
     own slot is well-formed and lives apart. *)
  Lemma lc_rep_push s vi v m rs nid nf w ch :
    lc_rep fsz s vi v m rs ->
    (forall g, In g (s_files s) -> f_id g <> f_id nf) ->
    f_vol nf = v_id v -> chain_ok s v nf ch ->
    f_offset nf <= e_size (f_entry nf) ->
    e_size (f_entry nf) <= N.of_nat (length ch) * bytes_per_cluster v ->
    e_size (f_entry nf) < U32 -> mode_eqb (f_mode nf) ReadOnly = negb w ->
    (forall r, In r rs -> disjoint ch (r_chain r)) ->
    (forall r, In r rs -> forall c0 fu dch, In (e_block (f_entry (snd (fst r)))) (cluster_blocks v c0) ->
       chain_of (s_disk s) v c0 fu = Some dch -> disjoint dch ch) ->
    slot_ok v (f_entry nf) ->
    blk_home s v ((length (s_files s), nf, ch) :: rs) (e_block (f_entry nf)) ->
    lc_rep fsz (set_s_files (set_s_next_id s nid) (s_files s ++ [nf])) vi v
      ((f_id nf, w, (firstn (N.to_nat (e_size (f_entry nf))) (file_bytes (s_disk s) v ch), f_offset nf)) :: m)
      ((length (s_files s), nf, ch) :: rs).
  Proof.
    intros ((F & Hdisj & Hnd) & Hok & Hvolctx & Hinfo & Hndf) Hfresh Hvolid Hchain Hoff Hsize H32 Hmode
           Hdis Hdirs Hslot Hhome.
    set (s' := set_s_files (set_s_next_id s nid) (s_files s ++ [nf])).
    pose proof Hvolctx as (Hl & Hpre & Hfit & Hspc & Hwf & Hfind).
    assert (Hvolctx' : lc_vol fsz s' vi v).
    { apply (lc_vol_move fsz s s' vi v Hvolctx); try reflexivity; try assumption.
      - exact (proj1 (proj1 Hpre)).
      - exact (proj1 (proj2 (proj1 Hpre))). }
    split; [split; [|split]|split; [|split; [exact Hvolctx'|split; [exact Hinfo|]]]].
    - constructor.
      + unfold member_rep. cbn [m_wr m_handle m_af r_chain fst snd].
        destruct Hvolctx' as (Hl' & Hpre' & _ & _ & Hwf' & Hfind').
        constructor; try assumption; try reflexivity.
        * split; [exact Hl'|]. unfold s'. cbn [s_files set_s_files]. split.
          -- rewrite (find_idx_app_new (fun g => f_id g =? f_id nf) (s_files s) nf 0); [reflexivity| |apply N.eqb_refl].
             intros x Hx. apply N.eqb_neq. exact (Hfresh x Hx).
          -- rewrite nth_error_app2 by lia. rewrite Nat.sub_diag. reflexivity.
        * rewrite Hvolid. exact Hfind'.
      + apply (Forall2_impl_in _ _ _ _ F). intros [[h2 w2] af2] [[fi2 f2] ch2] _ _ R2.
        unfold member_rep in *. cbn [m_wr m_handle m_af r_chain fst snd] in *.
        pose proof (fr_res _ _ _ _ _ _ _ _ _ _ R2) as (_ & Q2 & Q3).
        destruct Hvolctx' as (Hl' & ((Hnf' & Hc' & _) & _) & _ & _ & Hwf' & _).
        apply (file_rep_move fsz w2 h2 s s' af2 fi2 f2 vi v ch2 fi2 R2); try assumption; try reflexivity.
        * unfold s'. cbn [s_files set_s_files]. apply find_idx_app_l. exact Q2.
        * unfold s'. cbn [s_files set_s_files]. rewrite nth_error_app1; [exact Q3|].
          apply nth_error_Some. congruence.
        * intros fu _ H. exact H.
    - apply (fop_pairwise (fun a b => disjoint (r_chain a) (r_chain b))).
      { intros a b. apply disjoint_sym. }
      constructor; [|apply pairwise_fop; exact Hdisj].
      apply Forall_forall. intros r Hr. exact (Hdis r Hr).
    - cbn [map m_handle fst]. constructor; [|exact Hnd].
      intros Hin. apply in_map_iff in Hin. destruct Hin as (x & Ex & Hx).
      destruct (In_nth_error _ _ Hx) as (i & Hi).
      destruct (Forall2_nth_l _ _ _ F i _ Hi) as (r & _ & Rx).
      pose proof (fr_res _ _ _ _ _ _ _ _ _ _ Rx) as Qx. pose proof (resolves_id _ _ _ _ Qx) as Eid.
      destruct Qx as (_ & _ & Qn). apply (Hfresh _ (nth_error_In _ _ Qn)). congruence.
    - constructor.
      + split; [exact Hslot|].
        apply (blk_home_mono s s' v _ _ _ Hhome); [intros x fu l H; exact H|].
        intros r' Hr'. exists r'. split; [exact Hr'|apply incl_refl].
      + rewrite Forall_forall in *. intros r Hr. destruct (Hok r Hr) as [S1 S2]. split; [exact S1|].
        destruct S2 as [S2|(c0 & fu & dch & Hb & Hch & Hd)]; [left; exact S2|right].
        exists c0, fu, dch. split; [exact Hb|]. split; [exact Hch|].
        intros r' [<-|Hr']; [exact (Hdirs r Hr c0 fu dch Hb Hch)|exact (Hd r' Hr')].
    - unfold s'. cbn [s_files set_s_files]. rewrite map_app. apply NoDup_snoc; [exact Hndf|].
      cbn [map]. intros Hin. apply in_map_iff in Hin. destruct Hin as (g & Eg & Hg). exact (Hfresh g Hg Eg).
  Qed.

  (* a state with the same disk and tables (a directory lookup in between, the handle counter
     advanced, the clock read) satisfies the invariant as well *)
  Lemma lc_rep_same s s1 vi v m rs : lc_rep fsz s vi v m rs ->
    s_disk s1 = s_disk s -> s_vols s1 = s_vols s -> s_files s1 = s_files s -> s_lock s1 = s_lock s ->
    no_faults s1 -> cache_ok s1 -> lc_rep fsz s1 vi v m rs.
  Proof.
    intros ((F & Hdisj & Hnd) & Hok & Hvolctx & Hinfo & Hndf) Hd M1 M3 M6 Hnf1 Hc1.
    assert (Hwf1 : blocks_wf (s_disk s1)) by (rewrite Hd; exact (proj1 (proj2 (proj2 (proj2 (proj2 Hvolctx)))))).
    split; [split; [|split; assumption]|split; [|split; [|split; [exact Hinfo|rewrite M3; exact Hndf]]]].
    - apply (Forall2_impl_in _ _ _ _ F). intros [[h2 w2] af2] [[fi2 f2] ch2] _ _ R2.
      unfold member_rep in *. cbn [m_wr m_handle m_af r_chain fst snd] in *.
      pose proof (fr_res _ _ _ _ _ _ _ _ _ _ R2) as (Q1 & Q2 & Q3).
      apply (file_rep_move fsz w2 h2 s s1 af2 fi2 f2 vi v ch2 fi2 R2); try assumption; congruence.
    - rewrite Forall_forall in *. intros r Hr. destruct (Hok r Hr) as [S1 S2]. split; [exact S1|].
      apply (blk_home_mono s s1 v rs rs _ S2); [rewrite Hd; intros x fu l H; exact H|].
      intros r' Hr'. exists r'. split; [exact Hr'|apply incl_refl].
    - apply (lc_vol_move fsz s s1 vi v Hvolctx); try assumption. rewrite M6. exact (proj1 Hvolctx).
  Qed.

  Lemma lc_rep_ro s s1 vi v m rs : lc_rep fsz s vi v m rs -> ro_step s s1 -> lc_rep fsz s1 vi v m rs.
  Proof.
    intros LR (Hd & Hc1 & Hnf1 & (M1 & _ & M3 & _ & _ & M6 & _)).
    exact (lc_rep_same s s1 vi v m rs LR Hd M1 M3 M6 Hnf1 Hc1).
  Qed.
End Push.

(* ---- handles: determinism, and states with the same tables ---- *)
Lemma Ok_inj {A} (a b : A) : Ok a = Ok b -> a = b.
Proof. intros H. injection H as H. exact H. Qed.

Lemma resolves_det s h fi f fi' f' : resolves s h fi f -> resolves s h fi' f' -> fi = fi' /\ f = f'.
Proof.
  intros (_ & A1 & A2) (_ & B1 & B2). rewrite A1 in B1. injection B1 as <-. rewrite A2 in B2.
  injection B2 as <-. split; reflexivity.
Qed.

Lemma resolves_dir_move s s' d di dd vi v : PrModes.resolves s d di dd vi v ->
  s_lock s' = s_lock s -> s_dirs s' = s_dirs s -> s_vols s' = s_vols s ->
  PrModes.resolves s' d di dd vi v.
Proof.
  intros (Hl & H1 & H2 & H3 & H4) El Ed Ev.
  rewrite PrHandles.get_dir_by_id_eq in H1. rewrite PrHandles.get_dir_eq in H2.
  rewrite PrHandles.get_volume_by_id_eq in H3. rewrite PrHandles.get_vol_eq in H4.
  unfold PrModes.resolves.
  rewrite PrHandles.get_dir_by_id_eq, PrHandles.get_dir_eq, PrHandles.get_volume_by_id_eq, PrHandles.get_vol_eq.
  rewrite El, Ed, Ev. split; [exact Hl|].
  destruct (find_idx (fun d0 => d_id d0 =? d) (s_dirs s) 0) as [i|]; [|discriminate H1].
  injection H1 as ->.
  destruct (nth_error (s_dirs s) di) as [x|]; [|discriminate H2]. injection H2 as ->.
  destruct (find_idx (fun v0 => v_id v0 =? d_vol dd) (s_vols s) 0) as [j|]; [|discriminate H3].
  injection H3 as ->.
  destruct (nth_error (s_vols s) vi) as [y|]; [|discriminate H4]. injection H4 as ->.
  repeat split; reflexivity.
Qed.

(* the freshness hypothesis of the open theorems, from PrHandles' invariant *)
Lemma handles_ok_no_file age_max s : age_max < U32 -> PrHandles.handles_ok age_max s ->
  PrHandles.no_file (s_next_id s) s.
Proof.
  intros Ha (Hf & _) f Hin. apply (PrHandles.fresh_inv_distinct age_max s Ha Hf).
  unfold PrHandles.all_ids, PrHandles.fids. rewrite !in_app_iff. right. right. apply in_map. exact Hin.
Qed.

(* ================================================================== 9. open of an existing file *)
(* l shares no cluster with the chain of any open file of the set ... *)
Definition chain_free (s : st) (v : vol) (m : list member) (l : list N) : Prop :=
  forall h2 fi2 f2 fu ch2, In h2 (map m_handle m) -> resolves s h2 fi2 f2 ->
    chain_of (s_disk s) v (e_cluster (f_entry f2)) fu = Some ch2 -> disjoint l ch2.
(* ... nor with the chain from the cluster that holds the directory slot of an open file of the set *)
Definition dirs_free (s : st) (v : vol) (m : list member) (l : list N) : Prop :=
  forall h2 fi2 f2 c0 fu dch, In h2 (map m_handle m) -> resolves s h2 fi2 f2 ->
    In (e_block (f_entry f2)) (cluster_blocks v c0) -> chain_of (s_disk s) v c0 fu = Some dch -> disjoint dch l.
(* the directory whose blocks are bl: no FAT sectors; the root region of a FAT16 volume, or the
   blocks of a cluster chain that shares no cluster with ch nor with the chain of a member *)
Definition dir_home (s : st) (v : vol) (m : list member) (bl ch : list N) : Prop :=
  (forall j, In j bl -> ~ fat_area v j) /\
  ((forall j c, In j bl -> 2 <= c -> ~ In j (cluster_blocks v c)) \/
   (exists dch x fu, chain_of (s_disk s) v x fu = Some dch /\ bl = data_blocks v dch /\
                     disjoint dch ch /\ chain_free s v m dch)).

(* the chain of a directory entry: from its first cluster, or none *)
Definition entry_chain (d : disk) (v : vol) (e : dirent) (ch : list N) : Prop :=
  (2 <= e_cluster e /\ exists fu, chain_of d v (e_cluster e) fu = Some ch) \/ (e_cluster e < 2 /\ ch = []).

(* what the lookup returns is a well-formed slot of the directory *)
Lemma live_entry_ok d bl fat32 t : blocks_wf d -> In t (live_in_blocks d bl) ->
  let e := t_entry fat32 t in
  In (e_block e) bl /\ e_offset e + 32 <= 512 /\ length (e_name e) = 11%nat /\
  ts_ok (e_ctime e) /\ ts_ok (e_mtime e).
Proof.
  intros Hwf Hin. apply In_live in Hin. destruct Hin as (b & i & Hb & Hi & -> & _).
  unfold t_entry, get_entry. cbn [fst snd e_block e_offset e_name e_ctime e_mtime].
  split; [exact Hb|]. split; [clear - Hi; lia|].
  split; [|split; apply ts_from_fat_ok].
  rewrite firstn_length, slot_length; [reflexivity|]. rewrite (Hwf b). clear - Hi. lia.
Qed.

Section Open.
  Variable fsz : N.

  Lemma rep_record s vi v m rs r : files_rep fsz s vi v m rs -> In r rs ->
    exists h2 w2 af2, In h2 (map m_handle m) /\
      file_rep fsz w2 h2 s af2 (fst (fst r)) (snd (fst r)) vi v (r_chain r).
  Proof.
    intros (F & _) Hr. destruct (In_nth_error _ _ Hr) as (i & Hi).
    destruct (Forall2_nth_r _ _ _ F i _ Hi) as ([[h2 w2] af2] & Hx & Rx).
    exists h2, w2, af2. split; [|exact Rx].
    apply (in_map m_handle m (h2, w2, af2)). exact (nth_error_In _ _ Hx).
  Qed.

  Lemma chain_free_rep s vi v m rs l : files_rep fsz s vi v m rs -> chain_free s v m l ->
    forall r, In r rs -> disjoint l (r_chain r).
  Proof.
    intros FR Hfree r Hr. destruct (rep_record s vi v m rs r FR Hr) as (h2 & w2 & af2 & Hh2 & R2).
    destruct (fr_chain _ _ _ _ _ _ _ _ _ _ R2) as [(_ & (fu & A2) & _)|(_ & E & _)].
    - exact (Hfree h2 _ _ fu _ Hh2 (fr_res _ _ _ _ _ _ _ _ _ _ R2) A2).
    - rewrite E. intros y _ [].
  Qed.

  Lemma dirs_free_rep s vi v m rs l : files_rep fsz s vi v m rs -> dirs_free s v m l ->
    forall r, In r rs -> forall c0 fu dch, In (e_block (f_entry (snd (fst r)))) (cluster_blocks v c0) ->
      chain_of (s_disk s) v c0 fu = Some dch -> disjoint dch l.
  Proof.
    intros FR Hfree r Hr c0 fu dch Hb Hch.
    destruct (rep_record s vi v m rs r FR Hr) as (h2 & w2 & af2 & Hh2 & R2).
    exact (Hfree h2 _ _ c0 fu dch Hh2 (fr_res _ _ _ _ _ _ _ _ _ _ R2) Hb Hch).
  Qed.

  (* the volume the directory handle resolves to is the volume of the invariant *)
  Lemma lc_vol_same s vi v vi0 v0 d di dd : lc_vol fsz s vi0 v0 ->
    PrModes.resolves s d di dd vi v -> d_vol dd = v_id v0 -> vi = vi0 /\ v = v0.
  Proof.
    intros (_ & ((_ & _ & Hvi0 & _) & _) & _ & _ & _ & Hfind0) (_ & _ & _ & H3 & H4) E.
    rewrite PrHandles.get_volume_by_id_eq, E, Hfind0 in H3. injection H3 as <-.
    rewrite PrHandles.get_vol_eq, Hvi0 in H4. injection H4 as <-. split; reflexivity.
  Qed.

  (* the home of the slot of an entry found in a directory that lives apart *)
  Lemma dir_home_blk s vi v m rs bl ch fi nf blk : files_rep fsz s vi v m rs ->
    dir_home s v m bl ch -> In blk bl -> blk_home s v ((fi, nf, ch) :: rs) blk.
  Proof.
    intros FR (_ & [H|(dch & x & fu & Hch & -> & Hd1 & Hd2)]) Hb.
    - left. intros c Hc. exact (H blk c Hb Hc).
    - right. unfold data_blocks in Hb. apply in_flat_map in Hb. destruct Hb as (c0 & Hc0 & Hb).
      destruct (chain_of_suffix _ _ _ _ _ _ Hch Hc0) as (fu' & l' & Hl' & Hincl).
      exists c0, fu', l'. split; [exact Hb|]. split; [exact Hl'|].
      intros r [<-|Hr] y Hy; [exact (Hd1 y (Hincl y Hy))|].
      exact (chain_free_rep s vi v m rs dch FR Hd2 r Hr y (Hincl y Hy)).
  Qed.

  (* 3. C01, open of an existing file that is not open, mode ReadOnly / ReadWriteAppend /
     ReadWriteCreateOrAppend, through a directory handle of the volume of the set: the call
     returns the next handle, and the invariant holds for the set plus the new member, whose
     byte array is the first e_size bytes of the entry's chain and whose offset is 0 (the size,
     for the append modes).  The entry e is what the lookup finds (C06_find).
     Hypotheses about the medium: the entry's chain is a chain that can hold e_size bytes and
     shares no cluster with a member's chain (chain_free) nor with the directory chain of a
     member's slot (dirs_free); the directory lives apart (dir_home).  The new handle is fresh:
     no_file (s_next_id s) s, which PrHandles.handles_ok provides. *)
  Theorem C01_open_adds vid s m d di dd vi v name sfn md bl t ch :
    lc_inv fsz vid s m ->
    PrModes.resolves s d di dd vi v -> d_vol dd = vid ->
    is_full (s_files s) (s_maxf s) = false ->
    sfn_of_str name = Some sfn -> PrModes.dot_name sfn = false ->
    dir_blocks (s_disk s) v (d_cluster dd) = Some bl ->
    find (t_matches sfn) (live_in_blocks (s_disk s) bl) = Some t ->
    let e := t_entry (v_fat32 v) t in
    PrModes.open_refusal md (Ok e) (PrModes.is_open s (d_vol dd) e) = None ->
    md = ReadOnly \/ md = ReadWriteAppend \/ md = ReadWriteCreateOrAppend ->
    entry_chain (s_disk s) v e ch ->
    e_size e <= N.of_nat (length ch) * bytes_per_cluster v -> e_size e < U32 ->
    chain_free s v m ch -> dirs_free s v m ch -> dir_home s v m bl ch ->
    PrHandles.no_file (s_next_id s) s ->
    exists s', run_op (OpenFile d name md) s = (Ok (RHandle (s_next_id s)), s') /\
      lc_inv fsz vid s' ((s_next_id s, negb (mode_eqb md ReadOnly),
                          (firstn (N.to_nat (e_size e)) (file_bytes (s_disk s) v ch),
                           PrModes.start_offset md e)) :: m).
  Proof.
    intros (vi0 & v0 & rs & LR & Evid) Hres Hdvol Hfull Hsfn Hdot Hbl Hfind e Href Hmd Hech Hsize H32
           Hcf Hdf Hdh Hfresh.
    pose proof LR as (FR & Hok & Hvolctx & Hinfo & Hndf).
    destruct (lc_vol_same s vi v vi0 v0 d di dd Hvolctx Hres ltac:(congruence)) as [-> ->].
    pose proof Hvolctx as (Hl & ((Hnf & Hc & Hvi & _) & L & _) & _ & _ & Hwf & _).
    destruct (C06_find vi0 v0 (d_cluster dd) sfn s bl Hvi (fl_vol _ _ L) Hnf Hc Hbl)
      as (s1 & Hlook & Hro).
    rewrite Hfind in Hlook. fold e in Hlook.
    pose proof Hro as (Hd & Hc1 & Hnf1 & Hm). pose proof Hm as (M1 & _ & M3 & M4 & _).
    assert (Href1 : PrModes.open_refusal md (Ok e) (PrModes.is_open s1 (d_vol dd) e) = None).
    { unfold PrModes.is_open in *. rewrite M3. exact Href. }
    pose proof (PrModes.C07_open_existing_keep s d di dd vi0 v0 name sfn md e s1 Hres Hfull Hsfn Hdot
                  Hlook Href1 Hmd) as Hopen.
    rewrite M4 in Hopen.
    set (nf := mk_fileinfo (s_next_id s) (d_vol dd) 0 (e_cluster e) (PrModes.start_offset md e)
                           (solve_mode_variant md true) e false) in *.
    eexists. split; [unfold run_op; cbn [step]; exact (lift_ok' RHandle _ _ _ _ Hopen)|].
    exists vi0, v0, ((length (s_files s1), nf, ch) :: rs). split; [|exact Evid].
    pose proof (find_some _ _ Hfind) as [Hlive _].
    destruct (live_entry_ok (s_disk s) bl (v_fat32 v0) t Hwf Hlive) as (Eb & Eo & En & Ec & Emt).
    fold e in Eb, Eo, En, Ec, Emt.
    pose proof (lc_rep_push fsz s1 vi0 v0 m rs ((s_next_id s + 1) mod U32) nf (negb (mode_eqb md ReadOnly)) ch
                  (lc_rep_ro fsz s s1 vi0 v0 m rs LR Hro)) as P.
    cbn [f_id f_vol f_offset f_entry f_mode nf] in P. rewrite Hd in P. apply P; clear P.
    - intros g Hg. rewrite M3 in Hg. exact (Hfresh g Hg).
    - symmetry. exact (PrModes.resolves_vol_id _ _ _ _ _ _ Hres).
    - unfold chain_ok. cbn [f_entry f_cur_off f_cur_cluster nf]. rewrite Hd.
      destruct Hech as [(A1 & fu & A2)|(A1 & A2)]; [left|right].
      + split; [exact A1|]. split; [exists fu; exact A2|].
        destruct (chain_of_head _ _ _ _ _ A2) as (_ & _ & l' & ->).
        exists 0%nat. split; reflexivity.
      + split; [exact A1|]. split; [exact A2|exact A1].
    - destruct Hmd as [-> | [-> | ->]]; cbn [PrModes.start_offset]; lia.
    - exact Hsize.
    - exact H32.
    - destruct Hmd as [-> | [-> | ->]]; reflexivity.
    - exact (chain_free_rep s vi0 v0 m rs ch FR Hcf).
    - exact (dirs_free_rep s vi0 v0 m rs ch FR Hdf).
    - constructor; try assumption. exact (proj1 Hdh _ Eb).
    - apply (blk_home_mono s s1 v0 ((length (s_files s1), nf, ch) :: rs) _ _
               (dir_home_blk s vi0 v0 m rs bl ch _ nf _ FR Hdh Eb)).
      + rewrite Hd. intros x fu l H. exact H.
      + intros r' Hr'. exists r'. split; [exact Hr'|apply incl_refl].
  Qed.
End Open.

(* ================================================================== 9b. open that creates the file *)
Section Create.
  Variable fsz : N.

  (* a rewrite of one directory slot (flush_eff) whose block avoids the FAT and the chains of
     the set keeps the invariant, for the same set *)
  Lemma lc_rep_dir_write s s' vi v m rs e : lc_rep fsz s vi v m rs -> flush_eff v e s s' ->
    ~ fat_area v (e_block e) -> (forall r, In r rs -> blk_apart v (e_block e) (r_chain r)) ->
    lc_rep fsz s' vi v m rs.
  Proof.
    intros ((F & Hdisj & Hnd) & Hok & Hvolctx & Hinfo & Hndf) Heff Hnfat Hapart.
    pose proof Heff as ((M1 & _ & M3 & _ & M6 & _) & Hnf' & Hc' & Hwf' & _).
    split; [split; [|split; assumption]|split; [|split; [|split; [exact Hinfo|rewrite M3; exact Hndf]]]].
    - apply (Forall2_impl_in _ _ _ _ F). intros [[h2 w2] af2] [[fi2 f2] ch2] _ Hin R2.
      unfold member_rep in *. cbn [m_wr m_handle m_af r_chain fst snd] in *.
      exact (file_rep_flush fsz w2 h2 s s' af2 fi2 f2 vi v ch2 e R2 Heff Hnfat Hinfo (Hapart _ Hin)).
    - rewrite Forall_forall in *. intros r Hr. destruct (Hok r Hr) as [S1 S2]. split; [exact S1|].
      apply (blk_home_mono s s' v rs rs _ S2).
      + exact (flush_eff_chains v e s s' Heff Hnfat Hinfo).
      + intros r' Hr'. exists r'. split; [exact Hr'|apply incl_refl].
    - apply (lc_vol_move fsz s s' vi v Hvolctx); try assumption. rewrite M6. exact (proj1 Hvolctx).
  Qed.

  (* 3''. C01, open that creates: the name is not in the directory, the mode is one of the three
     creating modes, and the directory has a free slot (it does not have to grow): the call
     returns the next handle, and the invariant holds for the set plus a new member with no
     bytes at offset 0, open for writing.  The directory lives apart (dir_home). *)
  Theorem C01_open_creates vid s m d di dd vi v name sfn md bl blk off sl0 :
    lc_inv fsz vid s m ->
    PrModes.resolves s d di dd vi v -> d_vol dd = vid ->
    is_full (s_files s) (s_maxf s) = false ->
    sfn_of_str name = Some sfn -> length sfn = 11%nat -> PrModes.dot_name sfn = false ->
    dir_blocks (s_disk s) v (d_cluster dd) = Some bl ->
    find (t_matches sfn) (live_in_blocks (s_disk s) bl) = None ->
    creating md = true ->
    find nv (slots_of (s_disk s) bl) = Some (blk, off, sl0) ->
    dir_home s v m bl [] ->
    PrHandles.no_file (s_next_id s) s ->
    exists s', run_op (OpenFile d name md) s = (Ok (RHandle (s_next_id s)), s') /\
      lc_inv fsz vid s' ((s_next_id s, true, ([], 0)) :: m).
  Proof.
    intros (vi0 & v0 & rs & LR & Evid) Hres Hdvol Hfull Hsfn Hlen Hdot Hbl Hnone Hcr Hfree Hdh Hfresh.
    pose proof LR as (FR & Hok & Hvolctx & Hinfo & Hndf).
    destruct (lc_vol_same fsz s vi v vi0 v0 d di dd Hvolctx Hres ltac:(congruence)) as [-> ->].
    pose proof Hvolctx as (Hl & ((Hnf & Hc & Hvi & _) & L & _) & _ & _ & Hwf & _).
    (* the lookup *)
    destruct (C06_find vi0 v0 (d_cluster dd) sfn s bl Hvi (fl_vol _ _ L) Hnf Hc Hbl) as (s1 & Hlook & Hro).
    rewrite Hnone in Hlook.
    pose proof Hro as (Hd & Hc1 & Hnf1 & Hm). pose proof Hm as (M1 & M2 & M3 & M4 & _ & M6 & _).
    pose proof (lc_rep_ro fsz s s1 vi0 v0 m rs LR Hro) as LR1.
    (* the new slot *)
    pose proof (find_some _ _ Hfree) as [Hin _]. apply In_slots_of in Hin.
    destruct Hin as (b & i & Hb & Hi & Et). injection Et as -> -> _.
    assert (Hvi1 : nth_error (s_vols s1) vi0 = Some v0) by (rewrite M1; exact Hvi).
    destruct (write_new_directory_entry_spec vi0 v0 (d_cluster dd) sfn 0 CL_EMPTY s1 bl b (i * 32) sl0
                Hvi1 (fl_vol _ _ L) Hnf1 Hc1 ltac:(rewrite Hd; exact Hbl) ltac:(rewrite Hd; exact Hfree) Hlen
                ltac:(rewrite Hd; apply Hwf))
      as (s2 & Hwrite & Hd2 & _ & _ & _ & Hc2 & Hnf2 & _ & Htab2 & _).
    set (en := mk_dirent sfn (clock_ts (s_clock s1)) (clock_ts (s_clock s1)) 0 CL_EMPTY 0 b (i * 32)) in *.
    pose proof Htab2 as (T1 & T2 & T3 & T4 & T5 & _).
    set (nf := mk_fileinfo (s_next_id s) (d_vol dd) 0 CL_EMPTY 0 ReadWriteCreate en false).
    (* the run *)
    assert (Hopen : open_file_in_dir d name md s =
                    (Ok (s_next_id s), set_s_files (set_s_next_id s2 ((s_next_id s2 + 1) mod U32))
                                                   (s_files s2 ++ [nf]))).
    { pose proof (resolves_dir_move s s1 d di dd vi0 v0 Hres M6 M2 M1) as (_ & _ & _ & H3' & _).
      unfold open_file_in_dir. PrModes.open_prefix Hres Hfull Hsfn.
      unfold PrModes.dot_name in Hdot. rewrite Hdot.
      unfold bind at 1. unfold try. rewrite Hlook. rewrite Hcr, !PrModes.bind_ret.
      assert (Hmv : solve_mode_variant md false = ReadWriteCreate) by (destruct md; try discriminate; reflexivity).
      cbn [negb]. rewrite Hmv.
      rewrite (bind_ok _ _ _ _ _ H3'), (bind_ok _ _ _ _ _ Hwrite), (bind_ok _ _ _ _ _ (generate_spec s2)).
      unfold bind, push_file, modify, ret. rewrite T4, M4. reflexivity. }
    eexists. split; [unfold run_op; cbn [step]; exact (lift_ok' RHandle _ _ _ _ Hopen)|].
    exists vi0, v0, ((length (s_files s2), nf, []) :: rs). split; [|exact Evid].
    (* the directory block is rewritten: a flush_eff *)
    assert (Hblk : blk_home s v0 ((length (s_files s2), nf, []) :: rs) b)
      by exact (dir_home_blk fsz s vi0 v0 m rs bl [] _ nf b FR Hdh Hb).
    assert (Heff : flush_eff v0 en s1 s2).
    { split; [exact Htab2|]. split; [exact Hnf2|]. split; [exact Hc2|]. split.
      - intros j. rewrite Hd2, Hd. destruct (N.eq_dec j b) as [->|Hne].
        + rewrite disk_get_set_same, set_bytes_length; [apply Hwf|].
          rewrite (ser_bytes_length (v_fat32 v0) en Hlen), (Hwf b). clear - Hi. lia.
        + rewrite disk_get_set_other by congruence. apply Hwf.
      - intros j Hj _. rewrite Hd2. apply disk_get_set_other. cbn [e_block en] in Hj. congruence. }
    assert (Hnfat : ~ fat_area v0 (e_block en)) by exact (proj1 Hdh b Hb).
    assert (LR2 : lc_rep fsz s2 vi0 v0 m rs).
    { apply (lc_rep_dir_write s1 s2 vi0 v0 m rs en LR1 Heff Hnfat). intros r Hr.
      exact (blk_home_apart s v0 _ b Hblk r (or_intror Hr) (files_rep_ranges fsz s vi0 v0 m rs FR r Hr)). }
    pose proof (lc_rep_push fsz s2 vi0 v0 m rs ((s_next_id s2 + 1) mod U32) nf true [] LR2) as P.
    cbn [f_id f_vol f_offset f_entry f_mode nf e_size en length] in P. apply P; clear P.
    - intros g Hg. rewrite T3, M3 in Hg. exact (Hfresh g Hg).
    - symmetry. exact (PrModes.resolves_vol_id _ _ _ _ _ _ Hres).
    - right. split; [reflexivity|]. split; reflexivity.
    - reflexivity.
    - cbn. lia.
    - reflexivity.
    - reflexivity.
    - intros r _ y [].
    - intros r _ c0 fu dch _ _ y _ [].
    - constructor; cbn [en e_ctime e_mtime e_name e_offset e_block].
      + apply ts_cal_ok, clock_ts_cal.
      + apply ts_cal_ok, clock_ts_cal.
      + exact Hlen.
      + clear - Hi. lia.
      + exact Hnfat.
    - cbn [en e_block].
      apply (blk_home_mono s s2 v0 _ _ _ Hblk).
      + intros x fu l H. apply (flush_eff_chains v0 en s1 s2 Heff Hnfat Hinfo). rewrite Hd. exact H.
      + intros r' Hr'. exists r'. split; [exact Hr'|apply incl_refl].
  Qed.
End Create.

(* ================================================================== 9c. open that truncates the file *)
Lemma fat_updates_len v : forall l d, blocks_wf d ->
  Forall (fun p : N * block => length (snd p) = 512%nat) (PrChain.fat_updates v d l).
Proof.
  induction l as [|[y x] tl IH]; intros d Hwf; [constructor|].
  cbn [PrChain.fat_updates]. cbv zeta.
  assert (Hw : Forall (fun p : N * block => length (snd p) = 512%nat)
                 (map (fun i => (i, fat_put_block v (disk_get d (fat_sector v 0 y)) y x)) (fat_writes v y))).
  { apply Forall_map_const. intros i. cbn [snd]. apply fat_put_block_length. apply Hwf. }
  apply Forall_app. split; [exact Hw|]. apply IH. apply blocks_wf_apply; assumption.
Qed.

Section Truncate.
  Variable fsz : N.

  (* an effect on the volume that does not go through a record of the set: the FAT entries of
     the chain ch (and nothing a chain disjoint from ch depends on) change, the volume record is
     re-booked *)
  Record vol_eff (vi : nat) (v : vol) (ch : list N) (s s' : st) (v' : vol) : Prop := mk_vol_eff {
    ve_vol : exists nf fc, v' = vol_rebook v nf fc;
    ve_vols : s_vols s' = list_set (s_vols s) vi v';
    ve_files : s_files s' = s_files s;
    ve_lock : s_lock s' = s_lock s;
    ve_pre : alloc_pre s' vi v' fsz;
    ve_wf : blocks_wf (s_disk s');
    ve_others : forall x fu l, chain_of (s_disk s) v x fu = Some l -> disjoint l ch ->
                chain_of (s_disk s') v x fu = Some l /\
                file_bytes (s_disk s') v l = file_bytes (s_disk s) v l
  }.

  Lemma lc_rep_vol_eff s s' vi v v' m rs ch : lc_rep fsz s vi v m rs -> vol_eff vi v ch s s' v' ->
    (forall r, In r rs -> disjoint (r_chain r) ch) ->
    (forall r, In r rs -> forall c0 fu dch, In (e_block (f_entry (snd (fst r)))) (cluster_blocks v c0) ->
       chain_of (s_disk s) v c0 fu = Some dch -> disjoint dch ch) ->
    lc_rep fsz s' vi v' m rs.
  Proof.
    intros ((F & Hdisj & Hnd) & Hok & Hvolctx & Hinfo & Hndf) [(nf & fc & ->) Hvols Hfiles Hlock Hpre' Hwf' Hoth]
           Hdis Hdirs.
    pose proof Hvolctx as (Hl & ((_ & _ & Hvi & _) & _) & Hfit & Hspc & _ & Hfind).
    split; [split; [|split; assumption]|split; [|split; [|split; [exact Hinfo|rewrite Hfiles; exact Hndf]]]].
    - apply (Forall2_impl_in _ _ _ _ F). intros [[h2 w2] af2] [[fi2 f2] ch2] _ Hin R2.
      unfold member_rep in *. cbn [m_wr m_handle m_af r_chain fst snd] in *.
      pose proof (fr_res _ _ _ _ _ _ _ _ _ _ R2) as (Q1 & Q2 & Q3).
      pose proof (Hdis _ Hin) as Hd2. cbn [r_chain snd] in Hd2.
      apply (file_rep_transport fsz w2 h2 s s' af2 fi2 f2 vi v ch2 nf fc R2); try assumption; try congruence.
      + intros fu _ H. exact (proj1 (Hoth _ fu ch2 H Hd2)).
      + destruct (fr_chain _ _ _ _ _ _ _ _ _ _ R2) as [(_ & (fu & A2) & _)|(_ & -> & _)]; [|reflexivity].
        exact (proj2 (Hoth _ fu ch2 A2 Hd2)).
    - rewrite Forall_forall in *. intros r Hr. destruct (Hok r Hr) as [S1 S2].
      split; [apply slot_ok_rebook; exact S1|].
      destruct S2 as [S2|(c0 & fu & dch & Hb & Hch & Hd)]; [left; exact S2|right].
      exists c0, fu, dch. split; [exact Hb|]. split; [|exact Hd].
      rewrite chain_of_rebook. exact (proj1 (Hoth c0 fu dch Hch (Hdirs r Hr c0 fu dch Hb Hch))).
    - split; [congruence|]. split; [exact Hpre'|]. split; [exact Hfit|]. split; [exact Hspc|].
      split; [exact Hwf'|]. rewrite Hvols. apply (find_vol_set _ _ _ v); [exact Hfind|exact Hvi|reflexivity].
  Qed.

  (* truncate_cluster_chain on the chain of a directory entry: always Ok, with a vol_eff; the
     chain that remains is the first cluster alone *)
  Lemma trunc_run s vi v e ch : lc_vol fsz s vi v -> entry_chain (s_disk s) v e ch ->
    exists s' v' ch', truncate_cluster_chain vi (e_cluster e) s = (Ok tt, s') /\
      vol_eff vi v ch s s' v' /\ PrChain.same_tabs s s' /\ incl ch' ch /\
      ((2 <= e_cluster e /\ ch' = [e_cluster e] /\ exists fu, chain_of (s_disk s') v (e_cluster e) fu = Some ch') \/
       (e_cluster e < 2 /\ ch' = [])).
  Proof.
    intros (Hl & Hpre & Hfit & Hspc & Hwf & Hfind) [(A1 & fu & A2)|(A1 & ->)].
    2:{ exists s, v, []. split; [exact (PrChain.truncate_reserved vi _ s A1)|].
        pose proof Hpre as ((_ & _ & Hvi & _) & _).
        split; [|split; [apply PrChain.same_tabs_refl|split; [apply incl_refl|right; split; [exact A1|reflexivity]]]].
        constructor; try assumption; try reflexivity.
        - exists (v_next_free v), (v_free v). apply vol_rebook_self.
        - symmetry. apply list_set_same. exact Hvi.
        - intros x fu l H _. split; [exact H|reflexivity]. }
    pose proof Hpre as (Hst & L & Hh).
    destruct (chain_of_head _ _ _ _ _ A2) as (_ & C2 & rest & ->).
    set (c := e_cluster e) in *.
    destruct (PrChain.truncate_cluster_chain_effect vi v fsz s c rest fu L Hst A2) as (s' & Hrun & Heff).
    pose proof (PrChain.te_tabs _ _ _ _ _ _ _ Heff) as Htabs.
    pose proof Htabs as (_ & T2 & _ & _ & T5 & _).
    assert (Hother : forall y, 2 <= y -> y < v_clusters v + 2 -> ~ In y (c :: rest) ->
              fat_get (s_disk s') v 0 y = fat_get (s_disk s) v 0 y).
    { intros y Y1 Y2 Hy. apply (PrChain.te_other _ _ _ _ _ _ _ Heff).
      - exact (layout_sector v fsz y L Y2).
      - intros Hin. apply Hy. right. exact Hin.
      - intros ->. exfalso. apply Hy. left. reflexivity. }
    exists s', (PrChain.trunc_vol v rest), [c].
    split; [exact Hrun|]. split; [|split; [exact Htabs|split]].
    - constructor.
      + destruct rest as [|n tl]; [exists (v_next_free v), (v_free v); apply vol_rebook_self|].
        eexists. eexists. reflexivity.
      + exact (PrChain.te_vols _ _ _ _ _ _ _ Heff).
      + exact T2.
      + exact T5.
      + exact (PrChain.truncate_cluster_chain_keeps_pre vi v fsz s c rest fu s' Hpre A2 Hrun).
      + rewrite (tr_ext_disk _ _ _ (PrChain.te_trace _ _ _ _ _ _ _ Heff)).
        apply blocks_wf_apply; [exact Hwf|]. apply fat_updates_len. exact Hwf.
      + intros x fu' l Hl' Hdis.
        pose proof (chain_of_range _ _ _ _ _ Hl') as Rg. rewrite Forall_forall in Rg.
        split.
        * apply (PrChain.chain_of_frame _ _ _ _ _ _ Hl'). intros y Hy.
          exact (Hother y (proj1 (Rg y Hy)) (proj2 (Rg y Hy)) (Hdis y Hy)).
        * apply file_bytes_frame. intros j Hj. unfold data_blocks in Hj. apply in_flat_map in Hj.
          destruct Hj as (y & Hy & Hj). destruct (In_cluster_blocks _ _ _ Hj) as (q & _ & ->).
          apply (PrChain.te_frame _ _ _ _ _ _ _ Heff). intros copy k Hk E.
          exact (fat_sector_not_data v fsz copy k y q L Hk (proj1 (Rg y Hy)) (eq_sym E)).
    - intros y [<-|[]]. left. reflexivity.
    - left. split; [exact A1|]. split; [reflexivity|].
      destruct rest as [|n tl].
      + exists fu. apply (PrChain.chain_of_frame _ _ _ _ _ _ A2). intros y [<-|[]].
        apply (PrChain.te_other _ _ _ _ _ _ _ Heff); [exact (layout_sector v fsz c L C2)|intros []|reflexivity].
      + exists 1%nat. apply chain_single; [exact A1|exact C2|].
        rewrite fat_entry_get. apply (PrChain.te_head _ _ _ _ _ _ _ Heff). discriminate.
  Qed.
End Truncate.

Section OpenTruncate.
  Variable fsz : N.

  (* the chains that hold the slots of the set, after a step that keeps every chain disjoint
     from l: they are the chains they were, so they still avoid l *)
  Lemma dirs_after s s' v rs l :
    Forall (rec_ok s v rs) rs ->
    (forall r, In r rs -> forall c0 fu dch, In (e_block (f_entry (snd (fst r)))) (cluster_blocks v c0) ->
       chain_of (s_disk s) v c0 fu = Some dch -> disjoint dch l) ->
    (forall x fu dch, chain_of (s_disk s) v x fu = Some dch -> disjoint dch l ->
       chain_of (s_disk s') v x fu = Some dch) ->
    forall r, In r rs -> forall c0 fu dch, In (e_block (f_entry (snd (fst r)))) (cluster_blocks v c0) ->
       chain_of (s_disk s') v c0 fu = Some dch -> disjoint dch l.
  Proof.
    intros Hok Hd Htr r Hr c0 fu dch Hb Hch. rewrite Forall_forall in Hok.
    destruct (Hok r Hr) as (_ & [H|(c1 & fu1 & dch1 & Hb1 & Hch1 & _)]).
    - exfalso. destruct (chain_of_head _ _ _ _ _ Hch) as (A & _). exact (H c0 A Hb).
    - pose proof (Hd r Hr c1 fu1 dch1 Hb1 Hch1) as D1.
      pose proof (Htr c1 fu1 dch1 Hch1 D1) as Hch1'.
      destruct (blk_cluster_unique _ _ _ _ _ _ _ _ _ Hb Hb1 Hch Hch1') as [_ ->]. exact D1.
  Qed.

  (* 3'. C01, open of an existing file that is not open, mode ReadWriteTruncate /
     ReadWriteCreateOrTruncate: the call returns the next handle; the clusters after the first
     are freed, the entry is rewritten with size 0; the invariant holds for the set plus a new
     member with no bytes at offset 0 (its chain: the first cluster alone, or none).
     Hypotheses about the medium as for C01_open_adds, without any on the size. *)
  Theorem C01_open_truncates vid s m d di dd vi v name sfn md bl t ch :
    lc_inv fsz vid s m ->
    PrModes.resolves s d di dd vi v -> d_vol dd = vid ->
    is_full (s_files s) (s_maxf s) = false ->
    sfn_of_str name = Some sfn -> PrModes.dot_name sfn = false ->
    dir_blocks (s_disk s) v (d_cluster dd) = Some bl ->
    find (t_matches sfn) (live_in_blocks (s_disk s) bl) = Some t ->
    let e := t_entry (v_fat32 v) t in
    PrModes.open_refusal md (Ok e) (PrModes.is_open s (d_vol dd) e) = None ->
    md = ReadWriteTruncate \/ md = ReadWriteCreateOrTruncate ->
    entry_chain (s_disk s) v e ch ->
    chain_free s v m ch -> dirs_free s v m ch -> dir_home s v m bl ch ->
    PrHandles.no_file (s_next_id s) s ->
    exists s', run_op (OpenFile d name md) s = (Ok (RHandle (s_next_id s)), s') /\
      lc_inv fsz vid s' ((s_next_id s, true, ([], 0)) :: m).
  Proof.
    intros (vi0 & v0 & rs & LR & Evid) Hres Hdvol Hfull Hsfn Hdot Hbl Hfind e Href Hmd Hech Hcf Hdf Hdh Hfresh.
    pose proof LR as (FR & Hok & Hvolctx & Hinfo & Hndf).
    destruct (lc_vol_same fsz s vi v vi0 v0 d di dd Hvolctx Hres ltac:(congruence)) as [-> ->].
    pose proof Hvolctx as (Hl & ((Hnf & Hc & Hvi & _) & L & _) & _ & _ & Hwf & _).
    pose proof (PrModes.resolves_vol_id _ _ _ _ _ _ Hres) as Hvid.
    (* the lookup *)
    destruct (C06_find vi0 v0 (d_cluster dd) sfn s bl Hvi (fl_vol _ _ L) Hnf Hc Hbl) as (s1 & Hlook & Hro).
    rewrite Hfind in Hlook. fold e in Hlook.
    pose proof Hro as (Hd & Hc1 & Hnf1 & Hm). pose proof Hm as (M1 & M2 & M3 & M4 & _ & M6 & _).
    pose proof (find_some _ _ Hfind) as [Hlive _].
    destruct (live_entry_ok (s_disk s) bl (v_fat32 v0) t Hwf Hlive) as (Eb & Eo & En & Ec & Emt).
    fold e in Eb, Eo, En, Ec, Emt.
    (* the handle counter advances, the chain is cut *)
    set (sg := set_s_next_id s1 ((s_next_id s1 + 1) mod U32)).
    assert (LRg : lc_rep fsz sg vi0 v0 m rs) by (apply (lc_rep_same fsz s sg vi0 v0 m rs LR); assumption).
    assert (Hechg : entry_chain (s_disk sg) v0 e ch) by (unfold sg; cbn [s_disk set_s_next_id]; rewrite Hd; exact Hech).
    destruct (trunc_run fsz sg vi0 v0 e ch (proj1 (proj2 (proj2 LRg))) Hechg)
      as (s2 & v2 & ch' & Htr & Heffv & Htabs & Hincl & Hch').
    assert (Hdisg : s_disk sg = s_disk s) by exact Hd.
    pose proof (chain_free_rep fsz s vi0 v0 m rs ch FR Hcf) as Hfree.
    pose proof (dirs_free_rep fsz s vi0 v0 m rs ch FR Hdf) as Hdirs.
    assert (LR2 : lc_rep fsz s2 vi0 v2 m rs).
    { apply (lc_rep_vol_eff fsz sg s2 vi0 v0 v2 m rs ch LRg Heffv).
      - intros r Hr. apply disjoint_sym. exact (Hfree r Hr).
      - intros r Hr c0 fu dch Hb Hch. rewrite Hdisg in Hch. exact (Hdirs r Hr c0 fu dch Hb Hch). }
    pose proof Heffv as [(nf2 & fc2 & Ev2) Hvols2 Hfiles2 Hlock2 Hpre2 Hwf2 Hoth2].
    pose proof Htabs as (_ & T2 & T3 & _ & T5 & _).
    pose proof Hpre2 as ((Hnf2 & Hc2 & Hvi2 & _) & _).
    (* the clock is read, the entry is rewritten *)
    set (now := clock_ts (s_clock s2)).
    set (s3 := set_s_clock s2 (s_clock s2 + 1)).
    assert (LR3 : lc_rep fsz s3 vi0 v2 m rs) by (apply (lc_rep_same fsz s2 s3 vi0 v2 m rs LR2); try reflexivity; assumption).
    set (e' := set_e_mtime (set_e_size e 0) now).
    destruct (write_entry_to_disk_spec v2 e' s3 Hnf2 Hc2 Ec ltac:(apply ts_cal_ok, clock_ts_cal) Eo)
      as (s4 & Hwrite & Hd4 & _ & Hfr4 & _ & _ & Hc4 & Hnf4 & Hm4 & _).
    cbn [e_block e' set_e_mtime set_e_size] in Hd4, Hfr4.
    assert (Hnfat : ~ fat_area v0 (e_block e)) by exact (proj1 Hdh _ Eb).
    assert (Heff4 : flush_eff v2 e' s3 s4).
    { split; [exact (proj1 (same_mgr_tables _ _ Hm4))|]. split; [exact Hnf4|]. split; [exact Hc4|]. split.
      - intros j. rewrite Hd4. destruct (N.eq_dec j (e_block e)) as [->|Hne].
        + rewrite disk_get_set_same. unfold put_entry. rewrite set_bytes_length; [apply Hwf2|].
          rewrite (ser_bytes_length (v_fat32 v2) e' En). cbn [e_offset e' set_e_mtime set_e_size].
          change (s_disk s3) with (s_disk s2). rewrite (Hwf2 _). clear - Eo. lia.
        + rewrite disk_get_set_other by congruence. apply Hwf2.
      - intros j Hj _. apply Hfr4. exact Hj. }
    set (nf := set_f_entry (mk_fileinfo (s_next_id s) (d_vol dd) 0 (e_cluster e) 0 ReadWriteTruncate e false) e').
    pose proof (dir_home_blk fsz s vi0 v0 m rs bl ch (length (s_files s4)) nf _ FR Hdh Eb) as Hblk.
    subst v2.
    assert (Hinfo2 : info_ok (vol_rebook v0 nf2 fc2)) by exact Hinfo.
    assert (LR4 : lc_rep fsz s4 vi0 (vol_rebook v0 nf2 fc2) m rs).
    { apply (lc_rep_dir_write fsz s3 s4 vi0 _ m rs e' LR3 Heff4 Hnfat). intros r Hr.
      exact (blk_home_apart s v0 _ _ Hblk r (or_intror Hr) (files_rep_ranges fsz s vi0 v0 m rs FR r Hr)). }
    (* chains that avoid ch are the same at the end *)
    assert (Htransport : forall x fu dch, chain_of (s_disk s) v0 x fu = Some dch -> disjoint dch ch ->
              chain_of (s_disk s4) v0 x fu = Some dch).
    { intros x fu dch Hch Hdis. rewrite <- Hdisg in Hch.
      pose proof (proj1 (Hoth2 x fu dch Hch Hdis)) as H2.
      rewrite <- (chain_of_rebook _ v0 nf2 fc2).
      apply (flush_eff_chains _ e' s3 s4 Heff4 Hnfat Hinfo2). rewrite chain_of_rebook. exact H2. }
    (* the run *)
    assert (Hfiles4 : s_files s4 = s_files s).
    { destruct Hm4 as (_ & _ & F4 & _). rewrite F4. change (s_files s3) with (s_files s2).
      rewrite T2. exact M3. }
    assert (Hopen : open_file_in_dir d name md s = (Ok (s_next_id s), set_s_files s4 (s_files s4 ++ [nf]))).
    { assert (Href1 : PrModes.open_refusal md (Ok e) (PrModes.is_open s1 (d_vol dd) e) = None).
      { unfold PrModes.is_open in *. rewrite M3. exact Href. }
      assert (Htail : (truncate_cluster_chain vi0 (e_cluster e) ;;;
                       now0 <- get_timestamp ;;
                       v' <- get_vol vi0 ;;
                       write_entry_to_disk v' (set_e_mtime (set_e_size e 0) now0) ;;;
                       push_file (set_f_entry (mk_fileinfo (s_next_id s1) (d_vol dd) 0 (e_cluster e) 0
                                                           ReadWriteTruncate e false)
                                              (set_e_mtime (set_e_size e 0) now0)) ;;; ret (s_next_id s1)) sg
                      = (Ok (s_next_id s), set_s_files s4 (s_files s4 ++ [nf]))).
      { rewrite (bind_ok _ _ _ _ _ Htr), (bind_ok _ _ _ _ _ (get_timestamp_eq s2)).
        rewrite (bind_ok _ _ _ _ _ (get_vol_some vi0 _ s3 Hvi2)), (bind_ok _ _ _ _ _ Hwrite).
        unfold bind, push_file, modify, ret. rewrite M4. reflexivity. }
      unfold open_file_in_dir. PrModes.open_prefix Hres Hfull Hsfn.
      unfold PrModes.dot_name in Hdot. rewrite Hdot.
      unfold bind at 1. unfold try. rewrite Hlook.
      rewrite PrModes.bind_ret, (bind_ok _ _ _ _ _ (PrModes.file_is_open_eq _ _ _)), Hvid.
      cbn [PrModes.open_refusal] in Href1.
      destruct (PrModes.is_open s1 (d_vol dd) e) eqn:Hop; [discriminate|].
      destruct (mode_eqb md ReadWriteCreate) eqn:Hcm; [discriminate|].
      destruct (is_read_only (e_attr e) && negb (mode_eqb md ReadOnly)) eqn:Hr; [discriminate|].
      destruct (is_directory (e_attr e)) eqn:Hdd; [discriminate|].
      destruct Hmd as [-> | ->]; cbn [solve_mode_variant mode_eqb] in *;
        rewrite Hr, (bind_ok _ _ _ _ _ (PrModes.file_is_open_eq _ _ _)), Hop,
                (bind_ok _ _ _ _ _ (generate_spec s1)); exact Htail. }
    eexists. split; [unfold run_op; cbn [step]; exact (lift_ok' RHandle _ _ _ _ Hopen)|].
    exists vi0, (vol_rebook v0 nf2 fc2), ((length (s_files s4), nf, ch') :: rs). split; [|exact Evid].
    change (set_s_files s4 (s_files s4 ++ [nf]))
      with (set_s_files (set_s_next_id s4 (s_next_id s4)) (s_files s4 ++ [nf])).
    pose proof (lc_rep_push fsz s4 vi0 (vol_rebook v0 nf2 fc2) m rs (s_next_id s4) nf true ch' LR4) as P.
    cbn [f_id f_vol f_offset f_entry f_mode nf set_f_entry e_size e' set_e_mtime set_e_size] in P.
    apply P; clear P.
    - intros g Hg. rewrite Hfiles4 in Hg. exact (Hfresh g Hg).
    - symmetry. exact Hvid.
    - unfold chain_ok. cbn [f_entry f_cur_off f_cur_cluster nf set_f_entry e_cluster e' set_e_mtime set_e_size].
      destruct Hch' as [(A1 & -> & fu & A2)|(A1 & ->)]; [left|right; split; [exact A1|split; [reflexivity|exact A1]]].
      split; [exact A1|]. split; [|exists 0%nat; split; reflexivity].
      exists fu. apply (flush_eff_chains _ e' s3 s4 Heff4 Hnfat Hinfo2). rewrite chain_of_rebook. exact A2.
    - reflexivity.
    - cbn. lia.
    - reflexivity.
    - reflexivity.
    - intros r Hr y Hy. exact (Hfree r Hr y (Hincl y Hy)).
    - intros r Hr c0 fu dch Hb Hch y Hy Hy'. rewrite chain_of_rebook in Hch.
      exact (dirs_after s s4 v0 rs ch Hok Hdirs Htransport r Hr c0 fu dch Hb Hch y Hy (Hincl y Hy')).
    - constructor; cbn [e_ctime e_mtime e_name e_offset e_block e' set_e_mtime set_e_size].
      + exact Ec.
      + apply ts_cal_ok, clock_ts_cal.
      + exact En.
      + exact Eo.
      + exact Hnfat.
    - cbn [e_block e' set_e_mtime set_e_size].
      destruct Hblk as [H|(c0 & fu & dch & Hb & Hch & Hdis0)]; [left; exact H|right].
      exists c0, fu, dch. split; [exact Hb|].
      split; [rewrite chain_of_rebook; exact (Htransport c0 fu dch Hch (Hdis0 _ (or_introl eq_refl)))|].
      intros r [<-|Hr]; [|exact (Hdis0 r (or_intror Hr))].
      intros y Hy Hy'. exact (Hdis0 _ (or_introl eq_refl) y Hy (Hincl y Hy')).
  Qed.
End OpenTruncate.


(* ================================================================== 10. life-cycle histories *)
(* the calls of a history.  LOpen carries two ghost components that the SPEC side needs and the
   guard ties to the concrete state: the handle the call will return, and the contents of the
   file on the medium at that moment (None: no such file) *)
Inductive lop :=
  | LOp (h : N) (a : aop)            (* read / write / seek / length / offset / eof on handle h *)
  | LFlush (h : N)
  | LClose (h : N)
  | LOpen (d : N) (name : list N) (md : mode) (hn : N) (ob : option (list N)).

Definition lcop (o : lop) : op :=
  match o with
  | LOp h a => cop h a | LFlush h => Flush h | LClose h => CloseFile h
  | LOpen d name md _ _ => OpenFile d name md
  end.

Fixpoint lrun (ops : list lop) (s : st) : list (outcome res) * st :=
  match ops with
  | [] => ([], s)
  | o :: r => let '(x, s1) := run_op (lcop o) s in
              let '(os, s2) := lrun r s1 in (x :: os, s2)
  end.

(* SPEC side: the set of byte-array models.  An open adds a model holding the file's contents
   (nothing, for the truncating modes and for a file that is created), positioned at 0 or - the
   append modes - at the end; flush changes nothing; close drops the model *)
Definition truncating (md : mode) : bool :=
  match md with ReadWriteTruncate | ReadWriteCreateOrTruncate => true | _ => false end.
Definition appending (md : mode) : bool :=
  match md with ReadWriteAppend | ReadWriteCreateOrAppend => true | _ => false end.
Definition open_model (md : mode) (ob : option (list N)) : afile :=
  let bytes := match ob with Some b => if truncating md then [] else b | None => [] end in
  (bytes, if appending md then N.of_nat (length bytes) else 0).

Definition alstep (o : lop) (m : list member) : option (outcome res * list member) :=
  match o with
  | LOp h a => match m_find h m with
               | Some x => let '(r, af1) := astep (m_wr x) a (m_af x) in Some (r, upd_member h af1 m)
               | None => None
               end
  | LFlush h => Some (Ok RUnit, m)
  | LClose h => Some (Ok RUnit, remove_member h m)
  | LOpen d name md hn ob => Some (Ok (RHandle hn), (hn, negb (mode_eqb md ReadOnly), open_model md ob) :: m)
  end.

Fixpoint alrun (ops : list lop) (m : list member) : list (outcome res) * list member :=
  match ops with
  | [] => ([], m)
  | o :: r => match alstep o m with
              | Some (x, m1) => let '(os, m2) := alrun r m1 in (x :: os, m2)
              | None => ([], m)
              end
  end.

(* what an OpenFile call must find on the medium to be covered.
   open_keep: an existing file that is not open, mode ReadOnly / ReadWriteAppend /
   ReadWriteCreateOrAppend, with the hypotheses of C01_open_adds; the ghost contents are the
   first e_size bytes of its chain *)
Definition open_keep (fsz vid : N) (s : st) (m : list member) (d : N) (name : list N) (md : mode)
                     (ob : option (list N)) : Prop :=
  exists di dd vi v sfn bl t ch,
    PrModes.resolves s d di dd vi v /\ d_vol dd = vid /\
    is_full (s_files s) (s_maxf s) = false /\
    sfn_of_str name = Some sfn /\ PrModes.dot_name sfn = false /\
    dir_blocks (s_disk s) v (d_cluster dd) = Some bl /\
    find (t_matches sfn) (live_in_blocks (s_disk s) bl) = Some t /\
    let e := t_entry (v_fat32 v) t in
    PrModes.open_refusal md (Ok e) (PrModes.is_open s (d_vol dd) e) = None /\
    (md = ReadOnly \/ md = ReadWriteAppend \/ md = ReadWriteCreateOrAppend) /\
    entry_chain (s_disk s) v e ch /\
    e_size e <= N.of_nat (length ch) * bytes_per_cluster v /\ e_size e < U32 /\
    chain_free s v m ch /\ dirs_free s v m ch /\ dir_home s v m bl ch /\
    PrHandles.no_file (s_next_id s) s /\
    ob = Some (firstn (N.to_nat (e_size e)) (file_bytes (s_disk s) v ch)).

(* open_trunc: an existing file that is not open, mode ReadWriteTruncate /
   ReadWriteCreateOrTruncate, with the hypotheses of C01_open_truncates (whatever it holds) *)
Definition open_trunc (fsz vid : N) (s : st) (m : list member) (d : N) (name : list N) (md : mode)
                      (ob : option (list N)) : Prop :=
  exists di dd vi v sfn bl t ch,
    PrModes.resolves s d di dd vi v /\ d_vol dd = vid /\
    is_full (s_files s) (s_maxf s) = false /\
    sfn_of_str name = Some sfn /\ PrModes.dot_name sfn = false /\
    dir_blocks (s_disk s) v (d_cluster dd) = Some bl /\
    find (t_matches sfn) (live_in_blocks (s_disk s) bl) = Some t /\
    let e := t_entry (v_fat32 v) t in
    PrModes.open_refusal md (Ok e) (PrModes.is_open s (d_vol dd) e) = None /\
    (md = ReadWriteTruncate \/ md = ReadWriteCreateOrTruncate) /\
    entry_chain (s_disk s) v e ch /\
    chain_free s v m ch /\ dirs_free s v m ch /\ dir_home s v m bl ch /\
    PrHandles.no_file (s_next_id s) s /\
    exists b, ob = Some b.

(* open_create: no such name in the directory, a creating mode, a free slot in the directory,
   with the hypotheses of C01_open_creates *)
Definition open_create (fsz vid : N) (s : st) (m : list member) (d : N) (name : list N) (md : mode)
                       (ob : option (list N)) : Prop :=
  exists di dd vi v sfn bl blk off sl0,
    PrModes.resolves s d di dd vi v /\ d_vol dd = vid /\
    is_full (s_files s) (s_maxf s) = false /\
    sfn_of_str name = Some sfn /\ length sfn = 11%nat /\ PrModes.dot_name sfn = false /\
    dir_blocks (s_disk s) v (d_cluster dd) = Some bl /\
    find (t_matches sfn) (live_in_blocks (s_disk s) bl) = None /\
    creating md = true /\
    find nv (slots_of (s_disk s) bl) = Some (blk, off, sl0) /\
    dir_home s v m bl [] /\
    PrHandles.no_file (s_next_id s) s /\
    ob = None.

Definition open_covered (fsz vid : N) (s : st) (m : list member) (d : N) (name : list N) (md : mode)
                        (ob : option (list N)) : Prop :=
  open_keep fsz vid s m d name md ob \/ open_trunc fsz vid s m d name md ob \/
  open_create fsz vid s m d name md ob.

(* the guard of a call: its handle is open at that moment; an open is covered *)
Definition lguard (fsz vid : N) (o : lop) (s : st) (m : list member) : Prop :=
  match o with
  | LOp h _ | LFlush h | LClose h => In h (map m_handle m)
  | LOpen d name md hn ob => hn = s_next_id s /\ open_covered fsz vid s m d name md ob
  end.

Fixpoint lguards (fsz vid : N) (ops : list lop) (s : st) (m : list member) : Prop :=
  match ops with
  | [] => True
  | o :: r => lguard fsz vid o s m /\
              lguards fsz vid r (snd (run_op (lcop o) s))
                      (match alstep o m with Some (_, m1) => m1 | None => m end)
  end.

Section LHistory.
  Variable fsz vid : N.

  Lemma lc_inv_nodup s m : lc_inv fsz vid s m -> NoDup (map m_handle m).
  Proof. intros H. exact (files_inv_nodup fsz s m (lc_inv_files_inv fsz vid s m H)). Qed.

  (* one call of a history: unless a write runs out of clusters, the result is the SPEC side's
     and the invariant holds for the SPEC side's next set *)
  Theorem C01_lifecycle_step o s m : lc_inv fsz vid s m -> lguard fsz vid o s m ->
    exists x s', run_op (lcop o) s = (x, s') /\
      (space_err x = false -> exists m1, alstep o m = Some (x, m1) /\ lc_inv fsz vid s' m1).
  Proof.
    intros Hinv Hg. destruct o as [h a|h|h|d name md hn ob]; cbn [lguard lcop alstep] in *.
    - (* an operation of PrMulti *)
      destruct Hinv as (vi & v & rs & LR & Evid).
      destruct (m_find_member h m Hg) as (w & af & Hf & Hm).
      destruct (In_nth_error _ _ Hm) as (i0 & Hi0).
      destruct (lc_step fsz s vi v m rs i0 h w af a LR Hi0)
        as (x & s' & af1 & v' & rs' & Hrun & Hrel & LR' & Ev' & _).
      exists x, s'. split; [exact Hrun|]. intros Hsp.
      destruct (astep_rel_no_space w a af x af1 Hrel Hsp) as (-> & ->).
      rewrite Hf. cbn [m_wr m_af fst snd]. destruct (astep w a af) as [x1 af1'] eqn:Ea. cbn [fst snd] in *.
      exists (upd_member h af1' m). split; [reflexivity|].
      exists vi, v', rs'. split; [|congruence].
      rewrite (upd_member_list_set h af1' m i0 w af (proj2 (proj2 (proj1 LR))) Hi0). exact LR'.
    - (* flush *)
      destruct (C01_flush_keeps fsz vid s m h Hinv Hg) as (s' & Hrun & Hinv').
      exists (Ok RUnit), s'. split; [exact Hrun|]. intros _. exists m. split; [reflexivity|exact Hinv'].
    - (* close *)
      destruct (C01_close_removes fsz vid s m h Hinv Hg) as (s' & Hrun & Hinv').
      exists (Ok RUnit), s'. split; [exact Hrun|]. intros _.
      exists (remove_member h m). split; [reflexivity|exact Hinv'].
    - (* open *)
      destruct Hg as (-> & [Hk|[Ht|Hc]]).
      + destruct Hk as (di & dd & vi & v & sfn & bl & t & ch & G1 & G2 & G3 & G4 & G5 & G6 & G7 & G8 & G9 &
                        G10 & G11 & G12 & G13 & G14 & G15 & G16 & ->).
        destruct (C01_open_adds fsz vid s m d di dd vi v name sfn md bl t ch Hinv G1 G2 G3 G4 G5 G6 G7 G8 G9
                    G10 G11 G12 G13 G14 G15 G16) as (s' & Hrun & Hinv').
        exists (Ok (RHandle (s_next_id s))), s'. split; [exact Hrun|]. intros _.
        eexists. split; [reflexivity|].
        assert (Em : open_model md (Some (firstn (N.to_nat (e_size (t_entry (v_fat32 v) t)))
                                                 (file_bytes (s_disk s) v ch)))
                     = (firstn (N.to_nat (e_size (t_entry (v_fat32 v) t))) (file_bytes (s_disk s) v ch),
                        PrModes.start_offset md (t_entry (v_fat32 v) t))).
        { unfold open_model.
          assert (Hlen : N.of_nat (length (firstn (N.to_nat (e_size (t_entry (v_fat32 v) t)))
                                                 (file_bytes (s_disk s) v ch))) = e_size (t_entry (v_fat32 v) t)).
          { destruct Hinv as (vi0 & v0 & rs & (_ & _ & Hvolctx & _) & Evid).
            destruct (lc_vol_same fsz s vi v vi0 v0 d di dd Hvolctx G1 ltac:(congruence)) as [-> ->].
            destruct Hvolctx as (_ & _ & _ & _ & Hwf & _).
            rewrite firstn_length, (file_bytes_length _ _ _ Hwf).
            unfold bytes_per_cluster in G11. clear - G11. lia. }
          destruct G9 as [-> | [-> | ->]]; cbn [truncating appending PrModes.start_offset]; try rewrite Hlen; reflexivity. }
        rewrite Em. exact Hinv'.
      + destruct Ht as (di & dd & vi & v & sfn & bl & t & ch & G1 & G2 & G3 & G4 & G5 & G6 & G7 & G8 & G9 &
                        G10 & G13 & G14 & G15 & G16 & b & ->).
        destruct (C01_open_truncates fsz vid s m d di dd vi v name sfn md bl t ch Hinv G1 G2 G3 G4 G5 G6 G7 G8 G9
                    G10 G13 G14 G15 G16) as (s' & Hrun & Hinv').
        exists (Ok (RHandle (s_next_id s))), s'. split; [exact Hrun|]. intros _.
        eexists. split; [reflexivity|].
        replace (negb (mode_eqb md ReadOnly)) with true by (destruct G9 as [-> | ->]; reflexivity).
        replace (open_model md (Some b)) with (@nil N, 0) by (destruct G9 as [-> | ->]; reflexivity).
        exact Hinv'.
      + destruct Hc as (di & dd & vi & v & sfn & bl & blk & off & sl0 & G1 & G2 & G3 & G4 & G5 & G6 & G7 & G8 &
                        G9 & G10 & G11 & G12 & ->).
        destruct (C01_open_creates fsz vid s m d di dd vi v name sfn md bl blk off sl0 Hinv G1 G2 G3 G4 G5 G6 G7
                    G8 G9 G10 G11 G12) as (s' & Hrun & Hinv').
        exists (Ok (RHandle (s_next_id s))), s'. split; [exact Hrun|]. intros _.
        eexists. split; [reflexivity|].
        replace (negb (mode_eqb md ReadOnly)) with true by (destruct md; try discriminate G9; reflexivity).
        replace (open_model md None) with (@nil N, 0) by (destruct md; reflexivity).
        exact Hinv'.
  Qed.

  (* 4. C01 for life-cycle histories: for every finite sequence of opens (as covered), reads,
     writes, seeks, queries, flushes and closes in which every call is on a handle that is open
     at that moment (lguards) - as long as no write runs out of clusters - every call returns
     exactly what the SPEC side returns, and the invariant holds at the end for the SPEC side's
     final set of byte arrays *)
  Theorem C01_lifecycle_history : forall ops s m, lc_inv fsz vid s m -> lguards fsz vid ops s m ->
    existsb space_err (fst (lrun ops s)) = false ->
    fst (lrun ops s) = fst (alrun ops m) /\ lc_inv fsz vid (snd (lrun ops s)) (snd (alrun ops m)).
  Proof.
    induction ops as [|o r IH]; intros s m Hinv Hg Hsp; [split; [reflexivity|exact Hinv]|].
    cbn [lguards] in Hg. destruct Hg as [Hg1 Hg2].
    destruct (C01_lifecycle_step o s m Hinv Hg1) as (x & s1 & Hrun & Hstep).
    cbn [lrun alrun] in *. rewrite Hrun in *. cbn [snd] in Hg2.
    destruct (lrun r s1) as [os s2] eqn:Er. cbn [fst snd existsb] in Hsp.
    apply orb_false_iff in Hsp. destruct Hsp as [Hsp1 Hsp2].
    destruct (Hstep Hsp1) as (m1 & Ea & Hinv1). rewrite Ea in *.
    specialize (IH s1 m1 Hinv1 Hg2). rewrite Er in IH. cbn [fst snd] in IH.
    destruct (IH Hsp2) as (E1 & E2).
    destruct (alrun r m1) as [os' m2]. cbn [fst snd] in *.
    split; [f_equal; exact E1|exact E2].
  Qed.
End LHistory.

(* ---- histories without opens: the guard is a property of the calls alone ---- *)
(* every call is on a handle of the set that has not been closed before *)
Fixpoint lwf (ops : list lop) (hs : list N) : Prop :=
  match ops with
  | [] => True
  | LOp h _ :: r => In h hs /\ lwf r hs
  | LFlush h :: r => In h hs /\ lwf r hs
  | LClose h :: r => In h hs /\ lwf r (filter (fun x => negb (x =? h)) hs)
  | LOpen _ _ _ _ _ :: _ => False
  end.

Lemma remove_member_map h m :
  map m_handle (remove_member h m) = filter (fun x => negb (x =? h)) (map m_handle m).
Proof.
  induction m as [|x t IH]; [reflexivity|]. cbn [remove_member filter map].
  destruct (negb (m_handle x =? h)); cbn [map]; fold (remove_member h t); rewrite IH; reflexivity.
Qed.

Lemma lwf_guards fsz vid : forall ops m s, lwf ops (map m_handle m) -> lguards fsz vid ops s m.
Proof.
  induction ops as [|o r IH]; intros m s H; [exact I|].
  destruct o as [h a|h|h|d name md hn ob]; cbn [lwf lguards lguard alstep] in *; try contradiction;
    destruct H as [H1 H2]; (split; [exact H1|]).
  - destruct (m_find_member h m H1) as (w & af & -> & _). cbn [m_wr m_af fst snd].
    destruct (astep w a af) as [x af1]. apply IH. rewrite upd_member_handles. exact H2.
  - apply IH. exact H2.
  - apply IH. rewrite remove_member_map. exact H2.
Qed.

Corollary C01_lifecycle_history_closed fsz vid ops s m :
  lc_inv fsz vid s m -> lwf ops (map m_handle m) ->
  existsb space_err (fst (lrun ops s)) = false ->
  fst (lrun ops s) = fst (alrun ops m) /\ lc_inv fsz vid (snd (lrun ops s)) (snd (alrun ops m)).
Proof.
  intros Hinv Hwf. apply (C01_lifecycle_history fsz vid ops s m Hinv). apply lwf_guards. exact Hwf.
Qed.

(* ================================================================== 11. close, then open again *)
Section Reopen.
  Variable fsz : N.

  (* from the representation back to the state-level conditions *)
  Lemma chain_free_of_rep s vi v m rs l : files_rep fsz s vi v m rs ->
    (forall r, In r rs -> disjoint l (r_chain r)) -> chain_free s v m l.
  Proof.
    intros (F & _) H h2 fi2 f2 fu ch2 Hin Hres Hch.
    destruct (m_find_member h2 m Hin) as (w2 & af2 & _ & Hm).
    destruct (In_nth_error _ _ Hm) as (i & Hi).
    destruct (Forall2_nth_l _ _ _ F i _ Hi) as (((fi' & f') & ch') & Hr & R).
    unfold member_rep in R. cbn [m_wr m_handle m_af r_chain fst snd] in R.
    destruct (resolves_det _ _ _ _ _ _ Hres (fr_res _ _ _ _ _ _ _ _ _ _ R)) as [-> ->].
    destruct (fr_chain _ _ _ _ _ _ _ _ _ _ R) as [(_ & (fu' & A2) & _)|(A1 & _)].
    - rewrite (chain_of_det _ _ _ _ _ _ _ Hch A2). exact (H _ (nth_error_In _ _ Hr)).
    - exfalso. destruct (chain_of_head _ _ _ _ _ Hch) as (B & _). clear - A1 B. lia.
  Qed.

  Lemma dirs_free_of_rep s vi v m rs l : files_rep fsz s vi v m rs ->
    (forall r, In r rs -> forall c0 fu dch, In (e_block (f_entry (snd (fst r)))) (cluster_blocks v c0) ->
       chain_of (s_disk s) v c0 fu = Some dch -> disjoint dch l) -> dirs_free s v m l.
  Proof.
    intros (F & _) H h2 fi2 f2 c0 fu dch Hin Hres Hb Hch.
    destruct (m_find_member h2 m Hin) as (w2 & af2 & _ & Hm).
    destruct (In_nth_error _ _ Hm) as (i & Hi).
    destruct (Forall2_nth_l _ _ _ F i _ Hi) as (((fi' & f') & ch') & Hr & R).
    unfold member_rep in R. cbn [m_wr m_handle m_af r_chain fst snd] in R.
    destruct (resolves_det _ _ _ _ _ _ Hres (fr_res _ _ _ _ _ _ _ _ _ _ R)) as [-> ->].
    exact (H _ (nth_error_In _ _ Hr) c0 fu dch Hb Hch).
  Qed.

  (* the chain from the cluster that holds a member's slot avoids the chains of the set *)
  Lemma rec_ok_dirs s v rs r r0 : rec_ok s v rs r -> In r0 rs ->
    forall c0 fu dch, In (e_block (f_entry (snd (fst r)))) (cluster_blocks v c0) ->
      chain_of (s_disk s) v c0 fu = Some dch -> disjoint dch (r_chain r0).
  Proof.
    intros (_ & [H|(c1 & fu1 & dch1 & Hb1 & Hch1 & Hd)]) Hr0 c0 fu dch Hb Hch.
    - exfalso. destruct (chain_of_head _ _ _ _ _ Hch) as (A & _). exact (H c0 A Hb).
    - destruct (blk_cluster_unique _ _ _ _ _ _ _ _ _ Hb Hb1 Hch Hch1) as [_ ->]. exact (Hd r0 Hr0).
  Qed.

  (* the frame of a flush, read backwards *)
  Lemma flush_eff_chains_back v e s s' : flush_eff v e s s' -> ~ fat_area v (e_block e) -> info_ok v ->
    forall x fu l, chain_of (s_disk s') v x fu = Some l -> chain_of (s_disk s) v x fu = Some l.
  Proof.
    intros (_ & _ & _ & _ & Hfr) Hnfat Hinfo x fu l H. rewrite <- H. apply chain_of_ext.
    intros j Hj. symmetry. apply Hfr.
    - intros ->. contradiction.
    - intros E ->. exact (proj1 (Hinfo E) Hj).
  Qed.

  (* C01, re-open: a member h that has been written to (dirty) is closed; its slot is the one
     the lookup of its name finds in the directory of handle d.  Then, in the state after the
     close, an open of that name through d in a keep mode is COVERED (open_keep), and the
     contents it finds on the medium are exactly the bytes the byte-array model of h held when
     it was closed.  (By C02_flush_then_lookup: the entry found again carries the flushed size
     and first cluster; the chain and its bytes are untouched by the flush.) *)
  Theorem C01_reopen_covered vid s m h w bytes off fi f d di dd vi v name md bl sl0 :
    lc_inv fsz vid s m -> In (h, w, (bytes, off)) m -> resolves s h fi f -> f_dirty f = true ->
    let e := f_entry f in
    PrModes.resolves s d di dd vi v -> d_vol dd = vid ->
    sfn_of_str name = Some (e_name e) -> PrModes.dot_name (e_name e) = false ->
    dir_blocks (s_disk s) v (d_cluster dd) = Some bl ->
    find (t_matches (e_name e)) (live_in_blocks (s_disk s) bl) = Some (e_block e, e_offset e, sl0) ->
    dir_home s v m bl [] -> (v_fat32 v = true -> ~ In (v_info v) bl) ->
    is_directory (e_attr e) = false -> is_lfn (e_attr e) = false ->
    is_read_only (e_attr e) && negb (mode_eqb md ReadOnly) = false ->
    md = ReadOnly \/ md = ReadWriteAppend \/ md = ReadWriteCreateOrAppend ->
    (* no other record of the file table sits on this slot *)
    (forall g, In g (s_files s) -> f_id g <> h ->
       ~ (f_vol g = vid /\ e_block (f_entry g) = e_block e /\ e_offset (f_entry g) = e_offset e)) ->
    N.of_nat (length (s_files s)) <= s_maxf s ->
    PrHandles.no_file (s_next_id s) s ->
    exists s1, run_op (CloseFile h) s = (Ok RUnit, s1) /\ s_next_id s1 = s_next_id s /\
      lc_inv fsz vid s1 (remove_member h m) /\
      open_keep fsz vid s1 (remove_member h m) d name md (Some bytes).
  Proof.
    intros Hinv Hmem Hres Hdirty e Hdres Hdvol Hsfn Hdot Hbl Hfind Hdh Hinfobl Hnotdir Hnlfn Hro Hmd
           Huniq Hlim Hfresh.
    destruct (C01_close_removes fsz vid s m h Hinv
                (in_map m_handle m (h, w, (bytes, off)) Hmem)) as (s1c & Hrunc & Hinv1).
    destruct Hinv as (vi0 & v0 & rs & LR & Evid).
    pose proof LR as (FR & Hok & Hvolctx & Hinfo & Hndf).
    destruct (lc_vol_same fsz s vi v vi0 v0 d di dd Hvolctx Hdres ltac:(congruence)) as [-> ->].
    destruct (lc_member fsz s vi0 v0 m rs h LR (in_map m_handle m (h, w, (bytes, off)) Hmem))
      as (i0 & w' & af' & fi' & f' & ch & Hi0 & Hr0 & R0).
    destruct (resolves_det _ _ _ _ _ _ Hres (fr_res _ _ _ _ _ _ _ _ _ _ R0)) as [<- <-].
    pose proof (NoDup_handles_In m _ _ (proj2 (proj2 FR)) Hmem (nth_error_In _ _ Hi0) eq_refl) as Em.
    injection Em as <- <-.
    destruct (lc_rep_slot fsz s vi0 v0 m rs LR _ (nth_error_In _ _ Hr0)) as [Hslot Hapart].
    cbn [fst snd] in Hslot, Hapart.
    destruct (C01_close_removes_rep fsz s vi0 v0 m rs i0 h w (bytes, off) fi f ch FR Hi0 Hr0 Hslot Hinfo
                (slot_apart_intro _ _ _ Hapart) Hndf) as (sF & s1 & Hrun & Hflush & Heff & Es1 & FR').
    rewrite Hrunc in Hrun. injection Hrun as ->.
    pose proof Heff as ((M1 & M2 & M3 & M4 & M6 & _) & HnfF & HcF & HwfF & Hfr).
    pose proof Hvolctx as (Hl & ((Hnf & Hc & Hvi & _) & L & _) & Hfit & Hspc & Hwf & Hfindv).
    pose proof R0 as [_ Hvol _ _ _ _ Hchain _ Hsize H32 _ Hbytes _].
    cbn [fst] in Hbytes. unfold e in *.
    (* the lookup after the flush *)
    destruct (info_step_exists s vi0 v0 Hnf Hc Hvi Hwf) as (sI & HinfoI & _).
    assert (Hnp : e_size (f_entry f) = 0 \/ e_cluster (f_entry f) <> 0).
    { destruct Hchain as [(A1 & _)|(_ & -> & _)]; [right; clear - A1; lia|left].
      cbn [length] in Hsize. clear - Hsize. lia. }
    destruct (C02_flush_then_lookup s h fi f vi0 v0 sI (d_cluster dd) bl sl0 Hnf Hc (fl_vol _ _ L) Hres Hdirty
                (conj Hvol Hvi) HinfoI Hnp (so_ctime _ _ Hslot) (so_mtime _ _ Hslot) (so_name _ _ Hslot)
                Hnlfn Hbl Hfind (Hwf _) (so_nfat _ _ Hslot)
                (fun E => conj (proj1 (Hinfo E)) (Hinfobl E)))
      as (sF' & HflushF & sL & Hlook & _ & _).
    rewrite Hflush in HflushF. injection HflushF as <-.
    assert (HblF : dir_blocks (s_disk sF) v0 (d_cluster dd) = Some bl).
    { rewrite <- Hbl. apply dir_blocks_ext. intros j Hj. apply Hfr.
      - intros ->. exact (so_nfat _ _ Hslot Hj).
      - intros E ->. exact (proj1 (Hinfo E) Hj). }
    assert (HviF : nth_error (s_vols sF) vi0 = Some v0) by (rewrite M1; exact Hvi).
    destruct (C06_find vi0 v0 (d_cluster dd) (e_name (f_entry f)) sF bl HviF (fl_vol _ _ L) HnfF HcF HblF)
      as (sL' & Hlook' & _).
    rewrite Hlook in Hlook'.
    destruct (find (t_matches (e_name (f_entry f))) (live_in_blocks (s_disk sF) bl)) as [t|] eqn:HfindF;
      [|discriminate Hlook'].
    pose proof (Ok_inj _ _ (f_equal fst Hlook')) as He'. clear Hlook'.
    (* the fields of the entry found *)
    assert (Esz : e_size (t_entry (v_fat32 v0) t) = e_size (f_entry f)).
    { rewrite <- He'. cbn [entry_readback e_size]. apply N.mod_small. exact H32. }
    assert (Eat : e_attr (t_entry (v_fat32 v0) t) = e_attr (f_entry f)) by (rewrite <- He'; reflexivity).
    assert (Ecl : e_cluster (t_entry (v_fat32 v0) t) = e_cluster (f_entry f)).
    { rewrite <- He'. cbn [entry_readback e_cluster]. unfold cl_readback. rewrite Hnotdir, andb_false_r.
      assert (Hsmall : e_cluster (f_entry f) < if v_fat32 v0 then 4294967296 else 65536).
      { destruct Hchain as [(_ & (fu & A2) & _)|(A1 & _)]; [|destruct (v_fat32 v0); clear - A1; lia].
        destruct (chain_of_head _ _ _ _ _ A2) as (_ & B & _). unfold clusters_fit, fat_bad in Hfit.
        destruct (v_fat32 v0); clear - B Hfit; lia. }
      destruct (v_fat32 v0); apply N.mod_small; exact Hsmall. }
    assert (Es1d : s_disk s1 = s_disk sF) by (subst s1; reflexivity).
    assert (Es1f : s_files s1 = swap_remove (s_files s) fi) by (subst s1; cbn [s_files set_s_files]; rewrite M3; reflexivity).
    assert (Hsub : forall g, In g (s_files s1) -> In g (s_files s) /\ f_id g <> h).
    { intros g Hg. rewrite Es1f in Hg. split; [exact (swap_remove_subset _ _ _ Hg)|].
      intros E. apply (PrHandles.swap_remove_gone f_id (s_files s) fi f Hndf (proj2 (proj2 Hres))).
      rewrite (resolves_id _ _ _ _ Hres), <- E. apply in_map. exact Hg. }
    exists s1. split; [exact Hrunc|]. split; [subst s1; cbn [s_next_id set_s_files]; exact M4|].
    split; [exact Hinv1|].
    (* disjointness facts about the chain of the closed file, at s *)
    assert (Hdis0 : forall r', In r' (remove_rep h fi (length (s_files s) - 1) rs) -> disjoint ch (r_chain r')).
    { intros r' Hr'. unfold remove_rep in Hr'. apply in_map_iff in Hr'. destruct Hr' as (r & <- & Hr).
      apply filter_In in Hr. destruct Hr as [Hr Hne]. rewrite r_chain_reidx.
      destruct (In_nth_error _ _ Hr) as (i & Hi).
      assert (Hii : i0 <> i).
      { intros E. subst i.
        assert (Er : Some r = Some (fi, f, ch)) by (transitivity (nth_error rs i0); [symmetry; exact Hi|exact Hr0]).
        injection Er as ->. cbn [fst snd] in Hne.
        rewrite (resolves_id _ _ _ _ Hres), N.eqb_refl in Hne. discriminate Hne. }
      exact (proj1 (proj2 FR) i0 i _ _ Hii Hr0 Hi). }
    assert (Hrs' : forall r', In r' (remove_rep h fi (length (s_files s) - 1) rs) ->
              exists r, In r rs /\ snd (fst r') = snd (fst r) /\ r_chain r' = r_chain r).
    { intros r' Hr'. unfold remove_rep in Hr'. apply in_map_iff in Hr'. destruct Hr' as (r & <- & Hr).
      apply filter_In in Hr. exists r. split; [exact (proj1 Hr)|]. split; reflexivity. }
    exists di, dd, vi0, v0, (e_name (f_entry f)), bl, t, ch.
    split; [subst s1; apply (resolves_dir_move s _ d di dd vi0 v0 Hdres); cbn [s_lock s_dirs s_vols set_s_files]; assumption|].
    split; [exact Hdvol|].
    split.
    { unfold is_full. apply N.leb_gt. rewrite Es1f, swap_remove_length by (apply nth_error_Some; rewrite (proj2 (proj2 Hres)); discriminate).
      subst s1. cbn [s_maxf set_s_files].
      destruct (proj1 Heff) as (_ & _ & _ & _ & _ & _ & _ & M9 & _). rewrite M9.
      assert (H : (fi < length (s_files s))%nat) by (apply nth_error_Some; rewrite (proj2 (proj2 Hres)); discriminate).
      clear - Hlim H. lia. }
    split; [exact Hsfn|]. split; [exact Hdot|].
    split; [rewrite Es1d; exact HblF|].
    split; [rewrite Es1d; exact HfindF|].
    cbv zeta.
    split.
    { unfold PrModes.open_refusal.
      replace (PrModes.is_open s1 (d_vol dd) (t_entry (v_fat32 v0) t)) with false.
      - rewrite Eat, Hro, Hnotdir. destruct Hmd as [-> | [-> | ->]]; reflexivity.
      - symmetry. unfold PrModes.is_open.
        destruct (existsb _ (s_files s1)) eqn:Ex; [|reflexivity]. exfalso.
        apply existsb_exists in Ex. destruct Ex as (g & Hg & Hp).
        apply andb_true_iff in Hp. destruct Hp as [Hp P3]. apply andb_true_iff in Hp. destruct Hp as [P1 P2].
        apply N.eqb_eq in P1, P2, P3. rewrite <- He' in P2, P3. cbn [entry_readback e_block e_offset] in P2, P3.
        destruct (Hsub g Hg) as [G1 G2]. apply (Huniq g G1 G2). rewrite <- Hdvol. auto. }
    split; [exact Hmd|].
    split.
    { unfold entry_chain. rewrite Ecl, Es1d.
      destruct Hchain as [(A1 & (fu & A2) & _)|(A1 & A2 & _)]; [left|right; split; assumption].
      split; [exact A1|]. exists fu. exact (flush_eff_chains v0 (f_entry f) s sF Heff (so_nfat _ _ Hslot) Hinfo _ _ _ A2). }
    split; [rewrite Esz; exact Hsize|]. split; [rewrite Esz; exact H32|].
    split; [exact (chain_free_of_rep s1 vi0 v0 _ _ ch FR' Hdis0)|].
    split.
    { apply (dirs_free_of_rep s1 vi0 v0 _ _ ch FR'). intros r' Hr' c0 fu dch Hb Hch.
      destruct (Hrs' r' Hr') as (r & Hr & Ef & _). rewrite Ef in Hb. rewrite Es1d in Hch.
      pose proof (flush_eff_chains_back v0 (f_entry f) s sF Heff (so_nfat _ _ Hslot) Hinfo _ _ _ Hch) as Hch0.
      rewrite Forall_forall in Hok.
      exact (rec_ok_dirs s v0 rs r (fi, f, ch) (Hok r Hr) (nth_error_In _ _ Hr0) c0 fu dch Hb Hch0). }
    split.
    { destruct Hdh as (D1 & D2). split; [exact D1|].
      destruct D2 as [D2|(dch & x & fu & Dch & Dbl & _ & Dfree)]; [left; exact D2|right].
      exists dch, x, fu. rewrite Es1d.
      split; [exact (flush_eff_chains v0 (f_entry f) s sF Heff (so_nfat _ _ Hslot) Hinfo _ _ _ Dch)|].
      split; [exact Dbl|].
      pose proof (chain_free_rep fsz s vi0 v0 m rs dch FR Dfree) as Dall.
      split; [exact (Dall _ (nth_error_In _ _ Hr0))|].
      apply (chain_free_of_rep s1 vi0 v0 _ _ dch FR'). intros r' Hr'.
      destruct (Hrs' r' Hr') as (r & Hr & _ & ->). exact (Dall r Hr). }
    split.
    { intros g Hg. subst s1. cbn [s_next_id set_s_files]. rewrite M4. exact (Hfresh g (proj1 (Hsub g Hg))). }
    f_equal. rewrite Esz, Hbytes. f_equal. rewrite Es1d. symmetry. apply file_bytes_frame. intros j Hj. apply Hfr.
    - intros ->. exact (Hapart _ (nth_error_In _ _ Hr0) Hj).
    - intros E ->. unfold data_blocks in Hj. apply in_flat_map in Hj. destruct Hj as (c & Hc0 & Hj).
      pose proof (file_rep_chain_range fsz _ _ _ _ _ _ _ _ _ R0) as Rg. rewrite Forall_forall in Rg.
      exact (proj2 (Hinfo E) c (proj1 (Rg c Hc0)) Hj).
  Qed.
End Reopen.

(* ... so closing a written file and opening it again gives a byte-array model with the same
   bytes, positioned at 0 (at the end for the append modes) *)
Corollary C01_close_reopen fsz vid s m h w bytes off fi f d di dd vi v name md bl sl0 :
  lc_inv fsz vid s m -> In (h, w, (bytes, off)) m -> resolves s h fi f -> f_dirty f = true ->
  let e := f_entry f in
  PrModes.resolves s d di dd vi v -> d_vol dd = vid ->
  sfn_of_str name = Some (e_name e) -> PrModes.dot_name (e_name e) = false ->
  dir_blocks (s_disk s) v (d_cluster dd) = Some bl ->
  find (t_matches (e_name e)) (live_in_blocks (s_disk s) bl) = Some (e_block e, e_offset e, sl0) ->
  dir_home s v m bl [] -> (v_fat32 v = true -> ~ In (v_info v) bl) ->
  is_directory (e_attr e) = false -> is_lfn (e_attr e) = false ->
  is_read_only (e_attr e) && negb (mode_eqb md ReadOnly) = false ->
  md = ReadOnly \/ md = ReadWriteAppend \/ md = ReadWriteCreateOrAppend ->
  (forall g, In g (s_files s) -> f_id g <> h ->
     ~ (f_vol g = vid /\ e_block (f_entry g) = e_block e /\ e_offset (f_entry g) = e_offset e)) ->
  N.of_nat (length (s_files s)) <= s_maxf s ->
  PrHandles.no_file (s_next_id s) s ->
  exists s1 s2, run_op (CloseFile h) s = (Ok RUnit, s1) /\
    run_op (OpenFile d name md) s1 = (Ok (RHandle (s_next_id s)), s2) /\
    lc_inv fsz vid s2 ((s_next_id s, negb (mode_eqb md ReadOnly),
                        (bytes, if appending md then N.of_nat (length bytes) else 0)) :: remove_member h m).
Proof.
  intros Hinv Hmem Hres Hdirty e Hdres Hdvol Hsfn Hdot Hbl Hfind Hdh Hinfobl Hnotdir Hnlfn Hro Hmd Huniq Hlim Hfresh.
  destruct (C01_reopen_covered fsz vid s m h w bytes off fi f d di dd vi v name md bl sl0 Hinv Hmem Hres Hdirty
              Hdres Hdvol Hsfn Hdot Hbl Hfind Hdh Hinfobl Hnotdir Hnlfn Hro Hmd Huniq Hlim Hfresh)
    as (s1 & Hclose & Hnext & Hinv1 & Hcov).
  destruct (C01_lifecycle_step fsz vid (LOpen d name md (s_next_id s1) (Some bytes)) s1 (remove_member h m) Hinv1
              (conj eq_refl (or_introl Hcov))) as (x & s2 & Hrun & Hstep).
  cbn [lcop] in Hrun.
  destruct Hcov as (di' & dd' & vi' & v' & sfn' & bl' & t' & ch' & G1 & G2 & G3 & G4 & G5 & G6 & G7 & G8 & G9 &
                    G10 & G11 & G12 & G13 & G14 & G15 & G16 & G17).
  destruct (C01_open_adds fsz vid s1 (remove_member h m) d di' dd' vi' v' name sfn' md bl' t' ch' Hinv1 G1 G2 G3 G4
              G5 G6 G7 G8 G9 G10 G11 G12 G13 G14 G15 G16) as (s2' & Hrun' & _).
  rewrite Hrun in Hrun'. injection Hrun' as -> <-.
  exists s1, s2. split; [exact Hclose|]. rewrite <- Hnext. split; [exact Hrun|].
  destruct (Hstep eq_refl) as (m1 & Ea & Hinv2). cbn [alstep] in Ea. injection Ea as <-.
  unfold open_model in Hinv2.
  replace (truncating md) with false in Hinv2 by (destruct Hmd as [-> | [-> | ->]]; reflexivity).
  exact Hinv2.
Qed.

(* ================================================================== the hypotheses are satisfiable *)
(* PrMulti's example: the FAT16 volume with two open files (handle 7: 1500 bytes in clusters
   2 -> 3; handle 8: created empty), both with their directory slot in the root region
   (block 22, no data block).  Both are written, 7 is flushed, 8 is closed, 7 is read on,
   flushed again and closed. *)
Definition exl_reps : list frep := [(0%nat, exr_file, [2; 3]); (1%nat, exm_file2, [])].
Definition exl_ops : list lop :=
  [LOp 8 (AWrite [10; 20; 30]); LOp 7 (AWrite [1; 2]); LFlush 7; LClose 8; LOp 7 (ASeekStart 698);
   LOp 7 (ARead 6); LOp 7 ALen; LFlush 7; LOp 7 AEof; LClose 7].

Lemma exl_block_home rs : blk_home exm_state exd_vol rs 22.
Proof.
  left. intros c Hc Hin. destruct (In_cluster_blocks _ _ _ Hin) as (k & _ & Ek).
  unfold cluster_first_block, exd_vol in Ek. cbn [v_lba v_first_data v_spc] in Ek.
  remember ((c - 2) * 2) as X. lia.
Qed.

Lemma exl_inv : lc_inv 1 0 exm_state exm_members.
Proof.
  exists 0%nat, exd_vol, exl_reps. split; [|reflexivity].
  split; [|split; [|split; [|split]]].
  - split; [|split].
    + constructor; [|constructor; [|constructor]]; unfold member_rep; cbn [m_wr m_handle m_af r_chain fst snd].
      * constructor; try reflexivity; try exact exm_alloc_pre; try exact exd_disk_wf;
          try (vm_compute; discriminate).
        -- repeat split; reflexivity.
        -- left. split; [vm_compute; discriminate|].
           split; [exists 5%nat; vm_compute; reflexivity|exists 0%nat; split; reflexivity].
      * constructor; try reflexivity; try exact exm_alloc_pre; try exact exd_disk_wf;
          try (vm_compute; discriminate).
        -- repeat split; reflexivity.
        -- right. split; [reflexivity|]. split; reflexivity.
    + intros i j a b Hij Ha Hb.
      destruct i as [|[|i]]; destruct j as [|[|j]]; cbn [nth_error exl_reps] in Ha, Hb;
        try contradiction; try (destruct i; discriminate Ha); try (destruct j; discriminate Hb);
        injection Ha as <-; injection Hb as <-; intros y Hy Hy'; cbn in Hy, Hy'; tauto.
    + cbn. repeat constructor; cbn; intuition discriminate.
  - constructor; [|constructor; [|constructor]]; (split; [|apply exl_block_home]);
      cbn [fst snd]; (constructor; [split; reflexivity|split; reflexivity|reflexivity|
                                    vm_compute; discriminate|apply exd_not_fat; vm_compute; discriminate]).
  - split; [reflexivity|]. split; [exact exm_alloc_pre|]. split; [vm_compute; discriminate|].
    split; [reflexivity|]. split; [exact exd_disk_wf|reflexivity].
  - intros E. discriminate E.
  - cbn. repeat constructor; cbn; intuition discriminate.
Qed.

Example lifecycle_example :
  lc_inv 1 0 exm_state exm_members /\ lwf exl_ops (map m_handle exm_members) /\
  (* the history, computed on both sides *)
  fst (lrun exl_ops exm_state) = fst (alrun exl_ops exm_members) /\
  fst (lrun exl_ops exm_state) =
    [Ok RUnit; Ok RUnit; Ok RUnit; Ok RUnit; Ok RUnit; Ok (RBytes [0; 0; 1; 2; 0; 0]); Ok (RNum 1500);
     Ok RUnit; Ok (RBool false); Ok RUnit] /\
  existsb space_err (fst (lrun exl_ops exm_state)) = false /\
  (* both handles are gone at the end, on both sides *)
  s_files (snd (lrun exl_ops exm_state)) = [] /\ snd (alrun exl_ops exm_members) = [] /\
  (* the invariant at the end, by the theorem *)
  lc_inv 1 0 (snd (lrun exl_ops exm_state)) (snd (alrun exl_ops exm_members)).
Proof.
  assert (Hwf : lwf exl_ops (map m_handle exm_members)) by (cbn; intuition).
  split; [exact exl_inv|]. split; [exact Hwf|].
  split; [vm_compute; reflexivity|]. split; [vm_compute; reflexivity|].
  split; [vm_compute; reflexivity|]. split; [vm_compute; reflexivity|].
  split; [vm_compute; reflexivity|].
  exact (proj2 (C01_lifecycle_history_closed 1 0 exl_ops exm_state exm_members exl_inv Hwf
                  ltac:(vm_compute; reflexivity))).
Qed.

(* ... and with an open: the same volume with a handle 5 on the root directory.  File 7 is
   written and both files are closed (the close of 7 writes its directory slot: block 22,
   slot 0); then the name "A" is opened again ReadOnly through handle 5 - the call is covered
   (open_keep), returns handle 9, and handle 9 reads what handle 7 had written. *)
Definition exo_state : st := set_s_dirs exm_state [mk_dirinfo 5 0 CL_ROOT].
Definition exo_pre : list lop := [LOp 7 (AWrite [1; 2]); LClose 8; LClose 7].
Definition exo_s3 : st := snd (lrun exo_pre exo_state).
Definition exo_bytes : list N := firstn 1500 (file_bytes (s_disk exo_s3) exd_vol [2; 3]).
Definition exo_post : list lop :=
  [LOpen 5 [65] ReadOnly 9 (Some exo_bytes); LOp 9 (ASeekStart 698); LOp 9 (ARead 6); LOp 9 ALen; LClose 9].

Lemma exo_inv : lc_inv 1 0 exo_state exm_members.
Proof.
  destruct exl_inv as (vi & v & rs & LR & Ev). exists vi, v, rs. split; [|exact Ev].
  apply (lc_rep_same 1 exm_state exo_state vi v exm_members rs LR); try reflexivity.
  - intros n [].
  - intros i E. discriminate E.
Qed.

Lemma exo_root_home j c : In j [22; 23] -> 2 <= c -> ~ In j (cluster_blocks exd_vol c).
Proof.
  intros Hj Hc Hin. destruct (In_cluster_blocks _ _ _ Hin) as (k & _ & Ek).
  unfold cluster_first_block, exd_vol in Ek. cbn [v_lba v_first_data v_spc] in Ek.
  remember ((c - 2) * 2) as X. destruct Hj as [<-|[<-|[]]]; lia.
Qed.

Lemma exo_open_covered : open_keep 1 0 exo_s3 [] 5 [65] ReadOnly (Some exo_bytes).
Proof.
  exists 0%nat, (mk_dirinfo 5 0 CL_ROOT), 0%nat, exd_vol, exd_name, [22; 23],
         (22, 0, slot (disk_get (s_disk exo_s3) 22) 0), [2; 3].
  split; [split; [vm_compute; reflexivity|split; [vm_compute; reflexivity|split; [vm_compute; reflexivity|
          split; vm_compute; reflexivity]]]|].
  split; [reflexivity|]. split; [vm_compute; reflexivity|]. split; [vm_compute; reflexivity|].
  split; [vm_compute; reflexivity|]. split; [vm_compute; reflexivity|]. split; [vm_compute; reflexivity|].
  cbv zeta.
  split; [vm_compute; reflexivity|]. split; [left; reflexivity|].
  split; [left; split; [vm_compute; discriminate|exists 5%nat; vm_compute; reflexivity]|].
  split; [vm_compute; discriminate|]. split; [vm_compute; reflexivity|].
  split; [intros h2 fi2 f2 fu ch2 []|]. split; [intros h2 fi2 f2 c0 fu dch []|].
  split.
  { split.
    - intros j Hj. apply exd_not_fat. destruct Hj as [<-|[<-|[]]]; vm_compute; discriminate.
    - left. intros j c. apply exo_root_home. }
  split; [intros f Hf; vm_compute in Hf; destruct Hf|].
  vm_compute. reflexivity.
Qed.

Example lifecycle_open_example :
  lc_inv 1 0 exo_state exm_members /\
  (* the history, computed on both sides *)
  fst (lrun (exo_pre ++ exo_post) exo_state) = fst (alrun (exo_pre ++ exo_post) exm_members) /\
  fst (lrun (exo_pre ++ exo_post) exo_state) =
    [Ok RUnit; Ok RUnit; Ok RUnit; Ok (RHandle 9); Ok RUnit; Ok (RBytes [0; 0; 1; 2; 0; 0]); Ok (RNum 1500);
     Ok RUnit] /\
  (* by the theorems: the invariant after the three calls before the open; the open is covered;
     the results of the calls from the open on agree with the SPEC side, and the invariant holds
     at the end *)
  lc_inv 1 0 exo_s3 [] /\ lguards 1 0 exo_post exo_s3 [] /\
  fst (lrun exo_post exo_s3) = fst (alrun exo_post []) /\
  lc_inv 1 0 (snd (lrun exo_post exo_s3)) (snd (alrun exo_post [])).
Proof.
  assert (Hwf : lwf exo_pre (map m_handle exm_members)) by (cbn; intuition).
  assert (Hinv3 : lc_inv 1 0 exo_s3 []).
  { pose proof (C01_lifecycle_history_closed 1 0 exo_pre exo_state exm_members exo_inv Hwf
                  ltac:(vm_compute; reflexivity)) as (_ & H).
    assert (E : snd (alrun exo_pre exm_members) = []) by (vm_compute; reflexivity).
    rewrite E in H. unfold exo_s3. exact H. }
  assert (Hg : lguards 1 0 exo_post exo_s3 []).
  { unfold exo_post. split.
    - split; [vm_compute; reflexivity|left; exact exo_open_covered].
    - apply lwf_guards. vm_compute. intuition. }
  split; [exact exo_inv|]. split; [vm_compute; reflexivity|]. split; [vm_compute; reflexivity|].
  split; [exact Hinv3|]. split; [exact Hg|].
  exact (C01_lifecycle_history 1 0 exo_post exo_s3 [] Hinv3 Hg ltac:(vm_compute; reflexivity)).
Qed.

(* ================================================================== what is NOT covered *)
(* - The SPEC side of C01_lifecycle_history takes, for an OpenFile call, the handle it will return
     and the contents of the file on the medium as ghost components of the call (LOpen d name md
     hn ob), and the guard (lguards: open_keep / open_trunc / open_create, evaluated on the
     concrete state at that moment) ties them to the medium.  There is no SPEC-side "medium" map
     from directory slots / paths to the contents of CLOSED files that is carried through the
     history.  C01_reopen_covered shows that the guard of a re-open holds, with the bytes the
     model held, in the state directly after the close; that it still holds after further
     calls on OTHER files in between needs a medium invariant for closed files - the lookup of the
     name still finds the slot, the decoded entry still has that size and first cluster, the
     chain still holds those bytes, and the chain stays disjoint from every chain that is
     written or allocated - preserved by write (needs the block-level frame of mgr_write for
     directory blocks, PrWrite.wframe, which PrMulti.step_eff does not export), by the flush of
     another file of the same directory (needs: the on-disk slot of every open file carries the
     name of its in-memory entry, and no two records sit on one slot) and by the opens.  That
     invariant is not stated or proved here.
   - Re-open of a file that was closed CLEAN (never written through the handle): the slot is not
     rewritten by the close, so the entry found again is whatever the slot holds; that it
     decodes to the in-memory entry is not part of lc_inv (C01_reopen_covered asks f_dirty = true).
   - C01_open_creates asks for a free slot in an existing block of the directory; the open that
     has to grow the directory by a cluster is not covered.
   - Opens that are refused (PrModes.C07_open_refusals: the state after the lookup, no member
     added) and Flush / CloseFile on handles outside the set are not part of the histories.
   - A device fault during flush / close / open is not covered (the device works). *)

(* ================================================================== assumptions *)
Print Assumptions C01_flush_keeps_rep.
Print Assumptions C01_flush_keeps.
Print Assumptions C01_close_removes_rep.
Print Assumptions C01_close_removes.
Print Assumptions lc_step.
Print Assumptions C01_open_adds.
Print Assumptions C01_open_truncates.
Print Assumptions C01_open_creates.
Print Assumptions C01_lifecycle_step.
Print Assumptions C01_lifecycle_history.
Print Assumptions C01_lifecycle_history_closed.
Print Assumptions C01_reopen_covered.
Print Assumptions C01_close_reopen.
Print Assumptions lifecycle_example.
Print Assumptions lifecycle_open_example.
