(* PROOFS: the CONTENT obligation PrContentDef.step_content for the calls on directory handles that
   write nothing (OpenRoot, OpenDir, CloseDir, Find, Iter with and without an inner call, Label:
   the observation is unchanged) and the tools for OpenFile (continued in PrContentOpen2.v):

   1  calm steps: the medium, the volume table and the file table are as before; the observation
      of such a state is the observation before
   2  the six calls that write nothing
   3  lookups in views: permutations, a leaf replaced, one more file record
   4  OpenFile: every refusal, and the open that keeps the file (ReadOnly / Append) *)
From Coq Require Import NArith ZArith List Bool Lia Arith ZifyClasses ZifyInst Zify FMapPositive Permutation.
From SdFs Require Import FsTypes FsBase FsFat FsMgr FsLemmas PrBase PrFat PrAlloc PrDir PrSeek PrAllocEffect
  PrRw PrWrite PrFileSeq PrMulti PrEntry PrChain PrCount PrWf PrOpenClose PrGlobalDef PrGlobalOpen PrGlobalOpen2
  PrContentDef.
From SdFs Require PrModes PrHandles PrCrash PrBounds PrOrder.
Import ListNotations.
Open Scope N_scope.
Local Arguments N.mul : simpl never.
Local Arguments N.add : simpl never.
Local Arguments N.sub : simpl never.
Local Arguments N.div : simpl never.
Local Arguments N.modulo : simpl never.
Local Arguments N.land : simpl never.
Local Arguments N.lor : simpl never.
Local Arguments N.min : simpl never.
Local Arguments N.max : simpl never.
Local Ltac Zify.zify_post_hook ::= Z.to_euclidean_division_equations.

(* ================================================================== 1. calm steps *)
(* the medium, the volume table and the table of open files are as before *)
Definition calm (s s' : st) : Prop :=
  s_disk s' = s_disk s /\ s_vols s' = s_vols s /\ s_files s' = s_files s.

Lemma calm_refl s : calm s s.
Proof. repeat split; reflexivity. Qed.

Lemma calm_trans a b c : calm a b -> calm b c -> calm a c.
Proof. intros (A1 & A2 & A3) (B1 & B2 & B3). repeat split; congruence. Qed.

Lemma calm_ro s s1 : ro_step s s1 -> calm s s1.
Proof. intros (Hd & _ & _ & (M1 & _ & M3 & _)). repeat split; assumption. Qed.

Lemma mem_item_calm s s' v n : s_disk s' = s_disk s -> s_files s' = s_files s -> mem_item s' v n = mem_item s v n.
Proof. intros Hd Hf. unfold mem_item, open_at, mem_fv, fchain. rewrite Hd, Hf. reflexivity. Qed.

Lemma obs_at_calm s s' v bl T : calm s s' -> obs_at s' v bl T = obs_at s v bl T.
Proof.
  intros (Hd & _ & Hf). unfold obs_at, handles_of. rewrite Hd, Hf. f_equal.
  apply mem_view_ext. intros e ch _. exact (mem_item_calm s s' v _ Hd Hf).
Qed.

(* a calm step to a state of the invariant shows what was shown before *)
Lemma content_calm fsz vid s s' a : observes fsz vid s a -> fs_inv fsz vid s' -> calm s s' ->
  exists a', observes fsz vid s' a' /\ same_obs a a'.
Proof.
  intros (vi & v & bl & rch & T & Hat & ->) Hinv' Hc. pose proof Hc as (Hd & Hv & Hf).
  pose proof (fi_disk _ _ _ _ _ _ _ _ Hat) as D.
  exists (obs_at s' v bl T). split.
  - apply (observes_intro fsz vid s' v bl rch T Hinv').
    + rewrite Hv. exact (fi_single _ _ _ _ _ _ _ _ Hat).
    + rewrite Hd. exact (di_root _ _ _ _ _ _ D).
    + rewrite Hd. exact (di_tree _ _ _ _ _ _ D).
  - exact (obs_at_calm s s' v bl T Hc).
Qed.

(* the state a lifted call ends in is the state the call ends in *)
Lemma lift_state' {A} (g : A -> res) (m : M A) s r s' : lift g m s = (r, s') -> exists o, m s = (o, s').
Proof.
  unfold lift, bind, ret. destruct (m s) as [[a|e| |] s1]; intros H; injection H as <- <-; eexists; reflexivity.
Qed.

(* ================================================================== 2. the calls that write nothing *)
(* ---- OpenRoot ---- *)
Lemma calm_OpenRoot fsz vid h s r s' : fs_inv fsz vid s -> step (OpenRoot h) s = (r, s') -> calm s s'.
Proof.
  intros Hinv Hs. pose proof (fs_inv_lock fsz vid s Hinv) as Hl.
  cbn [step] in Hs. pose proof (open_root_dir_eq h s Hl) as E.
  destruct (is_full (s_dirs s) (s_maxd s)).
  - rewrite (lift_err' _ _ _ _ _ E) in Hs. injection Hs as <- <-. repeat split; reflexivity.
  - rewrite (lift_ok' _ _ _ _ _ E) in Hs. injection Hs as <- <-. repeat split; reflexivity.
Qed.

(* ---- CloseDir ---- *)
Lemma calm_CloseDir fsz vid h s r s' : fs_inv fsz vid s -> step (CloseDir h) s = (r, s') -> calm s s'.
Proof.
  intros Hinv Hs. pose proof (fs_inv_lock fsz vid s Hinv) as Hl.
  cbn [step] in Hs.
  destruct (find_idx (fun x => d_id x =? h) (s_dirs s) 0) as [di|] eqn:E.
  - assert (Hrun : close_dir h s = (Ok tt, set_s_dirs s (swap_remove (s_dirs s) di))).
    { unfold close_dir. rewrite (PrHandles.locked_free _ s Hl). unfold bind.
      rewrite PrHandles.get_dir_by_id_eq, E. reflexivity. }
    rewrite (lift_ok' _ _ _ _ _ Hrun) in Hs. injection Hs as <- <-. repeat split; reflexivity.
  - assert (Hno : PrHandles.no_dir h s) by (intros x Hx; apply N.eqb_neq; exact (find_idx_none_inv _ _ _ E x Hx)).
    destruct (PrHandles.C08_stale_dir_handle h s Hl Hno) as (E1 & _). cbn [step] in E1.
    rewrite E1 in Hs. injection Hs as <- <-. apply calm_refl.
Qed.

(* ---- Find ---- *)
Lemma calm_Find fsz vid h name s r s' : fs_inv fsz vid s -> step (Find h name) s = (r, s') -> calm s s'.
Proof.
  intros Hinv Hs. pose proof (fs_inv_lock fsz vid s Hinv) as Hl.
  cbn [step] in Hs. destruct Hinv as (vi & v & bl & rch & T & Hat).
  destruct (dir_resolve _ _ _ _ _ _ _ _ h Hat) as [Hno|di dd H1 H2 Hne H3|di dd Hres Hvol Hdir Hin].
  - destruct (PrHandles.C08_stale_dir_handle h s Hl Hno) as (_ & E1 & _). specialize (E1 name). cbn [step] in E1.
    rewrite E1 in Hs. injection Hs as <- <-. apply calm_refl.
  - assert (E : mgr_find h name s = (Err BadHandle, s)).
    { unfold mgr_find. rewrite (PrHandles.locked_free _ s Hl).
      rewrite (bind_ok _ _ _ _ _ H1), (bind_ok _ _ _ _ _ H2). apply bind_err. exact H3. }
    rewrite (lift_err' _ _ _ _ _ E) in Hs. injection Hs as <- <-. apply calm_refl.
  - pose proof Hres as (_ & H1 & H2 & H3 & _).
    assert (E : mgr_find h name s = match sfn_of_str name with
                                    | None => (Err FilenameError, s)
                                    | Some sfn => find_directory_entry 0 (d_cluster dd) sfn s end).
    { unfold mgr_find. rewrite (PrHandles.locked_free _ s Hl).
      rewrite (bind_ok _ _ _ _ _ H1), (bind_ok _ _ _ _ _ H2), (bind_ok _ _ _ _ _ H3).
      destruct (sfn_of_str name); reflexivity. }
    destruct (sfn_of_str name) as [sfn|].
    + destruct (find_run _ _ _ _ _ _ _ _ (d_cluster dd) sfn Hat Hdir) as (bl' & parent & kids & s1 & _ & Hrun & Hro & Hrd).
      rewrite Hrun in E.
      destruct (find (t_matches sfn) (live_in_blocks (s_disk s) bl')) as [t|].
      * rewrite (lift_ok' _ _ _ _ _ E) in Hs. injection Hs as <- <-. exact (calm_ro _ _ Hro).
      * rewrite (lift_err' _ _ _ _ _ E) in Hs. injection Hs as <- <-. exact (calm_ro _ _ Hro).
    + rewrite (lift_err' _ _ _ _ _ E) in Hs. injection Hs as <- <-. apply calm_refl.
Qed.

(* ---- Iter: the listing only reads; the inner call runs under the lock and changes nothing ---- *)
Lemma mgr_iterate_calm {R} fsz vid s d (im : M R) o s' : fs_inv fsz vid s ->
  (forall sL, s_lock sL = true -> exists r, im sL = (r, sL) /\ r <> Panic /\ r <> OutOfFuel) ->
  mgr_iterate d im s = (o, s') -> calm s s'.
Proof.
  intros Hinv Him Hs. pose proof (fs_inv_lock fsz vid s Hinv) as Hl.
  destruct Hinv as (vi & v & bl & rch & T & Hat).
  rewrite (proj1 (PrHandles.C08_iterate_holds_lock _ d im s Hl)) in Hs.
  assert (Hbad : PrHandles.iter_listing d s = (Err BadHandle, s) -> calm s s').
  { intros E. rewrite E in Hs. cbn [PrHandles.iterate_outcome] in Hs. injection Hs as <- <-. apply calm_refl. }
  destruct (dir_resolve _ _ _ _ _ _ _ _ d Hat) as [Hno|di dd H1 H2 Hne H3|di dd Hres Hvol Hdir Hdd].
  - apply Hbad. unfold PrHandles.iter_listing. apply bind_err. exact (PrHandles.get_dir_by_id_stale d s Hno).
  - apply Hbad. unfold PrHandles.iter_listing. rewrite (bind_ok _ _ _ _ _ H1), (bind_ok _ _ _ _ _ H2). apply bind_err. exact H3.
  - destruct (iter_listing_run _ _ _ _ _ _ _ _ d di dd Hat Hres Hdir) as (shown & s1 & E & Hro & Hrd).
    rewrite E in Hs.
    destruct shown as [|e0 shown]; cbn [PrHandles.iterate_outcome] in Hs.
    + injection Hs as <- <-. exact (calm_ro _ _ Hro).
    + assert (Hq : calm s (set_s_lock (set_s_lock s1 true) false)).
      { apply (calm_trans _ _ _ (calm_ro _ _ Hro)). repeat split; reflexivity. }
      destruct (Him (set_s_lock s1 true) eq_refl) as (r' & Er & R1 & R2).
      rewrite Er in Hs. destruct r' as [a|e| |]; try contradiction; injection Hs as <- <-; exact Hq.
Qed.

Lemma calm_Iter fsz vid d inner s r s' : fs_inv fsz vid s -> no_remount (Iter d inner) ->
  step (Iter d inner) s = (r, s') -> calm s s'.
Proof.
  intros Hinv Hnr Hs. cbn [step] in Hs. unfold bind at 1 in Hs.
  destruct (mgr_iterate d match inner with Some o' => step o' | None => ret RUnit end s) as [o s1] eqn:E.
  apply (mgr_iterate_calm fsz vid s d _ o s1 Hinv) in E.
  - destruct o as [a|e| |]; injection Hs as <- <-; exact E.
  - intros sL HL. destruct inner as [o'|].
    + exact (locked_step o' sL HL Hnr).
    + exists (Ok RUnit). split; [reflexivity|split; discriminate].
Qed.

(* ---- computations that are calm from every state of the invariant ---- *)
Definition cm {A} (fsz vid : N) (m : M A) : Prop :=
  forall s o s', fs_inv fsz vid s -> m s = (o, s') -> calm s s'.

Lemma cm_ret {A} fsz vid (a : A) : cm fsz vid (ret a).
Proof. intros s o s' _ E. injection E as <- <-. apply calm_refl. Qed.

Lemma cm_fail {A} fsz vid e : cm fsz vid (@fail A e).
Proof. intros s o s' _ E. injection E as <- <-. apply calm_refl. Qed.

Lemma cm_bind {A B} fsz vid (m : M A) (k : A -> M B) :
  qm fsz vid m -> cm fsz vid m -> (forall a, cm fsz vid (k a)) -> cm fsz vid (bind m k).
Proof.
  intros Hq Hm Hk s o s' Hinv E. unfold bind in E. destruct (m s) as [o1 s1] eqn:E1.
  destruct (Hq s o1 s1 Hinv E1) as (_ & _ & Q1). pose proof (Hm s o1 s1 Hinv E1) as S1.
  destruct o1 as [a|e| |]; try (injection E as <- <-; exact S1).
  exact (calm_trans _ _ _ S1 (Hk a s1 o s' (proj1 Q1) E)).
Qed.

Lemma cm_try {A} fsz vid (m : M A) : cm fsz vid m -> cm fsz vid (try m).
Proof.
  intros Hm s o s' Hinv E. unfold try in E. destruct (m s) as [o1 s1] eqn:E1.
  pose proof (Hm s o1 s1 Hinv E1) as S1.
  destruct o1 as [a|e| |]; injection E as <- <-; exact S1.
Qed.

Lemma cm_open_root_dir fsz vid h : cm fsz vid (open_root_dir h).
Proof.
  intros s o s' Hinv E. pose proof (fs_inv_lock fsz vid s Hinv) as Hl. rewrite (open_root_dir_eq h s Hl) in E.
  destruct (is_full (s_dirs s) (s_maxd s)); injection E as <- <-; repeat split; reflexivity.
Qed.

Lemma cm_close_dir fsz vid h : cm fsz vid (close_dir h).
Proof.
  intros s o s' Hinv E. pose proof (fs_inv_lock fsz vid s Hinv) as Hl.
  unfold close_dir in E. rewrite (PrHandles.locked_free _ s Hl) in E. unfold bind in E.
  rewrite PrHandles.get_dir_by_id_eq in E.
  destruct (find_idx (fun x => d_id x =? h) (s_dirs s) 0) as [di|]; injection E as <- <-; repeat split; reflexivity.
Qed.

Lemma cm_mgr_iterate_plain fsz vid d : cm fsz vid (mgr_iterate d (ret tt)).
Proof.
  intros s o s' Hinv E. apply (mgr_iterate_calm fsz vid s d (ret tt) o s' Hinv); [|exact E].
  intros sL _. exists (Ok tt). split; [reflexivity|split; discriminate].
Qed.

(* ---- Label ---- *)
Lemma calm_Label fsz vid h s r s' : fs_inv fsz vid s -> step (Label h) s = (r, s') -> calm s s'.
Proof.
  intros Hinv Hs. pose proof (fs_inv_lock fsz vid s Hinv) as Hl.
  destruct (fs_inv_vols fsz vid s Hinv) as (v & Ev & _).
  destruct (N.eqb_spec (v_id v) h) as [Eh|Nh].
  - cbn [step] in Hs. destruct (lift_state' _ _ _ _ _ Hs) as (o & E). clear Hs.
    unfold get_root_volume_label in E. rewrite (PrHandles.locked_free _ s Hl) in E.
    assert (H1 : get_volume_by_id h s = (Ok 0%nat, s)).
    { rewrite (vol_lookup s v h Ev). apply N.eqb_eq in Eh. rewrite Eh. reflexivity. }
    assert (H2 : get_vol 0 s = (Ok v, s)) by (rewrite PrHandles.get_vol_eq, Ev; reflexivity).
    rewrite (bind_ok _ _ _ _ _ H1), (bind_ok _ _ _ _ _ H2) in E.
    destruct (trim_rev (rev (v_name v))).
    + revert E. apply (cm_bind fsz vid); [apply qm_open_root_dir|apply cm_open_root_dir|intros rd|exact Hinv].
      apply cm_bind; [apply qm_try, qm_mgr_iterate_plain|apply cm_try, cm_mgr_iterate_plain|intros r0].
      apply cm_bind; [apply qm_try, qm_close_dir|apply cm_try, cm_close_dir|intros _].
      destruct r0 as [[es o0]|e]; [|apply cm_fail].
      destruct (filter (fun e => e_attr e =? A_VOLUME) es); apply cm_ret.
    + injection E as <- <-. apply calm_refl.
  - assert (Hno : PrHandles.no_vol h s) by (intros w Hw; rewrite Ev in Hw; destruct Hw as [<-|[]]; exact Nh).
    destruct (PrHandles.C08_stale_vol_handle h s Hl Hno) as (_ & E1).
    rewrite E1 in Hs. injection Hs as <- <-. apply calm_refl.
Qed.

(* ---- OpenDir ---- *)
Lemma calm_OpenDir fsz vid h name s r s' : fs_inv fsz vid s -> step (OpenDir h name) s = (r, s') -> calm s s'.
Proof.
  intros Hinv Hs. pose proof (fs_inv_lock fsz vid s Hinv) as Hl.
  destruct Hinv as (vi & v & bl & rch & T & Hat).
  destruct (dir_resolve _ _ _ _ _ _ _ _ h Hat) as [Hno|di dd H1 H2 Hne H3|di dd Hres Hvol Hdir Hdd].
  { destruct (PrHandles.C08_stale_dir_handle h s Hl Hno) as (_ & _ & _ & _ & E1 & _). rewrite (E1 name) in Hs.
    injection Hs as <- <-. apply calm_refl. }
  { cbn [step] in Hs.
    assert (E : exists e, open_dir h name s = (Err e, s)).
    { unfold open_dir. rewrite (PrHandles.locked_free _ s Hl), PrHandles.bind_get.
      destruct (is_full (s_dirs s) (s_maxd s)); [eexists; reflexivity|].
      exists BadHandle. rewrite (bind_ok _ _ _ _ _ H1), (bind_ok _ _ _ _ _ H2). apply bind_err. exact H3. }
    destruct E as (e & E). rewrite (lift_err' _ _ _ _ _ E) in Hs. injection Hs as <- <-. apply calm_refl. }
  cbn [step] in Hs.
  destruct (is_full (s_dirs s) (s_maxd s)) eqn:Hfull.
  { assert (E : open_dir h name s = (Err TooManyOpenDirs, s)).
    { unfold open_dir. rewrite (PrHandles.locked_free _ s Hl), PrHandles.bind_get, Hfull. reflexivity. }
    rewrite (lift_err' _ _ _ _ _ E) in Hs. injection Hs as <- <-. apply calm_refl. }
  destruct (PrModes.C06_open_dir s h di dd 0%nat v name Hres Hfull) as (Hvid & Htab).
  destruct (sfn_of_str name) as [sfn|] eqn:Hsfn.
  2:{ rewrite (lift_err' _ _ _ _ _ Htab) in Hs. injection Hs as <- <-. apply calm_refl. }
  destruct (list_eqb sfn THIS_DIR_NAME) eqn:Ethis.
  { rewrite (lift_ok' _ _ _ _ _ Htab) in Hs. injection Hs as <- <-. repeat split; reflexivity. }
  destruct (find_run _ _ _ _ _ _ _ _ (d_cluster dd) sfn Hat Hdir) as (bl' & parent & kids & s1 & Hctx & Hrun & Hro & Hrd).
  destruct (Htab _ _ Hrun) as (_ & Hopen).
  pose proof (calm_ro _ _ Hro) as Hq1.
  destruct (find (t_matches sfn) (live_in_blocks (s_disk s) bl')) as [t|] eqn:Hfind.
  - destruct (is_directory (e_attr (t_entry (v_fat32 v) t))) eqn:Hisdir.
    + rewrite (lift_ok' _ _ _ _ _ Hopen) in Hs. injection Hs as <- <-.
      apply (calm_trans _ _ _ Hq1). repeat split; reflexivity.
    + rewrite (lift_err' _ _ _ _ _ Hopen) in Hs. injection Hs as <- <-. exact Hq1.
  - rewrite (lift_err' _ _ _ _ _ Hopen) in Hs. injection Hs as <- <-. exact Hq1.
Qed.

(* ---- the obligation for the six calls: the observation is unchanged ---- *)
Lemma content_of_calm fsz vid o : (forall r a a' clock, content_rel o clock r a a' = same_obs a a') ->
  step_ok fsz vid o ->
  (forall s r s', fs_inv fsz vid s -> op_known_ok o -> step o s = (r, s') -> calm s s') ->
  step_content fsz vid o.
Proof.
  intros Hrel Hok Hcalm s r s' a Hinv Hfr Hk Hs Ho.
  destruct (Hok s r s' Hinv Hfr Hk Hs) as (_ & _ & Hinv' & _).
  destruct (content_calm fsz vid s s' a Ho Hinv' (Hcalm s r s' Hinv Hk Hs)) as (a' & Ho' & E).
  exists a'. split; [exact Ho'|]. rewrite Hrel. exact E.
Qed.

Theorem content_OpenRoot fsz vid h : step_content fsz vid (OpenRoot h).
Proof.
  apply content_of_calm; [reflexivity|apply step_ok_OpenRoot|].
  intros s r s' Hinv _ Hs. exact (calm_OpenRoot fsz vid h s r s' Hinv Hs).
Qed.

Theorem content_CloseDir fsz vid h : step_content fsz vid (CloseDir h).
Proof.
  apply content_of_calm; [reflexivity|apply step_ok_CloseDir|].
  intros s r s' Hinv _ Hs. exact (calm_CloseDir fsz vid h s r s' Hinv Hs).
Qed.

Theorem content_Find fsz vid h name : step_content fsz vid (Find h name).
Proof.
  apply content_of_calm; [reflexivity|apply step_ok_Find|].
  intros s r s' Hinv _ Hs. exact (calm_Find fsz vid h name s r s' Hinv Hs).
Qed.

(* Iter d None lists the directory; Iter d (Some o') makes the call o' from the callback, under the
   lock: it is refused (or answers without touching the state) *)
Theorem content_Iter fsz vid d inner : step_content fsz vid (Iter d inner).
Proof.
  apply content_of_calm; [reflexivity|apply step_ok_Iter|].
  intros s r s' Hinv ((Hnr & _) & _) Hs. exact (calm_Iter fsz vid d inner s r s' Hinv Hnr Hs).
Qed.

Theorem content_Label fsz vid h : step_content fsz vid (Label h).
Proof.
  apply content_of_calm; [reflexivity|apply step_ok_Label|].
  intros s r s' Hinv _ Hs. exact (calm_Label fsz vid h s r s' Hinv Hs).
Qed.

Theorem content_OpenDir fsz vid h name : step_content fsz vid (OpenDir h name).
Proof.
  apply content_of_calm; [reflexivity|apply step_ok_OpenDir|].
  intros s r s' Hinv _ Hs. exact (calm_OpenDir fsz vid h name s r s' Hinv Hs).
Qed.

(* ================================================================== 3. lookups in views *)
Lemma vget_perm {A} p (l l' : list (spos * A)) : NoDup (map fst l) -> Permutation l l' -> vget p l = vget p l'.
Proof.
  intros Hnd P. assert (Hnd' : NoDup (map fst l')) by exact (Permutation_NoDup (Permutation_map fst P) Hnd).
  destruct (vget p l) as [x|] eqn:E.
  - symmetry. apply vget_nodup; [exact Hnd'|]. apply (Permutation_in _ P). exact (vget_In p l x E).
  - destruct (vget p l') as [y|] eqn:E'; [|reflexivity].
    pose proof (vget_In p l' y E') as Hin. apply (Permutation_in _ (Permutation_sym P)) in Hin.
    rewrite (vget_nodup p l y Hnd Hin) in E. discriminate.
Qed.

Lemma dget_app {A} c (l1 l2 : list (N * A)) :
  dget c (l1 ++ l2) = match dget c l1 with Some x => Some x | None => dget c l2 end.
Proof.
  induction l1 as [|[k x] l1 IH]; [reflexivity|]. cbn [app dget]. destruct (k =? c); [reflexivity|exact IH].
Qed.

Lemma dget_map_snd {A B} (g : A -> B) c (l : list (N * A)) :
  dget c (map (fun x => (fst x, g (snd x))) l) = option_map g (dget c l).
Proof.
  induction l as [|[k x] l IH]; [reflexivity|]. cbn [map dget fst snd]. destruct (k =? c); [reflexivity|exact IH].
Qed.

(* the witnesses of the invariant of a state are the root and the tree its disk shows *)
Lemma fs_inv_at_of fsz vid s v bl rch T : fs_inv fsz vid s -> s_vols s = [v] ->
  root_dir (s_disk s) v bl rch -> tree_rep (s_disk s) v bl T -> exists vi, fs_inv_at fsz vid s vi v bl rch T.
Proof.
  intros (vi & v0 & bl0 & rch0 & T0 & H) Ev Hr Ht.
  pose proof (fi_single _ _ _ _ _ _ _ _ H) as E. rewrite Ev in E. injection E as <-.
  pose proof (fi_disk _ _ _ _ _ _ _ _ H) as D.
  destruct (root_dir_det _ _ _ _ _ _ Hr (di_root _ _ _ _ _ _ D)) as (-> & ->).
  rewrite (tree_rep_det _ _ _ _ _ Ht (di_tree _ _ _ _ _ _ D)).
  exists vi. exact H.
Qed.

(* two node lists with the same file nodes at position q show the same there *)
Lemma vget_view_agree {A} (g g' : node -> A) L L' q :
  NoDup (map node_pos L) -> NoDup (map node_pos L') ->
  (forall e0 ch0, node_pos (NFile e0 ch0) = q -> (In (NFile e0 ch0) L <-> In (NFile e0 ch0) L')) ->
  (forall e0 ch0, In (NFile e0 ch0) L -> node_pos (NFile e0 ch0) = q -> g' (NFile e0 ch0) = g (NFile e0 ch0)) ->
  vget q (flat_map (file_item g') L') = vget q (flat_map (file_item g) L).
Proof.
  intros Hnd Hnd' Hag Hg.
  destruct (vget q (flat_map (file_item g) L)) as [x|] eqn:E.
  - destruct (vget_file_item_inv g L q x E) as (e0 & ch0 & Hin & Ep & ->).
    rewrite <- Ep. rewrite (vget_file_item g' L' e0 ch0 Hnd' (proj1 (Hag e0 ch0 Ep) Hin)).
    rewrite (Hg e0 ch0 Hin Ep). reflexivity.
  - destruct (vget q (flat_map (file_item g') L')) as [y|] eqn:E'; [|reflexivity].
    destruct (vget_file_item_inv g' L' q y E') as (e0 & ch0 & Hin & Ep & ->).
    pose proof (proj2 (Hag e0 ch0 Ep) Hin) as Hin0.
    rewrite <- Ep, (vget_file_item g L e0 ch0 Hnd Hin0) in E. discriminate.
Qed.

(* ---- the bytes of the files a step does not own ---- *)
(* h heads the chain of a file: the first cluster of a file node, or a pending chain *)
Definition file_head (T : list node) (pend : list N) (h : N) : Prop :=
  (exists e0 ch0, In (NFile e0 ch0) (all_nodes T) /\ e_cluster e0 = h /\ 2 <= h) \/ In h pend.

Lemma file_bytes_ext d d' v ch : (forall j, In j (data_blocks v ch) -> disk_get d' j = disk_get d j) ->
  file_bytes d' v ch = file_bytes d v ch.
Proof. intros H. rewrite !file_bytes_blocks. apply flat_map_ext_in'. exact H. Qed.

(* the chains of all files but the one headed by hx are kept, with the contents of their clusters *)
Record frame_ok (d d' : disk) (v : vol) (T : list node) (pend : list N) (hx : N) : Prop := mk_frame_ok {
  fr_chain : forall h ch, file_head T pend h -> h <> hx -> chain_at d v h ch -> chain_at d' v h ch;
  fr_data : forall h ch j, file_head T pend h -> h <> hx -> chain_at d v h ch -> In j (data_blocks v ch) ->
            disk_get d' j = disk_get d j
}.

Lemma chain_l_geo d v w h : geo_eq v w -> chain_l d w h = chain_l d v h.
Proof.
  intros G. unfold chain_l. rewrite (chain_of_geo d v w G).
  replace (walk_fuel w) with (walk_fuel v); [reflexivity|]. unfold walk_fuel. rewrite (geo_clusters _ _ G). reflexivity.
Qed.

Lemma mem_fv_geo s v w f : geo_eq v w -> mem_fv s w f = mem_fv s v f.
Proof. intros G. unfold mem_fv, fchain. rewrite (chain_l_geo _ v w _ G), (file_bytes_geo _ v w _ G). reflexivity. Qed.

Lemma disk_fv_geo d v w n : geo_eq v w -> disk_fv d w n = disk_fv d v n.
Proof. intros (a & b & ->). reflexivity. Qed.

Lemma open_at_snoc s s' nf q : s_files s' = s_files s ++ [nf] -> slot_key nf <> q -> open_at s' q = open_at s q.
Proof.
  intros Hf Hk. unfold open_at. rewrite Hf, find_app_first.
  destruct (find (fun f => pos_eqb (slot_key f) q) (s_files s)); [reflexivity|].
  cbn [find]. rewrite (pos_eqb_neq _ _ Hk). reflexivity.
Qed.

Lemma open_at_new s s' nf : s_files s' = s_files s ++ [nf] -> ~ In (slot_key nf) (map slot_key (s_files s)) ->
  open_at s' (slot_key nf) = Some nf.
Proof.
  intros Hf Hk. unfold open_at. rewrite Hf, find_app_first.
  rewrite (find_key_none slot_key (s_files s) (slot_key nf)).
  - cbn [find]. rewrite pos_eqb_refl. reflexivity.
  - intros g Hg E. apply Hk. rewrite <- E. apply in_map. exact Hg.
Qed.

Section Others.
  Variables (fsz vid : N) (s : st) (vi : nat) (v : vol) (bl rch : list N) (T : list node).
  Hypothesis Hat : fs_inv_at fsz vid s vi v bl rch T.
  Let Hdi := fi_disk _ _ _ _ _ _ _ _ Hat.

  Lemma closed_bytes d' hx e0 ch0 : frame_ok (s_disk s) d' v T (pend_of s v) hx ->
    In (NFile e0 ch0) (all_nodes T) -> (2 <= e_cluster e0 -> e_cluster e0 <> hx) ->
    file_bytes d' v ch0 = file_bytes (s_disk s) v ch0.
  Proof.
    intros [Hc Hd] Hn Hne. destruct (all_nodes_rep _ _ _ _ (di_tree _ _ _ _ _ _ Hdi) _ Hn) as (t & bl0 & Hr & _).
    apply node_rep_file in Hr. destruct Hr as (_ & _ & [(A1 & fu & A2)|(_ & ->)]); [|reflexivity].
    apply file_bytes_ext. intros j Hj.
    apply (Hd (e_cluster e0) ch0 j); [left; exists e0, ch0; repeat split; assumption|exact (Hne A1)|exact (chain_at_any _ _ _ _ _ A2)|exact Hj].
  Qed.

  Lemma open_file_head f : In f (s_files s) -> 2 <= e_cluster (f_entry f) ->
    file_head T (pend_of s v) (e_cluster (f_entry f)).
  Proof.
    intros Hf A1. destruct (ofile_head fsz vid s vi v bl rch T Hat f Hf A1) as [(e0 & ch0 & Hn & Ec & _)|Hp].
    - left. exists e0, ch0. rewrite Ec. repeat split; assumption.
    - right. exact (pending_in s v f Hf Hp).
  Qed.

  Lemma open_bytes s' hx f : frame_ok (s_disk s) (s_disk s') v T (pend_of s v) hx ->
    In f (s_files s) -> (2 <= e_cluster (f_entry f) -> e_cluster (f_entry f) <> hx) -> mem_fv s' v f = mem_fv s v f.
  Proof.
    intros [Hc Hd] Hf Hne0. unfold mem_fv.
    pose proof (of_chain _ _ _ _ (ofile_of fsz vid s vi v bl rch T Hat f Hf)) as Hck. unfold chain_ok in Hck.
    destruct Hck as [(A1 & (fu & A2) & _)|(A1 & A2 & _)].
    - pose proof (chain_at_any _ _ _ _ _ A2) as A3. pose proof (open_file_head f Hf A1) as Hfh. pose proof (Hne0 A1) as Hne.
      assert (Efc : fchain (s_disk s') v f = fchain (s_disk s) v f).
      { unfold fchain at 1. replace (e_cluster (f_entry f) <? 2) with false by (symmetry; apply N.ltb_ge; exact A1).
        exact (chain_l_at _ _ _ _ (Hc _ _ Hfh Hne A3)). }
      rewrite Efc. f_equal. apply file_bytes_ext. intros j Hj. exact (Hd _ _ j Hfh Hne A3 Hj).
    - unfold fchain. replace (e_cluster (f_entry f) <? 2) with true by (symmetry; apply N.ltb_lt; exact A1). reflexivity.
  Qed.

  (* the positions other than p: the same file nodes, the same bytes, the same records *)
  Theorem others_same_open s' vi' v' bl' rch' T' p nf :
    fs_inv_at fsz vid s' vi' v' bl' rch' T' -> geo_eq v v' ->
    s_files s' = s_files s ++ [nf] -> slot_key nf = p ->
    (forall e0 ch0, node_pos (NFile e0 ch0) <> p -> (In (NFile e0 ch0) (all_nodes T) <-> In (NFile e0 ch0) (all_nodes T'))) ->
    (forall e0 ch0, In (NFile e0 ch0) (all_nodes T) -> node_pos (NFile e0 ch0) <> p ->
       file_bytes (s_disk s') v ch0 = file_bytes (s_disk s) v ch0) ->
    (forall f, In f (s_files s) -> mem_fv s' v f = mem_fv s v f) ->
    others_same p (obs_at s v bl T) (obs_at s' v' bl' T').
  Proof.
    intros Hat' G Hfiles Hkey Hag Hclosed Hopen q Hq.
    pose proof (di_pos _ _ _ _ _ _ Hdi) as Hnd.
    pose proof (di_pos _ _ _ _ _ _ (fi_disk _ _ _ _ _ _ _ _ Hat')) as Hnd'.
    cbn [obs_at ob_mem ob_disk]. split.
    - unfold mem_view. apply vget_view_agree; [exact Hnd|exact Hnd'| |].
      + intros e0 ch0 Ep. apply Hag. rewrite Ep. exact Hq.
      + intros e0 ch0 Hin Ep. unfold mem_item. rewrite Ep.
        rewrite (open_at_snoc s s' nf q Hfiles ltac:(rewrite Hkey; intros E; exact (Hq (eq_sym E)))).
        destruct (open_at s q) as [f|] eqn:Eo.
        * rewrite (mem_fv_geo s' v v' f G). apply Hopen. unfold open_at in Eo. exact (proj1 (find_some _ _ Eo)).
        * rewrite (disk_fv_geo _ v v' _ G). unfold disk_fv. cbn [node_entry node_chain].
          rewrite (Hclosed e0 ch0 Hin ltac:(rewrite Ep; exact Hq)). reflexivity.
    - unfold disk_view. apply vget_view_agree; [exact Hnd|exact Hnd'| |].
      + intros e0 ch0 Ep. apply Hag. rewrite Ep. exact Hq.
      + intros e0 ch0 Hin Ep. rewrite (disk_fv_geo _ v v' _ G). unfold disk_fv. cbn [node_entry node_chain].
        rewrite (Hclosed e0 ch0 Hin ltac:(rewrite Ep; exact Hq)). reflexivity.
  Qed.

  (* ---- the handle table after one record was pushed ---- *)
  Lemma handles_snoc s' nf : s_files s' = s_files s ++ [nf] -> hget (f_id nf) (handles_of s) = None ->
    forall k, hget k (handles_of s') = if k =? f_id nf then Some (hinfo_of nf) else hget k (handles_of s).
  Proof.
    intros Hfiles Hnone k. unfold handles_of, hget in *. rewrite Hfiles, map_app, dget_app. cbn [map dget].
    destruct (N.eqb_spec k (f_id nf)) as [->|Hne].
    - rewrite Hnone, N.eqb_refl. reflexivity.
    - replace (f_id nf =? k) with false by (symmetry; apply N.eqb_neq; congruence).
      destruct (dget k (map (fun f => (f_id f, hinfo_of f)) (s_files s))); reflexivity.
  Qed.

  Lemma hget_fresh : id_fresh s -> hget (s_next_id s) (handles_of s) = None.
  Proof.
    intros Hfr. unfold handles_of, hget. apply dget_none. rewrite map_map. cbn [fst].
    exact (fresh_file_id s Hfr).
  Qed.

  Lemma not_open_intro p : ~ In p (map slot_key (s_files s)) -> not_open p (obs_at s v bl T).
  Proof.
    intros Hk k hi H E. cbn [obs_at ob_handles] in H. unfold hget, handles_of in H.
    apply dget_In in H. apply in_map_iff in H. destruct H as (f & Ef & Hf). injection Ef as _ <-.
    apply Hk. rewrite <- E. cbn [hinfo_of hi_pos]. apply in_map. exact Hf.
  Qed.
End Others.

(* ---- the directories: first cluster -> blocks ---- *)
Definition dmap_item (v : vol) (n : node) : list (N * list N) :=
  match n with NFile _ _ => [] | NDir e ch _ => [(e_cluster e, data_blocks v ch)] end.
Definition dblocks (v : vol) (bl : list N) (T : list node) : list (N * list N) :=
  (CL_ROOT, bl) :: flat_map (dmap_item v) (all_nodes T).

Lemma dir_view_dblocks d v bl T :
  dir_view d v bl T = map (fun x => (fst x, slots_of d (snd x))) (dblocks v bl T).
Proof.
  unfold dir_view, dblocks. cbn [map fst snd]. f_equal.
  induction (all_nodes T) as [|n L IH]; [reflexivity|]. cbn [flat_map]. rewrite map_app, IH. destruct n; reflexivity.
Qed.

Lemma dget_dir_view_blocks d v bl T c :
  dget c (dir_view d v bl T) = option_map (slots_of d) (dget c (dblocks v bl T)).
Proof. rewrite dir_view_dblocks. apply dget_map_snd. Qed.

Section DirBlocks.
  Variables (fsz vid : N) (s : st) (vi : nat) (v : vol) (bl rch : list N) (T : list node).
  Hypothesis Hat : fs_inv_at fsz vid s vi v bl rch T.

  Lemma dget_ditems e ch kids : forall L, (forall n, In n L -> In n (all_nodes T)) -> In (NDir e ch kids) L ->
    dget (e_cluster e) (flat_map (dmap_item v) L) = Some (data_blocks v ch).
  Proof.
    induction L as [|n L IH]; intros Hsub Hin; [destruct Hin|]. cbn [flat_map].
    destruct n as [e0 ch0|e0 ch0 k0]; cbn [dmap_item app].
    - destruct Hin as [E|Hin]; [discriminate E|]. apply IH; [intros n Hn; apply Hsub; right; exact Hn|exact Hin].
    - cbn [dget]. destruct (N.eqb_spec (e_cluster e0) (e_cluster e)) as [E|E].
      + assert (X : NDir e0 ch0 k0 = NDir e ch kids).
        { apply (dir_nodes_unique fsz vid s vi v bl rch T Hat); [apply Hsub; left; reflexivity| |exact E].
          apply Hsub. exact Hin. }
        injection X as _ <- _. reflexivity.
      + destruct Hin as [X|Hin]; [injection X as -> _ _; contradiction|].
        apply IH; [intros n Hn; apply Hsub; right; exact Hn|exact Hin].
  Qed.

  Theorem dget_dblocks dc bld chd : is_dir_of v bl rch T dc bld chd -> dget dc (dblocks v bl T) = Some bld.
  Proof.
    intros [(-> & -> & ->)|(e & kids & Hn & <- & ->)]; unfold dblocks; cbn [dget].
    - rewrite N.eqb_refl. reflexivity.
    - replace (CL_ROOT =? e_cluster e) with false
        by (symmetry; apply N.eqb_neq; intros E; exact (dir_cluster_not_root fsz vid s vi v bl rch T Hat e chd kids Hn (eq_sym E))).
      apply (dget_ditems e chd kids (all_nodes T)); [intros n Hn'; exact Hn'|exact Hn].
  Qed.

  Theorem dget_dblocks_inv dc bld : dget dc (dblocks v bl T) = Some bld -> exists chd, is_dir_of v bl rch T dc bld chd.
  Proof.
    unfold dblocks. cbn [dget]. destruct (N.eqb_spec CL_ROOT dc) as [<-|E].
    - intros H. injection H as <-. exists rch. left. repeat split.
    - intros H. apply dget_In in H. apply in_flat_map in H. destruct H as (n & Hn & Hi).
      destruct n as [e ch|e ch kids]; [destruct Hi|]. destruct Hi as [X|[]]. injection X as <- <-.
      exists ch. right. exists e, kids. repeat split. exact Hn.
  Qed.
End DirBlocks.

(* the directories of the state after, from those of the state before: k c b = the blocks after of
   the directory c whose blocks were b *)
Lemma dget_transfer fsz vid s vi v bl rch T s' vi' v' bl' rch' T' (k : N -> list N -> list N) :
  fs_inv_at fsz vid s vi v bl rch T -> fs_inv_at fsz vid s' vi' v' bl' rch' T' ->
  (forall c bld chd, is_dir_of v bl rch T c bld chd -> exists chd', is_dir_of v' bl' rch' T' c (k c bld) chd') ->
  (forall c bld' chd', is_dir_of v' bl' rch' T' c bld' chd' -> exists bld chd, is_dir_of v bl rch T c bld chd) ->
  forall c, dget c (dblocks v' bl' T') = option_map (k c) (dget c (dblocks v bl T)).
Proof.
  intros Hat Hat' Hfw Hbw c.
  destruct (dget c (dblocks v bl T)) as [bld|] eqn:E.
  - destruct (dget_dblocks_inv v bl rch T c bld E) as (chd & Hd).
    destruct (Hfw c bld chd Hd) as (chd' & Hd'). cbn [option_map].
    exact (dget_dblocks fsz vid s' vi' v' bl' rch' T' Hat' c _ chd' Hd').
  - cbn [option_map]. destruct (dget c (dblocks v' bl' T')) as [bld'|] eqn:E'; [|reflexivity].
    destruct (dget_dblocks_inv v' bl' rch' T' c bld' E') as (chd' & Hd').
    destruct (Hbw c bld' chd' Hd') as (bld & chd & Hd).
    rewrite (dget_dblocks fsz vid s vi v bl rch T Hat c bld chd Hd) in E. discriminate.
Qed.

(* ---- dirs_slot from the block maps ---- *)
Lemma dirs_slot_intro (grow : bool) p dc bld xb new extra d d' v bl T v' bl' T' mem mem' dk dk' hs hs' :
  dget dc (dblocks v bl T) = Some bld ->
  (forall c, dget c (dblocks v' bl' T') =
             option_map (fun b => if c =? dc then b ++ xb else b) (dget c (dblocks v bl T))) ->
  slots_of d' (bld ++ xb) = map (upd_slot (fst p) (snd p) new) (slots_of d bld ++ extra) ->
  In p (map fst (slots_of d bld ++ extra)) -> Forall zero_slot extra -> (grow = false -> extra = []) ->
  (forall c b, c <> dc -> dget c (dblocks v bl T) = Some b -> slots_of d' b = slots_of d b) ->
  dirs_slot grow p (mk_obs mem dk (dir_view d v bl T) hs) (mk_obs mem' dk' (dir_view d' v' bl' T') hs').
Proof.
  intros Hdc Hmap Hsl Hin Hz Hg Hoth. exists dc, (slots_of d bld), extra, new. cbn [ob_dirs].
  split; [rewrite dget_dir_view_blocks, Hdc; reflexivity|]. split; [exact Hin|]. split; [exact Hz|]. split; [exact Hg|].
  split.
  - rewrite dget_dir_view_blocks, Hmap, Hdc. cbn [option_map]. rewrite N.eqb_refl, Hsl. reflexivity.
  - intros c Hc. rewrite !dget_dir_view_blocks, Hmap.
    replace (c =? dc) with false by (symmetry; apply N.eqb_neq; exact Hc).
    destruct (dget c (dblocks v bl T)) as [b|] eqn:E; [|reflexivity]. cbn [option_map].
    rewrite (Hoth c b Hc E). reflexivity.
Qed.

(* ================================================================== 4. OpenFile: refusals, and the open that keeps the file *)
(* any refusal after a calm run: the observation is unchanged *)
Lemma open_refused_content fsz vid s s' a name md e : observes fsz vid s a -> fs_inv fsz vid s' -> calm s s' ->
  exists a', observes fsz vid s' a' /\ open_content name md (s_clock s) (Err e) a a'.
Proof. intros Ho Hinv' Hc. exact (content_calm fsz vid s s' a Ho Hinv' Hc). Qed.

(* the chain of a record whose entry is the entry of a node is the chain of that node *)
Lemma fchain_node d v e ch f : entry_chain d v e ch -> f_entry f = e -> fchain d v f = ch.
Proof.
  intros [(A1 & fu & A2)|(A1 & ->)] E; unfold fchain; rewrite E.
  - replace (e_cluster e <? 2) with false by (symmetry; apply N.ltb_ge; exact A1).
    exact (chain_l_at _ _ _ _ (chain_at_any _ _ _ _ _ A2)).
  - replace (e_cluster e <? 2) with true by (symmetry; apply N.ltb_lt; exact A1). reflexivity.
Qed.

Lemma open_keep_content fsz vid s vi v bl rch T h name di dd sfn bl' parent kids s1 md t r s' :
  open_ctx fsz vid s vi v bl rch T h name di dd sfn bl' parent kids s1 ->
  find (t_matches sfn) (live_in_blocks (s_disk s) bl') = Some t ->
  PrModes.open_refusal md (Ok (t_entry (v_fat32 v) t)) (PrModes.is_open s1 (d_vol dd) (t_entry (v_fat32 v) t)) = None ->
  md = ReadOnly \/ md = ReadWriteAppend \/ md = ReadWriteCreateOrAppend ->
  fs_inv fsz vid s' -> step (OpenFile h name md) s = (r, s') ->
  exists a', observes fsz vid s' a' /\ open_content name md (s_clock s) r (obs_at s v bl T) a'.
Proof.
  intros [Hat Hfresh Hres Hvol Hroom Hsfn He5 Hdot Hctx Hlook Hro Hrd] Hfind Href Hmd Hinv' Hs.
  rewrite Hfind in Hlook. set (e := t_entry (v_fat32 v) t) in *.
  pose proof (PrModes.C07_open_existing_keep s h di dd 0%nat v name sfn md e s1 Hres Hroom Hsfn Hdot Hlook Href Hmd) as Hopen.
  cbn [step] in Hs. rewrite (lift_ok' _ _ _ _ _ Hopen) in Hs. injection Hs as <- <-.
  destruct (refusal_none_ok _ _ _ Href) as (Hop & Hnd & _).
  pose proof Hro as (Hd & _ & _ & (M1 & _ & M3 & M4 & _)).
  pose proof (go_ro _ _ _ _ _ _ _ _ _ Hat Hro) as Hat1.
  pose proof (sfn_of_str_wf _ _ Hsfn) as Hwf.
  destruct (found_file _ _ _ _ _ _ _ _ _ _ Hctx Hwf He5 Hdot Hfind Hnd) as (ch & Hk & Hall & Hr & Hn & Hshort & Hname).
  fold e in Hk, Hall, Hr.
  pose proof (dx_kids_ok _ _ _ _ _ _ _ _ Hctx) as Hkok. rewrite Forall_forall in Hkok.
  pose proof (Hkok _ Hk) as Hok. apply node_ok_file in Hok. destruct Hok as (Hsz & H32).
  pose proof Hr as Hr0. apply node_rep_file in Hr0. destruct Hr0 as (_ & _ & Hech).
  set (md1 := solve_mode_variant md true).
  set (nf := mk_fileinfo (s_next_id s1) (d_vol dd) 0 (e_cluster e) (PrModes.start_offset md e) md1 e false).
  set (s5 := set_s_files (set_s_next_id s1 ((s_next_id s1 + 1) mod U32)) (s_files s1 ++ [nf])) in *.
  set (p := node_pos (NFile e ch)).
  assert (Hd5 : s_disk s5 = s_disk s) by exact Hd.
  assert (Hv5 : s_vols s5 = [v]) by (change (s_vols s5) with (s_vols s1); rewrite M1; exact (fi_single _ _ _ _ _ _ _ _ Hat)).
  assert (Hf5 : s_files s5 = s_files s ++ [nf]) by (change (s_files s5) with (s_files s1 ++ [nf]); rewrite M3; reflexivity).
  pose proof (fi_disk _ _ _ _ _ _ _ _ Hat) as Hdi.
  destruct (fs_inv_at_of fsz vid s5 v bl rch T Hinv' Hv5 ltac:(rewrite Hd5; exact (di_root _ _ _ _ _ _ Hdi))
              ltac:(rewrite Hd5; exact (di_tree _ _ _ _ _ _ Hdi))) as (vi5 & Hat5).
  assert (Hnokey : ~ In p (map slot_key (s_files s))).
  { rewrite <- M3. rewrite Hvol in Hop. exact (not_open_key s1 (v_id v) e Hop (files_on_vol _ _ _ _ _ _ _ _ Hat1)). }
  assert (Hkey : slot_key nf = p) by reflexivity.
  assert (Hmemp : vget p (mem_view s v T) = Some (disk_fv (s_disk s) v (NFile e ch))).
  { apply (vget_mem_closed fsz vid s vi v bl rch T Hat e ch Hall). intros f Hf E. apply Hnokey. fold p in E. rewrite <- E.
    apply in_map. exact Hf. }
  assert (Hoth : others_same p (obs_at s v bl T) (obs_at s5 v bl T)).
  { apply (others_same_open fsz vid s vi v bl rch T Hat s5 vi5 v bl rch T p nf Hat5 (geo_eq_refl v) Hf5 Hkey).
    - intros e0 ch0 _. tauto.
    - intros e0 ch0 _ _. rewrite Hd5. reflexivity.
    - intros f _. unfold mem_fv. rewrite Hd5. reflexivity. }
  exists (obs_at s5 v bl T). split; [exact (observes_at _ _ _ _ _ _ _ _ Hat5)|].
  unfold open_content. cbn [obs_at ob_handles ob_mem ob_disk ob_dirs].
  split; [rewrite M4; exact (hget_fresh s Hfresh)|].
  exists sfn, p, md1. split; [exact Hsfn|]. split; [exact (not_open_intro s v bl T p Hnokey)|].
  rewrite Hmemp. split; [reflexivity|]. split; [exact Hoth|].
  split; [unfold disk_fv, fv_of; cbn [fv_name node_entry]; unfold e; rewrite t_entry_name; exact Hname|].
  left. split; [destruct Hmd as [-> | [-> | ->]]; cbn; auto|].
  assert (Hnfv : mem_fv s5 v nf = disk_fv (s_disk s) v (NFile e ch)).
  { unfold mem_fv, disk_fv. cbn [f_entry nf node_entry node_chain]. rewrite Hd5.
    rewrite (fchain_node (s_disk s) v e ch nf Hech eq_refl). reflexivity. }
  split; [|split].
  - (* files_same *) intros q. destruct (pos_eqb q p) eqn:Eq.
    + apply pos_eqb_eq in Eq. subst q. split.
      * cbn [obs_at ob_mem]. rewrite Hmemp. rewrite <- Hkey.
        rewrite (vget_mem_open fsz vid s5 vi5 v bl rch T Hat5 nf ltac:(rewrite Hf5; apply in_or_app; right; left; reflexivity)).
        rewrite Hnfv. reflexivity.
      * cbn [obs_at ob_disk]. rewrite Hd5. reflexivity.
    + apply Hoth. intros E. rewrite E, pos_eqb_refl in Eq. discriminate.
  - (* dirs_same *) intros c. cbn [obs_at ob_dirs]. rewrite Hd5. reflexivity.
  - (* the new handle *) intros k. cbn [obs_at ob_handles].
    rewrite (handles_snoc s s5 nf Hf5 ltac:(cbn [f_id nf]; rewrite M4; exact (hget_fresh s Hfresh)) k).
    cbn [f_id nf]. destruct (k =? s_next_id s1); [|reflexivity]. f_equal.
    unfold hinfo_of. cbn [f_mode f_offset f_dirty nf]. rewrite Hkey. f_equal.
    pose proof (fv_of_len fsz vid s vi v bl rch T Hat e ch Hsz) as Hlen.
    unfold disk_fv. cbn [node_entry node_chain].
    destruct Hmd as [-> | [-> | ->]]; cbn [PrModes.start_offset md1 solve_mode_variant open_model_off]; try reflexivity;
      symmetry; exact Hlen.
Qed.

Print Assumptions content_OpenRoot.
Print Assumptions content_OpenDir.
Print Assumptions content_CloseDir.
Print Assumptions content_Find.
Print Assumptions content_Iter.
Print Assumptions content_Label.
Print Assumptions open_keep_content.
