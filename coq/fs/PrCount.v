(* PROOFS: the free-entry COUNT of the FAT and the free-space record (C16, C05), for ALL inputs.
   Spec side: free_entries d v = the number of data clusters c in [2, v_clusters v + 2) whose
   entry in the first FAT copy reads 0.  Proved about the model (FsFat.v / src/fat/volume.rs):
   alloc_cluster lowers it by exactly 1, truncate_cluster_chain / free_cluster_chain raise it by
   exactly the number of clusters cut off, and the in-memory count v_free follows (or becomes
   unknown); the hint stays unknown or a cluster of the volume; a stale record read at mount is
   harmless; update_info_sector stores a truthful count; a volume takes exactly free_entries
   allocations, and a fill / free / refill cycle can be repeated any number of times.
   Sections: 1 counting; 2 alloc; 3 truncate / free; 4 hint; 6 capacity and cycles; 5 info
   sector; 7 examples; 8 assumptions. *)
From Coq Require Import NArith ZArith List Bool Lia Arith ZifyClasses ZifyInst Zify FMapPositive.
From SdFs Require Import FsTypes FsBase FsFat FsMgr FsLemmas PrBase PrFat PrAlloc PrDir PrAllocEffect PrChain.
Import ListNotations.
Open Scope N_scope.
Local Arguments N.mul : simpl never.
Local Arguments N.add : simpl never.
Local Arguments N.sub : simpl never.
Local Arguments N.div : simpl never.
Local Arguments N.modulo : simpl never.
Local Arguments N.land : simpl never.
Local Arguments N.lor : simpl never.
Local Ltac Zify.zify_post_hook ::= Z.to_euclidean_division_equations.

(* ================================================================== 1. counting *)
(* the number of c in [from, from + n) with g c = 0 *)
Fixpoint count_zero (g : N -> N) (n : nat) (from : N) : nat :=
  match n with
  | O => O
  | S n' => ((if N.eqb (g from) 0 then 1 else 0) + count_zero g n' (N.add from 1))%nat
  end.

(* SPEC: the number of free data clusters, read from the first FAT copy *)
Definition free_entries (d : disk) (v : vol) : nat :=
  count_zero (fun c => fat_get d v 0 c) (N.to_nat (v_clusters v)) 2.

Lemma count_zero_le g : forall n from, (count_zero g n from <= n)%nat.
Proof.
  induction n as [|n IH]; intros from; cbn [count_zero]; [lia|].
  specialize (IH (from + 1)). destruct (g from =? 0); lia.
Qed.

(* only which entries are zero matters *)
Lemma count_zero_iff g g' : forall n from,
  (forall c, from <= c -> c < from + N.of_nat n -> (g c = 0 <-> g' c = 0)) ->
  count_zero g n from = count_zero g' n from.
Proof.
  induction n as [|n IH]; intros from H; [reflexivity|]. cbn [count_zero].
  rewrite (IH (from + 1)) by (intros c C1 C2; apply H; lia).
  destruct (H from ltac:(lia) ltac:(lia)) as [A B].
  destruct (N.eqb_spec (g from) 0) as [E|E], (N.eqb_spec (g' from) 0) as [E'|E']; try reflexivity.
  - contradiction (E' (A E)).
  - contradiction (E (B E')).
Qed.

(* one entry goes from free to used: exactly one less *)
Lemma count_zero_fill g g' c : forall n from,
  from <= c -> c < from + N.of_nat n -> g c = 0 -> g' c <> 0 ->
  (forall c', from <= c' -> c' < from + N.of_nat n -> c' <> c -> (g c' = 0 <-> g' c' = 0)) ->
  count_zero g n from = S (count_zero g' n from).
Proof.
  induction n as [|n IH]; intros from C1 C2 G G' H; [lia|]. cbn [count_zero].
  destruct (N.eq_dec c from) as [->|Hne].
  - rewrite (count_zero_iff g g' n (from + 1)) by (intros c' A B; apply H; lia).
    apply N.eqb_eq in G. apply N.eqb_neq in G'. rewrite G, G'. reflexivity.
  - rewrite (IH (from + 1)); [|lia|lia|exact G|exact G'|intros c' A B D; apply H; lia].
    destruct (H from ltac:(lia) ltac:(lia) ltac:(congruence)) as [A B].
    destruct (N.eqb_spec (g from) 0) as [E|E], (N.eqb_spec (g' from) 0) as [E'|E']; try reflexivity.
    + contradiction (E' (A E)).
    + contradiction (E (B E')).
Qed.

(* the entries of a duplicate-free list of clusters of the range go from used to free:
   exactly length l more *)
Lemma count_zero_free_list n from : forall l g g',
  NoDup l -> (forall x, In x l -> from <= x /\ x < from + N.of_nat n) ->
  (forall x, In x l -> g x <> 0) -> (forall x, In x l -> g' x = 0) ->
  (forall c, from <= c -> c < from + N.of_nat n -> ~ In c l -> (g c = 0 <-> g' c = 0)) ->
  count_zero g' n from = (count_zero g n from + length l)%nat.
Proof.
  induction l as [|x l IH]; intros g g' Hnd Hr Hg Hg' Hoth.
  - cbn [length]. rewrite Nat.add_0_r. symmetry. apply count_zero_iff.
    intros c A B. apply Hoth; [exact A|exact B|intros []].
  - inversion Hnd as [|? ? Hx Hnd']; subst.
    set (gm := fun c => if c =? x then g c else g' c).
    assert (Egm : count_zero gm n from = (count_zero g n from + length l)%nat).
    { apply IH.
      - exact Hnd'.
      - intros y Hy. apply Hr. right. exact Hy.
      - intros y Hy. apply Hg. right. exact Hy.
      - intros y Hy. unfold gm. destruct (N.eqb_spec y x) as [->|_]; [contradiction|].
        apply Hg'. right. exact Hy.
      - intros c A B Hni. unfold gm. destruct (N.eqb_spec c x) as [->|Hne]; [tauto|].
        apply Hoth; [exact A|exact B|]. intros [E|Hin]; [congruence|contradiction]. }
    destruct (Hr x (or_introl eq_refl)) as [X1 X2].
    rewrite (count_zero_fill g' gm x n from X1 X2).
    + rewrite Egm. cbn [length]. lia.
    + apply Hg'. left. reflexivity.
    + unfold gm. rewrite N.eqb_refl. apply Hg. left. reflexivity.
    + intros c' A B Hne. unfold gm. destruct (N.eqb_spec c' x) as [E|_]; [contradiction|tauto].
Qed.

Lemma count_zero_none g : forall n from,
  (forall c, from <= c -> c < from + N.of_nat n -> g c <> 0) -> count_zero g n from = O.
Proof.
  induction n as [|n IH]; intros from H; [reflexivity|]. cbn [count_zero].
  rewrite (IH (from + 1)) by (intros c A B; apply H; lia).
  pose proof (H from ltac:(lia) ltac:(lia)) as E. apply N.eqb_neq in E. rewrite E. reflexivity.
Qed.

Lemma count_zero_ex g : forall n from, count_zero g n from <> O ->
  exists c, from <= c /\ c < from + N.of_nat n /\ g c = 0.
Proof.
  induction n as [|n IH]; intros from H; [contradiction H; reflexivity|]. cbn [count_zero] in H.
  destruct (N.eqb_spec (g from) 0) as [E|E].
  - exists from. split; [lia|]. split; [lia|exact E].
  - destruct (IH (from + 1) H) as (c & A & B & C). exists c. split; [lia|]. split; [lia|exact C].
Qed.

(* ---- the same for free_entries ---- *)
Lemma fe_range v : 2 + N.of_nat (N.to_nat (v_clusters v)) = v_clusters v + 2.
Proof. rewrite N2Nat.id. lia. Qed.

Lemma free_entries_le d v : (free_entries d v <= N.to_nat (v_clusters v))%nat.
Proof. apply count_zero_le. Qed.

Lemma free_entries_bound d v : N.of_nat (free_entries d v) <= v_clusters v.
Proof. pose proof (free_entries_le d v). lia. Qed.

(* the count depends on the geometry only, not on the free-space record *)
Lemma free_entries_geo d v w : geo_eq v w -> free_entries d w = free_entries d v.
Proof. intros (a & b & ->). reflexivity. Qed.

Lemma free_entries_iff d d' v :
  (forall c, 2 <= c -> c < v_clusters v + 2 -> (fat_get d v 0 c = 0 <-> fat_get d' v 0 c = 0)) ->
  free_entries d v = free_entries d' v.
Proof. intros H. apply count_zero_iff. rewrite fe_range. exact H. Qed.

(* 1a. an entry changes from 0 to non-zero: exactly one less *)
Lemma free_entries_fill d d' v c :
  2 <= c -> c < v_clusters v + 2 -> fat_get d v 0 c = 0 -> fat_get d' v 0 c <> 0 ->
  (forall c', 2 <= c' -> c' < v_clusters v + 2 -> c' <> c ->
     (fat_get d v 0 c' = 0 <-> fat_get d' v 0 c' = 0)) ->
  free_entries d v = S (free_entries d' v).
Proof.
  intros C1 C2 G G' H.
  apply (count_zero_fill (fun c => fat_get d v 0 c) (fun c => fat_get d' v 0 c) c);
    rewrite ?fe_range; assumption.
Qed.

(* 1b. entries change from non-zero to non-zero (and others not at all): same count *)
Lemma free_entries_keep d d' v (changed : N -> Prop) :
  (forall c, changed c -> fat_get d v 0 c <> 0 /\ fat_get d' v 0 c <> 0) ->
  (forall c, 2 <= c -> c < v_clusters v + 2 -> ~ changed c -> fat_get d' v 0 c = fat_get d v 0 c) ->
  (forall c, changed c \/ ~ changed c) ->
  free_entries d v = free_entries d' v.
Proof.
  intros Hc Ho Hdec. apply free_entries_iff. intros c C1 C2.
  destruct (Hdec c) as [Y|Nn].
  - destruct (Hc c Y) as [A B]. tauto.
  - rewrite (Ho c C1 C2 Nn). tauto.
Qed.

(* 1c. the entries of a duplicate-free list of clusters change from non-zero to 0 *)
Lemma free_entries_free_list d d' v l :
  NoDup l -> Forall (fun x => 2 <= x /\ x < v_clusters v + 2) l ->
  (forall x, In x l -> fat_get d v 0 x <> 0) -> (forall x, In x l -> fat_get d' v 0 x = 0) ->
  (forall c, 2 <= c -> c < v_clusters v + 2 -> ~ In c l ->
     (fat_get d v 0 c = 0 <-> fat_get d' v 0 c = 0)) ->
  free_entries d' v = (free_entries d v + length l)%nat.
Proof.
  intros Hnd Hr Hg Hg' Ho. rewrite Forall_forall in Hr.
  apply (count_zero_free_list _ 2 l (fun c => fat_get d v 0 c) (fun c => fat_get d' v 0 c));
    rewrite ?fe_range; assumption.
Qed.

Lemma free_entries_none d v :
  (forall c, 2 <= c -> c < v_clusters v + 2 -> fat_get d v 0 c <> 0) -> free_entries d v = O.
Proof. intros H. apply count_zero_none. rewrite fe_range. exact H. Qed.

Lemma free_entries_ex d v : free_entries d v <> O ->
  exists c, 2 <= c /\ c < v_clusters v + 2 /\ fat_get d v 0 c = 0.
Proof.
  intros H. destruct (count_zero_ex _ _ _ H) as (c & A & B & C). rewrite fe_range in B.
  exists c. repeat split; assumption.
Qed.

Lemma free_entries_pos d v c : 2 <= c -> c < v_clusters v + 2 -> fat_get d v 0 c = 0 ->
  free_entries d v <> O.
Proof.
  intros C1 C2 G E.
  assert (H : free_entries d v = S (count_zero (fun c' => if c' =? c then 1 else fat_get d v 0 c')
                                    (N.to_nat (v_clusters v)) 2)).
  { apply (count_zero_fill (fun c => fat_get d v 0 c) _ c); rewrite ?fe_range; try assumption.
    - rewrite N.eqb_refl. discriminate.
    - intros c' _ _ Hne. apply N.eqb_neq in Hne. rewrite Hne. tauto. }
  rewrite E in H. discriminate H.
Qed.

(* the in-memory count says the truth *)
Definition truthful (d : disk) (v : vol) : Prop := v_free v = Some (N.of_nat (free_entries d v)).
(* a known count is a u32 (the field is an Option<u32>) *)
Definition free_u32 (v : vol) : Prop := forall n, v_free v = Some n -> n < U32.

Lemma truthful_u32 d v : vol_ok v -> truthful d v -> free_u32 v.
Proof.
  intros [H1 _ _ _] T n E. unfold truthful in T. rewrite T in E. inversion E; subst n.
  pose proof (free_entries_bound d v). unfold U32 in *. lia.
Qed.

(* ================================================================== 2. alloc_cluster *)
(* the FAT type fits the cluster count: a data-cluster number stored as a link is neither
   truncated nor a bad-cluster / end-of-chain mark (FAT16: at most 65525 clusters, FAT32: at
   most 268435445; the mount code derives the FAT type from the cluster count) *)
Definition link_ok (v : vol) : Prop := v_clusters v + 2 <= fat_bad v.

Lemma enc_link v c : link_ok v -> c < v_clusters v + 2 -> enc v c = c.
Proof.
  intros L Hc. apply enc_cluster; [exact Hc|]. unfold link_ok, fat_bad in L. destruct (v_fat32 v); lia.
Qed.

Lemma enc_eof_nz v : enc v CL_EOF <> 0.
Proof. rewrite enc_eof. destruct (v_fat32 v); discriminate. Qed.

Lemma link_ok_geo v w : geo_eq v w -> link_ok v -> link_ok w.
Proof. intros (a & b & ->) H. exact H. Qed.

(* the count after one allocation, case by case: a wrong count never makes the operation fail
   or panic - a known 0 becomes unknown *)
Lemma dec_free_cases o :
  (forall n, o = Some n -> 1 <= n -> dec_free o = Some (n - 1)) /\
  (o = Some 0 -> dec_free o = None) /\ (o = None -> dec_free o = None).
Proof.
  split; [|split].
  - intros n -> Hn. cbn [dec_free]. apply N.leb_le in Hn. rewrite Hn. reflexivity.
  - intros ->. reflexivity.
  - intros ->. reflexivity.
Qed.

Definition prev_inuse (d : disk) (v : vol) (prev : option N) : Prop :=
  forall p, prev = Some p -> 2 <= p /\ p < v_clusters v + 2 /\ fat_get d v 0 p <> 0.

Theorem alloc_count_delta vi v fsz prev (zero : bool) s c s' :
  alloc_pre s vi v fsz -> link_ok v -> prev_inuse (s_disk s) v prev ->
  alloc_cluster vi prev zero s = (Ok c, s') ->
  free_entries (s_disk s) v = S (free_entries (s_disk s') v) /\
  exists v', nth_error (s_vols s') vi = Some v' /\ geo_eq v v' /\ alloc_pre s' vi v' fsz /\
    v_free v' = dec_free (v_free v) /\
    (forall n, v_free v = Some n -> 1 <= n -> v_free v' = Some (n - 1)) /\
    (v_free v = Some 0 -> v_free v' = None) /\
    (v_free v = None -> v_free v' = None) /\
    (truthful (s_disk s) v -> truthful (s_disk s') v').
Proof.
  intros Hpre Hl Hprev H.
  assert (Hprev' : forall p, prev = Some p -> p < v_clusters v + 2 /\ fat_get (s_disk s) v 0 p <> 0).
  { intros p Hp. destruct (Hprev p Hp) as (_ & A & B). split; assumption. }
  destruct (alloc_cluster_effect_inuse vi v fsz prev zero s c s' Hpre Hprev' H) as (Heff & Hne & Hnew).
  pose proof Hpre as (Hst & L & Hh). pose proof Hst as (_ & _ & Hv & _).
  destruct (ae_range _ _ _ _ _ _ _ _ Heff) as (R1 & R2 & R3).
  assert (Hcount : free_entries (s_disk s) v = S (free_entries (s_disk s') v)).
  { apply (free_entries_fill _ _ v c R1 R2 R3).
    - rewrite Hnew. apply enc_eof_nz.
    - intros c' C1 C2 Hc'.
      destruct prev as [p|].
      + destruct (N.eq_dec c' p) as [->|Hp].
        * destruct (Hprev p eq_refl) as (_ & _ & B).
          rewrite (ae_prev _ _ _ _ _ _ _ _ Heff p eq_refl), (enc_link v c Hl R2). split; intros E; [contradiction|lia].
        * rewrite (ae_other _ _ _ _ _ _ _ _ Heff c' (layout_sector v fsz c' L C2) Hc'); [tauto|congruence].
      + rewrite (ae_other _ _ _ _ _ _ _ _ Heff c' (layout_sector v fsz c' L C2) Hc'); [tauto|discriminate]. }
  split; [exact Hcount|].
  destruct (alloc_cluster_keeps_pre vi v fsz prev zero s c s' Hpre (fun p Hp => proj1 (Hprev' p Hp)) H)
    as (v' & Hv' & Hpre' & _ & Hfree & _).
  destruct (ae_vol _ _ _ _ _ _ _ _ Heff) as (nf & Evols & _).
  assert (Ev' : v' = set_v_free (set_v_next_free v nf) (dec_free (v_free v))).
  { rewrite Evols, (ls_nth_same _ _ _ _ Hv) in Hv'. inversion Hv'. reflexivity. }
  assert (G : geo_eq v v') by (exists nf, (dec_free (v_free v)); exact Ev').
  exists v'. split; [exact Hv'|]. split; [exact G|]. split; [exact Hpre'|]. split; [exact Hfree|].
  destruct (dec_free_cases (v_free v)) as (D1 & D2 & D3).
  split; [intros n E Hn; rewrite Hfree; exact (D1 n E Hn)|].
  split; [intros E; rewrite Hfree; exact (D2 E)|].
  split; [intros E; rewrite Hfree; exact (D3 E)|].
  unfold truthful. intros T. rewrite Hfree, (free_entries_geo _ v v' G), T, Hcount.
  cbn [dec_free]. replace (1 <=? N.of_nat (S (free_entries (s_disk s') v))) with true
    by (symmetry; apply N.leb_le; lia).
  f_equal. lia.
Qed.

(* a truthful count stays truthful, in one line *)
Corollary alloc_keeps_truthful vi v fsz prev (zero : bool) s c s' v' :
  alloc_pre s vi v fsz -> link_ok v -> prev_inuse (s_disk s) v prev ->
  alloc_cluster vi prev zero s = (Ok c, s') -> nth_error (s_vols s') vi = Some v' ->
  truthful (s_disk s) v -> truthful (s_disk s') v'.
Proof.
  intros Hpre Hl Hprev H Hv' T.
  destruct (alloc_count_delta vi v fsz prev zero s c s' Hpre Hl Hprev H) as (_ & v2 & Hv2 & _ & _ & _ & _ & _ & _ & K).
  rewrite Hv2 in Hv'. inversion Hv'; subst v2. exact (K T).
Qed.

(* ================================================================== 3. truncate / free *)
(* every cluster of a defined chain is in use: its entry is a link or an end-of-chain mark *)
Lemma chain_entries_inuse d v : forall f c l, chain_of d v c f = Some l ->
  forall x, In x l -> fat_get d v 0 x <> 0.
Proof.
  induction f as [|f IH]; intros c l H x Hx; [discriminate|].
  cbn [chain_of] in H.
  destruct ((2 <=? c) && (c <? v_clusters v + 2)); [|discriminate]. cbv zeta in H.
  rewrite fat_entry_get in H.
  destruct (fat_get d v 0 c =? fat_bad v); [discriminate|].
  destruct (fat_eoc_min v <=? fat_get d v 0 c) eqn:He.
  - inversion H; subst l. destruct Hx as [<-|[]]. apply N.leb_le in He.
    unfold fat_eoc_min in He. destruct (v_fat32 v); lia.
  - destruct (chain_of d v (fat_get d v 0 c) f) as [l0|] eqn:E; [|discriminate].
    inversion H; subst l. destruct Hx as [<-|Hx].
    + destruct (chain_of_head _ _ _ _ _ E) as (N1 & _). lia.
    + exact (IH _ _ E x Hx).
Qed.

Lemma geo_trunc v rest : geo_eq v (trunc_vol v rest).
Proof. destruct rest; [apply geo_eq_refl|]. apply geo_eq_free, geo_eq_next, geo_eq_refl. Qed.

Lemma geo_free v c rest : geo_eq v (free_vol v c rest).
Proof. unfold free_vol. apply geo_eq_next, geo_eq_free, geo_trunc. Qed.

Lemma geo_eq_trans a b c : geo_eq a b -> geo_eq b c -> geo_eq a c.
Proof. intros (x & y & ->) (x' & y' & ->). exists x', y'. reflexivity. Qed.

(* the count after k more entries became free, case by case *)
Lemma add_free_cases o k :
  (forall n, o = Some n -> n + k < U32 -> add_free o k = Some (n + k)) /\
  (forall n, o = Some n -> U32 <= n + k -> add_free o k = None) /\
  (o = None -> add_free o k = None).
Proof.
  split; [|split].
  - intros n -> Hn. cbn [add_free]. apply N.ltb_lt in Hn. rewrite Hn. reflexivity.
  - intros n -> Hn. cbn [add_free]. apply N.ltb_ge in Hn. rewrite Hn. reflexivity.
  - intros ->. reflexivity.
Qed.

(* a truthful count that follows the FAT stays truthful *)
Lemma truthful_add d d' v w k :
  vol_ok v -> geo_eq v w -> truthful d v ->
  free_entries d' v = (free_entries d v + k)%nat ->
  v_free w = add_free (v_free v) (N.of_nat k) -> truthful d' w.
Proof.
  intros [H1 _ _ _] G T Hc Hf. unfold truthful in *.
  rewrite Hf, (free_entries_geo _ v w G), T, Hc. cbn [add_free].
  pose proof (free_entries_bound d' v) as B. rewrite Hc in B.
  replace (N.of_nat (free_entries d v) + N.of_nat k <? U32) with true
    by (symmetry; apply N.ltb_lt; unfold U32 in *; lia).
  f_equal. lia.
Qed.

Theorem truncate_count_delta vi v fsz s c rest fuel :
  alloc_pre s vi v fsz -> chain_of (s_disk s) v c fuel = Some (c :: rest) ->
  exists s', truncate_cluster_chain vi c s = (Ok tt, s') /\
    free_entries (s_disk s') v = (free_entries (s_disk s) v + length rest)%nat /\
    nth_error (s_vols s') vi = Some (trunc_vol v rest) /\ geo_eq v (trunc_vol v rest) /\
    alloc_pre s' vi (trunc_vol v rest) fsz /\
    (free_u32 v -> v_free (trunc_vol v rest) = add_free (v_free v) (N.of_nat (length rest))) /\
    (v_free v = None -> v_free (trunc_vol v rest) = None) /\
    (truthful (s_disk s) v -> truthful (s_disk s') (trunc_vol v rest)).
Proof.
  intros Hpre Hch. pose proof Hpre as (Hst & L & Hh).
  destruct (truncate_cluster_chain_effect vi v fsz s c rest fuel L Hst Hch) as (s' & Hrun & Heff).
  exists s'. split; [exact Hrun|].
  pose proof (chain_of_nodup _ _ _ _ _ Hch) as Hnd. inversion Hnd as [|? ? Hcni Hnd']; subst.
  pose proof (chain_of_range _ _ _ _ _ Hch) as Hr. inversion Hr as [|? ? Hcr Hr']; subst.
  assert (Hcount : free_entries (s_disk s') v = (free_entries (s_disk s) v + length rest)%nat).
  { apply free_entries_free_list; [exact Hnd'|exact Hr'| | |].
    - intros x Hx. apply (chain_entries_inuse _ _ _ _ _ Hch). right. exact Hx.
    - exact (te_freed _ _ _ _ _ _ _ Heff).
    - intros c' C1 C2 Hni. pose proof (layout_sector v fsz c' L C2) as Hq.
      destruct (N.eq_dec c' c) as [->|Hne].
      + destruct rest as [|n tl].
        * rewrite (te_other _ _ _ _ _ _ _ Heff c Hq Hni (fun _ => eq_refl)). tauto.
        * rewrite (te_head _ _ _ _ _ _ _ Heff ltac:(discriminate)).
          pose proof (chain_entries_inuse _ _ _ _ _ Hch c (or_introl eq_refl)) as A.
          pose proof (enc_eof_nz v) as B. tauto.
      + rewrite (te_other _ _ _ _ _ _ _ Heff c' Hq Hni (fun E => False_ind _ (Hne E))). tauto. }
  split; [exact Hcount|].
  destruct (te_inv _ _ _ _ _ _ _ Heff) as (_ & _ & Hv' & _).
  split; [exact Hv'|]. split; [apply geo_trunc|].
  split; [exact (truncate_cluster_chain_keeps_pre vi v fsz s c rest fuel s' Hpre Hch Hrun)|].
  split; [intros U; apply trunc_vol_free; exact U|].
  split.
  { intros E. destruct rest as [|n tl]; [exact E|]. cbn [trunc_vol v_free set_v_free]. rewrite E. reflexivity. }
  intros T. apply (truthful_add (s_disk s) (s_disk s') v _ (length rest) (fl_vol v fsz L) (geo_trunc v rest) T Hcount).
  apply trunc_vol_free. exact (truthful_u32 _ v (fl_vol v fsz L) T).
Qed.

Theorem free_chain_count_delta vi v fsz s c rest fuel :
  alloc_pre s vi v fsz -> chain_of (s_disk s) v c fuel = Some (c :: rest) ->
  exists s', free_cluster_chain vi c s = (Ok tt, s') /\
    free_entries (s_disk s') v = (free_entries (s_disk s) v + S (length rest))%nat /\
    nth_error (s_vols s') vi = Some (free_vol v c rest) /\ geo_eq v (free_vol v c rest) /\
    alloc_pre s' vi (free_vol v c rest) fsz /\
    v_free (free_vol v c rest) = add_free (v_free v) (N.of_nat (S (length rest))) /\
    (v_free v = None -> v_free (free_vol v c rest) = None) /\
    (truthful (s_disk s) v -> truthful (s_disk s') (free_vol v c rest)).
Proof.
  intros Hpre Hch. pose proof Hpre as (Hst & L & Hh).
  destruct (free_cluster_chain_effect vi v fsz s c rest fuel L Hst Hch) as (s' & Hrun & Heff).
  exists s'. split; [exact Hrun|].
  assert (Hcount : free_entries (s_disk s') v = (free_entries (s_disk s) v + S (length rest))%nat).
  { change (S (length rest)) with (length (c :: rest)).
    apply free_entries_free_list.
    - exact (chain_of_nodup _ _ _ _ _ Hch).
    - exact (chain_of_range _ _ _ _ _ Hch).
    - exact (chain_entries_inuse _ _ _ _ _ Hch).
    - exact (fe_freed _ _ _ _ _ _ _ Heff).
    - intros c' C1 C2 Hni.
      rewrite (fe_other _ _ _ _ _ _ _ Heff c' (layout_sector v fsz c' L C2) Hni). tauto. }
  split; [exact Hcount|].
  destruct (fe_inv _ _ _ _ _ _ _ Heff) as (_ & _ & Hv' & _).
  split; [exact Hv'|]. split; [apply geo_free|].
  split; [exact (free_cluster_chain_keeps_pre vi v fsz s c rest fuel s' Hpre Hch Hrun)|].
  split; [apply free_vol_free|].
  split; [intros E; rewrite free_vol_free, E; reflexivity|].
  intros T. apply (truthful_add (s_disk s) (s_disk s') v _ (S (length rest)) (fl_vol v fsz L) (geo_free v c rest) T Hcount).
  apply free_vol_free.
Qed.

(* ================================================================== 4. the hint *)
(* the hint is unknown or a data cluster of the volume (hint_ok with the upper bound) *)
Definition hint_in (v : vol) : Prop :=
  forall h, v_next_free v = Some h -> 2 <= h /\ h < v_clusters v + 2.

Lemma hint_in_ok v : hint_in v -> hint_ok v.
Proof. intros H h E. exact (proj1 (H h E)). Qed.

Lemma min_hint_in cl o x : (forall h, o = Some h -> 2 <= h) -> 2 <= x -> x < cl + 2 ->
  forall h, min_hint o x = Some h -> 2 <= h /\ h < cl + 2.
Proof.
  intros Ho X1 X2 h E. destruct o as [nf|]; cbn [min_hint] in E.
  - specialize (Ho nf eq_refl). destruct (N.ltb_spec x nf); inversion E; subst h; lia.
  - inversion E; subst h. lia.
Qed.

(* after an allocation the hint is unknown or a FREE data cluster - whatever it was before *)
Theorem C16_hint_range_alloc vi v fsz prev (zero : bool) s c s' v' :
  alloc_pre s vi v fsz -> (forall p, prev = Some p -> p < v_clusters v + 2) ->
  alloc_cluster vi prev zero s = (Ok c, s') -> nth_error (s_vols s') vi = Some v' ->
  hint_in v' /\ (forall h, v_next_free v' = Some h -> fat_get (s_disk s') v 0 h = 0) /\
  (v_next_free v' = None -> free_entries (s_disk s') v = O).
Proof.
  intros Hpre Hprev H Hv'.
  pose proof (alloc_cluster_effect vi v fsz prev zero s c s' Hpre Hprev H) as Heff.
  destruct Hpre as ((_ & _ & Hv & _) & _ & _).
  destruct (ae_vol _ _ _ _ _ _ _ _ Heff) as (nf & Evols & Hnf).
  rewrite Evols, (ls_nth_same _ _ _ _ Hv) in Hv'. inversion Hv'; subst v'. clear Hv'.
  split; [|split].
  - intros h E. cbn in E. subst nf. destruct Hnf as (A & B & _). split; assumption.
  - intros h E. cbn in E. subst nf. destruct Hnf as (_ & _ & C). exact C.
  - intros E. cbn in E. subst nf. apply free_entries_none. exact Hnf.
Qed.

(* after truncate: unchanged when nothing was cut, otherwise min(old hint, first freed cluster):
   in range as soon as the old hint was not a reserved entry *)
Theorem C16_hint_range_truncate v d c rest fuel :
  chain_of d v c fuel = Some (c :: rest) ->
  (hint_in v -> hint_in (trunc_vol v rest)) /\
  (hint_ok v -> rest <> [] -> hint_in (trunc_vol v rest)).
Proof.
  intros Hch.
  assert (K : hint_ok v -> rest <> [] -> hint_in (trunc_vol v rest)).
  { intros Hh Hne. destruct rest as [|n tl]; [contradiction Hne; reflexivity|].
    destruct (chain_step _ _ _ _ _ Hch) as (_ & _ & _ & _ & N1 & N2 & _).
    intros h E. rewrite trunc_vol_next in E. change (v_clusters (trunc_vol v (n :: tl))) with (v_clusters v).
    exact (min_hint_in (v_clusters v) (v_next_free v) n Hh N1 N2 h E). }
  split; [|exact K].
  intros Hi. destruct rest as [|n tl]; [exact Hi|]. apply K; [apply hint_in_ok; exact Hi|discriminate].
Qed.

(* after free_cluster_chain: always in range as soon as the old hint was not a reserved entry *)
Theorem C16_hint_range_free v d c rest fuel :
  chain_of d v c fuel = Some (c :: rest) -> hint_ok v -> hint_in (free_vol v c rest).
Proof.
  intros Hch Hh. destruct (chain_step _ _ _ _ _ Hch) as (X1 & X2 & _).
  pose proof (trunc_vol_hint v d c rest fuel Hh Hch) as Ht.
  intros h E. rewrite free_vol_next in E.
  change (v_clusters (free_vol v c rest)) with (v_clusters (trunc_vol v rest)).
  rewrite (geo_clusters _ _ (geo_trunc v rest)).
  exact (min_hint_in (v_clusters v) _ c Ht X1 X2 h E).
Qed.

(* the three together: the invariant "unknown or inside the volume" is kept by every function
   that touches the record *)
Theorem C16_hint_range :
  (forall vi v fsz prev (zero : bool) s c s' v',
     alloc_pre s vi v fsz -> (forall p, prev = Some p -> p < v_clusters v + 2) ->
     alloc_cluster vi prev zero s = (Ok c, s') -> nth_error (s_vols s') vi = Some v' -> hint_in v') /\
  (forall vi v fsz s c rest fuel s',
     alloc_pre s vi v fsz -> hint_in v -> chain_of (s_disk s) v c fuel = Some (c :: rest) ->
     truncate_cluster_chain vi c s = (Ok tt, s') ->
     exists v', nth_error (s_vols s') vi = Some v' /\ hint_in v') /\
  (forall vi v fsz s c rest fuel s',
     alloc_pre s vi v fsz -> chain_of (s_disk s) v c fuel = Some (c :: rest) ->
     free_cluster_chain vi c s = (Ok tt, s') ->
     exists v', nth_error (s_vols s') vi = Some v' /\ hint_in v').
Proof.
  split; [|split].
  - intros vi v fsz prev zero s c s' v' Hpre Hprev H Hv'.
    exact (proj1 (C16_hint_range_alloc vi v fsz prev zero s c s' v' Hpre Hprev H Hv')).
  - intros vi v fsz s c rest fuel s' Hpre Hi Hch H.
    destruct (truncate_count_delta vi v fsz s c rest fuel Hpre Hch) as (s2 & Hrun & _ & Hv' & _).
    rewrite H in Hrun. inversion Hrun; subst s2.
    exists (trunc_vol v rest). split; [exact Hv'|].
    exact (proj1 (C16_hint_range_truncate v _ c rest fuel Hch) Hi).
  - intros vi v fsz s c rest fuel s' Hpre Hch H.
    destruct (free_chain_count_delta vi v fsz s c rest fuel Hpre Hch) as (s2 & Hrun & _ & Hv' & _).
    rewrite H in Hrun. inversion Hrun; subst s2.
    exists (free_vol v c rest). split; [exact Hv'|].
    destruct Hpre as (_ & _ & Hh). exact (C16_hint_range_free v _ c rest fuel Hch Hh).
Qed.

(* A stale record found at mount is harmless.  Take ANY hint (not a reserved entry: the mount
   code drops 0 and 1, see PrAlloc.alloc_needs_hint_ok) and ANY count - both possibly far
   outside the volume - in the volume record.  alloc_cluster does not panic, does not run out of
   fuel, reports no device error; it fails with NotEnoughSpace exactly when the FAT has no free
   entry, otherwise it hands out a free data cluster, and the record it leaves has a hint in
   range (or unknown) and the count decremented (or unknown). *)
Theorem C16_stale_hint_harmless vi v fsz prev (zero : bool) s (hint cnt : option N) :
  alloc_pre s vi v fsz -> (forall p, prev = Some p -> p < v_clusters v + 2) ->
  (forall h, hint = Some h -> 2 <= h) ->
  let vs := set_v_free (set_v_next_free v hint) cnt in
  let ss := set_s_vols s (list_set (s_vols s) vi vs) in
  exists o s', alloc_cluster vi prev zero ss = (o, s') /\
    ((o = Err NotEnoughSpace /\ free_entries (s_disk s) v = O /\ s_disk s' = s_disk s)
     \/ (exists c, o = Ok c /\ free_entries (s_disk s) v <> O /\
           2 <= c /\ c < v_clusters v + 2 /\ fat_get (s_disk s) v 0 c = 0 /\
           exists v', nth_error (s_vols s') vi = Some v' /\ hint_in v' /\ v_free v' = dec_free cnt)).
Proof.
  intros (Hst & L & _) Hprev Hhint vs ss.
  assert (G : geo_eq v vs) by (exists hint, cnt; reflexivity).
  assert (Hpre : alloc_pre ss vi vs fsz).
  { split; [exact (st_ok_put vi v vs fsz s Hst G)|]. split; [apply fat_layout_free; exact L|].
    intros h E. apply Hhint. exact E. }
  destruct (alloc_cluster_total vi vs fsz prev zero ss Hpre Hprev) as (o & s' & Hrun & Hres).
  exists o, s'. split; [exact Hrun|].
  destruct Hres as [(Eo & Hnone & Hd & _)|(c & Eo & Heff)].
  - left. split; [exact Eo|]. split; [|exact Hd].
    apply free_entries_none. exact Hnone.
  - right. exists c. split; [exact Eo|].
    destruct (ae_range _ _ _ _ _ _ _ _ Heff) as (R1 & R2 & R3).
    change (fat_get (s_disk s) v 0 c = 0) in R3. change (c < v_clusters v + 2) in R2.
    split; [exact (free_entries_pos _ v c R1 R2 R3)|].
    split; [exact R1|]. split; [exact R2|]. split; [exact R3|].
    destruct (ae_vol _ _ _ _ _ _ _ _ Heff) as (nf & Evols & Hnf).
    destruct Hpre as ((_ & _ & Hvs & _) & _ & _).
    eexists. split; [rewrite Evols; exact (ls_nth_same _ _ _ _ Hvs)|].
    split; [|reflexivity].
    intros h E. cbn in E. subst nf. destruct Hnf as (A & B & _). split; assumption.
Qed.

(* ================================================================== 6. capacity (C05) *)
(* ---- records with the same geometry read the same FAT ---- *)
Lemma fat_get_geo d v w c : geo_eq v w -> fat_get d w 0 c = fat_get d v 0 c.
Proof. intros (a & b & ->). reflexivity. Qed.

Lemma chain_of_geo d v w : geo_eq v w -> forall f c, chain_of d w c f = chain_of d v c f.
Proof.
  intros (a & b & ->). induction f as [|f IH]; intros c; [reflexivity|].
  cbn [chain_of]. cbv zeta. rewrite IH. reflexivity.
Qed.

Lemma chain_of_S d v c f :
  chain_of d v c (S f) =
  if (2 <=? c) && (c <? v_clusters v + 2) then
    if fat_get d v 0 c =? fat_bad v then None
    else if fat_eoc_min v <=? fat_get d v 0 c then Some [c]
    else match chain_of d v (fat_get d v 0 c) f with Some l => Some (c :: l) | None => None end
  else None.
Proof. cbn [chain_of]. cbv zeta. rewrite fat_entry_get. reflexivity. Qed.

Lemma bad_lt_eoc v : fat_bad v < fat_eoc_min v.
Proof. unfold fat_bad, fat_eoc_min. destruct (v_fat32 v); lia. Qed.

Lemma eof_is_eoc v : fat_eoc_min v <= enc v CL_EOF.
Proof. rewrite enc_eof. unfold fat_eoc_min. destruct (v_fat32 v); lia. Qed.

(* a cluster whose entry is an end-of-chain mark is a one-cluster chain *)
Lemma chain_single d v c f : 2 <= c -> c < v_clusters v + 2 -> fat_eoc_min v <= fat_get d v 0 c ->
  chain_of d v c (S f) = Some [c].
Proof.
  intros C1 C2 He. rewrite chain_of_S.
  replace ((2 <=? c) && (c <? v_clusters v + 2)) with true
    by (symmetry; apply andb_true_iff; split; [apply N.leb_le|apply N.ltb_lt]; assumption).
  pose proof (bad_lt_eoc v) as B.
  replace (fat_get d v 0 c =? fat_bad v) with false by (symmetry; apply N.eqb_neq; lia).
  replace (fat_eoc_min v <=? fat_get d v 0 c) with true by (symmetry; apply N.leb_le; exact He).
  reflexivity.
Qed.

(* linking a fresh end-of-chain cluster c after the last cluster of a chain extends the chain *)
Lemma chain_snoc d d' v c : link_ok v -> 2 <= c -> c < v_clusters v + 2 ->
  fat_eoc_min v <= fat_get d' v 0 c ->
  forall pre first last f,
  chain_of d v first f = Some (pre ++ [last]) ->
  (forall x, In x pre -> fat_get d' v 0 x = fat_get d v 0 x) ->
  fat_get d' v 0 last = c ->
  chain_of d' v first (S f) = Some (pre ++ [last; c]).
Proof.
  intros Hl C1 C2 He. pose proof (bad_lt_eoc v) as B. unfold link_ok in Hl.
  induction pre as [|x pre IH]; intros first last f H Hsame Hlast; cbn [app] in *.
  - destruct (chain_of_head _ _ _ _ _ H) as (F1 & F2 & l' & El). inversion El; subst first l'.
    destruct f as [|f]; [discriminate|].
    rewrite chain_of_S.
    replace ((2 <=? last) && (last <? v_clusters v + 2)) with true
      by (symmetry; apply andb_true_iff; split; [apply N.leb_le|apply N.ltb_lt]; assumption).
    rewrite Hlast.
    replace (c =? fat_bad v) with false by (symmetry; apply N.eqb_neq; lia).
    replace (fat_eoc_min v <=? c) with false by (symmetry; apply N.leb_gt; lia).
    rewrite (chain_single d' v c f C1 C2 He). reflexivity.
  - destruct f as [|f]; [discriminate|].
    rewrite chain_of_S in H. rewrite chain_of_S.
    destruct ((2 <=? first) && (first <? v_clusters v + 2)); [|discriminate].
    destruct (fat_get d v 0 first =? fat_bad v) eqn:Eb; [discriminate|].
    destruct (fat_eoc_min v <=? fat_get d v 0 first) eqn:Ee.
    + inversion H as [[E1 E2]]. destruct pre; discriminate E2.
    + destruct (chain_of d v (fat_get d v 0 first) f) as [l0|] eqn:E; [|discriminate].
      inversion H; subst first l0.
      rewrite (Hsame x (or_introl eq_refl)), Eb, Ee.
      rewrite (IH _ last f E); [reflexivity| |exact Hlast].
      intros y Hy. apply Hsame. right. exact Hy.
Qed.

(* ---- m allocations in a row, each linked after the previous one ---- *)
Fixpoint alloc_n (vi : nat) (m : nat) (last : N) : M (list N) :=
  match m with
  | O => ret []
  | S m' => c <- alloc_cluster vi (Some last) false ;; l <- alloc_n vi m' c ;; ret (c :: l)
  end.

Definition in_vol (v : vol) (c : N) : Prop := 2 <= c /\ c < v_clusters v + 2.

Lemma alloc_n_spec vi fsz : forall m v s last,
  alloc_pre s vi v fsz -> link_ok v -> in_vol v last -> fat_get (s_disk s) v 0 last <> 0 ->
  (m <= free_entries (s_disk s) v)%nat ->
  exists l s' v', alloc_n vi m last s = (Ok l, s') /\ length l = m /\ Forall (in_vol v) l /\
    nth_error (s_vols s') vi = Some v' /\ geo_eq v v' /\ alloc_pre s' vi v' fsz /\
    free_entries (s_disk s') v = (free_entries (s_disk s) v - m)%nat /\
    (truthful (s_disk s) v -> truthful (s_disk s') v') /\
    (v_free v = None -> v_free v' = None) /\
    (forall first f pre, chain_of (s_disk s) v first f = Some (pre ++ [last]) ->
       chain_of (s_disk s') v first (f + m) = Some (pre ++ last :: l)).
Proof.
  induction m as [|m IH]; intros v s last Hpre Hl (L1 & L2) Lu Hm.
  - exists [], s, v. cbn [alloc_n length]. split; [reflexivity|]. split; [reflexivity|].
    split; [constructor|]. pose proof Hpre as ((_ & _ & Hv & _) & _ & _).
    split; [exact Hv|]. split; [apply geo_eq_refl|]. split; [exact Hpre|].
    split; [lia|]. split; [exact (fun T => T)|]. split; [exact (fun E => E)|].
    intros first f pre H. rewrite Nat.add_0_r. exact H.
  - pose proof Hpre as (Hst & L & Hh).
    assert (Hfe : free_entries (s_disk s) v <> O) by lia.
    destruct (free_entries_ex _ _ Hfe) as (j & J1 & J2 & J3).
    assert (Hprev : forall p, Some last = Some p -> p < v_clusters v + 2)
      by (intros p E; inversion E; subst p; exact L2).
    assert (Hinuse : prev_inuse (s_disk s) v (Some last))
      by (intros p E; inversion E; subst p; repeat split; assumption).
    destruct (alloc_cluster_succeeds vi v fsz (Some last) false s j Hpre Hprev J1 J2 J3) as (c & s1 & Hrun).
    destruct (alloc_count_delta vi v fsz (Some last) false s c s1 Hpre Hl Hinuse Hrun)
      as (Hcnt & v1 & Hv1 & G1 & Hpre1 & _ & _ & _ & N1 & T1).
    destruct (alloc_cluster_effect_inuse vi v fsz (Some last) false s c s1 Hpre
                (fun p E => let '(conj _ (conj a b)) := Hinuse p E in conj a b) Hrun) as (Heff & Hne & Hnew).
    destruct (ae_range _ _ _ _ _ _ _ _ Heff) as (R1 & R2 & R3).
    assert (Hc1 : in_vol v1 c) by (split; [exact R1|rewrite (geo_clusters _ _ G1); exact R2]).
    assert (Hu1 : fat_get (s_disk s1) v1 0 c <> 0) by (rewrite (fat_get_geo _ v v1 c G1), Hnew; apply enc_eof_nz).
    assert (Hm1 : (m <= free_entries (s_disk s1) v1)%nat) by (rewrite (free_entries_geo _ v v1 G1); lia).
    destruct (IH v1 s1 c Hpre1 (link_ok_geo v v1 G1 Hl) Hc1 Hu1 Hm1)
      as (l & s' & v' & Hrun' & Hlen & Hr & Hv' & G' & Hpre' & Hcnt' & T' & N' & Hchain').
    exists (c :: l), s', v'.
    split.
    { cbn [alloc_n]. rewrite (bind_ok _ _ _ _ _ Hrun), (bind_ok _ _ _ _ _ Hrun'). reflexivity. }
    split; [cbn [length]; rewrite Hlen; reflexivity|].
    split.
    { constructor; [split; assumption|]. unfold in_vol in *. rewrite (geo_clusters _ _ G1) in Hr. exact Hr. }
    split; [exact Hv'|]. split; [exact (geo_eq_trans _ _ _ G1 G')|]. split; [exact Hpre'|].
    rewrite !(free_entries_geo _ v v1 G1) in Hcnt'.
    split; [lia|]. split; [exact (fun T => T' (T1 T))|]. split; [exact (fun E => N' (N1 E))|].
    intros first f pre Hch.
    assert (Hch1 : chain_of (s_disk s1) v first (S f) = Some (pre ++ [last; c])).
    { apply (chain_snoc (s_disk s) (s_disk s1) v c Hl R1 R2); [rewrite Hnew; apply eof_is_eoc|exact Hch| |].
      - intros x Hx.
        pose proof (chain_of_range _ _ _ _ _ Hch) as Hrg. rewrite Forall_forall in Hrg.
        destruct (Hrg x (in_or_app _ _ _ (or_introl Hx))) as (_ & X2).
        apply (ae_other _ _ _ _ _ _ _ _ Heff x (layout_sector v fsz x L X2)).
        + intros ->. exact (chain_entries_inuse _ _ _ _ _ Hch c (in_or_app _ _ _ (or_introl Hx)) R3).
        + intros E. inversion E; subst x.
          pose proof (chain_of_nodup _ _ _ _ _ Hch) as Hnd. apply NoDup_remove_2 in Hnd.
          rewrite app_nil_r in Hnd. contradiction.
      - rewrite (ae_prev _ _ _ _ _ _ _ _ Heff last eq_refl). exact (enc_link v c Hl R2). }
    change (pre ++ [last; c]) with (pre ++ [last] ++ [c]) in Hch1. rewrite app_assoc in Hch1.
    rewrite <- (chain_of_geo _ v v1 G1) in Hch1.
    pose proof (Hchain' first (S f) (pre ++ [last]) Hch1) as K.
    rewrite (chain_of_geo _ v v1 G1) in K. rewrite <- app_assoc in K. cbn [app] in K.
    replace (f + S m)%nat with (S f + m)%nat by lia. exact K.
Qed.

(* a full volume refuses the next allocation and nothing changes on the device *)
Lemma alloc_fails_when_full vi v fsz prev (zero : bool) s :
  alloc_pre s vi v fsz -> (forall p, prev = Some p -> p < v_clusters v + 2) ->
  free_entries (s_disk s) v = O ->
  exists s', alloc_cluster vi prev zero s = (Err NotEnoughSpace, s') /\
    s_disk s' = s_disk s /\ same_mgr s s' /\ alloc_pre s' vi v fsz.
Proof.
  intros Hpre Hprev Hz.
  destruct (alloc_cluster_total vi v fsz prev zero s Hpre Hprev) as (o & s' & Hrun & Hres).
  destruct Hres as [(-> & _ & Hd & Hm & _ & Hst)|(c & _ & Heff)].
  - exists s'. split; [exact Hrun|]. split; [exact Hd|]. split; [exact Hm|].
    destruct Hpre as (_ & L & Hh). split; [exact Hst|]. split; assumption.
  - destruct (ae_range _ _ _ _ _ _ _ _ Heff) as (R1 & R2 & R3).
    contradiction (free_entries_pos _ v c R1 R2 R3 Hz).
Qed.

Lemma last_in_vol v l d : in_vol v d -> Forall (in_vol v) l -> in_vol v (List.last l d).
Proof.
  intros Hd H. induction H as [|x l Hx Hl IH]; [exact Hd|].
  cbn [List.last]. destruct l; [exact Hx|exact IH].
Qed.

(* C05: a volume with k free entries takes exactly k allocations: alloc_n k succeeds (each call
   links its cluster after the one returned by the previous call, starting after the in-use
   cluster `last`), the volume is then full, and the (k+1)-th call fails with NotEnoughSpace,
   leaving the device as it is.  A truthful count stays truthful (it reads 0 at the end). *)
Theorem C05_capacity vi v fsz s last :
  alloc_pre s vi v fsz -> link_ok v -> in_vol v last -> fat_get (s_disk s) v 0 last <> 0 ->
  let k := free_entries (s_disk s) v in
  exists l s' v', alloc_n vi k last s = (Ok l, s') /\ length l = k /\ Forall (in_vol v) l /\
    nth_error (s_vols s') vi = Some v' /\ geo_eq v v' /\ alloc_pre s' vi v' fsz /\
    free_entries (s_disk s') v = O /\
    (truthful (s_disk s) v -> v_free v' = Some 0) /\
    (v_free v = None -> v_free v' = None) /\
    exists s'', alloc_cluster vi (Some (List.last l last)) false s' = (Err NotEnoughSpace, s'') /\
      s_disk s'' = s_disk s'.
Proof.
  intros Hpre Hl Hlast Hu k.
  destruct (alloc_n_spec vi fsz k v s last Hpre Hl Hlast Hu (le_n _))
    as (l & s' & v' & Hrun & Hlen & Hr & Hv' & G & Hpre' & Hcnt & T & Nn & _).
  assert (Hz : free_entries (s_disk s') v = O) by (unfold k in Hcnt; lia).
  exists l, s', v'. repeat (split; [assumption|]).
  split.
  { intros Ht. specialize (T Ht). unfold truthful in T. rewrite (free_entries_geo _ v v' G), Hz in T. exact T. }
  split; [exact Nn|].
  pose proof (last_in_vol v l last Hlast Hr) as (_ & X2).
  destruct (alloc_fails_when_full vi v' fsz (Some (List.last l last)) false s' Hpre') as (s'' & Hf & Hd & _).
  - intros p E. inversion E; subst p. rewrite (geo_clusters _ _ G). exact X2.
  - rewrite (free_entries_geo _ v v' G). exact Hz.
  - exists s''. split; assumption.
Qed.

(* and no further: asking for more than the number of free entries fails with NotEnoughSpace *)
Theorem C05_no_further vi fsz extra : forall k v s last,
  alloc_pre s vi v fsz -> link_ok v -> in_vol v last -> fat_get (s_disk s) v 0 last <> 0 ->
  free_entries (s_disk s) v = k ->
  exists s', alloc_n vi (S k + extra) last s = (Err NotEnoughSpace, s').
Proof.
  induction k as [|k IH]; intros v s last Hpre Hl (L1 & L2) Hu Hk.
  - destruct (alloc_fails_when_full vi v fsz (Some last) false s Hpre) as (s' & Hf & _); [|exact Hk|].
    + intros p E. inversion E; subst p. exact L2.
    + exists s'. cbn [alloc_n Nat.add]. rewrite (bind_err _ _ _ _ _ Hf). reflexivity.
  - destruct (alloc_n_spec vi fsz 1 v s last Hpre Hl (conj L1 L2) Hu ltac:(lia))
      as (l & s1 & v1 & Hrun & Hlen & Hr & Hv1 & G & Hpre1 & Hcnt & _).
    cbn [alloc_n] in Hrun.
    destruct (alloc_cluster vi (Some last) false s) as [[c| | |] s1'] eqn:Ea;
      try (unfold bind in Hrun; rewrite Ea in Hrun; discriminate Hrun).
    rewrite (bind_ok _ _ _ _ _ Ea) in Hrun. unfold bind, ret in Hrun. inversion Hrun; subst l s1'. clear Hrun.
    inversion Hr as [|? ? Hc _]; subst.
    assert (Hu1 : fat_get (s_disk s1) v1 0 c <> 0).
    { destruct (alloc_cluster_effect_inuse vi v fsz (Some last) false s c s1 Hpre) as (_ & _ & Hnew); [|exact Ea|].
      - intros p E. inversion E; subst p. split; assumption.
      - rewrite (fat_get_geo _ v v1 c G), Hnew. apply enc_eof_nz. }
    destruct (IH v1 s1 c Hpre1 (link_ok_geo v v1 G Hl)) as (s' & Hf); [| exact Hu1 | |].
    + unfold in_vol in *. rewrite (geo_clusters _ _ G). exact Hc.
    + rewrite (free_entries_geo _ v v1 G). lia.
    + exists s'. change (S (S k) + extra)%nat with (S (S k + extra)). cbn [alloc_n].
      rewrite (bind_ok _ _ _ _ _ Ea), (bind_err _ _ _ _ _ Hf). reflexivity.
Qed.

(* ---- fill / free / refill ---- *)
(* a fresh chain of k clusters: the first one is not linked from anywhere *)
Definition alloc_chain (vi : nat) (k : nat) : M (list N) :=
  match k with
  | O => ret []
  | S k' => c <- alloc_cluster vi None false ;; l <- alloc_n vi k' c ;; ret (c :: l)
  end.

(* what every step of the cycle keeps *)
Definition cycle_inv (vi : nat) (fsz : N) (v : vol) (k : nat) (s : st) (v' : vol) : Prop :=
  nth_error (s_vols s) vi = Some v' /\ geo_eq v v' /\ alloc_pre s vi v' fsz /\
  free_entries (s_disk s) v = k.

(* filling: k = free_entries allocations into one chain succeed; the volume is full; the
   clusters handed out form the chain starting at the first of them *)
Lemma alloc_chain_spec vi v fsz s :
  alloc_pre s vi v fsz -> link_ok v ->
  let k := free_entries (s_disk s) v in
  exists l s' v', alloc_chain vi k s = (Ok l, s') /\ length l = k /\ cycle_inv vi fsz v O s' v' /\
    (truthful (s_disk s) v -> truthful (s_disk s') v') /\
    (v_free v = None -> v_free v' = None) /\
    match l with
    | [] => k = O /\ s' = s
    | c :: _ => chain_of (s_disk s') v c k = Some l
    end.
Proof.
  intros Hpre Hl k. pose proof Hpre as ((_ & _ & Hv & _) & L & _).
  destruct k as [|k'] eqn:Ek.
  - exists [], s, v. split; [reflexivity|]. split; [reflexivity|].
    split; [split; [exact Hv|]; split; [apply geo_eq_refl|]; split; [exact Hpre|exact Ek]|].
    split; [exact (fun T => T)|]. split; [exact (fun E => E)|]. split; reflexivity.
  - assert (Hfe : free_entries (s_disk s) v <> O) by (fold k; lia).
    destruct (free_entries_ex _ _ Hfe) as (j & J1 & J2 & J3).
    assert (Hprev : forall p, @None N = Some p -> p < v_clusters v + 2) by (intros p E; discriminate E).
    assert (Hinuse : prev_inuse (s_disk s) v None) by (intros p E; discriminate E).
    destruct (alloc_cluster_succeeds vi v fsz None false s j Hpre Hprev J1 J2 J3) as (c & s1 & Hrun).
    destruct (alloc_count_delta vi v fsz None false s c s1 Hpre Hl Hinuse Hrun)
      as (Hcnt & v1 & Hv1 & G1 & Hpre1 & _ & _ & _ & N1 & T1).
    destruct (alloc_cluster_effect_inuse vi v fsz None false s c s1 Hpre
                (fun p E => False_ind _ (eq_ind None (fun o => match o with None => True | Some _ => False end) I _ E)) Hrun)
      as (Heff & _ & Hnew).
    destruct (ae_range _ _ _ _ _ _ _ _ Heff) as (R1 & R2 & R3).
    assert (Hc1 : in_vol v1 c) by (split; [exact R1|rewrite (geo_clusters _ _ G1); exact R2]).
    assert (Hu1 : fat_get (s_disk s1) v1 0 c <> 0) by (rewrite (fat_get_geo _ v v1 c G1), Hnew; apply enc_eof_nz).
    assert (Hm1 : (k' <= free_entries (s_disk s1) v1)%nat) by (rewrite (free_entries_geo _ v v1 G1); fold k in Hcnt; lia).
    destruct (alloc_n_spec vi fsz k' v1 s1 c Hpre1 (link_ok_geo v v1 G1 Hl) Hc1 Hu1 Hm1)
      as (l & s' & v' & Hrun' & Hlen & Hr & Hv' & G' & Hpre' & Hcnt' & T' & N' & Hchain').
    exists (c :: l), s', v'.
    split.
    { cbn [alloc_chain]. rewrite (bind_ok _ _ _ _ _ Hrun), (bind_ok _ _ _ _ _ Hrun'). reflexivity. }
    split; [cbn [length]; rewrite Hlen; reflexivity|].
    rewrite !(free_entries_geo _ v v1 G1) in Hcnt'.
    split.
    { split; [exact Hv'|]. split; [exact (geo_eq_trans _ _ _ G1 G')|]. split; [exact Hpre'|].
      fold k in Hcnt. lia. }
    split; [exact (fun T => T' (T1 T))|]. split; [exact (fun E => N' (N1 E))|].
    assert (Hch1 : chain_of (s_disk s1) v1 c 1 = Some ([] ++ [c])).
    { rewrite (chain_of_geo _ v v1 G1). apply chain_single; [exact R1|exact R2|]. rewrite Hnew. apply eof_is_eoc. }
    pose proof (Hchain' c 1%nat [] Hch1) as K. rewrite (chain_of_geo _ v v1 G1) in K. exact K.
Qed.

Definition fill_free (vi : nat) (k : nat) : M unit :=
  l <- alloc_chain vi k ;;
  match l with c :: _ => free_cluster_chain vi c | [] => ret tt end.

Fixpoint cycles (vi : nat) (k : nat) (n : nat) : M unit :=
  match n with O => ret tt | S n' => fill_free vi k ;;; cycles vi k n' end.

(* one cycle: fill the volume completely with one chain, then free that chain: the number of
   free entries is what it was, the hypotheses hold again, a truthful count is truthful again
   and an unknown one is still unknown *)
Lemma fill_free_spec vi v fsz s :
  alloc_pre s vi v fsz -> link_ok v ->
  let k := free_entries (s_disk s) v in
  exists s' v', fill_free vi k s = (Ok tt, s') /\ cycle_inv vi fsz v k s' v' /\
    (truthful (s_disk s) v -> truthful (s_disk s') v') /\
    (v_free v = None -> v_free v' = None).
Proof.
  intros Hpre Hl k.
  destruct (alloc_chain_spec vi v fsz s Hpre Hl) as (l & s1 & v1 & Hrun & Hlen & (Hv1 & G1 & Hpre1 & Hz) & T1 & N1 & Hch).
  fold k in Hrun, Hlen, Hch. unfold fill_free. rewrite (bind_ok _ _ _ _ _ Hrun).
  destruct l as [|c rest].
  - destruct Hch as (Ek & ->). exists s, v1. split; [reflexivity|].
    split; [split; [exact Hv1|]; split; [exact G1|]; split; [exact Hpre1|reflexivity]|].
    split; assumption.
  - rewrite <- (chain_of_geo _ v v1 G1) in Hch.
    destruct (free_chain_count_delta vi v1 fsz s1 c rest k Hpre1 Hch)
      as (s' & Hrun' & Hcnt & Hv' & G' & Hpre' & _ & N' & T').
    exists s', (free_vol v1 c rest). split; [exact Hrun'|].
    split.
    { split; [exact Hv'|]. split; [exact (geo_eq_trans _ _ _ G1 G')|]. split; [exact Hpre'|].
      rewrite !(free_entries_geo _ v v1 G1) in Hcnt. rewrite Hcnt, Hz. cbn [length] in Hlen. lia. }
    split; [exact (fun T => T' (T1 T))|exact (fun E => N' (N1 E))].
Qed.

(* C05: the fill / free / refill cycle can be repeated any number of times: every one of the n
   rounds fills the volume to capacity (k allocations succeed, see alloc_chain_spec) and gives
   all k clusters back *)
Theorem C05_fill_free_refill vi fsz v0 k : link_ok v0 -> forall n v s,
  geo_eq v0 v -> alloc_pre s vi v fsz -> free_entries (s_disk s) v0 = k ->
  exists s' v', cycles vi k n s = (Ok tt, s') /\ cycle_inv vi fsz v0 k s' v' /\
    (truthful (s_disk s) v -> truthful (s_disk s') v') /\
    (v_free v = None -> v_free v' = None).
Proof.
  intros Hl. induction n as [|n IH]; intros v s G Hpre Hk.
  - exists s, v. split; [reflexivity|]. pose proof Hpre as ((_ & _ & Hv & _) & _ & _).
    split; [split; [exact Hv|]; split; [exact G|]; split; [exact Hpre|exact Hk]|].
    split; [exact (fun T => T)|exact (fun E => E)].
  - rewrite <- (free_entries_geo _ v0 v G) in Hk.
    destruct (fill_free_spec vi v fsz s Hpre (link_ok_geo v0 v G Hl)) as (s1 & v1 & Hrun & (Hv1 & G1 & Hpre1 & Hk1) & T1 & N1).
    rewrite Hk in Hrun, Hk1.
    rewrite (free_entries_geo _ v0 v G) in Hk1.
    destruct (IH v1 s1 (geo_eq_trans _ _ _ G G1) Hpre1 Hk1) as (s' & v' & Hrun' & Hinv & T' & N').
    exists s', v'. split; [cbn [cycles]; rewrite (bind_ok _ _ _ _ _ Hrun); exact Hrun'|].
    split; [exact Hinv|]. split; [exact (fun T => T' (T1 T))|exact (fun E => N' (N1 E))].
Qed.

(* ================================================================== 5. the info sector *)
(* flush / volume close on FAT32 with a truthful known count: the record on the device (le32
   at 488 of the info block) is the number of free FAT entries; nothing else on the device
   changes, so - the info block being no FAT sector - it is the number of free entries of the
   device as it is afterwards; the hint field holds the in-range hint or is untouched *)
Theorem C16_info_truthful vi s v :
  no_faults s -> cache_ok s -> nth_error (s_vols s) vi = Some v -> v_fat32 v = true ->
  v_clusters v + 2 <= U32 -> length (disk_get (s_disk s) (v_info v)) = 512%nat ->
  truthful (s_disk s) v ->
  exists s', update_info_sector vi s = (Ok tt, s') /\
    le32 (disk_get (s_disk s') (v_info v)) 488 = N.of_nat (free_entries (s_disk s) v) /\
    (forall j, j <> v_info v -> disk_get (s_disk s') j = disk_get (s_disk s) j) /\
    same_mgr s s' /\ no_faults s' /\ cache_ok s' /\
    (hint_in v ->
     le32 (disk_get (s_disk s') (v_info v)) 492 =
     match v_next_free v with Some h => h | None => le32 (disk_get (s_disk s) (v_info v)) 492 end) /\
    ((forall c, in_vol v c -> v_info v <> fat_sector v 0 c) ->
     free_entries (s_disk s') v = free_entries (s_disk s) v /\
     le32 (disk_get (s_disk s') (v_info v)) 488 = N.of_nat (free_entries (s_disk s') v)).
Proof.
  intros Hnf Hc Hv H32 Hcl Hlen T.
  assert (Hsome : v_free v <> None \/ v_next_free v <> None) by (left; rewrite T; discriminate).
  destruct (update_info_sector_spec vi s v Hnf Hc Hv H32 Hsome Hlen)
    as (s' & nb & Hrun & _ & Hnb & Hoth & _ & _ & H488 & H492 & _ & Hc' & Hnf' & Hm & _).
  assert (Hrec : le32 (disk_get (s_disk s') (v_info v)) 488 = N.of_nat (free_entries (s_disk s) v)).
  { rewrite Hnb, H488, T. apply N.mod_small.
    pose proof (free_entries_bound (s_disk s) v). unfold U32 in Hcl. lia. }
  exists s'. split; [exact Hrun|]. split; [exact Hrec|]. split; [exact Hoth|].
  split; [exact Hm|]. split; [exact Hnf'|]. split; [exact Hc'|].
  split.
  - intros Hi. rewrite Hnb, H492. destruct (v_next_free v) as [h|] eqn:E; [|reflexivity].
    destruct (Hi h E) as (_ & B). apply N.mod_small. unfold U32 in Hcl. lia.
  - intros Hno.
    assert (E : free_entries (s_disk s') v = free_entries (s_disk s) v).
    { apply free_entries_iff. intros c C1 C2.
      rewrite (fat_get_same_sector (s_disk s) (s_disk s') v c); [tauto|].
      apply Hoth. intros E. exact (Hno c (conj C1 C2) (eq_sym E)). }
    split; [exact E|]. rewrite E. exact Hrec.
Qed.

(* with an unknown count the stored count field is untouched (FAT32 with or without a known
   hint; on FAT16 nothing is written at all) *)
Theorem C16_info_unknown_untouched vi s v :
  no_faults s -> cache_ok s -> nth_error (s_vols s) vi = Some v ->
  length (disk_get (s_disk s) (v_info v)) = 512%nat -> v_free v = None ->
  exists s', update_info_sector vi s = (Ok tt, s') /\
    le32 (disk_get (s_disk s') (v_info v)) 488 = le32 (disk_get (s_disk s) (v_info v)) 488 /\
    (forall j, j <> v_info v -> disk_get (s_disk s') j = disk_get (s_disk s) j).
Proof.
  intros Hnf Hc Hv Hlen Hf.
  destruct (v_fat32 v) eqn:H32.
  - destruct (v_next_free v) as [h|] eqn:En.
    + assert (Hsome : v_free v <> None \/ v_next_free v <> None) by (right; rewrite En; discriminate).
      destruct (update_info_sector_spec vi s v Hnf Hc Hv H32 Hsome Hlen)
        as (s' & nb & Hrun & _ & Hnb & Hoth & _ & _ & H488 & _).
      exists s'. split; [exact Hrun|]. split; [|exact Hoth].
      rewrite Hnb, H488, Hf. reflexivity.
    + exists s. split; [exact (update_info_sector_none vi s v Hv Hf En)|]. split; reflexivity.
  - exists s. split; [exact (update_info_sector_fat16 vi s v Hv H32)|]. split; reflexivity.
Qed.

(* ================================================================== 7. examples *)
(* PrChain's example volume (FAT16, 100 clusters, chain 3 -> 4 -> 7): 97 entries are free, the
   hypotheses of the theorems of sections 2, 3, 4 and 6 hold with last = 7 *)
Example count_pre_example :
  alloc_pre exc_state 0 exc_vol 2 /\ link_ok exc_vol /\ hint_in exc_vol /\
  chain_of (s_disk exc_state) exc_vol 3 10 = Some [3; 4; 7] /\
  in_vol exc_vol 7 /\ fat_get (s_disk exc_state) exc_vol 0 7 <> 0 /\
  prev_inuse (s_disk exc_state) exc_vol (Some 7) /\
  free_entries (s_disk exc_state) exc_vol = 97%nat /\
  truthful (s_disk exc_state) (set_v_free exc_vol (Some 97)).
Proof.
  destruct chain_pre_example as (A & _ & B).
  split; [exact A|]. split; [vm_compute; discriminate|].
  split; [intros h E; inversion E; subst h; vm_compute; split; [discriminate|reflexivity]|].
  split; [exact B|].
  assert (I7 : in_vol exc_vol 7) by (vm_compute; split; [discriminate|reflexivity]).
  assert (U7 : fat_get (s_disk exc_state) exc_vol 0 7 <> 0) by (vm_compute; discriminate).
  split; [exact I7|]. split; [exact U7|].
  split; [intros p E; inversion E; subst p; destruct I7; repeat split; assumption|].
  split; vm_compute; reflexivity.
Qed.

(* PrAllocEffect's blank FAT32 volume satisfies the hypotheses of the alloc theorems *)
Example count_pre_example32 :
  alloc_pre (PrAlloc.ex_state (ex_vol true (Some 5))) 0 (ex_vol true (Some 5)) 200 /\
  link_ok (ex_vol true (Some 5)) /\ prev_inuse (s_disk (PrAlloc.ex_state (ex_vol true (Some 5)))) (ex_vol true (Some 5)) None.
Proof.
  split; [exact (proj1 alloc_pre_example)|]. split; [vm_compute; discriminate|]. intros p E. discriminate E.
Qed.

(* the model really runs there: from the state above 97 chained allocations succeed, the 98th
   fails; two full fill / free cycles run; truncating at 3 frees 2 entries, freeing from 3 frees 3 *)
Example capacity_run_example :
  match alloc_n 0 97 7 exc_state with
  | (Ok l, s') => length l = 97%nat /\ free_entries (s_disk s') exc_vol = O /\
                  fst (alloc_cluster 0 (Some (List.last l 7)) false s') = Err NotEnoughSpace /\
                  chain_of (s_disk s') exc_vol 3 200 = Some ([3; 4; 7] ++ l)
  | _ => False
  end /\
  match cycles 0 97 2 exc_state with
  | (Ok tt, s') => free_entries (s_disk s') exc_vol = 97%nat
  | _ => False
  end /\
  match truncate_cluster_chain 0 3 exc_state, free_cluster_chain 0 3 exc_state with
  | (Ok tt, s1), (Ok tt, s2) =>
      free_entries (s_disk s1) exc_vol = 99%nat /\ free_entries (s_disk s2) exc_vol = 100%nat
  | _, _ => False
  end.
Proof. vm_compute. repeat split; reflexivity. Qed.

(* a FAT32 record for the info-sector theorems: 100 clusters, blank device, count 100 *)
Definition exi_vol : vol :=
  mk_vol 0 0 10 1000 [] 2 20 1 (Some 3) (Some 100) (Some 2) 100 true 0 0 5 2.
Example info_example :
  no_faults (PrAlloc.ex_state exi_vol) /\ cache_ok (PrAlloc.ex_state exi_vol) /\
  nth_error (s_vols (PrAlloc.ex_state exi_vol)) 0 = Some exi_vol /\ v_fat32 exi_vol = true /\
  v_clusters exi_vol + 2 <= U32 /\
  length (disk_get (s_disk (PrAlloc.ex_state exi_vol)) (v_info exi_vol)) = 512%nat /\
  truthful (s_disk (PrAlloc.ex_state exi_vol)) exi_vol /\ hint_in exi_vol /\
  (forall c, in_vol exi_vol c -> v_info exi_vol <> fat_sector exi_vol 0 c) /\
  match update_info_sector 0 (PrAlloc.ex_state exi_vol) with
  | (Ok tt, s') => le32 (disk_get (s_disk s') 5) 488 = 100 /\ le32 (disk_get (s_disk s') 5) 492 = 2
  | _ => False
  end.
Proof.
  destruct (ex_state_ok exi_vol) as (A & B).
  split; [exact A|]. split; [exact B|]. split; [reflexivity|]. split; [reflexivity|].
  split; [vm_compute; discriminate|]. split; [vm_compute; reflexivity|]. split; [vm_compute; reflexivity|].
  split; [intros h E; inversion E; subst h; vm_compute; split; [discriminate|reflexivity]|].
  split.
  - intros c (C1 & C2). unfold fat_sector, fat_copy_sector, fat_copy_start, fat_width.
    cbn [v_info v_lba v_fat_start v_fat32 exi_vol N.eqb]. change (v_clusters exi_vol) with 100 in C2. lia.
  - vm_compute. split; reflexivity.
Qed.

(* ================================================================== 8. assumptions *)
Print Assumptions free_entries_fill.
Print Assumptions free_entries_keep.
Print Assumptions free_entries_free_list.
Print Assumptions alloc_count_delta.
Print Assumptions alloc_keeps_truthful.
Print Assumptions truncate_count_delta.
Print Assumptions free_chain_count_delta.
Print Assumptions C16_hint_range_alloc.
Print Assumptions C16_hint_range_truncate.
Print Assumptions C16_hint_range_free.
Print Assumptions C16_hint_range.
Print Assumptions C16_stale_hint_harmless.
Print Assumptions alloc_n_spec.
Print Assumptions C05_capacity.
Print Assumptions C05_no_further.
Print Assumptions alloc_chain_spec.
Print Assumptions fill_free_spec.
Print Assumptions C05_fill_free_refill.
Print Assumptions C16_info_truthful.
Print Assumptions C16_info_unknown_untouched.
Print Assumptions count_pre_example.
Print Assumptions count_pre_example32.
Print Assumptions capacity_run_example.
Print Assumptions info_example.
