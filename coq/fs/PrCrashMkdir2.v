(* PROOFS: C10 / C09 for `Mkdir d name` (FsMgr.make_dir_in_dir -> FsFat.make_dir) over whole
   histories:
     step_crash_Mkdir : PrCrashDef.step_crash fsz vid (Mkdir d name)
     step_keeps_Mkdir : PrCrashDef4.step_keeps_flushed fsz vid (Mkdir d name)
   EVERY outcome (TooManyOpenDirs, BadHandle, FilenameError, DirAlreadyExists, FileAlreadyExists:
   nothing is written; NotEnoughSpace before / after the new cluster was taken; success into a
   free slot; success after the parent grew), EVERY prefix of the writes.
   PrCrashMkdir.make_dir_crash describes every crashed medium at the level of the FAT; here the
   directory tree is put on top (section 1):
     lf_keep    tree of the state before the call, the new cluster(s) are lost one-cluster chains;
     lf_grown   the same tree but for the chain of the parent, one zeroed cluster longer
                (PrGlobalDef.tree_inv_grow / tree_inv_grow_root) - the listing of the parent is
                unchanged: no directory exposes uninitialised contents;
     lf_final   the medium after the LAST write (the slot of the parent): only now the tree has
                the node NDir e [c] [], whose cluster already holds the two dot entries on zeroed
                blocks (mkd_new_node): no sub-directory entry without its own, initialised cluster.
   No file node moves, no data block of a file is written: step_keeps_Mkdir (no target). *)
From Coq Require Import NArith ZArith List Bool Lia Arith ZifyClasses ZifyInst Zify FMapPositive Permutation.
From SdFs Require Import FsTypes FsBase FsFat FsMgr FsLemmas PrBase PrFat PrAlloc PrDir PrSeek PrAllocEffect
  PrRw PrWrite PrFileSeq PrMulti PrEntry PrChain PrCount PrWf PrOpenClose PrGlobalDef PrGlobalWrite
  PrGlobalMkdirT PrGlobalMkdirS PrGlobalMkdirR PrGlobalMkdir.
From SdFs Require PrModes PrHandles PrBounds PrOrder.
From SdFs Require Import PrCrash PrCrashDef PrCrashDef2 PrCrashDef3 PrCrashDef4 PrCrashDelete PrCrashMkdir.
Import ListNotations.
Open Scope N_scope.
Local Arguments N.mul : simpl never.
Local Arguments N.add : simpl never.
Local Arguments N.sub : simpl never.
Local Arguments N.div : simpl never.
Local Arguments N.modulo : simpl never.
Local Arguments N.land : simpl never.
Local Arguments N.lor : simpl never.
Local Arguments N.min : simpl never.
Local Arguments N.max : simpl never.
Local Ltac Zify.zify_post_hook ::= Z.to_euclidean_division_equations.

(* ================================================================== 0. paths through the rebuilt trees *)
Lemma node_at_incl T T' path n : (forall x, In x T -> In x T') -> node_at T path n -> node_at T' path n.
Proof.
  intros Hi H. destruct H as [T n Hn|T m path n Hm Hd Hk].
  - apply na_here. exact (Hi n Hn).
  - apply na_down; [exact (Hi m Hm)|exact Hd|exact Hk].
Qed.

Lemma node_at_upd pc pch' newn i T path e ch : node_at T path (NFile e ch) ->
  node_at (map (upd pc pch' newn i) T) path (NFile e ch).
Proof.
  intros Hat. change (NFile e ch) with (upd pc pch' newn i (NFile e ch)).
  apply (node_at_map (upd pc pch' newn i) (fun _ => True) T); auto.
  - intros m _. destruct m as [e1 ch1|e1 ch1 ks]; cbn [upd].
    + split; [reflexivity|]. split; [reflexivity|intros k []].
    + destruct (e_cluster e1 =? pc); (split; [reflexivity|]; split; [reflexivity|]); intros k Hk _; cbn [node_kids] in *.
      * apply in_ins. apply in_map. exact Hk.
      * apply in_map. exact Hk.
  - intros k Hk _. apply in_map. exact Hk.
Qed.

(* ================================================================== 1. the tree on the crashed media *)
Section Lift.
  Variables (fsz vid : N) (s : st) (vi : nat) (v : vol) (bl rch : list N) (T : list node).
  Hypothesis Hinv : fs_inv_at fsz vid s vi v bl rch T.
  Local Notation D := (s_disk s).
  Local Notation hs := (iv_hs s v T).
  Let HD := fi_disk _ _ _ _ _ _ _ _ Hinv.

  Lemma lf_chain_blocks d' : free_frame fsz v D d' ->
    forall h ch j, In h hs -> chain_at D v h ch -> In j (data_blocks v ch) -> disk_get d' j = disk_get D j.
  Proof.
    intros Hfr h ch j Hh Hch Hj. destruct (iv_chain_block _ _ _ _ _ _ _ _ Hinv _ _ j Hh Hch Hj) as [A B].
    apply (Hfr j A). intros c0 X1 _ X3. exact (B c0 X1 X3).
  Qed.

  Lemma lf_root16 d' : free_frame fsz v D d' -> v_fat32 v = false ->
    forall j, In j (root16_blocks v) -> disk_get d' j = disk_get D j.
  Proof.
    intros Hfr E16 j Hj. destruct (iv_root16_block _ _ _ _ _ _ _ _ Hinv j E16 Hj) as [A B].
    apply (Hfr j A). intros c0 X1 _ _. exact (B c0 X1).
  Qed.

  Lemma lf_root_head : v_fat32 v = true -> In (v_root_cluster v) hs /\ In (v_root_cluster v) (root_heads v).
  Proof.
    intros E32. assert (H : In (v_root_cluster v) (root_heads v)) by (unfold root_heads; rewrite E32; left; reflexivity).
    split; [exact (iv_root_head_in _ _ _ _ H)|exact H].
  Qed.

  Lemma lf_dir_blocks d' : free_frame fsz v D d' ->
    forall j, In j (tree_dir_blocks v bl T) -> disk_get d' j = disk_get D j.
  Proof.
    intros Hfr j Hj. apply gw_tree_dir_blocks_iff in Hj. destruct Hj as [Hj|(e & ch & kids & Hn & Hj)].
    - pose proof (di_root _ _ _ _ _ _ HD) as Hroot. unfold root_dir in Hroot. destruct (v_fat32 v) eqn:E32.
      + destruct Hroot as (Hch & Ebl). rewrite Ebl in Hj.
        exact (lf_chain_blocks d' Hfr (v_root_cluster v) rch j (proj1 (lf_root_head E32)) Hch Hj).
      + destruct Hroot as (_ & Ebl). rewrite Ebl in Hj. exact (lf_root16 d' Hfr E32 j Hj).
    - destruct (dir_node_chain D v bl rch T _ HD e ch kids Hn) as (Hch & Hin & _).
      exact (lf_chain_blocks d' Hfr _ ch j Hin Hch Hj).
  Qed.

  (* the chain of a node: the chain of its own head *)
  Lemma lf_node_chain m : In m (all_nodes T) -> node_chain m <> [] ->
    chain_at D v (e_cluster (node_entry m)) (node_chain m) /\
    own_head m = [e_cluster (node_entry m)] /\ In (e_cluster (node_entry m)) (flat_map node_heads T).
  Proof.
    intros Hm Hne.
    destruct (node_chain_head D v bl T (di_tree _ _ _ _ _ _ HD) m Hm) as [(E & _)|(h & Eo & Eh & Hch)]; [contradiction|].
    subst h. split; [exact Hch|]. split; [exact Eo|]. apply (own_head_in T m _ Hm). rewrite Eo. left. reflexivity.
  Qed.

  Lemma lf_file_blocks d' : free_frame fsz v D d' ->
    forall e ch j, In (NFile e ch) (all_nodes T) -> In j (data_blocks v ch) -> disk_get d' j = disk_get D j.
  Proof.
    intros Hfr e ch j Hn Hj. assert (Hne : ch <> []) by (intros ->; destruct Hj).
    destruct (crd_file_chain D v bl rch T _ e ch HD Hn Hne) as (Hch & Hin).
    apply (lf_chain_blocks d' Hfr (e_cluster e) ch j); [|exact Hch|exact Hj].
    unfold iv_hs. apply in_or_app. left. exact Hin.
  Qed.

  (* ---- the tree is untouched ---- *)
  Theorem lf_keep d' : keep_med fsz v hs D d' -> med_ok v D T (fun _ => True) d'.
  Proof.
    intros (lost & Wd & Hcd & Hfr).
    assert (TI : tree_inv d' v bl rch T).
    { apply (tree_inv_fat D d' v bl rch T (disk_inv_tree _ _ _ _ _ _ HD)).
      - exact (lf_dir_blocks d' Hfr).
      - intros E32. pose proof (di_root _ _ _ _ _ _ HD) as Hroot. unfold root_dir in Hroot. rewrite E32 in Hroot.
        exact (Hcd _ _ (proj1 (lf_root_head E32)) (proj1 Hroot)).
      - intros m Hm Hne. destruct (lf_node_chain m Hm Hne) as (Hch & _ & Hin).
        exact (Hcd _ _ (iv_node_heads_in _ _ _ _ Hin) Hch). }
    exists bl, rch, T, (pend_of s v ++ lost). split; [|split].
    - apply (tree_inv_crash_inv_at _ _ _ _ _ _ TI). rewrite app_assoc. exact Wd.
    - intros path e ch Hn _. exact Hn.
    - intros e ch j Hn _ Hj. exact (lf_file_blocks d' Hfr e ch j Hn Hj).
  Qed.

  (* ---- the parent has grown by a zeroed cluster, the entry is not yet written ---- *)
  Theorem lf_grown parent pbl pp d' c' pc pch lost :
    ((parent = CL_ROOT /\ pbl = bl /\ pp = CL_ROOT) \/
     (exists pe pch0 pkids, In (NDir pe pch0 pkids) (all_nodes T) /\ e_cluster pe = parent /\
                            pbl = data_blocks v pch0 /\ chain_at D v parent pch0 /\ parent <> CL_ROOT)) ->
    negb (v_fat32 v) && (parent =? CL_ROOT) = false -> pc = dir_first_cluster v parent ->
    In pc hs -> chain_at D v pc pch ->
    2 <= c' -> c' < v_clusters v + 2 -> fat_get D v 0 c' = 0 ->
    (forall j, In j (cluster_blocks v c') -> disk_get d' j = zero_block) ->
    fat_wf d' v (hs ++ lost) -> chain_at d' v pc (pch ++ [c']) ->
    (forall h ch, In h hs -> h <> pc -> chain_at D v h ch -> chain_at d' v h ch) ->
    free_frame fsz v D d' -> med_ok v D T (fun _ => True) d'.
  Proof.
    intros Hwhere Hnr Epc Hpc Hpch R1 R2 R3 Hzero Wd Hnew Hoth Hfr.
    destruct (iv_nodup _ _ _ _ _ _ _ _ Hinv) as (N1 & _ & N3 & _).
    pose proof (disk_inv_tree _ _ _ _ _ _ HD) as TI0.
    destruct Hwhere as [(-> & _ & _)|(pe & pch0 & pkids & HP & Edc & _ & Hpch0 & Hnr')].
    - (* the root directory of a FAT32 volume *)
      rewrite N.eqb_refl, andb_true_r in Hnr. apply negb_false_iff in Hnr.
      assert (Epc' : pc = v_root_cluster v) by (rewrite Epc; unfold dir_first_cluster; rewrite Hnr, N.eqb_refl; reflexivity).
      pose proof (di_root _ _ _ _ _ _ HD) as Hroot. unfold root_dir in Hroot. rewrite Hnr in Hroot. destruct Hroot as (Hrch & Ebl).
      rewrite Epc' in *. pose proof (chain_at_det _ _ _ _ _ Hpch Hrch) as ->.
      destruct (lf_root_head Hnr) as (_ & Hrh).
      assert (TI : tree_inv d' v (bl ++ cluster_blocks v c') (rch ++ [c']) T).
      { apply (tree_inv_grow_root D d' v bl rch T c' TI0 Hnr Hnew Hzero (lf_dir_blocks d' Hfr)).
        intros m Hm Hne. destruct (lf_node_chain m Hm Hne) as (Hch & _ & Hin).
        apply (Hoth _ _ (iv_node_heads_in _ _ _ _ Hin)); [|exact Hch].
        intros E. apply (proj1 (N3 _ Hrh)). rewrite <- E. exact Hin. }
      exists (bl ++ cluster_blocks v c'), (rch ++ [c']), T, (pend_of s v ++ lost). split; [|split].
      + apply (tree_inv_crash_inv_at _ _ _ _ _ _ TI). rewrite app_assoc. exact Wd.
      + intros path e ch Hn _. exact Hn.
      + intros e ch j Hn _ Hj. exact (lf_file_blocks d' Hfr e ch j Hn Hj).
    - (* a directory below the root *)
      assert (Epc' : pc = parent).
      { rewrite Epc. unfold dir_first_cluster. replace (parent =? CL_ROOT) with false by (symmetry; apply N.eqb_neq; exact Hnr').
        rewrite andb_false_r. reflexivity. }
      rewrite Epc' in *. pose proof (chain_at_det _ _ _ _ _ Hpch Hpch0) as ->.
      assert (Hph : In parent (flat_map node_heads T)) by (apply (own_head_in T _ _ HP); left; exact Edc).
      assert (TI : tree_inv d' v bl rch (forest_set_chain parent (pch0 ++ [c']) T)).
      { apply (tree_inv_grow D d' v parent c' pch0 Hnew Hzero bl rch T TI0).
        - intros m Hm. split; [|split].
          + destruct m as [e ch|e ch kids]; [intros j []|]. intros j Hj.
            destruct (dir_node_chain D v bl rch T _ HD e ch kids Hm) as (Hch & Hin & _).
            exact (lf_chain_blocks d' Hfr _ ch j Hin Hch Hj).
          + intros Hne Hnd. destruct (lf_node_chain m Hm Hne) as (Hch & Eo & Hin).
            apply (Hoth _ _ (iv_node_heads_in _ _ _ _ Hin)); [|exact Hch]. intros E.
            destruct m as [e ch|e ch kids]; [|exact (Hnd e ch kids eq_refl E)].
            assert (H1 : In parent (own_head (NFile e ch))) by (rewrite Eo; left; exact E).
            assert (H2 : In parent (own_head (NDir pe pch0 pkids))) by (left; exact Edc).
            pose proof (flat_map_owner own_head _ N1 _ _ _ Hm HP H1 H2) as Eq. discriminate Eq.
          + intros e ch kids -> Ec.
            assert (H1 : In parent (own_head (NDir e ch kids))) by (left; exact Ec).
            assert (H2 : In parent (own_head (NDir pe pch0 pkids))) by (left; exact Edc).
            pose proof (flat_map_owner own_head _ N1 _ _ _ Hm HP H1 H2) as Eq. injection Eq as _ -> _. reflexivity.
        - intros j Hj. apply (lf_dir_blocks d' Hfr). unfold tree_dir_blocks. apply in_or_app. left. exact Hj.
        - intros E32. pose proof (di_root _ _ _ _ _ _ HD) as Hroot. unfold root_dir in Hroot. rewrite E32 in Hroot.
          destruct (lf_root_head E32) as (Hr1 & Hr2). apply (Hoth _ _ Hr1); [|exact (proj1 Hroot)].
          intros E. apply (proj1 (N3 _ Hr2)). rewrite E. exact Hph. }
      exists bl, rch, (forest_set_chain parent (pch0 ++ [c']) T), (pend_of s v ++ lost). split; [|split].
      + apply (tree_inv_crash_inv_at _ _ _ _ _ _ TI). rewrite heads_set_chain, app_assoc. exact Wd.
      + intros path e ch Hn _. exact (node_at_set_chain parent _ T path e ch Hn).
      + intros e ch j Hn _ Hj. exact (lf_file_blocks d' Hfr e ch j Hn Hj).
  Qed.
End Lift.

(* ================================================================== 2. the medium after the call *)
(* the blocks of the parent directory are directory blocks of the tree *)
Lemma lf_parent_blocks v bl T dc pbl pp d :
  ((dc = CL_ROOT /\ pbl = bl /\ pp = CL_ROOT) \/
   (exists pe pch pkids, In (NDir pe pch pkids) (all_nodes T) /\ e_cluster pe = dc /\
                         pbl = data_blocks v pch /\ chain_at d v dc pch /\ dc <> CL_ROOT)) ->
  forall j, In j pbl -> In j (tree_dir_blocks v bl T).
Proof.
  intros [(_ & -> & _)|(pe & pch & pkids & HP & _ & -> & _)] j Hj; apply gw_tree_dir_blocks_iff.
  - left. exact Hj.
  - right. exists pe, pch, pkids. split; assumption.
Qed.

(* every outcome of make_dir (PrGlobalMkdirR.mk_outcome), with the tree of the final medium made
   explicit (the proof follows PrGlobalMkdir.mkd_make_dir_inv) *)
Theorem lf_final fsz vid s vi v bl rch T dc sfn pbl pp r s' :
  fs_inv_at fsz vid s vi v bl rch T ->
  dir_ok (s_disk s) v dc pp pbl -> NoDup pbl ->
  (forall j, In j pbl -> ~ PrBounds.in_fat v fsz j /\
     forall c0, 2 <= c0 -> fat_get (s_disk s) v 0 c0 = 0 -> ~ In j (cluster_blocks v c0)) ->
  (dc = CL_ROOT \/ (2 <= dc /\ dc < v_clusters v + 2)) ->
  ((dc = CL_ROOT /\ pbl = bl /\ pp = CL_ROOT) \/
   (exists pe pch pkids, In (NDir pe pch pkids) (all_nodes T) /\ e_cluster pe = dc /\
                         pbl = data_blocks v pch /\ chain_at (s_disk s) v dc pch /\ dc <> CL_ROOT)) ->
  length sfn = 11%nat -> get8 sfn 0 <> 0 -> get8 sfn 0 <> 229 -> PrModes.dot_name sfn = false ->
  ~ In sfn (map t_name (dir_shorts (s_disk s) pbl)) ->
  mk_outcome fsz v (iv_hs s v T) dc sfn pbl s r s' ->
  med_ok v (s_disk s) T (fun _ => True) (s_disk s').
Proof.
  intros Hinv Hok Hnd Hcls Hrange Hwhere Hlen H0 H229 Hdot Hfresh Hout.
  destruct (mkd_facts _ _ _ _ _ _ _ _ Hinv) as (Hl & _ & _ & Ev & Evi & _ & Hv & _ & Hwf & _ & _ & Hfit).
  pose proof (PrBounds.pl_spc _ _ _ (fi_layout _ _ _ _ _ _ _ _ Hinv)) as Hspc.
  pose proof (fi_disk _ _ _ _ _ _ _ _ Hinv) as HD. pose proof HD as [Droot Dtree Drootok Dnodes Dwf Dpos].
  pose proof (iv_wf _ _ _ _ _ _ _ _ Hinv) as W.
  set (hs := iv_hs s v T) in *.
  assert (Hhs_tail : forall h, In h (flat_map node_heads T ++ pend_of s v) -> In h hs).
  { intros h Hh. unfold hs, iv_hs, heads. rewrite <- app_assoc. apply in_or_app. right. exact Hh. }
  assert (Hfin : forall bl' rch' T',
            disk_inv (s_disk s') v bl' rch' T' (pend_of s v) ->
            (forall path e ch, node_at T path (NFile e ch) -> node_at T' path (NFile e ch)) ->
            (forall e ch j, In (NFile e ch) (all_nodes T) -> In j (data_blocks v ch) ->
               disk_get (s_disk s') j = disk_get (s_disk s) j) ->
            med_ok v (s_disk s) T (fun _ => True) (s_disk s')).
  { intros bl' rch' T' Hdisk Hpath Hdata. exists bl', rch', T', (pend_of s v).
    split; [exact (disk_inv_crash_inv_at _ _ _ _ _ _ Hdisk)|].
    split; [intros path e ch Hn _; exact (Hpath path e ch Hn)|intros e ch j Hn _ Hj; exact (Hdata e ch j Hn Hj)]. }
  (* the chain of a file node, as a chain of a head *)
  assert (Hfile : forall e ch j, In (NFile e ch) (all_nodes T) -> In j (data_blocks v ch) ->
            In (e_cluster e) hs /\ chain_at (s_disk s) v (e_cluster e) ch).
  { intros e ch j Hn Hj. assert (Hne : ch <> []) by (intros ->; destruct Hj).
    destruct (crd_file_chain _ v bl rch T _ e ch HD Hn Hne) as (Hch & Hin).
    split; [unfold hs, iv_hs; apply in_or_app; left; exact Hin|exact Hch]. }
  destruct Hout as [s' Hd | s' c C1 C2 Cf Hnone W' Hkeep Hfr
                   | s' c now tm blk off sl0 Hcl Hfind Hblk W' Hc Hkeep Hfr
                   | s' c c' now tm pc pch Hcl Hnone Hnr Epc Hpch Epbl C1' C2' Cf' Hne Hfirst Hrest W' Hc Hpc' Hkeep Hfr].
  - (* no free cluster: the disk is the same *)
    rewrite Hd. exact (med_ok_refl v _ bl rch T _ _ (disk_inv_crash_inv_at _ _ _ _ _ _ HD)).
  - (* the cluster was taken and given back *)
    apply (lf_keep fsz vid s vi v bl rch T Hinv). exists []. rewrite app_nil_r. split; [exact W'|]. split; [exact Hkeep|].
    intros j J1 J2. exact (Hfr j J1 (J2 c C1 C2 Cf)).
  - (* the parent had a free slot *)
    destruct Hcl as [(C1 & C2 & Cf) Hdots Hzero].
    destruct (mkd_new_node (s_disk s') v dc sfn c now tm blk off Hspc Hfit Hrange Hlen H0 H229 Hdot C1 C2 Hdots Hzero Hc)
      as (A1 & A2 & A3 & A4 & A5 & A6 & A7 & A8).
    set (newt := mkd_newt (v_fat32 v) sfn tm c blk off) in *. set (newn := mkd_newn (v_fat32 v) sfn tm c blk off) in *.
    destruct (mkd_dir_slot fsz (s_disk s) (s_disk s') v dc pp pbl sfn c tm blk off sl0 Hwf Hnd Hcls Hok Hlen Hfresh
                C1 Cf Hfind Hblk Hfr A1 A2) as (Hdok & (n1 & n2 & En & En') & Hblkin & Hinvalid).
    fold newt in En'.
    assert (Hpos : ~ In (node_pos newn) (map node_pos (all_nodes T))).
    { rewrite A6. apply (mkd_pos_fresh _ _ _ _ _ _ _ _ blk off Hinv). left. exact Hinvalid. }
    assert (Hother : forall h ch j, In h hs -> chain_at (s_disk s) v h ch -> In j (data_blocks v ch) -> j <> blk ->
              disk_get (s_disk s') j = disk_get (s_disk s) j).
    { intros h ch j Hh Hch Hj Hjb. destruct (iv_chain_block _ _ _ _ _ _ _ _ Hinv _ _ j Hh Hch Hj) as [A B].
      exact (Hfr j A (B c C1 Cf) Hjb). }
    assert (Hdata : forall e ch j, In (NFile e ch) (all_nodes T) -> In j (data_blocks v ch) ->
              disk_get (s_disk s') j = disk_get (s_disk s) j).
    { intros e ch j Hn Hj. destruct (Hfile e ch j Hn Hj) as (Hin & Hch). apply (Hother _ ch j Hin Hch Hj). intros ->.
      exact (crd_file_data_not_dir _ v bl rch T _ _ fsz e ch blk HD (fi_layout _ _ _ _ _ _ _ _ Hinv) Hn Hj
               (lf_parent_blocks v bl T dc pbl pp _ Hwhere blk Hblkin)). }
    destruct Hwhere as [(-> & -> & ->)|(pe & pch & pkids & HP & Edc & -> & Hpch & Hnr)].
    + (* the parent is the root *)
      destruct (mkd_tree_root _ _ _ _ _ _ _ _ Hinv (s_disk s') c newn newt W' A7 A8 Hpos A3 bl rch n1 n2)
        as (Hdisk & K3 & K4); try assumption.
      * unfold root_dir in *. destruct (v_fat32 v) eqn:E32; [|exact Droot]. destruct Droot as (Hch & Ebl).
        split; [|exact Ebl]. apply Hkeep; [|exact Hch]. apply iv_root_head_in. unfold root_heads. rewrite E32. left. reflexivity.
      * intros h ch Hh. exact (Hkeep h ch (Hhs_tail h Hh)).
      * intros h ch Hh Hch j Hj. apply (Hother h ch j (Hhs_tail h Hh) Hch Hj). intros ->.
        exact (proj2 (proj2 (iv_root_blocks _ _ _ _ _ _ _ _ Hinv)) h ch blk Hh Hch Hj Hblkin).
      * exact (Hdok CL_ROOT Drootok).
      * apply (Hfin bl rch _ Hdisk); [|exact Hdata].
        intros path e ch Hn. apply (node_at_incl T _ path _ (fun x Hx => in_ins newn (length n1) T x Hx) Hn).
    + (* the parent is a directory below the root *)
      destruct (mkd_sub_dir _ _ _ _ _ _ _ _ _ _ _ Hinv HP) as (_ & R1 & R2 & Hdch & _). rewrite Edc in *.
      destruct (mkd_tree_sub _ _ _ _ _ _ _ _ Hinv (s_disk s') c newn newt W' A7 A8 Hpos A3 pe pch pkids dc pch n1 n2)
        as (Hdisk & K3 & K4); try assumption.
      * intros h ch Hh _. exact (Hkeep h ch Hh).
      * intros h ch Hh Hne Hch j Hj. apply (Hother h ch j Hh Hch Hj). intros ->.
        exact (iv_disj _ _ _ _ _ _ _ _ Hinv h dc ch pch blk Hh Hdch Hne Hch Hpch Hj Hblkin).
      * intros E16 j Hj. destruct (iv_root16_block _ _ _ _ _ _ _ _ Hinv j E16 Hj) as [A B].
        apply (Hfr j A (B c C1)). intros ->. apply mkd_in_data_blocks in Hblkin. destruct Hblkin as (x & Hx & Hbx).
        exact (B x (proj1 (chain_at_mem _ _ _ _ x Hpch Hx)) Hbx).
      * exact (Hkeep dc pch Hdch Hpch).
      * apply (Hfin bl rch _ Hdisk); [|exact Hdata].
        intros path e ch Hn. exact (node_at_upd dc pch newn (length n1) T path e ch Hn).
  - (* the parent had to grow *)
    destruct Hcl as [(C1 & C2 & Cf) Hdots Hzero].
    set (blk := cluster_first_block v c') in *.
    destruct (mkd_new_node (s_disk s') v dc sfn c now tm blk 0 Hspc Hfit Hrange Hlen H0 H229 Hdot C1 C2 Hdots Hzero Hc)
      as (A1 & A2 & A3 & A4 & A5 & A6 & A7 & A8).
    set (newt := mkd_newt (v_fat32 v) sfn tm c blk 0) in *. set (newn := mkd_newn (v_fat32 v) sfn tm c blk 0) in *.
    assert (Hpos : ~ In (node_pos newn) (map node_pos (all_nodes T))).
    { rewrite A6. apply (mkd_pos_fresh _ _ _ _ _ _ _ _ blk 0 Hinv). right. exists c'. split; [exact C1'|]. split; [exact Cf'|].
      unfold blk. rewrite <- (N.add_0_r (cluster_first_block v c')). apply In_cluster_blocks_intro. lia. }
    assert (Hother : forall h ch j, In h hs -> chain_at (s_disk s) v h ch -> In j (data_blocks v ch) ->
              disk_get (s_disk s') j = disk_get (s_disk s) j).
    { intros h ch j Hh Hch Hj. destruct (iv_chain_block _ _ _ _ _ _ _ _ Hinv _ _ j Hh Hch Hj) as [A B].
      exact (Hfr j A (B c C1 Cf) (B c' C1' Cf')). }
    assert (Hdata : forall e ch j, In (NFile e ch) (all_nodes T) -> In j (data_blocks v ch) ->
              disk_get (s_disk s') j = disk_get (s_disk s) j).
    { intros e ch j Hn Hj. destruct (Hfile e ch j Hn Hj) as (Hin & Hch). exact (Hother _ ch j Hin Hch Hj). }
    change (flat_map (cluster_blocks v) pch) with (data_blocks v pch) in Epbl. subst pbl.
    destruct (mkd_dir_grow fsz (s_disk s) (s_disk s') v dc pp pch sfn c c' tm Hspc Hcls Hok Hlen Hfresh C1 Cf C1' Cf'
                Hnone Hfirst Hrest Hfr A1 A2) as (Hdok & En').
    fold blk in En'. fold newt in En'.
    destruct Hwhere as [(-> & Ebl & ->)|(pe & pch0 & pkids & HP & Edc & Ebl & Hpch0 & Hnr')].
    + (* the root of a FAT32 volume *)
      rewrite N.eqb_refl, andb_true_r in Hnr. apply negb_false_iff in Hnr.
      assert (Epc' : pc = v_root_cluster v) by (rewrite Epc; unfold dir_first_cluster; rewrite Hnr, N.eqb_refl; reflexivity).
      unfold root_dir in Droot. rewrite Hnr in Droot. destruct Droot as (Hrch & Ebl2).
      rewrite Epc' in *. pose proof (chain_at_det _ _ _ _ _ Hpch Hrch) as ->.
      assert (Hrh : In (v_root_cluster v) (root_heads v)) by (unfold root_heads; rewrite Hnr; left; reflexivity).
      destruct (iv_nodup _ _ _ _ _ _ _ _ Hinv) as (_ & _ & N3 & _).
      assert (Hne_root : forall h, In h (flat_map node_heads T ++ pend_of s v) -> h <> v_root_cluster v).
      { intros h Hh ->. destruct (N3 _ Hrh) as [X Y]. apply in_app_or in Hh. destruct Hh; contradiction. }
      destruct (mkd_tree_root _ _ _ _ _ _ _ _ Hinv (s_disk s') c newn newt W' A7 A8 Hpos A3
                  (data_blocks v (rch ++ [c'])) (rch ++ [c']) (dir_nodes (s_disk s) bl) [])
        as (Hdisk & K3 & K4); try assumption.
      * unfold root_dir. rewrite Hnr. split; [exact Hpc'|reflexivity].
      * intros h ch Hh. exact (Hkeep h ch (Hhs_tail h Hh) (Hne_root h Hh)).
      * intros h ch Hh Hch j Hj. exact (Hother h ch j (Hhs_tail h Hh) Hch Hj).
      * symmetry. apply app_nil_r.
      * rewrite En', Ebl2. reflexivity.
      * exact (Hdok CL_ROOT Hok).
      * apply (Hfin _ _ _ Hdisk); [|exact Hdata].
        intros path e ch Hn. apply (node_at_incl T _ path _ (fun x Hx => in_ins newn _ T x Hx) Hn).
    + (* a directory below the root *)
      destruct (mkd_sub_dir _ _ _ _ _ _ _ _ _ _ _ Hinv HP) as (_ & R1 & R2 & Hdch & _). rewrite Edc in *.
      assert (Epc' : pc = dc).
      { rewrite Epc. unfold dir_first_cluster. replace (dc =? CL_ROOT) with false by (symmetry; apply N.eqb_neq; exact Hnr').
        rewrite andb_false_r. reflexivity. }
      rewrite Epc' in *. pose proof (chain_at_det _ _ _ _ _ Hpch Hpch0) as ->.
      destruct (mkd_tree_sub _ _ _ _ _ _ _ _ Hinv (s_disk s') c newn newt W' A7 A8 Hpos A3 pe pch0 pkids dc (pch0 ++ [c'])
                  (dir_nodes (s_disk s) (data_blocks v pch0)) [])
        as (Hdisk & K3 & K4); try assumption.
      * intros h ch Hh _ Hch j Hj. exact (Hother h ch j Hh Hch Hj).
      * intros E16 j Hj. destruct (iv_root16_block _ _ _ _ _ _ _ _ Hinv j E16 Hj) as [A B]. exact (Hfr j A (B c C1) (B c' C1')).
      * symmetry. apply app_nil_r.
      * apply (Hfin bl rch _ Hdisk); [|exact Hdata].
        intros path e ch Hn. exact (node_at_upd dc (pch0 ++ [c']) newn _ T path e ch Hn).
Qed.

(* ================================================================== 3. make_dir_in_dir: every outcome *)
Theorem step_med_Mkdir fsz vid d name : step_med fsz vid (Mkdir d name).
Proof.
  intros s r s' vi v bl rch T Hat _ Hknown Hs d' Hd.
  assert (Hinv : fs_inv fsz vid s) by (exists vi, v, bl, rch, T; exact Hat).
  pose proof (fs_inv_lock fsz vid s Hinv) as Hl. cbn [step] in Hs.
  destruct (mkd_facts _ _ _ _ _ _ _ _ Hat) as (_ & Hnf & Hc & Ev & Evi & Hv0 & Hv & _ & _ & _ & _ & _).
  subst vi.
  assert (Hsame : s' = s -> med_ok v (s_disk s) T (fun n => ~ op_targets s v (Mkdir d name) (node_entry n)) d').
  { intros ->. apply (med_ok_quiet fsz vid s 0%nat v bl rch T _ s d' Hat); [|exact Hd]. apply step_writes_same. reflexivity. }
  destruct (find_idx (fun x => d_id x =? d) (s_dirs s) 0) as [di|] eqn:Efind.
  2:{ (* a stale directory handle *)
    assert (Hno : PrHandles.no_dir d s) by (intros x Hx; apply N.eqb_neq; exact (find_idx_none_inv _ _ _ Efind x Hx)).
    destruct (PrHandles.C08_stale_dir_handle d s Hl Hno) as (_ & _ & _ & _ & _ & E & _). specialize (E name). cbn [step] in E.
    rewrite E in Hs. injection Hs as <- <-. exact (Hsame eq_refl). }
  destruct (find_idx_nth _ _ _ _ Efind) as (dd & Hdd & _). rewrite Nat.sub_0_r in Hdd.
  assert (H1 : get_dir_by_id d s = (Ok di, s)) by (rewrite PrHandles.get_dir_by_id_eq, Efind; reflexivity).
  assert (H2 : get_dir di s = (Ok dd, s)) by (rewrite PrHandles.get_dir_eq, Hdd; reflexivity).
  destruct (is_full (s_dirs s) (s_maxd s)) eqn:Hfull.
  { assert (E : make_dir_in_dir d name s = (Err TooManyOpenDirs, s)).
    { unfold make_dir_in_dir. rewrite (PrHandles.locked_free _ s Hl), PrHandles.bind_get, Hfull. reflexivity. }
    rewrite (PrHandles.lift_err _ _ _ _ _ E) in Hs. injection Hs as <- <-. exact (Hsame eq_refl). }
  assert (H3 : get_volume_by_id (d_vol dd) s = if v_id v =? d_vol dd then (Ok 0%nat, s) else (Err BadHandle, s)).
  { rewrite PrHandles.get_volume_by_id_eq, Ev. cbn [find_idx]. destruct (v_id v =? d_vol dd); reflexivity. }
  destruct (N.eqb_spec (v_id v) (d_vol dd)) as [Evol|Nvol].
  2:{ (* a handle of another volume id *)
    assert (E : make_dir_in_dir d name s = (Err BadHandle, s)).
    { unfold make_dir_in_dir. rewrite (PrHandles.locked_free _ s Hl), PrHandles.bind_get, Hfull.
      rewrite (bind_ok _ _ _ _ _ H1), (bind_ok _ _ _ _ _ H2). apply bind_err. exact H3. }
    rewrite (PrHandles.lift_err _ _ _ _ _ E) in Hs. injection Hs as <- <-. exact (Hsame eq_refl). }
  assert (Hres : PrModes.resolves s d di dd 0 v).
  { split; [exact Hl|]. split; [exact H1|]. split; [exact H2|]. split; [exact H3|].
    rewrite PrHandles.get_vol_eq, Hv0. reflexivity. }
  assert (Hdir : mkd_is_dir T (d_cluster dd)).
  { pose proof (fi_dirs _ _ _ _ _ _ _ _ Hat) as Hdd'. rewrite Forall_forall in Hdd'.
    exact (Hdd' dd (nth_error_In _ _ Hdd) (eq_sym Evol)). }
  destruct (sfn_of_str name) as [sfn|] eqn:Hsfn.
  2:{ assert (E : make_dir_in_dir d name s = (Err FilenameError, s)).
      { unfold make_dir_in_dir. rewrite (PrHandles.locked_free _ s Hl), PrHandles.bind_get, Hfull.
        rewrite (bind_ok _ _ _ _ _ H1), (bind_ok _ _ _ _ _ H2), (bind_ok _ _ _ _ _ H3), Hsfn. reflexivity. }
      rewrite (PrHandles.lift_err _ _ _ _ _ E) in Hs. injection Hs as <- <-. exact (Hsame eq_refl). }
  destruct (PrModes.C07_mkdir_refusals s d di dd 0%nat v name sfn Hres Hfull Hsfn) as (Rdot & Rfound).
  destruct (PrModes.dot_name sfn) eqn:Hdot.
  { rewrite (PrHandles.lift_err _ _ _ _ _ (Rdot eq_refl)) in Hs. injection Hs as <- <-. exact (Hsame eq_refl). }
  specialize (Rfound eq_refl).
  (* the lookup *)
  destruct (mkd_ctx _ _ _ _ _ _ _ _ (d_cluster dd) Hat Hdir) as (pbl & pp & Hbl & Hok & Hnd & Hcls & Hrange & Hhead & Hwhere).
  destruct (C06_find 0 v (d_cluster dd) sfn s pbl Hv0 Hv Hnf Hc Hbl) as (s1 & Hfind & Hro).
  pose proof (PrModes.find_directory_entry_reads_only _ _ _ _ _ _ Hfind) as Hrd.
  pose proof (mkd_ro _ _ _ _ _ _ _ _ _ Hat Hro) as Hat1.
  destruct Hro as (Hd1 & Hc1 & Hnf1 & Hm1). pose proof Hm1 as (M1 & _).
  pose proof (tsteps_nil_writes _ _ (mkd_reads_only_tsteps _ _ Hrd)) as Hq1.
  destruct (find (t_matches sfn) (live_in_blocks (s_disk s) pbl)) as [t|] eqn:Ematch.
  { (* the name exists *)
    destruct (Rfound _ _ _ Hfind eq_refl) as (E & _).
    rewrite (PrHandles.lift_err _ _ _ _ _ E) in Hs. injection Hs as <- <-.
    exact (med_ok_quiet fsz vid s 0%nat v bl rch T _ s1 d' Hat Hq1 Hd). }
  (* NotFound: make_dir runs in the state after the lookup *)
  assert (Erun : make_dir_in_dir d name s = make_dir 0 (d_cluster dd) sfn A_DIRECTORY s1).
  { unfold make_dir_in_dir. rewrite (PrHandles.locked_free _ s Hl), PrHandles.bind_get, Hfull.
    rewrite (bind_ok _ _ _ _ _ H1), (bind_ok _ _ _ _ _ H2), (bind_ok _ _ _ _ _ H3), Hsfn.
    unfold PrModes.dot_name in Hdot. rewrite Hdot. unfold bind at 1, try. rewrite Hfind. reflexivity. }
  destruct (mkd_sfn_of_str_wf name sfn Hsfn) as (Hlen & Hge).
  assert (H0 : get8 sfn 0 <> 0).
  { destruct sfn as [|b0 rest]; [discriminate Hlen|]. inversion Hge; subst. unfold get8. cbn [N.to_nat nth]. lia. }
  assert (H229 : get8 sfn 0 <> 229).
  { destruct Hknown as (_ & Hn). cbn [op_name_ok] in Hn. unfold e5_name in Hn. rewrite Hsfn in Hn.
    apply N.eqb_neq. exact Hn. }
  destruct (mkd_facts _ _ _ _ _ _ _ _ Hat1) as (_ & _ & _ & Ev1 & _ & _ & _ & _ & Hwf1 & _ & Hpre1 & Hfit1).
  rewrite <- Hd1 in Hbl, Hok, Hcls, Hwhere, Ematch.
  assert (Hhead1 : negb (v_fat32 v) && (d_cluster dd =? CL_ROOT) = false -> In (dir_first_cluster v (d_cluster dd)) (iv_hs s1 v T)).
  { intros E. specialize (Hhead E). unfold iv_hs, pend_of in *. rewrite Hd1. destruct Hm1 as (_ & _ & -> & _). exact Hhead. }
  destruct (make_dir_run fsz (v_nblocks v) 0%nat v (iv_hs s1 v T) (d_cluster dd) sfn pbl s1 Hpre1
              (fi_layout _ _ _ _ _ _ _ _ Hat1) Hfit1 Hwf1 (iv_wf _ _ _ _ _ _ _ _ Hat1) Hbl Hhead1 Hlen)
    as (r0 & s2 & Hmk & Hcommon & Hout).
  assert (Hfresh : ~ In sfn (map t_name (dir_shorts (s_disk s1) pbl))).
  { apply name_fresh; [exact (do_tail _ _ _ _ _ Hok)|exact Ematch]. }
  unfold lift, bind in Hs. rewrite Erun, Hmk in Hs.
  assert (Es' : s' = s2) by (destruct r0; injection Hs as _ <-; reflexivity). subst s'.
  pose proof (tm_find_directory_entry 0 (d_cluster dd) sfn s _ _ Hfind) as T01.
  pose proof (tm_make_dir 0 (d_cluster dd) sfn A_DIRECTORY s1 _ _ Hmk) as T12.
  pose proof (crash_disks_after_reads s s1 s2 d' T01 T12 Hq1 Hd) as Hd12.
  assert (Hm : med_ok v (s_disk s1) T (fun _ => True) d').
  { destruct (make_dir_crash fsz (v_nblocks v) 0%nat v (iv_hs s1 v T) (d_cluster dd) sfn pbl s1 r0 s2 Hpre1
                (fi_layout _ _ _ _ _ _ _ _ Hat1) Hfit1 Hwf1 (iv_wf _ _ _ _ _ _ _ _ Hat1) Hbl Hhead1 Hlen Hmk d' Hd12)
      as [->|Hcr].
    - exact (lf_final fsz vid s1 0%nat v bl rch T (d_cluster dd) sfn pbl pp r0 s2 Hat1 Hok Hnd Hcls Hrange Hwhere
               Hlen H0 H229 Hdot Hfresh Hout).
    - destruct Hcr as [d' Hk|d' c' pc pch lost G1 G2 G3 G4 G5 G6 G7 G8 G9 G10 G11 G12 G13].
      + exact (lf_keep fsz vid s1 0%nat v bl rch T Hat1 d' Hk).
      + exact (lf_grown fsz vid s1 0%nat v bl rch T Hat1 (d_cluster dd) pbl pp d' c' pc pch lost Hwhere
                 G1 G2 G3 G4 G6 G7 G8 G9 G10 G11 G12 G13). }
  rewrite Hd1 in Hm. refine (med_ok_weaken v (s_disk s) T _ _ d' _ Hm). intros n _. exact I.
Qed.

Theorem step_crash_Mkdir fsz vid d name : step_crash fsz vid (Mkdir d name).
Proof. apply step_med_crash. apply step_med_Mkdir. Qed.

Theorem step_keeps_Mkdir fsz vid d name : step_keeps_flushed fsz vid (Mkdir d name).
Proof. apply step_med_keeps. apply step_med_Mkdir. Qed.

Print Assumptions lf_grown.
Print Assumptions lf_final.
Print Assumptions step_crash_Mkdir.
Print Assumptions step_keeps_Mkdir.
