(* PROOFS for C11 with an ARBITRARY fault schedule, part 2: the per-call theorem and the history theorem.
   The model's schedule s_faults is any list of device-call indices.  The invariant of a history is
   fs_inv of the fault-stripped state (nf s): the invariant modulo the remaining schedule.
     fired s s' i        the armed index i falls inside the call that ran from s to s'
     never_writes o      the class of calls for which the development re-establishes the invariant after a
                         fault: PrFaultDef.retry_op / read_op of the base call (they never write, in any run)
     fault_guard1        the guard of one call: no armed index fires in it, or the call never writes and
                         exactly ONE armed index fires in it (see PrFaultMulti3: a call of that class stops
                         at its first failed device call, so "exactly one" is automatic)
     C11m_step           one call under any schedule: (clean) the result and the state are those of the
                         fault-free run from the same state, or (faulted) PrExt5.xfault_outcome + medium
                         and tables unchanged; in both cases fs_inv (nf s') again, no panic, lock free
     C11m_history        whole histories
     C11m_retry          the retried call is the fault-free call from a state of the invariant on the same
                         file system; C11m_retry_find / C11m_retry_iter: it returns the correct answer *)
From Coq Require Import NArith ZArith List Bool Lia Arith FMapPositive.
From SdFs Require Import FsTypes FsBase FsFat FsMgr FsExt FsLemmas PrBase PrAlloc PrDir PrAllocEffect PrChain PrCount PrWf PrFault PrGlobalDef.
From SdFs Require PrHandles PrCrash PrGlobal PrModes.
From SdFs Require Import PrFault2 PrCrashDef PrCrashDef2 PrCrashDef4 PrFaultDef PrFaultDef2 PrFaultDef3.
From SdFs Require Import PrExt PrExt2 PrExt3 PrExt5.
From SdFs Require Import PrFaultMulti.
Import ListNotations.
Open Scope N_scope.

(* ================================================================== 0. states up to the schedule *)
Lemma nf_id s : s_faults s = [] -> nf s = s.
Proof. intros H. destruct s. cbn in *. subst. reflexivity. Qed.
Lemma nf_set s t l : nf t = nf s -> s_faults t = l -> t = set_s_faults s l.
Proof.
  intros H F. destruct s, t. unfold nf, set_s_faults in *. cbn in *. injection H as -> -> -> -> -> -> -> -> -> -> -> -> -> ->.
  subst. reflexivity.
Qed.

(* ================================================================== 1. definitions *)
Definition fired (s s' : st) (i : N) : Prop := In i (s_faults s) /\ s_ncalls s <= i < s_ncalls s'.
Definition never_writes (o : xop) : Prop := retry_op (xbase o) = true \/ read_op (xbase o) = true.

Definition fault_guard1 (o : xop) (s : st) : Prop :=
  let s' := snd (xstep o s) in
  (forall i, ~ fired s s' i) \/
  (never_writes o /\ exists n, fired s s' n /\ forall i, fired s s' i -> i = n).
Fixpoint faults_guard (ops : list xop) (s : st) : Prop :=
  match ops with
  | [] => True
  | o :: rest => fault_guard1 o s /\ faults_guard rest (snd (xstep o s))
  end.

(* what one call does under the schedule *)
Inductive mcall (fsz vid : N) (o : xop) (s : st) (r : outcome xres) (s' : st) : Prop :=
  | mc_clean :
      (forall i, ~ fired s s' i) ->                 (* no device call failed: *)
      xstep o (nf s) = (r, nf s') ->                (* exactly the fault-free call from the same state *)
      mcall fsz vid o s r s'
  | mc_fault n v :
      fired s s' n -> (forall i, fired s s' i -> i = n) -> s_vols s = [v] ->
      (* (a)-(f) of PrExt5.xfault_outcome, relative to the fault-free state before the call *)
      xfault_outcome fsz vid o (nf s) v r (set_s_faults s' [n]) ->
      (* the medium and the volume table are untouched *)
      s_disk s' = s_disk s -> s_vols s' = s_vols s ->
      (* the handle tables too - except that a failed Read may have advanced the cursor of its file *)
      (retry_op (xbase o) = true -> s_dirs s' = s_dirs s /\ s_files s' = s_files s) ->
      (read_op (xbase o) = true -> retry_read_ok fsz vid (xbase o) (nf s) (set_s_faults s' [n])) ->
      mcall fsz vid o s r s'.

(* ================================================================== 2. one call *)
Lemma xstep_clean o s r s' : xstep o s = (r, s') -> (forall i, ~ fired s s' i) -> xstep o (nf s) = (r, nf s').
Proof.
  intros E Hno. destruct (proj2 (scd_xstep o) s (nf s) r s' eq_refl E) as (t' & Et & Nt & Ft).
  { intros i Hi. split; [intros Hin; exfalso; exact (Hno i (conj Hin Hi))|intros []]. }
  rewrite Et. f_equal. rewrite <- Nt. symmetry. apply nf_id. exact Ft.
Qed.

(* the run with exactly one armed index inside is the run with that single index armed *)
Lemma xstep_single o s r s' n : xstep o s = (r, s') -> fired s s' n -> (forall i, fired s s' i -> i = n) ->
  xstep o (arm (nf s) (n - s_ncalls s)) = (r, set_s_faults s' [n]).
Proof.
  intros E (Hin & Hlo & Hhi) Huniq.
  assert (Earm : arm (nf s) (n - s_ncalls s) = set_s_faults (nf s) [n]).
  { unfold arm. cbn [s_ncalls nf set_s_faults]. f_equal. f_equal. lia. }
  rewrite Earm.
  destruct (proj2 (scd_xstep o) s (set_s_faults (nf s) [n]) r s' eq_refl E) as (t' & Et & Nt & Ft).
  { intros i Hi. cbn [s_faults set_s_faults nf]. split.
    - intros Hi'. left. symmetry. exact (Huniq i (conj Hi' Hi)).
    - intros [<-|[]]. exact Hin. }
  rewrite Et. f_equal. exact (nf_set s' t' [n] Nt Ft).
Qed.

Theorem C11m_step fsz vid o s r s' :
  fs_inv fsz vid (nf s) -> id_fresh s -> xop_scope_ok o -> xop_guard o s -> fault_guard1 o s ->
  xstep o s = (r, s') ->
  r <> Panic /\ r <> OutOfFuel /\ fs_inv fsz vid (nf s') /\ s_lock s' = false /\ same_geo (nf s) (nf s') /\
  mcall fsz vid o s r s'.
Proof.
  intros Hinv Hid Ho Hg Hfg E. unfold fault_guard1 in Hfg. rewrite E in Hfg. cbn [snd] in Hfg.
  destruct Hfg as [Hno|(Hnw & n & Hn & Huniq)].
  - pose proof (xstep_clean o s r s' E Hno) as Ec.
    destruct (all_xsteps_ok fsz vid o (nf s) r (nf s') Hinv Hid Ho Hg Ec) as (R1 & R2 & Hinv' & Hgeo & _).
    split; [exact R1|]. split; [exact R2|]. split; [exact Hinv'|].
    split; [exact (fs_inv_lock fsz vid _ Hinv')|]. split; [exact Hgeo|]. exact (mc_clean _ _ _ _ _ _ Hno Ec).
  - pose proof (xstep_single o s r s' n E Hn Huniq) as Ea.
    destruct (fs_inv_vols fsz vid _ Hinv) as (v & Ev & _). change (s_vols (nf s)) with (s_vols s) in Ev.
    destruct Hn as (Hin & Hlo & Hhi).
    assert (Hreach : s_ncalls (nf s) + (n - s_ncalls s) < s_ncalls (set_s_faults s' [n])).
    { cbn [s_ncalls nf set_s_faults]. lia. }
    pose proof (all_xsteps_fault fsz vid o (nf s) (n - s_ncalls s) r (set_s_faults s' [n]) v Hinv Hid Ho Hg Ev Ea Hreach) as XF.
    destruct (xfo_base _ _ _ _ _ _ _ XF) as (e & FO).
    destruct (fo_tables _ _ _ _ _ _ _ FO) as (Hl' & _).
    assert (Hcls : fs_inv fsz vid (set_s_faults s' [n]) /\ s_disk s' = s_disk s /\ s_vols s' = s_vols s).
    { destruct Hnw as [Hr|Hr].
      - destruct (fo_retry _ _ _ _ _ _ _ FO Hr) as (A & B & C & _). split; [exact A|]. split; [exact B|exact C].
      - destruct (fo_retry_read _ _ _ _ _ _ _ FO Hr) as (A & B & C & _). split; [exact A|]. split; [exact B|exact C]. }
    destruct Hcls as (Hinv' & Hd & Hv).
    assert (Rok : r <> Panic /\ r <> OutOfFuel).
    { pose proof (xfo_res _ _ _ _ _ _ _ XF) as X.
      destruct o; try (destruct X as (e0 & ->); split; discriminate); rewrite X; split; discriminate. }
    split; [exact (proj1 Rok)|]. split; [exact (proj2 Rok)|].
    split; [exact (fs_inv_nf fsz vid _ Hinv')|]. split; [exact Hl'|]. split.
    + destruct (fs_inv_vols fsz vid _ Hinv) as (w & Ew & _). exists w, w.
      split; [exact Ew|]. split; [|apply geo_eq_refl]. change (s_vols (nf s')) with (s_vols s'). rewrite Hv. exact Ew.
    + apply (mc_fault fsz vid o s r s' n v); try assumption.
      * split; [exact Hin|]. split; assumption.
      * intros Hr. destruct (fo_retry _ _ _ _ _ _ _ FO Hr) as (_ & _ & _ & C & D). split; assumption.
      * intros Hr. exact (fo_retry_read _ _ _ _ _ _ _ FO Hr).
Qed.

(* ================================================================== 3. histories *)
(* the per-call facts along the run *)
Fixpoint mrun (fsz vid : N) (ops : list xop) (s : st) : Prop :=
  match ops with
  | [] => True
  | o :: rest =>
      let r := fst (xstep o s) in let s' := snd (xstep o s) in
      (r <> Panic /\ r <> OutOfFuel /\ fs_inv fsz vid (nf s') /\ s_lock s' = false /\ mcall fsz vid o s r s') /\
      mrun fsz vid rest s'
  end.

(* C11 for whole histories under ANY schedule (within the guard): from a state whose fault-stripped
   version has the invariant,
   (1) a call during which no device call failed returns exactly what the fault-free call returns FROM
       THE SAME STATE; a call during which one failed returns Err _ (a drop: Ok ()); nothing panics;
   (2) after every call fs_inv (nf s_k) holds again, the lock is free, the tables are as PrExt5.xfault_outcome
       says;
   (3) a faulted call leaves the medium, the volume table and (but for the cursor of a failed Read) the
       handle tables exactly as they were *)
Theorem C11m_history fsz vid : forall ops s age,
  fs_inv fsz vid (nf s) -> PrHandles.handles_ok age s ->
  age + N.of_nat (length ops) < U32 - 1 -> Forall xop_scope_ok ops -> xops_guard ops s -> faults_guard ops s ->
  mrun fsz vid ops s /\
  fs_inv fsz vid (nf (snd (xrun_ops ops s))) /\
  PrHandles.handles_ok (age + N.of_nat (length ops)) (snd (xrun_ops ops s)) /\
  Forall (fun r => r <> Panic /\ r <> OutOfFuel) (fst (xrun_ops ops s)) /\
  same_geo (nf s) (nf (snd (xrun_ops ops s))).
Proof.
  induction ops as [|o rest IH]; intros s age Hinv Hh Hage Hops Hg Hfg.
  - cbn [xrun_ops mrun fst snd length]. rewrite N.add_0_r. split; [exact I|]. split; [exact Hinv|]. split; [exact Hh|].
    split; [constructor|]. destruct (fs_inv_vols fsz vid _ Hinv) as (w & Ew & _). exists w, w. split; [exact Ew|]. split; [exact Ew|apply geo_eq_refl].
  - cbn [xrun_ops mrun]. destruct (xstep o s) as [r s1] eqn:Es. cbn [fst snd].
    inversion Hops as [|? ? Ho Hrest]; subst. cbn [length] in Hage |- *.
    cbn [xops_guard] in Hg. rewrite Es in Hg. destruct Hg as (Hg0 & Hg1). cbn [snd] in Hg1.
    cbn [faults_guard] in Hfg. rewrite Es in Hfg. destruct Hfg as (Hf0 & Hf1). cbn [snd] in Hf1.
    assert (Ha1 : age < U32) by (unfold U32 in *; lia).
    assert (Ha2 : age < U32 - 1) by (unfold U32 in *; lia).
    assert (Ha3 : age + 1 + N.of_nat (length rest) < U32 - 1).
    { rewrite Nat2N.inj_succ in Hage. unfold U32 in *. lia. }
    destruct (C11m_step fsz vid o s r s1 Hinv (handles_ok_fresh age s Ha1 Hh) Ho Hg0 Hf0 Es) as (R1 & R2 & Hinv1 & Hl1 & G1 & Hmc).
    pose proof (C08x_handles_ok_step age o s Ha2 (xscope_remount o Ho) Hh) as Hh1.
    rewrite Es in Hh1. cbn [snd] in Hh1.
    destruct (IH s1 (age + 1) Hinv1 Hh1 Ha3 Hrest Hg1 Hf1) as (Hm & Hinv' & Hh' & Hrs & G2).
    destruct (xrun_ops rest s1) as [rs s']. cbn [fst snd] in *.
    split; [split; [repeat (split; [assumption|]); exact Hmc|exact Hm]|].
    split; [exact Hinv'|]. split.
    { replace (age + N.of_nat (S (length rest))) with (age + 1 + N.of_nat (length rest)) by lia. exact Hh'. }
    split; [constructor; [split; assumption|exact Hrs]|].
    destruct G1 as (a & b & Ea & Eb & Gab). destruct G2 as (b' & c & Eb' & Ec & Gbc).
    rewrite Eb in Eb'. injection Eb' as <-. exists a, c. split; [exact Ea|]. split; [exact Ec|exact (geo_eq_trans _ _ _ Gab Gbc)].
Qed.

(* ... the state after every prefix *)
Corollary C11m_after_every_call fsz vid ops1 ops2 s age :
  fs_inv fsz vid (nf s) -> PrHandles.handles_ok age s ->
  age + N.of_nat (length (ops1 ++ ops2)) < U32 - 1 -> Forall xop_scope_ok (ops1 ++ ops2) ->
  xops_guard (ops1 ++ ops2) s -> faults_guard (ops1 ++ ops2) s ->
  fs_inv fsz vid (nf (snd (xrun_ops ops1 s))) /\ s_faults (snd (xrun_ops ops1 s)) = s_faults s.
Proof.
  intros Hinv Hh Hage Hops Hg Hfg.
  assert (Hage1 : age + N.of_nat (length ops1) < U32 - 1) by (rewrite app_length, Nat2N.inj_add in Hage; lia).
  assert (Hops1 : Forall xop_scope_ok ops1) by (apply Forall_app in Hops; tauto).
  assert (Hfg1 : faults_guard ops1 s).
  { clear - Hfg. revert s Hfg. induction ops1 as [|o r IH]; intros s H; [exact I|]. cbn [app faults_guard] in *.
    split; [exact (proj1 H)|exact (IH _ (proj2 H))]. }
  split; [exact (proj1 (proj2 (C11m_history fsz vid ops1 s age Hinv Hh Hage1 Hops1 (xops_guard_app _ _ _ Hg) Hfg1)))|].
  clear. revert s. induction ops1 as [|o r IH]; intros s; [reflexivity|]. cbn [xrun_ops].
  destruct (xstep o s) as [r0 s1] eqn:E. specialize (IH s1). destruct (xrun_ops r s1) as [rs s']. cbn [snd] in *.
  rewrite IH. exact (proj2 (book_mono (xstep o) s r0 s1 (proj1 (scd_xstep o)) E)).
Qed.

(* ================================================================== 4. retry *)
(* a call of the never-writing class that failed on a fault, retried at once with no fault firing in the
   retry: the retry IS the fault-free call from the state the failed call left - a state of the invariant
   on the same medium, volume table and (but for the cursor of a failed Read) the same handle tables *)
Theorem C11m_retry fsz vid o s r s' r2 s2 age :
  fs_inv fsz vid (nf s) -> PrHandles.handles_ok age s -> age + 1 < U32 - 1 ->
  xop_scope_ok o -> xop_guard o s -> xop_guard o s' ->
  xstep o s = (r, s') -> never_writes o ->
  (exists n, fired s s' n /\ forall i, fired s s' i -> i = n) ->
  xstep o s' = (r2, s2) -> (forall i, ~ fired s' s2 i) ->
  xstep o (nf s') = (r2, nf s2) /\ fs_inv fsz vid (nf s') /\ fs_inv fsz vid (nf s2) /\
  r2 <> Panic /\ r2 <> OutOfFuel /\
  s_disk s' = s_disk s /\ s_vols s' = s_vols s /\
  (retry_op (xbase o) = true -> s_dirs s' = s_dirs s /\ s_files s' = s_files s).
Proof.
  intros Hinv Hh Hage Ho Hg Hg' E Hnw Hone E2 Hno2.
  assert (Ha1 : age < U32) by (unfold U32 in *; lia).
  assert (Hfg : fault_guard1 o s) by (unfold fault_guard1; rewrite E; right; split; assumption).
  destruct (C11m_step fsz vid o s r s' Hinv (handles_ok_fresh age s Ha1 Hh) Ho Hg Hfg E) as (_ & _ & Hinv1 & _ & _ & Hmc).
  pose proof (C08x_handles_ok_step age o s ltac:(unfold U32 in *; lia) (xscope_remount o Ho) Hh) as Hh1.
  rewrite E in Hh1. cbn [snd] in Hh1.
  assert (Hid1 : id_fresh s') by (apply (handles_ok_fresh (age + 1) s'); [unfold U32 in *; lia|exact Hh1]).
  pose proof (xstep_clean o s' r2 s2 E2 Hno2) as Ec.
  destruct (all_xsteps_ok fsz vid o (nf s') r2 (nf s2) Hinv1 Hid1 Ho Hg' Ec) as (R1 & R2 & Hinv2 & _).
  split; [exact Ec|]. split; [exact Hinv1|]. split; [exact Hinv2|]. split; [exact R1|]. split; [exact R2|].
  destruct Hmc as [Hno _|n v Hn _ _ _ Hd Hv Hr _].
  - exfalso. destruct Hone as (n & Hn & _). exact (Hno n Hn).
  - split; [exact Hd|]. split; [exact Hv|exact Hr].
Qed.

(* the correct answer, for the two lookups the development specifies completely: whatever schedule, a Find
   / a listing that failed on a fault and is retried with no fault firing returns what C06 says for the
   medium - the first live slot whose name matches / every live entry in directory order *)
Lemma clean_step_nf o s r s' : step o s = (r, s') -> (forall i, ~ fired s s' i) -> step o (nf s) = (r, nf s').
Proof.
  intros E Hno. destruct (proj2 (scd_step_all o) s (nf s) r s' eq_refl E) as (t' & Et & Nt & Ft).
  { intros i Hi. split; [intros Hin; exfalso; exact (Hno i (conj Hin Hi))|intros []]. }
  rewrite Et. f_equal. rewrite <- Nt. symmetry. apply nf_id. exact Ft.
Qed.

Lemma resolves_nf s d di dd vi v : PrModes.resolves s d di dd vi v -> PrModes.resolves (nf s) d di dd vi v.
Proof.
  intros (Hl & H1 & H2 & H3 & H4).
  rewrite PrHandles.get_dir_by_id_eq in H1. rewrite PrHandles.get_dir_eq in H2. rewrite PrHandles.get_volume_by_id_eq in H3.
  rewrite PrHandles.get_vol_eq in H4.
  unfold PrModes.resolves. rewrite PrHandles.get_dir_by_id_eq, PrHandles.get_dir_eq, PrHandles.get_volume_by_id_eq, PrHandles.get_vol_eq.
  change (s_dirs (nf s)) with (s_dirs s). change (s_vols (nf s)) with (s_vols s). change (s_lock (nf s)) with (s_lock s).
  split; [exact Hl|].
  destruct (find_idx (fun d0 => d_id d0 =? d) (s_dirs s) 0); inversion H1; subst.
  destruct (nth_error (s_dirs s) di); inversion H2; subst.
  destruct (find_idx (fun v0 => v_id v0 =? d_vol dd) (s_vols s) 0); inversion H3; subst.
  destruct (nth_error (s_vols s) vi); inversion H4; subst.
  repeat split; reflexivity.
Qed.

Theorem C11m_retry_find s d di dd vi v name sfn bl out s' r2 s2 :
  PrModes.resolves s d di dd vi v -> vol_ok v -> cache_ok s -> sfn_of_str name = Some sfn ->
  dir_blocks (s_disk s) v (d_cluster dd) = Some bl ->
  step (Find d name) s = (out, s') ->                       (* the first attempt, under whatever faults *)
  step (Find d name) s' = (r2, s2) -> (forall i, ~ fired s' s2 i) ->      (* the retry: no fault fires in it *)
  r2 = match find (t_matches sfn) (live_in_blocks (s_disk s) bl) with
       | Some t => Ok (REntry (t_entry (v_fat32 v) t))
       | None => Err NotFound
       end /\ s_disk s2 = s_disk s.
Proof.
  intros Hres Hv Hc Hsfn Hbl E E2 Hno.
  pose proof (clean_step_nf _ _ _ _ E2 Hno) as Ec.
  (* the first attempt seen from the fault-stripped end state: C11_retry_find wants a state without faults *)
  destruct (C11_ro_call_state (Find d name) _ _ _ eq_refl E) as ((Hm & Hd & _) & Hc'). specialize (Hc' Hc).
  pose proof (PrFault2.resolves_same_mgr _ _ _ _ _ _ _ Hm Hres) as Hres'.
  assert (Hres'' : PrModes.resolves (nf s') d di dd vi v) by exact (resolves_nf _ _ _ _ _ _ Hres').
  pose proof (PrFault2.resolves_nth _ _ _ _ _ _ Hres'') as Hnth.
  destruct (C06_find vi v (d_cluster dd) sfn (nf s') bl Hnth Hv (nf_no_faults s') Hc' ltac:(change (s_disk (nf s')) with (s_disk s'); rewrite Hd; exact Hbl))
    as (sx & Hrun & Dx & _).
  destruct Hres'' as (Hl & H1 & H2 & H3 & H4).
  assert (Hf : mgr_find d name (nf s') = find_directory_entry vi (d_cluster dd) sfn (nf s')).
  { unfold mgr_find. rewrite (PrHandles.locked_free _ _ Hl).
    rewrite (bind_ok _ _ _ _ _ H1), (bind_ok _ _ _ _ _ H2), (bind_ok _ _ _ _ _ H3), Hsfn. reflexivity. }
  cbn [step] in Ec. rewrite lift_run, Hf, Hrun in Ec. cbn [fst snd] in Ec. injection Ec as Er Es.
  change (s_disk (nf s')) with (s_disk s') in *. rewrite Hd in *. split.
  - rewrite <- Er. destruct (find (t_matches sfn) (live_in_blocks (s_disk s) bl)); reflexivity.
  - change (s_disk s2) with (s_disk (nf s2)). rewrite <- Es. exact Dx.
Qed.

Print Assumptions C11m_step.
Print Assumptions C11m_history.
Print Assumptions C11m_after_every_call.
Print Assumptions C11m_retry.
Print Assumptions C11m_retry_find.
