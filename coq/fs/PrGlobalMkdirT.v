(* PROOFS (helper of PrGlobalMkdir.v): TREE SURGERY for the global invariant of PrGlobalDef.
   One directory of the tree - the one whose first cluster is pc - receives a new node `newn` at
   position i of its list of nodes, and (when it had to grow) a new chain pch'.  `upd` rebuilds
   the tree; the lemmas say that the rebuilt tree is the tree of the new disk (upd_rep_ok), which
   heads / slot positions it has (upd_perm, upd_perm_list), and that the old nodes are still there (upd_files,
   upd_dirs).  With a pc that is the head of no node, upd is the identity (upd_id) and
   upd_rep_ok is the frame lemma "chains kept + directory blocks kept => same tree" (node_keep).

   T' for a parent that is the root directory: ins T.  For a parent below the root: map upd T. *)
From Coq Require Import NArith ZArith List Bool Lia Arith ZifyClasses ZifyInst Zify FMapPositive Permutation.
From SdFs Require Import FsTypes FsBase FsFat FsMgr FsLemmas PrBase PrFat PrAlloc PrDir PrSeek PrAllocEffect
  PrRw PrWrite PrFileSeq PrMulti PrEntry PrChain PrCount PrWf PrOpenClose PrGlobalDef.
Import ListNotations.
Open Scope N_scope.
Local Arguments N.mul : simpl never.
Local Arguments N.add : simpl never.
Local Arguments N.sub : simpl never.
Local Arguments N.div : simpl never.
Local Arguments N.modulo : simpl never.
Local Arguments N.land : simpl never.
Local Arguments N.lor : simpl never.
Local Ltac Zify.zify_post_hook ::= Z.to_euclidean_division_equations.

(* ================================================================== 0. lists *)
Lemma mkt_Forall2_app_inv_r {A B} (R : A -> B -> Prop) : forall l b1 b2,
  Forall2 R l (b1 ++ b2) ->
  exists a1 a2, l = a1 ++ a2 /\ Forall2 R a1 b1 /\ Forall2 R a2 b2 /\ length a1 = length b1.
Proof.
  intros l b1. revert l. induction b1 as [|y b1 IH]; intros l b2 H.
  - exists [], l. split; [reflexivity|]. split; [constructor|]. split; [exact H|reflexivity].
  - cbn [app] in H. inversion H as [|x y' l' r' Hxy Hrest]; subst.
    destruct (IH l' b2 Hrest) as (a1 & a2 & -> & F1 & F2 & Hl).
    exists (x :: a1), a2. split; [reflexivity|]. split; [constructor; assumption|]. split; [exact F2|].
    cbn [length]. rewrite Hl. reflexivity.
Qed.

Lemma mkt_firstn_app_len {A} (a b : list A) : firstn (length a) (a ++ b) = a.
Proof. induction a as [|x a IH]; [destruct b; reflexivity|]. cbn [length app firstn]. rewrite IH. reflexivity. Qed.

Lemma mkt_skipn_app_len {A} (a b : list A) : skipn (length a) (a ++ b) = b.
Proof. induction a as [|x a IH]; [reflexivity|]. cbn [length app skipn]. exact IH. Qed.

Lemma mkt_map_id_in {A} (f : A -> A) l : (forall x, In x l -> f x = x) -> map f l = l.
Proof.
  induction l as [|a l IH]; intros H; [reflexivity|]. cbn [map].
  rewrite (H a (or_introl eq_refl)), IH; [reflexivity|]. intros x Hx. apply H. right. exact Hx.
Qed.

Lemma mkt_flat_map_single {A B} (f : A -> B) l : flat_map (fun x => [f x]) l = map f l.
Proof. induction l as [|a l IH]; [reflexivity|]. cbn [flat_map map app]. rewrite IH. reflexivity. Qed.

(* ================================================================== 1. the rebuilt tree *)
Section Upd.
  Variables (pc : N) (pch' : list N) (newn : node) (i : nat).

  Definition ins (l : list node) : list node := firstn i l ++ newn :: skipn i l.

  Fixpoint upd (n : node) : node :=
    match n with
    | NFile e ch => NFile e ch
    | NDir e ch kids =>
        if e_cluster e =? pc then NDir e pch' (ins (map upd kids))
        else NDir e ch (map upd kids)
    end.

  Lemma in_ins l x : In x l -> In x (ins l).
  Proof.
    intros H. unfold ins. rewrite <- (firstn_skipn i l) in H. apply in_app_or in H.
    apply in_or_app. destruct H as [H|H]; [left; exact H|right; right; exact H].
  Qed.

  Lemma in_ins_new l : In newn (ins l).
  Proof. unfold ins. apply in_or_app. right. left. reflexivity. Qed.

  Lemma in_ins_inv l x : In x (ins l) -> x = newn \/ In x l.
  Proof.
    unfold ins. intros H. apply in_app_or in H. destruct H as [H|[H|H]].
    - right. exact (In_firstn _ _ _ H).
    - left. symmetry. exact H.
    - right. rewrite <- (firstn_skipn i l). apply in_or_app. right. exact H.
  Qed.

  (* a tree in which pc is no head is left alone *)
  Lemma upd_id : forall n, ~ In pc (node_heads n) -> upd n = n.
  Proof.
    induction n as [e ch|e ch kids IH] using node_ind'; intros H; [reflexivity|].
    cbn [node_heads] in H. cbn [upd].
    destruct (N.eqb_spec (e_cluster e) pc) as [E|_]; [exfalso; apply H; left; exact E|].
    f_equal. apply mkt_map_id_in. intros k Hk. rewrite Forall_forall in IH. apply (IH k Hk).
    intros Hin. apply H. right. apply in_flat_map. exists k. split; assumption.
  Qed.

  (* ---- the old nodes are still there ---- *)
  Lemma upd_files : forall n e ch, In (NFile e ch) (flatten n) -> In (NFile e ch) (flatten (upd n)).
  Proof.
    induction n as [e0 ch0|e0 ch0 kids IH] using node_ind'; intros e ch H; [exact H|].
    destruct H as [H|H]; [discriminate H|]. apply in_flat_map in H. destruct H as (k & Hk & H).
    rewrite Forall_forall in IH. specialize (IH k Hk e ch H).
    assert (G : In (NFile e ch) (flat_map flatten (map upd kids))).
    { apply in_flat_map. exists (upd k). split; [apply in_map; exact Hk|exact IH]. }
    cbn [upd]. destruct (e_cluster e0 =? pc); cbn [flatten]; right; [|exact G].
    apply in_flat_map in G. destruct G as (k' & Hk' & G). apply in_flat_map. exists k'.
    split; [apply in_ins; exact Hk'|exact G].
  Qed.

  Lemma upd_dirs : forall n e ch kids, In (NDir e ch kids) (flatten n) ->
    exists ch' kids', In (NDir e ch' kids') (flatten (upd n)).
  Proof.
    induction n as [e0 ch0|e0 ch0 kids0 IH] using node_ind'; intros e ch kids H.
    - destruct H as [H|[]]. discriminate H.
    - destruct H as [H|H].
      + injection H as <- <- <-. cbn [upd]. destruct (e_cluster e0 =? pc); eexists _, _; left; reflexivity.
      + apply in_flat_map in H. destruct H as (k & Hk & H).
        rewrite Forall_forall in IH. destruct (IH k Hk e ch kids H) as (ch' & kids' & G0).
        exists ch', kids'.
        assert (G : In (NDir e ch' kids') (flat_map flatten (map upd kids0))).
        { apply in_flat_map. exists (upd k). split; [apply in_map; exact Hk|exact G0]. }
        cbn [upd]. destruct (e_cluster e0 =? pc); cbn [flatten]; right; [|exact G].
        apply in_flat_map in G. destruct G as (k' & Hk' & G). apply in_flat_map. exists k'.
        split; [apply in_ins; exact Hk'|exact G].
  Qed.

  (* ---- the rebuilt tree is the tree of the new disk ---- *)
  Section Rep.
    Variables (d d' : disk) (v : vol) (hs : list N).
    (* every chain but that of pc is kept, and so are the blocks of those chains *)
    Hypothesis F1 : forall h ch, In h hs -> h <> pc -> chain_at d v h ch -> chain_at d' v h ch.
    Hypothesis F2 : forall h ch, In h hs -> h <> pc -> chain_at d v h ch ->
                    forall j, In j (data_blocks v ch) -> disk_get d' j = disk_get d j.
    (* the directory pc: its new chain, its nodes with the new one at position i, its soundness *)
    Hypothesis HPc : forall pch, chain_at d v pc pch -> chain_at d' v pc pch'.
    Hypothesis HPn : forall pch, chain_at d v pc pch -> exists n1 n2 newt,
        dir_nodes d (data_blocks v pch) = n1 ++ n2 /\ dir_nodes d' (data_blocks v pch') = n1 ++ newt :: n2 /\
        length n1 = i /\ node_rep d' v newn newt.
    Hypothesis HPok : forall pch p, chain_at d v pc pch ->
        dir_ok d v pc p (data_blocks v pch) -> dir_ok d' v pc p (data_blocks v pch').
    Hypothesis Hnew_ok : node_ok d' v pc newn.

    (* no file of the (sub)tree starts at pc *)
    Definition file_not_pc (n : node) : Prop :=
      forall e ch, In (NFile e ch) (flatten n) -> 2 <= e_cluster e -> e_cluster e <> pc.

    Lemma file_not_pc_kid e ch kids k : file_not_pc (NDir e ch kids) -> In k kids -> file_not_pc k.
    Proof. intros H Hk e0 ch0 Hin H2. apply (H e0 ch0); [exact (flatten_kid e ch kids k _ Hk Hin)|exact H2]. Qed.

    Lemma kids_rep_ok p0 (kids : list node) :
      Forall (fun k => forall t p, (forall h, In h (node_heads k) -> In h hs) -> file_not_pc k ->
                node_rep d v k t -> node_ok d v p k ->
                node_rep d' v (upd k) t /\ node_ok d' v p (upd k)) kids ->
      (forall h, In h (flat_map node_heads kids) -> In h hs) ->
      (forall k, In k kids -> file_not_pc k) ->
      forall ts, Forall2 (node_rep d v) kids ts -> Forall (node_ok d v p0) kids ->
      Forall2 (node_rep d' v) (map upd kids) ts /\ Forall (node_ok d' v p0) (map upd kids).
    Proof.
      induction 1 as [|k ks Hk _ IHks]; intros Hh Hf ts H2 Hok.
      - inversion H2; subst. split; constructor.
      - inversion H2 as [|? t ? ts' Hkt Hrest]; subst. inversion Hok as [|? ? Hokk Hokr]; subst.
        destruct (Hk t p0) as [A B]; try assumption.
        { intros h Hin. apply Hh. cbn [flat_map]. apply in_or_app. left. exact Hin. }
        { apply Hf. left. reflexivity. }
        destruct (IHks) with (ts := ts') as [C D]; try assumption.
        { intros h Hin. apply Hh. cbn [flat_map]. apply in_or_app. right. exact Hin. }
        { intros k0 Hk0. apply Hf. right. exact Hk0. }
        cbn [map]. split; constructor; assumption.
    Qed.

    Theorem upd_rep_ok : forall n t p, (forall h, In h (node_heads n) -> In h hs) -> file_not_pc n ->
      node_rep d v n t -> node_ok d v p n ->
      node_rep d' v (upd n) t /\ node_ok d' v p (upd n).
    Proof.
      induction n as [e ch|e ch kids IH] using node_ind'; intros t p Hh Hf Hr Hok.
      - cbn [upd]. split; [|exact Hok]. apply node_rep_file in Hr. apply node_rep_file.
        destruct Hr as (A & B & C). split; [exact A|]. split; [exact B|].
        destruct C as [(C1 & fu & C2)|C]; [left|right; exact C]. split; [exact C1|].
        exists (walk_fuel v). apply (F1 (e_cluster e) ch).
        + apply Hh. cbn [node_heads]. apply N.leb_le in C1. rewrite C1. left. reflexivity.
        + apply (Hf e ch); [left; reflexivity|exact C1].
        + exact (chain_at_any _ _ _ _ _ C2).
      - apply node_rep_dir in Hr. destruct Hr as (A & B & C & D).
        apply node_ok_dir in Hok. destruct Hok as (E & G).
        assert (Hhk : forall h, In h (flat_map node_heads kids) -> In h hs)
          by (intros h Hin; apply Hh; cbn [node_heads]; right; exact Hin).
        destruct (kids_rep_ok (e_cluster e) kids IH Hhk (fun k Hk => file_not_pc_kid e ch kids k Hf Hk) _ D G)
          as [D' G'].
        cbn [upd]. destruct (N.eqb_spec (e_cluster e) pc) as [Epc|Npc].
        + rewrite Epc in C, E, G'. destruct (HPn ch C) as (n1 & n2 & newt & E1 & E2 & Hl & Hnew).
          rewrite E1 in D'. destruct (mkt_Forall2_app_inv_r _ _ _ _ D') as (k1 & k2 & Ek & K1 & K2 & Hlk).
          assert (Ei : ins (map upd kids) = k1 ++ newn :: k2).
          { unfold ins. rewrite Ek, <- Hl, <- Hlk, mkt_firstn_app_len, mkt_skipn_app_len. reflexivity. }
          split.
          * apply node_rep_dir. split; [exact A|]. split; [exact B|]. rewrite Epc.
            split; [exact (HPc ch C)|]. rewrite E2, Ei. apply Forall2_app; [exact K1|].
            constructor; [exact Hnew|exact K2].
          * apply node_ok_dir. rewrite Epc. split; [exact (HPok ch p C E)|].
            rewrite Ei. rewrite Ek in G'. apply Forall_app in G'. destruct G' as [G1 G2].
            apply Forall_app. split; [exact G1|]. constructor; [exact Hnew_ok|exact G2].
        + assert (Hin : In (e_cluster e) hs) by (apply Hh; left; reflexivity).
          pose proof (F2 _ _ Hin Npc C) as Hb.
          split.
          * apply node_rep_dir. split; [exact A|]. split; [exact B|]. split; [exact (F1 _ _ Hin Npc C)|].
            rewrite (dir_nodes_ext d d' _ Hb). exact D'.
          * apply node_ok_dir. split; [exact (dir_ok_frame d d' v _ _ _ Hb E)|exact G'].
    Qed.

    (* a forest: the nodes of one directory *)
    Corollary forest_rep_ok T ts p : (forall h, In h (flat_map node_heads T) -> In h hs) ->
      (forall k, In k T -> file_not_pc k) ->
      Forall2 (node_rep d v) T ts -> Forall (node_ok d v p) T ->
      Forall2 (node_rep d' v) (map upd T) ts /\ Forall (node_ok d' v p) (map upd T).
    Proof.
      intros Hh Hf. apply kids_rep_ok; try assumption.
      apply Forall_forall. intros k _ t p0. apply upd_rep_ok.
    Qed.
  End Rep.

  (* ---- what the rebuilt tree is made of: heads, slot positions ---- *)
  Section Perm.
    Variables (X : Type) (g : node -> list X).
    Hypothesis g_dir : forall e ch kids ch' kids', g (NDir e ch kids) = g (NDir e ch' kids').
    Hypothesis Hflat_new : flatten newn = [newn].

    Lemma ins_perm l : Permutation (flat_map g (flat_map flatten (ins l))) (g newn ++ flat_map g (flat_map flatten l)).
    Proof.
      unfold ins. rewrite <- (firstn_skipn i l) at 3. rewrite !flat_map_app. cbn [flat_map].
      rewrite Hflat_new, !flat_map_app. cbn [flat_map]. rewrite app_nil_r.
      apply Permutation_sym. apply Permutation_app_swap_app.
    Qed.

    Lemma upd_map_split kids k l1 l2 : kids = l1 ++ k :: l2 -> NoDup (flat_map node_heads kids) ->
      In pc (node_heads k) -> map upd kids = l1 ++ upd k :: l2.
    Proof.
      intros -> Hnd Hk. rewrite flat_map_app in Hnd. cbn [flat_map] in Hnd.
      destruct (nodup_app_inv _ _ Hnd) as (_ & N2 & N3). destruct (nodup_app_inv _ _ N2) as (_ & _ & N4).
      rewrite map_app. cbn [map]. f_equal; [|f_equal]; apply mkt_map_id_in; intros x Hx; apply upd_id; intros Hin.
      - apply (N3 pc); [apply in_flat_map; exists x; split; assumption|apply in_or_app; left; exact Hk].
      - apply (N4 pc Hk). apply in_flat_map. exists x. split; assumption.
    Qed.

    Lemma nodup_heads_part kids k l1 l2 : kids = l1 ++ k :: l2 -> NoDup (flat_map node_heads kids) ->
      NoDup (node_heads k).
    Proof.
      intros -> Hnd. rewrite flat_map_app in Hnd. cbn [flat_map] in Hnd.
      destruct (nodup_app_inv _ _ Hnd) as (_ & N2 & _). exact (proj1 (nodup_app_inv _ _ N2)).
    Qed.

    Theorem upd_perm : forall n, In pc (node_heads n) -> NoDup (node_heads n) -> file_not_pc n ->
      Permutation (flat_map g (flatten (upd n))) (g newn ++ flat_map g (flatten n)).
    Proof.
      induction n as [e ch|e ch kids IH] using node_ind'; intros Hin Hnd Hf.
      - exfalso. cbn [node_heads] in Hin. destruct (N.leb_spec 2 (e_cluster e)) as [H2|H2]; [|destruct Hin].
        destruct Hin as [E|[]]. exact (Hf e ch (or_introl eq_refl) H2 E).
      - cbn [node_heads] in Hin, Hnd. inversion Hnd as [|? ? Hni Hndk]; subst. cbn [upd].
        destruct (N.eqb_spec (e_cluster e) pc) as [Epc|Npc].
        + assert (Ek : map upd kids = kids).
          { apply mkt_map_id_in. intros k Hk. apply upd_id. intros Hp. apply Hni. rewrite Epc.
            apply in_flat_map. exists k. split; assumption. }
          rewrite Ek. cbn [flatten flat_map]. rewrite (g_dir e pch' (ins kids) ch kids).
          apply (Permutation_trans (Permutation_app_head _ (ins_perm kids))).
          apply Permutation_app_swap_app.
        + destruct Hin as [E|Hin]; [contradiction|]. apply in_flat_map in Hin. destruct Hin as (k & Hk & Hpk).
          destruct (in_split _ _ Hk) as (l1 & l2 & Ekids).
          rewrite (upd_map_split kids k l1 l2 Ekids Hndk Hpk).
          rewrite Forall_forall in IH.
          pose proof (IH k Hk Hpk (nodup_heads_part kids k l1 l2 Ekids Hndk) (file_not_pc_kid e ch kids k Hf Hk)) as P.
          cbn [flatten flat_map]. rewrite (g_dir e ch (l1 ++ upd k :: l2) ch kids). rewrite Ekids.
          rewrite !flat_map_app. cbn [flat_map]. rewrite !flat_map_app.
          apply (Permutation_trans (l' := g (NDir e ch (l1 ++ k :: l2)) ++ flat_map g (flat_map flatten l1)
                   ++ (g newn ++ flat_map g (flatten k)) ++ flat_map g (flat_map flatten l2))).
          * apply Permutation_app_head. apply Permutation_app_head. apply Permutation_app_tail. exact P.
          * rewrite <- !app_assoc.
            apply (Permutation_trans (Permutation_app_head _ (Permutation_app_swap_app _ _ _))).
            apply Permutation_app_swap_app.
    Qed.

    (* the nodes of one directory, one of which is above (or is) the directory pc *)
    Corollary upd_perm_list T : In pc (flat_map node_heads T) -> NoDup (flat_map node_heads T) ->
      (forall k, In k T -> file_not_pc k) ->
      Permutation (flat_map g (flat_map flatten (map upd T))) (g newn ++ flat_map g (flat_map flatten T)).
    Proof.
      intros Hin Hnd Hf. apply in_flat_map in Hin. destruct Hin as (k & Hk & Hpk).
      destruct (in_split _ _ Hk) as (l1 & l2 & ET).
      rewrite (upd_map_split T k l1 l2 ET Hnd Hpk).
      pose proof (upd_perm k Hpk (nodup_heads_part T k l1 l2 ET Hnd) (Hf k Hk)) as P.
      rewrite ET, !flat_map_app. cbn [flat_map]. rewrite !flat_map_app.
      apply (Permutation_trans (l' := flat_map g (flat_map flatten l1)
               ++ (g newn ++ flat_map g (flatten k)) ++ flat_map g (flat_map flatten l2))).
      - apply Permutation_app_head. apply Permutation_app_tail. exact P.
      - rewrite <- !app_assoc. apply Permutation_app_swap_app.
    Qed.
  End Perm.
End Upd.

(* ================================================================== 2. consequences *)
Lemma ins_Forall2 {B} (R : node -> B -> Prop) newn T n1 newt n2 :
  Forall2 R T (n1 ++ n2) -> R newn newt -> Forall2 R (ins newn (length n1) T) (n1 ++ newt :: n2).
Proof.
  intros H Hn. destruct (mkt_Forall2_app_inv_r _ _ _ _ H) as (k1 & k2 & -> & K1 & K2 & Hl).
  unfold ins. rewrite <- Hl, mkt_firstn_app_len, mkt_skipn_app_len.
  apply Forall2_app; [exact K1|]. constructor; assumption.
Qed.

Lemma ins_Forall (P : node -> Prop) newn i T : Forall P T -> P newn -> Forall P (ins newn i T).
Proof.
  intros H Hn. rewrite Forall_forall in *. intros x Hx. destruct (in_ins_inv _ _ _ _ Hx) as [->|Hx']; auto.
Qed.

(* the heads of a tree are data clusters *)
Lemma node_heads_ge2 d v : forall n t, node_rep d v n t -> forall h, In h (node_heads n) -> 2 <= h.
Proof.
  induction n as [e ch|e ch kids IH] using node_ind'; intros t Hr h Hh.
  - cbn [node_heads] in Hh. destruct (N.leb_spec 2 (e_cluster e)) as [H2|H2]; [|destruct Hh].
    destruct Hh as [<-|[]]. exact H2.
  - apply node_rep_dir in Hr. destruct Hr as (_ & _ & C & D). cbn [node_heads] in Hh. destruct Hh as [<-|Hh].
    + exact (proj1 (chain_of_head _ _ _ _ _ C)).
    + apply in_flat_map in Hh. destruct Hh as (k & Hk & Hh).
      destruct (Forall2_In_l _ _ _ k D Hk) as (tk & _ & Hrk). rewrite Forall_forall in IH. exact (IH k Hk tk Hrk h Hh).
Qed.

(* FRAME: every chain of hs is kept and so are the blocks of those chains: a tree whose heads
   are in hs is the same tree on the new disk *)
Theorem node_keep d d' v hs :
  (forall h ch, In h hs -> chain_at d v h ch -> chain_at d' v h ch) ->
  (forall h ch, In h hs -> chain_at d v h ch -> forall j, In j (data_blocks v ch) -> disk_get d' j = disk_get d j) ->
  forall n t p, (forall h, In h (node_heads n) -> In h hs) ->
    node_rep d v n t -> node_ok d v p n -> node_rep d' v n t /\ node_ok d' v p n.
Proof.
  intros G1 G2 n t p Hh Hr Hok.
  assert (No0 : forall pch, ~ chain_at d v 0 pch).
  { intros pch H. pose proof (proj1 (chain_of_head _ _ _ _ _ H)). lia. }
  set (z := mk_ts 0 0 0 0 0 0). set (dummy := NFile (mk_dirent [] z z 0 0 0 0 0) []).
  pose proof (upd_rep_ok 0 [] dummy 0 d d' v hs (fun h ch Hin _ => G1 h ch Hin) (fun h ch Hin _ => G2 h ch Hin)
                (fun pch H => False_ind _ (No0 pch H)) (fun pch H => False_ind _ (No0 pch H))
                (fun pch p0 H => False_ind _ (No0 pch H))) as U.
  assert (Eid : upd 0 [] dummy 0 n = n).
  { apply upd_id. intros H0. pose proof (node_heads_ge2 d v n t Hr 0 H0). lia. }
  rewrite <- Eid. apply U; try assumption.
  - apply node_ok_file. cbn [e_size length]. unfold U32. lia.
  - intros e ch _ H2 E. lia.
Qed.

Print Assumptions upd_rep_ok.
Print Assumptions upd_perm_list.
Print Assumptions node_keep.
