(* C04, second sentence, per call and over histories - ASSEMBLY.
   "Within the data area a call only changes bytes of the file range it was asked to write, of clusters
   it newly allocated, or of the directory slot it owns; within the FAT only entries of chains it
   extends, truncates or frees; all other bytes of every rewritten block are preserved."

     all_steps_frame   forall o, PrFrameHist.step_frame fsz vid o        (every API operation, every outcome)
     fat_frame_all     forall o, fat_frame fsz vid o      the FAT, entry by entry (first copy; the second:
                       PrFrameHist5.fat_frame_copies):
                         (a) an entry whose value differs is the entry of a cluster; it lies on the OLD chain
                             of a target of the call, or it was FREE and lies afterwards on the chain of a
                             target or of a head the old state did not have (the file written from scratch,
                             the directory created) - hence entries 0, 1 and the slack beyond clusters + 2
                             never change (fat_frame_reserved);
                         (b) every head of the old state that is no target - every other file, every other
                             directory, the pending chains of other handles - is still a head, its chain is
                             the same list of clusters and every entry on it has the same value.
     data_frame_all    forall o, data_frame fsz vid o     every block that is no FAT sector:
                         (a) a block whose contents differ is a block of the old chain of the file written
                             (Write / IoWrite only), a block of a cluster that was free, the block of the
                             slot the call owns - a directory block, exactly the bytes at the slot's offset
                             are new, every other byte of the block is the old one -, or the FAT32
                             information sector;
                         (b) every block of the chain of a head the call does not write through, other than
                             the block of the owned slot, is unchanged.
                       (the bytes INSIDE the blocks of the file written: PrFrameHist5.write_range)
     C04_fat_history, C04_data_history   over whole histories: an entry / a block that differs between the
                       first and the last state of a history was owned by one of its calls in the state that
                       call was issued in (owns_entry: on the chain of a target, or free then; owns_block);
     C04_untouched_entry, C04_untouched_block   the contrapositive: what no call of the history owns is
                       unchanged at the end;
     C04_untargeted_chain   THE COMPOSITION for chains: a head of the first state that no call of the history
                       targets is a head throughout; at the end its chain has the same clusters, every FAT
                       entry on it the same value, every block of it the same contents (but for blocks that
                       hold a slot owned by one of the calls - directory blocks).
   targets s v o h: h is the in-memory first cluster of the file of the handle (Write, IoWrite), the first
   cluster of the entry the name lookup finds (truncating OpenFile, Delete), the first cluster of the
   directory of the handle (creating OpenFile, Mkdir: the directory grows when it has no unused slot).
   Scope as for C03 / C04_history (op_known_ok, id_fresh / handles_ok). *)
From Coq Require Import NArith ZArith List Bool Lia Arith ZifyClasses ZifyInst Zify Permutation.
From SdFs Require Import FsTypes FsBase FsFat FsMgr FsLemmas PrBase PrFat PrAlloc PrDir PrSeek PrAllocEffect
  PrRw PrWrite PrFileSeq PrMulti PrEntry PrChain PrCount PrWf PrOpenClose PrGlobalDef PrFrameHist.
From SdFs Require PrModes PrHandles PrCrash PrBounds PrOrder PrGlobal PrGlobalOpen2 PrGlobalMkdir PrContentDef PrCrashDef4 PrFrameHist2 PrFrameHist3.
Import ListNotations.
Open Scope N_scope.
Local Arguments N.mul : simpl never.
Local Arguments N.add : simpl never.
Local Arguments N.sub : simpl never.
Local Arguments N.div : simpl never.
Local Arguments N.modulo : simpl never.
Local Arguments N.land : simpl never.
Local Arguments N.lor : simpl never.
Local Arguments N.min : simpl never.
Local Arguments N.max : simpl never.
Local Ltac Zify.zify_post_hook ::= Z.to_euclidean_division_equations.

Local Notation off_fat := PrGlobalOpen2.off_fat.

(* ================================================================== 1. every operation *)
Theorem all_steps_frame fsz vid : forall o, step_frame fsz vid o.
Proof.
  intros o. destruct o.
  - (* OpenVol: outside the scope *) intros s r s' vi w bl rch T _ _ [[_ F] _]. destruct F.
  - (* CloseVol *) intros s r s' vi w bl rch T _ _ [[_ F] _]. destruct F.
  - apply PrFrameHist2.step_frame_OpenRoot.
  - apply PrFrameHist2.step_frame_OpenDir.
  - apply PrFrameHist2.step_frame_CloseDir.
  - apply PrFrameHist2.step_frame_Find.
  - apply PrFrameHist2.step_frame_Iter.
  - apply PrFrameHist2.step_frame_OpenFile.
  - apply step_frame_CloseFile.
  - apply step_frame_Flush.
  - apply step_frame_Read.
  - apply step_frame_Write.
  - apply step_frame_SeekStart.
  - apply step_frame_SeekCur.
  - apply step_frame_SeekEnd.
  - apply step_frame_Length.
  - apply step_frame_Offset.
  - apply step_frame_Eof.
  - apply PrFrameHist3.step_frame_Delete.
  - apply PrFrameHist3.step_frame_Mkdir.
  - apply PrFrameHist2.step_frame_Label.
  - apply step_frame_HasOpen.
  - apply step_frame_IoSeek.
  - apply step_frame_IoRead.
  - apply step_frame_IoWrite.
  - (* Remount *) intros s r s' vi w bl rch T _ _ [[F _] _]. destruct F.
Qed.

(* ================================================================== 2. what call_frame implies *)
Section Consequences.
  Variables (fsz : N) (v : vol) (hs : list N) (d d' : disk) (tg wch : list N) (sl : option (N * N * list N)).
  Hypothesis W : fat_wf d v hs.
  Hypothesis L : fat_layout v fsz.
  Hypothesis CF : call_frame fsz v hs d d' tg wch sl.

  (* a changed entry *)
  Lemma cf_changed_entry c : fidx v fsz c -> fat_get d' v 0 c <> fat_get d v 0 c ->
    2 <= c /\ c < v_clusters v + 2 /\ (In c (flat_map (chain_l d v) tg) \/ free_cl d v c).
  Proof.
    intros Hc Hne. destruct CF as (_ & F & B & (Ff & _) & Htg & _ & HF & _).
    destruct (in_dec N.eq_dec c F) as [Hin|Hnin]; [|exfalso; exact (Hne (Ff c Hc Hnin))].
    destruct (HF c Hin) as [H|H].
    - apply in_flat_map in H. destruct H as (h & Hh & Hch).
      destruct (chain_at_mem d v h _ c (chain_l_in d v h c Hch) Hch) as (A1 & A2 & _).
      split; [exact A1|]. split; [exact A2|]. left. apply in_flat_map. exists h. split; assumption.
    - destruct H as (A1 & A2 & A3). split; [exact A1|]. split; [exact A2|]. right. repeat split; assumption.
  Qed.

  (* the chain of a head that is no target: same clusters, same entries *)
  Lemma cf_other_entries h : In h hs -> ~ In h tg ->
    forall c, In c (chain_l d v h) -> fat_get d' v 0 c = fat_get d v 0 c.
  Proof.
    intros Hh Hnt c Hc. destruct CF as (_ & F & B & (Ff & _) & Htg & _ & HF & _).
    destruct (chain_at_mem d v h _ c (chain_l_in d v h c Hc) Hc) as (A1 & A2 & A3 & _).
    apply Ff; [exact (fidx_range v fsz c L A2)|].
    intros Hin. destruct (HF c Hin) as [H|(_ & _ & Z)]; [|exact (A3 Z)].
    apply in_flat_map in H. destruct H as (h2 & Hh2 & Hc2).
    apply Hnt. rewrite (wf_l_disj d v hs h h2 c W Hh (Htg h2 Hh2) Hc Hc2). exact Hh2.
  Qed.

  Lemma cf_other_chain h : In h hs -> ~ In h tg -> chain_l d' v h = chain_l d v h.
  Proof.
    intros Hh Hnt. pose proof (wf_l_def d v hs h W Hh) as Hch.
    apply chain_l_at. apply (chain_of_frame d d' v _ _ _ Hch). exact (cf_other_entries h Hh Hnt).
  Qed.

  (* a changed block outside the FAT copies *)
  Lemma cf_changed_block j : off_fat v fsz j -> disk_get d' j <> disk_get d j ->
    In j (data_blocks v (flat_map (chain_l d v) wch)) \/
    (exists c, free_cl d v c /\ In j (cluster_blocks v c)) \/
    (exists off b, sl = Some (j, off, b)) \/ PrBounds.is_info v j.
  Proof.
    intros Hj Hne. destruct CF as (_ & F & B & (_ & Fb) & _ & _ & _ & HB & _).
    destruct (in_dec N.eq_dec j B) as [Hin|Hnin]; [exact (HB j Hin)|exfalso; exact (Hne (Fb j Hj Hnin))].
  Qed.

  (* the slot: the block is a directory block, only the bytes of the slot are new *)
  Lemma cf_slot j off b : sl = Some (j, off, b) ->
    PrBounds.in_dir v j /\ off + N.of_nat (length b) <= 512 /\
    (disk_get d' j = set_bytes (disk_get d j) off b \/
     ((exists c, free_cl d v c /\ In j (cluster_blocks v c)) /\ disk_get d' j = set_bytes zero_block off b)).
  Proof. intros E. destruct CF as (_ & F & B & _ & _ & _ & _ & _ & Hsl). exact (Hsl j off b E). Qed.

  Lemma cf_slot_outside j off b : sl = Some (j, off, b) -> length (disk_get d j) = 512%nat ->
    (forall c, free_cl d v c -> ~ In j (cluster_blocks v c)) ->
    forall i, i < off \/ off + N.of_nat (length b) <= i -> get8 (disk_get d' j) i = get8 (disk_get d j) i.
  Proof.
    intros E Hlen Hnf i Hi. destruct (cf_slot j off b E) as (_ & Hfit & [Hd|((c & Hc & Hin) & _)]).
    - rewrite Hd. apply get8_set_bytes_outside; [rewrite Hlen; lia|exact Hi].
    - exfalso. exact (Hnf c Hc Hin).
  Qed.
End Consequences.

(* blocks of the chain of a head that is no write target, other than the block of the slot *)
Lemma cf_other_blocks fsz total v hs d d' tg wch sl h j :
  fat_wf d v hs -> PrBounds.part_layout v total fsz -> fat_layout v fsz ->
  call_frame fsz v hs d d' tg wch sl ->
  In h hs -> ~ In h wch -> In j (data_blocks v (chain_l d v h)) ->
  (forall off b, sl <> Some (j, off, b)) -> disk_get d' j = disk_get d j.
Proof.
  intros W PL L CF Hh Hnw Hj Hns.
  destruct (list_eq_dec N.eq_dec (disk_get d' j) (disk_get d j)) as [E|Hne]; [exact E|exfalso].
  apply in_data_blocks in Hj. destruct Hj as (x & Hx & Hjx).
  destruct (chain_at_mem d v h _ x (chain_l_in d v h x Hx) Hx) as (X1 & X2 & X3 & _).
  pose proof (PrGlobalOpen2.cluster_block_off_fat fsz v x j L X1 Hjx) as Hoff.
  assert (Hsame : forall y, 2 <= y -> In j (cluster_blocks v y) -> y = x).
  { intros y Y1 Hjy. destruct (N.eq_dec y x) as [E|Hn]; [exact E|exfalso].
    exact (PrRw.cluster_blocks_apart v y x j j Hn Y1 X1 Hjy Hjx eq_refl). }
  destruct (cf_changed_block fsz v hs d d' tg wch sl CF j Hoff Hne) as [H|[(c & (C1 & C2 & C3) & Hjc)|[(off & b & E)|Hi]]].
  - apply in_data_blocks in H. destruct H as (y & Hy & Hjy). apply in_flat_map in Hy. destruct Hy as (h2 & Hh2 & Hy).
    destruct (chain_at_mem d v h2 _ y (chain_l_in d v h2 y Hy) Hy) as (Y1 & _).
    rewrite (Hsame y Y1 Hjy) in Hy.
    destruct CF as (_ & F & B & _ & Htg & Hwch & _).
    apply Hnw. rewrite (wf_l_disj d v hs h h2 x W Hh (Htg h2 (Hwch h2 Hh2)) Hx Hy). exact Hh2.
  - rewrite (Hsame c C1 Hjc) in C3. exact (X3 C3).
  - exact (Hns off b E).
  - pose proof (PrBounds.C04_cluster_block_in_data v x X1 X2) as Fd. rewrite Forall_forall in Fd.
    destruct (PrBounds.C04_regions_disjoint v total fsz j PL) as (_ & _ & _ & Hd). exact (Hd (Fd j Hjx) Hi).
Qed.

(* a cluster that was free and is in use afterwards lies on the chain of a target or of a new head *)
Lemma cf_alloc_where fsz v hs hs' d d' tg wch sl c :
  fat_wf d v hs -> fat_wf d' v hs' -> fat_layout v fsz -> call_frame fsz v hs d d' tg wch sl ->
  free_cl d v c -> fat_get d' v 0 c <> 0 ->
  exists h', In h' hs' /\ (In h' tg \/ ~ In h' hs) /\ In c (chain_l d' v h').
Proof.
  intros W W' L CF (C1 & C2 & C3) Hnz.
  destruct (proj1 (wf_used d' v hs' W' c C1 C2) Hnz) as (h' & ch' & Hh' & Hch' & Hin).
  exists h'. split; [exact Hh'|]. split; [|rewrite (chain_l_at _ _ _ _ Hch'); exact Hin].
  destruct (in_dec N.eq_dec h' tg) as [Ht|Hnt]; [left; exact Ht|].
  destruct (in_dec N.eq_dec h' hs) as [Hhs|Hnhs]; [|right; exact Hnhs].
  exfalso. pose proof (cf_other_chain fsz v hs d d' tg wch sl W L CF h' Hhs Hnt) as E.
  rewrite (chain_l_at _ _ _ _ Hch') in E. rewrite E in Hin.
  destruct (chain_at_mem d v h' _ c (chain_l_in d v h' c Hin) Hin) as (_ & _ & Z & _). exact (Z C3).
Qed.

(* the entry of a cluster of a chain holds the number of the next cluster *)
Lemma chain_link d v : forall f c l, chain_of d v c f = Some l ->
  forall p z y r, l = p ++ z :: y :: r -> fat_get d v 0 z = y.
Proof.
  induction f as [|f IH]; intros c l H p z y r E; [discriminate|].
  destruct (PrCrash.chain_of_inv _ _ _ _ _ H) as (_ & _ & _ & [(_ & ->)|(_ & l0 & Hn & ->)]).
  - destruct p as [|a [|b p']]; discriminate E.
  - destruct p as [|a p']; cbn [app] in E; injection E as <- E.
    + destruct f as [|f']; [discriminate|]. destruct (chain_of_head _ _ _ _ _ Hn) as (_ & _ & l' & El).
      rewrite El in E. injection E as E _. exact E.
    + exact (IH _ _ Hn p' z y r E).
Qed.

(* a head that is no target is a head afterwards: nothing links to it, before or after *)
Lemma cf_head_persists fsz v hs hs' d d' tg wch sl h :
  fat_wf d v hs -> fat_wf d' v hs' -> fat_layout v fsz -> link_ok v -> call_frame fsz v hs d d' tg wch sl ->
  In h hs -> ~ In h tg -> In h hs'.
Proof.
  intros W W' L Hl CF Hh Hnt.
  pose proof (wf_l_def d v hs h W Hh) as Hch.
  assert (Hch' : chain_at d' v h (chain_l d v h)).
  { apply (chain_of_frame d d' v _ _ _ Hch). exact (cf_other_entries fsz v hs d d' tg wch sl W L CF h Hh Hnt). }
  pose proof (chain_at_head_in _ _ _ _ Hch') as Hin.
  destruct (chain_at_mem d' v h _ h Hch' Hin) as (H1 & H2 & H3 & _).
  destruct (chain_at_mem d v h _ h Hch Hin) as (_ & _ & H3d & _).
  destruct (proj1 (wf_l_used d' v hs' h W' H1 H2) H3) as (h2 & Hh2 & Hin2).
  destruct (N.eq_dec h2 h) as [->|Hne]; [exact Hh2|exfalso].
  pose proof (wf_l_def d' v hs' h2 W' Hh2) as Hch2.
  destruct (chain_split d' v _ _ _ Hch2 h Hin2) as (pre & lh & E & Hlh).
  rewrite (chain_at_det _ _ _ _ _ Hlh Hch') in E.
  destruct (chain_at_head _ _ _ _ Hch') as (r & Er). destruct (chain_at_head _ _ _ _ Hch2) as (r2 & Er2).
  destruct (@exists_last _ pre) as (pre' & z & Epre).
  { intros ->. cbn [app] in E. rewrite E, Er in Er2. injection Er2 as E2 _. exact (Hne (eq_sym E2)). }
  assert (Hz : fat_get d' v 0 z = h).
  { apply (chain_link d' v _ _ _ Hch2 pre' z h r). rewrite E, Epre, Er, <- app_assoc. reflexivity. }
  assert (Hzin : In z (chain_l d' v h2)) by (rewrite E, Epre; apply in_or_app; left; apply in_or_app; right; left; reflexivity).
  destruct (chain_at_mem d' v h2 _ z Hch2 Hzin) as (Z1 & Z2 & _).
  destruct CF as (Hval & _).
  destruct (Hval z (fidx_range v fsz z L Z2)) as [Es|[E0|[Ee|(c2 & (C1 & C2 & C3) & Ec)]]].
  - rewrite Hz in Es. exact (wf_head_no_pred d v hs h z W Hl Hh Z1 Z2 (eq_sym Es)).
  - rewrite Hz in E0. lia.
  - rewrite Hz in Ee. destruct (eof_is_end v) as (_ & Emin). rewrite <- Ee in Emin. apply N.leb_le in Emin.
    unfold link_ok in Hl. pose proof (bad_lt_eoc v). lia.
  - rewrite Hz, (enc_link v c2 Hl C2) in Ec. subst c2. exact (H3d C3).
Qed.

(* ================================================================== 3. the two readable per-call theorems *)
(* h heads a chain the call owns *)
Definition targets (s : st) (v : vol) (o : op) (h : N) : Prop :=
  match o with
  | Write hd _ | IoWrite hd _ => exists f, file_of s hd f /\ e_cluster (f_entry f) = h
  | OpenFile dh name md => (PrCrashDef4.truncating md = true /\ exists e, dir_entry s v dh name e /\ e_cluster e = h) \/
                           dir_head s v dh h
  | Delete dh name => exists e, dir_entry s v dh name e /\ e_cluster e = h
  | Mkdir dh _ => dir_head s v dh h
  | _ => False
  end.
(* the call writes file data *)
Definition writes_data (o : op) : Prop := match o with Write _ _ | IoWrite _ _ => True | _ => False end.
(* the call owns the slot at byte offset off of block j and puts the bytes b there (PrFrameHist.op_owns
   says which slot that is: of the handle's file, of the name looked up, an unused one of the directory) *)
Definition owned_slot (s : st) (v : vol) (o : op) (j off : N) (b : list N) : Prop :=
  exists tg wch, op_owns s v o tg wch (Some (j, off, b)).

Lemma op_owns_targets s v o tg wch sl h : op_owns s v o tg wch sl -> In h tg -> targets s v o h.
Proof.
  destruct o; cbn [op_owns targets]; intros H Hin;
    try (destruct H as (-> & _); destruct Hin).
  - destruct H as (_ & Ht & _). exact (Ht h Hin).
  - destruct H as (_ & _ & Ht). exact (Ht h Hin).
  - destruct H as (_ & Ht & _). exact (Ht h Hin).
  - destruct H as (_ & Ht & _). exact (Ht h Hin).
  - destruct H as (_ & _ & Ht). exact (Ht h Hin).
Qed.

Lemma op_owns_wch s v o tg wch sl h : op_owns s v o tg wch sl -> In h wch -> writes_data o /\ In h tg.
Proof.
  destruct o; cbn [op_owns writes_data]; intros H Hin;
    try (destruct H as (_ & -> & _); destruct Hin); try (destruct H as (-> & _); destruct Hin).
  - destruct H as (_ & -> & _). split; [exact I|exact Hin].
  - destruct H as (_ & -> & _). split; [exact I|exact Hin].
Qed.

Definition fat_frame (fsz vid : N) (o : op) : Prop :=
  forall s r s' vi v bl rch T, fs_inv_at fsz vid s vi v bl rch T -> id_fresh s -> op_known_ok o ->
    step o s = (r, s') ->
    exists vi' v' bl' rch' T', fs_inv_at fsz vid s' vi' v' bl' rch' T' /\ geo_eq v v' /\
      let d := s_disk s in let d' := s_disk s' in
      let hs := heads v T ++ pend_of s v in let hs' := heads v' T' ++ pend_of s' v' in
      (* (a) an entry whose value differs *)
      (forall c, fidx v fsz c -> fat_get d' v 0 c <> fat_get d v 0 c ->
         2 <= c /\ c < v_clusters v + 2 /\
         ((exists h, In h hs /\ targets s v o h /\ In c (chain_l d v h)) \/
          (free_cl d v c /\
           exists h', In h' hs' /\ ((In h' hs /\ targets s v o h') \/ ~ In h' hs) /\ In c (chain_l d' v h')))) /\
      (* (b) the chain of every head that is no target *)
      (forall h, In h hs -> ~ targets s v o h ->
         In h hs' /\ chain_l d' v h = chain_l d v h /\
         forall c, In c (chain_l d v h) -> fat_get d' v 0 c = fat_get d v 0 c).

Definition data_frame (fsz vid : N) (o : op) : Prop :=
  forall s r s' vi v bl rch T, fs_inv_at fsz vid s vi v bl rch T -> id_fresh s -> op_known_ok o ->
    step o s = (r, s') ->
    let d := s_disk s in let d' := s_disk s' in let hs := heads v T ++ pend_of s v in
    (* (a) a block, no sector of a FAT copy, whose contents differ *)
    (forall j, off_fat v fsz j -> disk_get d' j <> disk_get d j ->
       (writes_data o /\ exists h, In h hs /\ targets s v o h /\ In j (data_blocks v (chain_l d v h))) \/
       (exists c, free_cl d v c /\ In j (cluster_blocks v c)) \/
       (exists off b, owned_slot s v o j off b /\ PrBounds.in_dir v j /\ off + N.of_nat (length b) <= 512 /\
                      disk_get d' j = set_bytes (disk_get d j) off b /\
                      forall i, i < off \/ off + N.of_nat (length b) <= i -> get8 (disk_get d' j) i = get8 (disk_get d j) i) \/
       PrBounds.is_info v j) /\
    (* (b) the blocks of the chain of a head the call does not write through, but for the owned slot *)
    (forall h j, In h hs -> ~ (writes_data o /\ targets s v o h) -> In j (data_blocks v (chain_l d v h)) ->
       (forall off b, ~ owned_slot s v o j off b) -> disk_get d' j = disk_get d j).

Lemma inv_at_after fsz vid o s r s' vi v bl rch T : fs_inv_at fsz vid s vi v bl rch T -> id_fresh s ->
  op_known_ok o -> step o s = (r, s') ->
  exists vi' v' bl' rch' T', fs_inv_at fsz vid s' vi' v' bl' rch' T' /\ geo_eq v v'.
Proof.
  intros Hat Hid Hk Hs.
  assert (Hinv : fs_inv fsz vid s) by (exists vi, v, bl, rch, T; exact Hat).
  destruct (PrGlobal.all_steps_ok fsz vid o s r s' Hinv Hid Hk Hs) as (_ & _ & (vi' & v' & bl' & rch' & T' & Hat') & Hgeo & _).
  exists vi', v', bl', rch', T'. split; [exact Hat'|].
  destruct Hgeo as (w & w' & Ew & Ew' & G).
  rewrite (fi_single _ _ _ _ _ _ _ _ Hat) in Ew. injection Ew as <-.
  rewrite (fi_single _ _ _ _ _ _ _ _ Hat') in Ew'. injection Ew' as <-. exact G.
Qed.

Theorem fat_frame_all fsz vid : forall o, fat_frame fsz vid o.
Proof.
  intros o s r s' vi v bl rch T Hat Hid Hk Hs.
  destruct (all_steps_frame fsz vid o s r s' vi v bl rch T Hat Hid Hk Hs) as (tg & wch & sl & CF & Hown).
  destruct (inv_at_after fsz vid o s r s' vi v bl rch T Hat Hid Hk Hs) as (vi' & v' & bl' & rch' & T' & Hat' & G).
  exists vi', v', bl', rch', T'. split; [exact Hat'|]. split; [exact G|]. cbv zeta.
  pose proof (di_wf _ _ _ _ _ _ (fi_disk _ _ _ _ _ _ _ _ Hat)) as W.
  pose proof (fat_wf_geo _ v' v _ (geo_eq_sym _ _ G) (di_wf _ _ _ _ _ _ (fi_disk _ _ _ _ _ _ _ _ Hat'))) as W'.
  destruct (fi_vol _ _ _ _ _ _ _ _ Hat) as (_ & (_ & L & _) & _).
  assert (Htg : incl tg (heads v T ++ pend_of s v)) by (destruct CF as (_ & F & B & _ & H & _); exact H).
  split.
  - intros c Hc Hne.
    destruct (cf_changed_entry fsz v _ _ _ tg wch sl CF c Hc Hne) as (C1 & C2 & Hcase).
    split; [exact C1|]. split; [exact C2|]. destruct Hcase as [H|Hfree].
    + left. apply in_flat_map in H. destruct H as (h & Hh & Hin). exists h.
      split; [exact (Htg h Hh)|]. split; [exact (op_owns_targets s v o tg wch sl h Hown Hh)|exact Hin].
    + right. split; [exact Hfree|].
      assert (Hnz : fat_get (s_disk s') v 0 c <> 0) by (destruct Hfree as (_ & _ & Z); rewrite Z in Hne; exact Hne).
      destruct (cf_alloc_where fsz v _ _ _ _ tg wch sl c W W' L CF Hfree Hnz) as (h' & Hh' & Hcase & Hin).
      exists h'. split; [exact Hh'|]. split; [|exact Hin].
      destruct Hcase as [Ht|Hn]; [left; split; [exact (Htg h' Ht)|exact (op_owns_targets s v o tg wch sl h' Hown Ht)]|right; exact Hn].
  - intros h Hh Hnt.
    assert (Hn : ~ In h tg) by (intros Hin; exact (Hnt (op_owns_targets s v o tg wch sl h Hown Hin))).
    destruct (fi_vol _ _ _ _ _ _ _ _ Hat) as (_ & _ & Hfit & _).
    split; [exact (cf_head_persists fsz v _ _ _ _ tg wch sl h W W' L Hfit CF Hh Hn)|].
    split; [exact (cf_other_chain fsz v _ _ _ tg wch sl W L CF h Hh Hn)|exact (cf_other_entries fsz v _ _ _ tg wch sl W L CF h Hh Hn)].
Qed.

Theorem data_frame_all fsz vid : forall o, data_frame fsz vid o.
Proof.
  intros o s r s' vi v bl rch T Hat Hid Hk Hs.
  destruct (all_steps_frame fsz vid o s r s' vi v bl rch T Hat Hid Hk Hs) as (tg & wch & sl & CF & Hown).
  cbv zeta.
  pose proof (di_wf _ _ _ _ _ _ (fi_disk _ _ _ _ _ _ _ _ Hat)) as W.
  destruct (fi_vol _ _ _ _ _ _ _ _ Hat) as (_ & (_ & L & _) & _ & _ & Hbw & _).
  pose proof (fi_layout _ _ _ _ _ _ _ _ Hat) as PL.
  assert (Htg : incl tg (heads v T ++ pend_of s v)) by (destruct CF as (_ & F & B & _ & H & _); exact H).
  split.
  - intros j Hj Hne.
    destruct (cf_changed_block fsz v _ _ _ tg wch sl CF j Hj Hne) as [H|[H|[(off & b & E)|H]]].
    + left. apply in_data_blocks in H. destruct H as (x & Hx & Hjx). apply in_flat_map in Hx. destruct Hx as (h & Hh & Hx).
      destruct (op_owns_wch s v o tg wch sl h Hown Hh) as (Hw & Ht). split; [exact Hw|].
      exists h. split; [exact (Htg h Ht)|]. split; [exact (op_owns_targets s v o tg wch sl h Hown Ht)|].
      apply in_data_blocks. exists x. split; assumption.
    + right. left. exact H.
    + destruct (cf_slot fsz v _ _ _ tg wch sl CF j off b E) as (Hdir & Hfit & [Hd|(Hfree & _)]).
      * right. right. left. exists off, b. split; [exists tg, wch; rewrite <- E; exact Hown|].
        split; [exact Hdir|]. split; [exact Hfit|]. split; [exact Hd|].
        intros i Hi. rewrite Hd. apply get8_set_bytes_outside; [rewrite (Hbw j); lia|exact Hi].
      * right. left. exact Hfree.
    + right. right. right. exact H.
  - intros h j Hh Hnw Hj Hns.
    apply (cf_other_blocks fsz (v_nblocks v) v _ _ _ tg wch sl h j W PL L CF Hh); [|exact Hj|].
    + intros Hin. apply Hnw. destruct (op_owns_wch s v o tg wch sl h Hown Hin) as (Hw & Ht).
      split; [exact Hw|exact (op_owns_targets s v o tg wch sl h Hown Ht)].
    + intros off b E. apply (Hns off b). exists tg, wch. rewrite <- E. exact Hown.
Qed.

(* entries 0, 1 and the slack entries beyond clusters + 2 never change *)
Corollary fat_frame_reserved fsz vid o s r s' vi v bl rch T : fs_inv_at fsz vid s vi v bl rch T -> id_fresh s ->
  op_known_ok o -> step o s = (r, s') ->
  forall c, fidx v fsz c -> c < 2 \/ v_clusters v + 2 <= c -> fat_get (s_disk s') v 0 c = fat_get (s_disk s) v 0 c.
Proof.
  intros Hat Hid Hk Hs c Hc Hr.
  destruct (fat_frame_all fsz vid o s r s' vi v bl rch T Hat Hid Hk Hs) as (vi' & v' & bl' & rch' & T' & _ & _ & Ha & _).
  destruct (N.eq_dec (fat_get (s_disk s') v 0 c) (fat_get (s_disk s) v 0 c)) as [E|Hne]; [exact E|exfalso].
  destruct (Ha c Hc Hne) as (C1 & C2 & _). lia.
Qed.

(* ================================================================== 4. histories *)
(* the call o, issued in state s, owns FAT entry c / block j *)
Definition owns_entry (fsz vid : N) (s : st) (o : op) (c : N) : Prop :=
  exists vi v bl rch T, fs_inv_at fsz vid s vi v bl rch T /\
    (free_cl (s_disk s) v c \/
     exists h, In h (heads v T ++ pend_of s v) /\ targets s v o h /\ In c (chain_l (s_disk s) v h)).
Definition owns_block (fsz vid : N) (s : st) (o : op) (j : N) : Prop :=
  exists vi v bl rch T, fs_inv_at fsz vid s vi v bl rch T /\
    ((writes_data o /\ exists h, In h (heads v T ++ pend_of s v) /\ targets s v o h /\
                                In j (data_blocks v (chain_l (s_disk s) v h))) \/
     (exists c, free_cl (s_disk s) v c /\ In j (cluster_blocks v c)) \/
     (exists off b, owned_slot s v o j off b) \/ PrBounds.is_info v j).

Lemma run_ops_cons o rest s : snd (run_ops (o :: rest) s) = snd (run_ops rest (snd (step o s))).
Proof. cbn [run_ops]. destruct (step o s) as [r s1]. cbn [snd]. destruct (run_ops rest s1) as [rs s']. reflexivity. Qed.

Lemma fs_inv_at_vol fsz vid s v : fs_inv fsz vid s -> s_vols s = [v] ->
  exists vi bl rch T, fs_inv_at fsz vid s vi v bl rch T.
Proof.
  intros (vi & w & bl & rch & T & Hat) Ev. rewrite (fi_single _ _ _ _ _ _ _ _ Hat) in Ev. injection Ev as <-.
  exists vi, bl, rch, T. exact Hat.
Qed.

(* one step of a history: the invariants the induction carries *)
Lemma history_step fsz vid o rest s age :
  fs_inv fsz vid s -> PrHandles.handles_ok age s ->
  age + N.of_nat (length (o :: rest)) < U32 - 1 -> Forall op_known_ok (o :: rest) ->
  id_fresh s /\ op_known_ok o /\
  fs_inv fsz vid (snd (step o s)) /\ PrHandles.handles_ok (age + 1) (snd (step o s)) /\
  age + 1 + N.of_nat (length rest) < U32 - 1 /\ Forall op_known_ok rest.
Proof.
  intros Hinv Hh Hage Hops. inversion Hops as [|? ? Ho Hrest]; subst. cbn [length] in Hage.
  assert (Ha1 : age < U32) by (unfold U32 in *; lia).
  assert (Ha2 : age < U32 - 1) by (unfold U32 in *; lia).
  assert (Ha3 : age + 1 + N.of_nat (length rest) < U32 - 1).
  { rewrite Nat2N.inj_succ in Hage. unfold U32 in *. lia. }
  pose proof (handles_ok_fresh age s Ha1 Hh) as Hfresh.
  destruct (step o s) as [r s1] eqn:Es. cbn [snd].
  destruct (PrGlobal.all_steps_ok fsz vid o s r s1 Hinv Hfresh Ho Es) as (_ & _ & Hinv1 & _).
  pose proof (PrHandles.C08_handles_ok_step age o s Ha2 (no_remount_ok o (proj1 (proj1 Ho))) Hh) as Hh1.
  rewrite Es in Hh1. cbn [snd] in Hh1.
  repeat (split; [assumption|]). assumption.
Qed.

(* C04 over histories, the FAT: an entry that differs between the first and the last state of a history
   was owned by one of its calls, in the state that call was issued in - it lay on the chain of a target
   of that call, or it was free then (and the call allocated it) *)
Theorem C04_fat_history fsz vid : forall ops s age v c,
  fs_inv fsz vid s -> PrHandles.handles_ok age s ->
  age + N.of_nat (length ops) < U32 - 1 -> Forall op_known_ok ops ->
  s_vols s = [v] -> fidx v fsz c ->
  fat_get (s_disk (snd (run_ops ops s))) v 0 c <> fat_get (s_disk s) v 0 c ->
  exists ops1 o ops2, ops = ops1 ++ o :: ops2 /\ owns_entry fsz vid (snd (run_ops ops1 s)) o c.
Proof.
  induction ops as [|o rest IH]; intros s age v c Hinv Hh Hage Hops Ev Hc Hne.
  { cbn [run_ops snd] in Hne. exfalso. exact (Hne eq_refl). }
  destruct (history_step fsz vid o rest s age Hinv Hh Hage Hops) as (Hfresh & Ho & Hinv1 & Hh1 & Ha3 & Hrest).
  rewrite run_ops_cons in Hne.
  destruct (step o s) as [r s1] eqn:Es. cbn [snd] in *.
  destruct (fs_inv_at_vol fsz vid s v Hinv Ev) as (vi & bl & rch & T & Hat).
  destruct (fat_frame_all fsz vid o s r s1 vi v bl rch T Hat Hfresh Ho Es)
    as (vi' & v' & bl' & rch' & T' & Hat' & G & Ha & _). cbv zeta in Ha.
  destruct (N.eq_dec (fat_get (s_disk s1) v 0 c) (fat_get (s_disk s) v 0 c)) as [E|Hne1].
  - (* not this call: one of the later ones *)
    assert (Hc' : fidx v' fsz c) by (destruct G as (a & b & ->); exact Hc).
    assert (Hne' : fat_get (s_disk (snd (run_ops rest s1))) v' 0 c <> fat_get (s_disk s1) v' 0 c).
    { assert (Gf : forall dd x, fat_get dd v' 0 x = fat_get dd v 0 x) by (intros dd x; destruct G as (a & b & ->); reflexivity).
      rewrite !Gf, E. exact Hne. }
    destruct (IH s1 (age + 1) v' c Hinv1 Hh1 Ha3 Hrest (fi_single _ _ _ _ _ _ _ _ Hat') Hc' Hne')
      as (ops1 & o' & ops2 & Eops & Hown).
    exists (o :: ops1), o', ops2. split; [rewrite Eops; reflexivity|].
    rewrite run_ops_cons, Es. exact Hown.
  - exists [], o, rest. split; [reflexivity|]. cbn [run_ops snd].
    exists vi, v, bl, rch, T. split; [exact Hat|].
    destruct (Ha c Hc Hne1) as (_ & _ & [H|(Hfree & _)]); [right; exact H|left; exact Hfree].
Qed.

(* C04 over histories, the blocks outside the FAT copies: a block that differs between the first and the
   last state was owned by one of the calls: a block of the chain of the file that call wrote, a block of
   a cluster that was free when the call was issued, the block of the slot the call owned, or the FAT32
   information sector *)
Theorem C04_data_history fsz vid : forall ops s age v j,
  fs_inv fsz vid s -> PrHandles.handles_ok age s ->
  age + N.of_nat (length ops) < U32 - 1 -> Forall op_known_ok ops ->
  s_vols s = [v] -> off_fat v fsz j ->
  disk_get (s_disk (snd (run_ops ops s))) j <> disk_get (s_disk s) j ->
  exists ops1 o ops2, ops = ops1 ++ o :: ops2 /\ owns_block fsz vid (snd (run_ops ops1 s)) o j.
Proof.
  induction ops as [|o rest IH]; intros s age v j Hinv Hh Hage Hops Ev Hj Hne.
  { cbn [run_ops snd] in Hne. exfalso. exact (Hne eq_refl). }
  destruct (history_step fsz vid o rest s age Hinv Hh Hage Hops) as (Hfresh & Ho & Hinv1 & Hh1 & Ha3 & Hrest).
  rewrite run_ops_cons in Hne.
  destruct (step o s) as [r s1] eqn:Es. cbn [snd] in *.
  destruct (fs_inv_at_vol fsz vid s v Hinv Ev) as (vi & bl & rch & T & Hat).
  destruct (inv_at_after fsz vid o s r s1 vi v bl rch T Hat Hfresh Ho Es) as (vi' & v' & bl' & rch' & T' & Hat' & G).
  destruct (data_frame_all fsz vid o s r s1 vi v bl rch T Hat Hfresh Ho Es) as (Ha & _). cbv zeta in Ha.
  destruct (list_eq_dec N.eq_dec (disk_get (s_disk s1) j) (disk_get (s_disk s) j)) as [E|Hne1].
  - assert (Hj' : off_fat v' fsz j) by (destruct G as (a & b & ->); exact Hj).
    assert (Hne' : disk_get (s_disk (snd (run_ops rest s1))) j <> disk_get (s_disk s1) j) by (rewrite E; exact Hne).
    destruct (IH s1 (age + 1) v' j Hinv1 Hh1 Ha3 Hrest (fi_single _ _ _ _ _ _ _ _ Hat') Hj' Hne')
      as (ops1 & o' & ops2 & Eops & Hown).
    exists (o :: ops1), o', ops2. split; [rewrite Eops; reflexivity|].
    rewrite run_ops_cons, Es. exact Hown.
  - exists [], o, rest. split; [reflexivity|]. cbn [run_ops snd].
    exists vi, v, bl, rch, T. split; [exact Hat|].
    destruct (Ha j Hj Hne1) as [H|[H|[(off & b & H & _)|H]]].
    + left. exact H.
    + right. left. exact H.
    + right. right. left. exists off, b. exact H.
    + right. right. right. exact H.
Qed.

(* the same, read the other way: what no call of the history owns is unchanged at the end *)
Corollary C04_untouched_entry fsz vid ops s age v c :
  fs_inv fsz vid s -> PrHandles.handles_ok age s ->
  age + N.of_nat (length ops) < U32 - 1 -> Forall op_known_ok ops -> s_vols s = [v] -> fidx v fsz c ->
  (forall ops1 o ops2, ops = ops1 ++ o :: ops2 -> ~ owns_entry fsz vid (snd (run_ops ops1 s)) o c) ->
  fat_get (s_disk (snd (run_ops ops s))) v 0 c = fat_get (s_disk s) v 0 c.
Proof.
  intros Hinv Hh Hage Hops Ev Hc Hno.
  destruct (N.eq_dec (fat_get (s_disk (snd (run_ops ops s))) v 0 c) (fat_get (s_disk s) v 0 c)) as [E|Hne]; [exact E|exfalso].
  destruct (C04_fat_history fsz vid ops s age v c Hinv Hh Hage Hops Ev Hc Hne) as (ops1 & o & ops2 & E & Hown).
  exact (Hno ops1 o ops2 E Hown).
Qed.

Corollary C04_untouched_block fsz vid ops s age v j :
  fs_inv fsz vid s -> PrHandles.handles_ok age s ->
  age + N.of_nat (length ops) < U32 - 1 -> Forall op_known_ok ops -> s_vols s = [v] -> off_fat v fsz j ->
  (forall ops1 o ops2, ops = ops1 ++ o :: ops2 -> ~ owns_block fsz vid (snd (run_ops ops1 s)) o j) ->
  disk_get (s_disk (snd (run_ops ops s))) j = disk_get (s_disk s) j.
Proof.
  intros Hinv Hh Hage Hops Ev Hj Hno.
  destruct (list_eq_dec N.eq_dec (disk_get (s_disk (snd (run_ops ops s))) j) (disk_get (s_disk s) j)) as [E|Hne]; [exact E|exfalso].
  destruct (C04_data_history fsz vid ops s age v j Hinv Hh Hage Hops Ev Hj Hne) as (ops1 & o & ops2 & E & Hown).
  exact (Hno ops1 o ops2 E Hown).
Qed.

(* the chain of a head: as long as, at every call of the history, h is a head of the tree (or a pending
   chain) and no target of that call, its chain keeps its clusters, every FAT entry on it keeps its value,
   and every block of it keeps its contents but for the blocks of slots owned by the calls *)
Definition stays_head (fsz vid : N) (h : N) (s : st) (o : op) : Prop :=
  forall vi v bl rch T, fs_inv_at fsz vid s vi v bl rch T ->
    In h (heads v T ++ pend_of s v) /\ ~ targets s v o h.

Theorem C04_chain_history fsz vid : forall ops s age v h,
  fs_inv fsz vid s -> PrHandles.handles_ok age s ->
  age + N.of_nat (length ops) < U32 - 1 -> Forall op_known_ok ops -> s_vols s = [v] ->
  (forall ops1 o ops2, ops = ops1 ++ o :: ops2 -> stays_head fsz vid h (snd (run_ops ops1 s)) o) ->
  let d := s_disk s in let dn := s_disk (snd (run_ops ops s)) in
  chain_l dn v h = chain_l d v h /\
  (forall c, In c (chain_l d v h) -> fat_get dn v 0 c = fat_get d v 0 c) /\
  (forall j, In j (data_blocks v (chain_l d v h)) ->
     (forall ops1 o ops2 vk off b, ops = ops1 ++ o :: ops2 -> s_vols (snd (run_ops ops1 s)) = [vk] ->
        ~ owned_slot (snd (run_ops ops1 s)) vk o j off b) ->
     disk_get dn j = disk_get d j).
Proof.
  induction ops as [|o rest IH]; intros s age v h Hinv Hh Hage Hops Ev Hstay.
  { cbn [run_ops snd]. split; [reflexivity|]. split; intros; reflexivity. }
  destruct (history_step fsz vid o rest s age Hinv Hh Hage Hops) as (Hfresh & Ho & Hinv1 & Hh1 & Ha3 & Hrest).
  cbv zeta. rewrite run_ops_cons.
  destruct (step o s) as [r s1] eqn:Es. cbn [snd] in *.
  destruct (fs_inv_at_vol fsz vid s v Hinv Ev) as (vi & bl & rch & T & Hat).
  destruct (Hstay [] o rest eq_refl vi v bl rch T Hat) as (Hhead & Hnt). cbn [run_ops snd] in Hhead, Hnt.
  destruct (fat_frame_all fsz vid o s r s1 vi v bl rch T Hat Hfresh Ho Es)
    as (vi' & v' & bl' & rch' & T' & Hat' & G & _ & Hb). cbv zeta in Hb.
  destruct (Hb h Hhead Hnt) as (_ & Hch1 & Hent1).
  destruct (data_frame_all fsz vid o s r s1 vi v bl rch T Hat Hfresh Ho Es) as (_ & Hblk). cbv zeta in Hblk.
  assert (Hstay1 : forall ops1 o' ops2, rest = ops1 ++ o' :: ops2 -> stays_head fsz vid h (snd (run_ops ops1 s1)) o').
  { intros ops1 o' ops2 E. pose proof (Hstay (o :: ops1) o' ops2 ltac:(rewrite E; reflexivity)) as H.
    rewrite run_ops_cons, Es in H. exact H. }
  destruct (IH s1 (age + 1) v' h Hinv1 Hh1 Ha3 Hrest (fi_single _ _ _ _ _ _ _ _ Hat') Hstay1) as (I1 & I2 & I3).
  assert (Gv : forall dd x, chain_l dd v' x = chain_l dd v x).
  { intros dd x. exact (PrGlobalMkdir.mkd_chain_l_geo dd v v' x G). }
  assert (Gf : forall dd x, fat_get dd v' 0 x = fat_get dd v 0 x).
  { intros dd x. destruct G as (a & b & ->). reflexivity. }
  rewrite !Gv in I1. rewrite Gv in I2, I3. rewrite (data_blocks_geo v v' _ G) in I3.
  split; [rewrite I1; exact Hch1|]. split.
  - intros c Hc. rewrite <- (Hent1 c Hc). rewrite <- !Gf. apply I2. rewrite Hch1. exact Hc.
  - intros j Hj Hns. rewrite I3.
    + apply (Hblk h j Hhead); [intros (_ & Ht); exact (Hnt Ht)|exact Hj|].
      intros off b Hs. exact (Hns [] o rest v off b eq_refl Ev Hs).
    + rewrite Hch1. exact Hj.
    + intros ops1 o' ops2 vk off b E Evk Hs. apply (Hns (o :: ops1) o' ops2 vk off b).
      * rewrite E. reflexivity.
      * rewrite run_ops_cons, Es. exact Evk.
      * rewrite run_ops_cons, Es. exact Hs.
Qed.

(* ... and a head that no call targets STAYS a head (cf_head_persists): it suffices that h is a head at the
   start and is never a target.  THE COMPOSITION: the chain of a file or directory that no call of the
   history targets has at the end the clusters, the FAT entries and (but for owned slots, which lie in
   directory blocks) the block contents it had at the start *)
Definition never_target (fsz vid : N) (h : N) (s : st) (o : op) : Prop :=
  forall vi v bl rch T, fs_inv_at fsz vid s vi v bl rch T -> ~ targets s v o h.

Lemma head_after fsz vid o s r s' vi v bl rch T vi' v' bl' rch' T' h :
  fs_inv_at fsz vid s vi v bl rch T -> id_fresh s -> op_known_ok o -> step o s = (r, s') ->
  fs_inv_at fsz vid s' vi' v' bl' rch' T' ->
  In h (heads v T ++ pend_of s v) -> ~ targets s v o h -> In h (heads v' T' ++ pend_of s' v').
Proof.
  intros Hat Hid Hk Hs Hat' Hh Hnt.
  destruct (all_steps_frame fsz vid o s r s' vi v bl rch T Hat Hid Hk Hs) as (tg & wch & sl & CF & Hown).
  destruct (inv_at_after fsz vid o s r s' vi v bl rch T Hat Hid Hk Hs) as (vi2 & v2 & bl2 & rch2 & T2 & Hat2 & G).
  destruct (PrContentDef.fs_inv_at_det _ _ _ _ _ _ _ _ _ _ _ _ _ Hat' Hat2) as (_ & <- & _ & _ & <-).
  pose proof (di_wf _ _ _ _ _ _ (fi_disk _ _ _ _ _ _ _ _ Hat)) as W.
  pose proof (fat_wf_geo _ v' v _ (geo_eq_sym _ _ G) (di_wf _ _ _ _ _ _ (fi_disk _ _ _ _ _ _ _ _ Hat'))) as W'.
  destruct (fi_vol _ _ _ _ _ _ _ _ Hat) as (_ & (_ & L & _) & Hfit & _).
  apply (cf_head_persists fsz v _ _ _ _ tg wch sl h W W' L Hfit CF Hh).
  intros Hin. exact (Hnt (op_owns_targets s v o tg wch sl h Hown Hin)).
Qed.

Theorem C04_untargeted_chain fsz vid : forall ops s age vi v bl rch T h,
  fs_inv_at fsz vid s vi v bl rch T -> PrHandles.handles_ok age s ->
  age + N.of_nat (length ops) < U32 - 1 -> Forall op_known_ok ops ->
  In h (heads v T ++ pend_of s v) ->
  (forall ops1 o ops2, ops = ops1 ++ o :: ops2 -> never_target fsz vid h (snd (run_ops ops1 s)) o) ->
  let d := s_disk s in let dn := s_disk (snd (run_ops ops s)) in
  chain_l dn v h = chain_l d v h /\
  (forall c, In c (chain_l d v h) -> fat_get dn v 0 c = fat_get d v 0 c) /\
  (forall j, In j (data_blocks v (chain_l d v h)) ->
     (forall ops1 o ops2 vk off b, ops = ops1 ++ o :: ops2 -> s_vols (snd (run_ops ops1 s)) = [vk] ->
        ~ owned_slot (snd (run_ops ops1 s)) vk o j off b) ->
     disk_get dn j = disk_get d j).
Proof.
  intros ops s age vi v bl rch T h Hat Hh Hage Hops Hhead Hnever.
  assert (Hinv : fs_inv fsz vid s) by (exists vi, v, bl, rch, T; exact Hat).
  apply (C04_chain_history fsz vid ops s age v h Hinv Hh Hage Hops (fi_single _ _ _ _ _ _ _ _ Hat)).
  (* h stays a head: by induction over the prefixes *)
  clear - Hat Hh Hage Hops Hhead Hnever.
  revert s age vi v bl rch T Hat Hh Hage Hops Hhead Hnever.
  induction ops as [|o rest IH]; intros s age vi v bl rch T Hat Hh Hage Hops Hhead Hnever ops1 o' ops2 E.
  { destruct ops1; discriminate E. }
  assert (Hinv : fs_inv fsz vid s) by (exists vi, v, bl, rch, T; exact Hat).
  destruct ops1 as [|o1 ops1']; cbn [app] in E; injection E as <- E.
  - subst ops2. cbn [run_ops snd]. intros vi0 v0 bl0 rch0 T0 Hat0.
    destruct (PrContentDef.fs_inv_at_det _ _ _ _ _ _ _ _ _ _ _ _ _ Hat Hat0) as (_ & <- & _ & _ & <-).
    split; [exact Hhead|]. exact (Hnever [] o rest eq_refl vi v bl rch T Hat).
  - destruct (history_step fsz vid o rest s age Hinv Hh Hage Hops) as (Hfresh & Ho & Hinv1 & Hh1 & Ha3 & Hrest).
    rewrite run_ops_cons. destruct (step o s) as [r s1] eqn:Es. cbn [snd] in *.
    destruct (inv_at_after fsz vid o s r s1 vi v bl rch T Hat Hfresh Ho Es) as (vi' & v' & bl' & rch' & T' & Hat' & G).
    pose proof (Hnever [] o rest eq_refl vi v bl rch T Hat) as Hnt. cbn [run_ops snd] in Hnt.
    pose proof (head_after fsz vid o s r s1 vi v bl rch T vi' v' bl' rch' T' h Hat Hfresh Ho Es Hat' Hhead Hnt) as Hhead'.
    refine (IH s1 (age + 1) vi' v' bl' rch' T' Hat' Hh1 Ha3 Hrest Hhead' _ ops1' o' ops2 E).
    intros p1 o2 p2 E2. pose proof (Hnever (o :: p1) o2 p2 ltac:(rewrite E2; reflexivity)) as H.
    rewrite run_ops_cons, Es in H. exact H.
Qed.

Print Assumptions all_steps_frame.
Print Assumptions fat_frame_all.
Print Assumptions data_frame_all.
Print Assumptions C04_fat_history.
Print Assumptions C04_data_history.
Print Assumptions C04_chain_history.
Print Assumptions C04_untargeted_chain.
