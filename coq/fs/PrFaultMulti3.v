(* PROOFS for C11 with an ARBITRARY fault schedule, part 3: a call that never writes STOPS AT ITS FIRST
   FAILED DEVICE CALL, so "exactly one armed index fires inside the call" (the second clause of
   PrFaultMulti2.fault_guard1) is automatic and the history theorem holds for ANY schedule whose faults fire
   inside calls of the never-writing class.
     hlG T m   under one pending fault n: if the run of m reaches device call n, it ends right after it
               (s_ncalls s' = n + 1) with a result in the "taint" T (Err DeviceError for ordinary functions;
               the caught value at the `try` sites, which all turn it into Err DeviceError at once)
     family over the read path of the model (cache_read, next_cluster, the directory walks and listings,
     find_data_on_disk, read_loop, the handle look-ups), halts_xstep
     one_fault_per_call, C11m_history_any, C11m_retry_any *)
From Coq Require Import NArith ZArith List Bool Lia Arith FMapPositive.
From SdFs Require Import FsTypes FsBase FsFat FsMgr FsExt FsLemmas PrBase PrAlloc PrDir PrAllocEffect PrChain PrCount PrWf PrFault PrGlobalDef.
From SdFs Require PrHandles PrCrash PrGlobal PrModes.
From SdFs Require Import PrFault2 PrCrashDef PrCrashDef2 PrCrashDef4 PrFaultDef PrFaultDef2 PrFaultDef3.
From SdFs Require Import PrExt PrExt2 PrExt3 PrExt5.
From SdFs Require Import PrFaultMulti PrFaultMulti2.
Import ListNotations.
Open Scope N_scope.

(* ================================================================== 1. no device call at all *)
Definition cnt (s : st) : N * list N := (s_ncalls s, s_faults s).
Definition sil {A} (m : M A) : Prop := PrHandles.fixes cnt m.
Lemma sil_inv {A} (m : M A) s r s' : sil m -> m s = (r, s') -> s_ncalls s' = s_ncalls s /\ s_faults s' = s_faults s.
Proof. intros H E. pose proof (H s r s' E) as X. unfold cnt in X. injection X as X1 X2. split; assumption. Qed.

Create HintDb sil.
Ltac sl_step :=
  lazymatch goal with
  | |- sil ?m => change (PrHandles.fixes cnt m)
  | |- PrHandles.fixes _ (bind _ _) => apply PrHandles.fixes_bind; [|intros ?]
  | |- PrHandles.fixes _ (try _) => apply PrHandles.fixes_try
  | |- PrHandles.fixes _ (locked _) => unfold locked
  | |- PrHandles.fixes _ (modify _) => apply PrHandles.fixes_modify; intros ?; reflexivity
  | |- PrHandles.fixes _ (ret _) => apply PrHandles.fixes_pure; intros ?; reflexivity
  | |- PrHandles.fixes _ (fail _) => apply PrHandles.fixes_pure; intros ?; reflexivity
  | |- PrHandles.fixes _ panic => apply PrHandles.fixes_pure; intros ?; reflexivity
  | |- PrHandles.fixes _ out_of_fuel => apply PrHandles.fixes_pure; intros ?; reflexivity
  | |- PrHandles.fixes _ get => apply PrHandles.fixes_pure; intros ?; reflexivity
  | |- PrHandles.fixes _ (if ?b then _ else _) => destruct b
  | |- PrHandles.fixes _ (match ?x with _ => _ end) => destruct x
  | |- PrHandles.fixes _ (let _ := _ in _) => cbv zeta
  | |- PrHandles.fixes _ ?m => solve [change (sil m); auto 3 with sil]
  end.
Ltac sl_go := repeat sl_step.

Lemma sil_add32 a b : sil (add32 a b). Proof. unfold add32. sl_go. Qed.
Lemma sil_sub32 a b : sil (sub32 a b). Proof. unfold sub32. sl_go. Qed.
Lemma sil_mul32 a b : sil (mul32 a b). Proof. unfold mul32. sl_go. Qed.
#[export] Hint Resolve sil_add32 sil_sub32 sil_mul32 : sil.
Lemma sil_get_vol vi : sil (get_vol vi). Proof. unfold get_vol. sl_go. Qed.
Lemma sil_get_dir i : sil (get_dir i). Proof. unfold get_dir. sl_go. Qed.
Lemma sil_get_file i : sil (get_file i). Proof. unfold get_file. sl_go. Qed.
Lemma sil_put_file i f : sil (put_file i f). Proof. unfold put_file. sl_go. Qed.
Lemma sil_get_dir_by_id h : sil (get_dir_by_id h). Proof. unfold get_dir_by_id. sl_go. Qed.
Lemma sil_get_file_by_id h : sil (get_file_by_id h). Proof. unfold get_file_by_id. sl_go. Qed.
Lemma sil_get_volume_by_id h : sil (get_volume_by_id h). Proof. unfold get_volume_by_id. sl_go. Qed.
Lemma sil_generate : sil generate. Proof. unfold generate. sl_go. Qed.
Lemma sil_push_dir d : sil (push_dir d). Proof. unfold push_dir. sl_go. Qed.
Lemma sil_f_left f : sil (f_left f). Proof. unfold f_left. sl_go. Qed.
#[export] Hint Resolve sil_get_vol sil_get_dir sil_get_file sil_put_file sil_get_dir_by_id sil_get_file_by_id
  sil_get_volume_by_id sil_generate sil_push_dir sil_f_left : sil.
Lemma sil_fat_block v a b : sil (fat_block v a b). Proof. unfold fat_block. sl_go. Qed.
Lemma sil_cluster_to_block v c : sil (cluster_to_block v c). Proof. unfold cluster_to_block. sl_go. Qed.
#[export] Hint Resolve sil_fat_block sil_cluster_to_block : sil.
Lemma sil_close_dir d : sil (close_dir d). Proof. unfold close_dir. sl_go. Qed.
Lemma sil_open_root_dir v : sil (open_root_dir v). Proof. unfold open_root_dir. sl_go. Qed.
Lemma sil_has_open_handles : sil has_open_handles. Proof. unfold has_open_handles. sl_go. Qed.
Lemma sil_file_eof f : sil (file_eof f). Proof. unfold file_eof, with_file. sl_go. Qed.
Lemma sil_file_length f : sil (file_length f). Proof. unfold file_length, with_file. sl_go. Qed.
Lemma sil_file_offset f : sil (file_offset f). Proof. unfold file_offset, with_file. sl_go. Qed.
Lemma sil_seek_start f x : sil (file_seek_from_start f x). Proof. unfold file_seek_from_start, with_file. sl_go. Qed.
Lemma sil_seek_end f x : sil (file_seek_from_end f x). Proof. unfold file_seek_from_end, with_file. sl_go. Qed.
Lemma sil_seek_cur f x : sil (file_seek_from_current f x). Proof. unfold file_seek_from_current, with_file. sl_go. Qed.
#[export] Hint Resolve sil_close_dir sil_open_root_dir sil_has_open_handles sil_file_eof sil_file_length sil_file_offset
  sil_seek_start sil_seek_end sil_seek_cur : sil.
Lemma sil_io_seek f w x : sil (io_seek f w x). Proof. unfold io_seek. sl_go. Qed.
Lemma sil_lift {A} (f : A -> res) (m : M A) : sil m -> sil (lift f m). Proof. intros H. unfold lift. sl_go. Qed.
Lemma sil_xlift {A} (f : A -> xres) (m : M A) : sil m -> sil (xlift f m). Proof. intros H. unfold xlift. sl_go. Qed.
Lemma sil_expect {A} (m : M A) : sil m -> sil (expect m). Proof. intros H. unfold expect. sl_go. Qed.

(* ================================================================== 2. stopping at the first failed device call *)
Definition Td {A} (r : outcome A) : Prop := r = Err DeviceError.
Definition hlG {A} (T : outcome A -> Prop) (m : M A) : Prop :=
  forall n s r s', pending n s -> m s = (r, s') -> n < s_ncalls s' -> s_ncalls s' = n + 1 /\ T r.
Definition silT {A} (T : outcome A -> Prop) (m : M A) : Prop :=
  forall s r s', m s = (r, s') -> s_ncalls s' = s_ncalls s /\ T r.

Lemma hl_sil {A} (T : outcome A -> Prop) (m : M A) : sil m -> hlG T m.
Proof. intros H n s r s' (_ & C) E Hn. rewrite (proj1 (sil_inv m s r s' H E)) in Hn. lia. Qed.

Lemma hl_weaken {A} (T T' : outcome A -> Prop) (m : M A) : (forall r, T r -> T' r) -> hlG T m -> hlG T' m.
Proof. intros HT H n s r s' Hp E Hn. destruct (H n s r s' Hp E Hn) as (A1 & A2). split; [exact A1|exact (HT r A2)]. Qed.

(* the general composition: after a reached m the continuation must be silent and tainted *)
Lemma hl_bind {A B} (T1 : outcome A -> Prop) (T2 : outcome B -> Prop) (m : M A) (k : A -> M B) :
  book m -> hlG T1 m -> (forall a, hlG T2 (k a)) ->
  (forall a, T1 (Ok a) -> silT T2 (k a)) ->
  (forall e, T1 (Err e) -> T2 (Err e)) -> (T1 Panic -> T2 Panic) -> (T1 OutOfFuel -> T2 OutOfFuel) ->
  hlG T2 (bind m k).
Proof.
  intros Bm Hm Hk Hs He Hp Ho n s r s' Hpend E Hn. unfold bind in E. destruct (m s) as [r1 s1] eqn:E1.
  destruct (book_mono m s r1 s1 Bm E1) as (C1 & F1). destruct Hpend as (F & C).
  destruct (N.ltb_spec n (s_ncalls s1)) as [Hr|Hnr].
  - destruct (Hm n s r1 s1 (conj F C) E1 Hr) as (A1 & A2). destruct r1 as [a|e| |].
    + destruct (Hs a A2 s1 r s' E) as (B1 & B2). split; [lia|exact B2].
    + injection E as <- <-. split; [exact A1|exact (He e A2)].
    + injection E as <- <-. split; [exact A1|exact (Hp A2)].
    + injection E as <- <-. split; [exact A1|exact (Ho A2)].
  - destruct r1 as [a|e| |]; try (injection E as <- <-; lia).
    apply (Hk a n s1 r s'); [split; [congruence|exact Hnr]|exact E|exact Hn].
Qed.

(* the ordinary case: a failure is reported as Err DeviceError *)
Lemma hl_bind_d {A B} (m : M A) (k : A -> M B) : book m -> hlG Td m -> (forall a, hlG Td (k a)) -> hlG Td (bind m k).
Proof.
  intros Bm Hm Hk. apply (hl_bind Td Td m k Bm Hm Hk); unfold Td; try discriminate.
  intros e H. injection H as ->. reflexivity.
Qed.
Lemma hl_bind_sil {A B} (T : outcome B -> Prop) (m : M A) (k : A -> M B) : sil m -> (forall a, hlG T (k a)) -> hlG T (bind m k).
Proof.
  intros Hm Hk n s r s' (F & C) E Hn. unfold bind in E. destruct (m s) as [r1 s1] eqn:E1.
  destruct (sil_inv m s r1 s1 Hm E1) as (C1 & F1).
  destruct r1 as [a|e| |]; try (injection E as <- <-; lia).
  apply (Hk a n s1 r s'); [split; [congruence|lia]|exact E|exact Hn].
Qed.

Lemma hl_bind_get {B} (T : outcome B -> Prop) (k : st -> M B) : (forall s0, hlG T (k s0)) -> hlG T (bind get k).
Proof. intros Hk n s r s' Hp E Hn. rewrite PrHandles.bind_get in E. exact (Hk s n s r s' Hp E Hn). Qed.

(* a caught failure is the value inr DeviceError *)
Definition Tc {A} (r : outcome (A + err)) : Prop := r = Ok (inr DeviceError).
Lemma hl_try {A} (m : M A) : hlG Td m -> hlG Tc (try m).
Proof.
  intros H n s r s' Hp E Hn. unfold try in E. destruct (m s) as [r1 s1] eqn:E1.
  assert (Es : s' = s1) by (destruct r1; injection E as _ <-; reflexivity). subst s'.
  destruct (H n s r1 s1 Hp E1 Hn) as (A1 & A2). split; [exact A1|]. unfold Td in A2. subst r1.
  injection E as <-. reflexivity.
Qed.

(* catch sites: the handler of inr DeviceError fails with DeviceError (or returns a tainted value) at once *)
Lemma hl_bind_try {A B} (T : outcome B -> Prop) (m : M A) (k : A + err -> M B) :
  lockstep m -> hlG Td m -> (forall x, hlG T (k x)) -> silT T (k (inr DeviceError)) -> hlG T (bind (try m) k).
Proof.
  intros Lm Hm Hk Hs. apply (hl_bind Tc T (try m) k).
  - exact (ls_book _ (ls_try _ Lm)).
  - exact (hl_try m Hm).
  - exact Hk.
  - intros a Ha. unfold Tc in Ha. injection Ha as ->. exact Hs.
  - intros e H. discriminate H.
  - intros H. discriminate H.
  - intros H. discriminate H.
Qed.

Create HintDb hl.
Ltac hl_step :=
  cbn beta iota;
  lazymatch goal with
  | |- hlG _ (bind get _) => apply hl_bind_get; intros ?
  | |- hlG Td (bind _ _) =>
      first [ apply hl_bind_sil; [solve [sl_go]|intros ?]
            | apply hl_bind_d; [solve [apply ls_book; ls_go]|solve [auto 3 with hl]|intros ?] ]
  | |- hlG _ (if ?c then _ else _) => destruct c
  | |- hlG _ (match ?x with _ => _ end) => destruct x
  | |- hlG _ (let _ := _ in _) => cbv zeta
  | |- hlG _ _ => first [ solve [auto 3 with hl] | solve [apply hl_sil; sl_go] ]
  end.
Ltac hl_go := repeat hl_step.

Lemma hl_cache_read i : hlG Td (cache_read i).
Proof.
  intros n s r s' (F & C) E Hn. unfold cache_read in E. rewrite PrHandles.bind_get in E.
  destruct (opt_eqb (s_tag s) i). { injection E as <- <-. lia. }
  unfold bind, modify, try, dev_read, fail, ret in E. cbv zeta in E.
  rewrite (faulty_single n (set_s_tag s None) F) in E. cbn [s_ncalls set_s_tag] in E.
  destruct (N.eqb_spec (s_ncalls s) n) as [En|En]; injection E as <- <-; cbn in *.
  - split; [lia|reflexivity].
  - lia.
Qed.
#[export] Hint Resolve hl_cache_read : hl.
Lemma hl_next_cluster v c : hlG Td (next_cluster v c).
Proof. unfold next_cluster. hl_go. Qed.
#[export] Hint Resolve hl_next_cluster : hl.

Lemma hl_for_blocks_from {R} (body : N -> M (option R)) : (forall i, lockstep (body i)) -> (forall i, hlG Td (body i)) ->
  forall n i, hlG Td (for_blocks_from n i body).
Proof.
  intros Lb Hb. induction n as [|n IH]; intros i; cbn [for_blocks_from]; [apply hl_sil; sl_go|].
  apply hl_bind_d; [exact (ls_book _ (Lb i))|apply Hb|]. intros [x|]; [apply hl_sil; sl_go|apply IH].
Qed.
Lemma hl_for_blocks {R} (body : N -> M (option R)) first size : (forall i, lockstep (body i)) -> (forall i, hlG Td (body i)) ->
  hlG Td (for_blocks first size body).
Proof. intros Lb Hb. unfold for_blocks. apply hl_bind_sil; [sl_go|]. intros _. apply hl_for_blocks_from; assumption. Qed.

(* a directory walk that does not grow the directory *)
Lemma hl_walk_dir {R} (body : N -> M (option R)) : (forall i, lockstep (body i)) -> (forall i, hlG Td (body i)) ->
  forall fuel vi cluster, hlG Td (walk_dir fuel vi cluster false body).
Proof.
  intros Lb Hb. induction fuel as [|f IH]; intros vi cluster; cbn [walk_dir]; [apply hl_sil; sl_go|].
  apply hl_bind_sil; [sl_go|]. intros v. apply hl_bind_sil; [sl_go|]. intros first. cbv zeta.
  apply hl_bind_d; [apply ls_book, ls_for_blocks; exact Lb|apply hl_for_blocks; assumption|].
  intros [x|]; [apply hl_sil; sl_go|].
  destruct (negb (v_fat32 v) && (cluster =? CL_ROOT)); [apply hl_sil; sl_go|].
  apply hl_bind_try; [apply ls_next_cluster|apply hl_next_cluster| |].
  - intros [n|e]; [apply IH|]. destruct e; apply hl_sil; sl_go.
  - intros s r s' E. injection E as <- <-. split; reflexivity.
Qed.
Lemma hl_find_directory_entry vi c name : hlG Td (find_directory_entry vi c name).
Proof.
  unfold find_directory_entry. apply hl_bind_sil; [sl_go|]. intros v.
  apply hl_bind_d; [apply ls_book, ls_walk_dir; intros blk; ls_go| |intros [e|]; apply hl_sil; sl_go].
  apply hl_walk_dir; intros blk; [ls_go|hl_go].
Qed.
#[export] Hint Resolve hl_find_directory_entry : hl.

Lemma hl_iter_blocks fat32 : forall n i acc, hlG Td (iter_blocks n fat32 i acc).
Proof. induction n as [|n IH]; intros i acc; cbn [iter_blocks]; hl_go. Qed.
#[export] Hint Resolve hl_iter_blocks : hl.
Lemma hl_iter_walk vi : forall fuel c acc, hlG Td (iter_walk fuel vi c acc).
Proof.
  induction fuel as [|f IH]; intros c acc; cbn [iter_walk]; [apply hl_sil; sl_go|].
  apply hl_bind_sil; [sl_go|]. intros v. apply hl_bind_sil; [sl_go|]. intros first. cbv zeta.
  apply hl_bind_sil; [sl_go|]. intros _.
  apply hl_bind_d; [apply ls_book; auto with ls|auto with hl|]. intros [stop acc'].
  destruct stop; [apply hl_sil; sl_go|].
  destruct (negb (v_fat32 v) && (c =? CL_ROOT)); [apply hl_sil; sl_go|].
  apply hl_bind_try; [apply ls_next_cluster|apply hl_next_cluster| |].
  - intros [n|e]; [apply IH|]. destruct e; apply hl_sil; sl_go.
  - intros s r s' E. injection E as <- <-. split; reflexivity.
Qed.
Lemma hl_iterate_dir_all vi c : hlG Td (iterate_dir_all vi c).
Proof.
  unfold iterate_dir_all. apply hl_bind_sil; [sl_go|]. intros v.
  apply hl_bind_d; [apply ls_book, ls_iter_walk|apply hl_iter_walk|]. intros r. apply hl_sil; sl_go.
Qed.
#[export] Hint Resolve hl_iterate_dir_all : hl.

Lemma hl_iter_blocks_raw fat32 : forall n i acc, hlG Td (iter_blocks_raw n fat32 i acc).
Proof. induction n as [|n IH]; intros i acc; cbn [iter_blocks_raw]; hl_go. Qed.
#[export] Hint Resolve hl_iter_blocks_raw : hl.
Lemma hl_iter_walk_raw vi : forall fuel c acc, hlG Td (iter_walk_raw fuel vi c acc).
Proof.
  induction fuel as [|f IH]; intros c acc; cbn [iter_walk_raw]; [apply hl_sil; sl_go|].
  apply hl_bind_sil; [sl_go|]. intros v. apply hl_bind_sil; [sl_go|]. intros first. cbv zeta.
  apply hl_bind_sil; [sl_go|]. intros _.
  apply hl_bind_d; [apply ls_book, ls_iter_blocks_raw|auto with hl|]. intros [stop acc'].
  destruct stop; [apply hl_sil; sl_go|].
  destruct (negb (v_fat32 v) && (c =? CL_ROOT)); [apply hl_sil; sl_go|].
  apply hl_bind_try; [apply ls_next_cluster|apply hl_next_cluster| |].
  - intros [n|e]; [apply IH|]. destruct e; apply hl_sil; sl_go.
  - intros s r s' E. injection E as <- <-. split; reflexivity.
Qed.
Lemma hl_iterate_dir_raw vi c : hlG Td (iterate_dir_raw vi c).
Proof.
  unfold iterate_dir_raw. apply hl_bind_sil; [sl_go|]. intros v.
  apply hl_bind_d; [apply ls_book, ls_iter_walk_raw|apply hl_iter_walk_raw|]. intros r. apply hl_sil; sl_go.
Qed.
#[export] Hint Resolve hl_iterate_dir_raw : hl.

(* ---- the read path: the caught failure travels as a value through fdod_walk and find_data_on_disk ---- *)
Definition Tw (r : outcome ((N * N) * option err)) : Prop := exists x, r = Ok (x, Some DeviceError).
Lemma hl_fdod_walk v : forall n so sc, hlG Tw (fdod_walk n v so sc).
Proof.
  induction n as [|n IH]; intros so sc; cbn [fdod_walk]; [apply hl_sil; sl_go|].
  apply hl_bind_try; [apply ls_next_cluster|apply hl_next_cluster| |].
  - intros [c|e]; [|apply hl_sil; sl_go]. apply hl_bind_sil; [sl_go|]. intros so'. apply IH.
  - intros s r s' E. injection E as <- <-. split; [reflexivity|]. eexists. reflexivity.
Qed.

Definition Tf (r : outcome ((N * N) * ((N * N * N) + err))) : Prop := exists x, r = Ok (x, inr DeviceError).
Lemma sil_fdod_tail (st' : N * N) v desired : sil (
  let '(so', sc') := st' in
  ofc <- sub32 desired so' ;;
  if negb (ofc <? bytes_per_cluster v) then panic else
  cb <- cluster_to_block v sc' ;;
  blk <- add32 cb (ofc / 512) ;;
  ret (st', @inl (N * N * N) err (blk, desired mod 512, 512 - desired mod 512))).
Proof. destruct st' as [so' sc']. sl_go. Qed.

Lemma hl_find_data_on_disk vi start fs desired : hlG Tf (find_data_on_disk vi start fs desired).
Proof.
  unfold find_data_on_disk. apply hl_bind_sil; [sl_go|]. intros v. cbv zeta.
  destruct (if desired <? fst start then (0, fs) else start) as [so sc].
  destruct (bytes_per_cluster v =? 0); [apply hl_sil; sl_go|].
  apply (hl_bind Tw Tf).
  - apply ls_book, ls_fdod_walk.
  - apply hl_fdod_walk.
  - intros [st' oe]. destruct oe as [e|]; [apply hl_sil; sl_go|]. apply hl_sil. apply sil_fdod_tail.
  - intros [st' oe] (x & Hx). injection Hx as -> ->. intros s r s' E. injection E as <- <-. split; [reflexivity|]. eexists. reflexivity.
  - intros e (x & Hx). discriminate Hx.
  - intros (x & Hx). discriminate Hx.
  - intros (x & Hx). discriminate Hx.
Qed.

Lemma hl_read_loop fi vi : forall fuel space acc, hlG Td (read_loop fuel fi vi space acc).
Proof.
  induction fuel as [|fu IH]; intros space acc; cbn [read_loop]; [apply hl_sil; sl_go|].
  apply hl_bind_sil; [sl_go|]. intros f.
  destruct ((0 <? space) && negb (f_eof f)); [|apply hl_sil; sl_go].
  apply (hl_bind Tf Td).
  - apply ls_book, ls_find_data_on_disk.
  - apply hl_find_data_on_disk.
  - intros [cur [[[blk boff] bavail]|e]]; [|apply hl_sil; sl_go].
    apply hl_bind_sil; [sl_go|]. intros _.
    apply hl_bind_d; [apply ls_book, ls_cache_read|apply hl_cache_read|]. intros b.
    apply hl_bind_sil; [sl_go|]. intros left. cbv zeta.
    destruct (N.min (N.min bavail space) left =? 0); [apply hl_sil; sl_go|].
    apply hl_bind_sil; [sl_go|]. intros f1. apply hl_bind_sil; [sl_go|]. intros _. apply IH.
  - intros [cur x] (y & Hy). injection Hy as -> ->. intros s r s' E. injection E as <- <-. split; reflexivity.
  - intros e (x & Hx). discriminate Hx.
  - intros (x & Hx). discriminate Hx.
  - intros (x & Hx). discriminate Hx.
Qed.
#[export] Hint Resolve hl_read_loop : hl.

(* ---- the manager calls of the never-writing class ---- *)
Lemma hl_locked {A} (T : outcome A -> Prop) (m : M A) : hlG T m -> hlG T (locked m).
Proof. intros H. unfold locked. apply hl_bind_get. intros s0. destruct (s_lock s0); [apply hl_sil; sl_go|exact H]. Qed.

Lemma hl_mgr_read f n : hlG Td (mgr_read f n).
Proof. unfold mgr_read. apply hl_locked. hl_go. Qed.
Lemma hl_io_read f n : hlG Td (io_read f n).
Proof. unfold io_read. destruct (n =? 0); [apply hl_sil; sl_go|apply hl_mgr_read]. Qed.
Lemma hl_mgr_find d name : hlG Td (mgr_find d name).
Proof. unfold mgr_find. apply hl_locked. hl_go. Qed.
Lemma hl_open_dir d name : hlG Td (open_dir d name).
Proof. unfold open_dir. apply hl_locked. hl_go. Qed.
Lemma hl_mgr_iterate {R} d (inner : M R) : sil inner -> hlG Td (mgr_iterate d inner).
Proof.
  intros Hi. unfold mgr_iterate. apply hl_locked.
  apply hl_bind_sil; [sl_go|]. intros di. apply hl_bind_sil; [sl_go|]. intros dd. apply hl_bind_sil; [sl_go|]. intros vi.
  apply hl_bind_d; [apply ls_book, ls_iterate_dir_all|apply hl_iterate_dir_all|]. intros all. cbv zeta.
  apply hl_sil. destruct (filter _ all); sl_go.
Qed.
Lemma hl_mgr_iterate_lfn d n : hlG Td (mgr_iterate_lfn d n).
Proof.
  unfold mgr_iterate_lfn. apply hl_locked.
  apply hl_bind_sil; [sl_go|]. intros di. apply hl_bind_sil; [sl_go|]. intros dd. apply hl_bind_sil; [sl_go|]. intros vi.
  apply hl_bind_d; [apply ls_book, ls_iterate_dir_raw|apply hl_iterate_dir_raw|]. intros raw.
  apply hl_sil. destruct (lfn_fold raw _ _); sl_go.
Qed.

Lemma hl_label v : hlG (fun _ => True) (get_root_volume_label v).
Proof.
  unfold get_root_volume_label. apply hl_locked.
  apply hl_bind_sil; [sl_go|]. intros vi. apply hl_bind_sil; [sl_go|]. intros w.
  destruct (trim_rev (rev (v_name w))); [|apply hl_sil; sl_go].
  apply hl_bind_sil; [sl_go|]. intros rd.
  apply hl_bind_try; [apply ls_mgr_iterate, ls_ret|apply hl_mgr_iterate; sl_go| |].
  - intros x. apply hl_sil. sl_go.
  - intros s r s' E. unfold bind, try in E. destruct (close_dir rd s) as [o1 s1] eqn:Ec.
    pose proof (proj1 (sil_inv _ _ _ _ (sil_close_dir rd) Ec)) as C1.
    destruct o1; injection E as <- <-; (split; [exact C1|exact I]).
Qed.

Lemma hl_change_dir d name : hlG (fun _ => True) (change_dir d name).
Proof.
  unfold change_dir. apply (hl_bind Td (fun _ => True)).
  - apply ls_book, ls_open_dir.
  - apply hl_open_dir.
  - intros d'. apply hl_sil. sl_go.
  - intros a H. discriminate H.
  - intros; exact I.
  - intros; exact I.
  - intros; exact I.
Qed.

Lemma hl_any {A} (T : outcome A -> Prop) (m : M A) : hlG T m -> hlG (fun _ => True) m.
Proof. apply hl_weaken. intros; exact I. Qed.
Lemma hl_xlift {A} (f : A -> xres) (m : M A) : lockstep m -> hlG (fun _ => True) m -> hlG (fun _ => True) (xlift f m).
Proof.
  intros L H. unfold xlift. apply (hl_bind (fun _ => True) (fun _ => True)); try (intros; exact I).
  - exact (ls_book _ L).
  - exact H.
  - intros a. apply hl_sil. sl_go.
  - intros a _ s r s' E. injection E as <- <-. split; [reflexivity|exact I].
Qed.
Lemma hl_lift {A} (f : A -> res) (m : M A) : lockstep m -> hlG (fun _ => True) m -> hlG (fun _ => True) (lift f m).
Proof.
  intros L H. unfold lift. apply (hl_bind (fun _ => True) (fun _ => True)); try (intros; exact I).
  - exact (ls_book _ L).
  - exact H.
  - intros a. apply hl_sil. sl_go.
  - intros a _ s r s' E. injection E as <- <-. split; [reflexivity|exact I].
Qed.

(* every base call of the never-writing class stops at its first failed device call *)
Theorem halts_step o : retry_op o = true \/ read_op o = true -> hlG (fun _ => True) (step o).
Proof.
  intros Hc.
  destruct o as [idx|v|v|d name|d|d name|d inner|d name m|f|f|f n|f data|f x|f x|f x|f|f|f|d name|d name|v| |f w x|f n|f data|id];
    cbn [retry_op read_op] in Hc; try (destruct Hc as [Hc|Hc]; discriminate Hc); cbn [step].
  - apply hl_sil, sil_lift, sil_open_root_dir.
  - apply hl_lift; [apply ls_open_dir|apply (hl_any _ _ (hl_open_dir d name))].
  - apply hl_sil, sil_lift, sil_close_dir.
  - apply hl_lift; [apply ls_mgr_find|apply (hl_any _ _ (hl_mgr_find d name))].
  - destruct inner as [o'|]; [destruct Hc as [Hc|Hc]; discriminate Hc|].
    apply (hl_bind (fun _ => True) (fun _ => True)); try (intros; exact I).
    + apply ls_book, ls_mgr_iterate, ls_ret.
    + apply (hl_any _ _ (hl_mgr_iterate d (ret RUnit) ltac:(sl_go))).
    + intros a. apply hl_sil. sl_go.
    + intros a _ s r s' E. injection E as <- <-. split; [reflexivity|exact I].
  - apply hl_lift; [apply ls_mgr_read|apply (hl_any _ _ (hl_mgr_read f n))].
  - apply hl_sil, sil_lift, sil_seek_start.
  - apply hl_sil, sil_lift, sil_seek_cur.
  - apply hl_sil, sil_lift, sil_seek_end.
  - apply hl_sil, sil_lift, sil_file_length.
  - apply hl_sil, sil_lift, sil_file_offset.
  - apply hl_sil, sil_lift, sil_file_eof.
  - apply hl_lift; [apply ls_get_root_volume_label|apply hl_label].
  - apply hl_sil, sil_lift, sil_has_open_handles.
  - apply hl_sil, sil_lift, sil_io_seek.
  - apply hl_lift; [apply ls_io_read|apply (hl_any _ _ (hl_io_read f n))].
Qed.

Theorem halts_xstep o : never_writes o -> hlG (fun _ => True) (xstep o).
Proof.
  intros Hc. unfold never_writes in Hc.
  destruct o as [o|d n|f|d|v|d name|f|f|f]; cbn [xbase] in Hc; cbn [xstep].
  - apply hl_xlift; [apply lockstep_step|exact (halts_step o Hc)].
  - apply hl_xlift; [apply ls_mgr_iterate_lfn|apply (hl_any _ _ (hl_mgr_iterate_lfn d n))].
  - destruct Hc as [Hc|Hc]; discriminate Hc.
  - apply hl_sil, sil_xlift. unfold drop_dir. pose proof (sil_close_dir d). sl_go.
  - destruct Hc as [Hc|Hc]; discriminate Hc.
  - apply hl_xlift; [|apply hl_change_dir]. unfold change_dir. pose proof (ls_open_dir d name). pose proof (ls_close_dir d). ls_go.
  - apply hl_sil, sil_xlift, sil_expect, sil_file_eof.
  - apply hl_sil, sil_xlift, sil_expect, sil_file_length.
  - apply hl_sil, sil_xlift, sil_expect, sil_file_offset.
Qed.

(* ================================================================== 3. exactly one armed index fires in a never-writing call *)
Lemma nle_dec (a b : N) : {a <= b} + {~ a <= b}.
Proof. destruct (a <=? b) eqn:E; [left; apply N.leb_le; exact E|right; apply N.leb_gt in E; lia]. Qed.
Lemma nrange_dec (a b x : N) : {a <= x < b} + {~ a <= x < b}.
Proof. destruct (nle_dec a x); [|right; lia]. destruct (nle_dec b x); [right; lia|left; lia]. Qed.

Lemma first_armed (F : list N) c0 : (exists i, In i F /\ c0 <= i) ->
  exists n, In n F /\ c0 <= n /\ forall i, In i F -> c0 <= i -> n <= i.
Proof.
  induction F as [|a F IH]; intros (i & Hi & Hc); [destruct Hi|].
  destruct (Exists_dec (fun x => c0 <= x) F (fun x => nle_dec c0 x)) as [Hex|Hnex].
  - apply Exists_exists in Hex. destruct (IH Hex) as (n & Hn & Hcn & Hmin).
    destruct (nle_dec c0 a) as [Ha|Ha].
    + destruct (N.le_gt_cases a n) as [Hle|Hgt].
      * exists a. split; [left; reflexivity|]. split; [exact Ha|]. intros j [<-|Hj] Hcj; [lia|]. specialize (Hmin j Hj Hcj). lia.
      * exists n. split; [right; exact Hn|]. split; [exact Hcn|]. intros j [<-|Hj] Hcj; [lia|exact (Hmin j Hj Hcj)].
    + exists n. split; [right; exact Hn|]. split; [exact Hcn|]. intros j [<-|Hj] Hcj; [lia|exact (Hmin j Hj Hcj)].
  - destruct Hi as [<-|Hi]; [|exfalso; apply Hnex; apply Exists_exists; exists i; split; assumption].
    exists a. split; [left; reflexivity|]. split; [exact Hc|]. intros j [<-|Hj] Hcj; [lia|].
    exfalso. apply Hnex. apply Exists_exists. exists j. split; assumption.
Qed.

Theorem one_fault_per_call o s r s' : never_writes o -> xstep o s = (r, s') -> (exists i, fired s s' i) ->
  exists n, fired s s' n /\ forall i, fired s s' i -> i = n.
Proof.
  intros Hc E (i0 & Hi0 & Hlo0 & Hhi0).
  destruct (first_armed (s_faults s) (s_ncalls s) (ex_intro _ i0 (conj Hi0 Hlo0))) as (n & Hn & Hcn & Hmin).
  set (t := set_s_faults (nf s) [n]).
  assert (Hp : pending n t) by (split; [reflexivity|exact Hcn]).
  destruct (xstep o t) as [rt t'] eqn:Et.
  destruct (book_mono (xstep o) t rt t' (proj1 (scd_xstep o)) Et) as (Cm & _).
  assert (Hrun : forall hi, s_ncalls t' <= hi -> hi <= n + 1 -> s_ncalls s' = s_ncalls t').
  { intros hi H1 H2.
    destruct (proj2 (scd_xstep o) t s rt t' eq_refl Et) as (s'' & Es & Ns & _).
    { intros i Hi. cbn [t s_faults set_s_faults nf s_ncalls] in *. split.
      - intros [<-|[]]. exact Hn.
      - intros Hin. left. specialize (Hmin i Hin ltac:(lia)). lia. }
    rewrite E in Es. injection Es as _ <-. exact (proj1 (proj2 (nf_fields _ _ Ns))). }
  destruct (N.ltb_spec n (s_ncalls t')) as [Hr|Hnr].
  - destruct (halts_xstep o Hc n t rt t' Hp Et Hr) as (Ht & _).
    assert (Ec' : s_ncalls s' = n + 1) by (rewrite <- Ht; apply (Hrun (n + 1)); lia).
    exists n. split; [split; [exact Hn|lia]|]. intros i (Hi & Hlo & Hhi). specialize (Hmin i Hi Hlo). lia.
  - exfalso. assert (Ec' : s_ncalls s' = s_ncalls t') by (apply (Hrun n); lia).
    specialize (Hmin i0 Hi0 Hlo0). lia.
Qed.

(* ================================================================== 4. the history theorem for ANY schedule *)
(* the guard: every call during which an armed index fires is of the never-writing class *)
Fixpoint faults_guard_any (ops : list xop) (s : st) : Prop :=
  match ops with
  | [] => True
  | o :: rest => let s' := snd (xstep o s) in
                 ((forall i, ~ fired s s' i) \/ never_writes o) /\ faults_guard_any rest s'
  end.

Lemma fired_dec s s' : (forall i, ~ fired s s' i) \/ exists i, fired s s' i.
Proof.
  destruct (Exists_dec (fun x => s_ncalls s <= x < s_ncalls s') (s_faults s) (fun x => nrange_dec _ _ x)) as [H|H].
  - right. apply Exists_exists in H. destruct H as (i & Hi & Hr). exists i. split; assumption.
  - left. intros i (Hi & Hr). apply H. apply Exists_exists. exists i. split; assumption.
Qed.

Lemma faults_guard_of_any : forall ops s, faults_guard_any ops s -> faults_guard ops s.
Proof.
  induction ops as [|o rest IH]; intros s H; [exact I|]. cbn [faults_guard_any faults_guard] in *.
  destruct H as (H0 & H1). split; [|exact (IH _ H1)]. unfold fault_guard1.
  destruct (xstep o s) as [r s'] eqn:E. cbn [snd] in *.
  destruct H0 as [Hno|Hc]; [left; exact Hno|].
  destruct (fired_dec s s') as [Hno|Hex]; [left; exact Hno|]. right. split; [exact Hc|].
  exact (one_fault_per_call o s r s' Hc E Hex).
Qed.

(* C11 for whole histories under ANY fault schedule - any number of armed device-call indices, several inside
   one call allowed - provided every fault that fires does so inside a call of the never-writing class *)
Theorem C11m_history_any fsz vid ops s age :
  fs_inv fsz vid (nf s) -> PrHandles.handles_ok age s ->
  age + N.of_nat (length ops) < U32 - 1 -> Forall xop_scope_ok ops -> xops_guard ops s -> faults_guard_any ops s ->
  mrun fsz vid ops s /\
  fs_inv fsz vid (nf (snd (xrun_ops ops s))) /\
  PrHandles.handles_ok (age + N.of_nat (length ops)) (snd (xrun_ops ops s)) /\
  Forall (fun r => r <> Panic /\ r <> OutOfFuel) (fst (xrun_ops ops s)) /\
  same_geo (nf s) (nf (snd (xrun_ops ops s))).
Proof.
  intros Hinv Hh Hage Hops Hg Hfg.
  exact (C11m_history fsz vid ops s age Hinv Hh Hage Hops Hg (faults_guard_of_any ops s Hfg)).
Qed.

(* the retry, for ANY schedule *)
Theorem C11m_retry_any fsz vid o s r s' r2 s2 age :
  fs_inv fsz vid (nf s) -> PrHandles.handles_ok age s -> age + 1 < U32 - 1 ->
  xop_scope_ok o -> xop_guard o s -> xop_guard o s' ->
  xstep o s = (r, s') -> never_writes o -> (exists i, fired s s' i) ->     (* the call failed on a fault *)
  xstep o s' = (r2, s2) -> (forall i, ~ fired s' s2 i) ->                 (* retried at once, no fault fires *)
  (match o with XDropFile _ | XDropDir _ | XDropVol _ => True | _ => exists e, r = Err e end) /\
  xstep o (nf s') = (r2, nf s2) /\ fs_inv fsz vid (nf s') /\ fs_inv fsz vid (nf s2) /\
  r2 <> Panic /\ r2 <> OutOfFuel /\
  s_disk s' = s_disk s /\ s_vols s' = s_vols s /\
  (retry_op (xbase o) = true -> s_dirs s' = s_dirs s /\ s_files s' = s_files s).
Proof.
  intros Hinv Hh Hage Ho Hg Hg' E Hnw Hex E2 Hno2.
  pose proof (one_fault_per_call o s r s' Hnw E Hex) as Hone.
  split; [|exact (C11m_retry fsz vid o s r s' r2 s2 age Hinv Hh Hage Ho Hg Hg' E Hnw Hone E2 Hno2)].
  assert (Ha1 : age < U32) by (unfold U32 in *; lia).
  assert (Hfg : fault_guard1 o s) by (unfold fault_guard1; rewrite E; right; split; assumption).
  destruct (C11m_step fsz vid o s r s' Hinv (handles_ok_fresh age s Ha1 Hh) Ho Hg Hfg E) as (_ & _ & _ & _ & _ & Hmc).
  destruct Hmc as [Hno _|n v Hn _ _ XF _ _ _ _].
  - exfalso. destruct Hex as (i & Hi). exact (Hno i Hi).
  - pose proof (xfo_res _ _ _ _ _ _ _ XF) as X. destruct o; try exact I; exact X.
Qed.

(* the listing retried: every live entry of the directory, in directory order *)
Theorem C11m_retry_iter s d di dd vi v bl out s' r2 s2 :
  PrModes.resolves s d di dd vi v -> vol_ok v -> cache_ok s ->
  dir_blocks (s_disk s) v (d_cluster dd) = Some bl ->
  step (Iter d None) s = (out, s') ->                      (* the first attempt, under whatever faults *)
  step (Iter d None) s' = (r2, s2) -> (forall i, ~ fired s' s2 i) ->     (* the retry: no fault fires in it *)
  r2 = Ok (RIter (filter (fun e => negb (is_lfn (e_attr e)))
                    (map (t_entry (v_fat32 v))
                         (filter t_is_valid (before_end_all (slots_of (s_disk s) bl))))) None) /\
  s_disk s2 = s_disk s.
Proof.
  intros Hres Hv Hc Hbl E E2 Hno.
  pose proof (clean_step_nf _ _ _ _ E2 Hno) as Ec.
  destruct (C11_ro_call_state (Iter d None) _ _ _ eq_refl E) as ((Hm & Hd & _) & Hc'). specialize (Hc' Hc).
  pose proof (resolves_nf _ _ _ _ _ _ (PrFault2.resolves_same_mgr _ _ _ _ _ _ _ Hm Hres)) as Hres'.
  pose proof (PrFault2.resolves_nth _ _ _ _ _ _ Hres') as Hnth.
  assert (Hbl' : dir_blocks (s_disk (nf s')) v (d_cluster dd) = Some bl) by (change (s_disk (nf s')) with (s_disk s'); rewrite Hd; exact Hbl).
  destruct (C06_iterate vi v (d_cluster dd) (nf s') bl Hnth Hv (nf_no_faults s') Hc' Hbl') as (sx & Hrun & Dx & _ & _ & Mx).
  destruct Hres' as (Hl & H1 & H2 & H3 & H4).
  assert (Hlist : PrHandles.iter_listing d (nf s') =
    (Ok (filter (fun e => negb (is_lfn (e_attr e)))
           (map (t_entry (v_fat32 v)) (filter t_is_valid (before_end_all (slots_of (s_disk (nf s')) bl))))), sx)).
  { unfold PrHandles.iter_listing.
    rewrite (bind_ok _ _ _ _ _ H1), (bind_ok _ _ _ _ _ H2), (bind_ok _ _ _ _ _ H3), (bind_ok _ _ _ _ _ Hrun). reflexivity. }
  change (s_disk (nf s')) with (s_disk s') in *. rewrite Hd in *.
  cbn [step] in Ec. unfold bind in Ec. rewrite (proj1 (PrHandles.C08_iterate_holds_lock _ d (ret RUnit) (nf s') Hl)), Hlist in Ec.
  unfold PrHandles.iterate_outcome, ret in Ec.
  destruct (filter (fun e => negb (is_lfn (e_attr e))) _) as [|e0 shown] eqn:Es in Ec.
  - injection Ec as Er Est. split; [rewrite <- Er, Es; reflexivity|]. try apply (f_equal s_disk) in Est.
    cbn [s_disk set_s_lock nf set_s_faults] in Est. rewrite <- Est. exact Dx.
  - injection Ec as Er Est. split; [rewrite <- Er, Es; reflexivity|]. try apply (f_equal s_disk) in Est.
    cbn [s_disk set_s_lock nf set_s_faults] in Est. rewrite <- Est. exact Dx.
Qed.

(* ================================================================== 5. a computed example *)
(* PrGlobalDef.gx_state (FAT16; root: A, D, B; D: C; B open through handle 7, dirty, a pending chain), with THREE
   armed device-call indices 0, 4, 8.  They fire inside a lookup, a long-name listing and a read; each of these
   calls returns Err DeviceError and is retried at once; in between the file is written, flushed and closed
   (successful writes).  Every retried call returns what the fault-free run returns, and the final medium is the
   medium of the fault-free run of the same calls. *)
Definition fx_ops : list xop :=
  [XOp (Find 5 [65]); XOp (Write 7 [1; 2; 3]); XOp (Find 5 [65]); XIterLfn 9 64; XOp (Flush 7); XIterLfn 9 64;
   XOp (SeekStart 7 0); XOp (Read 7 4); XOp (Read 7 4); XOp (CloseFile 7); XOp (Find 9 [67])].
Definition fx_state : st := set_s_faults gx_state [0; 4; 8].
Definition fx_cls (r : outcome xres) : N :=
  match r with Ok _ => 0 | Err DeviceError => 1 | Err _ => 2 | Panic => 3 | OutOfFuel => 4 end.

Lemma no_fired_b s s' :
  forallb (fun i => negb ((s_ncalls s <=? i) && (i <? s_ncalls s'))) (s_faults s) = true -> forall i, ~ fired s s' i.
Proof.
  intros H i (Hin & Hlo & Hhi). rewrite forallb_forall in H. specialize (H i Hin).
  apply negb_true_iff, andb_false_iff in H. destruct H as [H|H]; [apply N.leb_gt in H|apply N.ltb_ge in H]; lia.
Qed.

Example C11m_example_guard :
  fs_inv 1 0 (nf fx_state) /\ PrHandles.handles_ok 10 fx_state /\
  Forall xop_scope_ok fx_ops /\ xops_guard fx_ops fx_state /\ faults_guard_any fx_ops fx_state.
Proof.
  split; [exact (proj1 fs_inv_example)|]. split; [exact gx_handles_ok|]. split; [repeat constructor|].
  split; [cbn [fx_ops xops_guard xop_guard]; tauto|].
  cbn [fx_ops faults_guard_any].
  repeat (split; [first [ right; left; reflexivity | right; right; reflexivity
                        | left; apply no_fired_b; vm_compute; reflexivity ]|]).
  exact I.
Qed.

Example C11m_example :
  (* the outcomes: 1 = Err DeviceError (the three faulted calls), 0 = Ok *)
  map fx_cls (fst (xrun_ops fx_ops fx_state)) = [1; 0; 0; 1; 0; 0; 0; 1; 0; 0; 0] /\
  (* the retried lookup, listing and read answer what the fault-free run answers *)
  nth 2 (fst (xrun_ops fx_ops fx_state)) Panic = nth 0 (fst (xrun_ops fx_ops gx_state)) Panic /\
  nth 5 (fst (xrun_ops fx_ops fx_state)) Panic = nth 3 (fst (xrun_ops fx_ops gx_state)) Panic /\
  nth 8 (fst (xrun_ops fx_ops fx_state)) Panic = nth 7 (fst (xrun_ops fx_ops gx_state)) Panic /\
  nth 8 (fst (xrun_ops fx_ops fx_state)) Panic = Ok (XR (RBytes [1; 2; 3; 0])) /\
  (* the final medium is that of the fault-free run; every handle table is empty of files *)
  s_disk (snd (xrun_ops fx_ops fx_state)) = s_disk (snd (xrun_ops fx_ops gx_state)) /\
  s_files (snd (xrun_ops fx_ops fx_state)) = [] /\
  (* and the history theorem applies *)
  fs_inv 1 0 (nf (snd (xrun_ops fx_ops fx_state))) /\ mrun 1 0 fx_ops fx_state.
Proof.
  destruct C11m_example_guard as (Hinv & Hh & Hsc & Hg & Hfg).
  destruct (C11m_history_any 1 0 fx_ops fx_state 10 Hinv Hh ltac:(cbn; unfold U32; lia) Hsc Hg Hfg) as (Hm & Hinv' & _).
  split; [vm_compute; reflexivity|]. split; [vm_compute; reflexivity|]. split; [vm_compute; reflexivity|].
  split; [vm_compute; reflexivity|]. split; [vm_compute; reflexivity|]. split; [vm_compute; reflexivity|].
  split; [vm_compute; reflexivity|]. split; [exact Hinv'|exact Hm].
Qed.

Print Assumptions halts_xstep.
Print Assumptions one_fault_per_call.
Print Assumptions C11m_history_any.
Print Assumptions C11m_retry_any.
Print Assumptions C11m_retry_iter.
Print Assumptions C11m_example_guard.
Print Assumptions C11m_example.
