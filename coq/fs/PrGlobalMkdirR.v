(* PROOFS: the forward run of FsFat.make_dir on a fault-free state, EVERY outcome.
   1 the growing walk (what PrEntry.walk_dir_chain_stop leaves open: no block of the chain stops
     the walk and the walk may grow the directory);
   2 the common prefix of make_dir: allocation of the cluster c of the new directory, the block
     with the two dot entries, the zero loop;
   3 the continuations: the parent has a free slot / the parent grows / no room (cluster released);
   4 make_dir_run.
   Everything is for ALL inputs; no bounds. *)
From Coq Require Import NArith ZArith List Bool Lia Arith ZifyClasses ZifyInst Zify FMapPositive Permutation.
From SdFs Require Import FsTypes FsBase FsFat FsMgr FsLemmas PrBase PrFat PrAlloc PrDir PrSeek PrAllocEffect
  PrRw PrWrite PrEntry PrChain PrCount PrWf PrOpenClose.
From SdFs Require PrModes PrCrash PrBounds PrOrder.
Import ListNotations.
Open Scope N_scope.
Local Arguments N.mul : simpl never.
Local Arguments N.add : simpl never.
Local Arguments N.sub : simpl never.
Local Arguments N.div : simpl never.
Local Arguments N.modulo : simpl never.
Local Arguments N.land : simpl never.
Local Arguments N.lor : simpl never.
Local Ltac Zify.zify_post_hook ::= Z.to_euclidean_division_equations.

(* ================================================================== 0. the statement *)
(* what every outcome guarantees *)
Record mk_common (fsz : N) (vi : nat) (v : vol) (s s' : st) : Prop := mk_mk_common {
  mc_vol : exists v', s_vols s' = list_set (s_vols s) vi v' /\ geo_eq v v' /\ alloc_pre s' vi v' fsz;
  mc_tabs : s_dirs s' = s_dirs s /\ s_files s' = s_files s /\ s_next_id s' = s_next_id s /\
            s_lock s' = s_lock s /\ s_maxv s' = s_maxv s /\ s_maxd s' = s_maxd s /\
            s_maxf s' = s_maxf s /\ s_faults s' = s_faults s;
  mc_blocks : blocks_wf (s_disk s');
  mc_writes : exists ws, PrOrder.tsteps s s' ws /\ Forall (PrBounds.in_region v fsz) ws
}.

(* the cluster c of the new directory: it was free; afterwards its first block holds the two
   dot entries (time stamp `now`, ".." pointing at pcl) on a zeroed block, its other blocks are zero *)
Record mk_cluster (v : vol) (d d' : disk) (c : N) (now : ts) (pcl : N) : Prop := mk_mk_cluster {
  mk_range : 2 <= c /\ c < v_clusters v + 2 /\ fat_get d v 0 c = 0;
  mk_dots : disk_get d' (cluster_first_block v c) =
            set_bytes (set_bytes zero_block 0
                         (ser_bytes (v_fat32 v) (mk_dirent THIS_DIR_NAME now now A_DIRECTORY c 0 (cluster_first_block v c) 0)))
                      32 (ser_bytes (v_fat32 v) (mk_dirent PARENT_DIR_NAME now now A_DIRECTORY pcl 0 (cluster_first_block v c) 32));
  mk_zero : forall k, 1 <= k -> k < v_spc v -> disk_get d' (cluster_first_block v c + k) = zero_block
}.

Inductive mk_outcome (fsz : N) (v : vol) (hs : list N) (parent : N) (sfn pbl : list N) (s : st)
  : outcome unit -> st -> Prop :=
| mk_full0 s' :                       (* no free cluster: nothing was written *)
    s_disk s' = s_disk s -> mk_outcome fsz v hs parent sfn pbl s (Err NotEnoughSpace) s'
| mk_full1 s' c :                     (* cluster taken, no room for the entry in the parent (FAT16 root full, or
                                         the parent would have to grow and the volume is full), cluster released *)
    2 <= c -> c < v_clusters v + 2 -> fat_get (s_disk s) v 0 c = 0 ->
    find nv (slots_of (s_disk s) pbl) = None ->
    fat_wf (s_disk s') v hs ->
    (forall h ch, In h hs -> chain_at (s_disk s) v h ch -> chain_at (s_disk s') v h ch) ->
    (forall j, ~ PrBounds.in_fat v fsz j -> ~ In j (cluster_blocks v c) ->
               disk_get (s_disk s') j = disk_get (s_disk s) j) ->
    mk_outcome fsz v hs parent sfn pbl s (Err NotEnoughSpace) s'
| mk_slot s' c now tm blk off sl0 :    (* the parent has a free slot *)
    mk_cluster v (s_disk s) (s_disk s') c now (if parent =? CL_ROOT then CL_EMPTY else parent) ->
    find nv (slots_of (s_disk s) pbl) = Some (blk, off, sl0) ->
    disk_get (s_disk s') blk =
      set_bytes (disk_get (s_disk s) blk) off
                (ser_bytes (v_fat32 v) (mk_dirent sfn tm tm A_DIRECTORY c 0 blk off)) ->
    fat_wf (s_disk s') v (c :: hs) -> chain_at (s_disk s') v c [c] ->
    (forall h ch, In h hs -> chain_at (s_disk s) v h ch -> chain_at (s_disk s') v h ch) ->
    (forall j, ~ PrBounds.in_fat v fsz j -> ~ In j (cluster_blocks v c) -> j <> blk ->
               disk_get (s_disk s') j = disk_get (s_disk s) j) ->
    mk_outcome fsz v hs parent sfn pbl s (Ok tt) s'
| mk_grown s' c c' now tm pc pch :     (* every slot of the parent is in use: the parent grows by the zeroed cluster c',
                                         the entry goes into slot 0 of its first block *)
    mk_cluster v (s_disk s) (s_disk s') c now (if parent =? CL_ROOT then CL_EMPTY else parent) ->
    find nv (slots_of (s_disk s) pbl) = None ->
    negb (v_fat32 v) && (parent =? CL_ROOT) = false -> pc = dir_first_cluster v parent ->
    chain_at (s_disk s) v pc pch -> pbl = flat_map (cluster_blocks v) pch ->
    2 <= c' -> c' < v_clusters v + 2 -> fat_get (s_disk s) v 0 c' = 0 -> c' <> c ->
    disk_get (s_disk s') (cluster_first_block v c') =
      set_bytes zero_block 0
                (ser_bytes (v_fat32 v) (mk_dirent sfn tm tm A_DIRECTORY c 0 (cluster_first_block v c') 0)) ->
    (forall k, 1 <= k -> k < v_spc v -> disk_get (s_disk s') (cluster_first_block v c' + k) = zero_block) ->
    fat_wf (s_disk s') v (c :: hs) -> chain_at (s_disk s') v c [c] ->
    chain_at (s_disk s') v pc (pch ++ [c']) ->
    (forall h ch, In h hs -> h <> pc -> chain_at (s_disk s) v h ch -> chain_at (s_disk s') v h ch) ->
    (forall j, ~ PrBounds.in_fat v fsz j -> ~ In j (cluster_blocks v c) -> ~ In j (cluster_blocks v c') ->
               disk_get (s_disk s') j = disk_get (s_disk s) j) ->
    mk_outcome fsz v hs parent sfn pbl s (Ok tt) s'.

(* ================================================================== 1. the growing walk *)
Lemma last_default {A} (l : list A) : forall a d d', last (a :: l) d = last (a :: l) d'.
Proof.
  induction l as [|b l IH]; intros a d d'; [reflexivity|].
  change (last (a :: b :: l) d) with (last (b :: l) d).
  change (last (a :: b :: l) d') with (last (b :: l) d'). apply IH.
Qed.

Section GrowWalk.
  Variables (R X : Type) (g : disk -> N -> option X) (body : N -> M (option R)).
  Variable Q : N -> X -> st -> R -> st -> Prop.
  Hypothesis body_none : forall blk s, no_faults s -> cache_ok s -> g (s_disk s) blk = None ->
    exists s', body blk s = (Ok None, s') /\ rd_step s s'.
  Hypothesis body_some : forall blk s x, no_faults s -> cache_ok s -> g (s_disk s) blk = Some x ->
    exists r s', body blk s = (Ok (Some r), s') /\ Q blk x s r s'.

  (* the walk read its way (up to s0) to the end of the chain, whose last cluster is p, and goes
     on with: allocate a zeroed cluster behind p, walk it with the k units of fuel that are left *)
  Definition grows (vi : nat) (s : st) (res : outcome (option R) * st) (p : N) (k : nat) : Prop :=
    exists s0, rd_step s s0 /\
      res = (c' <- alloc_cluster vi (Some p) true ;; walk_dir k vi c' true body) s0.

  Lemma grows_after vi s s1 res p k : rd_step s s1 -> grows vi s1 res p k -> grows vi s res p k.
  Proof. intros H (s0 & H0 & E). exists s0. split; [exact (rd_trans _ _ _ H H0)|exact E]. Qed.

  Lemma walk_dir_chain_grow vi v : vol_ok v ->
    forall fuel c s ch, nth_error (s_vols s) vi = Some v -> no_faults s -> cache_ok s ->
    chain_of (s_disk s) v c fuel = Some ch ->
    stop_at X g (s_disk s) (flat_map (cluster_blocks v) ch) = None ->
    grows vi s (walk_dir fuel vi c true body s) (last ch c) (fuel - length ch).
  Proof.
    intros Hv. induction fuel as [|f IH]; intros c s ch Hvi Hnf Hc Hch Hstop; [discriminate|].
    destruct (chain_of_head _ _ _ _ _ Hch) as (R1 & R2 & (l' & El)).
    cbn [chain_of] in Hch.
    replace ((2 <=? c) && (c <? v_clusters v + 2)) with true in Hch
      by (symmetry; apply andb_true_iff; split; [apply N.leb_le|apply N.ltb_lt]; assumption).
    cbv zeta in Hch.
    cbn [walk_dir].
    rewrite (bind_ok _ _ _ _ _ (get_vol_some vi v s Hvi)).
    destruct (cluster_block_ok v c s Hv R1 R2) as (Hcb & Hfit).
    rewrite (bind_ok _ _ _ _ _ Hcb).
    assert (Hnr : (c =? CL_ROOT) = false) by (apply N.eqb_neq; apply (in_range_not_root v c Hv R2)).
    rewrite Hnr, andb_false_r. unfold for_blocks. rewrite bind_bind.
    rewrite (bind_ok _ _ _ _ _ (add32_ok _ _ s Hfit)).
    pose proof (for_blocks_from_stop R X g body Q body_none body_some
                  (N.to_nat (v_spc v)) (cluster_first_block v c) s Hnf Hc) as Hfb.
    fold (cluster_blocks v c) in Hfb.
    subst ch. cbn [flat_map] in Hstop. rewrite stop_at_app in Hstop.
    destruct (stop_at X g (s_disk s) (cluster_blocks v c)) as [[blk x]|]; [discriminate Hstop|].
    destruct Hfb as (s1 & E & Hrd1). rewrite (bind_ok _ _ _ _ _ E).
    pose proof Hrd1 as ((Hd1 & Hc1 & Hnf1 & Hm1) & _).
    destruct (next_cluster_rd v c s1 Hv R2 Hnf1 Hc1) as (s2 & Hnc & Hrd2).
    pose proof (rd_trans _ _ _ Hrd1 Hrd2) as Hrd12.
    pose proof Hrd12 as ((Hd2 & Hc2 & Hnf2 & Hm2) & _).
    rewrite (bind_ok _ _ _ _ _ Hnc). rewrite Hd1.
    destruct (fat_entry (s_disk s) v c =? fat_bad v) eqn:Hbad; [discriminate|].
    destruct (fat_eoc_min v <=? fat_entry (s_disk s) v c) eqn:Heoc.
    - inversion Hch; subst l'. rewrite (next_result_end _ _ Hbad Heoc).
      cbn [last length]. replace (S f - 1)%nat with f by lia.
      exists s2. split; [exact Hrd12|reflexivity].
    - destruct (chain_of (s_disk s) v (fat_entry (s_disk s) v c) f) as [l|] eqn:Hrest; [|discriminate].
      inversion Hch; subst l'.
      destruct (chain_of_head _ _ _ _ _ Hrest) as (Q1 & _ & (l2 & El2)).
      rewrite (next_result_link _ _ Hbad Heoc Q1).
      assert (Hvi2 : nth_error (s_vols s2) vi = Some v) by (apply (same_mgr_vol s s2); [exact Hm2|exact Hvi]).
      assert (Hrest2 : chain_of (s_disk s2) v (fat_entry (s_disk s) v c) f = Some l)
        by (rewrite Hd2; exact Hrest).
      specialize (IH (fat_entry (s_disk s) v c) s2 l Hvi2 Hnf2 Hc2 Hrest2). rewrite Hd2 in IH.
      specialize (IH Hstop).
      replace (last (c :: l) c) with (last l (fat_entry (s_disk s) v c))
        by (subst l; change (last (c :: fat_entry (s_disk s) v c :: l2) c)
                       with (last (fat_entry (s_disk s) v c :: l2) c); apply last_default).
      change (S f - length (c :: l))%nat with (f - length l)%nat.
      exact (grows_after _ _ _ _ _ _ Hrd12 IH).
  Qed.
End GrowWalk.

(* ================================================================== 2. helpers *)
(* the tables make_dir never touches *)
Definition tabs8 (s s' : st) : Prop :=
  s_dirs s' = s_dirs s /\ s_files s' = s_files s /\ s_next_id s' = s_next_id s /\
  s_lock s' = s_lock s /\ s_maxv s' = s_maxv s /\ s_maxd s' = s_maxd s /\
  s_maxf s' = s_maxf s /\ s_faults s' = s_faults s.

Lemma tabs8_trans a b c : tabs8 a b -> tabs8 b c -> tabs8 a c.
Proof.
  intros (A1 & A2 & A3 & A4 & A5 & A6 & A7 & A8) (B1 & B2 & B3 & B4 & B5 & B6 & B7 & B8).
  unfold tabs8. repeat split; congruence.
Qed.
Lemma tabs8_mgr s s' : same_mgr s s' -> tabs8 s s'.
Proof. intros (A1 & A2 & A3 & A4 & A5 & A6 & A7 & A8 & A9 & A10). unfold tabs8. repeat split; assumption. Qed.
Lemma tabs8_tabs s s' : same_tabs s s' -> tabs8 s s'.
Proof. intros (A2 & A3 & A4 & A5 & A6 & A7 & A8 & A9 & A10). unfold tabs8. repeat split; assumption. Qed.
Lemma tabs8_tables s s' : same_tables s s' -> tabs8 s s'.
Proof. intros (A1 & A2 & A3 & A4 & A5 & A6 & A7 & A8 & A9). unfold tabs8. repeat split; assumption. Qed.
Lemma tabs8_rd s s' : rd_step s s' -> tabs8 s s'.
Proof. intros ((_ & _ & _ & M) & _). exact (tabs8_mgr _ _ M). Qed.

(* read calls write nothing *)
Lemma reads_no_writes l : Forall PrModes.is_read_call l -> PrOrder.writes_of l = [].
Proof.
  induction 1 as [|x l Hx _ IH]; [reflexivity|].
  change (x :: l) with ([x] ++ l). rewrite PrOrder.writes_of_app, IH.
  destruct x; try destruct Hx; reflexivity.
Qed.

Lemma rd_tsteps s s' : rd_step s s' -> PrOrder.tsteps s s' [].
Proof. intros (_ & l & T & F). exists l. split; [exact T|exact (reads_no_writes l F)]. Qed.

Lemma tr_ext_tsteps s s' ws : tr_ext s s' ws -> PrOrder.tsteps s s' (map fst ws).
Proof.
  intros (new & T & W & _). exists new. split; [exact T|].
  rewrite <- PrBounds.dwrites_writes_of. unfold dwrites. rewrite <- map_rev, W. reflexivity.
Qed.

(* a block outside the FAT copies is no FAT sector *)
Lemma not_fat_not_sector v fsz j : ~ PrBounds.in_fat v fsz j ->
  forall copy k, k < fsz -> j <> fat_copy_sector v copy k.
Proof. intros H copy k Hk ->. apply H. exact (PrBounds.fat_copy_sector_in_fat v fsz copy k Hk). Qed.

Lemma in_cluster_blocks_iff v c j : In j (cluster_blocks v c) <-> in_cluster v c j.
Proof.
  unfold cluster_blocks, in_cluster. rewrite (PrOrder.blocks_from_In (N.to_nat (v_spc v)) (cluster_first_block v c) j).
  rewrite N2Nat.id. tauto.
Qed.

(* the FAT copies are the same on both devices *)
Definition fat_same (v : vol) (fsz : N) (d d' : disk) : Prop :=
  forall j, PrBounds.in_fat v fsz j -> disk_get d' j = disk_get d j.

Lemma fat_same_refl v fsz d : fat_same v fsz d d.
Proof. intros j _. reflexivity. Qed.
Lemma fat_same_trans v fsz a b c : fat_same v fsz a b -> fat_same v fsz b c -> fat_same v fsz a c.
Proof. intros H1 H2 j Hj. rewrite (H2 j Hj). exact (H1 j Hj). Qed.
Lemma fat_same_eq v fsz d d' : d' = d -> fat_same v fsz d d'.
Proof. intros ->. apply fat_same_refl. Qed.
Lemma fat_same_set v fsz d b nb : ~ PrBounds.in_fat v fsz b -> fat_same v fsz d (disk_set d b nb).
Proof. intros Hb j Hj. apply disk_get_set_other. intros ->. contradiction. Qed.

Lemma fat_same_get v fsz d d' x : fat_layout v fsz -> x < v_clusters v + 2 -> fat_same v fsz d d' ->
  fat_get d' v 0 x = fat_get d v 0 x.
Proof.
  intros FL Hx H. apply fat_get_same_sector. apply H.
  exact (PrBounds.fat_copy_sector_in_fat v fsz 0 _ (layout_sector v fsz x FL Hx)).
Qed.

Lemma fat_same_chain v fsz d d' h ch : fat_layout v fsz -> fat_same v fsz d d' ->
  chain_at d v h ch -> chain_at d' v h ch.
Proof.
  intros FL H Hch. apply (chain_of_frame d d' v _ _ _ Hch). intros x Hx.
  pose proof (chain_of_range _ _ _ _ _ Hch) as Rg. rewrite Forall_forall in Rg.
  exact (fat_same_get v fsz d d' x FL (proj2 (Rg x Hx)) H).
Qed.

Lemma fat_same_sym_get v fsz d d' : fat_layout v fsz -> fat_same v fsz d d' ->
  forall h ch, chain_at d' v h ch -> chain_at d v h ch.
Proof.
  intros FL H h ch Hch. apply (chain_of_frame d' d v _ _ _ Hch). intros x Hx.
  pose proof (chain_of_range _ _ _ _ _ Hch) as Rg. rewrite Forall_forall in Rg.
  symmetry. exact (fat_same_get v fsz d d' x FL (proj2 (Rg x Hx)) H).
Qed.

Lemma fat_same_wf v fsz d d' hs : fat_layout v fsz -> fat_same v fsz d d' -> fat_wf d v hs -> fat_wf d' v hs.
Proof.
  intros FL H [A B C D].
  pose proof (fat_same_chain v fsz d d') as To. pose proof (fat_same_sym_get v fsz d d' FL H) as From.
  constructor.
  - intros h Hh. destruct (A h Hh) as (ch & Hch). exists ch. exact (To h ch FL H Hch).
  - exact B.
  - intros h1 h2 ch1 ch2 c H1 H2 X1 X2. exact (C h1 h2 ch1 ch2 c H1 H2 (From _ _ X1) (From _ _ X2)).
  - intros c C1 C2. rewrite (fat_same_get v fsz d d' c FL C2 H). rewrite (D c C1 C2).
    split; intros (h & ch & Hh & Hch & Hin); exists h, ch; (split; [exact Hh|split; [|exact Hin]]).
    + exact (To h ch FL H Hch).
    + exact (From h ch Hch).
Qed.

(* alloc_pre only looks at the FAT copies, the volume record and the device-side invariants *)
Lemma alloc_pre_frame v fsz vi w t t' : alloc_pre t vi w fsz -> geo_eq v w ->
  no_faults t' -> cache_ok t' -> nth_error (s_vols t') vi = Some w ->
  fat_same v fsz (s_disk t) (s_disk t') -> alloc_pre t' vi w fsz.
Proof.
  intros ((_ & _ & _ & Hlen) & FL & Hh) (a & b & ->) Hnf Hc Hvi H.
  split; [|split; assumption]. split; [exact Hnf|]. split; [exact Hc|]. split; [exact Hvi|].
  intros k Hk. rewrite H; [exact (Hlen k Hk)|].
  exact (PrBounds.fat_copy_sector_in_fat v fsz 0 k Hk).
Qed.

(* every device write of an allocation stores a 512-byte block *)
Lemma alloc_blocks_wf vi v fsz prev zero s c s' :
  blocks_wf (s_disk s) -> alloc_eff vi v fsz prev zero s c s' -> blocks_wf (s_disk s').
Proof.
  intros Hwf Heff. destruct (ae_trace _ _ _ _ _ _ _ _ Heff) as (new & _ & _ & Hd). rewrite Hd.
  apply blocks_wf_apply; [exact Hwf|]. unfold alloc_writes.
  apply Forall_app. split; [|apply Forall_app; split].
  - apply Forall_map_const. intros i. cbn [snd]. unfold alloc_nb1. apply fat_put_block_length. apply Hwf.
  - destruct zero; [|constructor]. apply Forall_map_const. intros i. cbn [snd]. apply repeat_length.
  - destruct prev as [p|]; [|constructor].
    apply Forall_map_const. intros i. cbn [snd]. unfold alloc_nb2. apply fat_put_block_length.
    destruct (fat_sector v 0 p =? fat_sector v 0 c); [|apply Hwf].
    unfold alloc_nb1. apply fat_put_block_length. apply Hwf.
Qed.

(* the volume record after an allocation, explicitly *)
Lemma alloc_vol_explicit vi v fsz prev zero s c s' :
  alloc_pre s vi v fsz -> alloc_eff vi v fsz prev zero s c s' ->
  exists v', s_vols s' = list_set (s_vols s) vi v' /\ geo_eq v v' /\ alloc_pre s' vi v' fsz.
Proof.
  intros ((_ & _ & Hv & _) & L & Hh) Heff.
  destruct (ae_vol _ _ _ _ _ _ _ _ Heff) as (nf & Evols & Hnf).
  destruct (ae_inv _ _ _ _ _ _ _ _ Heff) as (I1 & I2 & I3).
  set (v' := set_v_free (set_v_next_free v nf) (dec_free (v_free v))) in *.
  assert (Hv' : nth_error (s_vols s') vi = Some v') by (rewrite Evols; exact (ls_nth_same _ _ _ _ Hv)).
  exists v'. split; [exact Evols|]. split; [exists nf, (dec_free (v_free v)); reflexivity|].
  split; [|split].
  - split; [exact I1|]. split; [exact I2|]. split; [exact Hv'|exact I3].
  - apply fat_layout_free. exact L.
  - intros h Eh. cbn in Eh. subst nf. destruct Hnf as (N1 & _). exact N1.
Qed.

(* an allocation leaves every block outside the FAT copies and - when zeroing - outside the new
   cluster alone *)
Lemma alloc_frame_blocks vi v fsz prev zero s c s' :
  alloc_pre s vi v fsz -> (forall p, prev = Some p -> p < v_clusters v + 2) ->
  alloc_eff vi v fsz prev zero s c s' ->
  forall j, ~ PrBounds.in_fat v fsz j -> (zero = true -> ~ In j (cluster_blocks v c)) ->
    disk_get (s_disk s') j = disk_get (s_disk s) j.
Proof.
  intros (_ & L & _) Hprev Heff j Hj Hz.
  destruct (ae_range _ _ _ _ _ _ _ _ Heff) as (R1 & R2 & _).
  pose proof (layout_sector v fsz c L R2) as Hqc.
  pose proof (not_fat_not_sector v fsz j Hj) as Hns.
  apply (ae_frame _ _ _ _ _ _ _ _ Heff).
  - exact (Hns 0 _ Hqc).
  - exact (Hns 1 _ Hqc).
  - intros p Hp. pose proof (layout_sector v fsz p L (Hprev p Hp)) as Hqp.
    split; [exact (Hns 0 _ Hqp)|exact (Hns 1 _ Hqp)].
  - intros E Hin. apply (Hz E). apply in_cluster_blocks_iff. exact Hin.
Qed.

(* ================================================================== 3. the common prefix of make_dir *)
(* the state s6 after: allocation of c, the block with the dot entries, the zero loop *)
Record prefix_ok (fsz : N) (vi : nat) (v : vol) (hs : list N) (pcl : N) (s : st) (c : N) (s6 : st) (v1 : vol)
  : Prop := mk_prefix_ok {
  px_vols : s_vols s6 = list_set (s_vols s) vi v1;
  px_geo : geo_eq v v1;
  px_pre : alloc_pre s6 vi v1 fsz;
  px_tabs : tabs8 s s6;
  px_clock : s_clock s6 = s_clock s + 1;
  px_blocks : blocks_wf (s_disk s6);
  px_cluster : mk_cluster v (s_disk s) (s_disk s6) c (clock_ts (s_clock s)) pcl;
  px_wf : fat_wf (s_disk s6) v (c :: hs);
  px_new : chain_at (s_disk s6) v c [c];
  px_fresh : ~ In c hs;
  px_chains : forall h ch, In h hs -> chain_at (s_disk s) v h ch -> chain_at (s_disk s6) v h ch;
  px_frame : forall j, ~ PrBounds.in_fat v fsz j -> ~ In j (cluster_blocks v c) ->
             disk_get (s_disk s6) j = disk_get (s_disk s) j;
  px_fat : forall x, x < v_clusters v + 2 -> x <> c -> fat_get (s_disk s6) v 0 x = fat_get (s_disk s) v 0 x;
  px_steps : PrOrder.tsteps s s6 (fat_writes v c ++ cluster_blocks v c)
}.

Definition mkdir_rest (vi : nat) (parent : N) (sfn : list N) (c : N) : M unit :=
  r <- try (write_new_directory_entry vi parent sfn A_DIRECTORY c) ;;
  match r with
  | inl _ => ret tt
  | inr e => free_cluster_chain vi c ;;; fail e
  end.

Lemma mkdir_prefix fsz total vi v hs parent sfn s c s1 :
  alloc_pre s vi v fsz -> PrBounds.part_layout v total fsz -> blocks_wf (s_disk s) ->
  fat_wf (s_disk s) v hs ->
  alloc_cluster vi None false s = (Ok c, s1) ->
  exists s6 v1,
    make_dir vi parent sfn A_DIRECTORY s = mkdir_rest vi parent sfn c s6 /\
    prefix_ok fsz vi v hs (if parent =? CL_ROOT then CL_EMPTY else parent) s c s6 v1.
Proof.
  intros Hpre L Hbw W Hal.
  pose proof Hpre as ((Hnf & Hc & Hvi & Hlen) & FL & Hh). pose proof (fl_vol v fsz FL) as Hv.
  pose proof (PrBounds.pl_spc v total fsz L) as Hspc.
  assert (Hprev0 : forall p, @None N = Some p -> p < v_clusters v + 2) by (intros p Ep; discriminate Ep).
  pose proof (alloc_cluster_effect vi v fsz None false s c s1 Hpre Hprev0 Hal) as Heff.
  destruct (ae_range _ _ _ _ _ _ _ _ Heff) as (C1 & C2 & C3).
  destruct (ae_vol _ _ _ _ _ _ _ _ Heff) as (nf & Evols & _).
  destruct (ae_tables _ _ _ _ _ _ _ _ Heff) as (A1 & A2 & A3 & A4 & A5 & A6 & A7 & A8 & A9).
  set (v1 := set_v_free (set_v_next_free v nf) (dec_free (v_free v))) in *.
  assert (G1 : geo_eq v v1) by (exists nf, (dec_free (v_free v)); reflexivity).
  assert (Hv1 : nth_error (s_vols s1) vi = Some v1) by (rewrite Evols; exact (ls_nth_same _ _ _ _ Hvi)).
  destruct (alloc_cluster_keeps_pre vi v fsz None false s c s1 Hpre Hprev0 Hal) as (w & Hw & Hpre1 & _).
  rewrite Hv1 in Hw. inversion Hw; subst w. clear Hw.
  pose proof Hpre1 as ((Hnf1 & Hc1 & _ & Hlen1) & FL1 & Hh1). pose proof (fl_vol v1 fsz FL1) as Hvok1.
  set (start := cluster_first_block v c).
  destruct (cluster_block_ok v1 c s1 Hvok1 C1 C2) as (Hcb & Hfit).
  change (cluster_first_block v1 c) with start in Hcb, Hfit. change (v_spc v1) with (v_spc v) in Hfit.
  set (now := clock_ts (s_clock s)).
  set (pcl := if parent =? CL_ROOT then CL_EMPTY else parent).
  set (dot := ser_bytes (v_fat32 v) (mk_dirent THIS_DIR_NAME now now A_DIRECTORY c 0 start 0)).
  set (dotdot := ser_bytes (v_fat32 v) (mk_dirent PARENT_DIR_NAME now now A_DIRECTORY pcl 0 start 32)).
  set (s2 := set_s_clock s1 (s_clock s1 + 1)).
  set (s3 := set_s_cache (set_s_tag s2 (Some start)) zero_block).
  set (s4 := set_s_cache s3 (set_bytes (set_bytes zero_block 0 dot) 32 dotdot)).
  assert (T4 : s_tag s4 = Some start) by reflexivity.
  assert (N4 : no_faults s4) by (apply (no_faults_step s1); [reflexivity|cbn; lia|exact Hnf1]).
  pose proof (write_back_ok start s4 T4 N4) as Hwb.
  match type of Hwb with _ = (_, ?st) => set (s5 := st) in * end.
  destruct (PrOrder.write_back_steps start s4 _ _ T4 N4 Hwb) as (_ & [S5 G5] & M5 & _).
  destruct (zero_loop (N.to_nat (v_spc v) - 1) (start + 1) s5 (proj1 G5) (proj2 G5))
    as (s6 & Hrun & Hnf6 & Hc6 & M6 & Hz6 & Hfr6 & Tr6).
  assert (Hts : ts_ok now) by apply ts_cal_ok, clock_ts_cal.
  exists s6, v1. split.
  { unfold make_dir. rewrite (bind_ok _ _ _ _ _ Hal).
    rewrite (bind_ok _ _ _ _ _ (get_vol_some vi v1 s1 Hv1)).
    rewrite (bind_ok _ _ _ _ _ Hcb).
    assert (E2 : get_timestamp s1 = (Ok now, s2)) by (unfold now; rewrite <- A4; reflexivity).
    rewrite (bind_ok _ _ _ _ _ E2).
    assert (E3 : blank_mut start s2 = (Ok tt, s3)) by reflexivity.
    rewrite (bind_ok _ _ _ _ _ E3).
    change (v_fat32 v1) with (v_fat32 v). change (v_spc v1) with (v_spc v).
    rewrite (bind_ok _ _ _ _ _ (serialize_ok (v_fat32 v) (mk_dirent THIS_DIR_NAME now now A_DIRECTORY c 0 start 0) s3 Hts Hts)).
    fold pcl.
    rewrite (bind_ok _ _ _ _ _ (serialize_ok (v_fat32 v) (mk_dirent PARENT_DIR_NAME now now A_DIRECTORY pcl 0 start 32) s3 Hts Hts)).
    fold dot dotdot.
    assert (E4 : cache_modify (fun b => set_bytes (set_bytes b 0 dot) 32 dotdot) s3 = (Ok tt, s4)) by reflexivity.
    rewrite (bind_ok _ _ _ _ _ E4).
    rewrite (bind_ok _ _ _ _ _ Hwb).
    rewrite (bind_ok _ _ _ _ _ (add32_ok _ _ s5 Hfit)).
    rewrite (bind_ok _ _ _ _ _ Hrun). reflexivity. }
  (* the device after the prefix *)
  assert (D5 : s_disk s5 = disk_set (s_disk s1) start (set_bytes (set_bytes zero_block 0 dot) 32 dotdot)) by reflexivity.
  assert (Elen : N.of_nat (N.to_nat (v_spc v) - 1) = v_spc v - 1) by lia.
  rewrite Elen in Hz6, Hfr6.
  assert (Hstart6 : disk_get (s_disk s6) start = set_bytes (set_bytes zero_block 0 dot) 32 dotdot).
  { rewrite Hfr6 by lia. rewrite D5. apply disk_get_set_same. }
  assert (Hout6 : forall j, j < start \/ start + v_spc v <= j -> disk_get (s_disk s6) j = disk_get (s_disk s1) j).
  { intros j Hj. rewrite Hfr6 by lia. rewrite D5. apply disk_get_set_other. lia. }
  assert (Hfs16 : fat_same v fsz (s_disk s1) (s_disk s6)).
  { intros j Hj. apply Hout6. destruct (PrBounds.in_fat_is_copy_sector v fsz j Hj) as (copy & k & Hk & ->).
    exact (PrBounds.fat_sector_outside_cluster v fsz copy k c FL Hk C1). }
  assert (Hnew6 : fat_get (s_disk s6) v 0 c = enc v CL_EOF).
  { rewrite (fat_same_get v fsz _ _ c FL C2 Hfs16). apply (ae_new _ _ _ _ _ _ _ _ Heff). discriminate. }
  assert (Hoth6 : forall x, x < v_clusters v + 2 -> x <> c -> fat_get (s_disk s6) v 0 x = fat_get (s_disk s) v 0 x).
  { intros x Hx Hne. rewrite (fat_same_get v fsz _ _ x FL Hx Hfs16).
    apply (ae_other _ _ _ _ _ _ _ _ Heff); [exact (layout_sector v fsz x FL Hx)|exact Hne|discriminate]. }
  destruct (wf_new_head (s_disk s) (s_disk s6) v hs c W C1 C2 C3 Hnew6 (fun x _ X2 Hne => Hoth6 x X2 Hne))
    as (W6 & Hch6 & Hfresh & Hkeep).
  assert (Hvols6 : s_vols s6 = s_vols s1) by (rewrite (proj1 M6); reflexivity).
  constructor.
  - rewrite Hvols6. exact Evols.
  - exact G1.
  - apply (alloc_pre_frame v fsz vi v1 s1 s6 Hpre1 G1 Hnf6 Hc6); [rewrite Hvols6; exact Hv1|exact Hfs16].
  - apply (tabs8_trans _ s5); [|exact (tabs8_mgr _ _ M6)]. unfold tabs8. cbn. repeat split; assumption.
  - destruct M6 as (_ & _ & _ & _ & E & _). rewrite E. cbn. rewrite A4. reflexivity.
  - assert (Hbw1 : blocks_wf (s_disk s1)) by exact (alloc_blocks_wf _ _ _ _ _ _ _ _ Hbw Heff).
    assert (Hdl : length dot = 32%nat) by (apply ser_bytes_length; reflexivity).
    assert (Hddl : length dotdot = 32%nat) by (apply ser_bytes_length; reflexivity).
    assert (Hzl : length zero_block = 512%nat) by apply repeat_length.
    assert (Hbw5 : blocks_wf (s_disk s5)).
    { rewrite D5. apply blocks_wf_set; [exact Hbw1|].
      rewrite set_bytes_length; rewrite set_bytes_length; rewrite ?Hzl, ?Hdl, ?Hddl; cbn; lia. }
    intros i. destruct (N.le_gt_cases (start + 1) i) as [Hi1|Hi1]; [destruct (N.lt_ge_cases i (start + v_spc v)) as [Hi2|Hi2]|].
    + rewrite Hz6 by lia. exact Hzl.
    + rewrite Hfr6 by lia. apply Hbw5.
    + rewrite Hfr6 by lia. apply Hbw5.
  - constructor.
    + repeat split; assumption.
    + exact Hstart6.
    + intros k K1 K2. apply Hz6; lia.
  - exact W6.
  - exact Hch6.
  - exact Hfresh.
  - exact Hkeep.
  - intros j Hj Hnc. rewrite Hout6.
    + apply (alloc_frame_blocks vi v fsz None false s c s1 Hpre Hprev0 Heff j Hj). intros E. discriminate E.
    + rewrite in_cluster_blocks_iff in Hnc. unfold in_cluster in Hnc. fold start in Hnc. lia.
  - exact Hoth6.
  - assert (T1 : PrOrder.tsteps s s1 (fat_writes v c)).
    { pose proof (tr_ext_tsteps _ _ _ (ae_trace _ _ _ _ _ _ _ _ Heff)) as T. rewrite dwrites_alloc in T.
      cbn [app] in T. rewrite app_nil_r in T. exact T. }
    assert (T5 : PrOrder.tsteps s1 s5 [start]).
    { apply (PrOrder.tsteps_trans _ s4 _ [] _); [apply PrOrder.tsteps_same_trace; reflexivity|exact S5]. }
    assert (T6 : PrOrder.tsteps s5 s6 (PrOrder.blocks_from (N.to_nat (v_spc v) - 1) (start + 1))).
    { pose proof (tr_ext_tsteps _ _ _ Tr6) as T. rewrite map_map in T. cbn [fst] in T. rewrite map_id in T. exact T. }
    rewrite (PrBounds.cluster_blocks_cons v c Hspc). fold start.
    exact (PrOrder.tsteps_trans _ _ _ _ _ T1 (PrOrder.tsteps_trans _ _ _ _ _ T5 T6)).
Qed.

(* ================================================================== 4. the parent directory during the prefix *)
(* the blocks of the parent: outside the FAT copies, no block of the (free) cluster c, in the
   data area or the FAT16 root region *)
Lemma parent_blocks_facts fsz total v parent pbl d c :
  PrBounds.part_layout v total fsz -> dir_blocks d v parent = Some pbl ->
  2 <= c -> c < v_clusters v + 2 -> fat_get d v 0 c = 0 ->
  forall j, In j pbl ->
    ~ PrBounds.in_fat v fsz j /\ ~ In j (cluster_blocks v c) /\ PrBounds.in_dir v j.
Proof.
  intros L Hbl C1 C2 C3 j Hj.
  pose proof (PrBounds.C04_dir_blocks_in_dir d v parent pbl Hbl) as Fd. rewrite Forall_forall in Fd.
  pose proof (Fd j Hj) as Hdir.
  destruct (PrBounds.C04_regions_disjoint v total fsz j L) as (_ & Dfat & Droot & _).
  split; [|split; [|exact Hdir]].
  - intros Hf. destruct (Dfat Hf) as (N1 & N2 & _). destruct Hdir; contradiction.
  - intros Hin.
    pose proof (PrBounds.C04_cluster_block_in_data v c C1 C2) as Fc. rewrite Forall_forall in Fc.
    pose proof (Fc j Hin) as Hdata.
    unfold dir_blocks in Hbl. destruct (negb (v_fat32 v) && (parent =? CL_ROOT)) eqn:Eroot.
    + inversion Hbl; subst pbl. apply andb_true_iff in Eroot. destruct Eroot as [H16 _]. apply negb_true_iff in H16.
      pose proof (PrBounds.C04_root_block_in_root v H16) as Fr. rewrite Forall_forall in Fr.
      destruct (Droot (Fr j Hj)) as (N1 & _). contradiction.
    + destruct (chain_of d v (dir_first_cluster v parent) (walk_fuel v)) as [ch|] eqn:Hch; [|discriminate].
      inversion Hbl; subst pbl. apply in_flat_map in Hj. destruct Hj as (x & Hx & Hjx).
      pose proof (chain_of_range _ _ _ _ _ Hch) as Rg. rewrite Forall_forall in Rg. destruct (Rg x Hx) as (X1 & X2).
      assert (Hne : x <> c).
      { intros ->. apply (chain_entry_nonzero _ _ _ _ _ Hch c Hx). rewrite fat_entry_get. exact C3. }
      exact (cluster_blocks_apart v x c j j Hne X1 C1 Hjx Hin eq_refl).
Qed.

Lemma prefix_region fsz total v c : PrBounds.part_layout v total fsz -> 2 <= c -> c < v_clusters v + 2 ->
  Forall (PrBounds.in_region v fsz) (fat_writes v c ++ cluster_blocks v c).
Proof.
  intros L C1 C2. apply Forall_app. split.
  - eapply Forall_impl; [|exact (PrBounds.fat_writes_in_fat v total fsz c L C2)]. intros i Hi. left. exact Hi.
  - eapply Forall_impl; [|exact (PrBounds.C04_cluster_block_in_data v c C1 C2)]. intros i Hi. right. left. exact Hi.
Qed.

Lemma in_dir_region v fsz j : PrBounds.in_dir v j -> PrBounds.in_region v fsz j.
Proof. intros [H|H]; [right; left; exact H|right; right; left; exact H]. Qed.

(* what the prefix leaves of the parent directory *)
Lemma prefix_parent fsz total vi v hs pcl parent pbl s c s6 v1 :
  PrBounds.part_layout v total fsz -> dir_blocks (s_disk s) v parent = Some pbl ->
  (negb (v_fat32 v) && (parent =? CL_ROOT) = false -> In (dir_first_cluster v parent) hs) ->
  prefix_ok fsz vi v hs pcl s c s6 v1 ->
  (forall j, In j pbl -> ~ PrBounds.in_fat v fsz j /\ ~ In j (cluster_blocks v c) /\ PrBounds.in_dir v j) /\
  (forall j, In j pbl -> disk_get (s_disk s6) j = disk_get (s_disk s) j) /\
  slots_of (s_disk s6) pbl = slots_of (s_disk s) pbl /\
  dir_blocks (s_disk s6) v1 parent = Some pbl.
Proof.
  intros L Hbl Hhead PX.
  destruct (mk_range _ _ _ _ _ _ (px_cluster _ _ _ _ _ _ _ _ _ PX)) as (C1 & C2 & C3).
  pose proof (parent_blocks_facts fsz total v parent pbl (s_disk s) c L Hbl C1 C2 C3) as Hf.
  assert (Hsame : forall j, In j pbl -> disk_get (s_disk s6) j = disk_get (s_disk s) j).
  { intros j Hj. destruct (Hf j Hj) as (N1 & N2 & _). exact (px_frame _ _ _ _ _ _ _ _ _ PX j N1 N2). }
  split; [exact Hf|]. split; [exact Hsame|]. split; [exact (slots_of_ext _ _ pbl Hsame)|].
  rewrite (PrBounds.dir_blocks_geom (s_disk s6) v v1 parent (px_geo _ _ _ _ _ _ _ _ _ PX)).
  unfold dir_blocks in Hbl |- *.
  destruct (negb (v_fat32 v) && (parent =? CL_ROOT)) eqn:Eroot; [exact Hbl|].
  destruct (chain_of (s_disk s) v (dir_first_cluster v parent) (walk_fuel v)) as [ch|] eqn:Hch; [|discriminate].
  pose proof (px_chains _ _ _ _ _ _ _ _ _ PX _ ch (Hhead eq_refl) Hch) as Hch6.
  unfold chain_at in Hch6. rewrite Hch6. exact Hbl.
Qed.

(* the last step of a successful make_dir: one directory block, outside the FAT copies, receives
   the entry *)
Lemma entry_written fsz vi v w t s' blk nb :
  alloc_pre t vi w fsz -> geo_eq v w -> blocks_wf (s_disk t) ->
  s_disk s' = disk_set (s_disk t) blk nb -> length nb = 512%nat -> ~ PrBounds.in_fat v fsz blk ->
  cache_ok s' -> no_faults s' -> same_tables t s' ->
  (exists x l, s_trace s' = DWrite blk x :: l ++ s_trace t /\ Forall PrModes.is_read_call l) ->
  alloc_pre s' vi w fsz /\ blocks_wf (s_disk s') /\ tabs8 t s' /\ s_vols s' = s_vols t /\
  PrOrder.tsteps t s' [blk] /\ fat_same v fsz (s_disk t) (s_disk s').
Proof.
  intros Hpre G Hbw Hd Hnb Hnf Hc' Hnf' Htab (x & l & Htr & Hl).
  assert (Hfs : fat_same v fsz (s_disk t) (s_disk s')) by (rewrite Hd; apply fat_same_set; exact Hnf).
  pose proof Hpre as ((_ & _ & Hvi & _) & _).
  split; [|split; [|split; [|split; [|split]]]].
  - apply (alloc_pre_frame v fsz vi w t s' Hpre G Hnf' Hc'); [rewrite (proj1 Htab); exact Hvi|exact Hfs].
  - rewrite Hd. apply blocks_wf_set; assumption.
  - exact (tabs8_tables _ _ Htab).
  - exact (proj1 Htab).
  - exists (DWrite blk x :: l). split; [exact Htr|].
    change (DWrite blk x :: l) with ([DWrite blk x] ++ l). rewrite PrOrder.writes_of_app, (reads_no_writes l Hl). reflexivity.
  - exact Hfs.
Qed.

(* ================================================================== 5. the parent has a free slot *)
Lemma mkdir_slot fsz total vi v hs parent sfn pbl s c s6 v1 blk off sl0 :
  PrBounds.part_layout v total fsz -> dir_blocks (s_disk s) v parent = Some pbl ->
  (negb (v_fat32 v) && (parent =? CL_ROOT) = false -> In (dir_first_cluster v parent) hs) ->
  length sfn = 11%nat ->
  prefix_ok fsz vi v hs (if parent =? CL_ROOT then CL_EMPTY else parent) s c s6 v1 ->
  find nv (slots_of (s_disk s) pbl) = Some (blk, off, sl0) ->
  exists s', mkdir_rest vi parent sfn c s6 = (Ok tt, s') /\ mk_common fsz vi v s s' /\
             mk_outcome fsz v hs parent sfn pbl s (Ok tt) s'.
Proof.
  intros L Hbl Hhead Hname PX Hfind.
  destruct (prefix_parent fsz total vi v hs _ parent pbl s c s6 v1 L Hbl Hhead PX) as (Hf & Hsame & Hslots & Hbl6).
  destruct PX as [Evols G Hpre6 Htabs Hclk Hbw6 Hcl W6 Hnew6 Hfresh Hkeep Hframe Hfat Hsteps].
  pose proof Hpre6 as ((Hnf6 & Hc6 & Hvi6 & _) & FL1 & _).
  destruct (mk_range _ _ _ _ _ _ Hcl) as (C1 & C2 & C3).
  pose proof (find_some _ _ Hfind) as [Hin _].
  apply In_slots_of in Hin. destruct Hin as (b & i & Hb & Hi & Et). injection Et as Eb Eo Es. subst b.
  destruct (Hf blk Hb) as (Nfat & Ncl & Hdir).
  assert (Hfind6 : find nv (slots_of (s_disk s6) pbl) = Some (blk, off, sl0)) by (rewrite Hslots; exact Hfind).
  pose proof (write_new_directory_entry_spec vi v1 parent sfn A_DIRECTORY c s6 pbl blk off sl0
                Hvi6 (fl_vol v1 fsz FL1) Hnf6 Hc6 Hbl6 Hfind6 Hname (Hbw6 blk)) as Spec.
  cbv zeta in Spec. destruct Spec as (s' & Erun & Hd' & _ & _ & _ & Hc' & Hnf' & Hclk' & Htab' & l & Htr & Hl).
  assert (Efat : v_fat32 v1 = v_fat32 v) by (destruct G as (a & b0 & ->); reflexivity).
  rewrite Efat, Hclk, (Hsame blk Hb) in Hd'.
  set (tm := clock_ts (s_clock s + 1)) in *.
  set (bytes := ser_bytes (v_fat32 v) (mk_dirent sfn tm tm A_DIRECTORY c 0 blk off)) in *.
  assert (Hbl512 : length (set_bytes (disk_get (s_disk s) blk) off bytes) = 512%nat).
  { rewrite <- (Hsame blk Hb). rewrite set_bytes_length; [apply Hbw6|].
    rewrite (Hbw6 blk). unfold bytes. rewrite ser_bytes_length by exact Hname. lia. }
  destruct (entry_written fsz vi v v1 s6 s' blk _ Hpre6 G Hbw6 Hd' Hbl512 Nfat Hc' Hnf' Htab'
              (ex_intro _ _ (ex_intro _ l (conj Htr Hl)))) as (Hpre' & Hbw' & Htabs' & Hvols' & Hst' & Hfs').
  exists s'. split.
  { unfold mkdir_rest. rewrite (bind_ok _ _ _ _ _ (try_ok _ _ _ _ Erun)). reflexivity. }
  assert (Hoth : forall j, j <> blk -> disk_get (s_disk s') j = disk_get (s_disk s6) j).
  { intros j Hj. rewrite Hd'. apply disk_get_set_other. congruence. }
  assert (FL : fat_layout v fsz) by exact (geo_layout v1 v fsz (geo_eq_sym _ _ G) FL1).
  split.
  - constructor.
    + exists v1. split; [rewrite Hvols'; exact Evols|]. split; [exact G|exact Hpre'].
    + exact (tabs8_trans _ _ _ Htabs Htabs').
    + exact Hbw'.
    + exists ((fat_writes v c ++ cluster_blocks v c) ++ [blk]). split; [exact (PrOrder.tsteps_trans _ _ _ _ _ Hsteps Hst')|].
      apply Forall_app. split; [exact (prefix_region fsz total v c L C1 C2)|].
      apply Forall_cons; [exact (in_dir_region v fsz blk Hdir)|constructor].
  - apply (mk_slot fsz v hs parent sfn pbl s s' c (clock_ts (s_clock s)) tm blk off sl0).
    + constructor.
      * repeat split; assumption.
      * rewrite Hoth; [exact (mk_dots _ _ _ _ _ _ Hcl)|].
        intros E. apply Ncl. rewrite <- E. rewrite (PrBounds.cluster_blocks_cons v c (PrBounds.pl_spc v total fsz L)). left. reflexivity.
      * intros k K1 K2. rewrite Hoth; [exact (mk_zero _ _ _ _ _ _ Hcl k K1 K2)|].
        intros E. apply Ncl. rewrite <- E. apply in_cluster_blocks_iff. unfold in_cluster. lia.
    + exact Hfind.
    + rewrite Hd'. apply disk_get_set_same.
    + exact (fat_same_wf v fsz _ _ _ FL Hfs' W6).
    + exact (fat_same_chain v fsz _ _ _ _ FL Hfs' Hnew6).
    + intros h ch Hh Hch. exact (fat_same_chain v fsz _ _ _ _ FL Hfs' (Hkeep h ch Hh Hch)).
    + intros j J1 J2 J3. rewrite (Hoth j J3). exact (Hframe j J1 J2).
Qed.

(* ================================================================== 6. no room: the cluster is released *)
Lemma geo_facts v w : geo_eq v w ->
  v_spc w = v_spc v /\ v_fat32 w = v_fat32 v /\ v_clusters w = v_clusters v /\
  walk_fuel w = walk_fuel v /\
  (forall c, cluster_first_block w c = cluster_first_block v c) /\
  (forall c, cluster_blocks w c = cluster_blocks v c) /\
  (forall d c, fat_get d w 0 c = fat_get d v 0 c) /\
  (forall x, enc w x = enc v x) /\
  (forall c, dir_first_cluster w c = dir_first_cluster v c) /\
  root16_blocks w = root16_blocks v /\
  (forall c, fat_writes w c = fat_writes v c) /\
  (forall fsz j, PrBounds.in_fat w fsz j <-> PrBounds.in_fat v fsz j) /\
  (forall j, PrBounds.in_data w j <-> PrBounds.in_data v j).
Proof.
  intros (a & b & ->).
  repeat match goal with |- _ /\ _ => split end; intros; first [reflexivity|apply iff_refl].
Qed.

Lemma tabs8_alloc vi v fsz prev zero s c s' : alloc_eff vi v fsz prev zero s c s' ->
  tabs8 s s' /\ s_clock s' = s_clock s.
Proof.
  intros Heff. destruct (ae_tables _ _ _ _ _ _ _ _ Heff) as (A1 & A2 & A3 & A4 & A5 & A6 & A7 & A8 & A9).
  unfold tabs8. repeat split; assumption.
Qed.

(* from a state t that differs from s6 by reads only: free_cluster_chain releases c *)
Lemma mkdir_release fsz total vi v hs pcl s c s6 v1 t :
  PrBounds.part_layout v total fsz -> prefix_ok fsz vi v hs pcl s c s6 v1 ->
  s_disk t = s_disk s6 -> alloc_pre t vi v1 fsz -> tabs8 s6 t -> s_vols t = s_vols s6 ->
  PrOrder.tsteps s6 t [] ->
  exists s', free_cluster_chain vi c t = (Ok tt, s') /\ mk_common fsz vi v s s' /\
    fat_wf (s_disk s') v hs /\
    (forall h ch, In h hs -> chain_at (s_disk s) v h ch -> chain_at (s_disk s') v h ch) /\
    (forall j, ~ PrBounds.in_fat v fsz j -> ~ In j (cluster_blocks v c) ->
               disk_get (s_disk s') j = disk_get (s_disk s) j).
Proof.
  intros L PX Hd Hpret Htt Hvt Tt.
  destruct PX as [Evols G Hpre6 Htabs Hclk Hbw6 Hcl W6 Hnew6 Hfresh Hkeep Hframe Hfat Hsteps].
  destruct (mk_range _ _ _ _ _ _ Hcl) as (C1 & C2 & C3).
  pose proof Hpret as (Hstt & FL1 & Hh1).
  destruct (geo_facts v v1 G) as (_ & _ & _ & _ & _ & _ & _ & _ & _ & _ & Gfw & Gfat & _).
  assert (Hcht : chain_at (s_disk t) v1 c [c]) by (rewrite Hd; apply (chain_at_geo _ v v1 c [c] G); exact Hnew6).
  assert (Wt : fat_wf (s_disk t) v1 (c :: hs)) by (rewrite Hd; exact (fat_wf_geo _ v v1 _ G W6)).
  destruct (free_cluster_chain_effect vi v1 fsz t c [] (walk_fuel v1) FL1 Hstt Hcht) as (s' & Erun & Feff).
  destruct (C03_free_chain_wf vi v1 fsz t (c :: hs) c [] Hpret Wt (or_introl eq_refl) Hcht)
    as (s'' & Erun' & W' & Hoth & _ & Hpre').
  rewrite Erun in Erun'. inversion Erun'; subst s''. clear Erun'.
  assert (Erm : remove N.eq_dec c (c :: hs) = hs).
  { cbn [remove]. destruct (N.eq_dec c c) as [_|Hn]; [|contradiction]. apply notin_remove. exact Hfresh. }
  rewrite Erm in W'.
  exists s'. split; [exact Erun|]. split; [|split; [|split]].
  - constructor.
    + exists (free_vol v1 c []). split; [rewrite (fe_vols _ _ _ _ _ _ _ Feff), Hvt, Evols; apply ls_twice|].
      split; [|exact Hpre'].
      apply (geo_eq_trans _ _ _ G). unfold free_vol. cbv zeta. cbn [trunc_vol].
      apply geo_eq_next, geo_eq_free, geo_eq_refl.
    + exact (tabs8_trans _ _ _ Htabs (tabs8_trans _ _ _ Htt (tabs8_tabs _ _ (fe_tabs _ _ _ _ _ _ _ Feff)))).
    + destruct (fe_trace _ _ _ _ _ _ _ Feff) as (new & _ & _ & Hdd). rewrite Hdd.
      apply blocks_wf_apply; [rewrite Hd; exact Hbw6|apply fat_updates_len; rewrite Hd; exact Hbw6].
    + destruct (PrBounds.C04_free_cluster_chain vi v1 total fsz t c [] (walk_fuel v1) s'
                  (PrBounds.part_layout_geom v v1 total fsz G L) FL1 Hstt Hcht Erun) as (Tf & Ff).
      exists ((fat_writes v c ++ cluster_blocks v c) ++ [] ++ (PrBounds.trunc_ws v1 c [] ++ fat_writes v1 c)).
      split; [exact (PrOrder.tsteps_trans _ _ _ _ _ Hsteps (PrOrder.tsteps_trans _ _ _ _ _ Tt Tf))|].
      apply Forall_app. split; [exact (prefix_region fsz total v c L C1 C2)|]. cbn [app].
      eapply Forall_impl; [|exact Ff]. intros i Hi. left. apply Gfat. exact Hi.
  - exact (fat_wf_geo _ v1 v _ (geo_eq_sym _ _ G) W').
  - intros h ch Hh Hch. apply (chain_at_geo _ v v1 h ch G).
    apply (Hoth h ch (or_intror Hh)); [intros ->; contradiction|].
    rewrite Hd. apply (chain_at_geo _ v v1 h ch G). exact (Hkeep h ch Hh Hch).
  - intros j J1 J2. rewrite (fe_frame _ _ _ _ _ _ _ Feff j).
    + rewrite Hd. exact (Hframe j J1 J2).
    + apply (not_fat_not_sector v1 fsz j). intros Hi. apply J1. apply Gfat. exact Hi.
Qed.

(* write_new_directory_entry found no room and wrote nothing: NotEnoughSpace, cluster released *)
Lemma mkdir_fail_release fsz total vi v hs parent sfn pbl s c s6 v1 t :
  PrBounds.part_layout v total fsz ->
  prefix_ok fsz vi v hs (if parent =? CL_ROOT then CL_EMPTY else parent) s c s6 v1 ->
  find nv (slots_of (s_disk s) pbl) = None ->
  write_new_directory_entry vi parent sfn A_DIRECTORY c s6 = (Err NotEnoughSpace, t) ->
  s_disk t = s_disk s6 -> alloc_pre t vi v1 fsz -> tabs8 s6 t -> s_vols t = s_vols s6 ->
  PrOrder.tsteps s6 t [] ->
  exists r s', mkdir_rest vi parent sfn c s6 = (r, s') /\ mk_common fsz vi v s s' /\
               mk_outcome fsz v hs parent sfn pbl s r s'.
Proof.
  intros L PX Hfind Ewn Hd Hpret Htt Hvt Tt.
  destruct (mkdir_release fsz total vi v hs _ s c s6 v1 t L PX Hd Hpret Htt Hvt Tt)
    as (s' & Efree & Hcommon & W' & Hch' & Hfr').
  destruct (mk_range _ _ _ _ _ _ (px_cluster _ _ _ _ _ _ _ _ _ PX)) as (C1 & C2 & C3).
  exists (Err NotEnoughSpace), s'. split.
  { unfold mkdir_rest. rewrite (bind_ok _ _ _ _ _ (try_err _ _ _ _ Ewn)).
    rewrite (bind_ok _ _ _ _ _ Efree). reflexivity. }
  split; [exact Hcommon|].
  exact (mk_full1 fsz v hs parent sfn pbl s s' c C1 C2 C3 Hfind W' Hch' Hfr').
Qed.

(* ================================================================== 7. every slot of the parent is in use *)
Lemma mkdir_noslot fsz total vi v hs parent sfn pbl s c s6 v1 :
  PrBounds.part_layout v total fsz -> clusters_fit v ->
  dir_blocks (s_disk s) v parent = Some pbl ->
  (negb (v_fat32 v) && (parent =? CL_ROOT) = false -> In (dir_first_cluster v parent) hs) ->
  length sfn = 11%nat ->
  prefix_ok fsz vi v hs (if parent =? CL_ROOT then CL_EMPTY else parent) s c s6 v1 ->
  find nv (slots_of (s_disk s) pbl) = None ->
  exists r s', mkdir_rest vi parent sfn c s6 = (r, s') /\ mk_common fsz vi v s s' /\
               mk_outcome fsz v hs parent sfn pbl s r s'.
Proof.
  intros L Hfit Hbl Hhead Hname PX Hfind.
  destruct (prefix_parent fsz total vi v hs _ parent pbl s c s6 v1 L Hbl Hhead PX) as (Hf & Hsame & Hslots & Hbl6).
  pose proof PX as [Evols G Hpre6 Htabs Hclk Hbw6 Hcl W6 Hnew6 Hfresh Hkeep Hframe Hfat Hsteps].
  pose proof Hpre6 as ((Hnf6 & Hc6 & Hvi6 & _) & FL1 & Hh1). pose proof (fl_vol v1 fsz FL1) as Hvok1.
  assert (FL : fat_layout v fsz) by exact (geo_layout v1 v fsz (geo_eq_sym _ _ G) FL1).
  destruct (mk_range _ _ _ _ _ _ Hcl) as (C1 & C2 & C3).
  destruct (geo_facts v v1 G) as (Gspc & G32 & Gcl & Gwf & Gcfb & Gcb & Gfg & Genc & Gdfc & Groot & Gfw & Gfat & Gdata).
  assert (Hstop6 : stop_at N free_in (s_disk s6) pbl = None) by (rewrite stop_at_free, Hslots, Hfind; reflexivity).
  set (body := create_body (v_fat32 v1) sfn A_DIRECTORY c).
  set (post := create_post (v_fat32 v1) sfn A_DIRECTORY c).
  pose proof (create_body_none (v_fat32 v1) sfn A_DIRECTORY c) as Bn. fold body in Bn.
  assert (Bs : forall blk t x, no_faults t -> cache_ok t -> free_in (s_disk t) blk = Some x ->
                 exists r t', body blk t = (Ok (Some r), t') /\ post blk x t r t')
    by (intros blk0 t0 x; exact (create_body_some (v_fat32 v1) sfn A_DIRECTORY c blk0 t0 x)).
  unfold dir_blocks in Hbl. destruct (negb (v_fat32 v) && (parent =? CL_ROOT)) eqn:Eroot.
  - (* the fixed root directory of a FAT16 volume is full *)
    apply andb_true_iff in Eroot. destruct Eroot as [H16 Hdc]. apply negb_true_iff in H16.
    apply N.eqb_eq in Hdc. subst parent. inversion Hbl; subst pbl. clear Hbl.
    assert (H16' : v_fat32 v1 = false) by (rewrite G32; exact H16).
    pose proof (walk_dir_root16_stop dirent N free_in body post Bn Bs vi v1 true Hvok1 H16'
                  (N.to_nat (v_clusters v1) + 3) s6 Hvi6 Hnf6 Hc6) as Hw.
    rewrite Groot, Hstop6 in Hw. destruct Hw as (s7 & Ewalk & Hrd7).
    assert (Ewn : write_new_directory_entry vi CL_ROOT sfn A_DIRECTORY c s6 = (Err NotEnoughSpace, s7)).
    { rewrite write_new_is. rewrite (bind_ok _ _ _ _ _ (get_vol_some vi v1 s6 Hvi6)).
      fold body. unfold dir_first_cluster, walk_fuel. rewrite H16'. cbn [andb].
      replace (N.to_nat (v_clusters v1) + 4)%nat with (S (N.to_nat (v_clusters v1) + 3)) by lia.
      rewrite (bind_ok _ _ _ _ _ Ewalk). reflexivity. }
    pose proof Hrd7 as ((Hd7 & Hc7 & Hnf7 & Hm7) & _).
    apply (mkdir_fail_release fsz total vi v hs CL_ROOT sfn (root16_blocks v) s c s6 v1 s7 L PX Hfind Ewn Hd7).
    + exact (alloc_pre_ro vi v1 fsz s6 s7 Hpre6 (proj1 Hrd7)).
    + exact (tabs8_rd _ _ Hrd7).
    + exact (proj1 Hm7).
    + exact (rd_tsteps _ _ Hrd7).
  - (* the parent is a cluster chain: it has to grow *)
    destruct (chain_of (s_disk s) v (dir_first_cluster v parent) (walk_fuel v)) as [pch|] eqn:Hch; [|discriminate].
    inversion Hbl; subst pbl. clear Hbl.
    set (pc := dir_first_cluster v parent) in *.
    assert (Hpc : In pc hs) by exact (Hhead eq_refl).
    assert (Hch6 : chain_at (s_disk s6) v pc pch) by exact (Hkeep pc pch Hpc Hch).
    assert (Hch61 : chain_of (s_disk s6) v1 pc (walk_fuel v1) = Some pch)
      by (apply (chain_at_geo _ v v1 pc pch G); exact Hch6).
    assert (Hstop61 : stop_at N free_in (s_disk s6) (flat_map (cluster_blocks v1) pch) = None).
    { replace (flat_map (cluster_blocks v1) pch) with (flat_map (cluster_blocks v) pch); [exact Hstop6|].
      apply flat_map_ext. intros x. symmetry. apply Gcb. }
    destruct (walk_dir_chain_grow dirent N free_in body post Bn Bs vi v1 Hvok1 (walk_fuel v1) pc s6 pch
                Hvi6 Hnf6 Hc6 Hch61 Hstop61) as (s7 & Hrd7 & Ewalk).
    pose proof Hrd7 as ((Hd7 & Hc7 & Hnf7 & Hm7) & _).
    pose proof (alloc_pre_ro vi v1 fsz s6 s7 Hpre6 (proj1 Hrd7)) as Hpre7.
    (* the last cluster p of the parent's chain *)
    destruct (chain_of_head _ _ _ _ _ Hch) as (_ & _ & l' & El).
    assert (Hne : pch <> []) by (rewrite El; discriminate).
    destruct (exists_last Hne) as (pre & p & Esplit).
    assert (Elast : last pch pc = p) by (rewrite Esplit; apply last_last).
    rewrite Elast in Ewalk.
    assert (Hpin : In p pch) by (rewrite Esplit; apply in_or_app; right; left; reflexivity).
    pose proof (chain_of_range _ _ _ _ _ Hch) as Rg. rewrite Forall_forall in Rg. destruct (Rg p Hpin) as (P1 & P2).
    assert (Hprev : forall q, Some p = Some q -> q < v_clusters v1 + 2)
      by (intros q E; inversion E; subst q; rewrite Gcl; exact P2).
    destruct (alloc_cluster_total vi v1 fsz (Some p) true s7 Hpre7 Hprev)
      as (o & s8 & Hal & [(-> & Hnone & Hd8 & Hm8 & T8 & Hst8)|(c' & -> & Heff)]).
    + (* no free cluster is left *)
      assert (Ewn : write_new_directory_entry vi parent sfn A_DIRECTORY c s6 = (Err NotEnoughSpace, s8)).
      { rewrite write_new_is. rewrite (bind_ok _ _ _ _ _ (get_vol_some vi v1 s6 Hvi6)).
        rewrite Gdfc. fold pc body.
        assert (E : walk_dir (walk_fuel v1) vi pc true body s6 = (Err NotEnoughSpace, s8))
          by (rewrite Ewalk; exact (bind_err _ _ _ _ _ Hal)).
        exact (bind_err _ _ _ _ _ E). }
      apply (mkdir_fail_release fsz total vi v hs parent sfn _ s c s6 v1 s8 L PX Hfind Ewn).
      * rewrite Hd8. exact Hd7.
      * split; [exact Hst8|split; assumption].
      * exact (tabs8_trans _ _ _ (tabs8_rd _ _ Hrd7) (tabs8_mgr _ _ Hm8)).
      * rewrite (proj1 Hm8). exact (proj1 Hm7).
      * exact (PrOrder.tsteps_trans _ _ _ [] [] (rd_tsteps _ _ Hrd7) (tr_ext_tsteps _ _ _ T8)).
    + (* the parent grows by the zeroed cluster c' *)
      destruct (ae_range _ _ _ _ _ _ _ _ Heff) as (R1 & R2 & R3). rewrite Gcl in R2. rewrite Gfg in R3.
      assert (Hpnz : fat_get (s_disk s7) v 0 p <> 0).
      { rewrite Hd7. destruct (chain_at_mem _ _ _ _ p Hch6 Hpin) as (_ & _ & Z & _). exact Z. }
      assert (Hpc' : p <> c') by (intros ->; apply Hpnz; exact R3).
      assert (Hcc' : c' <> c).
      { intros ->. destruct (chain_at_mem _ _ _ _ c Hnew6 (or_introl eq_refl)) as (_ & _ & Z & _).
        apply Z. rewrite <- Hd7. exact R3. }
      assert (R3s : fat_get (s_disk s) v 0 c' = 0) by (rewrite <- (Hfat c' R2 Hcc'), <- Hd7; exact R3).
      assert (W7 : fat_wf (s_disk s7) v1 (c :: hs)) by (rewrite Hd7; exact (fat_wf_geo _ v v1 _ G W6)).
      assert (Hch7 : chain_at (s_disk s7) v1 pc (pre ++ [p]))
        by (rewrite <- Esplit, Hd7; apply (chain_at_geo _ v v1 pc pch G); exact Hch6).
      destruct (C03_alloc_extends_wf vi v1 fsz true s7 (c :: hs) pc pre p c' s8 Hpre7 (link_ok_geo v v1 G Hfit) W7
                  (or_intror Hpc) Hch7 Hal) as (W8 & Hch8 & Hoth8 & _ & _).
      destruct (alloc_vol_explicit vi v1 fsz (Some p) true s7 c' s8 Hpre7 Heff) as (v2 & Evols8 & G12 & Hpre8).
      pose proof (geo_eq_trans _ _ _ G G12) as G2.
      destruct (geo_facts v v2 G2) as (Gspc2 & G322 & Gcl2 & Gwf2 & Gcfb2 & Gcb2 & Gfg2 & Genc2 & _ & _ & _ & Gfat2 & _).
      pose proof Hpre8 as ((Hnf8 & Hc8 & Hvi8 & _) & FL2 & Hh2). pose proof (fl_vol v2 fsz FL2) as Hvok2.
      pose proof (chain_length _ _ _ _ _ Hch) as Hlen.
      assert (Hk : exists k', (walk_fuel v1 - length pch)%nat = S k').
      { exists (walk_fuel v1 - length pch - 1)%nat. rewrite Gwf. unfold walk_fuel. lia. }
      destruct Hk as (k' & Ek). rewrite Ek in Ewalk.
      (* the walk over the new cluster stops at its first slot *)
      pose proof (PrBounds.pl_spc v total fsz L) as Hspc.
      set (nb := cluster_first_block v c').
      assert (Hz8 : forall k, k < v_spc v -> disk_get (s_disk s8) (nb + k) = zero_block).
      { intros k Hk. unfold nb. rewrite <- Gcfb. apply (ae_zero _ _ _ _ _ _ _ _ Heff eq_refl). rewrite Gspc. exact Hk. }
      assert (Hnb8 : disk_get (s_disk s8) nb = zero_block) by (rewrite <- (N.add_0_r nb); apply Hz8; lia).
      assert (Hnew8 : fat_get (s_disk s8) v1 0 c' = enc v1 CL_EOF)
        by (apply (ae_new _ _ _ _ _ _ _ _ Heff); congruence).
      assert (Hcs2 : chain_of (s_disk s8) v2 c' (S k') = Some [c']).
      { rewrite (chain_of_geo _ v1 v2 G12). apply (PrWrite.chain_single _ _ _ k'); [exact R1|rewrite Gcl; exact R2|].
        rewrite fat_entry_get. exact Hnew8. }
      assert (Est : stop_at N free_in (s_disk s8) (flat_map (cluster_blocks v2) [c']) = Some (nb, 0)).
      { cbn [flat_map]. rewrite app_nil_r, Gcb2, (PrBounds.cluster_blocks_cons v c' Hspc). fold nb.
        unfold stop_at. cbn [first_some]. unfold free_in at 1. rewrite Hnb8.
        replace (free_slot 16 zero_block 0) with (Some 0) by (vm_compute; reflexivity). reflexivity. }
      pose proof (walk_dir_chain_stop dirent N free_in body post Bn Bs vi v2 true Hvok2 (S k') c' s8 [c']
                    Hvi8 Hnf8 Hc8 Hcs2) as Hw.
      rewrite Est in Hw. destruct Hw as (s0 & r & s' & Erun & Hrd0 & HQ).
      pose proof Hrd0 as ((Hd0 & Hc0 & Hnf0 & Hm0) & _).
      unfold post, create_post in HQ. cbv zeta in HQ.
      destruct HQ as (Er & Hd' & Hc' & Hnf' & Hclk' & Htab' & l & Htr & Hl).
      destruct (tabs8_alloc _ _ _ _ _ _ _ _ Heff) as (Htab78 & Eclk78).
      assert (Eclk0 : s_clock s0 = s_clock s + 1).
      { destruct Hm0 as (_ & _ & _ & _ & E0 & _). destruct Hm7 as (_ & _ & _ & _ & E7 & _). congruence. }
      set (tm := clock_ts (s_clock s + 1)).
      set (newb := set_bytes zero_block 0 (ser_bytes (v_fat32 v) (mk_dirent sfn tm tm A_DIRECTORY c 0 nb 0))).
      assert (Hd0' : s_disk s' = disk_set (s_disk s0) nb newb).
      { rewrite Hd'. unfold put_entry. cbn [e_offset]. change (0 * 32) with 0.
        rewrite Hd0 at 2. rewrite Hnb8, Eclk0, G32. reflexivity. }
      assert (Ewn : write_new_directory_entry vi parent sfn A_DIRECTORY c s6 = (Ok r, s')).
      { rewrite write_new_is. rewrite (bind_ok _ _ _ _ _ (get_vol_some vi v1 s6 Hvi6)). rewrite Gdfc. fold pc body.
        assert (E : walk_dir (walk_fuel v1) vi pc true body s6 = (Ok (Some r), s'))
          by (rewrite Ewalk, (bind_ok _ _ _ _ _ Hal); exact Erun).
        rewrite (bind_ok _ _ _ _ _ E). reflexivity. }
      exists (Ok tt), s'. split.
      { unfold mkdir_rest. rewrite (bind_ok _ _ _ _ _ (try_ok _ _ _ _ Ewn)). reflexivity. }
      (* the blocks of the new cluster *)
      pose proof (PrBounds.C04_cluster_block_in_data v c' R1 R2) as Fd'. rewrite Forall_forall in Fd'.
      assert (Hnbin : In nb (cluster_blocks v c'))
        by (rewrite (PrBounds.cluster_blocks_cons v c' Hspc); left; reflexivity).
      assert (Hnotfat : forall j, PrBounds.in_data v j -> ~ PrBounds.in_fat v fsz j).
      { intros j Hj Hfj. destruct (PrBounds.C04_regions_disjoint v total fsz j L) as (_ & Dfat & _).
        destruct (Dfat Hfj) as (_ & N2 & _). contradiction. }
      pose proof (Hnotfat nb (Fd' nb Hnbin)) as Nfat.
      assert (Hbw8 : blocks_wf (s_disk s8))
        by (apply (alloc_blocks_wf _ _ _ _ _ _ _ _ ltac:(rewrite Hd7; exact Hbw6) Heff)).
      assert (Hbw0 : blocks_wf (s_disk s0)) by (rewrite Hd0; exact Hbw8).
      assert (Hnewb : length newb = 512%nat).
      { unfold newb. rewrite set_bytes_length; [apply repeat_length|].
        rewrite ser_bytes_length by exact Hname. change (length zero_block) with 512%nat. cbn. lia. }
      destruct (entry_written fsz vi v v2 s0 s' nb newb (alloc_pre_ro vi v2 fsz s8 s0 Hpre8 (proj1 Hrd0)) G2 Hbw0
                  Hd0' Hnewb Nfat Hc' Hnf' Htab' (ex_intro _ _ (ex_intro _ l (conj Htr Hl))))
        as (Hpre' & Hbw' & Htabs' & Hvols' & Hst' & Hfs').
      assert (Hfs8' : fat_same v fsz (s_disk s8) (s_disk s')) by (rewrite <- Hd0; exact Hfs').
      assert (Hoth' : forall j, j <> nb -> disk_get (s_disk s') j = disk_get (s_disk s8) j).
      { intros j Hj. rewrite Hd0', Hd0. apply disk_get_set_other. congruence. }
      (* blocks outside the FAT copies and outside c' are as after the prefix *)
      assert (Hfr68 : forall j, ~ PrBounds.in_fat v fsz j -> ~ In j (cluster_blocks v c') ->
                disk_get (s_disk s') j = disk_get (s_disk s6) j).
      { intros j J1 J2. rewrite Hoth' by (intros ->; contradiction). rewrite <- Hd7.
        apply (alloc_frame_blocks vi v1 fsz (Some p) true s7 c' s8 Hpre7 Hprev Heff j).
        - intros Hi. apply J1. apply Gfat. exact Hi.
        - intros _. rewrite Gcb. exact J2. }
      assert (Hcblocks : forall j, In j (cluster_blocks v c) -> disk_get (s_disk s') j = disk_get (s_disk s6) j).
      { intros j Hj.
        pose proof (PrBounds.C04_cluster_block_in_data v c C1 C2) as Fd. rewrite Forall_forall in Fd.
        apply Hfr68; [exact (Hnotfat j (Fd j Hj))|].
        intros Hj'. exact (cluster_blocks_apart v c c' j j (fun E => Hcc' (eq_sym E)) C1 R1 Hj Hj' eq_refl). }
      assert (To' : forall h ch, chain_at (s_disk s8) v1 h ch -> chain_at (s_disk s') v h ch).
      { intros h ch H. apply (fat_same_chain v fsz _ _ _ _ FL Hfs8'). apply (chain_at_geo _ v v1 h ch G). exact H. }
      assert (Hcpc : c <> pc) by (intros E; apply Hfresh; rewrite E; exact Hpc).
      split.
      * constructor.
        -- exists v2. split; [|split; [exact G2|exact Hpre']].
           rewrite Hvols', (proj1 Hm0), Evols8, (proj1 Hm7), Evols. apply ls_twice.
        -- exact (tabs8_trans _ _ _ Htabs (tabs8_trans _ _ _ (tabs8_rd _ _ Hrd7)
                    (tabs8_trans _ _ _ Htab78 (tabs8_trans _ _ _ (tabs8_rd _ _ Hrd0) Htabs')))).
        -- exact Hbw'.
        -- pose proof (tr_ext_tsteps _ _ _ (ae_trace _ _ _ _ _ _ _ _ Heff)) as T78. rewrite dwrites_alloc in T78.
           exists ((fat_writes v c ++ cluster_blocks v c) ++ [] ++
                   (fat_writes v1 c' ++ cluster_blocks v1 c' ++ fat_writes v1 p) ++ [] ++ [nb]).
           split.
           { exact (PrOrder.tsteps_trans _ _ _ _ _ Hsteps
                      (PrOrder.tsteps_trans _ _ _ _ _ (rd_tsteps _ _ Hrd7)
                         (PrOrder.tsteps_trans _ _ _ _ _ T78
                            (PrOrder.tsteps_trans _ _ _ _ _ (rd_tsteps _ _ Hrd0) Hst')))). }
           apply Forall_app. split; [exact (prefix_region fsz total v c L C1 C2)|]. cbn [app].
           apply Forall_app. split.
           { pose proof (PrBounds.alloc_ws_classified v1 total fsz (Some p) true c'
                           (PrBounds.part_layout_geom v v1 total fsz G L) R1 ltac:(rewrite Gcl; exact R2) Hprev) as Fa.
             unfold PrBounds.alloc_ws in Fa. eapply Forall_impl; [|exact Fa].
             intros i [Hi|Hi]; [left; apply Gfat; exact Hi|right; left; apply Gdata; exact Hi]. }
           apply Forall_cons; [right; left; exact (Fd' nb Hnbin)|constructor].
      * apply (mk_grown fsz v hs parent sfn _ s s' c c' (clock_ts (s_clock s)) tm pc pch).
        -- constructor.
           ++ repeat split; assumption.
           ++ rewrite Hcblocks; [exact (mk_dots _ _ _ _ _ _ Hcl)|].
              rewrite (PrBounds.cluster_blocks_cons v c Hspc). left. reflexivity.
           ++ intros k K1 K2. rewrite Hcblocks; [exact (mk_zero _ _ _ _ _ _ Hcl k K1 K2)|].
              apply in_cluster_blocks_iff. unfold in_cluster. lia.
        -- exact Hfind.
        -- exact Eroot.
        -- reflexivity.
        -- exact Hch.
        -- reflexivity.
        -- exact R1.
        -- exact R2.
        -- exact R3s.
        -- exact Hcc'.
        -- rewrite Hd0'. apply disk_get_set_same.
        -- intros k K1 K2. rewrite Hoth' by lia. apply Hz8. exact K2.
        -- apply (fat_same_wf v fsz _ _ _ FL Hfs8'). exact (fat_wf_geo _ v1 v _ (geo_eq_sym _ _ G) W8).
        -- apply To'. apply (Hoth8 c [c] (or_introl eq_refl) Hcpc).
           rewrite Hd7. apply (chain_at_geo _ v v1 c [c] G). exact Hnew6.
        -- rewrite Esplit, <- app_assoc. cbn [app]. apply To'. exact Hch8.
        -- intros h ch Hh Hnpc Hchh. apply To'. apply (Hoth8 h ch (or_intror Hh) Hnpc).
           rewrite Hd7. apply (chain_at_geo _ v v1 h ch G). exact (Hkeep h ch Hh Hchh).
        -- intros j J1 J2 J3. rewrite (Hfr68 j J1 J3). exact (Hframe j J1 J2).
Qed.

(* ================================================================== 8. make_dir, every outcome *)
Theorem make_dir_run fsz total vi v hs parent sfn pbl s :
  alloc_pre s vi v fsz -> PrBounds.part_layout v total fsz -> clusters_fit v -> blocks_wf (s_disk s) ->
  fat_wf (s_disk s) v hs ->
  dir_blocks (s_disk s) v parent = Some pbl ->
  (negb (v_fat32 v) && (parent =? CL_ROOT) = false -> In (dir_first_cluster v parent) hs) ->
  length sfn = 11%nat ->
  exists r s', make_dir vi parent sfn A_DIRECTORY s = (r, s') /\
               mk_common fsz vi v s s' /\ mk_outcome fsz v hs parent sfn pbl s r s'.
Proof.
  intros Hpre L Hfit Hbw W Hbl Hhead Hname.
  assert (Hprev0 : forall p, @None N = Some p -> p < v_clusters v + 2) by (intros p Ep; discriminate Ep).
  destruct (alloc_cluster_total vi v fsz None false s Hpre Hprev0)
    as (o & s1 & Hal & [(-> & Hnone & Hd1 & Hm1 & T1 & Hst1)|(c & -> & Heff)]).
  - (* no free cluster *)
    exists (Err NotEnoughSpace), s1. split; [unfold make_dir; exact (bind_err _ _ _ _ _ Hal)|].
    pose proof Hpre as ((_ & _ & Hvi & _) & FL & Hh).
    split; [|exact (mk_full0 fsz v hs parent sfn pbl s s1 Hd1)].
    constructor.
    + exists v. split; [rewrite (proj1 Hm1); symmetry; exact (ls_same _ _ _ Hvi)|].
      split; [apply geo_eq_refl|]. split; [exact Hst1|split; assumption].
    + exact (tabs8_mgr _ _ Hm1).
    + rewrite Hd1. exact Hbw.
    + exists []. split; [exact (tr_ext_tsteps _ _ _ T1)|constructor].
  - destruct (mkdir_prefix fsz total vi v hs parent sfn s c s1 Hpre L Hbw W Hal) as (s6 & v1 & Erun & PX).
    rewrite Erun.
    destruct (find nv (slots_of (s_disk s) pbl)) as [[[blk off] sl0]|] eqn:Hfind.
    + destruct (mkdir_slot fsz total vi v hs parent sfn pbl s c s6 v1 blk off sl0 L Hbl Hhead Hname PX Hfind)
        as (s' & E & Hc & Ho).
      exists (Ok tt), s'. split; [exact E|]. split; assumption.
    + exact (mkdir_noslot fsz total vi v hs parent sfn pbl s c s6 v1 L Hfit Hbl Hhead Hname PX Hfind).
Qed.

(* the hypotheses are satisfiable: PrBounds' FAT16 volume on a blank device, a directory made in the
   (fixed) root directory *)
Example make_dir_run_hyps :
  let v := PrFat.ex_vol16 in let s := PrFat.ex_state v in
  alloc_pre s 0 v 256 /\ PrBounds.part_layout v 250000 256 /\ clusters_fit v /\ blocks_wf (s_disk s) /\
  fat_wf (s_disk s) v [] /\ dir_blocks (s_disk s) v CL_ROOT = Some (root16_blocks v) /\
  (negb (v_fat32 v) && (CL_ROOT =? CL_ROOT) = false -> In (dir_first_cluster v CL_ROOT) []) /\
  length PrBounds.ex_name = 11%nat.
Proof.
  cbv zeta. split; [exact (proj1 PrBounds.ex_pre16)|]. split; [exact PrBounds.ex_layout16|].
  split; [vm_compute; discriminate|].
  split; [intros i; unfold disk_get; cbn [s_disk PrFat.ex_state]; rewrite PositiveMap.gempty; apply repeat_length|].
  split; [apply fat_wf_b_spec; vm_compute; reflexivity|].
  split; [exact (proj2 PrBounds.ex_pre16)|]. split; [intros E; discriminate E|reflexivity].
Qed.

Print Assumptions make_dir_run.
