(* PROOFS / SPEC: groundwork for C09 over whole histories: a file that is NOT the target of the
   running operation is found on every crashed medium of that operation at the same path, with
   the same directory entry (size, first cluster, times) and the same data.
   1  node_at (path lookup in the tree), file_on_medium, uniqueness of the tree of a medium
   2  op_targets (the side condition), the obligation step_keeps_flushed, the assembly
      flushed_history, step_keeps_flushed for the operations that write nothing
   3  frame lemmas for the per-operation proofs: data (file_bytes_ext), paths through an
      updated tree (node_at_map and its instances for forest_replace, forest_upd_kids with
      ins_at / del_at, forest_set_chain, chain_upd), crashed media of alloc_cluster / truncate /
      free chain on OTHER chains (PrCrash.C10_*_prefix_chains, C09_frame in crash_disks form) *)
From Coq Require Import NArith ZArith List Bool Lia Arith ZifyClasses ZifyInst Zify FMapPositive Permutation.
From SdFs Require Import FsTypes FsBase FsFat FsMgr FsLemmas PrBase PrFat PrAlloc PrDir PrSeek PrAllocEffect
  PrRw PrWrite PrFileSeq PrMulti PrEntry PrChain PrCount PrWf PrOpenClose PrGlobalDef PrGlobalWrite.
From SdFs Require PrModes PrHandles PrCrash PrBounds PrOrder PrGlobalOpen.
From SdFs Require Import PrCrashDef PrCrashDef2 PrCrashDef3.
Import ListNotations.
Open Scope N_scope.
Local Arguments N.mul : simpl never.
Local Arguments N.add : simpl never.
Local Arguments N.sub : simpl never.
Local Arguments N.div : simpl never.
Local Arguments N.modulo : simpl never.
Local Ltac Zify.zify_post_hook ::= Z.to_euclidean_division_equations.

(* ================================================================== 1. a file on a medium *)
(* n is reached from the forest T by the 11-byte names `path` (directories, then the node) *)
Inductive node_at : list node -> list (list N) -> node -> Prop :=
  | na_here T n : In n T -> node_at T [e_name (node_entry n)] n
  | na_down T m path n : In m T -> node_is_dir m = true -> node_at (node_kids m) path n ->
      node_at T (e_name (node_entry m) :: path) n.

(* the medium d, read with the geometry of v, is crash-sound and shows at `path` a file with
   directory entry e whose contents (the first e_size bytes of its chain) are `bytes` *)
Definition file_on_medium (d : disk) (v : vol) (path : list (list N)) (e : dirent) (bytes : list N) : Prop :=
  exists bl rch T lost ch, crash_inv_at d v bl rch T lost /\ node_at T path (NFile e ch) /\
    bytes = firstn (N.to_nat (e_size e)) (file_bytes d v ch).

(* the root directory and the tree of a medium are unique *)
Lemma root_dir_det d v bl rch bl' rch' : root_dir d v bl rch -> root_dir d v bl' rch' -> bl = bl' /\ rch = rch'.
Proof.
  unfold root_dir. destruct (v_fat32 v).
  - intros (A & ->) (B & ->). rewrite (chain_at_det _ _ _ _ _ A B). split; reflexivity.
  - intros (-> & ->) (-> & ->). split; reflexivity.
Qed.

Lemma crash_inv_at_det d v bl rch T lost bl' rch' T' lost' :
  crash_inv_at d v bl rch T lost -> crash_inv_at d v bl' rch' T' lost' -> bl = bl' /\ rch = rch' /\ T = T'.
Proof.
  intros [A B _ _ _ _] [A' B' _ _ _ _]. destruct (root_dir_det _ _ _ _ _ _ A A') as (<- & <-).
  split; [reflexivity|]. split; [reflexivity|exact (tree_rep_det d v bl T T' B B')].
Qed.

(* with the tree in hand *)
Lemma file_on_medium_tree d v bl rch T lost path e bytes : crash_inv_at d v bl rch T lost ->
  (file_on_medium d v path e bytes <->
   exists ch, node_at T path (NFile e ch) /\ bytes = firstn (N.to_nat (e_size e)) (file_bytes d v ch)).
Proof.
  intros H. split.
  - intros (bl' & rch' & T' & lost' & ch & H' & Hn & Hb).
    destruct (crash_inv_at_det _ _ _ _ _ _ _ _ _ _ H H') as (_ & _ & ->). exists ch. split; assumption.
  - intros (ch & Hn & Hb). exists bl, rch, T, lost, ch. split; [exact H|split; assumption].
Qed.

Lemma node_at_in : forall T path n, node_at T path n -> In n (all_nodes T).
Proof.
  induction 1 as [T n Hn|T m path n Hm Hd _ IH]; [exact (all_nodes_top T n Hn)|].
  apply (all_nodes_trans T m n (all_nodes_top T m Hm)).
  destruct m as [e ch|e ch kids]; [discriminate Hd|]. cbn [node_kids] in IH.
  unfold all_nodes in IH. apply in_flat_map in IH. destruct IH as (k & Hk & Hin).
  exact (flatten_kid e ch kids k n Hk Hin).
Qed.

(* ================================================================== 2. the obligation *)
(* the handle h names an open file whose directory slot is the slot of e *)
Definition handle_targets (s : st) (h : N) (e : dirent) : Prop :=
  exists f, In f (s_files s) /\ f_id f = h /\
    e_block (f_entry f) = e_block e /\ e_offset (f_entry f) = e_offset e.

(* the directory handle dh and the name resolve to the slot of e: dh is a handle of the volume,
   the 8.3 form of the name is e's name, and e's slot lies in a block of that directory *)
Definition name_targets (s : st) (v : vol) (dh : N) (name : list N) (e : dirent) : Prop :=
  exists dd sfn bl', In dd (s_dirs s) /\ d_id dd = dh /\ d_vol dd = v_id v /\
    sfn_of_str name = Some sfn /\ e_name e = sfn /\
    dir_blocks (s_disk s) v (d_cluster dd) = Some bl' /\ In (e_block e) bl'.

Definition truncating (md : mode) : bool :=
  match md with ReadWriteTruncate | ReadWriteCreateOrTruncate => true | _ => false end.

(* "the file itself is modified, truncated or deleted": o is a Write / Flush / Close on a handle
   of that very file, a truncating open of it, or its deletion (an Iter callback is refused under
   the lock whatever it is; the other operations never touch a file) *)
Definition op_targets (s : st) (v : vol) (o : op) (e : dirent) : Prop :=
  match o with
  | Write h _ | IoWrite h _ | Flush h | CloseFile h => handle_targets s h e
  | OpenFile dh name md => truncating md = true /\ name_targets s v dh name e
  | Delete dh name => name_targets s v dh name e
  | _ => False
  end.

Definition step_keeps_flushed (fsz vid : N) (o : op) : Prop :=
  forall s r s', fs_inv fsz vid s -> id_fresh s -> op_known_ok o -> step o s = (r, s') ->
    forall v path e bytes, s_vols s = [v] -> file_on_medium (s_disk s) v path e bytes ->
      ~ op_targets s v o e ->
      forall d', crash_disks s s' d' -> file_on_medium d' v path e bytes.

Lemma file_on_medium_geo d v w path e bytes : geo_eq v w -> file_on_medium d v path e bytes -> file_on_medium d w path e bytes.
Proof.
  intros G (bl & rch & T & lost & ch & H & Hn & Hb). exists bl, rch, T, lost, ch.
  split; [exact (crash_inv_at_geo d v w _ _ _ _ G H)|]. split; [exact Hn|].
  rewrite Hb. f_equal. unfold file_bytes, cluster_bytes. destruct G as (a & b & ->). reflexivity.
Qed.

Lemma op_targets_geo s v w o e : geo_eq v w -> op_targets s w o e -> op_targets s v o e.
Proof.
  intros (a & b & ->) H.
  assert (G : forall dc, dir_blocks (s_disk s) (set_v_free (set_v_next_free v a) b) dc = dir_blocks (s_disk s) v dc)
    by (intros dc; apply PrBounds.dir_blocks_geom; exists a, b; reflexivity).
  destruct o; try exact H.
  - destruct H as (Ht & dd & sfn & bl' & A1 & A2 & A3 & A4 & A5 & A6 & A7). split; [exact Ht|].
    exists dd, sfn, bl'. rewrite G in A6. repeat (split; [assumption|]). exact A7.
  - destruct H as (dd & sfn & bl' & A1 & A2 & A3 & A4 & A5 & A6 & A7).
    exists dd, sfn, bl'. rewrite G in A6. repeat (split; [assumption|]). exact A7.
Qed.

(* every history in which no call targets the file: the file is on the medium between any two
   calls and on every crashed medium of every call, at the same path, with the same entry and
   the same contents (volume record of the start of the history) *)
Theorem flushed_history fsz vid : (forall o, step_ok fsz vid o) -> (forall o, step_keeps_flushed fsz vid o) ->
  forall ops1 o ops2 s age v path e bytes, fs_inv fsz vid s -> PrHandles.handles_ok age s ->
    age + N.of_nat (length (ops1 ++ o :: ops2)) < U32 - 1 -> Forall op_known_ok (ops1 ++ o :: ops2) ->
    s_vols s = [v] -> file_on_medium (s_disk s) v path e bytes ->
    (forall pre o' post, ops1 ++ [o] = pre ++ o' :: post -> ~ op_targets (snd (run_ops pre s)) v o' e) ->
    let s1 := snd (run_ops ops1 s) in
    file_on_medium (s_disk s1) v path e bytes /\
    forall d', crash_disks s1 (snd (step o s1)) d' -> file_on_medium d' v path e bytes.
Proof.
  intros Hok Hk. induction ops1 as [|o1 rest IH]; intros o ops2 s age v path e bytes Hinv Hh Hage Hops Ev Hf Hnt s1.
  - subst s1. cbn [run_ops snd]. split; [exact Hf|].
    intros d' Hd. destruct (step o s) as [r s2] eqn:Es. cbn [snd] in Hd.
    cbn [app] in Hops, Hage. inversion Hops as [|? ? Ho _]; subst.
    assert (Ha1 : age < U32) by (cbn [length] in Hage; unfold U32 in *; lia).
    apply (Hk o s r s2 Hinv (handles_ok_fresh age s Ha1 Hh) Ho Es v path e bytes Ev Hf); [|exact Hd].
    exact (Hnt [] o [] eq_refl).
  - subst s1. cbn [run_ops app] in *. destruct (step o1 s) as [r1 sa] eqn:Es.
    inversion Hops as [|? ? Ho1 Hrest]; subst. cbn [length] in Hage.
    assert (Ha1 : age < U32) by (unfold U32 in *; lia).
    assert (Ha2 : age < U32 - 1) by (unfold U32 in *; lia).
    assert (Ha3 : age + 1 + N.of_nat (length (rest ++ o :: ops2)) < U32 - 1).
    { rewrite Nat2N.inj_succ in Hage. unfold U32 in *. lia. }
    pose proof (handles_ok_fresh age s Ha1 Hh) as Hfresh.
    destruct (Hok o1 s r1 sa Hinv Hfresh Ho1 Es) as (_ & _ & Hinv1 & Hgeo1 & _).
    pose proof (PrHandles.C08_handles_ok_step age o1 s Ha2 (no_remount_ok o1 (proj1 (proj1 Ho1))) Hh) as Hh1.
    rewrite Es in Hh1. cbn [snd] in Hh1.
    destruct Hgeo1 as (v0 & va & Ev0 & Eva & G). rewrite Ev in Ev0. injection Ev0 as <-.
    pose proof (geo_eq_sym _ _ G) as G'.
    assert (Hf1 : file_on_medium (s_disk sa) v path e bytes).
    { apply (Hk o1 s r1 sa Hinv Hfresh Ho1 Es v path e bytes Ev Hf).
      - exact (Hnt [] o1 (rest ++ [o]) eq_refl).
      - exact (crash_disks_final o1 s r1 sa Es). }
    specialize (IH o ops2 sa (age + 1) va path e bytes Hinv1 Hh1 Ha3 Hrest Eva (file_on_medium_geo _ v va _ _ _ G Hf1)).
    assert (Hnt1 : forall pre o' post, rest ++ [o] = pre ++ o' :: post -> ~ op_targets (snd (run_ops pre sa)) va o' e).
    { intros pre o' post E Ht. apply (Hnt (o1 :: pre) o' post); [cbn [app]; rewrite E; reflexivity|].
      cbn [run_ops]. rewrite Es. destruct (run_ops pre sa) as [rs sb]. cbn [snd] in *.
      exact (op_targets_geo sb v va o' e G Ht). }
    specialize (IH Hnt1). destruct (run_ops rest sa) as [rs sb]. cbn [snd] in *. destruct IH as (I1 & I2).
    split; [exact (file_on_medium_geo _ va v _ _ _ G' I1)|].
    intros d' Hd. exact (file_on_medium_geo _ va v _ _ _ G' (I2 d' Hd)).
Qed.

(* ---- the operations that write nothing ---- *)
Lemma step_keeps_nowrite fsz vid o :
  (forall s r s', fs_inv fsz vid s -> op_known_ok o -> step o s = (r, s') -> step_writes s s' = []) ->
  step_keeps_flushed fsz vid o.
Proof.
  intros H s r s' Hinv _ Hk Hs v path e bytes Ev Hf _ d' Hd.
  rewrite (crash_disks_quiet s s' d' (H s r s' Hinv Hk Hs) Hd). exact Hf.
Qed.

Lemma step_keeps_quiet fsz vid o : quiet (step o) -> step_keeps_flushed fsz vid o.
Proof. intros Q. apply step_keeps_nowrite. intros s r s' _ _ Hs. exact (quiet_step_writes _ s r s' Q Hs). Qed.

Theorem step_keeps_Read fsz vid h n : step_keeps_flushed fsz vid (Read h n).
Proof. apply step_keeps_quiet. cbn [step]. apply quiet_lift, quiet_mgr_read. Qed.
Theorem step_keeps_IoRead fsz vid h n : step_keeps_flushed fsz vid (IoRead h n).
Proof. apply step_keeps_quiet. cbn [step]. apply quiet_lift, quiet_io_read. Qed.
Theorem step_keeps_Length fsz vid h : step_keeps_flushed fsz vid (Length h).
Proof. apply step_keeps_quiet. cbn [step]. apply quiet_lift, quiet_file_length. Qed.
Theorem step_keeps_Offset fsz vid h : step_keeps_flushed fsz vid (Offset h).
Proof. apply step_keeps_quiet. cbn [step]. apply quiet_lift, quiet_file_offset. Qed.
Theorem step_keeps_Eof fsz vid h : step_keeps_flushed fsz vid (Eof h).
Proof. apply step_keeps_quiet. cbn [step]. apply quiet_lift, quiet_file_eof. Qed.
Theorem step_keeps_SeekStart fsz vid h x : step_keeps_flushed fsz vid (SeekStart h x).
Proof. apply step_keeps_quiet. cbn [step]. apply quiet_lift, quiet_file_seek_from_start. Qed.
Theorem step_keeps_SeekCur fsz vid h x : step_keeps_flushed fsz vid (SeekCur h x).
Proof. apply step_keeps_quiet. cbn [step]. apply quiet_lift, quiet_file_seek_from_current. Qed.
Theorem step_keeps_SeekEnd fsz vid h x : step_keeps_flushed fsz vid (SeekEnd h x).
Proof. apply step_keeps_quiet. cbn [step]. apply quiet_lift, quiet_file_seek_from_end. Qed.
Theorem step_keeps_IoSeek fsz vid h w x : step_keeps_flushed fsz vid (IoSeek h w x).
Proof. apply step_keeps_quiet. cbn [step]. apply quiet_lift, quiet_io_seek. Qed.
Theorem step_keeps_HasOpen fsz vid : step_keeps_flushed fsz vid HasOpen.
Proof. apply step_keeps_quiet. cbn [step]. apply quiet_lift, quiet_has_open_handles. Qed.
Theorem step_keeps_Find fsz vid h name : step_keeps_flushed fsz vid (Find h name).
Proof. apply step_keeps_quiet. cbn [step]. apply quiet_lift, quiet_mgr_find. Qed.
Theorem step_keeps_Label fsz vid h : step_keeps_flushed fsz vid (Label h).
Proof. apply step_keeps_quiet. cbn [step]. apply quiet_lift, quiet_get_root_volume_label. Qed.
Theorem step_keeps_OpenRoot fsz vid h : step_keeps_flushed fsz vid (OpenRoot h).
Proof. apply step_keeps_quiet. cbn [step]. apply quiet_lift, quiet_open_root_dir. Qed.
Theorem step_keeps_OpenDir fsz vid h name : step_keeps_flushed fsz vid (OpenDir h name).
Proof. apply step_keeps_quiet. cbn [step]. apply quiet_lift, quiet_open_dir. Qed.
Theorem step_keeps_CloseDir fsz vid h : step_keeps_flushed fsz vid (CloseDir h).
Proof. apply step_keeps_quiet. cbn [step]. apply quiet_lift, quiet_close_dir. Qed.
Theorem step_keeps_Iter fsz vid d inner : step_keeps_flushed fsz vid (Iter d inner).
Proof.
  apply step_keeps_nowrite. intros s r s' Hinv ((Hnr & _) & _) Hs. cbn [step] in Hs. unfold bind at 1 in Hs.
  destruct (mgr_iterate d match inner with Some o' => step o' | None => ret RUnit end s) as [o s1] eqn:E.
  apply (PrGlobalOpen.mgr_iterate_run fsz vid s d _ o s1 Hinv) in E.
  - destruct E as (_ & _ & (_ & _ & Ht)).
    assert (Es : s' = s1) by (destruct o; injection Hs as _ <-; reflexivity). subst s'.
    exact (tsteps_nil_writes s s1 Ht).
  - intros sL HL. destruct inner as [o'|].
    + exact (PrGlobalOpen.locked_step o' sL HL Hnr).
    + exists (Ok RUnit). split; [reflexivity|split; discriminate].
Qed.

(* ================================================================== 3. frame lemmas *)
(* ---- data ---- *)
Lemma file_bytes_ext d d' v ch : (forall j, In j (data_blocks v ch) -> disk_get d' j = disk_get d j) ->
  file_bytes d' v ch = file_bytes d v ch.
Proof.
  intros H. apply PrRw.file_bytes_frame. intros x b Hx Hb. apply H.
  unfold data_blocks. apply in_flat_map. exists x. split; assumption.
Qed.

(* the shape of every "keeps" proof: the new medium has a crash-sound tree T' in which the path
   still leads to the same node, whose blocks are unchanged *)
Lemma file_on_medium_keep d d' v bl rch T lost bl' rch' T' lost' path e ch :
  crash_inv_at d v bl rch T lost -> node_at T path (NFile e ch) ->
  crash_inv_at d' v bl' rch' T' lost' -> node_at T' path (NFile e ch) ->
  (forall j, In j (data_blocks v ch) -> disk_get d' j = disk_get d j) ->
  forall bytes, file_on_medium d v path e bytes -> file_on_medium d' v path e bytes.
Proof.
  intros H Hn H' Hn' Hd bytes Hf.
  apply (file_on_medium_tree d v bl rch T lost path e bytes H) in Hf. destruct Hf as (ch0 & Hn0 & Hb).
  exists bl', rch', T', lost', ch0.
  assert (E : ch0 = ch).
  { pose proof (node_at_in _ _ _ Hn0) as I0. pose proof (node_at_in _ _ _ Hn) as I1.
    assert (X : NFile e ch0 = NFile e ch) by (apply (pos_unique (all_nodes T) _ _ (ci_pos _ _ _ _ _ _ H) I0 I1); reflexivity).
    injection X as ->. reflexivity. }
  subst ch0. split; [exact H'|]. split; [exact Hn'|]. rewrite Hb, (file_bytes_ext d d' v ch Hd). reflexivity.
Qed.

(* ---- paths through an updated tree ---- *)
(* g maps the old tree to the new one; on the nodes that satisfy `ok` it keeps names and
   directory-ness, and the image of an ok kid of an ok node is a kid of the image.  If every
   directory of the old tree and n are ok, the path to n leads to g n *)
Section NodeAtMap.
  Variables (g : node -> node) (ok : node -> Prop) (Tall : list node).
  Hypothesis Hg : forall m, ok m ->
    node_is_dir (g m) = node_is_dir m /\ e_name (node_entry (g m)) = e_name (node_entry m) /\
    forall k, In k (node_kids m) -> ok k -> In (g k) (node_kids (g m)).
  Hypothesis Hdirs : forall m, In m (all_nodes Tall) -> node_is_dir m = true -> ok m.

  Lemma node_at_map_sub : forall T0 path n, node_at T0 path n -> ok n ->
    (forall x, In x T0 -> In x (all_nodes Tall)) ->
    forall T0', (forall k, In k T0 -> ok k -> In (g k) T0') -> node_at T0' path (g n).
  Proof.
    induction 1 as [T0 n Hn|T0 m path n Hm Hd Hat IH]; intros Hokn Hsub T0' Hin.
    - rewrite <- (proj1 (proj2 (Hg n Hokn))). apply na_here. exact (Hin n Hn Hokn).
    - pose proof (Hdirs m (Hsub m Hm) Hd) as Hokm. destruct (Hg m Hokm) as (G1 & G2 & G3).
      rewrite <- G2. apply na_down; [exact (Hin m Hm Hokm)|rewrite G1; exact Hd|].
      apply (IH Hokn); [|exact G3].
      intros x Hx. apply (all_nodes_trans Tall m x (Hsub m Hm)).
      destruct m as [e ch|e ch kids]; [discriminate Hd|]. cbn [node_kids] in Hx.
      exact (flatten_kid e ch kids x x Hx (flatten_self x)).
  Qed.

  Theorem node_at_map path n T' : node_at Tall path n -> ok n ->
    (forall k, In k Tall -> ok k -> In (g k) T') -> node_at T' path (g n).
  Proof. intros Hat Hokn Hin. exact (node_at_map_sub Tall path n Hat Hokn (all_nodes_top Tall) T' Hin). Qed.
End NodeAtMap.

(* a file node at another slot is replaced (Flush / Close of another file, the entry rewrite of a
   truncating open of another file) *)
Lemma node_at_replace p n' T path e ch : NoDup (map node_pos (all_nodes T)) ->
  (exists m, In m (all_nodes T) /\ node_pos m = p /\ node_is_dir m = false) ->
  node_at T path (NFile e ch) -> node_pos (NFile e ch) <> p ->
  node_at (forest_replace p n' T) path (NFile e ch).
Proof.
  intros Hnd (m0 & Hm0 & Hp0 & Hf0) Hat Hne.
  rewrite <- (node_replace_miss_file p n' e ch Hne).
  apply (node_at_map (node_replace p n') (fun m => node_pos m <> p) T); [| |exact Hat|exact Hne|].
  - intros m Hm. destruct m as [e1 ch1|e1 ch1 ks].
    + rewrite (node_replace_miss_file p n' e1 ch1 Hm). split; [reflexivity|]. split; [reflexivity|intros k []].
    + rewrite (node_replace_miss_dir p n' e1 ch1 ks Hm). split; [reflexivity|]. split; [reflexivity|].
      intros k Hk _. cbn [node_kids]. apply in_map. exact Hk.
  - intros m Hm Hd E. rewrite <- Hp0 in E.
    rewrite (pos_unique (all_nodes T) m m0 Hnd Hm Hm0 E) in Hd. congruence.
  - intros k Hk _. unfold forest_replace. apply in_map. exact Hk.
Qed.

(* the kid list of one directory changes by f, which keeps every element that satisfies okf
   (ins_at: every element; del_at: every element but the deleted one) *)
Lemma node_at_upd_kids dc f (okf : node -> Prop) T path e ch :
  (forall l x, In x l -> okf x -> In x (f l)) ->
  (forall m, node_is_dir m = true -> okf m) -> okf (NFile e ch) ->
  node_at T path (NFile e ch) -> node_at (forest_upd_kids dc f T) path (NFile e ch).
Proof.
  intros Hf Hdirs Hn Hat.
  change (NFile e ch) with (node_upd_kids dc f (NFile e ch)).
  apply (node_at_map (node_upd_kids dc f) (fun m => okf (node_upd_kids dc f m)) T); [| |exact Hat|exact Hn|].
  - intros m Hm. destruct m as [e1 ch1|e1 ch1 ks]; cbn [node_upd_kids node_is_dir node_entry node_kids].
    + split; [reflexivity|]. split; [reflexivity|intros k []].
    + split; [reflexivity|]. split; [reflexivity|]. intros k Hk Hok.
      destruct (e_cluster e1 =? dc); [apply Hf; [|exact Hok]|]; apply in_map; exact Hk.
  - intros m _ Hd. apply Hdirs. destruct m; [discriminate Hd|reflexivity].
  - intros k Hk Hok. unfold forest_upd_kids. destruct (dc =? CL_ROOT); [apply Hf; [|exact Hok]|]; apply in_map; exact Hk.
Qed.

Lemma In_ins_at {A} k (y : A) l x : In x l -> In x (ins_at k y l).
Proof.
  intros H. unfold ins_at. rewrite <- (firstn_skipn k l) in H. apply in_app_or in H.
  apply in_or_app. destruct H as [H|H]; [left; exact H|right; right; exact H].
Qed.

Lemma In_del_at {A} k (l : list A) z x : nth_error l k = Some z -> In x l -> x <> z -> In x (del_at k l).
Proof.
  intros Hz H Hne. unfold del_at. rewrite <- (firstn_skipn k l) in H. apply in_app_or in H.
  apply in_or_app. destruct H as [H|H]; [left; exact H|right].
  destruct (skipn k l) as [|z' r] eqn:Es; [destruct H|].
  assert (Ez : z' = z).
  { pose proof (nth_error_split l k Hz) as (l1 & l2 & -> & <-).
    rewrite skipn_app, skipn_all, Nat.sub_diag in Es. cbn in Es. injection Es as <- _. reflexivity. }
  subst z'. rewrite (skipn_S_cons k l z r Es). destruct H as [<-|H]; [contradiction Hne; reflexivity|exact H].
Qed.

(* a new entry in some directory (create, mkdir) *)
Lemma node_at_insert dc k n' T path e ch : node_at T path (NFile e ch) ->
  node_at (forest_upd_kids dc (ins_at k n') T) path (NFile e ch).
Proof.
  intros Hat. apply (node_at_upd_kids dc _ (fun _ => True)); auto.
  intros l x Hx _. exact (In_ins_at k n' l x Hx).
Qed.

(* the entry of ANOTHER file leaves some directory (delete); f = del_at k relative to a kid list
   whose k-th element is the file node z *)
Lemma node_at_delete dc (f : list node -> list node) z T path e ch :
  (forall l x, In x l -> x <> z -> In x (f l)) -> node_is_dir z = false -> NFile e ch <> z ->
  node_at T path (NFile e ch) -> node_at (forest_upd_kids dc f T) path (NFile e ch).
Proof.
  intros Hf Hz Hne Hat. apply (node_at_upd_kids dc f (fun x => x <> z)); [exact Hf| |exact Hne|exact Hat].
  intros m Hd ->. congruence.
Qed.

(* a directory grows by one cluster *)
Lemma node_at_set_chain dc ch' T path e ch : node_at T path (NFile e ch) ->
  node_at (forest_set_chain dc ch' T) path (NFile e ch).
Proof.
  intros Hat. change (NFile e ch) with (node_set_chain dc ch' (NFile e ch)).
  apply (node_at_map (node_set_chain dc ch') (fun _ => True) T); auto.
  - intros m _. rewrite node_entry_set_chain. destruct m as [e1 ch1|e1 ch1 ks]; cbn [node_set_chain node_is_dir node_kids].
    + split; [reflexivity|]. split; [reflexivity|intros k []].
    + split; [reflexivity|]. split; [reflexivity|]. intros k Hk _. apply in_map. exact Hk.
  - intros k Hk _. unfold forest_set_chain. apply in_map. exact Hk.
Qed.

(* the chain of ANOTHER file grows (PrGlobalWrite.chain_upd: the file nodes whose entry names the
   cluster `first`) *)
Lemma node_at_chain_upd first ch' T path e ch : e_cluster e <> first -> node_at T path (NFile e ch) ->
  node_at (map (chain_upd first ch') T) path (NFile e ch).
Proof.
  intros Hne Hat.
  assert (E : chain_upd first ch' (NFile e ch) = NFile e ch).
  { cbn [chain_upd]. apply N.eqb_neq in Hne. rewrite Hne. reflexivity. }
  rewrite <- E.
  apply (node_at_map (chain_upd first ch') (fun _ => True) T); auto.
  - intros m _. destruct m as [e1 ch1|e1 ch1 ks]; cbn [chain_upd].
    + destruct (e_cluster e1 =? first); (split; [reflexivity|]; split; [reflexivity|intros k []]).
    + split; [reflexivity|]. split; [reflexivity|]. intros k Hk _. cbn [node_kids]. apply in_map. exact Hk.
  - intros k Hk _. apply in_map. exact Hk.
Qed.

(* ---- crashed media of the FAT primitives, on OTHER chains (PrCrash, in crash_disks form) ---- *)
(* alloc_cluster that appends to the chain ending in p: every chain of the old medium that does
   not contain p is the same chain on every crashed medium, and EVERY chain of the old medium
   keeps its bytes *)
Lemma crash_alloc_append_other vi v fsz p zero s c s' pre c0 fuel :
  alloc_pre s vi v fsz -> PrCrash.fat_fits v ->
  chain_of (s_disk s) v c0 fuel = Some (pre ++ [p]) ->
  alloc_cluster vi (Some p) zero s = (Ok c, s') ->
  forall d', crash_disks s s' d' ->
    forall h ch, chain_at (s_disk s) v h ch ->
      (~ In p ch -> chain_at d' v h ch) /\ file_bytes d' v ch = file_bytes (s_disk s) v ch.
Proof.
  intros Hpre Hfit Hch Hrun d' Hd h ch Hc.
  destruct (PrCrash.C10_alloc_prefix_chains vi v fsz p zero s c s' pre c0 fuel Hpre Hfit Hch Hrun) as (Tr & _ & _ & _ & _ & Hk).
  apply (crash_disks_tr_ext s s' _ d' Tr) in Hd. destruct Hd as (k & _ & ->).
  destruct (Hk k) as (n0 & n1 & _ & _ & _ & Ha & _). split.
  - intros Hnp. exact (Ha h (walk_fuel v) ch Hc Hnp).
  - assert (Hp : In p (pre ++ [p])) by (apply in_app_iff; right; left; reflexivity).
    destruct (PrCrash.chain_of_sound (s_disk s) v fuel c0 _ Hch p Hp) as (_ & P2 & _).
    assert (Hprev : forall q, Some p = Some q -> q < v_clusters v + 2) by (intros q E; inversion E; subst; exact P2).
    exact (proj2 (PrCrash.C09_frame_bytes_alloc vi v fsz (Some p) zero s c s' Hpre Hprev Hrun) k h (walk_fuel v) ch Hc).
Qed.

(* alloc_cluster that starts a new chain: every chain of the old medium is untouched *)
Lemma crash_alloc_first_other vi v fsz zero s c s' :
  alloc_pre s vi v fsz -> PrCrash.fat_fits v ->
  alloc_cluster vi None zero s = (Ok c, s') ->
  forall d', crash_disks s s' d' ->
    forall h ch, chain_at (s_disk s) v h ch ->
      chain_at d' v h ch /\ file_bytes d' v ch = file_bytes (s_disk s) v ch.
Proof.
  intros Hpre Hfit Hrun d' Hd h ch Hc.
  destruct (PrCrash.C10_alloc_prefix_chains_first vi v fsz zero s c s' Hpre Hfit Hrun) as (Tr & _ & _ & _ & Hk).
  apply (crash_disks_tr_ext s s' _ d' Tr) in Hd. destruct Hd as (k & _ & ->).
  destruct (Hk k) as (Ha & _). split; [exact (Ha h (walk_fuel v) ch Hc)|].
  assert (Hprev : forall q, @None N = Some q -> q < v_clusters v + 2) by (intros q E; discriminate E).
  exact (proj2 (PrCrash.C09_frame_bytes_alloc vi v fsz None zero s c s' Hpre Hprev Hrun) k h (walk_fuel v) ch Hc).
Qed.

(* truncate_cluster_chain / free_cluster_chain of the chain c :: rest: every chain of the old
   medium that is disjoint from it is the same chain on every crashed medium and keeps its bytes *)
Lemma crash_truncate_other vi v fsz s c rest fuel :
  fat_layout v fsz -> st_ok vi v fsz s -> chain_of (s_disk s) v c fuel = Some (c :: rest) ->
  exists s', truncate_cluster_chain vi c s = (Ok tt, s') /\
    forall d', crash_disks s s' d' ->
      (forall j, PrCrash.non_fat v fsz j -> disk_get d' j = disk_get (s_disk s) j) /\
      forall h ch, chain_at (s_disk s) v h ch -> (forall x, In x ch -> ~ In x (c :: rest)) ->
        chain_at d' v h ch /\ file_bytes d' v ch = file_bytes (s_disk s) v ch.
Proof.
  intros L Hst Hch.
  destruct (PrCrash.C10_truncate_prefix_chains vi v fsz s c rest fuel L Hst Hch) as (s' & Hrun & Tr & Hk).
  exists s'. split; [exact Hrun|]. intros d' Hd.
  apply (crash_disks_tr_ext s s' _ d' Tr) in Hd. destruct Hd as (k & _ & ->).
  destruct (Hk k) as (j0 & j1 & _ & _ & _ & _ & Ha & _ & Hnf). split; [exact Hnf|].
  intros h ch Hc Hdis. split; [exact (Ha h (walk_fuel v) ch Hc Hdis)|].
  apply PrRw.file_bytes_frame. intros x b Hx Hb. apply Hnf.
  destruct (chain_at_mem _ _ _ _ x Hc Hx) as (X1 & _).
  exact (PrCrash.cluster_block_non_fat v fsz x b L X1 Hb).
Qed.

Lemma crash_free_other vi v fsz s c rest fuel :
  fat_layout v fsz -> st_ok vi v fsz s -> chain_of (s_disk s) v c fuel = Some (c :: rest) ->
  exists s', free_cluster_chain vi c s = (Ok tt, s') /\
    forall d', crash_disks s s' d' ->
      forall h ch, chain_at (s_disk s) v h ch -> (forall x, In x ch -> ~ In x (c :: rest)) ->
        chain_at d' v h ch /\ file_bytes d' v ch = file_bytes (s_disk s) v ch.
Proof.
  intros L Hst Hch.
  destruct (PrCrash.C10_free_prefix_chains vi v fsz s c rest fuel L Hst Hch) as (s' & Hrun & Tr & Hk).
  exists s'. split; [exact Hrun|]. intros d' Hd.
  apply (crash_disks_tr_ext s s' _ d' Tr) in Hd. destruct Hd as (k & _ & ->).
  destruct (Hk k) as (j0 & j1 & _ & _ & _ & _ & Ha & _).
  intros h ch Hc Hdis. split; [exact (Ha h (walk_fuel v) ch Hc Hdis)|].
  destruct (PrCrash.updates_in_fat v fsz (s_disk s) c fuel rest L Hch) as (_ & F2).
  apply (PrCrash.C09_frame_bytes_fat_updates v fsz (s_disk s) _ k ch L (PrCrash.st_ok_len vi v fsz s Hst) F2).
  apply Forall_forall. intros x Hx. exact (proj1 (chain_at_mem _ _ _ _ x Hc Hx)).
Qed.

Print Assumptions flushed_history.
Print Assumptions step_keeps_Iter.
Print Assumptions node_at_map.
Print Assumptions file_on_medium_keep.
Print Assumptions crash_alloc_append_other.
Print Assumptions crash_free_other.
