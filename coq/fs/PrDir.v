(* PROOFS about directory listing and lookup in the layer-B model (C06):
   - SPEC side: the clusters of a directory (chain_of, following fat_entry as a reader of the
     FAT specification would), its blocks, its 32-byte slots tagged with (block, offset);
   - iterate_dir_all returns every valid slot before the first end marker, in on-disk order,
     exactly once, nothing after the marker; it only reads;
   - find_directory_entry returns the first slot whose name matches among the slots that are
     before an end marker within their own block, NotFound iff there is none.
   Everything is for ALL inputs; no bounds. *)
From Coq Require Import NArith ZArith List Bool Lia Arith ZifyClasses ZifyInst Zify FMapPositive FinFun.
From SdFs Require Import FsTypes FsBase FsFat FsMgr FsLemmas PrBase PrAlloc.
Import ListNotations.
Open Scope N_scope.
Local Arguments N.mul : simpl never.
Local Arguments N.add : simpl never.
Local Arguments N.sub : simpl never.
Local Arguments N.div : simpl never.
Local Arguments N.modulo : simpl never.
Local Arguments N.land : simpl never.
Local Ltac Zify.zify_post_hook ::= Z.to_euclidean_division_equations.

(* ------------------------------------------------------------------ SPEC side *)
(* a directory slot with its position: block index, byte offset in the block, the 32 bytes *)
Definition tslot := (N * N * list N)%type.
Definition t_is_end (t : tslot) : bool := is_end (snd t).
Definition t_is_valid (t : tslot) : bool := is_valid (snd t).
Definition t_matches (name : list N) (t : tslot) : bool := matches (snd t) name.
Definition t_entry (fat32 : bool) (t : tslot) : dirent :=
  get_entry fat32 (snd t) (fst (fst t)) (snd (fst t)).

Fixpoint tslots_from (n : nat) (b : block) (blk i : N) : list tslot :=
  match n with O => [] | S n' => (blk, i * 32, slot b i) :: tslots_from n' b blk (i + 1) end.
(* the 16 slots of block blk of the disk *)
Definition block_slots (d : disk) (blk : N) : list tslot := tslots_from 16 (disk_get d blk) blk 0.

Lemma tslots_from_slots_from n b blk : forall i,
  tslots_from n b blk i = map (fun p => (blk, fst p * 32, snd p)) (slots_from n b i).
Proof. induction n as [|n IH]; intros i; cbn [tslots_from slots_from map fst snd]; [reflexivity|]. rewrite IH. reflexivity. Qed.

(* everything before the first end marker / everything from the first end marker on *)
Fixpoint before_end_all (l : list tslot) : list tslot :=
  match l with [] => [] | t :: r => if t_is_end t then [] else t :: before_end_all r end.
Fixpoint after_end (l : list tslot) : list tslot :=
  match l with [] => [] | t :: r => if t_is_end t then t :: r else after_end r end.

Fixpoint blocks_from (n : nat) (i : N) : list N :=
  match n with O => [] | S n' => i :: blocks_from n' (i + 1) end.
Definition cluster_first_block (v : vol) (c : N) : N := v_lba v + v_first_data v + (c - 2) * v_spc v.
Definition cluster_blocks (v : vol) (c : N) : list N :=
  blocks_from (N.to_nat (v_spc v)) (cluster_first_block v c).
Definition root16_blocks (v : vol) : list N :=
  blocks_from (N.to_nat (from_bytes (v_root_entries v * 32))) (v_lba v + v_root_block v).
Definition slots_of (d : disk) (blocks : list N) : list tslot := flat_map (block_slots d) blocks.
(* the slots of a directory made of the clusters of `chain`, in on-disk order *)
Definition dir_slots (d : disk) (v : vol) (chain : list N) : list tslot :=
  slots_of d (flat_map (cluster_blocks v) chain).

(* the cluster chain starting at c, as a reader of the FAT would follow it: every cluster is a
   data cluster of the volume; the chain ends at an end-of-chain value; a bad-cluster mark, a
   free entry, a reserved value or an out-of-range link make it undefined *)
Definition fat_bad (v : vol) : N := if v_fat32 v then 268435447 else 65527.
Definition fat_eoc_min (v : vol) : N := if v_fat32 v then 268435448 else 65528.
Fixpoint chain_of (d : disk) (v : vol) (c : N) (fuel : nat) : option (list N) :=
  match fuel with
  | O => None
  | S f =>
      if (2 <=? c) && (c <? v_clusters v + 2) then
        let e := fat_entry d v c in
        if e =? fat_bad v then None
        else if fat_eoc_min v <=? e then Some [c]
        else match chain_of d v e f with Some l => Some (c :: l) | None => None end
      else None
  end.

(* the blocks of the directory `dc` of the volume: the fixed root region of a FAT16 volume,
   otherwise the blocks of the clusters of its chain *)
Definition dir_blocks (d : disk) (v : vol) (dc : N) : option (list N) :=
  if negb (v_fat32 v) && (dc =? CL_ROOT) then Some (root16_blocks v)
  else match chain_of d v (dir_first_cluster v dc) (walk_fuel v) with
       | Some ch => Some (flat_map (cluster_blocks v) ch)
       | None => None
       end.

(* the listing a reader of the specification produces from a sequence of slots *)
Definition listing (fat32 : bool) (l : list tslot) : list dirent :=
  map (t_entry fat32) (filter t_is_valid (before_end_all l)).

(* ------------------------------------------------------------------ list facts *)
Lemma before_end_all_app a b :
  before_end_all (a ++ b) = if existsb t_is_end a then before_end_all a else a ++ before_end_all b.
Proof.
  induction a as [|t a IH]; [reflexivity|]. cbn [app before_end_all existsb].
  destruct (t_is_end t); [reflexivity|]. cbn [orb]. rewrite IH.
  destruct (existsb t_is_end a); reflexivity.
Qed.

Lemma before_end_all_none a : existsb t_is_end a = false -> before_end_all a = a.
Proof.
  induction a as [|t a IH]; [reflexivity|]. cbn [before_end_all existsb]. intros H.
  apply orb_false_iff in H. destruct H as [H1 H2]. rewrite H1, (IH H2). reflexivity.
Qed.

Lemma after_end_app a b :
  after_end (a ++ b) = if existsb t_is_end a then after_end a ++ b else after_end b.
Proof.
  induction a as [|t a IH]; [reflexivity|]. cbn [app after_end existsb].
  destruct (t_is_end t); [reflexivity|]. cbn [orb]. exact IH.
Qed.

Lemma listing_app_stop fat32 a b :
  existsb t_is_end a = true -> listing fat32 (a ++ b) = listing fat32 a.
Proof. intros H. unfold listing. rewrite before_end_all_app, H. reflexivity. Qed.

Lemma listing_app_go fat32 a b :
  existsb t_is_end a = false -> listing fat32 (a ++ b) = listing fat32 a ++ listing fat32 b.
Proof.
  intros H. unfold listing. rewrite before_end_all_app, H, (before_end_all_none a H).
  rewrite filter_app, map_app. reflexivity.
Qed.

Lemma find_app_first {A} (p : A -> bool) a b :
  find p (a ++ b) = match find p a with Some x => Some x | None => find p b end.
Proof. induction a as [|x a IH]; [reflexivity|]. cbn [app find]. destruct (p x); [reflexivity|exact IH]. Qed.

Lemma find_filter_same {A} (p q : A -> bool) l :
  (forall x, p x = true -> q x = true) -> find p (filter q l) = find p l.
Proof.
  intros H. induction l as [|x l IH]; [reflexivity|]. cbn [filter find].
  destruct (q x) eqn:Eq.
  - cbn [find]. destruct (p x); [reflexivity|exact IH].
  - destruct (p x) eqn:Ep; [|exact IH]. rewrite (H x Ep) in Eq. discriminate.
Qed.

(* ------------------------------------------------------------------ read-only steps *)
Definition ro_step (s s' : st) : Prop :=
  s_disk s' = s_disk s /\ cache_ok s' /\ no_faults s' /\ same_mgr s s'.

Lemma ro_refl s : no_faults s -> cache_ok s -> ro_step s s.
Proof. intros H1 H2. split; [reflexivity|]. split; [exact H2|]. split; [exact H1|apply same_mgr_refl]. Qed.

Lemma ro_trans a b c : ro_step a b -> ro_step b c -> ro_step a c.
Proof.
  intros (A1 & A2 & A3 & A4) (B1 & B2 & B3 & B4).
  split; [congruence|]. split; [exact B2|]. split; [exact B3|exact (same_mgr_trans _ _ _ A4 B4)].
Qed.

Lemma cache_read_ro i s : no_faults s -> cache_ok s ->
  exists s', cache_read i s = (Ok (disk_get (s_disk s) i), s') /\ ro_step s s'.
Proof.
  intros Hnf Hc. destruct (cache_read_spec i s Hnf Hc) as (s1 & Hr & Hd & _ & _ & Hc1 & Hnf1 & Hm & _).
  exists s1. split; [exact Hr|]. split; [exact Hd|]. split; [exact Hc1|]. split; [exact Hnf1|exact Hm].
Qed.

(* ------------------------------------------------------------------ one block *)
Lemma iter_slots_t n fat32 b blk : forall i acc,
  iter_slots n fat32 b blk i acc =
  (existsb t_is_end (tslots_from n b blk i), rev (listing fat32 (tslots_from n b blk i)) ++ acc).
Proof.
  induction n as [|n IH]; intros i acc; [reflexivity|].
  cbn [iter_slots tslots_from existsb]. unfold listing. cbn [before_end_all].
  change (t_is_end (blk, i * 32, slot b i)) with (is_end (slot b i)).
  destruct (is_end (slot b i)) eqn:He; [reflexivity|].
  cbn [filter orb].
  change (t_is_valid (blk, i * 32, slot b i)) with (is_valid (slot b i)).
  destruct (is_valid (slot b i)).
  - rewrite IH. cbn [map rev]. rewrite <- app_assoc. reflexivity.
  - apply IH.
Qed.

(* ------------------------------------------------------------------ consecutive blocks *)
Lemma slots_of_cons d i r : slots_of d (i :: r) = block_slots d i ++ slots_of d r.
Proof. reflexivity. Qed.
Lemma slots_of_app d a b : slots_of d (a ++ b) = slots_of d a ++ slots_of d b.
Proof. unfold slots_of. apply flat_map_app. Qed.

Lemma iter_blocks_spec fat32 : forall n i acc s, no_faults s -> cache_ok s ->
  exists s', iter_blocks n fat32 i acc s =
    (Ok (existsb t_is_end (slots_of (s_disk s) (blocks_from n i)),
         rev (listing fat32 (slots_of (s_disk s) (blocks_from n i))) ++ acc), s') /\ ro_step s s'.
Proof.
  induction n as [|n IH]; intros i acc s Hnf Hc.
  - exists s. split; [reflexivity|apply ro_refl; assumption].
  - cbn [iter_blocks blocks_from]. rewrite slots_of_cons.
    destruct (cache_read_ro i s Hnf Hc) as (s1 & Hr & Hro).
    rewrite (bind_ok _ _ _ _ _ Hr). rewrite iter_slots_t.
    fold (block_slots (s_disk s) i).
    destruct (existsb t_is_end (block_slots (s_disk s) i)) eqn:Hstop.
    + exists s1. split; [|exact Hro].
      rewrite existsb_app, Hstop, (listing_app_stop _ _ _ Hstop). reflexivity.
    + destruct Hro as (Hd & Hc1 & Hnf1 & Hm).
      destruct (IH (i + 1) (rev (listing fat32 (block_slots (s_disk s) i)) ++ acc) s1 Hnf1 Hc1)
        as (s2 & Hrun & Hro2).
      exists s2. split; [|exact (ro_trans _ _ _ (conj Hd (conj Hc1 (conj Hnf1 Hm))) Hro2)].
      rewrite Hrun, Hd. rewrite existsb_app, Hstop, (listing_app_go _ _ _ Hstop).
      cbn [orb]. rewrite rev_app_distr, <- app_assoc. reflexivity.
Qed.

(* ------------------------------------------------------------------ chains *)
Lemma chain_of_head d v c f l : chain_of d v c f = Some l ->
  2 <= c /\ c < v_clusters v + 2 /\ exists l', l = c :: l'.
Proof.
  destruct f as [|f]; [discriminate|]. cbn [chain_of].
  destruct ((2 <=? c) && (c <? v_clusters v + 2)) eqn:Hr; [|discriminate].
  apply andb_true_iff in Hr. destruct Hr as [H1 H2]. apply N.leb_le in H1. apply N.ltb_lt in H2.
  intros H. split; [exact H1|]. split; [exact H2|].
  destruct (fat_entry d v c =? fat_bad v); [discriminate|].
  destruct (fat_eoc_min v <=? fat_entry d v c).
  - inversion H. exists []. reflexivity.
  - destruct (chain_of d v (fat_entry d v c) f) as [l0|]; [|discriminate].
    inversion H. exists l0. reflexivity.
Qed.

Lemma next_result_end v e :
  (e =? fat_bad v) = false -> (fat_eoc_min v <=? e) = true -> next_result v e = inr EndOfFile.
Proof.
  unfold fat_bad, fat_eoc_min, next_result. destruct (v_fat32 v); intros H1 H2; rewrite H1, H2.
  - apply N.leb_le in H2. replace (e =? 0) with false by (symmetry; apply N.eqb_neq; lia).
    rewrite orb_true_r. reflexivity.
  - reflexivity.
Qed.

Lemma next_result_link v e :
  (e =? fat_bad v) = false -> (fat_eoc_min v <=? e) = false -> 2 <= e -> next_result v e = inl e.
Proof.
  unfold fat_bad, fat_eoc_min, next_result. destruct (v_fat32 v); intros H1 H2 H3; rewrite H1, H2.
  - replace (e =? 0) with false by (symmetry; apply N.eqb_neq; lia).
    replace (e =? 1) with false by (symmetry; apply N.eqb_neq; lia). reflexivity.
  - reflexivity.
Qed.

Lemma in_range_not_root v c : vol_ok v -> c < v_clusters v + 2 -> c <> CL_ROOT.
Proof. intros [H _ _ _] Hc. unfold U32, CL_ROOT in *. lia. Qed.

Lemma cluster_block_ok v c s : vol_ok v -> 2 <= c -> c < v_clusters v + 2 ->
  cluster_to_block v c s = (Ok (cluster_first_block v c), s) /\
  cluster_first_block v c + v_spc v < U32.
Proof.
  intros Hv H1 H2.
  destruct (cluster_to_block_in_data v c s (vo_data v Hv) H1 H2 (in_range_not_root v c Hv H2))
    as (blk & E1 & E2 & _ & E4).
  pose proof (vo_data v Hv) as Hg. unfold data_geom_ok in Hg.
  unfold cluster_first_block. rewrite <- E2. split; [exact E1|].
  remember (v_clusters v * v_spc v) as Y. lia.
Qed.

(* ------------------------------------------------------------------ D: the listing walk *)
Lemma iter_walk_chain vi v : vol_ok v ->
  forall fuel c acc s ch, nth_error (s_vols s) vi = Some v -> no_faults s -> cache_ok s ->
  chain_of (s_disk s) v c fuel = Some ch ->
  exists s', iter_walk fuel vi c acc s =
    (Ok (rev (listing (v_fat32 v) (dir_slots (s_disk s) v ch)) ++ acc), s') /\ ro_step s s'.
Proof.
  intros Hv. induction fuel as [|f IH]; intros c acc s ch Hvi Hnf Hc Hch; [discriminate|].
  destruct (chain_of_head _ _ _ _ _ Hch) as (R1 & R2 & _).
  cbn [chain_of] in Hch.
  replace ((2 <=? c) && (c <? v_clusters v + 2)) with true in Hch
    by (symmetry; apply andb_true_iff; split; [apply N.leb_le|apply N.ltb_lt]; assumption).
  cbv zeta in Hch.
  cbn [iter_walk].
  rewrite (bind_ok _ _ _ _ _ (get_vol_some vi v s Hvi)).
  destruct (cluster_block_ok v c s Hv R1 R2) as (Hcb & Hfit).
  rewrite (bind_ok _ _ _ _ _ Hcb).
  assert (Hnr : (c =? CL_ROOT) = false) by (apply N.eqb_neq; apply (in_range_not_root v c Hv R2)).
  rewrite Hnr, andb_false_r.
  rewrite (bind_ok _ _ _ _ _ (add32_ok _ _ s Hfit)).
  destruct (iter_blocks_spec (v_fat32 v) (N.to_nat (v_spc v)) (cluster_first_block v c) acc s Hnf Hc)
    as (s1 & Hib & Hro1).
  rewrite (bind_ok _ _ _ _ _ Hib).
  fold (cluster_blocks v c).
  destruct Hro1 as (Hd1 & Hc1 & Hnf1 & Hm1).
  assert (Hro1 : ro_step s s1) by (split; [exact Hd1|split; [exact Hc1|split; [exact Hnf1|exact Hm1]]]).
  assert (Hsplit : forall l, dir_slots (s_disk s) v (c :: l)
                    = slots_of (s_disk s) (cluster_blocks v c) ++ dir_slots (s_disk s) v l).
  { intros l. unfold dir_slots. cbn [flat_map]. apply slots_of_app. }
  destruct (existsb t_is_end (slots_of (s_disk s) (cluster_blocks v c))) eqn:Hstop.
  - (* end marker inside this cluster *)
    exists s1. split; [|exact Hro1].
    destruct (chain_of_head _ _ _ (S f) _ ltac:(cbn [chain_of]; rewrite (proj2 (andb_true_iff _ _) (conj (proj2 (N.leb_le _ _) R1) (proj2 (N.ltb_lt _ _) R2))); exact Hch)) as (_ & _ & (l' & ->)).
    rewrite Hsplit, (listing_app_stop _ _ _ Hstop). reflexivity.
  - destruct (next_cluster_reads v c s1 Hv R2 Hnf1 Hc1) as (s2 & Hnc & Hd2 & Hc2 & Hnf2 & Hm2).
    assert (Hro2 : ro_step s s2).
    { apply (ro_trans _ _ _ Hro1). split; [exact Hd2|split; [exact Hc2|split; [exact Hnf2|exact Hm2]]]. }
    rewrite (bind_ok _ _ _ _ _ Hnc). rewrite Hd1.
    destruct (fat_entry (s_disk s) v c =? fat_bad v) eqn:Hbad; [discriminate|].
    destruct (fat_eoc_min v <=? fat_entry (s_disk s) v c) eqn:Heoc.
    + (* end of the chain *)
      inversion Hch; subst ch. rewrite (next_result_end _ _ Hbad Heoc).
      exists s2. split; [|exact Hro2].
      rewrite Hsplit. unfold dir_slots at 1. cbn [flat_map]. unfold slots_of at 2. cbn [flat_map].
      rewrite app_nil_r. reflexivity.
    + destruct (chain_of (s_disk s) v (fat_entry (s_disk s) v c) f) as [l|] eqn:Hrest; [|discriminate].
      inversion Hch; subst ch.
      destruct (chain_of_head _ _ _ _ _ Hrest) as (Q1 & _ & _).
      rewrite (next_result_link _ _ Hbad Heoc Q1).
      assert (Hvi2 : nth_error (s_vols s2) vi = Some v)
        by (apply (same_mgr_vol s s2); [apply Hro2|exact Hvi]).
      assert (Hrest2 : chain_of (s_disk s2) v (fat_entry (s_disk s) v c) f = Some l)
        by (rewrite (proj1 Hro2); exact Hrest).
      destruct (IH (fat_entry (s_disk s) v c)
                   (rev (listing (v_fat32 v) (slots_of (s_disk s) (cluster_blocks v c))) ++ acc)
                   s2 l Hvi2 Hnf2 Hc2 Hrest2) as (s3 & Hrun & Hro3).
      exists s3. split; [|exact (ro_trans _ _ _ Hro2 Hro3)].
      rewrite Hrun, (proj1 Hro2), Hsplit, (listing_app_go _ _ _ Hstop).
      rewrite rev_app_distr, <- app_assoc. reflexivity.
Qed.

(* the fixed root directory region of a FAT16 volume *)
Lemma iter_walk_root16 vi v : vol_ok v -> v_fat32 v = false ->
  forall fuel acc s, nth_error (s_vols s) vi = Some v -> no_faults s -> cache_ok s ->
  exists s', iter_walk (S fuel) vi CL_ROOT acc s =
    (Ok (rev (listing false (slots_of (s_disk s) (root16_blocks v))) ++ acc), s') /\ ro_step s s'.
Proof.
  intros Hv H16 fuel acc s Hvi Hnf Hc.
  cbn [iter_walk].
  rewrite (bind_ok _ _ _ _ _ (get_vol_some vi v s Hvi)).
  pose proof (vo_root v Hv H16) as Hroot.
  assert (Hcb : cluster_to_block v CL_ROOT s = (Ok (v_lba v + v_root_block v), s)).
  { unfold cluster_to_block. rewrite H16. rewrite N.eqb_refl. apply add32_ok. lia. }
  rewrite (bind_ok _ _ _ _ _ Hcb). rewrite H16, N.eqb_refl. cbn [negb andb].
  rewrite (bind_ok _ _ _ _ _ (add32_ok _ _ s Hroot)).
  destruct (iter_blocks_spec false (N.to_nat (from_bytes (v_root_entries v * 32)))
              (v_lba v + v_root_block v) acc s Hnf Hc) as (s1 & Hib & Hro1).
  rewrite (bind_ok _ _ _ _ _ Hib). fold (root16_blocks v).
  exists s1. split; [|exact Hro1].
  destruct (existsb t_is_end (slots_of (s_disk s) (root16_blocks v))); reflexivity.
Qed.

(* D.  C06: listing a directory returns every valid slot before the first end marker, in
   on-disk order, each exactly once, and nothing after the marker; the disk is only read. *)
Theorem C06_iterate vi v dc s bl :
  nth_error (s_vols s) vi = Some v -> vol_ok v -> no_faults s -> cache_ok s ->
  dir_blocks (s_disk s) v dc = Some bl ->
  exists s', iterate_dir_all vi dc s =
    (Ok (map (t_entry (v_fat32 v)) (filter t_is_valid (before_end_all (slots_of (s_disk s) bl)))), s')
    /\ s_disk s' = s_disk s /\ cache_ok s' /\ no_faults s' /\ same_mgr s s'.
Proof.
  intros Hvi Hv Hnf Hc Hbl. unfold iterate_dir_all.
  rewrite (bind_ok _ _ _ _ _ (get_vol_some vi v s Hvi)).
  unfold dir_blocks in Hbl.
  fold (listing (v_fat32 v) (slots_of (s_disk s) bl)).
  destruct (negb (v_fat32 v) && (dc =? CL_ROOT)) eqn:Hroot.
  - apply andb_true_iff in Hroot. destruct Hroot as [H16 Hdc].
    apply negb_true_iff in H16. apply N.eqb_eq in Hdc. subst dc. inversion Hbl; subst bl.
    unfold dir_first_cluster, walk_fuel. rewrite H16. cbn [andb].
    replace (N.to_nat (v_clusters v) + 4)%nat with (S (N.to_nat (v_clusters v) + 3)) by lia.
    destruct (iter_walk_root16 vi v Hv H16 (N.to_nat (v_clusters v) + 3) [] s Hvi Hnf Hc)
      as (s1 & Hrun & Hro).
    rewrite (bind_ok _ _ _ _ _ Hrun). exists s1. split; [|exact Hro].
    unfold ret. rewrite app_nil_r, rev_involutive. reflexivity.
  - destruct (chain_of (s_disk s) v (dir_first_cluster v dc) (walk_fuel v)) as [ch|] eqn:Hch;
      [|discriminate].
    inversion Hbl; subst bl.
    destruct (iter_walk_chain vi v Hv (walk_fuel v) (dir_first_cluster v dc) [] s ch Hvi Hnf Hc Hch)
      as (s1 & Hrun & Hro).
    rewrite (bind_ok _ _ _ _ _ Hrun). exists s1. split; [|exact Hro].
    unfold ret, dir_slots. rewrite app_nil_r, rev_involutive. reflexivity.
Qed.

(* ------------------------------------------------------------------ the lookup walk *)
Fixpoint first_some {R} (f : N -> option R) (l : list N) : option R :=
  match l with
  | [] => None
  | b :: r => match f b with Some x => Some x | None => first_some f r end
  end.

Lemma first_some_app {R} (f : N -> option R) a b :
  first_some f (a ++ b) = match first_some f a with Some x => Some x | None => first_some f b end.
Proof. induction a as [|x a IH]; [reflexivity|]. cbn [app first_some]. destruct (f x); [reflexivity|exact IH]. Qed.

Lemma bind_bind {A B C} (m : M A) (k1 : A -> M B) (k2 : B -> M C) s :
  bind (bind m k1) k2 s = bind m (fun x => bind (k1 x) k2) s.
Proof. unfold bind. destruct (m s) as [[a|e| |] s1]; reflexivity. Qed.

Section ReadOnlyWalk.
  Variable R : Type.
  Variable g : disk -> N -> option R.
  Variable body : N -> M (option R).
  Hypothesis body_spec : forall blk s, no_faults s -> cache_ok s ->
    exists s', body blk s = (Ok (g (s_disk s) blk), s') /\ ro_step s s'.

  Lemma for_blocks_from_ro : forall n i s, no_faults s -> cache_ok s ->
    exists s', for_blocks_from n i body s = (Ok (first_some (g (s_disk s)) (blocks_from n i)), s')
               /\ ro_step s s'.
  Proof.
    induction n as [|n IH]; intros i s Hnf Hc.
    - exists s. split; [reflexivity|apply ro_refl; assumption].
    - cbn [for_blocks_from blocks_from first_some].
      destruct (body_spec i s Hnf Hc) as (s1 & Hb & Hro).
      rewrite (bind_ok _ _ _ _ _ Hb).
      destruct (g (s_disk s) i) as [x|].
      + exists s1. split; [reflexivity|exact Hro].
      + destruct (IH (i + 1) s1 (proj1 (proj2 (proj2 Hro))) (proj1 (proj2 Hro))) as (s2 & Hrun & Hro2).
        exists s2. split; [|exact (ro_trans _ _ _ Hro Hro2)].
        rewrite Hrun, (proj1 Hro). reflexivity.
  Qed.

  Lemma walk_dir_chain vi v : vol_ok v ->
    forall fuel c s ch, nth_error (s_vols s) vi = Some v -> no_faults s -> cache_ok s ->
    chain_of (s_disk s) v c fuel = Some ch ->
    exists s', walk_dir fuel vi c false body s =
      (Ok (first_some (g (s_disk s)) (flat_map (cluster_blocks v) ch)), s') /\ ro_step s s'.
  Proof.
    intros Hv. induction fuel as [|f IH]; intros c s ch Hvi Hnf Hc Hch; [discriminate|].
    destruct (chain_of_head _ _ _ _ _ Hch) as (R1 & R2 & (l' & El)).
    cbn [chain_of] in Hch.
    replace ((2 <=? c) && (c <? v_clusters v + 2)) with true in Hch
      by (symmetry; apply andb_true_iff; split; [apply N.leb_le|apply N.ltb_lt]; assumption).
    cbv zeta in Hch.
    cbn [walk_dir].
    rewrite (bind_ok _ _ _ _ _ (get_vol_some vi v s Hvi)).
    destruct (cluster_block_ok v c s Hv R1 R2) as (Hcb & Hfit).
    rewrite (bind_ok _ _ _ _ _ Hcb).
    assert (Hnr : (c =? CL_ROOT) = false) by (apply N.eqb_neq; apply (in_range_not_root v c Hv R2)).
    rewrite Hnr, andb_false_r. unfold for_blocks. rewrite bind_bind.
    rewrite (bind_ok _ _ _ _ _ (add32_ok _ _ s Hfit)).
    destruct (for_blocks_from_ro (N.to_nat (v_spc v)) (cluster_first_block v c) s Hnf Hc)
      as (s1 & Hfb & Hro1).
    rewrite (bind_ok _ _ _ _ _ Hfb). fold (cluster_blocks v c).
    subst ch. cbn [flat_map]. rewrite first_some_app.
    destruct (first_some (g (s_disk s)) (cluster_blocks v c)) as [x|].
    - exists s1. split; [reflexivity|exact Hro1].
    - destruct Hro1 as (Hd1 & Hc1 & Hnf1 & Hm1).
      assert (Hro1 : ro_step s s1) by (split; [exact Hd1|split; [exact Hc1|split; [exact Hnf1|exact Hm1]]]).
      destruct (next_cluster_reads v c s1 Hv R2 Hnf1 Hc1) as (s2 & Hnc & Hd2 & Hc2 & Hnf2 & Hm2).
      assert (Hro2 : ro_step s s2).
      { apply (ro_trans _ _ _ Hro1). split; [exact Hd2|split; [exact Hc2|split; [exact Hnf2|exact Hm2]]]. }
      rewrite (bind_ok _ _ _ _ _ Hnc). rewrite Hd1.
      destruct (fat_entry (s_disk s) v c =? fat_bad v) eqn:Hbad; [discriminate|].
      destruct (fat_eoc_min v <=? fat_entry (s_disk s) v c) eqn:Heoc.
      + inversion Hch; subst l'. rewrite (next_result_end _ _ Hbad Heoc).
        exists s2. split; [reflexivity|exact Hro2].
      + destruct (chain_of (s_disk s) v (fat_entry (s_disk s) v c) f) as [l|] eqn:Hrest; [|discriminate].
        inversion Hch; subst l'.
        destruct (chain_of_head _ _ _ _ _ Hrest) as (Q1 & _ & _).
        rewrite (next_result_link _ _ Hbad Heoc Q1).
        assert (Hvi2 : nth_error (s_vols s2) vi = Some v)
          by (apply (same_mgr_vol s s2); [apply Hro2|exact Hvi]).
        assert (Hrest2 : chain_of (s_disk s2) v (fat_entry (s_disk s) v c) f = Some l)
          by (rewrite (proj1 Hro2); exact Hrest).
        destruct (IH (fat_entry (s_disk s) v c) s2 l Hvi2 Hnf2 Hc2 Hrest2) as (s3 & Hrun & Hro3).
        exists s3. split; [|exact (ro_trans _ _ _ Hro2 Hro3)].
        rewrite Hrun, (proj1 Hro2). reflexivity.
  Qed.

  Lemma walk_dir_root16 vi v : vol_ok v -> v_fat32 v = false ->
    forall fuel s, nth_error (s_vols s) vi = Some v -> no_faults s -> cache_ok s ->
    exists s', walk_dir (S fuel) vi CL_ROOT false body s =
      (Ok (first_some (g (s_disk s)) (root16_blocks v)), s') /\ ro_step s s'.
  Proof.
    intros Hv H16 fuel s Hvi Hnf Hc.
    cbn [walk_dir].
    rewrite (bind_ok _ _ _ _ _ (get_vol_some vi v s Hvi)).
    pose proof (vo_root v Hv H16) as Hroot.
    assert (Hcb : cluster_to_block v CL_ROOT s = (Ok (v_lba v + v_root_block v), s)).
    { unfold cluster_to_block. rewrite H16. rewrite N.eqb_refl. apply add32_ok. lia. }
    rewrite (bind_ok _ _ _ _ _ Hcb). rewrite H16, N.eqb_refl. cbn [negb andb]. unfold for_blocks. rewrite bind_bind.
    rewrite (bind_ok _ _ _ _ _ (add32_ok _ _ s Hroot)).
    destruct (for_blocks_from_ro (N.to_nat (from_bytes (v_root_entries v * 32)))
                (v_lba v + v_root_block v) s Hnf Hc) as (s1 & Hfb & Hro1).
    rewrite (bind_ok _ _ _ _ _ Hfb). fold (root16_blocks v).
    exists s1. split; [|exact Hro1].
    destruct (first_some (g (s_disk s)) (root16_blocks v)); reflexivity.
  Qed.

  (* a read-only walk over the directory dc visits its blocks in order and stops at the
     first block for which the body answers *)
  Lemma walk_dir_ro vi v dc s bl :
    nth_error (s_vols s) vi = Some v -> vol_ok v -> no_faults s -> cache_ok s ->
    dir_blocks (s_disk s) v dc = Some bl ->
    exists s', walk_dir (walk_fuel v) vi (dir_first_cluster v dc) false body s =
      (Ok (first_some (g (s_disk s)) bl), s') /\ ro_step s s'.
  Proof.
    intros Hvi Hv Hnf Hc Hbl. unfold dir_blocks in Hbl.
    destruct (negb (v_fat32 v) && (dc =? CL_ROOT)) eqn:Hroot.
    - apply andb_true_iff in Hroot. destruct Hroot as [H16 Hdc].
      apply negb_true_iff in H16. apply N.eqb_eq in Hdc. subst dc. inversion Hbl; subst bl.
      unfold dir_first_cluster, walk_fuel. rewrite H16. cbn [andb].
      replace (N.to_nat (v_clusters v) + 4)%nat with (S (N.to_nat (v_clusters v) + 3)) by lia.
      apply walk_dir_root16; assumption.
    - destruct (chain_of (s_disk s) v (dir_first_cluster v dc) (walk_fuel v)) as [ch|] eqn:Hch;
        [|discriminate].
      inversion Hbl; subst bl. apply walk_dir_chain; assumption.
  Qed.
End ReadOnlyWalk.

(* ------------------------------------------------------------------ lookup *)
Lemma find_in_slots_t n fat32 b blk name : forall i,
  find_in_slots n fat32 b blk i name =
  option_map (t_entry fat32) (find (t_matches name) (before_end_all (tslots_from n b blk i))).
Proof.
  induction n as [|n IH]; intros i; cbn [find_in_slots tslots_from before_end_all]; [reflexivity|].
  change (t_is_end (blk, i * 32, slot b i)) with (is_end (slot b i)).
  destruct (is_end (slot b i)); [reflexivity|]. cbn [find].
  change (t_matches name (blk, i * 32, slot b i)) with (matches (slot b i) name).
  destruct (matches (slot b i) name); [reflexivity|apply IH].
Qed.

(* the slots the lookup examines: in each block, those before the block's own end marker
   (the code leaves a block at its end marker and goes on with the next block) *)
Definition live_in_blocks (d : disk) (bl : list N) : list tslot :=
  flat_map (fun blk => before_end_all (block_slots d blk)) bl.

Lemma first_some_find fat32 d name bl :
  first_some (fun blk => find_in_slots 16 fat32 (disk_get d blk) blk 0 name) bl =
  option_map (t_entry fat32) (find (t_matches name) (live_in_blocks d bl)).
Proof.
  induction bl as [|b bl IH]; [reflexivity|].
  cbn [first_some live_in_blocks flat_map]. rewrite find_in_slots_t, find_app_first.
  fold (block_slots d b).
  destruct (find (t_matches name) (before_end_all (block_slots d b))); [reflexivity|exact IH].
Qed.

(* C06: lookup returns the first slot, in on-disk order, whose 11 name bytes match among the
   slots before an end marker within their own block; NotFound exactly when there is none *)
Theorem C06_find vi v dc name s bl :
  nth_error (s_vols s) vi = Some v -> vol_ok v -> no_faults s -> cache_ok s ->
  dir_blocks (s_disk s) v dc = Some bl ->
  exists s', find_directory_entry vi dc name s =
    (match find (t_matches name) (live_in_blocks (s_disk s) bl) with
     | Some t => Ok (t_entry (v_fat32 v) t)
     | None => Err NotFound
     end, s')
    /\ s_disk s' = s_disk s /\ cache_ok s' /\ no_faults s' /\ same_mgr s s'.
Proof.
  intros Hvi Hv Hnf Hc Hbl. unfold find_directory_entry.
  rewrite (bind_ok _ _ _ _ _ (get_vol_some vi v s Hvi)).
  destruct (walk_dir_ro dirent
              (fun d blk => find_in_slots 16 (v_fat32 v) (disk_get d blk) blk 0 name)
              (fun blk => b <- cache_read blk ;; ret (find_in_slots 16 (v_fat32 v) b blk 0 name))
              ltac:(intros blk s0 Hnf0 Hc0; destruct (cache_read_ro blk s0 Hnf0 Hc0) as (s1 & Hr & Hro);
                    exists s1; split; [rewrite (bind_ok _ _ _ _ _ Hr); reflexivity|exact Hro])
              vi v dc s bl Hvi Hv Hnf Hc Hbl) as (s1 & Hrun & Hro).
  rewrite (bind_ok _ _ _ _ _ Hrun). rewrite first_some_find.
  exists s1. split; [|exact Hro].
  destruct (find (t_matches name) (live_in_blocks (s_disk s) bl)); reflexivity.
Qed.

(* ---- when nothing but end markers follows the first end marker (the state every writer of
   the FAT specification maintains), the slots examined by the lookup are exactly the slots
   before the first end marker: the slots of the listing ---- *)
Definition clean_tail (l : list tslot) : Prop := Forall (fun t => t_is_end t = true) (after_end l).

Lemma all_end_before l : Forall (fun t => t_is_end t = true) l -> before_end_all l = [].
Proof. destruct l as [|t l]; [reflexivity|]. intros H. inversion H; subst. cbn [before_end_all]. rewrite H2. reflexivity. Qed.

Lemma all_end_live d bl : Forall (fun t => t_is_end t = true) (slots_of d bl) -> live_in_blocks d bl = [].
Proof.
  induction bl as [|b bl IH]; [reflexivity|]. rewrite slots_of_cons. intros H.
  apply Forall_app in H. destruct H as [H1 H2].
  cbn [live_in_blocks flat_map]. rewrite (all_end_before _ H1). apply IH. exact H2.
Qed.

Lemma live_clean d bl : clean_tail (slots_of d bl) -> live_in_blocks d bl = before_end_all (slots_of d bl).
Proof.
  unfold clean_tail. induction bl as [|b bl IH]; [reflexivity|].
  rewrite slots_of_cons, after_end_app, before_end_all_app. cbn [live_in_blocks flat_map].
  destruct (existsb t_is_end (block_slots d b)) eqn:E; intros H.
  - apply Forall_app in H. destruct H as [_ H]. fold (live_in_blocks d bl).
    rewrite (all_end_live d bl H). apply app_nil_r.
  - rewrite (before_end_all_none _ E). f_equal. apply IH. exact H.
Qed.

Lemma list_eqb_true a : forall b, list_eqb a b = true -> a = b.
Proof.
  induction a as [|x a IH]; intros [|y b] H; cbn [list_eqb] in H; try discriminate; [reflexivity|].
  apply andb_true_iff in H. destruct H as [H1 H2]. apply N.eqb_eq in H1. subst y.
  f_equal. apply IH. exact H2.
Qed.

(* a slot matches a short name iff it is not a long-name fragment and its 11 name bytes are the name *)
Lemma matches_parts sl name :
  matches sl name = true -> is_lfn (get8 sl 11) = false /\ firstn 11 sl = name.
Proof.
  unfold matches. intros H. apply andb_true_iff in H. destruct H as [H1 H2].
  apply negb_true_iff in H1. split; [exact H1|]. apply list_eqb_true. exact H2.
Qed.

Lemma matches_valid name sl :
  get8 name 0 <> 0 -> get8 name 0 <> 229 -> matches sl name = true -> is_valid sl = true.
Proof.
  intros H0 H1 Hm. apply matches_parts in Hm. destruct Hm as [_ Hm].
  assert (E : get8 sl 0 = get8 name 0).
  { rewrite <- Hm. unfold get8. destruct sl; reflexivity. }
  unfold is_valid, is_end. rewrite E.
  apply N.eqb_neq in H0. apply N.eqb_neq in H1. rewrite H0, H1. reflexivity.
Qed.

(* C06, corollary: lookup finds exactly the listed names - the answer is the first entry of the
   listing (same slots, same order as C06_iterate) whose name matches, NotFound iff no listed
   entry matches *)
Theorem C06_find_listed vi v dc name s bl :
  nth_error (s_vols s) vi = Some v -> vol_ok v -> no_faults s -> cache_ok s ->
  dir_blocks (s_disk s) v dc = Some bl ->
  clean_tail (slots_of (s_disk s) bl) ->
  get8 name 0 <> 0 -> get8 name 0 <> 229 ->
  exists s', find_directory_entry vi dc name s =
    (match find (t_matches name) (filter t_is_valid (before_end_all (slots_of (s_disk s) bl))) with
     | Some t => Ok (t_entry (v_fat32 v) t)
     | None => Err NotFound
     end, s')
    /\ s_disk s' = s_disk s /\ cache_ok s' /\ no_faults s' /\ same_mgr s s'.
Proof.
  intros Hvi Hv Hnf Hc Hbl Hclean N0 N1.
  destruct (C06_find vi v dc name s bl Hvi Hv Hnf Hc Hbl) as (s1 & Hrun & Hro).
  exists s1. split; [|exact Hro]. rewrite Hrun, (live_clean _ _ Hclean).
  rewrite (find_filter_same (t_matches name) t_is_valid); [reflexivity|].
  intros t Ht. apply (matches_valid name (snd t) N0 N1 Ht).
Qed.

(* ------------------------------------------------------------------ the fuel of chain_of is no restriction *)
(* chain_of uses the model's walk fuel (clusters + 4) in dir_blocks; a chain found with ANY
   fuel is found with that one: a defined chain never repeats a cluster, so it has at most
   v_clusters elements *)
Lemma chain_of_mono d v : forall f c l f', chain_of d v c f = Some l -> (f <= f')%nat ->
  chain_of d v c f' = Some l.
Proof.
  induction f as [|f IH]; intros c l f' H Hle; [discriminate|].
  destruct f' as [|f']; [lia|]. cbn [chain_of] in *.
  destruct ((2 <=? c) && (c <? v_clusters v + 2)); [|discriminate].
  cbv zeta in *. destruct (fat_entry d v c =? fat_bad v); [discriminate|].
  destruct (fat_eoc_min v <=? fat_entry d v c); [exact H|].
  destruct (chain_of d v (fat_entry d v c) f) as [l0|] eqn:E; [|discriminate].
  rewrite (IH _ _ f' E ltac:(lia)). exact H.
Qed.

Lemma chain_of_exact d v : forall f c l, chain_of d v c f = Some l -> chain_of d v c (length l) = Some l.
Proof.
  induction f as [|f IH]; intros c l H; [discriminate|].
  cbn [chain_of] in H.
  destruct ((2 <=? c) && (c <? v_clusters v + 2)) eqn:Hr; [|discriminate].
  cbv zeta in H. destruct (fat_entry d v c =? fat_bad v) eqn:Hb; [discriminate|].
  destruct (fat_eoc_min v <=? fat_entry d v c) eqn:He.
  - inversion H; subst l. cbn [length chain_of]. rewrite Hr. cbv zeta. rewrite Hb, He. reflexivity.
  - destruct (chain_of d v (fat_entry d v c) f) as [l0|] eqn:E; [|discriminate].
    inversion H; subst l. cbn [length chain_of]. rewrite Hr. cbv zeta. rewrite Hb, He.
    rewrite (IH _ _ E). reflexivity.
Qed.

Lemma chain_of_det d v c f1 f2 l1 l2 :
  chain_of d v c f1 = Some l1 -> chain_of d v c f2 = Some l2 -> l1 = l2.
Proof.
  intros H1 H2.
  pose proof (chain_of_mono d v f1 c l1 (Nat.max f1 f2) H1 ltac:(lia)) as E1.
  pose proof (chain_of_mono d v f2 c l2 (Nat.max f1 f2) H2 ltac:(lia)) as E2.
  congruence.
Qed.

Lemma chain_of_suffix d v : forall f c l, chain_of d v c f = Some l ->
  forall x, In x l -> exists f' l', chain_of d v x f' = Some l' /\ (length l' <= length l)%nat.
Proof.
  induction f as [|f IH]; intros c l H x Hx; [discriminate|].
  pose proof H as H0. cbn [chain_of] in H.
  destruct ((2 <=? c) && (c <? v_clusters v + 2)); [|discriminate].
  cbv zeta in H. destruct (fat_entry d v c =? fat_bad v); [discriminate|].
  destruct (fat_eoc_min v <=? fat_entry d v c).
  - inversion H; subst l. destruct Hx as [->|[]]. exists (S f), [x]. split; [exact H0|lia].
  - destruct (chain_of d v (fat_entry d v c) f) as [l0|] eqn:E; [|discriminate].
    inversion H; subst l. destruct Hx as [->|Hx].
    + exists (S f), (x :: l0). split; [exact H0|lia].
    + destruct (IH _ _ E x Hx) as (f' & l' & A & B). exists f', l'. split; [exact A|cbn [length]; lia].
Qed.

Lemma chain_of_nodup d v : forall f c l, chain_of d v c f = Some l -> NoDup l.
Proof.
  induction f as [|f IH]; intros c l H; [discriminate|].
  pose proof H as H0. cbn [chain_of] in H.
  destruct ((2 <=? c) && (c <? v_clusters v + 2)); [|discriminate].
  cbv zeta in H. destruct (fat_entry d v c =? fat_bad v); [discriminate|].
  destruct (fat_eoc_min v <=? fat_entry d v c).
  - inversion H; subst l. constructor; [intros []|constructor].
  - destruct (chain_of d v (fat_entry d v c) f) as [l0|] eqn:E; [|discriminate].
    inversion H; subst l. constructor; [|exact (IH _ _ E)].
    intros Hin. destruct (chain_of_suffix d v _ _ _ E c Hin) as (f' & l' & A & B).
    pose proof (chain_of_det d v c _ _ _ _ A H0) as El. subst l'. cbn [length] in B. lia.
Qed.

Lemma chain_of_range d v : forall f c l, chain_of d v c f = Some l ->
  Forall (fun x => 2 <= x /\ x < v_clusters v + 2) l.
Proof.
  induction f as [|f IH]; intros c l H; [discriminate|].
  destruct (chain_of_head _ _ _ _ _ H) as (R1 & R2 & _).
  cbn [chain_of] in H.
  destruct ((2 <=? c) && (c <? v_clusters v + 2)); [|discriminate].
  cbv zeta in H. destruct (fat_entry d v c =? fat_bad v); [discriminate|].
  destruct (fat_eoc_min v <=? fat_entry d v c).
  - inversion H; subst l. constructor; [split; assumption|constructor].
  - destruct (chain_of d v (fat_entry d v c) f) as [l0|] eqn:E; [|discriminate].
    inversion H; subst l. constructor; [split; assumption|exact (IH _ _ E)].
Qed.

Lemma range_nodup_length (n : N) (l : list N) :
  NoDup l -> Forall (fun x => 2 <= x /\ x < n + 2) l -> (length l <= N.to_nat n)%nat.
Proof.
  intros Hnd Hr.
  assert (Hnd' : NoDup (map N.to_nat l)).
  { apply FinFun.Injective_map_NoDup; [|exact Hnd]. intros a b E. apply N2Nat.inj. exact E. }
  assert (Hincl : incl (map N.to_nat l) (seq 2 (N.to_nat n))).
  { intros y Hy. apply in_map_iff in Hy. destruct Hy as (x & <- & Hx).
    rewrite Forall_forall in Hr. specialize (Hr x Hx). apply in_seq. lia. }
  pose proof (NoDup_incl_length Hnd' Hincl) as L. rewrite map_length, seq_length in L. exact L.
Qed.

Theorem chain_of_walk_fuel d v c f l :
  chain_of d v c f = Some l -> chain_of d v c (walk_fuel v) = Some l.
Proof.
  intros H.
  pose proof (range_nodup_length (v_clusters v) l (chain_of_nodup d v f c l H) (chain_of_range d v f c l H)) as L.
  apply (chain_of_mono d v (length l)); [exact (chain_of_exact d v f c l H)|].
  unfold walk_fuel. lia.
Qed.

(* ------------------------------------------------------------------ a lookup never takes a long-name slot *)
(* The repaired behaviour (the crate's OnDiskDirEntry::matches ignored the attribute byte before:
   a long-name fragment whose first 11 bytes - sequence byte, five UTF-16 units - spell an 8.3
   name, possible with CJK long names, was found, opened as a file, and its "first cluster" freed
   by a delete).  For EVERY state - any directory contents, any FAT, faults or not - whatever
   find_directory_entry returns was decoded from a slot whose attribute is not the long-name
   attribute, and the slot whose first byte delete_directory_entry overwrites is no long-name slot. *)
Lemma c06_bind_inv {A B} (m : M A) (k : A -> M B) s b s' :
  bind m k s = (Ok b, s') -> exists a s1, m s = (Ok a, s1) /\ k a s1 = (Ok b, s').
Proof. unfold bind. destruct (m s) as [[a| e | |] s1]; intros H; try discriminate. eauto. Qed.

Lemma c06_try_inv {A} (m : M A) s x s' : try m s = (Ok x, s') ->
  (exists a, x = inl a /\ m s = (Ok a, s')) \/ (exists e, x = inr e /\ m s = (Err e, s')).
Proof. unfold try. destruct (m s) as [[a| e | |] s1]; intros H; inversion H; subst; eauto. Qed.

Lemma c06_ret_inv {A} (a b : A) s s' : ret a s = (Ok b, s') -> a = b /\ s = s'.
Proof. unfold ret. intros H. inversion H. auto. Qed.

(* a loop over blocks that returns Some x returns what its body returned for one block, and
   stops there *)
Lemma for_blocks_from_hit {R} (body : N -> M (option R)) : forall n i s x s',
  for_blocks_from n i body s = (Ok (Some x), s') -> exists blk s0, body blk s0 = (Ok (Some x), s').
Proof.
  induction n as [|n IH]; intros i s x s' H; cbn [for_blocks_from] in H; [discriminate H|].
  apply c06_bind_inv in H. destruct H as (r & s1 & Hb & H). destruct r as [y|].
  - unfold ret in H. inversion H; subst. exists i, s. exact Hb.
  - exact (IH _ _ _ _ H).
Qed.

Lemma walk_dir_hit {R} vi grow (body : N -> M (option R)) : forall fuel cl s x s',
  walk_dir fuel vi cl grow body s = (Ok (Some x), s') -> exists blk s0, body blk s0 = (Ok (Some x), s').
Proof.
  induction fuel as [|f IH]; intros cl s x s' H; cbn [walk_dir] in H; [discriminate H|].
  apply c06_bind_inv in H. destruct H as (v & s1 & _ & H).
  apply c06_bind_inv in H. destruct H as (first & s2 & _ & H). cbv zeta in H.
  apply c06_bind_inv in H. destruct H as (r & s3 & Hr & H). destruct r as [y|].
  - unfold ret in H. inversion H; subst. unfold for_blocks in Hr.
    apply c06_bind_inv in Hr. destruct Hr as (u & s4 & _ & Hr). exact (for_blocks_from_hit body _ _ _ _ _ Hr).
  - destruct (negb (v_fat32 v) && (cl =? CL_ROOT)); [discriminate H|].
    apply c06_bind_inv in H. destruct H as (nc & s4 & _ & H). destruct nc as [n|e].
    + exact (IH _ _ _ _ H).
    + destruct e; try discriminate H. destruct grow; [|discriminate H].
      apply c06_bind_inv in H. destruct H as (c & s5 & _ & H). exact (IH _ _ _ _ H).
Qed.

(* one block: the entry found / the offset to overwrite belongs to a slot that is no long-name
   fragment and carries the name *)
Lemma find_in_slots_not_lfn n fat32 b blk name : forall i e,
  find_in_slots n fat32 b blk i name = Some e -> is_lfn (e_attr e) = false /\ e_name e = name.
Proof.
  induction n as [|n IH]; intros i e H; cbn [find_in_slots] in H; [discriminate H|]. cbv zeta in H.
  destruct (is_end (slot b i)); [discriminate H|].
  destruct (matches (slot b i) name) eqn:Hm; [|exact (IH _ _ H)].
  inversion H; subst e. cbn [get_entry e_attr e_name]. exact (matches_parts _ _ Hm).
Qed.

Lemma delete_in_slots_not_lfn n b name : forall i start,
  delete_in_slots n b i name = Some start ->
  exists k, start = k * 32 /\ is_end (slot b k) = false /\
            is_lfn (get8 (slot b k) 11) = false /\ firstn 11 (slot b k) = name.
Proof.
  induction n as [|n IH]; intros i start H; cbn [delete_in_slots] in H; [discriminate H|]. cbv zeta in H.
  destruct (is_end (slot b i)) eqn:He; [discriminate H|].
  destruct (matches (slot b i) name) eqn:Hm; [|exact (IH _ _ H)].
  inversion H; subst start. exists i. split; [reflexivity|]. split; [exact He|exact (matches_parts _ _ Hm)].
Qed.

(* C06: no hypothesis at all *)
Theorem C06_find_never_lfn vi dc name s e s' :
  find_directory_entry vi dc name s = (Ok e, s') -> is_lfn (e_attr e) = false /\ e_name e = name.
Proof.
  intros H. unfold find_directory_entry in H.
  apply c06_bind_inv in H. destruct H as (v & s1 & _ & H).
  apply c06_bind_inv in H. destruct H as (r & s2 & Hw & H).
  destruct r as [e0|]; [|discriminate H]. unfold ret in H. inversion H; subst e0 s2.
  destruct (walk_dir_hit _ _ _ _ _ _ _ _ Hw) as (blk & s0 & Hb).
  apply c06_bind_inv in Hb. destruct Hb as (b & s3 & _ & Hb). apply c06_ret_inv in Hb. destruct Hb as [Hf _].
  exact (find_in_slots_not_lfn _ _ _ _ _ _ _ Hf).
Qed.

(* a successful delete read some block b, found in it the slot k (not after the block's end
   marker, no long-name fragment, carrying the name), and its last action was to set byte k * 32 of
   that block - the first byte of that slot - to 0xE5 and write the block back *)
Theorem C06_delete_never_lfn vi dc name s s' :
  delete_directory_entry vi dc name s = (Ok tt, s') ->
  exists blk s0 b s1 k,
    cache_read blk s0 = (Ok b, s1) /\ delete_in_slots 16 b 0 name = Some (k * 32) /\
    is_end (slot b k) = false /\ is_lfn (get8 (slot b k) 11) = false /\ firstn 11 (slot b k) = name /\
    (cache_modify (fun b => set_bytes b (k * 32) [229]) ;;; write_back) s1 = (Ok tt, s').
Proof.
  intros H. unfold delete_directory_entry in H.
  apply c06_bind_inv in H. destruct H as (v & s1 & _ & H).
  apply c06_bind_inv in H. destruct H as (r & s2 & Hw & H).
  destruct r as [u|]; [|discriminate H]. unfold ret in H. inversion H; subst s2.
  destruct (walk_dir_hit _ _ _ _ _ _ _ _ Hw) as (blk & s0 & Hb).
  apply c06_bind_inv in Hb. destruct Hb as (b & s3 & Hread & Hb).
  destruct (delete_in_slots 16 b 0 name) as [start|] eqn:Hd; [|discriminate Hb].
  destruct (delete_in_slots_not_lfn _ _ _ _ _ Hd) as (k & -> & He & Hl & Hn).
  exists blk, s0, b, s3, k. split; [exact Hread|]. split; [exact Hd|].
  split; [exact He|]. split; [exact Hl|]. split; [exact Hn|].
  apply c06_bind_inv in Hb. destruct Hb as (u1 & s4 & Hm & Hb).
  apply c06_bind_inv in Hb. destruct Hb as (u2 & s5 & Hwb & Hb).
  unfold ret in Hb. inversion Hb; subst s5.
  unfold bind at 1. rewrite Hm. destruct u2. exact Hwb.
Qed.

(* the same on the SPEC side: the slot C06_find / PrEntry.delete_directory_entry_spec name as the
   one found is no long-name slot *)
Theorem find_matches_not_lfn name l t : find (t_matches name) l = Some t ->
  is_lfn (get8 (snd t) 11) = false /\ firstn 11 (snd t) = name.
Proof. intros H. destruct (find_some _ _ H) as [_ Hm]. exact (matches_parts _ _ Hm). Qed.

(* the witness of the old defect: a long-name fragment with sequence byte 0x41 ("last, first")
   and five UTF-16 units U+4242, attribute 0x0F.  Its first 11 bytes are the 8.3 name
   "ABBBBBBB.BBB"; the old comparison (the 11 name bytes only) took it for that file. *)
Definition lfn_slot_cjk : list N :=
  [65; 66; 66; 66; 66; 66; 66; 66; 66; 66; 66; 15; 0; 99; 66; 66; 66; 66; 66; 66; 66; 66; 66; 66; 66; 66;
   0; 0; 66; 66; 66; 66].
Definition lfn_clash_name : list N := 65 :: repeat 66 10.
Example C06_lfn_slot_not_matched :
  length lfn_slot_cjk = 32%nat /\ is_lfn (get8 lfn_slot_cjk 11) = true /\
  is_valid lfn_slot_cjk = true /\
  list_eqb (firstn 11 lfn_slot_cjk) lfn_clash_name = true /\     (* what the old code compared *)
  matches lfn_slot_cjk lfn_clash_name = false /\
  sfn_of_str [65; 66; 66; 66; 66; 66; 66; 66; 46; 66; 66; 66] = Some lfn_clash_name.
Proof. vm_compute. repeat split; reflexivity. Qed.

(* ------------------------------------------------------------------ the hypotheses are satisfiable *)
(* a FAT16 volume with a two-cluster directory (clusters 2 -> 3 -> end) holding one entry "A" *)
Definition exd_vol : vol :=
  mk_vol 0 0 10 1000 [] 2 20 1 None None None 100 false 32 12 0 0.
Definition exd_name : list N := 65 :: repeat 32 10.
Definition exd_disk : disk :=
  disk_set (disk_set (PositiveMap.empty block) 11
              (set_bytes zero_block 0 [248; 255; 255; 255; 3; 0; 255; 255]))
           30 (set_bytes zero_block 0 (exd_name ++ [32])).
Definition exd_state : st :=
  mk_st exd_disk zero_block None [exd_vol] [] [] 0 0 0 [] [] false 1 1 1.

Example dir_example :
  vol_ok exd_vol /\ no_faults exd_state /\ cache_ok exd_state /\
  dir_blocks exd_disk exd_vol 2 = Some [30; 31; 32; 33] /\
  dir_blocks exd_disk exd_vol CL_ROOT = Some [22; 23] /\
  clean_tail (slots_of exd_disk [30; 31; 32; 33]) /\
  (exists e, fst (iterate_dir_all 0 2 exd_state) = Ok [e] /\ e_name e = exd_name /\
             fst (find_directory_entry 0 2 exd_name exd_state) = Ok e) /\
  fst (find_directory_entry 0 CL_ROOT exd_name exd_state) = Err NotFound.
Proof.
  split; [constructor; try (intros _); vm_compute; reflexivity|].
  split; [intros n H; destruct H|]. split; [intros i H; discriminate H|].
  split; [vm_compute; reflexivity|]. split; [vm_compute; reflexivity|].
  split.
  { unfold clean_tail. apply Forall_forall. intros t Ht.
    revert t Ht. apply Forall_forall. vm_compute. repeat constructor. }
  split; [|vm_compute; reflexivity].
  eexists. split; [vm_compute; reflexivity|]. split; vm_compute; reflexivity.
Qed.

(* the long-name witness in a directory: the example volume with that fragment (and the short entry
   "LONG~1" it belongs to) in front of the entry "A".  The old comparison (11 name bytes only) hits
   the fragment at (30, 0); the lookup of "ABBBBBBB.BBB" says NotFound, the delete too and leaves
   the block as it is; the two short entries are found at their slots. *)
Definition exl_short : list N := [76; 79; 78; 71; 126; 49; 32; 32; 32; 32; 32].
Definition exl_disk : disk :=
  disk_set exd_disk 30 (set_bytes (set_bytes (set_bytes zero_block 0 lfn_slot_cjk) 32 (exl_short ++ [32]))
                                  64 (exd_name ++ [32])).
Definition exl_state : st :=
  mk_st exl_disk zero_block None [exd_vol] [] [] 0 0 0 [] [] false 1 1 1.

Example C06_lfn_dir_example :
  dir_blocks exl_disk exd_vol 2 = Some [30; 31; 32; 33] /\
  find (fun t : tslot => list_eqb (firstn 11 (snd t)) lfn_clash_name) (live_in_blocks exl_disk [30; 31; 32; 33])
    = Some (30, 0, lfn_slot_cjk) /\
  find (t_matches lfn_clash_name) (live_in_blocks exl_disk [30; 31; 32; 33]) = None /\
  fst (find_directory_entry 0 2 lfn_clash_name exl_state) = Err NotFound /\
  fst (delete_directory_entry 0 2 lfn_clash_name exl_state) = Err NotFound /\
  disk_get (s_disk (snd (delete_directory_entry 0 2 lfn_clash_name exl_state))) 30 = disk_get exl_disk 30 /\
  (exists e, fst (find_directory_entry 0 2 exl_short exl_state) = Ok e /\ e_block e = 30 /\ e_offset e = 32) /\
  (exists e, fst (find_directory_entry 0 2 exd_name exl_state) = Ok e /\ e_block e = 30 /\ e_offset e = 64) /\
  map e_name (match fst (iterate_dir_all 0 2 exl_state) with Ok l => l | _ => [] end)
    = [lfn_clash_name; exl_short; exd_name].
Proof.
  split; [vm_compute; reflexivity|]. split; [vm_compute; reflexivity|]. split; [vm_compute; reflexivity|].
  split; [vm_compute; reflexivity|]. split; [vm_compute; reflexivity|]. split; [vm_compute; reflexivity|].
  split; [eexists; split; [vm_compute; reflexivity|split; reflexivity]|].
  split; [eexists; split; [vm_compute; reflexivity|split; reflexivity]|].
  vm_compute. reflexivity.
Qed.

Print Assumptions C06_iterate.
Print Assumptions C06_find_never_lfn.
Print Assumptions C06_delete_never_lfn.
Print Assumptions find_matches_not_lfn.
Print Assumptions C06_lfn_slot_not_matched.
Print Assumptions C06_lfn_dir_example.
Print Assumptions C06_find.
Print Assumptions C06_find_listed.
Print Assumptions chain_of_walk_fuel.
